//go:build verif

package main

// C08 — identical inputs and options give byte-identical output.
//
// (i)  correspondence: graph.Nodes.Sort (7 orders), graph.EdgeMap.Sort, graph.SortTags are called on
//      shuffled copies of tie-rich inputs; all shuffles must give ONE order (direct oracle), that
//      order must be the model's `sortBy (lessOf <regenerated descriptors>)` (driver), the model's
//      PrintableName / fmt.Sprint renderings must equal Go's, and the documented direction
//      contract (weights by decreasing magnitude, text/positions increasing) must hold.
// (ii) direct oracle on the CLI: every report format run k times in fresh processes (fresh map
//      seeds) on tie-rich generated profiles must be byte-identical; in-process serialization twice.

import (
	"bytes"
	"encoding/hex"
	"fmt"
	"os"
	"os/exec"
	"path/filepath"
	"regexp"
	"sort"
	"strconv"
	"strings"
	"sync"

	"github.com/google/pprof/internal/graph"
	"github.com/google/pprof/profile"
)

func init() { register("C08", runC08) }

// ---------- replay case ----------

type c08Info struct {
	Name, OrigName string
	Address        uint64
	File           string
	StartLine      int
	Lineno         int
	Columnno       int
	Objfile        string
}

type c08Node struct {
	Info      c08Info
	Flat, Cum int64
}

type c08Edge struct {
	Src, Dst int // indices into Nodes
	Weight   int64
}

type c08Tag struct {
	Name      string
	Flat, Cum int64
}

type c08Case struct {
	Kind   string    `json:"kind"` // nodes | edges | tags | cli | serialize
	Stream string    `json:"stream,omitempty"`
	Order  string    `json:"order,omitempty"`
	Flat   bool      `json:"flat,omitempty"`
	Nodes  []c08Node `json:"nodes,omitempty"`
	Edges  []c08Edge `json:"edges,omitempty"`
	Tags   []c08Tag  `json:"tags,omitempty"`
	Seed   uint64    `json:"shuffle_seed,omitempty"`

	Profile string   `json:"profile,omitempty"`       // canonical token form
	More    []string `json:"more_profiles,omitempty"` // further sources given on the same command line
	Args    []string `json:"args,omitempty"`
	Runs    int      `json:"runs,omitempty"`
	Envs    []string `json:"environments_of_the_two_outputs,omitempty"`
	Out1    string   `json:"output_1,omitempty"`
	Out2    string   `json:"output_2,omitempty"`
	Orders  []string `json:"observed_orders,omitempty"`
	Model   string   `json:"model_order,omitempty"`
}

var c08Orders = []struct {
	name string
	o    graph.NodeOrder
}{
	{"FlatNameOrder", graph.FlatNameOrder}, {"FlatCumNameOrder", graph.FlatCumNameOrder}, {"CumNameOrder", graph.CumNameOrder},
	{"NameOrder", graph.NameOrder}, {"FileOrder", graph.FileOrder}, {"AddressOrder", graph.AddressOrder}, {"EntropyOrder", graph.EntropyOrder},
}

const c08MinI64 = -1 << 63

func c08abs(v int64) int64 { // Go's abs64 (MinInt64 stays negative)
	if v < 0 {
		return -v
	}
	return v
}

// ---------- token encoding for the driver ----------

func (w *tw) c08info(i c08Info) {
	w.str(i.Name)
	w.str(i.OrigName)
	w.nat(i.Address)
	w.str(i.File)
	w.n(i.StartLine)
	w.n(i.Lineno)
	w.n(i.Columnno)
	w.str(i.Objfile)
}

func (w *tw) c08node(n c08Node) {
	w.c08info(n.Info)
	w.int(n.Flat)
	w.int(0)
	w.int(n.Cum)
	w.int(0)
	w.int(0)
}

func c08GoInfo(i c08Info) graph.NodeInfo {
	return graph.NodeInfo{Name: i.Name, OrigName: i.OrigName, Address: i.Address, File: i.File, StartLine: i.StartLine,
		Lineno: i.Lineno, Columnno: i.Columnno, Objfile: i.Objfile}
}

func c08GoNode(n c08Node) *graph.Node {
	return &graph.Node{Info: c08GoInfo(n.Info), Flat: n.Flat, Cum: n.Cum, In: graph.EdgeMap{}, Out: graph.EdgeMap{},
		LabelTags: graph.TagMap{}, NumericTags: map[string]graph.TagMap{}}
}

func perm(r *Rng, n int) []int {
	p := make([]int, n)
	for i := range p {
		p[i] = i
	}
	for i := n - 1; i > 0; i-- {
		j := r.Intn(i + 1)
		p[i], p[j] = p[j], p[i]
	}
	return p
}

func idxString(ix []int) string {
	s := make([]string, len(ix))
	for i, v := range ix {
		s[i] = strconv.Itoa(v)
	}
	return strings.Join(s, " ")
}

// parseModelOrder parses "ok n i… ties t".
func parseModelOrder(reply string) (order string, ties int, ok bool) {
	f := strings.Fields(reply)
	if len(f) < 4 || f[0] != "ok" {
		return "", 0, false
	}
	n, err := strconv.Atoi(f[1])
	if err != nil || len(f) != n+4 || f[n+2] != "ties" {
		return "", 0, false
	}
	t, err := strconv.Atoi(f[n+3])
	if err != nil {
		return "", 0, false
	}
	return strings.Join(f[2:n+2], " "), t, true
}

const c08Shuffles = 8

// verdict shared by the three sort correspondences.
//
//	orders: the order (as input indices) returned by the real code for each shuffle
//	known : the input comes from the known-finding stream (strings with embedded spaces)
func c08Judge(c *Ctx, what, sigBase, theorem, req string, orders []string, cs c08Case) {
	distinct := map[string]bool{}
	for _, o := range orders {
		distinct[o] = true
	}
	cs.Orders = nil
	for o := range distinct {
		cs.Orders = append(cs.Orders, o)
	}
	sort.Strings(cs.Orders)
	reply := c.Drv.Ask(req)
	mo, ties, ok := parseModelOrder(reply)
	cs.Model = reply
	c.Res.ModelCompared++
	known := cs.Stream == "spaces" && !c08SprintCollisionFix
	if len(distinct) > 1 {
		if known && !ok {
			// without the model the known collision cannot be told from a new defect; the dead
			// driver is reported on its own (plain stream), so do not guess here
			c.Res.Hit("known-stream-unclassified")
			return
		}
		if known && ties > 0 {
			// fmt.Sprint(NodeInfo) cannot separate infos whose strings contain spaces
			c.Violation("C08/compareNodes/sprint-collision", what+": distinct NodeInfos whose fmt.Sprint renderings coincide are left unordered ("+strconv.Itoa(len(distinct))+" different results over shuffles)", cs)
			c.Res.Hit("known-collision-reproduced")
			return
		}
		c.Violation(sigBase+"/nondeterministic", fmt.Sprintf("%s returns %d different orders for shuffles of the same elements", what, len(distinct)), cs)
		return
	}
	if !ok {
		c.Disagree(sigBase+"/model-"+firstWord(reply), "model did not return an order: "+trunc(reply), theorem, cs)
		return
	}
	if known && ties > 0 {
		c.Res.Hit("known-collision-not-observed")
		return
	}
	if ties > 0 {
		c.Disagree(sigBase+"/model-ties", what+": the regenerated comparator leaves distinct elements unordered (no differing result observed)", theorem, cs)
		return
	}
	if orders[0] != mo {
		c.Disagree(sigBase+"/order", what+": real order differs from the model's sortBy(lessOf generated descriptors)", "correspondence lessOf(Gen.Comparators) ~ "+what+" ("+theorem+")", cs)
	}
}

// ---------- (i) nodes ----------

func c08Nodes(c *Ctx, cs c08Case) {
	var ord graph.NodeOrder = -1
	for _, o := range c08Orders {
		if o.name == cs.Order {
			ord = o.o
		}
	}
	if ord < 0 {
		c.Res.HarnessError = "unknown order " + cs.Order
		return
	}
	r := NewRng(cs.Seed)
	var orders []string
	for s := 0; s < c08Shuffles; s++ {
		p := perm(r, len(cs.Nodes))
		ns := make(graph.Nodes, len(p))
		back := map[*graph.Node]int{}
		for i, j := range p {
			ns[i] = c08GoNode(cs.Nodes[j])
			back[ns[i]] = j
		}
		var err error
		if pn := safely(func() { err = ns.Sort(ord) }); pn != "" || err != nil {
			c.Violation("C08/Nodes.Sort/"+cs.Order+"/panic-or-error", fmt.Sprint(pn, err), cs)
			return
		}
		ix := make([]int, len(ns))
		for i, n := range ns {
			ix[i] = back[n]
		}
		orders = append(orders, idxString(ix))
		if s == 0 {
			c08Contract(c, cs, ns)
		}
	}
	if cs.Order == "EntropyOrder" {
		// the score is float64 arithmetic outside the model: determinism oracle only
		d := map[string]bool{}
		for _, o := range orders {
			d[o] = true
		}
		if len(d) > 1 && (cs.Stream != "spaces" || c08SprintCollisionFix) {
			cs.Orders = orders
			c.Violation("C08/Nodes.Sort/EntropyOrder/nondeterministic", fmt.Sprintf("Nodes.Sort(EntropyOrder) returns %d different orders for shuffles of the same nodes", len(d)), cs)
		}
		return
	}
	var w tw
	w.tok("sort.nodes")
	w.tok(cs.Order)
	w.n(len(cs.Nodes))
	for _, n := range cs.Nodes {
		w.c08node(n)
	}
	c08Judge(c, "Nodes.Sort("+cs.Order+")", "C08/Nodes.Sort/"+cs.Order, "nodes_order_strict_total_partial", w.String(), orders, cs)
}

// c08Contract: the documented contract of Nodes.Sort — "decreasing order for (absolute) numeric
// quantities, alphabetically for text, and increasing for addresses" — on the key sequence that
// the name of the order announces (FlatName = |flat| then name, FlatCumName = |flat|, |cum|, name, …).
func c08Contract(c *Ctx, cs c08Case, ns graph.Nodes) {
	desc := func(x, y int64) int { // decreasing magnitude
		switch {
		case c08abs(x) > c08abs(y):
			return -1
		case c08abs(x) < c08abs(y):
			return 1
		}
		return 0
	}
	name := func(a, b *graph.Node) int { return strings.Compare(a.Info.PrintableName(), b.Info.PrintableName()) }
	for i := 1; i < len(ns); i++ {
		a, b := ns[i-1], ns[i]
		var keys []int
		switch cs.Order {
		case "FlatNameOrder":
			keys = []int{desc(a.Flat, b.Flat), name(a, b)}
		case "FlatCumNameOrder":
			keys = []int{desc(a.Flat, b.Flat), desc(a.Cum, b.Cum), name(a, b)}
		case "CumNameOrder":
			keys = []int{desc(a.Cum, b.Cum), name(a, b)}
		case "NameOrder":
			keys = []int{strings.Compare(a.Info.Name, b.Info.Name)}
		case "FileOrder":
			keys = []int{strings.Compare(a.Info.File, b.Info.File)}
		case "AddressOrder":
			switch {
			case a.Info.Address < b.Info.Address:
				keys = []int{-1}
			case a.Info.Address > b.Info.Address:
				keys = []int{1}
			}
		}
		for _, k := range keys {
			if k < 0 {
				break
			}
			if k > 0 {
				c.Violation("C08/order-contract/Nodes.Sort/"+cs.Order, "result is not ordered by the key sequence the order is named after (decreasing magnitude for weights, increasing for text/addresses)", cs)
				return
			}
		}
	}
}

func c08RenderCheck(c *Ctx, n c08Node) {
	var w tw
	w.tok("node.render")
	w.c08node(n)
	gi := c08GoInfo(n.Info)
	want := hexTok([]byte(gi.PrintableName())) + " " + hexTok([]byte(fmt.Sprint(gi)))
	got := c.Drv.Ask(w.String())
	c.Res.ModelCompared++
	if got != want {
		f1, f2 := strings.Fields(got), strings.Fields(want)
		which := "printableName"
		if len(f1) == 2 && f1[0] == f2[0] {
			which = "sprint"
		}
		c.Disagree("C08/model/"+which, "model rendering of a NodeInfo differs from Go's: "+trunc(got)+" vs "+trunc(want), "correspondence GraphOrder."+which+" ~ NodeInfo rendering", c08Case{Kind: "render", Nodes: []c08Node{n}})
	}
}

// ---------- (i) edges ----------

func c08Edges(c *Ctx, cs c08Case) {
	r := NewRng(cs.Seed)
	var orders []string
	for s := 0; s < c08Shuffles; s++ {
		nodes := make([]*graph.Node, len(cs.Nodes))
		for i, n := range cs.Nodes {
			nodes[i] = c08GoNode(n)
		}
		em := graph.EdgeMap{}
		back := map[*graph.Edge]int{}
		for _, j := range perm(r, len(cs.Edges)) {
			e := cs.Edges[j]
			ge := &graph.Edge{Src: nodes[e.Src], Dest: nodes[e.Dst], Weight: e.Weight}
			em[&graph.Node{}] = ge // as ComposeDot does: fake keys, all edges of the graph in one map
			back[ge] = j
		}
		var out []*graph.Edge
		if pn := safely(func() { out = em.Sort() }); pn != "" {
			c.Violation("C08/EdgeMap.Sort/panic", pn, cs)
			return
		}
		ix := make([]int, len(out))
		for i, e := range out {
			ix[i] = back[e]
		}
		orders = append(orders, idxString(ix))
		if s == 0 {
			for i := 1; i < len(out); i++ {
				if c08abs(out[i-1].Weight) < c08abs(out[i].Weight) {
					c.Violation("C08/order-contract/EdgeMap.Sort", "edges are not ordered by decreasing weight magnitude", cs)
					break
				}
			}
		}
	}
	var w tw
	w.tok("sort.edges")
	w.n(len(cs.Edges))
	for _, e := range cs.Edges {
		w.c08node(cs.Nodes[e.Src])
		w.c08node(cs.Nodes[e.Dst])
		w.int(e.Weight)
		w.int(0)
	}
	c08Judge(c, "EdgeMap.Sort", "C08/EdgeMap.Sort", "edges_order_strict_total_partial", w.String(), orders, cs)
}

// ---------- (i) tags ----------

func c08Tags(c *Ctx, cs c08Case) {
	r := NewRng(cs.Seed)
	var orders []string
	for s := 0; s < c08Shuffles; s++ {
		p := perm(r, len(cs.Tags))
		ts := make([]*graph.Tag, len(p))
		back := map[*graph.Tag]int{}
		for i, j := range p {
			ts[i] = &graph.Tag{Name: cs.Tags[j].Name, Flat: cs.Tags[j].Flat, Cum: cs.Tags[j].Cum}
			back[ts[i]] = j
		}
		var out []*graph.Tag
		if pn := safely(func() { out = graph.SortTags(ts, cs.Flat) }); pn != "" {
			c.Violation("C08/SortTags/panic", pn, cs)
			return
		}
		ix := make([]int, len(out))
		for i, t := range out {
			ix[i] = back[t]
		}
		orders = append(orders, idxString(ix))
		if s == 0 {
			for i := 1; i < len(out); i++ {
				a, b := out[i-1], out[i]
				if (cs.Flat && c08abs(a.Flat) < c08abs(b.Flat)) || (!cs.Flat && c08abs(a.Cum) < c08abs(b.Cum)) {
					c.Violation("C08/order-contract/SortTags", "tags are not ordered by decreasing weight magnitude", cs)
					break
				}
			}
		}
	}
	var w tw
	w.tok("sort.tags")
	w.bool(cs.Flat)
	w.n(len(cs.Tags))
	for _, t := range cs.Tags {
		w.str(t.Name)
		w.str("")
		w.int(0)
		w.int(t.Flat)
		w.int(0)
		w.int(t.Cum)
		w.int(0)
	}
	mode := "cum"
	if cs.Flat {
		mode = "flat"
	}
	c08Judge(c, "SortTags("+mode+")", "C08/SortTags/"+mode, "tags_order_strict_total", w.String(), orders, cs)
}

// ---------- generators for (i) ----------

var c08Weights = []int64{5, -5, 5, -5, 3, -3, 7, 0, 0, 1, -1}

func c08Weight(r *Rng) int64 {
	if r.Chance(3) {
		return []int64{c08MinI64, 1<<63 - 1, -(1<<63 - 1)}[r.Intn(3)]
	}
	return c08Weights[r.Intn(len(c08Weights))]
}

func c08GenInfo(r *Rng, spaces bool) c08Info {
	names := []string{"main", "foo", "foo", "bar", "a.b", ""}
	files := []string{"", "", "a.go", "b.go", "dir/a.go"}
	objs := []string{"", "/bin/prog", "/lib/libc.so.6", "prog"}
	if spaces {
		names = []string{"f", "f  0", "f 0", "operator new", "a b", "a", ""}
		files = []string{"", "g", " 0 g", "0 g", "b c", "c"}
		objs = []string{"", "/bin/my prog", "x  0 y"}
	}
	i := c08Info{Name: r.Pick(names), File: r.Pick(files), Objfile: r.Pick(objs)}
	if r.Chance(40) {
		i.Address = []uint64{0x1000, 0x1008, 0x2000, 9, 10}[r.Intn(5)]
	}
	if r.Chance(40) {
		i.Lineno = []int{10, 11, 9, -1}[r.Intn(4)]
		if r.Chance(30) {
			i.Columnno = 3
		}
	}
	if r.Chance(20) {
		i.StartLine = []int{5, 6, 50}[r.Intn(3)]
	}
	if r.Chance(15) {
		i.OrigName = r.Pick([]string{"_Zfoo", "_Zbar", "foo"})
		if spaces {
			i.OrigName = r.Pick([]string{"o p", "", " "})
		}
	}
	return i
}

func c08GenNodes(r *Rng, spaces bool) []c08Node {
	n := 2 + r.Intn(11)
	seen := map[c08Info]bool{}
	var out []c08Node
	if spaces && r.Chance(50) {
		// the two infos of theorem compareNodes_collision
		for _, i := range []c08Info{{Name: "f", File: " 0 g"}, {Name: "f  0", File: "g"}} {
			seen[i] = true
			out = append(out, c08Node{Info: i, Flat: 5, Cum: 5})
		}
		out[1].Flat, out[1].Cum = -5, -5
	}
	for len(out) < n {
		i := c08GenInfo(r, spaces)
		if seen[i] {
			continue
		}
		seen[i] = true
		out = append(out, c08Node{Info: i, Flat: c08Weight(r), Cum: c08Weight(r)})
	}
	return out
}

func c08NodeTies(ns []c08Node) (nt bool) {
	// non-trivial: at least two nodes agree on |flat| or on the printable name
	fl := map[int64]int{}
	pn := map[string]int{}
	for _, n := range ns {
		fl[c08abs(n.Flat)]++
		gi := c08GoInfo(n.Info)
		pn[gi.PrintableName()]++
	}
	for _, v := range fl {
		if v > 1 {
			nt = true
		}
	}
	for _, v := range pn {
		if v > 1 {
			nt = true
		}
	}
	return nt
}

func c08Sorts(c *Ctx, r *Rng, n int) {
	for it := 0; it < n; it++ {
		stream := "plain"
		if it%6 == 5 {
			stream = "spaces" // known-finding stream, kept apart
		}
		nodes := c08GenNodes(r, stream == "spaces")
		for _, nd := range nodes {
			c08RenderCheck(c, nd)
		}
		nt := c08NodeTies(nodes)
		for _, o := range c08Orders {
			cs := c08Case{Kind: "nodes", Stream: stream, Order: o.name, Nodes: nodes, Seed: r.U64()}
			c08Nodes(c, cs)
			c.Res.Count(fmt.Sprintf("nodes/%s/%v", o.name, nodes), nt)
			c.Res.Hit("sort:nodes/" + stream)
		}
		// edges over the same node set: distinct (src,dst) pairs, tie-rich weights
		var edges []c08Edge
		seen := map[[2]int]bool{}
		for k, m := 0, 2+r.Intn(10); k < m; k++ {
			e := c08Edge{Src: r.Intn(len(nodes)), Dst: r.Intn(len(nodes)), Weight: c08Weight(r)}
			if seen[[2]int{e.Src, e.Dst}] {
				continue
			}
			seen[[2]int{e.Src, e.Dst}] = true
			edges = append(edges, e)
		}
		ecs := c08Case{Kind: "edges", Stream: stream, Nodes: nodes, Edges: edges, Seed: r.U64()}
		c08Edges(c, ecs)
		ew := map[int64]int{}
		ent := false
		for _, e := range edges {
			ew[c08abs(e.Weight)]++
			if ew[c08abs(e.Weight)] > 1 {
				ent = true
			}
		}
		c.Res.Count(fmt.Sprintf("edges/%v/%v", nodes, edges), ent)
		c.Res.Hit("sort:edges/" + stream)
		// tags: distinct names
		var tags []c08Tag
		tn := []string{"a", "b", "c", "k:v", "", "thread:1", "thread:2", "1kB", "2kB", "z"}
		for _, j := range perm(r, len(tn))[:2+r.Intn(8)] {
			tags = append(tags, c08Tag{Name: tn[j], Flat: c08Weight(r), Cum: c08Weight(r)})
		}
		tnt := false
		tws := map[int64]int{}
		for _, t := range tags {
			tws[c08abs(t.Flat)]++
			if tws[c08abs(t.Flat)] > 1 {
				tnt = true
			}
		}
		for _, fl := range []bool{true, false} {
			c08Tags(c, c08Case{Kind: "tags", Stream: "plain", Flat: fl, Tags: tags, Seed: r.U64()})
			c.Res.Count(fmt.Sprintf("tags/%v/%v", fl, tags), tnt)
			c.Res.Hit("sort:tags")
		}
	}
}

// ---------- (ii) CLI oracle ----------

// c08GenProfile builds a valid, tie-rich profile. strategy selects what ties dominate.
func c08GenProfile(r *Rng, strategy string) *profile.Profile {
	p := &profile.Profile{TimeNanos: 1700000000000000000, DurationNanos: 1e9, Period: 1,
		PeriodType: &profile.ValueType{Type: "cpu", Unit: "nanoseconds"}}
	p.SampleType = []*profile.ValueType{{Type: "samples", Unit: "count"}}
	if r.Chance(60) {
		p.SampleType = append(p.SampleType, &profile.ValueType{Type: "alloc_space", Unit: "bytes"})
	}
	nst := len(p.SampleType)
	if r.Chance(25) {
		p.TimeNanos, p.DurationNanos = 0, 0 // no collection time (as every legacy text format)
	}
	p.Mapping = []*profile.Mapping{
		{ID: 1, Start: 0x400000, Limit: 0x500000, File: "/bin/prog", HasFunctions: true, HasFilenames: true, HasLineNumbers: true},
		{ID: 2, Start: 0x7f0000, Limit: 0x800000, File: "/lib/libc.so.6", HasFunctions: true},
	}
	names := []string{"main", "foo", "bar", "baz", "qux", "runtime.mallocgc"}
	files := []string{"a.go", "b.go", "dir/a.go"}
	if r.Chance(50) {
		// absolute build paths whose components are also base names of working directories of the
		// environment variants (c08_env.go)
		files = []string{"/build/src/myservice/a.go", "/build/src/myservice/dir/a.go", "/build/src/libutil/b.go", "/build/work/scratch/c.go"}
	}
	nf := 3 + r.Intn(6)
	if strategy == "many-edges" {
		nf = 8 + r.Intn(8)
		names = append(names, "n1", "n2", "n3", "n4", "n5", "n6", "n7", "n8")
	}
	for i := 0; i < nf; i++ {
		f := &profile.Function{ID: uint64(i + 1), Name: r.Pick(names), Filename: r.Pick(files), StartLine: int64(1 + r.Intn(3))}
		if strategy == "same-names" && i > 0 && r.Chance(60) {
			// same name as an earlier function, different file or start line
			f.Name = p.Function[r.Intn(len(p.Function))].Name
		}
		f.SystemName = f.Name
		p.Function = append(p.Function, f)
	}
	nl := nf + r.Intn(5)
	for i := 0; i < nl; i++ {
		m := p.Mapping[r.Intn(2)]
		l := &profile.Location{ID: uint64(i + 1), Mapping: m, Address: m.Start + uint64(0x10*(1+r.Intn(6)))}
		for j, k := 0, 1+r.Intn(2); j < k; j++ {
			l.Line = append(l.Line, profile.Line{Function: p.Function[r.Intn(nf)], Line: int64(10 + r.Intn(3))})
		}
		if r.Chance(8) {
			l.Line = nil // address-only location
		}
		p.Location = append(p.Location, l)
	}
	ns := 3 + r.Intn(8)
	if strategy == "many-edges" {
		ns = 20 + r.Intn(30)
	}
	mags := []int64{5, 5, 5, 3, 7}
	labelKeys := []string{"k", "thread", "req"}
	labelVals := []string{"v1", "v2", "v3", "a"}
	for i := 0; i < ns; i++ {
		s := &profile.Sample{}
		for j, d := 0, 1+r.Intn(4); j < d; j++ {
			s.Location = append(s.Location, p.Location[r.Intn(nl)])
		}
		for j := 0; j < nst; j++ {
			v := mags[r.Intn(len(mags))]
			if strategy != "positive" && r.Chance(45) {
				v = -v
			}
			s.Value = append(s.Value, v)
		}
		if strategy == "equal-flat-cum" {
			s.Location = s.Location[:1] // leaf only: flat == cum
		}
		if r.Chance(70) {
			s.Label = map[string][]string{}
			for j, k := 0, 1+r.Intn(2); j < k; j++ {
				s.Label[r.Pick(labelKeys)] = []string{r.Pick(labelVals)}
			}
		}
		if r.Chance(50) {
			s.NumLabel = map[string][]int64{"bytes": {int64(1024 * (1 + r.Intn(3)))}}
			s.NumUnit = map[string][]string{"bytes": {"bytes"}}
			if r.Chance(40) {
				s.NumLabel["n"] = []int64{int64(r.Intn(3))}
				s.NumUnit["n"] = []string{""}
			}
		} else if r.Chance(50) {
			// several numeric labels, NONE named bytes, with and without units; sometimes more than four
			s.NumLabel = map[string][]int64{}
			s.NumUnit = map[string][]string{}
			keys := []string{"alignment", "request", "size", "depth", "objects", "n", "latency"}
			for _, j := range perm(r, len(keys))[:2+r.Intn(2)+4*(r.Intn(4)/3)] {
				k := keys[j]
				s.NumLabel[k] = []int64{[]int64{8, 16, 1024, 4096, 3}[r.Intn(5)]}
				switch k {
				case "alignment", "size":
					s.NumUnit[k] = []string{"bytes"}
				case "latency":
					s.NumUnit[k] = []string{"ms"}
				default:
					if r.Bool() {
						s.NumUnit[k] = []string{""}
					}
				}
			}
		}
		if r.Chance(20) {
			// many string labels (more than four keys, some with two values)
			if s.Label == nil {
				s.Label = map[string][]string{}
			}
			for _, k := range []string{"k", "thread", "req", "tenant", "zone", "phase"}[:3+r.Intn(4)] {
				s.Label[k] = []string{r.Pick(labelVals)}
				if r.Chance(20) {
					s.Label[k] = append(s.Label[k], r.Pick(labelVals))
				}
			}
		}
		p.Sample = append(p.Sample, s)
		if strategy == "pm-pairs" && r.Chance(60) {
			// a twin with the negated values on another stack / other labels (profile-diff shape)
			t := &profile.Sample{Value: make([]int64, nst)}
			for j := range t.Value {
				t.Value[j] = -s.Value[j]
			}
			for j, d := 0, 1+r.Intn(4); j < d; j++ {
				t.Location = append(t.Location, p.Location[r.Intn(nl)])
			}
			if s.Label != nil {
				t.Label = map[string][]string{}
				for k := range s.Label {
					t.Label[k] = []string{r.Pick(labelVals)}
				}
			}
			p.Sample = append(p.Sample, t)
		}
	}
	return p
}

var c08ArgSets = [][]string{
	{"-top"}, {"-top", "-cum"}, {"-tree"}, {"-peek=."}, {"-dot"}, {"-callgrind"}, {"-tags"}, {"-traces"}, {"-raw"},
	{"-proto"}, {"-topproto"},
	{"-top", "-lines"}, {"-top", "-addresses"}, {"-top", "-files"}, {"-tree", "-cum", "-lines"},
	{"-dot", "-nodecount=4"}, {"-dot", "-nodefraction=0", "-edgefraction=0", "-addresses"},
	{"-top", "-sample_index=0", "-nodefraction=0"}, {"-tags", "-sample_index=0"}, {"-traces", "-lines"},
	{"-peek=foo|main", "-lines"}, {"-callgrind", "-addresses"}, {"-top", "-mean"}, {"-dot", "-tagshow=k|bytes"},
	{"-list=."},
}

// reports that would open a browser: written with -output=<file> and read back
var c08FileArgSets = [][]string{{"-weblist=."}, {"-weblist=foo|main|bar"}}

// call trees contain nodes with identical NodeInfo; kept apart (see known finding)
var c08TreeArgSets = [][]string{{"-dot", "-call_tree", "-nodefraction=0", "-edgefraction=0"}, {"-callgrind", "-call_tree"}}

type c08Job struct {
	canon  string
	more   []string
	tzFree bool
	envs   []string
	toFile bool // the command writes its report with -output=<file> (weblist would open a browser)
	files  []string
	args   []string // may contain the placeholders @more<i> (file of more[i], e.g. -base=@more0) and @src (source tree)
	extra  []string // files of the profiles in `more` that are NOT positional arguments (referenced by @more<i>)
	stream string
	outs   [][]byte
	codes  []int
}

func c08RunCLI(c *Ctx, tmp string, files []string, args []string, outFile string) ([]byte, int) {
	return c08RunCLIEnv(c, files, args, outFile, c08EnvVariant(tmp, 0, false))
}

// c08RunCLIEnv runs pprof in the given environment variant (through /bin/sh only to set the umask).
func c08RunCLIEnv(c *Ctx, files []string, args []string, outFile string, ev c08Env) ([]byte, int) {
	full := append([]string{}, args...)
	if outFile != "" {
		full = append(full, "-output="+outFile)
	}
	full = append(append(full, "-symbolize=none"), files...)
	cmd := exec.Command("/bin/sh", append([]string{"-c", "umask " + ev.Umask + `; exec "$0" "$@"`, c.Pprof}, full...)...)
	cmd.Env = ev.Env
	cmd.Dir = ev.Dir
	var out bytes.Buffer
	cmd.Stdout = &out
	err := cmd.Run()
	code := 0
	if err != nil {
		code = 1
		if ee, ok := err.(*exec.ExitError); ok {
			code = ee.ExitCode()
		}
	}
	if outFile != "" {
		b, _ := os.ReadFile(outFile)
		os.Remove(outFile)
		return append(out.Bytes(), b...), code
	}
	return out.Bytes(), code
}

func c08Workers() int { return 16 }

func c08NeedsFile(args []string) bool {
	return len(args) > 0 && strings.HasPrefix(args[0], "-weblist")
}

// c08Subst replaces the placeholders of a job's arguments.
func c08Subst(args, extra []string, tmp string) []string {
	out := make([]string, len(args))
	for i, a := range args {
		for k, f := range extra {
			a = strings.ReplaceAll(a, fmt.Sprintf("@more%d", k), f)
		}
		out[i] = strings.ReplaceAll(a, "@src", filepath.Join(tmp, "srctree"))
	}
	return out
}

func c08RunJobs(c *Ctx, tmp string, jobs []*c08Job, runs int) {
	c08EnvPrepare(tmp)
	c08WriteSourceTree(filepath.Join(tmp, "srctree"))
	for _, j := range jobs {
		j.tzFree = true // no "Time:" legend line: the time zone must not matter either
		for _, cn := range append([]string{j.canon}, j.more...) {
			if p, err := ParseCanon(cn); err != nil || p.TimeNanos != 0 {
				j.tzFree = false
			}
		}
	}
	var wg sync.WaitGroup
	ch := make(chan *c08Job)
	for w := 0; w < c08Workers(); w++ {
		wg.Add(1)
		go func(w int) {
			defer wg.Done()
			for j := range ch {
				for k := 0; k < runs; k++ {
					outFile := ""
					if j.toFile {
						outFile = filepath.Join(tmp, fmt.Sprintf("out-w%d.html", w))
					}
					ev := c08EnvVariant(tmp, k, j.tzFree)
					if strings.HasPrefix(j.args[0], "-list") || strings.HasPrefix(j.args[0], "-weblist") {
						// documented exception: source files are looked up relative to the working
						// directory, and the "could not find file … on path <cwd>" message names it
						ev.Dir = ""
					}
					o, code := c08RunCLIEnv(c, j.files, c08Subst(j.args, j.extra, tmp), outFile, ev)
					j.envs = append(j.envs, ev.Name)
					j.outs = append(j.outs, o)
					j.codes = append(j.codes, code)
				}
			}
		}(w)
	}
	for _, j := range jobs {
		ch <- j
	}
	close(ch)
	wg.Wait()
}

func c08ShowOut(b []byte) string {
	printable := true
	for _, ch := range b {
		if ch != '\n' && ch != '\t' && (ch < 32 || ch > 126) {
			printable = false
			break
		}
	}
	if printable {
		if len(b) > 60000 {
			return string(b[:60000]) + "…"
		}
		return string(b)
	}
	if len(b) > 3000 {
		b = b[:3000]
	}
	return "hex:" + hex.EncodeToString(b)
}

func c08JudgeJobs(c *Ctx, jobs []*c08Job, runs int) {
	for _, j := range jobs {
		allFail := true
		diff := -1
		for k := range j.outs {
			if j.codes[k] == 0 {
				allFail = false
			}
			if k > 0 && (!bytes.Equal(j.outs[k], j.outs[0]) || j.codes[k] != j.codes[0]) && diff < 0 {
				diff = k
			}
		}
		key := strings.Join(j.args, "+")
		if j.stream == "multi" {
			key = "2-sources+" + key
		}
		c.Res.Hit("cli:" + j.args[0])
		if allFail {
			c.Res.Hit("cli-exit-nonzero:" + key)
		}
		c.Res.Count("cli/"+key+"/"+j.canon+strings.Join(j.more, "/"), !allFail && len(j.outs[0]) > 0)
		if diff >= 0 {
			known, why, worst := c08IsKnownCallTree(j.args, j.canon, j.more, j.outs)
			if c08CallTreeFixed {
				known = false // repaired: a difference under -call_tree is an ordinary violation
			}
			if j.stream == "call_tree" {
				c.Res.Hit("call_tree-diff:" + why)
			}
			if worst > 0 {
				diff = worst // show the pair that differs beyond a renumbering
			}
			cs := c08Case{Kind: "cli", Stream: j.stream, Profile: j.canon, More: j.more, Args: j.args, Runs: 4 * runs, Out1: c08ShowOut(j.outs[0]), Out2: c08ShowOut(j.outs[diff])}
			if len(j.envs) > diff {
				cs.Envs = []string{j.envs[0], j.envs[diff]}
			}
			sig := "C08/cli/" + key + "/nondeterministic"
			if known {
				// several tree nodes share one NodeInfo and the outputs differ only in node
				// numbering (known finding); anything else under -call_tree keeps its own signature
				sig = "C08/cli/call_tree/identical-info-nodes"
			}
			c.Violation(sig, fmt.Sprintf("pprof %s on the same profile printed different bytes in %d runs (fresh processes)", strings.Join(j.args, " "), len(j.outs)), cs)
		}
	}
}

// c08CallTreeTwins verifies the CAUSE of the known finding C08/cli/call_tree/identical-info-nodes on the
// real code: the profile is aggregated as the CLI does for that format, graph.New builds
// the call tree, and every pair of its nodes (for -dot also of its edges) is tested for being left
// unordered by Nodes.Sort in the order the format uses (EdgeMap.Sort).
//
//	"twins-unstable"   the sorted order of the nodes (for -dot also of the graph's edge list) varies, and
//	                   wherever two runs disagree the nodes at that rank have one and the same NodeInfo
//	                   (the edges the same Src.Info and Dest.Info) — exactly the known mechanism
//	"stable"           the node order does not vary: the known mechanism does not explain a difference
//	"unstable-other"   the order varies between nodes with DIFFERENT infos: something else is broken
func c08CallTreeTwins(canon string, order graph.NodeOrder, aggregateFunctions, allEdges bool, seed uint64) (verdict string) {
	p, err := ParseCanon(canon)
	if err != nil || len(p.SampleType) == 0 {
		return "unparsable"
	}
	idx := len(p.SampleType) - 1 // default sample_index
	verdict = "stable"
	if pn := safely(func() {
		// -callgrind forces granularity "addresses", for which the driver does not aggregate at all
		// (inlines kept); -dot uses the default granularity "functions"
		if aggregateFunctions {
			if err := p.Aggregate(true, true, false, false, false, false); err != nil {
				verdict = "aggregate-error"
				return
			}
		}
		g := graph.New(p, &graph.Options{CallTree: true, SampleValue: func(v []int64) int64 { return v[idx] }})
		// Deterministic tie detection: sort.Sort leaves a two-element slice as it is iff the second
		// element is not less than the first, so a pair is unordered iff both arrangements survive.
		tie := func(a, b *graph.Node) bool {
			x, y := graph.Nodes{a, b}, graph.Nodes{b, a}
			if x.Sort(order) != nil || y.Sort(order) != nil {
				return false
			}
			return x[0] == a && y[0] == b
		}
		twins, other := false, false
		for i, a := range g.Nodes {
			for _, b := range g.Nodes[i+1:] {
				if tie(a, b) {
					if a.Info == b.Info {
						twins = true
					} else {
						other = true
					}
				}
			}
		}
		if allEdges {
			// -dot sorts ALL edges of the graph in one list (ComposeDot): edges between twin pairs have
			// equal (Src.Info, Dest.Info) and tie as well.  EdgeMap.Sort takes its input order from map
			// iteration, so a pair is tried until both results have been seen (40 tries: 2^-39 to miss).
			var es []*graph.Edge
			for _, n := range g.Nodes {
				for _, e := range n.Out.Sort() {
					es = append(es, e)
				}
			}
			flips := func(a, b *graph.Edge) bool {
				var first *graph.Edge
				for k := 0; k < 40; k++ {
					out := graph.EdgeMap{&graph.Node{}: a, &graph.Node{}: b}.Sort()
					if first == nil {
						first = out[0]
					} else if out[0] != first {
						return true
					}
				}
				return false
			}
			for i, a := range es {
				for _, b := range es[i+1:] {
					if c08abs(a.Weight) != c08abs(b.Weight) {
						continue // the magnitude is the first key; only equal magnitudes can tie
					}
					if flips(a, b) {
						if a.Src.Info == b.Src.Info && a.Dest.Info == b.Dest.Info {
							twins = true
						} else {
							other = true
						}
					}
				}
			}
		}
		switch {
		case other:
			verdict = "unstable-other"
		case twins:
			verdict = "twins-unstable"
		}
	}); pn != "" {
		return "panic"
	}
	return verdict
}

var (
	c08DotID         = regexp.MustCompile(`\bN+[0-9]+(_[0-9]+)*\b|\bnode[0-9]+\b`)
	c08CallgrindCost = regexp.MustCompile(`^(\*|[+-][0-9]+|0x[0-9a-f]+) (-?[0-9]+) (-?[0-9]+)$`)
	c08CallgrindCall = regexp.MustCompile(`^calls=0 (\*|[+-][0-9]+|0x[0-9a-f]+) (-?[0-9]+)$`)
	c08CallgrindRef  = regexp.MustCompile(`^(ob|cob|fl|cfl|fi|fe|fn|cfn)=\(([0-9]+)\)(?: (.*))?$`)
	c08CallgrindDis  = regexp.MustCompile(`(^| )\[[0-9]+/([0-9]+)\]$`)
)

// c08NormNumbering blanks what depends only on the ORDER in which nodes are emitted: dot node numbers
// (N<k>, N<k>_<j>, node<k>); callgrind name abbreviations `(id) name` / `(id)` (expanded to the name)
// and the index k of the `[k/n]` suffix that disambiguates call-tree nodes of one function.  The result
// is the sorted list of lines.
func c08NormNumbering(x []byte, callgrind bool) []string {
	var ls []string
	if !callgrind {
		ls = strings.Split(string(c08DotID.ReplaceAll(x, []byte("#"))), "\n")
	} else {
		tables := map[string]map[string]string{"ob": {}, "fl": {}, "fn": {}}
		class := map[string]string{"ob": "ob", "cob": "ob", "fl": "fl", "cfl": "fl", "fi": "fl", "fe": "fl", "fn": "fn", "cfn": "fn"}
		// subposition compression: an address is written relative to the address of the PREVIOUS node
		// (`*` same, `+d`/`-d`), both on the node's cost line and on its calls= lines
		var prevNode, thisNode *uint64
		decode := func(tok string) string {
			var v uint64
			switch {
			case strings.HasPrefix(tok, "0x"):
				v, _ = strconv.ParseUint(tok[2:], 16, 64)
			case prevNode == nil:
				return tok
			case tok == "*":
				v = *prevNode
			default:
				d, _ := strconv.ParseInt(tok, 10, 64)
				v = *prevNode + uint64(d)
			}
			return fmt.Sprintf("@%x", v)
		}
		for _, l := range strings.Split(string(x), "\n") {
			if m := c08CallgrindRef.FindStringSubmatch(l); m != nil {
				t := tables[class[m[1]]]
				name, ok := t[m[2]]
				if strings.Contains(l, ") ") || !ok {
					name = m[3]
					t[m[2]] = name
				}
				l = m[1] + "=" + c08CallgrindDis.ReplaceAllString(name, "$1[#/$2]")
			} else if m := c08CallgrindCost.FindStringSubmatch(l); m != nil {
				if thisNode != nil {
					prevNode = thisNode
				}
				a := decode(m[1])
				l = a + " " + m[2] + " " + m[3]
				if strings.HasPrefix(a, "@") {
					v, _ := strconv.ParseUint(a[1:], 16, 64)
					thisNode = &v
				}
			} else if m := c08CallgrindCall.FindStringSubmatch(l); m != nil {
				l = "calls=0 " + decode(m[1]) + " " + m[2]
			}
			ls = append(ls, l)
		}
	}
	sort.Strings(ls)
	return ls
}

// c08SameUpToNodeNumbering: the two outputs are the same multiset of lines once node numbering is
// blanked — they differ only in the order/numbering of nodes; nothing was added, lost or changed.
func c08SameUpToNodeNumbering(a, b []byte, callgrind bool) bool {
	la, lb := c08NormNumbering(a, callgrind), c08NormNumbering(b, callgrind)
	if len(la) != len(lb) {
		return false
	}
	for i := range la {
		if la[i] != lb[i] {
			return false
		}
	}
	return true
}

// c08IsKnownCallTree: exactly the known mechanism — -call_tree on a format that honours it, twin
// nodes in the real call tree, outputs equal up to node numbering.
// c08IsKnownCallTree: is a difference between runs explained by the known mechanism?  Only for a single
// source, -call_tree on a format that honours it, no option that changes aggregation — and only when
// c08CallTreeTwins shows on the real code that the node order of THIS profile's call tree is unstable
// exactly among nodes with identical NodeInfo.
func c08IsKnownCallTree(args []string, canon string, more []string, outs [][]byte) (known bool, why string, worst int) {
	if len(more) > 0 || len(args) == 0 {
		return false, "not-a-single-source-run", -1
	}
	tree := false
	for _, x := range args[1:] {
		switch {
		case x == "-call_tree":
			tree = true
		case strings.HasPrefix(x, "-nodefraction="), strings.HasPrefix(x, "-edgefraction="), strings.HasPrefix(x, "-nodecount="):
		default:
			return false, "other-options", -1 // they change aggregation/selection: twins are not verified for them
		}
	}
	if !tree || (args[0] != "-dot" && args[0] != "-callgrind") {
		return false, "no-call-tree", -1
	}
	order := graph.EntropyOrder // -dot: visual mode
	if args[0] == "-callgrind" {
		order = graph.FlatNameOrder
	}
	v := c08CallTreeTwins(canon, order, args[0] == "-dot", args[0] == "-dot", 1)
	renum := true
	for k, o := range outs {
		if k > 0 && !bytes.Equal(o, outs[0]) && !c08SameUpToNodeNumbering(outs[0], o, args[0] == "-callgrind") {
			renum = false
			worst = k
		}
	}
	// The effect is recorded, not required: an unstable node order also changes which redundant
	// edges RemoveRedundantEdges drops and which twin survives the node-count cut.
	why = v + ",renumbering-only"
	if !renum {
		why = v + ",also-structural"
	}
	if worst == 0 {
		worst = -1
	}
	return v == "twins-unstable", why, worst
}

var c08Strategies = []string{"pm-pairs", "pm-pairs", "same-names", "equal-flat-cum", "positive", "many-edges", "entropy-twins"}

// c08EntropyTwins: the float-summation hunt.  entropyScore adds -f·log2(f) terms while ranging over an
// edge MAP; with weights around 1e14 one ulp of the sum is worth several units of int64(score*cum).
// Twin nodes (same multiset of edge weights, same cum) have the same exact score, so only the
// summation order can separate them — if it does, their order (and the N-numbering of -dot) varies.
func c08EntropyTwins(r *Rng) *profile.Profile {
	p := &profile.Profile{TimeNanos: 1700000000000000000, DurationNanos: 1e9, Period: 1,
		PeriodType: &profile.ValueType{Type: "cpu", Unit: "nanoseconds"},
		SampleType: []*profile.ValueType{{Type: "samples", Unit: "count"}},
		Mapping:    []*profile.Mapping{{ID: 1, Start: 0x400000, Limit: 0x500000, File: "/bin/prog", HasFunctions: true}},
	}
	add := func(name string) *profile.Location {
		id := uint64(len(p.Function) + 1)
		f := &profile.Function{ID: id, Name: name, SystemName: name, Filename: "a.go", StartLine: 1}
		p.Function = append(p.Function, f)
		l := &profile.Location{ID: id, Mapping: p.Mapping[0], Address: 0x400000 + 16*id, Line: []profile.Line{{Function: f, Line: 10}}}
		p.Location = append(p.Location, l)
		return l
	}
	root := add("main")
	k := 3 + r.Intn(5) // children per twin
	scale := int64(1e13) * int64(1+r.Intn(50))
	ws := make([]int64, k)
	for i := range ws {
		ws[i] = scale * int64(1+r.Intn(9))
	}
	twins := 2 + r.Intn(3)
	for t := 0; t < twins; t++ {
		tw := add(fmt.Sprintf("twin%d", t))
		for i, w := range ws {
			ch := add(fmt.Sprintf("c%d_%d", t, i))
			p.Sample = append(p.Sample, &profile.Sample{Location: []*profile.Location{ch, tw, root}, Value: []int64{w}})
		}
	}
	return p
}

func c08WriteProfile(dir string, i int, p *profile.Profile) (string, error) {
	fn := filepath.Join(dir, fmt.Sprintf("p%d.pb.gz", i))
	f, err := os.Create(fn)
	if err != nil {
		return "", err
	}
	defer f.Close()
	return fn, p.Write(f)
}

func c08Serialize(c *Ctx, p *profile.Profile, canon string) {
	// both serializations, twice each, plus re-serialization of the parsed result
	b1, pn1 := writeU(p)
	b2, pn2 := writeU(p)
	cs := c08Case{Kind: "serialize", Profile: canon}
	if pn1 != "" || pn2 != "" {
		c.Violation("C08/serialize/panic", pn1+pn2, cs)
		return
	}
	if !bytes.Equal(b1, b2) {
		c.Violation("C08/serialize/uncompressed-differs", "WriteUncompressed of the same profile gave different bytes", cs)
	}
	var z1, z2 bytes.Buffer
	p.Write(&z1)
	p.Write(&z2)
	if !bytes.Equal(z1.Bytes(), z2.Bytes()) {
		c.Violation("C08/serialize/gzip-differs", "Write (gzip) of the same profile gave different bytes", cs)
	}
	for k := 0; k < 3; k++ { // parse builds fresh label maps
		q, err := profile.ParseData(b1)
		if err != nil {
			c.Violation("C08/serialize/reparse-error", err.Error(), cs)
			return
		}
		b3, _ := writeU(q)
		q2, _ := profile.ParseData(b1)
		b4, _ := writeU(q2)
		if !bytes.Equal(b3, b4) {
			c.Violation("C08/serialize/reserialize-differs", "two parses of the same bytes re-serialize differently", cs)
			return
		}
		if q.String() != q2.String() {
			c.Violation("C08/serialize/String-differs", "Profile.String() of two parses of the same bytes differs", cs)
			return
		}
	}
	c.Res.Hit("serialize")
}

func c08CLI(c *Ctx, r *Rng, nprof, runs int) {
	if c.Pprof == "" {
		c.Res.HarnessError = "no pprof binary"
		return
	}
	tmp, err := os.MkdirTemp("", "c08-")
	if err != nil {
		c.Res.HarnessError = err.Error()
		return
	}
	defer os.RemoveAll(tmp)
	var jobs []*c08Job
	prevFile, prevCanon, prevTypes := "", "", 0
	for i := 0; i < nprof; i++ {
		st := c08Strategies[i%len(c08Strategies)]
		p := c08GenProfile(r, st)
		if st == "entropy-twins" {
			p = c08EntropyTwins(r)
		}
		if err := p.CheckValid(); err != nil {
			c.Res.HarnessError = "generated profile invalid: " + err.Error()
			return
		}
		canon := Canon(p)
		c.Res.Hit("profile:" + st)
		if i < 2 {
			c.Res.Sample(map[string]string{"strategy": st, "shape": describe(p), "profile": trunc(canon)})
		}
		c08Serialize(c, p, canon)
		fn, err := c08WriteProfile(tmp, i, p)
		if err != nil {
			c.Res.HarnessError = err.Error()
			return
		}
		// every base format on every profile; a rotating selection of the option variants
		for k, a := range c08ArgSets {
			if k >= 11 && (k+i)%3 != 0 {
				continue
			}
			jobs = append(jobs, &c08Job{canon: canon, files: []string{fn}, args: a, stream: "plain"})
		}
		for k, a := range c08FileArgSets {
			if (k+i)%2 == 0 {
				jobs = append(jobs, &c08Job{canon: canon, files: []string{fn}, args: a, stream: "plain", toFile: true})
			}
		}
		if prevFile != "" && prevTypes == len(p.SampleType) {
			// two sources on one command line (fetched concurrently, merged in command-line order)
			for _, a := range [][]string{{"-top"}, {"-tags"}, {"-proto"}} {
				jobs = append(jobs, &c08Job{canon: prevCanon, more: []string{canon}, files: []string{prevFile, fn}, args: a, stream: "multi"})
			}
		}
		prevFile, prevCanon, prevTypes = fn, canon, len(p.SampleType)
		if i%3 == 0 {
			for _, a := range c08TreeArgSets {
				jobs = append(jobs, &c08Job{canon: canon, files: []string{fn}, args: a, stream: "call_tree"})
			}
		}
	}
	c08RunJobs(c, tmp, jobs, runs)
	c08JudgeJobs(c, jobs, runs)
}

func c08ReplayCLI(c *Ctx, cs c08Case) {
	p, err := ParseCanon(cs.Profile)
	if err != nil {
		c.Res.HarnessError = "ParseCanon: " + err.Error()
		return
	}
	if cs.Kind == "serialize" {
		c08Serialize(c, p, cs.Profile)
		return
	}
	tmp, err := os.MkdirTemp("", "c08-")
	if err != nil {
		c.Res.HarnessError = err.Error()
		return
	}
	defer os.RemoveAll(tmp)
	fn, err := c08WriteProfile(tmp, 0, p)
	if err != nil {
		c.Res.HarnessError = err.Error()
		return
	}
	fns := []string{fn}
	var extra []string
	for i, m := range cs.More {
		q, err := ParseCanon(m)
		if err != nil {
			c.Res.HarnessError = "ParseCanon: " + err.Error()
			return
		}
		f2, err := c08WriteProfile(tmp, i+1, q)
		if err != nil {
			c.Res.HarnessError = err.Error()
			return
		}
		if strings.Contains(strings.Join(cs.Args, " "), fmt.Sprintf("@more%d", i)) {
			for len(extra) < i {
				extra = append(extra, "")
			}
			extra = append(extra, f2) // referenced by a flag (-base=@more0), not positional
		} else {
			fns = append(fns, f2)
		}
	}
	runs := cs.Runs
	if runs < 8 {
		runs = 16
	}
	// spread the runs over the workers: same job several times
	var jobs []*c08Job
	for k := 0; k < 8; k++ {
		jobs = append(jobs, &c08Job{canon: cs.Profile, more: cs.More, files: fns, extra: extra, args: cs.Args, stream: cs.Stream, toFile: c08NeedsFile(cs.Args)})
	}
	c08RunJobs(c, tmp, jobs, (runs+7)/8)
	merged := &c08Job{canon: cs.Profile, more: cs.More, files: fns, args: cs.Args, stream: cs.Stream}
	for _, j := range jobs {
		merged.outs = append(merged.outs, j.outs...)
		merged.codes = append(merged.codes, j.codes...)
	}
	c08JudgeJobs(c, []*c08Job{merged}, runs)
}

func runC08(c *Ctx) {
	c.Res.Rule = "(i) 7 node orders + EdgeMap.Sort + SortTags(flat|cum) on 8 shuffles of tie-rich element sets (weights from {±5,±3,7,0,±1,MinInt64,±MaxInt64}; equal names at different addresses/objects/lines; stream 'spaces' = strings with embedded spaces, kept apart): one order over all shuffles, equal to the model's sortBy(lessOf regenerated descriptors), renderings equal; non-trivial = at least two elements agree on the primary key magnitude or the printable name. (ii) generated valid tie-rich profiles (strategies pm-pairs, same-names, equal-flat-cum, positive, many-edges) × every CLI format (-top -tree -peek -dot -callgrind -tags -traces -raw -proto -topproto + option variants), k fresh processes each, stdout and exit code byte-compared; non-trivial = pprof exits 0 with non-empty output; in-process serialization twice / reparse-reserialize. (iii) local symbolization through the real symbolizer with a scripted ObjTool on unsymbolized profiles with 3-5 mappings (locations interleaved, some functions answered by several binaries, sometimes sparse pre-existing ids): 5 repetitions whose per-mapping SourceLine latency is permuted and GOMAXPROCS varied must serialize byte-identically, and ids/prof.Function order must equal the model's first-come numbering; non-trivial = at least 3 mappings need symbolization. (iv) web UI payloads (json of rpt.Stacks(), /top /flamegraph /peek /source /disasm /download) of generated profiles computed in 5 fresh processes each (the harness re-executed as C08child) and byte-compared; non-trivial = /top and /flamegraph answer 200 and the stack data is non-empty. (v) 8 goroutines serialising ONE label-rich profile concurrently (Write/WriteUncompressed/Copy), each result compared with a lone serialisation. (vi) parsing: generated legacy texts (heap v1/v2, growthz, contentionz, Go mutex, threadz, Go count) and bare memory maps (ParseProcMaps, ParseMemoryMap) whose maps use 2-5 substitution attributes with prefix-overlapping names, redefinitions and both map-line syntaxes, parsed 32 times in process and once in each fresh child: String() and WriteUncompressed identical; non-trivial = accepted by the parser. (vii) residual-edge graph shapes (mutual recursion, rotations, cycles of 2-4 hubs over helpers that -nodefraction/-nodecount drop): -dot in 16 fresh processes and 24 renders in process. (x) merging: source pairs with EQUAL samples (same stack, same multi-key string/numeric label sets) within and across sources: profile.Merge / Merge with a negated base / Compact 16 times in process, and `pprof a b`, -base, -diff_base for -proto/-raw/-traces/-top/-tags in 8 fresh processes. (xi) source listings: -list/-weblist with a readable source tree (-source_path) on profiles where 2-4 functions share a printable name and file but differ in StartLine, 8 fresh processes. (ix) environment independence: repetition k of every CLI job runs in environment variant k mod 6 (working directory — also ones named like path components of the profile's file names —, HOME, TMPDIR, PPROF_TMPDIR, LANG/LC_ALL, TERM/COLUMNS, GOMAXPROCS, umask, PATH order; TZ only for profiles without collection time), web children likewise for cwd/HOME. (viii) time probe: Profile.Write and pprof -proto of a profile without collection time, repeated more than a second apart, byte-identical. The web stream includes profiles with more matching functions/files (60-90) than the web UI limits (50) and a profile-scripted ObjTool so that /disasm and /source listings are produced."
	if c.Replay != "" {
		var cs c08Case
		if err := c.LoadReplay(&cs); err != nil {
			c.Res.HarnessError = err.Error()
			return
		}
		switch cs.Kind {
		case "nodes":
			c08Nodes(c, cs)
		case "edges":
			c08Edges(c, cs)
		case "tags":
			c08Tags(c, cs)
		case "render":
			c08RenderCheck(c, cs.Nodes[0])
		case "cli", "serialize":
			c08ReplayCLI(c, cs)
		case "web":
			var wc c08WebCase
			if err := c.LoadReplay(&wc); err != nil {
				c.Res.HarnessError = err.Error()
				return
			}
			n := wc.Procs
			if n < 6 {
				n = 6
			}
			c08WebCompare(c, []string{wc.Profile}, n, wc.Legacy)
		case "concurrent-serialize":
			var cc c08ConcCase
			if err := c.LoadReplay(&cc); err != nil {
				c.Res.HarnessError = err.Error()
				return
			}
			cc.Rounds *= 4
			c08Concurrent(c, cc)
		case "merge-inprocess":
			var mc c08MergeCase
			if err := c.LoadReplay(&mc); err != nil {
				c.Res.HarnessError = err.Error()
				return
			}
			mc.Reps = 100
			c08MergeInProcess(c, mc)
		case "dot-inprocess":
			var sc c08ShapeCase
			if err := c.LoadReplay(&sc); err != nil {
				c.Res.HarnessError = err.Error()
				return
			}
			sc.Reps = 200
			c08DotInProcess(c, sc)
		case "time-probe":
			c08TimeProbeEnd(c, c08TimeProbeStart(c))
		case "parse":
			var pc c08ParseCase
			if err := c.LoadReplay(&pc); err != nil {
				c.Res.HarnessError = err.Error()
				return
			}
			pc.Reps = 200
			c08ParseRepeat(c, pc)
		case "symbolize":
			var sc c08SymCase
			if err := c.LoadReplay(&sc); err != nil {
				c.Res.HarnessError = err.Error()
				return
			}
			sc.Reps = 12
			c08Symbolize(c, sc)
		default:
			c.Res.HarnessError = "unknown case kind " + cs.Kind
		}
		c.Res.Evaluations++
		return
	}
	r := NewRng(c.Seed)
	tp := c08TimeProbeStart(c)
	defer c08TimeProbeEnd(c, tp)
	c08Sorts(c, r.Fork(), 300*c.Scale)
	c08SymStream(c, r.Fork(), 40*c.Scale)
	c08ConcStream(c, r.Fork(), 6*c.Scale)
	c08ShapeStream(c, r.Fork(), 6*c.Scale, 16)
	c08MergeStream(c, r.Fork(), 6*c.Scale, 8)
	c08ListStream(c, r.Fork(), 6*c.Scale, 8)
	legacy := c08ParseStream(c, r.Fork(), 28*c.Scale)
	c08WebStream(c, r.Fork(), 12*c.Scale, 5, legacy)
	runs := 5
	nprof := 70
	if c.Scale > 1 {
		runs = 8
		nprof = 70 * c.Scale / 2
	}
	c08CLI(c, r.Fork(), nprof, runs)
}
