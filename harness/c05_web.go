//go:build verif

package main

// C05 — web UI stream: the /top page of the web interface (handlers obtained through the
// HTTPServer plug-in hook of driver.PProf, as internal/driver/webui_test.go does) on profiles with
// MORE entries than every built-in limit (the web top view forces nodecount 500; graphs default to
// 80). The C05 invariant is checked on the SERVED data: the rows embedded in the page
// (`makeTopTable(total, rows)`) and the legend lines of the page header.

import (
	"encoding/json"
	"fmt"
	"html"
	"net/http"
	"net/http/httptest"
	"os"
	"regexp"
	"strconv"
	"strings"
	"time"

	"github.com/google/pprof/internal/driver"
	"github.com/google/pprof/internal/plugin"
	"github.com/google/pprof/profile"
)

type c05Flags struct {
	bools   map[string]bool
	strings map[string]string
	args    []string
}

func (c05Flags) ExtraUsage() string      { return "" }
func (c05Flags) AddExtraUsage(eu string) {}
func (f c05Flags) Bool(s string, d bool, c string) *bool {
	if b, ok := f.bools[s]; ok {
		return &b
	}
	return &d
}
func (f c05Flags) Int(s string, d int, c string) *int             { return &d }
func (f c05Flags) Float64(s string, d float64, c string) *float64 { return &d }
func (f c05Flags) String(s, d, c string) *string {
	if t, ok := f.strings[s]; ok {
		return &t
	}
	return &d
}
func (f c05Flags) StringList(s, d, c string) *[]*string { return &[]*string{} }
func (f c05Flags) Parse(func()) []string                { return f.args }

type c05Fetcher struct{ p *profile.Profile }

func (f c05Fetcher) Fetch(s string, d, t time.Duration) (*profile.Profile, string, error) {
	return f.p, "c05src", nil
}

type c05Sym struct{}

func (c05Sym) Symbolize(mode string, srcs plugin.MappingSources, prof *profile.Profile) error {
	return nil
}

type c05UI struct{}

func (c05UI) ReadLine(prompt string) (string, error)       { return "", fmt.Errorf("no input") }
func (c05UI) Print(...interface{})                         {}
func (c05UI) PrintErr(...interface{})                      {}
func (c05UI) IsTerminal() bool                             { return false }
func (c05UI) WantBrowser() bool                            { return false }
func (c05UI) SetAutoComplete(complete func(string) string) {}

// c05WebHandlers starts the web interface of the real code on the profile and returns its handlers.
func c05WebHandlers(canon string) (map[string]http.Handler, string) {
	p, err := ParseCanon(canon)
	if err != nil {
		return nil, "ParseCanon: " + err.Error()
	}
	tmp := c04Tmp()
	os.Setenv("XDG_CONFIG_HOME", tmp)
	os.Setenv("HOME", tmp)
	os.Setenv("PPROF_TMPDIR", tmp)
	var handlers map[string]http.Handler
	opts := &plugin.Options{
		Flagset: c05Flags{bools: map[string]bool{"no_browser": true}, strings: map[string]string{"http": "localhost:0", "symbolize": "none"}, args: []string{"c05src"}},
		Fetch:   c05Fetcher{p},
		Sym:     c05Sym{},
		UI:      c05UI{},
		HTTPServer: func(a *plugin.HTTPServerArgs) error {
			handlers = a.Handlers
			return nil
		},
	}
	var perr error
	if pn := safely(func() { perr = driver.PProf(opts) }); pn != "" {
		return nil, "panic: " + pn
	}
	if perr != nil {
		return nil, "error: " + perr.Error()
	}
	if handlers == nil || handlers["/top"] == nil {
		return nil, "the HTTPServer hook was not called or has no /top handler"
	}
	return handlers, ""
}

type c05TopRow struct {
	Name string
	Flat int64
	Cum  int64
}

var c05TopCall = regexp.MustCompile(`(?s)makeTopTable\(\s*(-?\d+)\s*,\s*(\[.*?\]|null)\s*\);`)
var c05TopLine = regexp.MustCompile(`Showing top (\d+) nodes out of (\d+)`)
var c05AccLine = regexp.MustCompile(`Showing nodes accounting for [^<]*`)

// c05Web runs one /top request of a "web" case and evaluates it. handlers may be nil (replay).
func c05Web(c *Ctx, cs *c05Case, handlers map[string]http.Handler, specCache map[string]*gTable) {
	sigp := "C05/web/top/"
	desc := fmt.Sprintf(" [/top?%s]", cs.Query)
	if handlers == nil {
		var prob string
		if handlers, prob = c05WebHandlers(cs.Profile); prob != "" {
			c.Violation("C05/web/start", "the web interface does not start: "+prob, cs)
			return
		}
	}
	rec := httptest.NewRecorder()
	req := httptest.NewRequest("GET", "http://localhost/top?"+cs.Query, nil)
	if pn := safely(func() { handlers["/top"].ServeHTTP(rec, req) }); pn != "" {
		c.Violation(sigp+"panic", "the /top handler panics: "+pn+desc, cs)
		return
	}
	if rec.Code != 200 {
		c.Violation(sigp+"status", fmt.Sprintf("status %d: %s", rec.Code, trunc(rec.Body.String()))+desc, cs)
		return
	}
	body := rec.Body.String()
	if os.Getenv("VERIF_DEBUG") != "" {
		os.WriteFile("/tmp/c05_top_page.html", []byte(body), 0o644)
	}
	m := c05TopCall.FindStringSubmatch(body)
	if m == nil {
		c.Violation(sigp+"unparsable", "no makeTopTable(total, rows) call in the page"+desc, cs)
		return
	}
	var rows []c05TopRow
	if m[2] != "null" {
		if err := json.Unmarshal([]byte(m[2]), &rows); err != nil {
			c.Violation(sigp+"unparsable", "rows: "+err.Error()+desc, cs)
			return
		}
	}
	pageTotal, _ := strconv.ParseInt(m[1], 10, 64)
	text := html.UnescapeString(body)
	acc := c05AccLine.FindString(text)
	shown, total, ok := parseAccounting([]string{acc})
	if !ok {
		c.Violation(sigp+"legend-unparsable", "no 'Showing nodes accounting for' line in the page header"+desc, cs)
		return
	}
	// (a) the legend figure is the sum of the flat values of the rows actually served
	var sum int64
	for _, r := range rows {
		sum += r.Flat
	}
	if shown != sum {
		c.Violation(sigp+"accounting-for", fmt.Sprintf("the legend says 'accounting for %d' but the %d rows served sum to %d", shown, len(rows), sum)+desc, cs)
		return
	}
	// expected figures: Lean Spec of the untrimmed graph; expected selection: Lean Trim model with
	// the web view's own limit
	p0, err := ParseCanon(cs.Profile)
	if err != nil {
		c.Res.HarnessError = err.Error()
		return
	}
	rq := gReq{Agg: &[6]bool{true, true, false, false, false, false}, VI: cs.Req.VI}
	key := rq.String()
	U := specCache[key]
	if U == nil {
		var perr string
		t0 := time.Now()
		U, perr = askTables(c, "graph.spec", &rq, nil, false, p0, cs.Profile)
		c05Debug("graph.spec on the large profile: %v", time.Since(t0))
		if perr != "" {
			c.Disagree("C05/spec-unavailable", perr, "driver op graph.spec", cs)
			return
		}
		if specCache != nil {
			specCache[key] = U
		}
	}
	if total != U.Total.V || pageTotal != U.Total.V {
		c.Violation(sigp+"total", fmt.Sprintf("legend total %d, page total %d, expected %d", total, pageTotal, U.Total.V)+desc, cs)
		return
	}
	var got []dispNode
	for _, r := range rows {
		got = append(got, dispNode{Name: r.Name, Flat: r.Flat, Cum: r.Cum})
	}
	// (c) no served row's numbers differ from the untrimmed report
	exp := expectedDisplay("text", U)
	if bad := subMultiset(canonNodes(got, true, false, false), canonNodes(exp, true, false, false)); bad != "" {
		c.Violation(sigp+"value-changed", "served row "+bad+" has no untrimmed counterpart with the same flat and cum"+desc, cs)
		return
	}
	sel := func(nodecount int) (keys []string, idx []int, cutoff int64, prob string) {
		var w tw
		w.int(cs.FracNum)
		den := cs.FracDen
		if den == 0 {
			den = 1
		}
		w.int(den)
		w.n(nodecount)
		w.bool(cs.CumSort)
		keys = sortedKeys2(U.Flat)
		w.n(len(keys))
		for _, k := range keys {
			ni := U.Info[k][0]
			w.str(ni.PrintableName())
			w.str(fmt.Sprint(ni))
			w.int(U.Flat[k].W)
			w.int(U.Cum[k].W)
		}
		t0 := time.Now()
		f := strings.Fields(c.Drv.Ask("trim.text " + w.String()))
		c05Debug("trim.text: %v", time.Since(t0))
		if len(f) < 3 || f[0] != "ok" {
			return nil, nil, 0, "trim.text: " + trunc(strings.Join(f, " "))
		}
		cutoff, _ = strconv.ParseInt(f[1], 10, 64)
		for _, t := range f[3:] {
			i, _ := strconv.Atoi(t)
			if i < 0 || i >= len(keys) {
				return nil, nil, 0, "trim.text index"
			}
			idx = append(idx, i)
		}
		return keys, idx, cutoff, ""
	}
	const webTopLimit = 500 // internal/driver/webui.go: the top view forces nodecount 500
	keys, idx, cutoff, prob := sel(webTopLimit)
	if prob != "" {
		c.Disagree("C05/trim-model-unavailable", prob, "Lean model Trim.trimText", cs)
		return
	}
	_, all, _, prob := sel(0)
	if prob != "" {
		c.Disagree("C05/trim-model-unavailable", prob, "Lean model Trim.trimText", cs)
		return
	}
	survivors := len(all)
	c.Res.ModelCompared++
	var want []dispNode
	for _, i := range idx {
		one := newGTable()
		k := keys[i]
		one.Flat[k], one.Cum[k], one.Info[k] = U.Flat[k], U.Cum[k], U.Info[k]
		want = append(want, expectedDisplay("text", one)...)
	}
	if d := firstDiff(canonNodes(got, true, false, false), canonNodes(want, true, false, false)); d != "" {
		kind := "selection"
		if len(got) > len(want) {
			kind = "too-many-shown"
		} else if len(got) < len(want) {
			kind = "too-few-shown"
		}
		c.Violation(sigp+kind, fmt.Sprintf("served rows differ from {|cum| ≥ cutoff %d} ∩ top %d (%d entries, %d survivors): %s", cutoff, webTopLimit, len(keys), survivors, d)+desc, cs)
		return
	}
	// (b) "Showing top N nodes out of M" is there iff rows were cut by the count limit
	tl := c05TopLine.FindStringSubmatch(text)
	cut := len(rows) < survivors
	switch {
	case cut && tl == nil && U.Total.V != 0:
		c.Violation(sigp+"top-line-missing", fmt.Sprintf("%d of %d surviving entries are served but the header does not say 'Showing top %d nodes out of %d'", len(rows), survivors, len(rows), survivors)+desc, cs)
		return
	case !cut && tl != nil:
		c.Violation(sigp+"top-line-unexpected", "the header says '"+tl[0]+"' although every surviving entry is served"+desc, cs)
		return
	case cut && tl != nil:
		n, _ := strconv.Atoi(tl[1])
		mm, _ := strconv.Atoi(tl[2])
		if n != len(rows) || mm != survivors {
			c.Violation(sigp+"top-line-figures", fmt.Sprintf("the header says '%s', %d rows are served out of %d survivors", tl[0], len(rows), survivors)+desc, cs)
			return
		}
	}
	if cut {
		c.Res.Hit("web:/top rows cut by the 500 limit")
		c05Removed = true
	} else if len(rows) < len(keys) {
		c.Res.Hit("web:/top rows removed by nodefraction only")
		c05Removed = true
	} else {
		c.Res.Hit("web:/top nothing removed")
	}
}

// c05BigProfile: nFuncs leaf functions under a few group functions under main; small positive
// values (sum far below 2^53 / fraction denominators), unit count.
func c05BigProfile(r *Rng, nFuncs int) *profile.Profile {
	p := &profile.Profile{SampleType: []*profile.ValueType{{Type: "samples", Unit: "count"}, {Type: "cpu", Unit: "count"}}}
	id := uint64(0)
	mk := func(name string) *profile.Location {
		id++
		f := &profile.Function{ID: id, Name: name, SystemName: name, Filename: "big.go"}
		l := &profile.Location{ID: id, Line: []profile.Line{{Function: f, Line: int64(id)}}}
		p.Function = append(p.Function, f)
		p.Location = append(p.Location, l)
		return l
	}
	mainL := mk("main")
	var groups []*profile.Location
	for g := 0; g < 4; g++ {
		groups = append(groups, mk(fmt.Sprintf("group%d", g)))
	}
	for i := 0; i < nFuncs; i++ {
		leaf := mk(fmt.Sprintf("fn%04d", i))
		g := groups[r.Intn(len(groups))]
		v1 := int64(1 + r.Intn(9))
		if i%7 == 0 {
			v1 = int64(20 + r.Intn(200))
		}
		s := &profile.Sample{Location: []*profile.Location{leaf, g, mainL}, Value: []int64{v1, int64(1 + r.Intn(50))}}
		if r.Chance(15) {
			s.Location = []*profile.Location{leaf, mainL}
		}
		p.Sample = append(p.Sample, s)
	}
	return p
}

// c05WebStream: one or two large profiles per run (×scale), a handful of /top requests each, and a
// few CLI text reports with -nodecount around the built-in limits and the entry count.
func c05WebStream(c *Ctx, cliCases *[]*c05Case) {
	r := NewRng(c.Seed ^ 0x3EB5)
	sizes := []int{520 + r.Intn(60), 640 + r.Intn(200), 300 + r.Intn(150)}
	n := 2
	if c.Scale > 1 {
		n = 3 * 4
	}
	for k := 0; k < n; k++ {
		nf := sizes[k%len(sizes)]
		if k >= len(sizes) {
			nf += r.Intn(100)
		}
		p := c05BigProfile(r, nf)
		canon := Canon(p)
		handlers, prob := c05WebHandlers(canon)
		if prob != "" {
			c.Violation("C05/web/start", "the web interface does not start: "+prob, &c05Case{Level: "web", Profile: canon})
			continue
		}
		cache := map[string]*gTable{}
		c.Res.Hit(fmt.Sprintf("web:profile-entries-%d00+", (nf+5)/100))
		entries := nf + 5
		queries := [][3]string{ // nf num/den, n
			{"0", "1", "0"}, {"0", "1", strconv.Itoa(entries + 1)}, {"1", "1024", "10"}, {"1", "256", strconv.Itoa(entries - 1)},
		}
		for qi, q := range queries {
			num, _ := strconv.ParseInt(q[0], 10, 64)
			den, _ := strconv.ParseInt(q[1], 10, 64)
			vi := (k + qi) % 2
			cum := (k+qi)%3 == 0
			query := "nf=" + fracArg(num, den) + "&n=" + q[2] + "&si=" + strconv.Itoa(vi)
			if cum {
				query += "&sort=cum"
			}
			cs := &c05Case{Level: "web", Profile: canon, Query: query, FracNum: num, FracDen: den, CumSort: cum, Req: gReq{VI: vi}}
			c05Removed = false
			c05Web(c, cs, handlers, cache)
			c.Res.Count(canon+"web"+query, c05Removed)
		}
		// every output family through the CLI, nodecount around the built-in defaults and the entry count
		if c.Pprof != "" && (k == 0 || c.Scale > 1) {
			c05CLIGrid(c, r, canon, entries, k)
		}
		// CLI text reports on the same profile, nodecount around the limits and the entry count
		if c.Pprof != "" {
			ncs := []int{499, 500, 501, entries - 1, entries, 80}
			for j := 0; j < 3; j++ {
				nc := ncs[(2*k+j*2+j/2)%len(ncs)]
				cc := &c05Case{Level: "cli", Profile: canon, Format: "text", NodeCount: nc, FracNum: 0, FracDen: 1, EdgeNum: 0, EdgeDen: 1,
					CumSort: r.Bool(), Gran: "functions", Req: gReq{VI: r.Intn(2)}}
				*cliCases = append(*cliCases, cc)
				c.Res.Hit("cli-big-profile-nodecount")
			}
		}
	}
}

// ---------- CLI grid on profiles larger than every built-in default ----------

// c05CLIMono runs ONE report (format, fractions, sort, granularity) through the CLI once per
// nodecount setting in cs.Counts (c05Unset = option not given), checks every run against the
// documented meaning of its settings (c05CLICheck -> Lean Trim model / Spec), and then the
// metamorphic relation: the entries shown with a larger limit include those shown with a smaller
// one, and "no limit" includes them all.
func c05CLIMono(c *Ctx, cs *c05Case) {
	subs := make([]*c05Case, len(cs.Counts))
	results := make([]cliResult, len(cs.Counts))
	done := make(chan int, len(cs.Counts))
	sem := make(chan struct{}, 10)
	for j, n := range cs.Counts {
		sub := *cs
		sub.Level, sub.Counts = "cli", nil
		if n == c05Unset {
			sub.NoNodeCount, sub.NodeCount = true, 0
		} else {
			sub.NoNodeCount, sub.NodeCount = false, n
		}
		subs[j] = &sub
		go func(j int) {
			sem <- struct{}{}
			results[j] = runPprof(c, subs[j].Profile, subs[j].cliArgs, 7000+j)
			<-sem
			done <- j
		}(j)
	}
	for range cs.Counts {
		<-done
	}
	type shownAt struct {
		nc   int
		rows []string
		sub  *c05Case
	}
	var shown []shownAt
	before := len(c.Res.Findings)
	for j, sub := range subs {
		c05LastShown = nil
		c05CLICheck(c, sub, results[j])
		if c05LastShown != nil {
			nc, _, _, _, _ := sub.eff(true)
			if nc == 0 {
				nc = 1 << 30
			}
			shown = append(shown, shownAt{nc, c05LastShown, sub})
		}
		c.Res.Hit("cligrid-format:" + cs.Format)
	}
	if len(c.Res.Findings) != before {
		return
	}
	for _, a := range shown {
		for _, b := range shown {
			if a.nc <= b.nc {
				if bad := subMultiset(a.rows, b.rows); bad != "" {
					c.Violation("C05/cli/"+cs.Format+"/nodecount-not-monotone",
						fmt.Sprintf("row %s is shown by %v but not by %v, whose node limit is not smaller", bad, a.sub.cliArgs("FILE"), b.sub.cliArgs("FILE")), cs)
					return
				}
			}
		}
	}
	c.Res.Hit("cligrid:monotone-checked")
}

// c05CLIGrid: for a large profile every output family with nodecount ∈ {unset, -1, 0, 1, 79, 80, 81,
// entries−1, entries, entries+1}; the fraction mode (unset / 0 / small) rotates over families and
// profiles so that every combination family × mode comes up over a few seeds.
func c05CLIGrid(c *Ctx, r *Rng, canon string, entries, k int) {
	families := []string{"text", "top", "tree", "peek", "dot", "callgrind", "traces", "topproto"}
	for fi, format := range families {
		counts := []int{c05Unset, -1, 0, 1, 79, 80, 81, entries - 1, entries, entries + 1}
		if format == "callgrind" || format == "traces" || format == "peek" {
			counts = []int{c05Unset, 0, 1, 80} // documented as never trimmed: a few settings suffice
		}
		cs := &c05Case{Level: "climono", Profile: canon, Format: format, Counts: counts, CumSort: r.Bool(), Gran: "functions", Req: gReq{VI: r.Intn(2)}}
		switch (fi + k + int(c.Seed%3)) % 3 {
		case 0:
			cs.NoFractions = true
			c.Res.Hit("cligrid-fractions:unset")
		case 1:
			cs.FracNum, cs.FracDen, cs.EdgeNum, cs.EdgeDen = 0, 1, 0, 1
			c.Res.Hit("cligrid-fractions:0")
		case 2:
			cs.FracNum, cs.FracDen, cs.EdgeNum, cs.EdgeDen = 1, 512, 1, 2048
			c.Res.Hit("cligrid-fractions:small")
		}
		c05Removed = false
		c05CLIMono(c, cs)
		c.Res.Count(canon+"cligrid"+format+fmt.Sprint(cs.NoFractions, cs.FracDen, cs.CumSort, cs.Req.VI), true)
	}
}
