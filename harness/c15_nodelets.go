//go:build verif

package main

// C15, API-level stream: numeric-tag nodelets of graph.ComposeDot when a node carries more than
// four numeric tag values, so that they are collapsed into ranges "a..b" (internal/graph
// collapsedTags / tagGroupLabel).  The tags carry PER-VALUE units (profile.Sample.NumUnit) in mixed
// spellings of one family; this is reachable through graph.New + graph.ComposeDot only.
// Oracle: every tag value lies inside one printed label or range after reading both ends back
// (number + unit, display rounding); every printed end is the label of one of the tags (model).

import (
	"bytes"
	"fmt"
	"math/big"
	"regexp"
	"strconv"
	"strings"

	"github.com/google/pprof/internal/graph"
	"github.com/google/pprof/internal/measurement"
	"github.com/google/pprof/profile"
)

type c15Tag struct {
	Value  int64  `json:"value"`
	Unit   string `json:"unit"` // hex
	Weight int64  `json:"weight"`
	Text   string `json:"text,omitempty"`
}

var c15anyNodelet = regexp.MustCompile(`^N\S+ \[label = "([^"]*)" `)

func c15nodeletDot(tags []c15Tag) (string, string) {
	f := &profile.Function{ID: 1, Name: "fn"}
	l := &profile.Location{ID: 1, Line: []profile.Line{{Function: f}}}
	p := &profile.Profile{SampleType: []*profile.ValueType{{Type: "n", Unit: "count"}}, Function: []*profile.Function{f}, Location: []*profile.Location{l}}
	var total int64
	for _, t := range tags {
		total += t.Weight
		p.Sample = append(p.Sample, &profile.Sample{Location: []*profile.Location{l}, Value: []int64{t.Weight},
			NumLabel: map[string][]int64{"bytes": {t.Value}}, NumUnit: map[string][]string{"bytes": {c15unhex(t.Unit)}}})
	}
	var buf bytes.Buffer
	pn := c15safely(func() {
		// FormatTag as internal/report sets it (the default formatter ignores the unit, so tags of
		// equal number and different units would be merged into one)
		g := graph.New(p, &graph.Options{SampleValue: func(v []int64) int64 { return v[0] },
			FormatTag: func(v int64, unit string) string { return measurement.ScaledLabel(v, unit, "auto") }})
		graph.ComposeDot(&buf, g, &graph.DotAttributes{}, &graph.DotConfig{Title: "c15", Total: total,
			FormatValue: func(v int64) string { return strconv.FormatInt(v, 10) }})
	})
	return buf.String(), pn
}

// readBack: magnitude (in reference units of family fam) and rounding slack of a printed end.
func (st *c15State) readBack(end string, fam int) (mag, slack *big.Rat, ok bool) {
	if end == "0" {
		return new(big.Rat), new(big.Rat), true
	}
	num, us, okp := c15parseLabel(end)
	if !okp {
		return nil, nil, false
	}
	u := st.unitByDisplay(&st.spec[fam], us)
	if u == nil {
		return nil, nil, false
	}
	mag = new(big.Rat).Mul(num, u.f)
	slack = new(big.Rat).Mul(c15half, u.f)
	slack.Add(slack, new(big.Rat).Mul(c15abs(mag), c15tol))
	return mag, slack, true
}

func (st *c15State) nodeletCase(cs c15Case) bool {
	c := st.c
	if len(cs.Tags) == 0 {
		return false
	}
	var d []string
	for _, t := range cs.Tags {
		d = append(d, fmt.Sprintf("%d%s×%d", t.Value, c15unhex(t.Unit), t.Weight))
	}
	cs.Text = "graph.New+ComposeDot, one node with the numeric tags (value unit × weight) " + strings.Join(d, " ")
	out, pn := c15nodeletDot(cs.Tags)
	if pn != "" {
		c.Violation("C15/nodelets/panic", cs.Text+": "+pn, cs)
		return false
	}
	rf := st.recognise(c15unhex(cs.Tags[0].Unit))
	if !rf.known {
		return false
	}
	var labels []string
	for _, ln := range strings.Split(out, "\n") {
		if m := c15anyNodelet.FindStringSubmatch(ln); m != nil {
			labels = append(labels, m[1])
		}
	}
	if len(labels) == 0 {
		c.Violation("C15/nodelets/none", cs.Text+": no nodelets in\n"+c15trunc(out), cs)
		return true
	}
	type rng struct {
		lo, hi, slo, shi *big.Rat
		text             string
		isRange          bool
	}
	var rs []rng
	coarsest := new(big.Rat)
	phys := make([]*big.Rat, len(cs.Tags))
	for i, t := range cs.Tags {
		r := st.recognise(c15unhex(t.Unit))
		if !r.known || r.fam != rf.fam {
			return false // outside this stream's domain: one family per node
		}
		phys[i] = new(big.Rat).Mul(new(big.Rat).SetInt64(t.Value), r.f)
		if r.f.Cmp(coarsest) > 0 {
			coarsest = r.f
		}
	}
	for _, l := range labels {
		ends := strings.Split(l, "..")
		if len(ends) > 2 {
			c.Violation("C15/nodelets/label-format", fmt.Sprintf("%s: nodelet label %q", cs.Text, l), cs)
			return true
		}
		lo, slo, ok1 := st.readBack(ends[0], rf.fam)
		hi, shi, ok2 := lo, slo, ok1
		if len(ends) == 2 {
			hi, shi, ok2 = st.readBack(ends[1], rf.fam)
		}
		if !ok1 || !ok2 {
			c.Violation("C15/nodelets/unreadable-label", fmt.Sprintf("%s: nodelet label %q is not <number><unit of the tags' family>[..<number><unit>]", cs.Text, l), cs)
			return true
		}
		rs = append(rs, rng{lo, hi, slo, shi, l, len(ends) == 2})
		// every printed end is (the label of) one of the tags
		for k, e := range ends {
			m, s := lo, slo
			if k == 1 {
				m, s = hi, shi
			}
			okEnd := false
			for i := range cs.Tags {
				if c15abs(new(big.Rat).Sub(phys[i], m)).Cmp(s) <= 0 {
					okEnd = true
					if c15modelDomain(c15unhex(cs.Tags[i].Unit)) {
						if why := st.modelLabel(e, cs.Tags[i].Value, c15unhex(cs.Tags[i].Unit), "auto"); why != "" {
							// another tag with the same magnitude may be the one printed
							continue
						}
					}
					break
				}
			}
			if !okEnd {
				c.Violation("C15/nodelets/end-is-no-tag-value", fmt.Sprintf("%s: the end %q of nodelet %q reads back to none of the tag values; nodelets %q", cs.Text, e, l, labels), cs)
				return true
			}
		}
	}
	// every tag value lies inside one printed label or range.  The upper end of a range is found by
	// comparing truncated conversions, which may leave out a value less than one (coarsest) unit
	// above it; the lower end is exact.
	for i, t := range cs.Tags {
		covered := false
		for _, r := range rs {
			lo := new(big.Rat).Sub(r.lo, r.slo)
			hi := new(big.Rat).Add(r.hi, r.shi)
			if r.isRange {
				hi.Add(hi, coarsest)
			}
			if phys[i].Cmp(lo) >= 0 && phys[i].Cmp(hi) <= 0 {
				covered = true
			}
		}
		if !covered {
			c.Violation("C15/nodelets/value-outside-every-range", fmt.Sprintf("%s: the tag value %d %q lies inside none of the nodelet labels %q", cs.Text, t.Value, c15unhex(t.Unit), labels), cs)
			return true
		}
	}
	c.Res.Hit(fmt.Sprintf("nodelets:%d-labels", len(labels)))
	return true
}

func (st *c15State) nodeletStream(r *Rng) {
	c := st.c
	for k := 0; k < 40*c.Scale && k < 400; k++ {
		// byte or time family (integer factors)
		var fam *c15Family
		for tries := 0; tries < 10 && (fam == nil || !fam.integer); tries++ {
			fam = &st.spec[r.Intn(len(st.spec))]
		}
		if fam == nil || !fam.integer || len(fam.units) < 3 {
			continue
		}
		spell := func(u c15Unit) string {
			n := u.names[r.Intn(len(u.names))]
			if r.Chance(25) && len(n) >= 2 {
				n += "s"
			}
			if r.Chance(20) {
				n = u.display
			}
			return n
		}
		var tags []c15Tag
		add := func(v int64, u c15Unit, w int64) {
			s := spell(u)
			tags = append(tags, c15Tag{Value: v, Unit: c15hex(s), Weight: w, Text: s})
		}
		if r.Chance(70) {
			// four heavy tags (the heads of the four buckets): the smallest one in a coarse unit, the
			// others far larger; then light tags in finer units, below one unit of that head, in
			// descending order of size and weight
			ci := 1 + r.Intn(len(fam.units)-2)
			add(int64(1+r.Intn(3)), fam.units[ci], 1000)
			for j := 0; j < 3; j++ {
				u := fam.units[ci+r.Intn(len(fam.units)-ci)]
				add(int64(50+r.Intn(900))*int64(j+2), u, int64(900-100*j))
			}
			n := 2 + r.Intn(4)
			for j := 0; j < n; j++ {
				fi := r.Intn(ci)
				if j == n-1 {
					fi = 0
				}
				v := int64(1 + r.Intn(900)/(j+1))
				add(v, fam.units[fi], int64(100-10*j))
			}
		} else {
			n := 5 + r.Intn(5)
			for j := 0; j < n; j++ {
				add(int64(1+r.Intn(2000)), fam.units[r.Intn(len(fam.units))], int64(1+r.Intn(1000)))
			}
		}
		cs := c15Case{Kind: "nodelets", Tags: tags}
		nt := st.nodeletCase(cs)
		c.Res.Count(c15canon(cs), nt)
		c.Res.Hit("kind:nodelets")
	}
}
