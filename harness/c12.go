//go:build verif

package main

// C12 — symbolization only adds names; measurements are untouched.
//
// Every case: a valid profile, a symbolization mode, a mapping→sources table and SCRIPTS for
// the plug-ins (object-file tool, symbolz POST), all drawn from the same PRNG. The real code
// (symbolizer.Symbolizer.Symbolize / symbolz.Symbolize / symbolizer.Demangle) runs against Go
// plug-ins that interpret the scripts; the direct oracle compares the profile before and after;
// the same script is sent to the Lean model (Driver/Ops/C12.lean interprets it identically).

import (
	"bytes"
	"errors"
	"fmt"
	"io"
	"net/http"
	"net/url"
	"regexp"
	"sort"
	"strings"

	"github.com/google/pprof/internal/plugin"
	"github.com/google/pprof/internal/symbolizer"
	"github.com/google/pprof/internal/symbolz"
	"github.com/google/pprof/profile"
	"github.com/ianlancetaylor/demangle"
)

func init() { register("C12", runC12) }

// ---------------------------------------------------------------- scripts

type c12Answer struct {
	Addr   uint64
	Frames []plugin.Frame
}

// c12File scripts one Open call (the k-th Open consumes the k-th script).
type c12File struct {
	OpenErr bool
	BuildID string
	FailAt  int // the FailAt-th SourceLine call on this file returns an error (0 = never)
	Answers []c12Answer
}

// c12Post scripts one symbolz POST (the k-th POST consumes the k-th script). The body answers
// the addresses of the query: "<addr><sep><name>\n" for every address that is not dropped.
type c12Post struct {
	Err       bool
	Names     []string // cycled; empty ⇒ the address token is the name
	DropEvery int      // addresses with index%DropEvery == 0 get no line (0 = none dropped)
	Before    string   // raw bytes before / after the generated lines
	After     string
	Sep       string
}

type c12Source struct {
	Source string
	Start  uint64
}
type c12SrcEntry struct {
	Key  string
	Srcs []c12Source
}

func (w *tw) c12Files(fs []c12File) {
	w.n(len(fs))
	for _, f := range fs {
		w.bool(f.OpenErr)
		w.str(f.BuildID)
		w.n(f.FailAt)
		w.n(len(f.Answers))
		for _, a := range f.Answers {
			w.nat(a.Addr)
			w.n(len(a.Frames))
			for _, fr := range a.Frames {
				w.str(fr.Func)
				w.str(fr.File)
				w.int(int64(fr.Line))
				w.int(int64(fr.Column))
				w.int(int64(fr.StartLine))
			}
		}
	}
}
func (r *tr) c12Files() []c12File {
	var fs []c12File
	for i, n := 0, r.n(); i < n && r.err == nil; i++ {
		f := c12File{OpenErr: r.bool(), BuildID: r.str(), FailAt: r.n()}
		for j, m := 0, r.n(); j < m && r.err == nil; j++ {
			a := c12Answer{Addr: r.nat()}
			for k, q := 0, r.n(); k < q && r.err == nil; k++ {
				a.Frames = append(a.Frames, plugin.Frame{Func: r.str(), File: r.str(), Line: int(r.int()), Column: int(r.int()), StartLine: int(r.int())})
			}
			f.Answers = append(f.Answers, a)
		}
		fs = append(fs, f)
	}
	return fs
}
func (w *tw) c12Posts(ps []c12Post) {
	w.n(len(ps))
	for _, p := range ps {
		w.bool(p.Err)
		w.n(len(p.Names))
		for _, s := range p.Names {
			w.str(s)
		}
		w.n(p.DropEvery)
		w.str(p.Before)
		w.str(p.After)
		w.str(p.Sep)
	}
}
func (r *tr) c12Posts() []c12Post {
	var ps []c12Post
	for i, n := 0, r.n(); i < n && r.err == nil; i++ {
		p := c12Post{Err: r.bool()}
		for j, m := 0, r.n(); j < m && r.err == nil; j++ {
			p.Names = append(p.Names, r.str())
		}
		p.DropEvery = r.n()
		p.Before, p.After, p.Sep = r.str(), r.str(), r.str()
		ps = append(ps, p)
	}
	return ps
}
func (w *tw) c12Sources(ss []c12SrcEntry) {
	w.n(len(ss))
	for _, e := range ss {
		w.str(e.Key)
		w.n(len(e.Srcs))
		for _, s := range e.Srcs {
			w.str(s.Source)
			w.nat(s.Start)
		}
	}
}
func (r *tr) c12Sources() []c12SrcEntry {
	var ss []c12SrcEntry
	for i, n := 0, r.n(); i < n && r.err == nil; i++ {
		e := c12SrcEntry{Key: r.str()}
		for j, m := 0, r.n(); j < m && r.err == nil; j++ {
			e.Srcs = append(e.Srcs, c12Source{Source: r.str(), Start: r.nat()})
		}
		ss = append(ss, e)
	}
	return ss
}

// ---------------------------------------------------------------- scripted plug-ins

type c12Tool struct {
	pending []c12File
	log     []string
}

func (t *c12Tool) Open(file string, start, limit, offset uint64, relocationSymbol string) (plugin.ObjFile, error) {
	t.log = append(t.log, fmt.Sprintf("O:%s:%d:%d:%d", hexTok([]byte(file)), start, limit, offset))
	if len(t.pending) == 0 {
		return nil, errors.New("no such file")
	}
	f := t.pending[0]
	t.pending = t.pending[1:]
	if f.OpenErr {
		return nil, errors.New("open failed")
	}
	return &c12ObjFile{t: t, f: f}, nil
}
func (t *c12Tool) Disasm(file string, start, end uint64, intelSyntax bool) ([]plugin.Inst, error) {
	return nil, errors.New("not supported")
}

type c12ObjFile struct {
	t     *c12Tool
	f     c12File
	calls int
}

func (o *c12ObjFile) Name() string                         { return "scripted" }
func (o *c12ObjFile) ObjAddr(addr uint64) (uint64, error) { return addr, nil }
func (o *c12ObjFile) BuildID() string {
	o.t.log = append(o.t.log, "B")
	return o.f.BuildID
}
func (o *c12ObjFile) SourceLine(addr uint64) ([]plugin.Frame, error) {
	o.t.log = append(o.t.log, fmt.Sprintf("S:%d", addr))
	o.calls++
	if o.f.FailAt != 0 && o.f.FailAt == o.calls {
		return nil, errors.New("scripted failure")
	}
	for _, a := range o.f.Answers {
		if a.Addr == addr {
			return append([]plugin.Frame(nil), a.Frames...), nil
		}
	}
	return nil, nil
}
func (o *c12ObjFile) Symbols(r *regexp.Regexp, addr uint64) ([]*plugin.Sym, error) { return nil, nil }
func (o *c12ObjFile) Close() error {
	o.t.log = append(o.t.log, "C")
	return nil
}

type c12Poster struct {
	pending []c12Post
	log     []string
}

// syms is the function handed to symbolz.Symbolize.
func (ps *c12Poster) syms(source, post string) ([]byte, error) {
	ps.log = append(ps.log, "P:"+hexTok([]byte(source))+":"+hexTok([]byte(post)))
	if len(ps.pending) == 0 {
		return nil, errors.New("no answer")
	}
	p := ps.pending[0]
	ps.pending = ps.pending[1:]
	if p.Err {
		return nil, errors.New("post failed")
	}
	var b strings.Builder
	b.WriteString(p.Before)
	for i, a := range strings.Split(post, "+") {
		if p.DropEvery != 0 && i%p.DropEvery == 0 {
			continue
		}
		name := a
		if len(p.Names) > 0 {
			name = p.Names[i%len(p.Names)]
		}
		b.WriteString(a + p.Sep + name + "\n")
	}
	b.WriteString(p.After)
	return []byte(b.String()), nil
}

// RoundTrip makes the poster usable as Symbolizer.Transport (the POST of postURL).
func (ps *c12Poster) RoundTrip(req *http.Request) (*http.Response, error) {
	var body []byte
	if req.Body != nil {
		body, _ = io.ReadAll(req.Body)
		req.Body.Close()
	}
	b, err := ps.syms(req.URL.String(), string(body))
	if err != nil {
		return nil, err
	}
	return &http.Response{Status: "200 OK", StatusCode: 200, Proto: "HTTP/1.1", ProtoMajor: 1, ProtoMinor: 1,
		Header: http.Header{}, Body: io.NopCloser(bytes.NewReader(b)), ContentLength: int64(len(b)), Request: req}, nil
}

type c12UI struct{ errs int }

func (u *c12UI) ReadLine(prompt string) (string, error)       { return "", io.EOF }
func (u *c12UI) Print(args ...interface{})                    {}
func (u *c12UI) PrintErr(args ...interface{})                 { u.errs++ }
func (u *c12UI) IsTerminal() bool                             { return false }
func (u *c12UI) WantBrowser() bool                            { return false }
func (u *c12UI) SetAutoComplete(complete func(string) string) {}

// ---------------------------------------------------------------- case

type c12Case struct {
	Kind      string `json:"kind"`                // run | remote | demangle
	Mode      string `json:"mode,omitempty"`      // hex token of the -symbolize mode (run)
	WantForce int    `json:"want_force"`          // 0 no, 1 yes, 2 unknown (quirk tokens): what the mode requests
	LocalOnly bool   `json:"local_only"`          // the mode disables the remote step
	Force     bool   `json:"force,omitempty"`     // remote / demangle
	DMode     int    `json:"dmode,omitempty"`     // demangle: 0 "", 1 templates, 2 full, 3 none
	Profile   string `json:"profile"`             // canonical token form
	Sources   string `json:"sources,omitempty"`   // token form
	Files     string `json:"files,omitempty"`     // token form of []c12File
	Posts     string `json:"posts,omitempty"`     // token form of []c12Post
	Names     string `json:"names,omitempty"`     // driver: file names the k-th file script answers for
	Src       string `json:"src,omitempty"`       // driver: hex token of the source URL the Fetcher reports
	Exec      string `json:"exec,omitempty"`      // driver: hex token of an executable name given before the source (`pprof binary profile`)
	NSrc      int    `json:"nsrc,omitempty"`      // driver: number of sources on the command line (0 = 1); each is a copy of the profile
}

var c12DModes = []string{"", "templates", "full", "none"}

func c12Options(dm int) []demangle.Option {
	switch dm {
	case 0:
		return []demangle.Option{demangle.NoParams, demangle.NoEnclosingParams, demangle.NoTemplateParams}
	case 1:
		return []demangle.Option{demangle.NoParams, demangle.NoEnclosingParams}
	case 2:
		return []demangle.Option{demangle.NoClones}
	}
	return nil
}

// symbolz source pool: URL ↦ what symbolz(source) is documented to be ("" = not a symbolz source)
var c12SourcePool = [][2]string{
	{"http://host:8000/profilez", "http://host:8000/symbolz"},
	{"http://host:8000/debug/pprof/profile?seconds=5", "http://host:8000/debug/pprof/symbol"},
	{"http://h2/pprof/heap", "http://h2/pprof/symbol"},
	{"http://h3:99/a/b/heapz?x=1", "http://h3:99/a/b/symbolz"},
	{"/tmp/local.prof", ""},
	{"profile.pb.gz", ""},
	{"", ""},
}

func c12IsSourceURL(file string) bool {
	u, err := url.Parse(file)
	return err == nil && u.IsAbs() && strings.Contains(strings.ToLower(u.Scheme), "http")
}

type c12FuncRec struct {
	ptr  *profile.Function
	name string
	sys  string
	file string
	line int64
	id   uint64
}

func c12Section(f func(w *tw)) string {
	var w tw
	f(&w)
	return w.String()
}

func c12SamplesText(p *profile.Profile) string {
	return c12Section(func(w *tw) {
		w.n(len(p.Sample))
		for _, s := range p.Sample {
			w.sample(s)
		}
	})
}
func c12HeaderText(p *profile.Profile) string {
	q := *p
	q.Sample, q.Mapping, q.Location, q.Function = nil, nil, nil, nil
	return Canon(&q)
}

// semantic form: function ids erased (lines resolved to function records, function table as a
// sorted multiset) — id assignment and table order of new functions are not promised.
func c12Sem(p *profile.Profile) string        { return c12SemX(p, true) }
func c12SemNoRefs(p *profile.Profile) string { return c12SemX(p, false) }

func c12SemX(p *profile.Profile, refs bool) string {
	var w tw
	w.tok(c12HeaderText(p))
	w.tok(c12SamplesText(p))
	w.n(len(p.Mapping))
	for _, m := range p.Mapping {
		w.nat(m.ID)
		w.nat(m.Start)
		w.nat(m.Limit)
		w.nat(m.Offset)
		w.str(m.File)
		w.str(m.BuildID)
		w.bool(m.HasFunctions)
		w.bool(m.HasFilenames)
		w.bool(m.HasLineNumbers)
		w.bool(m.HasInlineFrames)
	}
	fr := func(f *profile.Function) string {
		if f == nil {
			return "nil"
		}
		return hexTok([]byte(f.Name)) + "/" + hexTok([]byte(f.SystemName)) + "/" + hexTok([]byte(f.Filename)) + "/" + fmt.Sprint(f.StartLine)
	}
	w.n(len(p.Location))
	for _, l := range p.Location {
		w.nat(l.ID)
		if l.Mapping == nil {
			w.nat(0)
		} else {
			w.nat(l.Mapping.ID)
		}
		w.nat(l.Address)
		w.bool(l.IsFolded)
		w.n(len(l.Line))
		for _, ln := range l.Line {
			if refs {
				w.tok(fr(ln.Function))
			}
			w.int(ln.Line)
			w.int(ln.Column)
		}
	}
	var fs []string
	for _, f := range p.Function {
		fs = append(fs, fr(f))
	}
	sort.Strings(fs)
	w.n(len(fs))
	for _, s := range fs {
		w.tok(s)
	}
	return w.String()
}

func c12SortedLog(a []string) string {
	b := append([]string(nil), a...)
	sort.Strings(b)
	return strings.Join(b, " ")
}

// c12Run executes one case: real code, direct oracle, model.
func c12Run(c *Ctx, cs c12Case) (nontrivial bool) {
	p, err := ParseCanon(cs.Profile)
	if err != nil {
		c.Res.HarnessError = "C12 ParseCanon: " + err.Error()
		return false
	}
	if err := p.CheckValid(); err != nil {
		c.Res.HarnessError = "C12 generator produced an invalid profile: " + err.Error()
		return false
	}
	before, _ := ParseCanon(cs.Profile)
	files := newTR(cs.Files).c12Files()
	posts := newTR(cs.Posts).c12Posts()
	srcs := newTR(cs.Sources).c12Sources()
	mode := ""
	if cs.Mode != "" {
		mode = newTR(cs.Mode).str()
	}
	sources := plugin.MappingSources{}
	for _, e := range srcs {
		for _, s := range e.Srcs {
			sources[e.Key] = append(sources[e.Key], struct {
				Source string
				Start  uint64
			}{s.Source, s.Start})
		}
	}
	old := make([]c12FuncRec, len(p.Function))
	var maxID uint64
	for i, f := range p.Function {
		old[i] = c12FuncRec{f, f.Name, f.SystemName, f.Filename, f.StartLine, f.ID}
		if f.ID > maxID {
			maxID = f.ID
		}
	}
	oldLines := map[*profile.Location][]profile.Line{}
	for _, l := range p.Location {
		oldLines[l] = append([]profile.Line(nil), l.Line...)
	}

	// (1) the real code
	tool := &c12Tool{pending: files}
	poster := &c12Poster{pending: posts}
	ui := &c12UI{}
	var runErr error
	pn := safely(func() {
		switch cs.Kind {
		case "run":
			s := &symbolizer.Symbolizer{Obj: tool, UI: ui, Transport: poster}
			runErr = s.Symbolize(mode, sources, p)
		case "remote":
			runErr = symbolz.Symbolize(p, cs.Force, sources, poster.syms, ui)
		case "demangle":
			symbolizer.Demangle(p, cs.Force, c12DModes[cs.DMode])
		}
	})
	if pn != "" {
		c.Violation("C12/"+cs.Kind+"/panic", "symbolization panics on a valid profile: "+pn, cs)
		return true
	}
	nontrivial = len(tool.log)+len(poster.log) > 0

	// (2) direct oracle: the property's statement on before/after
	sig := "C12/" + cs.Kind + "/"
	if a, b := c12SamplesText(p), c12SamplesText(before); a != b {
		c.Violation(sig+"frame/"+diffField(Canon(&profile.Profile{SampleType: p.SampleType, Sample: p.Sample, Location: p.Location}), Canon(&profile.Profile{SampleType: before.SampleType, Sample: before.Sample, Location: before.Location})),
			"symbolization changed the samples (count, order, values, labels or location ids)", cs)
	}
	if c12HeaderText(p) != c12HeaderText(before) {
		c.Violation(sig+"frame/header", "symbolization changed header fields (sample types, period, comments, …)", cs)
	}
	if len(p.Location) != len(before.Location) {
		c.Violation(sig+"frame/location-count", "symbolization changed the number of locations", cs)
	} else {
		for i, l := range p.Location {
			b := before.Location[i]
			var mid, bmid uint64
			if l.Mapping != nil {
				mid = l.Mapping.ID
			}
			if b.Mapping != nil {
				bmid = b.Mapping.ID
			}
			if l.ID != b.ID {
				c.Violation(sig+"frame/location-id", "symbolization changed a location id", cs)
			}
			if l.Address != b.Address {
				c.Violation(sig+"frame/location-address", fmt.Sprintf("symbolization changed the address of location %d: %#x → %#x", b.ID, b.Address, l.Address), cs)
			}
			if mid != bmid {
				c.Violation(sig+"frame/location-mapping", "symbolization moved a location to another mapping", cs)
			}
		}
	}
	if len(p.Mapping) != len(before.Mapping) {
		c.Violation(sig+"frame/mapping-count", "symbolization changed the number of mappings", cs)
	} else {
		for i, m := range p.Mapping {
			b := before.Mapping[i]
			if m.ID != b.ID || m.Start != b.Start || m.Limit != b.Limit || m.Offset != b.Offset || m.File != b.File || m.BuildID != b.BuildID {
				c.Violation(sig+"frame/mapping-range", fmt.Sprintf("symbolization changed id/start/limit/offset/file/build id of mapping %d", b.ID), cs)
			}
		}
	}
	newCount := uint64(0)
	if len(p.Function) > len(old) {
		newCount = uint64(len(p.Function) - len(old))
	}
	// hypothesis of symbolize_valid (via symbolize_not_wrapped): largest id in use + number of new
	// functions fits a uint64. The oracle is evaluated with a margin (ids below 2^63) so that it does
	// not depend on HOW the code picks fresh ids; profiles with ids next to 2^64 only take part in
	// the model comparison.
	headroom := maxID < 1<<63 && newCount < 1<<62
	if headroom {
		if err := p.CheckValid(); err != nil {
			k := "other"
			switch {
			case strings.Contains(err.Error(), "multiple functions with same id"):
				k = "duplicate-function-id"
			case strings.Contains(err.Error(), "reserved id"):
				k = "zero-id"
			case strings.Contains(err.Error(), "has a line with"), strings.Contains(err.Error(), "function"):
				k = "dangling-function"
			}
			c.Violation(sig+"valid/"+k, "the symbolized profile is not valid: "+err.Error(), cs)
		}
	} else {
		c.Res.Hit("ids-next-to-2^64:model-comparison-only")
	}
	// mappings that already carry symbols are left alone unless force is requested
	force := cs.Force
	forceKnown := true
	if cs.Kind == "run" {
		force, forceKnown = cs.WantForce == 1, cs.WantForce != 2
	}
	if cs.Kind != "demangle" && forceKnown && !force && len(p.Mapping) == len(before.Mapping) {
		for i, m := range p.Mapping {
			b := before.Mapping[i]
			carries := b.HasFunctions
			if cs.Kind == "run" && cs.LocalOnly {
				carries = b.HasFunctions || b.HasFilenames || b.HasLineNumbers
			}
			if !carries {
				continue
			}
			c.Res.Hit("mapping-with-symbols-no-force")
			if m.HasFunctions != b.HasFunctions || m.HasFilenames != b.HasFilenames || m.HasLineNumbers != b.HasLineNumbers || m.HasInlineFrames != b.HasInlineFrames {
				c.Violation(sig+"has-symbols/flags", fmt.Sprintf("flags of mapping %d, which already carried symbols, changed without force", b.ID), cs)
			}
			for j, l := range p.Location {
				if l.Mapping != m || j >= len(before.Location) {
					continue
				}
				same := len(l.Line) == len(oldLines[l]) && l.IsFolded == before.Location[j].IsFolded
				for k := 0; same && k < len(l.Line); k++ {
					same = l.Line[k] == oldLines[l][k]
				}
				if !same {
					c.Violation(sig+"has-symbols/lines", fmt.Sprintf("location %d of mapping %d, which already carried symbols, was re-symbolized without force", l.ID, b.ID), cs)
				}
			}
		}
	}
	// "updates the has-symbols flags": a flag that this run switched on must be backed by what the
	// locations of that mapping carry (checked where only the local step ran: symbolz marks a mapping
	// as having functions whenever the query succeeded)
	if cs.Kind == "run" && cs.LocalOnly && cs.WantForce != 2 && len(p.Mapping) == len(before.Mapping) {
		for i, m := range p.Mapping {
			b := before.Mapping[i]
			var fn, fl, ln, any bool
			for _, l := range p.Location {
				if l.Mapping != m {
					continue
				}
				for _, x := range l.Line {
					any = true
					if x.Function != nil && x.Function.SystemName != "" {
						fn = true
					}
					if x.Function != nil && x.Function.Filename != "" {
						fl = true
					}
					if x.Line != 0 {
						ln = true
					}
				}
			}
			if m.HasFunctions && !b.HasFunctions && !fn || m.HasFilenames && !b.HasFilenames && !fl ||
				m.HasLineNumbers && !b.HasLineNumbers && !ln || m.HasInlineFrames && !b.HasInlineFrames && !any {
				c.Violation(sig+"flags/set-without-symbols", fmt.Sprintf("a has-symbols flag of mapping %d was switched on although no location of it carries such information", b.ID), cs)
			}
		}
	}
	// demangling never replaces a non-empty name by an empty one
	for i, f := range p.Function {
		if i < len(old) && old[i].ptr == f {
			if old[i].name != "" && f.Name == "" {
				c.Violation(sig+"demangle/nonempty-name-emptied", fmt.Sprintf("function %q (system name %q) got the empty name", old[i].name, f.SystemName), cs)
			}
		} else if f.SystemName != "" && f.Name == "" {
			// a function created by this run: it was created with Name = SystemName
			c.Violation(sig+"demangle/nonempty-name-emptied", fmt.Sprintf("new function with system name %q got the empty name", f.SystemName), cs)
		}
	}
	if cs.Kind == "demangle" {
		// Demangle may only change names
		q, _ := ParseCanon(Canon(p))
		for i, f := range q.Function {
			if i < len(before.Function) {
				f.Name = before.Function[i].Name
			}
		}
		if Canon(q) != cs.Profile {
			c.Violation(sig+"frame/"+diffField(Canon(q), cs.Profile), "Demangle changed something other than function names", cs)
		}
	}

	// (3) the model
	c.Res.ModelCompared++
	var req string
	dm := cs.DMode
	if cs.Kind == "run" {
		pm := c.Drv.Ask("sym.parsemode " + cs.Mode)
		if pm == "none" {
			dm = 3
			if Canon(p) != cs.Profile {
				c.Violation(sig+"none/changed", "mode none/no changed the profile", cs)
			}
		} else if f := strings.Fields(pm); len(f) == 5 {
			fmt.Sscan(f[4], &dm)
			if forceKnown && (f[3] == "1") != force {
				c.Res.HarnessError = "C12: generator and model disagree about force for mode " + mode
			}
		} else {
			c.Disagree("C12/model/parsemode", "model cannot parse mode: "+trunc(pm), "correspondence Sym.parseMode ~ Symbolizer.Symbolize", cs)
			return
		}
	}
	// demangle.Filter as a table over the system names of the result (the only strings it is asked about)
	var filt [][2]string
	if opts := c12Options(dm); len(opts) > 0 {
		seen := map[string]bool{}
		add := func(s string) {
			if !seen[s] {
				seen[s] = true
				o := append([]demangle.Option(nil), opts...)
				filt = append(filt, [2]string{s, demangle.Filter(s, o...)})
			}
		}
		for _, f := range p.Function {
			add(f.SystemName)
			if strings.HasPrefix(f.SystemName, "_") {
				add(f.SystemName[1:])
			}
		}
	}
	pairs := func(ps [][2]string) string {
		return c12Section(func(w *tw) {
			w.n(len(ps))
			for _, p := range ps {
				w.str(p[0])
				w.str(p[1])
			}
		})
	}
	switch cs.Kind {
	case "run":
		var urls [][2]string
		for _, s := range c12SourcePool {
			urls = append(urls, [2]string{s[0], s[1]})
		}
		srcURLs := c12Section(func(w *tw) {
			var fs []string
			for _, m := range before.Mapping {
				if c12IsSourceURL(m.File) {
					fs = append(fs, m.File)
				}
			}
			w.n(len(fs))
			for _, f := range fs {
				w.str(f)
			}
		})
		req = strings.Join([]string{"sym.run", cs.Mode, cs.Profile, cs.Sources, cs.Files, cs.Posts, pairs(urls), srcURLs, pairs(filt)}, " ")
	case "remote":
		var urls [][2]string
		for _, s := range c12SourcePool {
			urls = append(urls, [2]string{s[0], s[1]})
		}
		fb := "0"
		if cs.Force {
			fb = "1"
		}
		req = strings.Join([]string{"sym.remote", fb, cs.Profile, cs.Sources, cs.Posts, pairs(urls)}, " ")
	case "demangle":
		fb := "0"
		if cs.Force {
			fb = "1"
		}
		req = strings.Join([]string{"sym.demangle", fb, fmt.Sprint(cs.DMode), cs.Profile, pairs(filt)}, " ")
	}
	rep := c.Drv.Ask(req)
	r := newTR(rep)
	if r.tok() != "ok" {
		c.Disagree("C12/model/"+cs.Kind+"/"+firstWord(rep), "model did not answer: "+trunc(rep), "correspondence Sym.symbolize ~ Symbolizer.Symbolize", cs)
		return
	}
	mErr, _ := r.bool(), r.bool()
	mp := r.profile()
	var mlog []string
	for k := 0; k < 2; k++ {
		for i, n := 0, r.n(); i < n && r.err == nil; i++ {
			mlog = append(mlog, r.tok())
		}
	}
	if r.err != nil {
		c.Disagree("C12/model/"+cs.Kind+"/unparsable", "cannot parse the model's reply: "+r.err.Error(), "correspondence Sym.symbolize ~ Symbolizer.Symbolize", cs)
		return
	}
	broken := "theorems symbolize_frame_condition / symbolize_valid / symbolize_respects_has_symbols / demangle_nonempty are about Sym.symbolize, which no longer corresponds to the code"
	if mErr != (runErr != nil) {
		c.Disagree("C12/model/"+cs.Kind+"/error-class", fmt.Sprintf("model error=%v, code error=%v", mErr, runErr), broken, cs)
	}
	if !headroom {
		// ids next to 2^64: the id counter may wrap, ids are then not unique and lines cannot be
		// resolved through ids; compare everything except ids and line→function references
		if c12SemNoRefs(p) != c12SemNoRefs(mp) {
			c.Disagree("C12/model/"+cs.Kind+"/wrapped/"+diffField(Canon(p), Canon(mp)), "symbolized profile differs from the model's (ids next to 2^64; compared without function references)", broken, cs)
		}
	} else if gs, ms := c12Sem(p), c12Sem(mp); gs != ms {
		c.Disagree("C12/model/"+cs.Kind+"/"+diffField(Canon(p), Canon(mp)), "symbolized profile differs from the model's (function ids erased)", broken, cs)
	} else if Canon(p) == Canon(mp) {
		c.Res.Hit("model:ids-identical")
	} else {
		c.Res.Hit("model:ids-differ")
	}
	if gl, ml := c12SortedLog(append(append([]string(nil), tool.log...), poster.log...)), c12SortedLog(mlog); gl != ml {
		c.Disagree("C12/model/"+cs.Kind+"/plugin-calls", "the plug-in calls made by the code differ from the model's: code ["+trunc(gl)+"] model ["+trunc(ml)+"]", broken, cs)
	}

	// distribution
	if runErr != nil {
		c.Res.Hit("result:error")
	}
	changed := 0
	for _, l := range p.Location {
		ol := oldLines[l]
		same := len(ol) == len(l.Line)
		for k := 0; same && k < len(ol); k++ {
			same = ol[k] == l.Line[k]
		}
		if !same {
			changed++
		}
	}
	c.Res.Hit(fmt.Sprintf("locations-resymbolized:%s", c12Bucket(changed)))
	c.Res.Hit(fmt.Sprintf("new-functions:%s", c12Bucket(int(newCount))))
	for _, e := range tool.log {
		c.Res.Hit("call:" + e[:1])
	}
	for range poster.log {
		c.Res.Hit("call:P")
	}
	renamed := 0
	for i, f := range p.Function {
		if i < len(old) && old[i].name != f.Name {
			renamed++
		}
	}
	c.Res.Hit("old-functions-renamed:" + c12Bucket(renamed))
	if cs.Kind == "demangle" {
		nontrivial = renamed > 0
	}
	return nontrivial
}

func c12Bucket(n int) string {
	switch {
	case n == 0:
		return "0"
	case n <= 2:
		return "1-2"
	case n <= 8:
		return "3-8"
	}
	return "9+"
}

// ---------------------------------------------------------------- generators

var c12Files = []string{"/bin/prog", "/lib/libc.so.6", "/a/b/c.so", "prog", "", "[vdso]", "//anon", "/dev/dri/card0", "/usr/lib/linux-vdso.so.1", "http://host:8000/profilez", "HTTPS://x/y", "/tmp/[odd]/bin", "dir/"}
var c12BuildIDs = []string{"", "", "abc123", "ff00"}
var c12Names = []string{"main", "foo", "bar", "runtime.mallocgc", "<unknown>", "(anonymous namespace)::f(int)", "(a::b)", "foo::baz<double>(double)",
	"_ZN3foo3barEi", "__ZdaPv", "_Z3barPA5_i", "_ZN3foo3bazIdEEiT", "_", "__some_special_name", "java.lang.Float.<init>", "example.com/foo.(*Bar[...]).Bat", "operator delete[](void*)",
	"<lambda()>::operator()", "[unknown]", "<>", "()", "a::b<c>::d(e)", "))((::", "f(::", "a<b", "", "std::vector<int>::push_back", "x<y>(z)", "<a>(b)::"}
var c12SrcFiles = []string{"", "a.c", "dir/b.cc", "main.go"}

func (r *Rng) c12Frames() []plugin.Frame {
	n := 1 + r.Intn(3)
	if r.Chance(10) {
		n = 0
	}
	var fs []plugin.Frame
	for i := 0; i < n; i++ {
		f := plugin.Frame{Func: r.Pick(c12Names), File: r.Pick(c12SrcFiles)}
		if r.Chance(70) {
			f.Line = r.Intn(300)
		}
		if r.Chance(30) {
			f.Column = r.Intn(9)
		}
		if r.Chance(30) {
			f.StartLine = r.Intn(50)
		}
		if r.Chance(3) {
			f.Line, f.StartLine = -1, -5
		}
		fs = append(fs, f)
	}
	return fs
}

type c12GenOpts struct {
	ids     string // dense | sparse | big | wrap
	names   []string
	symShare int // percent of mappings that already carry some flag
}

// c12Profile builds a valid profile: several mappings (some fake / unsymbolizable / URL-like),
// partly symbolized locations, addresses at mapping edges, function ids per strategy.
func c12Profile(r *Rng, o c12GenOpts) *profile.Profile {
	p := &profile.Profile{}
	nst := 1 + r.Intn(2)
	for i := 0; i < nst; i++ {
		p.SampleType = append(p.SampleType, &profile.ValueType{Type: r.Pick([]string{"cpu", "samples", "alloc_space"}), Unit: r.Pick([]string{"count", "nanoseconds", "bytes"})})
	}
	if r.Chance(50) {
		p.PeriodType = &profile.ValueType{Type: "cpu", Unit: "nanoseconds"}
		p.Period = int64(r.Intn(1000))
		p.Comments = []string{"c1"}
		p.DurationNanos = 1e9
		p.DropFrames, p.KeepFrames = r.Pick([]string{"", "foo"}), r.Pick([]string{"", "main"})
	}
	nm := 1 + r.Intn(4)
	if r.Chance(5) {
		nm = 0
	}
	for i := 0; i < nm; i++ {
		start := uint64(0x400000 + i*0x100000)
		m := &profile.Mapping{ID: uint64(i + 1), Start: start, Limit: start + 0x80000, Offset: uint64(r.Intn(3)) * 0x1000, File: r.Pick(c12Files), BuildID: r.Pick(c12BuildIDs)}
		switch {
		case r.Chance(8): // the fake mapping of legacy profiles
			m.Start, m.Limit, m.Offset, m.File, m.BuildID = 0, ^uint64(0), 0, "", ""
		case r.Chance(6):
			m.Start = 1<<63 + uint64(i)*0x1000
			m.Limit = m.Start + 0x800
		case r.Chance(4):
			m.Start, m.Limit = ^uint64(0)-0x1000, ^uint64(0)
		case r.Chance(7): // no address range, but a file: the fake mapping after `pprof binary profile`
			m.Start, m.Limit, m.Offset = 0, 0, 0
			m.File, m.BuildID = r.Pick(c12Files[:4]), r.Pick(c12BuildIDs)
		}
		if r.Chance(55) && m.Limit != ^uint64(0) {
			m.File = r.Pick(c12Files[:4]) // ordinary binary
		}
		if r.Chance(o.symShare) {
			m.HasFunctions, m.HasFilenames, m.HasLineNumbers, m.HasInlineFrames = r.Chance(60), r.Chance(40), r.Chance(40), r.Chance(30)
		}
		p.Mapping = append(p.Mapping, m)
	}
	if r.Chance(30) && len(p.Mapping) > 1 { // sparse, shuffled mapping ids
		for _, m := range p.Mapping {
			m.ID = m.ID*7 + 3
		}
		p.Mapping[0].ID, p.Mapping[1].ID = p.Mapping[1].ID, p.Mapping[0].ID
	}
	names := o.names
	if names == nil {
		names = c12Names
	}
	nf := r.Intn(7)
	used := map[uint64]bool{}
	for i := 0; i < nf; i++ {
		var id uint64
		for id == 0 || used[id] {
			switch o.ids {
			case "dense":
				id = uint64(i + 1)
			case "sparse":
				id = uint64(1 + r.Intn(3*nf+6))
			case "big":
				id = 1<<40 + uint64(r.Intn(1<<20))
				if r.Chance(30) {
					id = 1<<62 + uint64(r.Intn(8))
				}
			default: // wrap: ids next to 2^64
				id = ^uint64(0) - uint64(r.Intn(4))
				if r.Chance(50) {
					id = uint64(1 + r.Intn(5))
				}
			}
		}
		used[id] = true
		n := r.Pick(names)
		f := &profile.Function{ID: id, Name: n, SystemName: n, Filename: r.Pick(c12SrcFiles), StartLine: int64(r.Intn(30))}
		switch r.Intn(8) {
		case 0:
			f.SystemName = r.Pick(names) // "already demangled": name differs from system name
		case 1:
			f.Name = ""
		case 2:
			f.SystemName = ""
		}
		p.Function = append(p.Function, f)
	}
	nl := 1 + r.Intn(9)
	for i := 0; i < nl; i++ {
		l := &profile.Location{ID: uint64(i + 1), IsFolded: r.Chance(10)}
		if r.Chance(20) {
			l.ID = uint64(i+1) * 1000003
		}
		if len(p.Mapping) > 0 && r.Chance(92) {
			m := p.Mapping[r.Intn(len(p.Mapping))]
			l.Mapping = m
			switch r.Intn(8) {
			case 0:
				l.Address = m.Start
			case 1:
				l.Address = m.Limit - 1
			case 2:
				l.Address = m.Limit
			case 3:
				l.Address = 0
			case 4:
				l.Address = m.Start - 1
			default:
				l.Address = m.Start + uint64(r.Intn(0x800))
			}
			if r.Chance(25) && i > 0 {
				l.Address = p.Location[i-1].Address // same address twice, possibly in another mapping
			}
		} else {
			l.Address = uint64(r.Intn(0x10000))
		}
		symbolized := l.Mapping != nil && (l.Mapping.HasFunctions || l.Mapping.HasFilenames || l.Mapping.HasLineNumbers)
		if len(p.Function) > 0 && (symbolized && r.Chance(85) || !symbolized && r.Chance(15)) {
			for j, n := 0, 1+r.Intn(3); j < n; j++ {
				l.Line = append(l.Line, profile.Line{Function: p.Function[r.Intn(len(p.Function))], Line: int64(r.Intn(200)), Column: int64(r.Intn(4))})
			}
		}
		p.Location = append(p.Location, l)
	}
	lo := &GenOpts{}
	for i, ns := 0, r.Intn(7); i < ns; i++ {
		s := &profile.Sample{}
		for j, d := 0, r.Intn(5); j < d; j++ {
			s.Location = append(s.Location, p.Location[r.Intn(len(p.Location))])
		}
		for j := 0; j < nst; j++ {
			s.Value = append(s.Value, r.Int64())
		}
		if r.Chance(60) {
			r.genLabels(lo, s)
		}
		p.Sample = append(p.Sample, s)
	}
	return p
}

func c12Addrs(p *profile.Profile) []uint64 {
	seen := map[uint64]bool{}
	var as []uint64
	for _, l := range p.Location {
		if !seen[l.Address] {
			seen[l.Address] = true
			as = append(as, l.Address)
		}
	}
	return as
}

func c12GenFiles(r *Rng, p *profile.Profile) []c12File {
	var fs []c12File
	addrs := c12Addrs(p)
	for i, n := 0, len(p.Mapping)+r.Intn(2); i < n; i++ {
		f := c12File{OpenErr: r.Chance(12)}
		switch r.Intn(5) {
		case 0:
			f.BuildID = r.Pick(c12BuildIDs)
		case 1:
			f.BuildID = "mismatch"
		default:
			if i < len(p.Mapping) {
				f.BuildID = p.Mapping[i].BuildID
			}
		}
		if r.Chance(15) {
			f.FailAt = 1 + r.Intn(4)
		}
		share := []int{100, 70, 30}[r.Intn(3)] // full / partial answers
		for _, a := range addrs {
			if r.Chance(share) {
				f.Answers = append(f.Answers, c12Answer{Addr: a, Frames: r.c12Frames()})
			}
		}
		fs = append(fs, f)
	}
	return fs
}

func c12GenPosts(r *Rng, p *profile.Profile) []c12Post {
	var ps []c12Post
	raw := []string{"", "garbage line\n", "0x0 zero\n", "0xffffffffffffffff\tbig\n", "0x1ffffffffffffffffffff x\n", "0xzz y\n", "no newline at end",
		"0x400000   spaces name \n", "prefix 0x400010\tmid\n", "0x400010\t\n", "0X400000 upper\n", "\n\n", "0x400000\n"}
	for i, n := 0, len(p.Mapping)+r.Intn(2); i < n; i++ {
		q := c12Post{Err: r.Chance(12), Sep: r.Pick([]string{"\t", " ", "  \t ", "\t", "\t"})}
		if r.Chance(75) {
			for j, m := 0, 1+r.Intn(4); j < m; j++ {
				q.Names = append(q.Names, r.Pick(c12Names))
			}
		}
		if r.Chance(30) {
			q.DropEvery = 1 + r.Intn(3)
		}
		if r.Chance(25) {
			q.Before = r.Pick(raw)
		}
		if r.Chance(35) {
			q.After = r.Pick(raw)
		}
		if r.Chance(5) {
			q.Sep = "" // nothing matches
		}
		ps = append(ps, q)
	}
	return ps
}

func c12GenSources(r *Rng, p *profile.Profile) []c12SrcEntry {
	var es []c12SrcEntry
	seen := map[string]bool{}
	add := func(key string, m *profile.Mapping) {
		if seen[key] || r.Chance(20) {
			return
		}
		seen[key] = true
		e := c12SrcEntry{Key: key}
		for j, n := 0, 1+r.Intn(2); j < n; j++ {
			s := c12Source{Source: c12SourcePool[r.Intn(len(c12SourcePool))][0]}
			if r.Chance(60) {
				s.Source = c12SourcePool[r.Intn(4)][0]
			}
			switch r.Intn(10) {
			case 0:
				s.Start = m.Start
			case 1:
				s.Start = m.Start + 0x1000
			case 2:
				s.Start = ^uint64(0) - uint64(r.Intn(0x2000))
			case 3:
				s.Start = 1 << 63
			case 4:
				s.Start = uint64(r.Intn(0x1000))
			}
			e.Srcs = append(e.Srcs, s)
		}
		es = append(es, e)
	}
	for _, m := range p.Mapping {
		add(m.File, m)
		if m.BuildID != "" {
			add(m.BuildID, m)
		}
	}
	return es
}

// c12GenMode returns a mode string and what it requests.
func c12GenMode(r *Rng) (mode string, wantForce int, localOnly bool) {
	var toks []string
	base := r.Pick([]string{"", "", "", "local", "local", "local", "fastlocal", "remote", "remote", "remote", "none", "no"})
	localOnly = base == "local" || base == "fastlocal"
	if base != "" || r.Chance(20) {
		toks = append(toks, base)
	}
	if r.Chance(30) {
		toks = append(toks, "force")
		wantForce = 1
	}
	if r.Chance(45) {
		d := r.Pick([]string{"demangle=full", "demangle=none", "demangle=templates", "demangle=default"})
		toks = append(toks, d)
		if d != "demangle=default" {
			wantForce = 1
		}
	}
	if r.Chance(6) {
		toks = append(toks, r.Pick([]string{"bogus", "demangle=", "demangle=bogus", "default", "forced"}))
	}
	if r.Chance(3) {
		toks = append(toks, r.Pick([]string{"full", "templates"})) // accepted without the demangle= prefix
		wantForce = 2
	}
	if r.Chance(4) { // a second base option: the last one wins
		b2 := r.Pick([]string{"local", "remote", "fastlocal"})
		toks = append(toks, b2)
		wantForce = 2 // keep the oracle out of the interplay; the model comparison still runs
	}
	for i := len(toks) - 1; i > 0; i-- {
		j := r.Intn(i + 1)
		toks[i], toks[j] = toks[j], toks[i]
	}
	// "none"/"no" only stops the parse when reached; options before it have no effect either
	mode = strings.Join(toks, ":")
	if r.Chance(15) {
		mode = strings.ToUpper(mode)
	}
	return
}

func c12GenCase(r *Rng, i int) (c12Case, string) {
	ids := []string{"dense", "sparse", "sparse", "sparse", "big"}[i%5]
	if i%35 == 34 {
		ids = "wrap"
	}
	o := c12GenOpts{ids: ids, symShare: []int{0, 30, 60}[r.Intn(3)]}
	kind := "run"
	switch (i / 5) % 10 {
	case 7:
		kind = "remote"
	case 9:
		kind = "demangle"
	}
	p := c12Profile(r, o)
	cs := c12Case{Kind: kind, Profile: Canon(p)}
	switch kind {
	case "run":
		mode, wf, lo := c12GenMode(r)
		cs.Mode, cs.WantForce, cs.LocalOnly = hexTok([]byte(mode)), wf, lo
		cs.Sources = c12Section(func(w *tw) { w.c12Sources(c12GenSources(r, p)) })
		cs.Files = c12Section(func(w *tw) { w.c12Files(c12GenFiles(r, p)) })
		cs.Posts = c12Section(func(w *tw) { w.c12Posts(c12GenPosts(r, p)) })
	case "remote":
		cs.Force = r.Chance(35)
		cs.Sources = c12Section(func(w *tw) { w.c12Sources(c12GenSources(r, p)) })
		cs.Posts = c12Section(func(w *tw) { w.c12Posts(c12GenPosts(r, p)) })
		cs.Files = "0"
	case "demangle":
		cs.Force = r.Chance(50)
		cs.DMode = r.Intn(4)
		cs.Sources, cs.Files, cs.Posts = "0", "0", "0"
	}
	return cs, kind + "/" + ids
}

func runC12(c *Ctx) {
	c.Res.Rule = "valid profiles (1-4 mappings incl. fake/unsymbolizable/URL-like files, flags partly set, locations partly symbolized, addresses at mapping edges and repeated, function ids dense/sparse/big/next-to-2^64) × modes (local, fastlocal, remote, none, force, demangle=…, upper case, junk tokens) × scripted ObjTool (answers, partial answers, Open errors, SourceLine error at k-th call, build-id mismatch) × scripted symbolz POST (answers per queried address, dropped addresses, raw junk lines, errors) × mapping sources (offsets incl. overflowing ones); 10% direct symbolz.Symbolize, 10% direct Demangle; plus a driver-level stream (400 cases): `pprof -proto -symbolize=local|fastlocal|remote|force|demangle=…` through driver.PProf with a Fetcher plug-in, scripted ObjTool and symbolz endpoint on single-source profiles containing duplicate samples (same stack+labels), all-zero samples, cancelling pairs, samples differing only in labels, unreferenced functions/locations/mappings — output compared sample for sample with the same command under -symbolize=none (non-trivial there = symbolization added ≥1 function); non-trivial = at least one plug-in call (Open/POST) happened, for direct Demangle at least one function renamed; distinct by canonical text of the whole case"
	if c.Replay != "" {
		var cs c12Case
		if err := c.LoadReplay(&cs); err != nil {
			c.Res.HarnessError = err.Error()
			return
		}
		if cs.Kind == "driver" {
			defer c12DriverEnv()()
			c12RunDriver(c, cs)
		} else {
			c12Run(c, cs)
		}
		c.Res.Evaluations++
		return
	}
	r := NewRng(c.Seed)
	n := 2500 * c.Scale
	for i := 0; i < n; i++ {
		cs, strat := c12GenCase(r, i)
		nt := c12Run(c, cs)
		c.Res.Count(cs.Kind+cs.Mode+cs.Profile+cs.Sources+cs.Files+cs.Posts+fmt.Sprint(cs.Force, cs.DMode), nt)
		c.Res.Hit("strategy:" + strat)
		if i < 3 {
			c.Res.Sample(map[string]string{"strategy": strat, "mode": cs.Mode, "profile": trunc(cs.Profile), "files": trunc(cs.Files), "posts": trunc(cs.Posts), "sources": trunc(cs.Sources)})
		}
		if c.Res.HarnessError != "" {
			return
		}
	}
	c12DriverStream(c, r)
}
