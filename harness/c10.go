//go:build verif

package main

import (
	"bytes"
	"encoding/hex"
	"encoding/json"
	"fmt"
	"os"
	"os/exec"
	"path/filepath"
	"sort"
	"strconv"
	"strings"
	"sync"

	"github.com/google/pprof/profile"
)

func init() { register("C10", runC10) }

// c10Case is the self-contained replay format of both streams.
type c10Case struct {
	Kind     string              `json:"kind"`    // "interactive" | "web"
	Profile  string              `json:"profile"` // hex of the uncompressed serialised profile
	Lines    []c10Line           `json:"lines,omitempty"`
	Probes   []int               `json:"probes,omitempty"`   // indices of lines compared with a fresh reference session
	Desugar  []int               `json:"desugar,omitempty"`  // indices of commands compared with their desugared form
	Request  string              `json:"request,omitempty"`  // web: the probed request r
	Others   []string            `json:"others,omitempty"`   // web: requests served before / concurrently
	Profile2 string              `json:"profile2,omitempty"` // web: a second (small) and a third (large) profile for
	Profile3 string              `json:"profile3,omitempty"` //      sessions living in the same process
	Procs    int                 `json:"procs,omitempty"`    // web conc phase: GOMAXPROCS override (-1 = all CPUs; 0 = derived from the case)
	Light    bool                `json:"light,omitempty"`    // web: expensive (large-profile) case — fewer rounds per phase
	RealObj  bool                `json:"real_obj,omitempty"` // the profile's mapping is a real ELF binary of the tree under test; default ObjTool
	Refs     map[string][]string `json:"refs,omitempty"`     // web: fresh-process references (filled in by the parent)
	Flags    map[string]string   `json:"flags,omitempty"`    // web: process options without URL parameter (command-line flags)
	Phase    string              `json:"phase,omitempty"`    // web: "seq" | "conc" | "" (both)
	Note     string              `json:"note,omitempty"`
}

// ---- the model's view of a script ----

type c10ModelLine struct {
	Kind   string
	Assign bool
	Cmd    []string
	Diff   [][2]string
	Out    string // the file this report is written to (effective `output`), "" = stdout or a temp file
}

type c10Model struct {
	OK    bool
	Raw   string
	Lines []c10ModelLine
	Cfg   [][2]string
	Alive bool
}

type c10Toks struct {
	t []string
	i int
	e bool
}

func (t *c10Toks) next() string {
	if t.i >= len(t.t) {
		t.e = true
		return ""
	}
	t.i++
	return t.t[t.i-1]
}
func (t *c10Toks) nat() int {
	n, err := strconv.Atoi(t.next())
	if err != nil || n < 0 || n > 1<<20 {
		t.e = true
		return 0
	}
	return n
}
func (t *c10Toks) str() string {
	s := t.next()
	if !strings.HasPrefix(s, "x") {
		t.e = true
		return ""
	}
	b, err := hex.DecodeString(s[1:])
	if err != nil {
		t.e = true
	}
	return string(b)
}
func (t *c10Toks) cfg() [][2]string {
	n := t.nat()
	var out [][2]string
	for i := 0; i < n && !t.e; i++ {
		k := t.str()
		v := t.str()
		out = append(out, [2]string{k, v})
	}
	return out
}

func c10StrList(ss []string) string {
	var sb strings.Builder
	sb.WriteString(strconv.Itoa(len(ss)))
	for _, s := range ss {
		sb.WriteString(" " + hexTok([]byte(s)))
	}
	return sb.String()
}

// c10FloatTab: strconv.ParseFloat ∘ fmt.Sprint is an external function of the model; the harness
// tabulates it for every value the generators can hand to a float option.
func c10FloatTab(extra []string) string {
	seen := map[string]bool{}
	var ks []string
	for _, v := range append(append([]string{}, c10Floats...), extra...) {
		if !seen[v] {
			seen[v] = true
			ks = append(ks, v)
		}
	}
	var sb strings.Builder
	sb.WriteString(strconv.Itoa(len(ks)))
	for _, k := range ks {
		sb.WriteString(" " + hexTok([]byte(k)))
		if f, err := strconv.ParseFloat(k, 64); err == nil {
			sb.WriteString(" 1 " + hexTok([]byte(fmt.Sprint(f))))
		} else {
			sb.WriteString(" 0")
		}
	}
	return sb.String()
}

func c10AskModel(c *Ctx, p *profile.Profile, lines []c10Line) *c10Model {
	var types, texts []string
	for _, st := range p.SampleType {
		types = append(types, st.Type)
	}
	var extra []string
	for _, l := range lines {
		texts = append(texts, l.Text)
		if i := strings.IndexByte(l.Text, '='); i >= 0 {
			v := l.Text[i+1:]
			if j := strings.LastIndex(v, "//:"); j >= 0 {
				v = v[:j]
			}
			extra = append(extra, strings.TrimSpace(v))
		}
	}
	req := "sess.run " + c10StrList(types) + " " + hexTok([]byte(p.DefaultSampleType)) + " " + c10FloatTab(extra) + " " + c10StrList(texts)
	raw := c.Drv.Ask(req)
	m := &c10Model{Raw: raw}
	t := &c10Toks{t: strings.Fields(raw)}
	if t.next() != "ok" {
		return m
	}
	n := t.nat()
	for i := 0; i < n && !t.e; i++ {
		ml := c10ModelLine{Kind: t.next(), Assign: t.next() == "1"}
		for j, k := 0, t.nat(); j < k && !t.e; j++ {
			ml.Cmd = append(ml.Cmd, t.str())
		}
		ml.Diff = t.cfg()
		ml.Out = t.str()
		m.Lines = append(m.Lines, ml)
	}
	m.Cfg = t.cfg()
	m.Alive = t.next() == "alive"
	m.OK = !t.e && len(m.Lines) == len(lines)
	return m
}

// ---- one interactive case ----

type c10Mismatch struct {
	Sig, What, Broken string // Broken != "" ⇒ model/code disagreement, else property violation
	Probe             int
}

type c10Outcome struct {
	Main       *c10Session
	Mismatches []c10Mismatch
	HarnessErr string
	Compared   int // probes compared with a reference session
	Desugared  int
	AfterMut   int // probes that had an executed report command before them
	Hits       []string
	seen       *sync.Map // signatures already confirmed in this run (nil: examine every difference)
}

func c10CaseDir(cs *c10Case) (string, *profile.Profile, error) {
	b, err := hex.DecodeString(cs.Profile)
	if err != nil {
		return "", nil, err
	}
	p, err := profile.ParseUncompressed(b)
	if err != nil {
		return "", nil, err
	}
	base := filepath.Join(os.Getenv("VERIF_DIR"), ".build")
	if os.Getenv("VERIF_DIR") == "" {
		base = os.TempDir()
	}
	dir, err := os.MkdirTemp(base, "c10case-")
	if err != nil {
		return "", nil, err
	}
	var buf bytes.Buffer
	if err := p.Write(&buf); err != nil {
		return dir, nil, err
	}
	os.WriteFile(filepath.Join(dir, "prof.pb.gz"), buf.Bytes(), 0o644)
	os.MkdirAll(filepath.Join(dir, "nopath"), 0o755)
	if cs.RealObj {
		os.WriteFile(filepath.Join(dir, "use-system-tools"), nil, 0o644)
	}
	for name, text := range c10SourceTrees(p) {
		f := filepath.Join(dir, name)
		os.MkdirAll(filepath.Dir(f), 0o755)
		os.WriteFile(f, []byte(text), 0o644)
	}
	return dir, p, nil
}

func c10CmdName(text string) string {
	f := strings.Fields(text)
	if len(f) == 0 {
		return "blank"
	}
	n := strings.TrimRight(f[0], "0123456789")
	if n == "" {
		n = f[0]
	}
	if len(n) > 16 || strings.ContainsAny(n, "=/\\\"") {
		return "other"
	}
	return n
}

// c10Display: how printCurrentOptions shows an option value.
func c10Display(name, v string, types []string) (string, bool) {
	switch {
	case name == "source_path":
		return "", false
	case name == "sample_index" && v == "":
		if len(types) == 0 {
			return "", false
		}
		return types[len(types)-1], true
	case name == "granularity" && v == "":
		return "(default)", true
	case name == "sort" || name == "granularity" || name == "sample_index":
		return v, true
	case v == "":
		return `""`, true
	}
	return v, true
}

func c10Types(p *profile.Profile) []string {
	var ts []string
	for _, st := range p.SampleType {
		ts = append(ts, st.Type)
	}
	return ts
}

// assignment lines of lines[:i], as classified by `assign`.
func c10Prefix(lines []c10Line, assign []bool, i int) []string {
	var out []string
	for j := 0; j < i; j++ {
		if assign[j] {
			out = append(out, lines[j].Text)
		}
	}
	return out
}

// c10RunInteractive executes one case against the real binary. It does not touch c.Res (it runs
// on worker goroutines); the caller folds the outcome in.
func c10RunInteractive(pprofBin string, cs *c10Case, m *c10Model, seen *sync.Map) *c10Outcome {
	out := &c10Outcome{seen: seen}
	dir, p, err := c10CaseDir(cs)
	if dir != "" {
		defer os.RemoveAll(dir)
	}
	if err != nil {
		out.HarnessErr = "case setup: " + err.Error()
		return out
	}
	types := c10Types(p)
	var texts []string
	for _, l := range cs.Lines {
		texts = append(texts, l.Text)
	}
	// where each line writes its report to: the model says (fallback: the `>file` token of the line)
	outs := make([]string, len(cs.Lines))
	for i, l := range cs.Lines {
		if m != nil && m.OK {
			outs[i] = m.Lines[i].Out
		} else {
			outs[i] = c10RedirectOf(l.Text)
		}
	}
	main := c10RunSession(pprofBin, dir, "main", texts, outs, true)
	out.Main = main
	if main.Err != "" {
		out.HarnessErr = main.Err
		return out
	}
	// which lines are assignments: the model says; without a model, the generator's intent
	assign := make([]bool, len(cs.Lines))
	for i, l := range cs.Lines {
		if m != nil && m.OK {
			assign[i] = m.Lines[i].Assign
		} else {
			assign[i] = l.Intent == "assign" || l.Intent == "shortcut"
		}
	}
	// --- correspondence model ↔ real session -------------------------------------------------
	if m != nil && m.OK {
		for i, ml := range m.Lines {
			seg := main.Segs[i]
			gen := cs.Lines[i].Intent == "assign" || cs.Lines[i].Intent == "shortcut"
			if gen != ml.Assign {
				out.Mismatches = append(out.Mismatches, c10Mismatch{Sig: "C10/model/classification/" + c10CmdName(cs.Lines[i].Text),
					What:   fmt.Sprintf("line %d %q: generator intends %s, model says assignment=%v", i, cs.Lines[i].Text, cs.Lines[i].Intent, ml.Assign),
					Broken: "correspondence Session.isAssignLine ~ interactive(): which lines are assignments", Probe: i})
			}
			silent := strings.TrimSpace(seg.Text) == "" && len(seg.Files) == 0
			bad := ""
			switch ml.Kind {
			case "assign-ok", "blank":
				if !silent || seg.Dead {
					bad = "model: silent line, real session printed " + c10Trunc(seg.Text)
				}
			case "assign-err", "cmd-err", "options", "help":
				if silent || seg.Dead {
					bad = "model: " + ml.Kind + ", real session printed nothing"
				}
			case "quit":
				if !main.Exited || i+1 < len(main.Segs) && !main.Segs[i+1].Dead {
					bad = "model: session ends here, real session went on"
				}
			case "dead":
				if !seg.Dead {
					bad = "model: session already ended, real session still answers"
				}
			case "cmd":
				if seg.Dead {
					bad = "model: report command, real session already ended"
				}
				// a user-named file written by this command must be the one the model's vcopy.output names
				for f := range seg.Files {
					if !strings.Contains(f, "<N>") && filepath.Clean(ml.Out) != f {
						bad = fmt.Sprintf("real session wrote %q, model: the report goes to %q", f, ml.Out)
					}
				}
			}
			if bad != "" {
				out.Mismatches = append(out.Mismatches, c10Mismatch{Sig: "C10/model/line-kind/" + ml.Kind + "/" + c10CmdName(cs.Lines[i].Text),
					What:   fmt.Sprintf("line %d %q: %s", i, cs.Lines[i].Text, bad),
					Broken: "correspondence Session.step ~ interactive(): kind of each line", Probe: i})
			}
			out.Hits = append(out.Hits, "kind:"+ml.Kind)
		}
		if m.Alive && main.Options != "" {
			real := c10ParseOptions(main.Options)
			for _, kv := range m.Cfg {
				want, shown := c10Display(kv[0], kv[1], types)
				if !shown {
					continue
				}
				if got, ok := real[kv[0]]; !ok || got != want {
					out.Mismatches = append(out.Mismatches, c10Mismatch{Sig: "C10/model/cfgAfter/" + kv[0],
						What:   fmt.Sprintf("option %s after the script: model %q, real session shows %q (present=%v)", kv[0], want, got, ok),
						Broken: "correspondence Session.cfgAfter ~ options reported by `o`", Probe: -1})
				}
			}
			if len(real) > 0 && len(real) != len(m.Cfg)-1 {
				out.Mismatches = append(out.Mismatches, c10Mismatch{Sig: "C10/model/option-table",
					What:   fmt.Sprintf("`o` lists %d options, the model's table has %d (+source_path, never listed)", len(real), len(m.Cfg)-1),
					Broken: "correspondence Session.fieldTable ~ configFields", Probe: -1})
			}
			out.Hits = append(out.Hits, "cfgAfter-compared")
		}
	}
	// --- the property's oracle: probe after h == probe after assignments(h) in a fresh session ----
	seenMut := make([]bool, len(cs.Lines)+1)
	for i := range cs.Lines {
		seenMut[i+1] = seenMut[i] || (!assign[i] && c10IsReport(cs.Lines[i].Text, m, i))
	}
	for k, i := range cs.Probes {
		if i < 0 || i >= len(cs.Lines) || assign[i] || main.Segs[i].Dead {
			continue
		}
		refScript := append(c10Prefix(cs.Lines, assign, i), cs.Lines[i].Text)
		ref := c10RunSession(pprofBin, dir, fmt.Sprintf("ref%d", k), refScript, c10Outs(len(refScript), outs[i]), false)
		if ref.Err != "" {
			out.HarnessErr = ref.Err
			return out
		}
		out.Compared++
		if seenMut[i] {
			out.AfterMut++
		}
		got, want := main.Segs[i], ref.Segs[len(ref.Segs)-1]
		if got.key() != want.key() && c10Confirm(pprofBin, dir, fmt.Sprintf("cf%d", k), texts[:i+1], outs[:i+1], refScript, got, want, out, cs.Lines[i].Text, "C10/interactive/history-dependent/probe="+c10CmdName(cs.Lines[i].Text)) {
			out.Mismatches = append(out.Mismatches, c10Mismatch{Sig: "C10/interactive/history-dependent/probe=" + c10CmdName(cs.Lines[i].Text),
				What: fmt.Sprintf("line %d %q: transcript after the history differs from the transcript in a fresh session replaying only the %d assignment lines before it — %s",
					i, cs.Lines[i].Text, len(ref.Segs)-1, c10SegDiff(got, want)), Probe: i})
		}
	}
	// --- the model of parseCommandLine: a command with arguments == assignments of what the model
	//     says the arguments contributed, followed by the bare command ------------------------------
	if m != nil && m.OK {
		for k, i := range cs.Desugar {
			if i < 0 || i >= len(cs.Lines) || m.Lines[i].Kind != "cmd" || len(m.Lines[i].Diff) == 0 || main.Segs[i].Dead {
				continue
			}
			script := c10Prefix(cs.Lines, assign, i)
			ok := true
			for _, kv := range m.Lines[i].Diff {
				if strings.Contains(kv[1], "//:") || kv[1] != strings.TrimSpace(kv[1]) {
					ok = false
				}
				script = append(script, kv[0]+"="+kv[1])
			}
			if !ok {
				continue
			}
			script = append(script, strings.Join(m.Lines[i].Cmd, " "))
			ref := c10RunSession(pprofBin, dir, fmt.Sprintf("des%d", k), script, c10Outs(len(script), outs[i]), false)
			if ref.Err != "" {
				out.HarnessErr = ref.Err
				return out
			}
			out.Desugared++
			got, want := main.Segs[i], ref.Segs[len(ref.Segs)-1]
			if got.key() != want.key() && c10Confirm(pprofBin, dir, fmt.Sprintf("cd%d", k), texts[:i+1], outs[:i+1], script, got, want, out, cs.Lines[i].Text, "C10/model/args-desugar/"+c10CmdName(cs.Lines[i].Text)) {
				out.Mismatches = append(out.Mismatches, c10Mismatch{Sig: "C10/model/args-desugar/" + c10CmdName(cs.Lines[i].Text),
					What:   fmt.Sprintf("line %d %q: differs from %q — %s", i, cs.Lines[i].Text, strings.Join(script[len(script)-len(m.Lines[i].Diff)-1:], " ; "), c10SegDiff(got, want)),
					Broken: "correspondence Session.parseCommandLine ~ parseCommandLine(): what the arguments of a command mean", Probe: i})
			}
		}
	}
	return out
}

// c10Confirm: pprof has reports whose text varies from run to run on IDENTICAL input (weblist on
// binary-less profiles, every graph format under call_tree — C08's findings, not C10's subject). A difference
// between "after the history" and "fresh" is a verdict only if BOTH observations are reproducible:
//  1. equal after erasing order (token bags) ⇒ dismissed;
//  2. the fresh reference is run 5 more times and must give the same observation every time;
//  3. the session with the history is run 5 more times and must give ITS observation every time.
//
// Any variation on either side dismisses the difference (counted under C08-… in the distribution): a leak
// is then still caught through the deterministic commands, which are the large majority.
func c10Confirm(pprofBin, dir, tag string, mainScript, mainOuts, refScript []string, got, want c10Seg, out *c10Outcome, line, sig string) bool {
	if out.seen != nil {
		if _, done := out.seen.Load(sig); done {
			return false // confirmed once in this run; later instances are not re-examined
		}
	}
	// both sides are repeated 5 times; exact observations and order-erased ones (token bags) are collected
	rerun := func(script, outs []string, name string) (exact, bags map[string]bool) {
		exact, bags = map[string]bool{}, map[string]bool{}
		for t := 0; t < 5; t++ {
			s := c10RunSession(pprofBin, dir, fmt.Sprintf("%s-%s%d", tag, name, t), script, outs, false)
			if s.Err != "" || len(s.Segs) != len(script) {
				exact["<session failed>"], bags["<session failed>"] = true, true
				continue
			}
			exact[s.Segs[len(s.Segs)-1].key()] = true
			bags[s.Segs[len(s.Segs)-1].mkey()] = true
		}
		return
	}
	last := ""
	if len(mainOuts) > 0 {
		last = mainOuts[len(mainOuts)-1]
	}
	re, rb := rerun(refScript, c10Outs(len(refScript), last), "r")
	me, mb := rerun(mainScript, mainOuts, "m")
	only := func(m map[string]bool, k string) bool { return len(m) == 1 && m[k] }
	switch {
	case only(re, want.key()) && only(me, got.key()):
		// both sides reproduce their observation byte for byte: a stable difference, even if it is "only" a
		// different order of the same lines
	case got.mkey() == want.mkey():
		out.Hits = append(out.Hits, "C08-run-to-run-order-only-difference:"+c10CmdName(line))
		return false
	case only(rb, want.mkey()) && only(mb, got.mkey()):
		// the order varies from run to run, the content differs stably
	default:
		out.Hits = append(out.Hits, "C08-run-to-run-nondeterministic-output:"+c10CmdName(line))
		return false
	}
	if out.seen != nil {
		out.seen.Store(sig, true)
	}
	return true
}

// c10RedirectOf: the file named by a `>file` / `> file` token (used only when the model is unavailable).
func c10RedirectOf(text string) string {
	f := strings.Fields(text)
	for i, t := range f {
		if strings.HasPrefix(t, ">") {
			if len(t) > 1 {
				return t[1:]
			}
			if i+1 < len(f) {
				return f[i+1]
			}
		}
	}
	return ""
}

func c10JoinLines(ls []c10Line) string {
	var sb strings.Builder
	sb.WriteString("\n")
	for _, l := range ls {
		sb.WriteString(l.Text + "\n")
	}
	return sb.String()
}

func c10IsReport(text string, m *c10Model, i int) bool {
	if m != nil && m.OK {
		return m.Lines[i].Kind == "cmd"
	}
	n := c10CmdName(text)
	for _, c := range append(append([]string{}, c10PlainCmds...), c10ParamCmds...) {
		if c == n {
			return true
		}
	}
	return false
}

func c10SegDiff(a, b c10Seg) string {
	if a.Text != b.Text {
		la, lb := strings.Split(a.Text, "\n"), strings.Split(b.Text, "\n")
		for i := 0; i < len(la) || i < len(lb); i++ {
			var x, y string
			if i < len(la) {
				x = la[i]
			}
			if i < len(lb) {
				y = lb[i]
			}
			if x != y {
				return fmt.Sprintf("first differing transcript line %d: after history %q, fresh %q", i, c10Trunc(x), c10Trunc(y))
			}
		}
	}
	return fmt.Sprintf("output files differ: after history %v, fresh %v", a.Files, b.Files)
}

// c10Shrink drops history lines while the probe at index pi still differs from its reference.
func c10Shrink(pprofBin string, cs *c10Case, pi int, c *Ctx) *c10Case {
	cur := &c10Case{Kind: "interactive", Profile: cs.Profile, Lines: append([]c10Line{}, cs.Lines[:pi+1]...), Probes: []int{pi}}
	fails := func(t *c10Case) bool {
		m := c10AskModel(c, c10MustProfile(t.Profile), t.Lines)
		o := c10RunInteractive(pprofBin, t, m, nil)
		for _, mm := range o.Mismatches {
			if mm.Broken == "" {
				return true
			}
		}
		return false
	}
	if !fails(cur) {
		return cs
	}
	for changed, budget := true, 25; changed && budget > 0; {
		changed = false
		for j := len(cur.Lines) - 2; j >= 0 && budget > 0; j-- {
			t := &c10Case{Kind: "interactive", Profile: cur.Profile}
			t.Lines = append(append([]c10Line{}, cur.Lines[:j]...), cur.Lines[j+1:]...)
			t.Probes = []int{len(t.Lines) - 1}
			budget--
			if fails(t) {
				cur, changed = t, true
			}
		}
	}
	return cur
}

func c10MustProfile(h string) *profile.Profile {
	b, _ := hex.DecodeString(h)
	p, err := profile.ParseUncompressed(b)
	if err != nil {
		return &profile.Profile{}
	}
	return p
}

// c10Fold folds an outcome into the result (main goroutine only).
func c10Fold(c *Ctx, cs *c10Case, m *c10Model, o *c10Outcome, shrink bool) {
	if o.HarnessErr != "" {
		c.Disagree("C10/harness/session-protocol", "could not drive the interactive session: "+o.HarnessErr,
			"correspondence harness ~ interactive shell (marker protocol)", cs)
		return
	}
	for _, h := range o.Hits {
		c.Res.Hit(h)
	}
	c.Res.Dist["probes-compared"] += o.Compared
	c.Res.Dist["probes-after-a-report-command"] += o.AfterMut
	c.Res.Dist["desugared-commands-compared"] += o.Desugared
	if m != nil && m.OK {
		c.Res.ModelCompared++
	} else if c.Drv != nil {
		c.Disagree("C10/model/no-answer", "model driver did not answer sess.run: "+c10Trunc(m.Raw), "driver pvdrv-C10 sess.run", cs)
	}
	for _, mm := range o.Mismatches {
		if mm.Broken != "" {
			c.Disagree(mm.Sig, mm.What, mm.Broken, cs)
			continue
		}
		rc := cs
		sig := mm.Sig
		if shrink && !c.Res.sigSeen["violation"+sig] && c.Res.Dist["violations-minimised"] < 2 {
			c.Res.Dist["violations-minimised"]++
			rc = c10Shrink(c.Pprof, cs, mm.Probe, c)
			// name the commands that are left in the minimal history
			var culprits []string
			asg := c10AskModel(c, c10MustProfile(rc.Profile), rc.Lines)
			for j := 0; j+1 < len(rc.Lines); j++ {
				if asg.OK && !asg.Lines[j].Assign {
					culprits = append(culprits, c10CmdName(rc.Lines[j].Text))
				}
			}
			sort.Strings(culprits)
			rc.Note = "minimised: the last line is the probe; culprit commands: " + strings.Join(culprits, ",")
		}
		c.Violation(sig, mm.What, rc)
	}
}

// ---- runner ----

func runC10(c *Ctx) {
	c.Res.Rule = "interactive, two script streams on generated profiles (labels, inlining, 1-4 sample types, multi-component absolute file names /build/remote/checkout/proj/src/<pkg>/<file>.go, seven scratch source trees whose basenames are / are not components of those names): (a) ~55% free-form scripts (output file names are reused across commands and shared with output=; user-named files persist between lines and a line's files are those it wrote, byte for byte); (d) 10% undeliverable-output scripts (reports sent to unwritable targets or through missing post-processors, then ordinary probes); (e) 10 FIXED scripts: 2 built-in-command scripts (help / o / options / help <x> / bare option names after each other, forwards and backwards, twice) and 8 repeat scripts, the same whatever the seed: representative lines (top5, tree3, text2, top 5, peek/list/traces/tags/dot3/callgrind2, o, help) each issued 3 times in one session with other commands and assignments in between, every occurrence probed; (c) 10% file-reuse scripts (long report then short report into the same file, via >file or output=, same command twice); (a cont.) — 50% report commands with focus/ignore/count/-cum/>file arguments, 30% assignments of every option incl. invalid values, shortcuts, built-ins, junk; (b) 40% toggle scripts — ONE option (40% source_path/trim_path, else any of the 31 content-relevant options) re-assigned to 2-3 different output-changing values, v1 v2 v3 v1 …, with the same file-/value-sensitive probe command after every re-assignment (list, weblist, top/tree/dot at file or line granularity, traces, tags, callgrind …) and noise reports in between. Real pprof binary, one process per session; every probed line's transcript+files is compared with a fresh session replaying only the assignment lines before it; the Lean model classifies the lines, predicts the options shown by `o` and what each command's arguments contribute (desugared reference). real-binary stream (3 scripts + 2 web cases per quick run): sample.bin/sample.cpu of the tree with the default binutils ObjTool, list/weblist/disasm and /source,/disasm repeated within one session/process; web request sequences include /saveconfig and /deleteconfig with varied option parameters (menu cut out of the pages); web: each case in five child processes (ref / seq / conc / stall / multi), non-URL options as flags, every 4th profile large enough for pages > 64 KiB: references from a process that serves only the probed requests; r after other requests; the first 12 page renders of a process simultaneously, then r alone, then r among the others; responses still being written to a stalling slow-client ResponseWriter while other URLs are rendered (GOMAXPROCS=1 and N); three sessions over different profiles (A, small B, large C) alive in one process with interleaved requests, each answer vs that profile's fresh-process answer. non-trivial = at least one compared probe is preceded by an executed report command (interactive) / by ≥1 other view request with filter parameters (web); distinct by script text"
	if c.Replay != "" {
		var cs c10Case
		if err := c.LoadReplay(&cs); err != nil {
			c.Res.HarnessError = err.Error()
			return
		}
		c.Res.Evaluations++
		switch cs.Kind {
		case "web":
			if os.Getenv("C10_CHILD") != "" {
				c10WebCase(c, &cs)
			} else {
				c10WebFold(c, &cs, true)
			}
		default:
			m := c10AskModel(c, c10MustProfile(cs.Profile), cs.Lines)
			o := c10RunInteractive(c.Pprof, &cs, m, nil)
			c10Fold(c, &cs, m, o, false)
		}
		return
	}
	r := NewRng(c.Seed)
	// large-input web cases: serialized profile > 1 MiB, a different filter in every overlapping request.
	// They are the slowest cases of a run, so they start right away and run beside the interactive stream.
	var largeCases []*c10Case
	for k := 0; k < 2*c.Scale; k++ {
		p := c10GenProfileLarge(r, 5<<18) // ≥ 1.25 MiB
		b, _ := c10WriteU(p)
		cs := &c10Case{Kind: "web", Profile: hex.EncodeToString(b), Light: true}
		cs.Request, cs.Others = c10LargeWebRequests(r)
		b2, _ := c10WriteU(c10GenProfileSized(r, 4, 3))
		cs.Profile2, cs.Profile3 = hex.EncodeToString(b2), hex.EncodeToString(b2)
		largeCases = append(largeCases, cs)
		c.Res.Hit(fmt.Sprintf("large-profile-web-case(%dKiB)", len(b)>>10))
	}
	largeOuts := make([][]c10WebOut, len(largeCases))
	var largeWG sync.WaitGroup
	for i, cs := range largeCases {
		largeWG.Add(1)
		go func(i int, cs *c10Case) { defer largeWG.Done(); largeOuts[i] = c10WebRun(c, cs) }(i, cs)
	}
	// ---------------- interactive stream ----------------
	n := 240 * c.Scale
	type job struct {
		cs *c10Case
		m  *c10Model
		o  *c10Outcome
	}
	jobs := make([]*job, n)
	for i := range jobs {
		p := c10GenProfile(r)
		b, _ := c10WriteU(p)
		var lines []c10Line
		toggle := i%5 < 2 // 40% toggle scripts, 60% free-form scripts
		if i%10 == 9 {
			toggle = true // (no quit injection)
			lines = c10FileReuseScript(r)
			c.Res.Hit("file-reuse-script")
		} else if i%10 == 4 {
			toggle = true
			lines = c10UndeliverableScript(r)
			c.Res.Hit("undeliverable-output-script")
		} else if toggle {
			var opt string
			lines, opt = c10ToggleScript(r, c10Types(p))
			c.Res.Hit("toggle-script:" + opt)
		} else {
			lines = c10Script(r, c10Types(p), 8+r.Intn(9))
		}
		if !toggle && r.Chance(8) {
			k := r.Intn(len(lines))
			lines[k] = c10Line{Text: r.Pick([]string{"quit", "exit", "q"}), Intent: "quit"}
		}
		cs := &c10Case{Kind: "interactive", Profile: hex.EncodeToString(b), Lines: lines}
		m := c10AskModel(c, p, lines)
		// probes: the later non-assignment lines (at most 7), desugar: 2 commands with arguments
		var cand []int
		for j := len(lines) - 1; j >= 0; j-- {
			isA := lines[j].Intent == "assign" || lines[j].Intent == "shortcut"
			if m.OK {
				isA = m.Lines[j].Assign
			}
			if !isA && strings.TrimSpace(lines[j].Text) != "" {
				cand = append(cand, j)
			}
		}
		for _, j := range cand {
			if len(cs.Probes) < 10 {
				cs.Probes = append(cs.Probes, j)
			}
			if m.OK && m.Lines[j].Kind == "cmd" && len(m.Lines[j].Diff) > 0 && len(cs.Desugar) < 2 {
				cs.Desugar = append(cs.Desugar, j)
			}
		}
		jobs[i] = &job{cs: cs, m: m}
	}
	// repeat scripts: fixed histories, the same in every run; profiles with all 12 functions
	for _, lines := range c10RepeatScripts() {
		p := c10GenProfileSized(r, 30+r.Intn(20), 7)
		for len(p.Function) < 10 {
			p = c10GenProfileSized(r, 30+r.Intn(20), 7)
		}
		b, _ := c10WriteU(p)
		cs := &c10Case{Kind: "interactive", Profile: hex.EncodeToString(b), Lines: lines}
		m := c10AskModel(c, p, lines)
		for j, l := range lines { // probe every occurrence of a repeated line, first ones included
			if l.Intent != "assign" && (strings.Count(c10JoinLines(lines), "\n"+l.Text+"\n") > 1) {
				cs.Probes = append(cs.Probes, j)
			}
		}
		jobs = append(jobs, &job{cs: cs, m: m})
		c.Res.Hit("repeat-script")
	}
	// real-binary stream: the tree's own sample.bin/sample.cpu pair with the default ObjTool
	realHex, realWhy := c10RealProfile()
	if realHex == "" {
		c.Res.Hit("real-binary-stream-skipped")
		c.Res.Notes = append(c.Res.Notes, "real-binary stream skipped: "+realWhy)
	} else {
		for k := 0; k < 3*c.Scale; k++ {
			lines := c10RealScript(r)
			cs := &c10Case{Kind: "interactive", Profile: realHex, RealObj: true, Lines: lines}
			m := c10AskModel(c, c10MustProfile(realHex), lines)
			for j := len(lines) - 1; j >= 0 && len(cs.Probes) < 8; j-- {
				if lines[j].Intent == "command" {
					cs.Probes = append(cs.Probes, j)
				}
			}
			jobs = append(jobs, &job{cs: cs, m: m})
			c.Res.Hit("real-binary-script")
		}
	}
	var wg sync.WaitGroup
	var confirmed sync.Map
	sem := make(chan struct{}, 16)
	for _, j := range jobs {
		wg.Add(1)
		sem <- struct{}{}
		go func(j *job) {
			defer wg.Done()
			defer func() { <-sem }()
			j.o = c10RunInteractive(c.Pprof, j.cs, j.m, &confirmed)
		}(j)
	}
	wg.Wait()
	for i, j := range jobs {
		var sb strings.Builder
		for _, l := range j.cs.Lines {
			sb.WriteString(l.Text + "\n")
		}
		c.Res.Count(j.cs.Profile[:32]+sb.String(), j.o.AfterMut > 0)
		for _, l := range j.cs.Lines {
			c.Res.Hit("line:" + l.Intent)
			if l.Intent == "command" {
				c.Res.Hit("cmd:" + c10CmdName(l.Text))
			}
		}
		c.Res.Hit(fmt.Sprintf("script-lines:%d-%d", len(j.cs.Lines)/4*4, len(j.cs.Lines)/4*4+3))
		if i < 3 {
			var ls []string
			for _, l := range j.cs.Lines {
				ls = append(ls, l.Text)
			}
			c.Res.Sample(map[string]any{"stream": "interactive", "script": ls, "probes": j.cs.Probes, "profile": describe(c10MustProfile(j.cs.Profile))})
		}
		c10Fold(c, j.cs, j.m, j.o, true)
	}
	// ---------------- web stream: one child process per case ----------------
	nw := 52 * c.Scale
	wcases := make([]*c10Case, nw)
	for i := range wcases {
		p := c10GenProfile(r)
		if i%4 == 3 {
			p = c10GenProfileSized(r, 300+r.Intn(300), 14) // pages > 64 KiB
		}
		b, _ := c10WriteU(p)
		cs := &c10Case{Kind: "web", Profile: hex.EncodeToString(b), Request: r.c10WebRequest(c10Types(p)), Flags: r.c10WebFlags()}
		b2, _ := c10WriteU(c10GenProfileSized(r, 3+r.Intn(4), 3))
		b3, _ := c10WriteU(c10GenProfileSized(r, 60+r.Intn(200), 10))
		cs.Profile2, cs.Profile3 = hex.EncodeToString(b2), hex.EncodeToString(b3)
		for k, no := 0, 3+r.Intn(6); k < no; k++ {
			cs.Others = append(cs.Others, r.c10WebRequest(c10Types(p)))
		}
		cs.Others = r.c10WebStateRequests(c10Types(p), cs.Others)
		for _, o := range cs.Others {
			if strings.HasPrefix(o, "/saveconfig") {
				c.Res.Hit("web-saveconfig-request")
			} else if strings.HasPrefix(o, "/deleteconfig") {
				c.Res.Hit("web-deleteconfig-request")
			}
		}
		wcases[i] = cs
	}
	wcases = append(wcases, largeCases...)
	nw = len(wcases)
	if realHex != "" {
		for k := 0; k < 2*c.Scale; k++ {
			cs := &c10Case{Kind: "web", Profile: realHex, RealObj: true}
			cs.Request, cs.Others = c10RealWebRequests(r)
			wcases = append(wcases, cs)
			c.Res.Hit("real-binary-web-case")
		}
		nw = len(wcases)
	}
	outs := make([][]c10WebOut, nw)
	isLarge := map[*c10Case]int{}
	for i, cs := range largeCases {
		isLarge[cs] = i
	}
	for k := range wcases {
		i := len(wcases) - 1 - k // the slow real-binary cases (appended last) start first
		cs := wcases[i]
		if _, ok := isLarge[cs]; ok {
			continue // already running
		}
		wg.Add(1)
		sem <- struct{}{}
		go func(i int, cs *c10Case) {
			defer wg.Done()
			defer func() { <-sem }()
			outs[i] = c10WebRun(c, cs)
		}(i, cs)
	}
	wg.Wait()
	largeWG.Wait()
	for i, cs := range wcases {
		if j, ok := isLarge[cs]; ok {
			outs[i] = largeOuts[j]
		}
		filt := false
		for _, o := range cs.Others {
			if strings.Contains(o, "?") {
				filt = true
			}
		}
		c.Res.Count("web:"+cs.Request+"|"+strings.Join(cs.Others, "|"), filt)
		if i < 2 {
			c.Res.Sample(map[string]any{"stream": "web", "request": cs.Request, "others": cs.Others})
		}
		c10WebMerge(c, cs, outs[i])
	}
}

type c10WebOut struct {
	phase string
	res   *Result
	err   string
}

// c10WebRun: the sequential and the concurrent phase each in a child process of their own, so that a
// crash of the concurrent phase (fatal error: concurrent map writes …) does not hide the sequential verdict.
func c10WebRun(c *Ctx, cs *c10Case) []c10WebOut {
	phases := []string{"seq", "conc", "stall", "multi"}
	if cs.Phase != "" && cs.Phase != "ref" {
		phases = []string{cs.Phase}
	}
	// the references: a process that serves nothing but the probed requests (recomputed for every run,
	// also when a replay file carries the references of the run that wrote it)
	t := *cs
	t.Phase, t.Refs = "ref", nil
	rr, re := c10WebChild(c, &t)
	out := []c10WebOut{{"ref", rr, re}}
	if re != "" {
		return out
	}
	refs := map[string][]string{}
	for _, n := range rr.Notes {
		if f := strings.Split(n, "\t"); len(f) == 3 && f[0] == "ref" {
			refs[f[1]] = append(refs[f[1]], f[2])
		}
	}
	res := make([]c10WebOut, len(phases))
	var wg sync.WaitGroup
	for i, ph := range phases { // the phases are independent processes: run them side by side
		wg.Add(1)
		go func(i int, ph string) {
			defer wg.Done()
			t := *cs
			t.Phase, t.Refs = ph, refs
			r, e := c10WebChild(c, &t)
			// schedules are not replayable deterministically: when a single case is replayed, the concurrent
			// phases get up to 8 fresh processes to show what the full run saw
			for try := 1; c.Replay != "" && try < 10 && (ph == "conc" || ph == "stall") && e == "" && len(r.Findings) == 0; try++ {
				t.Procs = []int{-1, 2, 0}[try%3] // also under the other CPU counts the full run uses
				r, e = c10WebChild(c, &t)
			}
			res[i] = c10WebOut{ph, r, e}
		}(i, ph)
	}
	wg.Wait()
	return append(out, res...)
}

func c10WebFold(c *Ctx, cs *c10Case, _ bool) { c10WebMerge(c, cs, c10WebRun(c, cs)) }

func c10WebMerge(c *Ctx, cs *c10Case, outs []c10WebOut) {
	for _, o := range outs {
		t := *cs
		t.Phase = o.phase
		if o.err != "" {
			// the case is concrete and replayable: the web UI process died while serving it
			c.Violation("C10/web/crash/"+o.phase, "the process serving the web UI died during the "+o.phase+" phase of the case: "+o.err, &t)
			continue
		}
		cr := o.res
		for k, v := range cr.Dist {
			c.Res.Dist[k] += v
		}
		c.Res.ModelCompared += cr.ModelCompared
		for _, f := range cr.Findings {
			// the replay file is written HERE, by the parent, once per signature, with exactly the case that
			// produced this finding (children of different cases would overwrite each other's files)
			c.Report(f.Kind, f.Signature, f.What, f.Broken, &t)
		}
		if cr.HarnessError != "" {
			c.Disagree("C10/harness/web-child", "web case child: "+cr.HarnessError, "correspondence harness ~ web handlers", &t)
		}
	}
}

// c10WebChild runs one web case in a fresh process of this very harness (replay mode), because the
// option store of internal/driver is process-wide and the reference must come from a pristine process.
func c10WebChild(c *Ctx, cs *c10Case) (*Result, string) {
	self, err := os.Executable()
	if err != nil {
		return nil, err.Error()
	}
	base := filepath.Join(os.Getenv("VERIF_DIR"), ".build")
	if os.Getenv("VERIF_DIR") == "" {
		base = os.TempDir()
	}
	dir, err := os.MkdirTemp(base, "c10web-")
	if err != nil {
		return nil, err.Error()
	}
	defer os.RemoveAll(dir)
	cf := filepath.Join(dir, "case.json")
	b, _ := json.Marshal(map[string]any{"property": "C10", "case": cs})
	os.WriteFile(cf, b, 0o644)
	of := filepath.Join(dir, "out.json")
	args := []string{"-prop", "C10", "-tier", c.Tier, "-seed", strconv.FormatUint(c.Seed, 10), "-dir", filepath.Join(dir, "replays"), "-out", of, "-replay", cf}
	if c.Drv != nil {
		args = append(args, "-drv", c.Drv.cmd.Path)
	}
	cmd := exec.Command(self, args...)
	path := filepath.Join(dir, "nopath")
	if cs.RealObj {
		path = "/usr/bin:/bin"
	}
	cmd.Env = append(os.Environ(), "C10_CHILD=1", "XDG_CONFIG_HOME="+filepath.Join(dir, "cfg"), "HOME="+dir, "PATH="+path)
	outb, err := cmd.CombinedOutput()
	rb, rerr := os.ReadFile(of)
	if rerr != nil {
		msg := string(outb)
		if i := strings.Index(msg, "fatal error:"); i >= 0 {
			msg = msg[i:]
		} else if i := strings.Index(msg, "panic:"); i >= 0 {
			msg = msg[i:]
		}
		if i := strings.Index(msg, "\n"); i > 0 {
			msg = msg[:i]
		}
		return nil, fmt.Sprintf("no result (%v): %s", err, c10Trunc(msg))
	}
	var res Result
	if err := json.Unmarshal(rb, &res); err != nil {
		return nil, err.Error()
	}
	return &res, ""
}
