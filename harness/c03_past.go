//go:build verif

package main

import (
	"bytes"
	"io"

	"github.com/google/pprof/profile"
)

// Histories. Merge is called on profiles with different PASTS: freshly built, serialized (Write
// leaves the unexported string-table scratch fields of the in-memory object set), parsed back,
// copied, compacted, merged before. Whatever an input went through, the property talks about
// the profile it IS when Merge is called: the past is applied first, the canonical text of the
// result is what the Spec, the model and the "inputs unchanged" obligation see.

var c03Pasts = []string{"", "write", "write-gz", "parse", "parse-then-write", "copy", "copy-keep-original", "compact", "compact-then-write", "merge-self"}

// pasts that leave the content of the profile untouched (only in-memory scratch state changes)
var c03QuietPasts = []string{"", "", "write", "write-gz", "copy-keep-original"}

func applyPast(p *profile.Profile, past string) (q *profile.Profile, ok bool) {
	q = p
	pn := c3safely(func() {
		switch past {
		case "write":
			p.WriteUncompressed(io.Discard)
		case "write-gz":
			p.Write(io.Discard)
		case "parse", "parse-then-write":
			var buf bytes.Buffer
			p.WriteUncompressed(&buf)
			r, err := profile.ParseData(buf.Bytes())
			if err != nil {
				return
			}
			q = r
			if past == "parse-then-write" {
				q.Write(io.Discard)
			}
		case "copy":
			q = p.Copy()
		case "copy-keep-original":
			p.Copy()
		case "compact", "compact-then-write":
			if r := p.Compact(); r != nil {
				q = r
				if past == "compact-then-write" {
					q.WriteUncompressed(io.Discard)
				}
			}
		case "merge-self":
			if r, err := profile.Merge([]*profile.Profile{p}); err == nil && r != nil {
				q = r
			}
		}
	})
	if pn != "" || q == nil {
		return p, false
	}
	return q, true
}

// c03Inputs parses the inputs of a case and applies their pasts; canons[i] is input i as it is
// when the operation under test starts.
func c03Inputs(c *Ctx, cs c03Case) (ps []*profile.Profile, canons []string) {
	raw := parseAll(c, cs.Profiles)
	if raw == nil {
		return nil, nil
	}
	for i, p := range raw {
		past := ""
		if i < len(cs.Pasts) {
			past = cs.Pasts[i]
		}
		q, ok := applyPast(p, past)
		if !ok {
			// a past that cannot be applied (e.g. Write refuses the profile) is skipped: rebuild the input
			q, _ = ParseCanon(cs.Profiles[i])
		}
		if checkValidClosed(q) != nil {
			q, _ = ParseCanon(cs.Profiles[i])
		}
		ps = append(ps, q)
		canons = append(canons, Canon(q))
	}
	return ps, canons
}

func randPasts(r *Rng, n int, pool []string) []string {
	out := make([]string, n)
	any := false
	for i := range out {
		out[i] = pool[r.Intn(len(pool))]
		any = any || out[i] != ""
	}
	if !any {
		return nil
	}
	return out
}

// genHistoryGrid: the same profile (or a profile and a variant of it) with every ordered pair of
// pasts, and triples fresh/x/y.
func c03HistoryCases(r *Rng) []c03Case {
	var out []c03Case
	base := ndBase()
	base.Comments = []string{"c"}
	base.DefaultSampleType = "cpu"
	b0 := Canon(base)
	other := ndBase()
	other.Sample[0].Value = []int64{5, 6}
	other.Function[0].Name = "h"
	b1 := Canon(other)
	for _, pa := range c03Pasts {
		for _, pb := range c03Pasts {
			if pa == "" && pb == "" {
				continue
			}
			out = append(out, c03Case{Kind: "history/pair", Tag: pa + "|" + pb, Profiles: []string{b0, b0}, Pasts: []string{pa, pb}, Perm: []int{1, 0}})
			out = append(out, c03Case{Kind: "history/pair-variant", Tag: pa + "|" + pb, Profiles: []string{b0, b1}, Pasts: []string{pa, pb}, Perm: []int{1, 0}})
		}
	}
	for i := 0; i < 40; i++ {
		ps := randPasts(r, 3, c03Pasts)
		if ps == nil {
			continue
		}
		out = append(out, c03Case{Kind: "history/triple", Tag: ps[0] + "|" + ps[1] + "|" + ps[2], Profiles: []string{b0, b1, b0}, Pasts: ps, Perm: shuffleInts(r, 3)})
	}
	return out
}
