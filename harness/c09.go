//go:build verif

package main

import (
	"bytes"
	"encoding/hex"
	"flag"
	"fmt"
	"hash/fnv"
	"net"
	"net/http"
	"os"
	"os/exec"
	"path/filepath"
	"regexp"
	"strconv"
	"strings"
	"sync"
	"sync/atomic"
	"syscall"
	"time"
	"unicode"

	"github.com/google/pprof/profile"
)

// C09 — No profile content, option value or typed command crashes pprof.
//
// Two parts (see checks/C09.json):
//  1. correspondence of the Lean model (Model/Crash.lean, theorems in Props/C09.lean) with the real
//     code on outcome classes and parsed results, through exported API only: -tagfocus values,
//     interactive sessions with a scripted UI (per-line response class, report output name, active
//     filters, final option values), the number of candidate binaries locateBinaries tries, the
//     command/option tables;
//  2. a generative campaign against the real code for everything the model does not cover: the real
//     pprof binary on valid profiles with odd content x option assignments x interactive scripts
//     (one process per case, in parallel), and the web handlers obtained through the HTTPServer
//     plug-in hook x URL query strings. Failing input = crash (panic trace on stderr / recovered
//     panic), hang (timeout), or a session/server that stops answering.

func init() { register("C09", runC09) }

type c09Case struct {
	Kind    string   `json:"kind"`              // cli | script | web | tagfilter | session | locate | completer
	Profile string   `json:"profile,omitempty"` // hex of the serialized (uncompressed) profile
	Bases   []string `json:"bases,omitempty"`   // hex of base profiles: passed as -base / -diff_base sources
	Diff    bool     `json:"diff_base,omitempty"`
	NoPre   bool     `json:"nopre,omitempty"`  // web: skip the child-process preflight (name grid: only strings that loading does not interpret)
	Binary  bool     `json:"binary,omitempty"` // `pprof <binary> <profile>`: the pprof executable itself is given as the binary
	Twice   bool     `json:"twice,omitempty"`  // the profile is given twice as a source (merge of two sources)
	Remote  bool     `json:"remote,omitempty"` // the profile is fetched from an http:// URL (served by the harness) instead of a file
	Args    []string `json:"args_hex,omitempty"`
	Env     []string `json:"env,omitempty"`
	Lines   []string `json:"lines_hex,omitempty"` // interactive lines / web "path?query" / completer lines
	Value   string   `json:"value_hex,omitempty"`
	N       int      `json:"n,omitempty"`
	Text    string   `json:"text,omitempty"` // human-readable rendering of the above (not used by replay)
}

func hexAll(ss []string) []string {
	out := make([]string, len(ss))
	for i, s := range ss {
		out[i] = hex.EncodeToString([]byte(s))
	}
	return out
}
func unhexAll(ss []string) []string {
	out := make([]string, len(ss))
	for i, s := range ss {
		b, _ := hex.DecodeString(s)
		out[i] = string(b)
	}
	return out
}
func unhex(s string) string { b, _ := hex.DecodeString(s); return string(b) }

func c09ProfileBytes(p *profile.Profile) []byte {
	var buf bytes.Buffer
	if pn := c09Safely(func() { p.WriteUncompressed(&buf) }); pn != "" {
		return nil
	}
	return buf.Bytes()
}

type c09Env struct {
	tmp string
	env []string
}

var c09TheEnv *c09Env

// c09Remote serves profiles over HTTP on 127.0.0.1 so that the real pprof fetches them as REMOTE
// sources (only those are saved to PPROF_TMPDIR / $HOME/pprof and symbolized through symbolz).
var c09Remote struct {
	once sync.Once
	base string
	m    sync.Map // path -> []byte
	n    int64
	mu   sync.Mutex
}

func c09ServeProfile(pb []byte) (url string, release func()) {
	c09Remote.once.Do(func() {
		ln, err := net.Listen("tcp", "127.0.0.1:0")
		if err != nil {
			return
		}
		c09Remote.base = "http://" + ln.Addr().String()
		go http.Serve(ln, http.HandlerFunc(func(w http.ResponseWriter, r *http.Request) {
			if b, ok := c09Remote.m.Load(r.URL.Path); ok && r.Method == "GET" {
				w.Header().Set("Content-Type", "application/octet-stream")
				w.Write(b.([]byte))
				return
			}
			http.Error(w, "not found", http.StatusNotFound)
		}))
	})
	if c09Remote.base == "" {
		return "", func() {}
	}
	c09Remote.mu.Lock()
	c09Remote.n++
	path := fmt.Sprintf("/debug/pprof/c09-%d", c09Remote.n)
	c09Remote.mu.Unlock()
	c09Remote.m.Store(path, pb)
	return c09Remote.base + path, func() { c09Remote.m.Delete(path) }
}

// c09Setup creates the scratch directories once per process (the runner is invoked once per corpus
// file and once for the generated cases).
func c09Setup() *c09Env {
	if c09TheEnv != nil {
		return c09TheEnv
	}
	tmp, err := os.MkdirTemp("", "c09-")
	if err != nil {
		panic(err)
	}
	for _, d := range []string{"home", "emptybin", "t", "cfg", "ptmp", "work"} {
		os.MkdirAll(filepath.Join(tmp, d), 0o755)
	}
	e := &c09Env{tmp: tmp}
	os.WriteFile(filepath.Join(tmp, "afile"), []byte("not a directory\n"), 0o644)
	e.env = []string{"HOME=" + filepath.Join(tmp, "home"), "PATH=" + filepath.Join(tmp, "emptybin"), "TMPDIR=" + filepath.Join(tmp, "t"),
		"XDG_CONFIG_HOME=" + filepath.Join(tmp, "cfg"), "PPROF_TMPDIR=" + filepath.Join(tmp, "ptmp"), "TERM=dumb", "GOMEMLIMIT=2GiB"}
	// the in-process runs see the same environment
	for _, kv := range e.env {
		i := strings.IndexByte(kv, '=')
		os.Setenv(kv[:i], kv[i+1:])
	}
	os.Unsetenv("PPROF_BINARY_PATH")
	os.Unsetenv("PPROF_TOOLS")
	os.Unsetenv("BROWSER")
	os.Unsetenv("DISPLAY")
	c09TheEnv = e
	return e
}

var (
	c09PanicRx = regexp.MustCompile(`(?m)^(panic: |fatal error: |unexpected fault address|runtime: )`)
	c09GoroRx  = regexp.MustCompile(`(?m)^goroutine \d+ [^\n]*\[`)
	c09Goro1Rx = regexp.MustCompile(`(?m)^goroutine 1 `)
)

const c09ProcTimeout = 20 * time.Second

var c09Hangs atomic.Int32 // child processes that had to be killed in this run

// c09ChildCPU: user+system CPU time consumed so far by process pid (Linux /proc; 0 if unknown).
func c09ChildCPU(pid int) time.Duration {
	b, err := os.ReadFile(fmt.Sprintf("/proc/%d/stat", pid))
	if err != nil {
		return 0
	}
	st := string(b)
	if i := strings.LastIndexByte(st, ')'); i >= 0 {
		f := strings.Fields(st[i+1:])
		if len(f) > 12 {
			ut, _ := strconv.ParseInt(f[11], 10, 64)
			stt, _ := strconv.ParseInt(f[12], 10, 64)
			return time.Duration(ut+stt) * 10 * time.Millisecond // USER_HZ = 100
		}
	}
	return 0
}

type c09ProcResult struct {
	cs       *c09Case
	exit     int
	stderr   string
	timedOut bool
	nsent    int // sentinels inserted (script kind)
}

// c09Exec runs the real pprof binary on one case (kind cli or script).
func c09Exec(c *Ctx, e *c09Env, id int, cs *c09Case) *c09ProcResult {
	work, _ := os.MkdirTemp(filepath.Join(e.tmp, "work"), fmt.Sprintf("c%d-", id))
	defer os.RemoveAll(work)
	pf := filepath.Join(work, "prof.pb")
	pb, _ := hex.DecodeString(cs.Profile)
	os.WriteFile(pf, pb, 0o644)
	args := unhexAll(cs.Args)
	for i, b := range cs.Bases {
		bf := filepath.Join(work, fmt.Sprintf("base%d.pb", i))
		bb, _ := hex.DecodeString(b)
		os.WriteFile(bf, bb, 0o644)
		if cs.Diff {
			args = append(args, "-diff_base="+bf)
		} else {
			args = append(args, "-base="+bf)
		}
	}
	if cs.Binary {
		args = append(args, c.Pprof) // an executable that binutils can open: recognised as the binary override
	}
	if u, release := c09ServeProfile(pb); cs.Remote && u != "" {
		defer release()
		args = append(args, u)
	} else {
		release()
		args = append(args, pf)
	}
	if cs.Twice {
		args = append(args, pf)
	}
	res := &c09ProcResult{cs: cs}
	if c09Hangs.Load() >= 3 && id < 1000000 {
		// three cases of this run already hung (each costs a watchdog period): the rest of the random
		// campaign is not run; grid, preflight, shrink and replay cases still are
		res.exit = -100
		res.stderr = "skipped: three hangs already found in this run"
		return res
	}
	var stdin bytes.Buffer
	if cs.Kind == "script" {
		for i, l := range unhexAll(cs.Lines) {
			// whatever produced the line: no control characters reach the binary's readline (NUL, ^C,
			// ^D, ESC are keys there, NUL/^D end the session like end of input), and no quitting line
			stdin.WriteString(c09CleanLine(l, false) + "\n")
			if i%5 == 4 {
				stdin.WriteString(fmt.Sprintf("zzsentinel%d\n", res.nsent))
				res.nsent++
			}
		}
		stdin.WriteString(fmt.Sprintf("zzsentinel%d\n", res.nsent))
		res.nsent++
		if cs.N%2 == 0 {
			stdin.WriteString("quit\n")
		}
	}
	cmd := exec.Command(c.Pprof, args...)
	cmd.Dir = work
	cmd.Env = append([]string{}, e.env...)
	for _, kv := range cs.Env { // {TMP} = this run's scratch directory (keeps replay files self-contained)
		cmd.Env = append(cmd.Env, strings.ReplaceAll(kv, "{TMP}", e.tmp))
	}
	cmd.Stdin = &stdin
	var errb bytes.Buffer
	cmd.Stderr = &errb
	cmd.Stdout = nil
	done := make(chan error, 1)
	if err := cmd.Start(); err != nil {
		res.exit = -100
		res.stderr = "cannot start: " + err.Error()
		return res
	}
	go func() { done <- cmd.Wait() }()
	select {
	case <-done:
	case <-time.After(c09ProcTimeout):
		// Hang or starvation? A child that has burnt several CPU seconds is looping; one whose CPU
		// time does not advance at all for 5 more seconds is blocked (deadlock); anything else is a
		// slow/starved process on an overloaded machine and gets more wall time before deciding.
		cpu1 := c09ChildCPU(cmd.Process.Pid)
		if cpu1 < 5*time.Second {
			select {
			case <-done:
				res.exit = cmd.ProcessState.ExitCode()
				res.stderr = errb.String()
				return res
			case <-time.After(5 * time.Second):
			}
			if cpu2 := c09ChildCPU(cmd.Process.Pid); cpu2-cpu1 >= 20*time.Millisecond && cpu2 < 5*time.Second {
				select {
				case <-done:
					res.exit = cmd.ProcessState.ExitCode()
					res.stderr = errb.String()
					return res
				case <-time.After(3 * c09ProcTimeout):
				}
			}
		}
		// ask the Go runtime for the goroutine stacks (to name the place that hangs), then kill
		cmd.Process.Signal(syscall.SIGQUIT)
		select {
		case <-done:
		case <-time.After(5 * time.Second):
			cmd.Process.Kill()
			<-done
		}
		res.timedOut = true
		c09Hangs.Add(1)
	}
	res.exit = cmd.ProcessState.ExitCode()
	res.stderr = errb.String()
	return res
}

func c09Failing(cls string) bool {
	return cls == "hang" || cls == "crash" || cls == "abnormal" || cls == "session-dead"
}

// c09Classify is the direct oracle on one process result (pure): outcome class, and for failing
// classes the signature and a description.
func c09Classify(r *c09ProcResult) (cls, sig, what string) {
	cs := r.cs
	se := r.stderr
	started := strings.Contains(se, "Entering interactive mode")
	switch {
	case r.timedOut:
		site := cs.Kind
		if loc := c09Goro1Rx.FindStringIndex(se); loc != nil {
			site = c09HangSite(se[loc[0]:])
		}
		return "hang", "C09/hang/" + site, fmt.Sprintf("pprof does not finish (killed after >= %v): %s", c09ProcTimeout, cs.Text)
	case c09PanicRx.MatchString(se) && c09GoroRx.MatchString(se):
		first := se[c09PanicRx.FindStringIndex(se)[0]:]
		site := c09PanicSite(first)
		return "crash", "C09/panic/" + site, fmt.Sprintf("pprof crashed (%s)", c09Trunc(c09FirstLine(first), 200))
	case r.exit == -100: // could not be started at all (harness side, e.g. a NUL byte in an argument)
		return "not-run", "", ""
	case r.exit < 0 || r.exit > 2:
		return "abnormal", "C09/abnormal-exit/" + cs.Kind, fmt.Sprintf("pprof exit status %d: %s | %s", r.exit, cs.Text, c09Trunc(se, 300))
	}
	if cs.Kind == "script" {
		got := strings.Count(se, `unrecognized command: "zzsentinel`)
		if started && (r.exit != 0 || got != r.nsent) {
			return "session-dead", "C09/session/stops-answering", fmt.Sprintf("interactive session answered %d of %d probes, exit %d: %s | %s",
				got, r.nsent, r.exit, cs.Text, c09Trunc(se[max(0, len(se)-300):], 300))
		}
		if started {
			return "session-ok", "", ""
		}
		return "load-error", "", ""
	}
	if r.exit == 0 {
		return "ok", "", ""
	}
	if strings.Contains(se, "usage:") || strings.Contains(se, "flag provided but not defined") || strings.Contains(se, "invalid value") || strings.Contains(se, "invalid boolean") {
		return "flag-error", "", ""
	}
	if strings.Contains(se, "problem fetching source profiles") {
		return "load-error", "", ""
	}
	return "report-error", "", ""
}

// c09Judge classifies a process result and reports a failing one as a violation (crashes are first
// shrunk: arguments and script lines that are not needed for the same crash site are removed).
func c09Judge(c *Ctx, r *c09ProcResult) string {
	cls, sig, what := c09Classify(r)
	cs := r.cs
	if cls == "crash" {
		site := strings.TrimPrefix(sig, "C09/panic/")
		if c09TheEnv != nil && c.Replay == "" && !c09Seen(c, sig) {
			crashes := func(x *c09Case) bool {
				c2, s2, _ := c09Classify(c09Exec(c, c09TheEnv, 2000000, x))
				return c2 == "crash" && s2 == sig
			}
			small := *cs
			small.Args = c09ShrinkList(cs.Args, func(a []string) bool { x := small; x.Args = a; return crashes(&x) })
			small.Lines = c09ShrinkList(cs.Lines, func(l []string) bool { x := small; x.Lines = l; return crashes(&x) })
			small.Bases = c09ShrinkList(cs.Bases, func(b []string) bool { x := small; x.Bases = b; return crashes(&x) })
			small.Text = fmt.Sprintf("pprof %q, script %q, %d base profile(s) diff_base=%v, env %q [shrunk from: %s]", unhexAll(small.Args), unhexAll(small.Lines), len(small.Bases), small.Diff, small.Env, c09Trunc(cs.Text, 300))
			cs = &small
		}
		_ = site
		what += " on " + cs.Text
	}
	if c09Failing(cls) {
		c.Violation(sig, what, cs)
	}
	return cls
}

// c09HangReport: did the in-process call hang? The first hang of a run is reported with the place
// where it is stuck; calls refused because of an earlier hang (c09Poisoned) are only counted.
func c09HangReport(c *Ctx, run *c09Run, what string, cs *c09Case) bool {
	if !run.Hang {
		return false
	}
	if run.HangSite == "after-earlier-hang" {
		c.Res.Hit("inproc/skipped-after-hang")
		return true
	}
	c.Violation("C09/hang/"+run.HangSite, what, cs)
	return true
}

// c09ShrinkList removes elements of l one at a time (then repeats) while still(l) keeps holding.
func c09ShrinkList(l []string, still func([]string) bool) []string {
	for changed, rounds := true, 0; changed && rounds < 4; rounds++ {
		changed = false
		for i := 0; i < len(l); i++ {
			cand := append(append([]string{}, l[:i]...), l[i+1:]...)
			if still(cand) {
				l, changed = cand, true
				i--
			}
		}
	}
	return l
}

// c09NoNUL drops (hex-encoded) arguments containing a NUL byte: they cannot be passed to a process.
func c09NoNUL(argsHex []string) []string {
	var out []string
	for _, a := range argsHex {
		if !strings.Contains(unhex(a), "\x00") {
			out = append(out, a)
		}
	}
	return out
}

// c09Seen: has a violation with this signature already been reported in this run? (Report keeps
// one finding per signature; shrinking a second witness would be wasted work.)
func c09Seen(c *Ctx, sig string) bool { return c.Res.sigSeen["violation"+sig] }

func c09FirstLine(s string) string {
	if i := strings.IndexByte(s, '\n'); i >= 0 {
		return s[:i]
	}
	return s
}

var c09PreflightCache = map[string]bool{}

// c09Preflight loads profile p once with the real binary in a child process before it is used
// in-process: the driver fetches profiles in goroutines of its own, so a panic while loading cannot
// be recovered in-process and would take the harness down with it. false = loading crashed (reported).
func c09Preflight(c *Ctx, e *c09Env, p *profile.Profile, env []string) bool {
	if c.Pprof == "" {
		return true
	}
	pb := c09ProfileBytes(p)
	if pb == nil {
		return false
	}
	key := hex.EncodeToString(pb) + strings.Join(env, "|")
	if ok, seen := c09PreflightCache[key]; seen {
		return ok
	}
	cs := &c09Case{Kind: "cli", Profile: hex.EncodeToString(pb), Args: hexAll([]string{"-top", "-symbolize=none"}), Env: env,
		Text: fmt.Sprintf("pprof -top -symbolize=none <profile %s, mappings %s> env=%q", describe(p), c09MappingText(p), env)}
	cls := c09Judge(c, c09Exec(c, e, 1000000+len(c09PreflightCache), cs))
	c.Res.Hit("preflight/" + cls)
	ok := cls != "crash" && cls != "hang" && cls != "abnormal"
	c09PreflightCache[key] = ok
	return ok
}

func c09MappingText(p *profile.Profile) string {
	var parts []string
	for _, m := range p.Mapping {
		parts = append(parts, fmt.Sprintf("{file=%q buildid=%q}", m.File, m.BuildID))
	}
	return strings.Join(parts, ",")
}

func c09SaneProfile(dflt string) *profile.Profile {
	m := &profile.Mapping{ID: 1, Start: 0x1000, Limit: 0x9000, File: "/bin/prog", BuildID: "abcdef", HasFunctions: true}
	var fns []*profile.Function
	for i, n := range []string{"main", "foo", "bar", "runtime.mallocgc"} {
		fns = append(fns, &profile.Function{ID: uint64(i + 1), Name: n, SystemName: n, Filename: n + ".go"})
	}
	var locs []*profile.Location
	for i, f := range fns {
		locs = append(locs, &profile.Location{ID: uint64(i + 1), Mapping: m, Address: uint64(0x1100 + 16*i), Line: []profile.Line{{Function: f, Line: int64(i + 3)}}})
	}
	p := &profile.Profile{
		SampleType:        []*profile.ValueType{{Type: "samples", Unit: "count"}, {Type: "cpu", Unit: "nanoseconds"}, {Type: "alloc_space", Unit: "bytes"}},
		DefaultSampleType: dflt,
		Mapping:           []*profile.Mapping{m}, Function: fns, Location: locs,
		Sample: []*profile.Sample{
			{Location: []*profile.Location{locs[3], locs[1], locs[0]}, Value: []int64{1, 100, 4096}, Label: map[string][]string{"k": {"v"}},
				NumLabel: map[string][]int64{"bytes": {10}}, NumUnit: map[string][]string{"bytes": {"bytes"}}},
			{Location: []*profile.Location{locs[2], locs[0]}, Value: []int64{2, 50, 0}, Label: map[string][]string{"key2": {"w", "x"}}},
		},
		PeriodType: &profile.ValueType{Type: "cpu", Unit: "nanoseconds"}, Period: 1,
	}
	return p
}

func c09TypeNames(p *profile.Profile) []string {
	var out []string
	for _, st := range p.SampleType {
		out = append(out, st.Type)
	}
	return out
}

// ------------------------------------------------------------------------------------------
// correspondence 1: -tagfocus=<value>  (compileTagFilter / parseTagFilterRange)
// ------------------------------------------------------------------------------------------

func c09Tagfilter(c *Ctx, value string) {
	cs := &c09Case{Kind: "tagfilter", Value: hex.EncodeToString([]byte(value)), Text: fmt.Sprintf("-tagfocus=%q", value)}
	run := c09PProf(c09SaneProfile(""), []string{"-top", "-symbolize=none", "-output=c09out", "-tagfocus=" + value}, nil)
	errs := run.UI.allErrs()
	real := "noerr"
	switch {
	case c09HangReport(c, run, "driver.PProf does not return on "+cs.Text, cs):
		return
	case run.Panic != "":
		c.Violation("C09/panic/"+c09PanicSite(run.Panic), "driver.PProf panics on "+cs.Text+": "+c09FirstLine(run.Panic), cs)
		real = "panic"
	case run.Err != nil:
		real = "err"
	case strings.Contains(errs, "tagfocus:Interpreted '"):
		real = "range"
	}
	model := c.Drv.Ask("tagfilter " + hexTok([]byte(value)))
	c.Res.ModelCompared++
	c.Res.Hit("tagfilter/model=" + c09FirstWord(model) + "/real=" + real)
	c.Res.Count("tagfilter "+cs.Value, strings.ContainsAny(value, "0123456789"))
	want := ""
	f := strings.Fields(model)
	switch c09FirstWord(model) {
	case "absent":
		want = "noerr"
	case "range":
		want = "range"
	case "err":
		want = "err"
	case "regexp":
		want = "noerr"
		if len(f) == 3 {
			v := unhex(strings.TrimPrefix(f[2], "x"))
			for _, piece := range strings.Split(v, ",") {
				if _, err := regexp.Compile(piece); err != nil {
					want = "err"
				}
			}
		}
	default:
		want = "model:" + model
	}
	if real != want && real != "panic" {
		c.Disagree("C09/corr/tagfilter/model="+c09FirstWord(model)+"/real="+real, fmt.Sprintf("%s: model says %q, real code behaves as %q (err=%v)", cs.Text, model, real, run.Err),
			"parseTagFilterRange_no_panic / compileTagFilter_no_panic (model of driver_focus.go no longer corresponds)", cs)
	}
}

// ------------------------------------------------------------------------------------------
// correspondence 2: interactive sessions (interactive, parseCommandLine, configure/set, sample_index)
// ------------------------------------------------------------------------------------------

// c09Sanitize makes a line fall inside the model's domain: the model's Fields/TrimSpace are the
// ASCII ones, so Unicode space runes are replaced (the campaign against the binary keeps them).
func c09Sanitize(line string) string {
	return strings.Map(func(r rune) rune {
		if r >= 0x80 && unicode.IsSpace(r) {
			return 'x'
		}
		return r
	}, line)
}

func c09BadFloats(lines []string) []string {
	seen := map[string]bool{}
	var out []string
	add := func(s string) {
		s = strings.TrimSpace(s)
		if _, err := strconv.ParseFloat(s, 64); err != nil && !seen[s] {
			seen[s] = true
			out = append(out, s)
		}
	}
	for _, l := range lines {
		if i := strings.IndexByte(l, '='); i >= 0 {
			v := l[i+1:]
			add(v)
			if j := strings.LastIndex(v, "//:"); j >= 0 {
				add(v[:j])
			}
		}
	}
	return out
}

type c09ModelEv struct {
	kind    string // E S O H Q R
	cmd     []string
	output  string
	filters []string
}

// c09ParseSession parses the reply of the `session` driver op.
func c09ParseSession(reply string) (lines [][]c09ModelEv, final []string, ok bool) {
	t := strings.Fields(reply)
	if len(t) < 2 || t[0] != "ok" {
		return nil, nil, false
	}
	pos := 1
	next := func() string {
		if pos >= len(t) {
			ok = false
			return "0"
		}
		pos++
		return t[pos-1]
	}
	num := func() int { n, _ := strconv.Atoi(next()); return n }
	str := func() string { return unhex(strings.TrimPrefix(next(), "x")) }
	val := func() string { // valTok: kind char + payload
		v := next()
		if len(v) == 0 {
			return ""
		}
		switch v[0] {
		case 's', 'f':
			return unhex(strings.TrimPrefix(v[1:], "x"))
		default:
			return v[1:]
		}
	}
	ok = true
	nl := num()
	for i := 0; i < nl && ok; i++ {
		var evs []c09ModelEv
		ne := num()
		for j := 0; j < ne && ok; j++ {
			ev := c09ModelEv{kind: next()}
			switch ev.kind {
			case "S":
				str()
				str()
			case "R":
				for k, n := 0, num(); k < n; k++ {
					ev.cmd = append(ev.cmd, str())
				}
				ev.output = val()
				val()
				val()
				for k, n := 0, num(); k < n; k++ {
					ev.filters = append(ev.filters, str())
				}
			}
			evs = append(evs, ev)
		}
		lines = append(lines, evs)
	}
	for pos < len(t) {
		v := t[pos]
		pos++
		switch v[0] {
		case 'b':
			final = append(final, map[string]string{"b1": "true", "b0": "false"}[v])
		case 'i':
			final = append(final, v[1:])
		case 'f':
			final = append(final, "\x00float")
		default:
			final = append(final, unhex(strings.TrimPrefix(v[1:], "x")))
		}
	}
	return lines, final, ok
}

// c09ParseOptions parses the output of the real `o` command into name -> value.
func c09ParseOptions(text string) map[string]string {
	m := map[string]string{}
	for _, ln := range strings.Split(text, "\n") {
		i := strings.Index(ln, " = ")
		if i < 0 {
			continue
		}
		name := strings.TrimSpace(ln[:i])
		rest := ln[i+3:]
		// only these options carry a "//: …" comment; elsewhere "//:" can be part of the value
		if name == "sort" || name == "granularity" || name == "sample_index" || name == "nodecount" {
			if j := strings.Index(rest, " //: "); j >= 0 {
				rest = rest[:j]
			}
		}
		m[name] = strings.TrimRight(rest, " ")
	}
	return m
}

func c09RealFilters(report string) []string {
	var out []string
	in := false
	for _, ln := range strings.Split(report, "\n") {
		if ln == "Active filters:" {
			in = true
			continue
		}
		if in {
			if strings.HasPrefix(ln, "   ") {
				out = append(out, ln[3:])
			} else {
				break
			}
		}
	}
	return out
}

func c09Session(c *Ctx, dflt string, lines []string) {
	for i := range lines {
		lines[i] = c09Sanitize(strings.ReplaceAll(lines[i], "\n", " "))
	}
	cs := &c09Case{Kind: "session", Lines: hexAll(lines), Value: hex.EncodeToString([]byte(dflt)), Text: fmt.Sprintf("%q", lines)}
	p := c09SaneProfile(dflt)
	types := c09TypeNames(p)
	var req strings.Builder
	req.WriteString("session ")
	req.WriteString(strconv.Itoa(len(types)))
	for _, t := range types {
		req.WriteString(" " + hexTok([]byte(t)))
	}
	req.WriteString(" " + hexTok([]byte(dflt)))
	// sort and granularity cannot be reset through flags in a long-lived process: the real session
	// reports its initial values through a leading `o`, and the model starts from them
	run := c09PProf(p, []string{"-symbolize=none"}, append(append([]string{"o"}, lines...), "o"))
	if len(run.UI.recs) >= 2 {
		init := c09ParseOptions(strings.Join(run.UI.recs[1].Prints, "\n"))
		g := init["granularity"]
		if g == "(default)" {
			g = ""
		}
		req.WriteString(" " + hexTok([]byte(init["sort"])) + " " + hexTok([]byte(g)))
	} else {
		req.WriteString(" " + hexTok([]byte("flat")) + " x")
	}
	bad := c09BadFloats(lines)
	req.WriteString(" " + strconv.Itoa(len(bad)))
	for _, b := range bad {
		req.WriteString(" " + hexTok([]byte(b)))
	}
	req.WriteString(" " + strconv.Itoa(len(lines)))
	for _, l := range lines {
		req.WriteString(" " + hexTok([]byte(l)))
	}
	model := c.Drv.Ask(req.String())
	c.Res.ModelCompared++
	if c09HangReport(c, run, "interactive session does not return: "+cs.Text, cs) {
		return
	}
	if run.Panic != "" {
		site := c09PanicSite(run.Panic)
		if c09Seen(c, "C09/panic/"+site) {
			c.Res.Hit("session/panic-again")
			return // already reported (and shrunk) once in this run
		}
		lines = c09ShrinkList(lines, func(ls []string) bool {
			r := c09PProf(p, []string{"-symbolize=none"}, append(append([]string{"o"}, ls...), "o"))
			return r.Panic != "" && c09PanicSite(r.Panic) == site
		})
		cs.Lines, cs.Text = hexAll(lines), fmt.Sprintf("%q", lines)
		c.Violation("C09/panic/"+site, "interactive session panics: "+c09FirstLine(run.Panic)+" on lines "+cs.Text, cs)
		return
	}
	broken := "interactive_step_no_panic / parseCommandLine_no_panic / config_set_total (model of interactive.go, config.go no longer corresponds)"
	mlines, final, ok := c09ParseSession(model)
	if !ok {
		c.Disagree("C09/corr/session/model="+c09FirstWord(model), "model reply "+c09Trunc(model, 120)+" while the real session survived: "+cs.Text, broken, cs)
		return
	}
	if run.Err != nil {
		c.Disagree("C09/corr/session/real-error", "real session ended with error "+run.Err.Error()+": "+cs.Text, broken, cs)
		return
	}
	if len(run.UI.recs) < 2 {
		c.Disagree("C09/corr/session/ended-early", "real session did not read the first line: "+cs.Text, broken, cs)
		return
	}
	recs := run.UI.recs[2:]
	quit := false
	nontrivial := false
	for i, evs := range mlines {
		if i >= len(recs) {
			c.Disagree("C09/corr/session/ended-early", fmt.Sprintf("real session read only %d lines, model %d: %s", len(recs), len(mlines), cs.Text), broken, cs)
			return
		}
		rec := recs[i]
		nE, hasR, hasO, hasH, hasQ := 0, false, false, false, false
		var rev c09ModelEv
		for _, ev := range evs {
			switch ev.kind {
			case "E":
				nE++
			case "R":
				hasR, rev = true, ev
			case "O":
				hasO = true
			case "H":
				hasH = true
			case "Q":
				hasQ = true
			}
		}
		mism := ""
		switch {
		case hasH:
		case hasQ:
			quit = true
			if len(recs) != i+1 {
				mism = "model quits, real session read further lines"
			}
		case hasO:
			c.Res.Hit("session/line=options")
			if len(rec.Prints) == 0 || len(rec.Errs) != 0 {
				mism = "options listing expected"
			}
		case hasR:
			nontrivial = true
			c.Res.Hit("session/line=report")
			switch {
			case rev.output == "" && len(rec.Opened) != 0:
				mism = fmt.Sprintf("model: no output file, real opened %q", rec.Opened)
			case rev.output != "" && len(rec.Opened) == 0 && len(rec.Errs) == 0:
				mism = fmt.Sprintf("model: output file %q, real opened none and reported no error", rev.output)
			case rev.output != "" && len(rec.Opened) > 0 && (len(rec.Opened) != 1 || rec.Opened[0] != rev.output):
				mism = fmt.Sprintf("model: output file %q, real opened %q", rev.output, rec.Opened)
			}
			if mism == "" && len(rec.Opened) == 1 && (rev.cmd[0] == "top" || rev.cmd[0] == "text" || rev.cmd[0] == "tree") {
				if b := rec.Bufs[0]; b != nil && b.Len() > 0 {
					realF := c09RealFilters(b.String())
					var want []string
					// a long filter is shown shortened; where exactly it is cut is not promised (bytes,
					// runes): compare the first 60 bytes of such filters only
					for i, f := range rev.filters {
						if len(f) > 80 {
							f = f[:60]
							if i < len(realF) && len(realF[i]) >= 60 {
								realF[i] = realF[i][:60]
							}
						}
						want = append(want, f)
					}
					c.Res.Hit("session/filters-compared")
					if strings.Join(realF, "\n") != strings.Join(want, "\n") {
						mism = fmt.Sprintf("active filters: model %q, real %q", want, realF)
					}
				}
			}
		default: // assignments / parse errors / empty line
			if nE > 0 {
				c.Res.Hit("session/line=error")
			} else if len(evs) > 0 {
				c.Res.Hit("session/line=assign")
				nontrivial = true
			} else {
				c.Res.Hit("session/line=empty")
			}
			if len(rec.Errs) != nE || len(rec.Prints) != 0 || len(rec.Opened) != 0 {
				mism = fmt.Sprintf("model: %d error message(s) and nothing else; real: errs=%q prints=%d opened=%q", nE, rec.Errs, len(rec.Prints), rec.Opened)
			}
		}
		if mism != "" {
			c.Disagree("C09/corr/session/line", fmt.Sprintf("line %d %q: %s", i, rec.Line, mism), broken, cs)
			return
		}
		if quit {
			break
		}
	}
	if !quit {
		if len(recs) != len(lines)+1 {
			c.Disagree("C09/corr/session/ended-early", fmt.Sprintf("real session read %d of %d lines: %s", len(recs), len(lines)+1, cs.Text), broken, cs)
			return
		}
		last := recs[len(recs)-1]
		real := c09ParseOptions(strings.Join(last.Prints, "\n"))
		for i, f := range c09Fields {
			if i >= len(final) || f.name == "source_path" || final[i] == "\x00float" {
				continue
			}
			want := final[i]
			switch {
			case f.name == "sample_index" && want == "":
				want = "alloc_space"
			case f.name == "granularity" && want == "":
				want = "(default)"
			case f.kind != "choice" && want == "":
				want = `""`
			}
			if got, ok := real[f.name]; !ok || got != want {
				c.Disagree("C09/corr/session/final-option/"+f.name, fmt.Sprintf("after %s: option %s is %q in the real session, %q in the model", cs.Text, f.name, got, want), broken, cs)
				return
			}
		}
		c.Res.Hit("session/final-options-compared")
	}
	c.Res.Count("session "+strings.Join(cs.Lines, " "), nontrivial)
	// the real completer of this session, on the same lines (campaign: recover only)
	if run.UI.complete != nil {
		for _, l := range lines {
			if pn := c09Safely(func() { run.UI.complete(l) }); pn != "" {
				c.Violation("C09/panic/completer", "auto-completer panics on "+fmt.Sprintf("%q: %s", l, pn),
					&c09Case{Kind: "completer", Lines: hexAll([]string{l}), Text: fmt.Sprintf("%q", l)})
			}
			c.Res.Hit("completer/lines")
		}
	}
}

// ------------------------------------------------------------------------------------------
// correspondence 3: number of candidate binaries tried by locateBinaries
// ------------------------------------------------------------------------------------------

func c09Locate(c *Ctx, file, buildID string, npaths int) {
	cs := &c09Case{Kind: "locate", Args: hexAll([]string{file, buildID}), N: npaths, Text: fmt.Sprintf("mapping file=%q buildid=%q, %d search dirs", file, buildID, npaths)}
	p := c09SaneProfile("")
	p.Mapping[0].File, p.Mapping[0].BuildID = file, buildID
	var dirs []string
	for i := 0; i < npaths; i++ {
		dirs = append(dirs, fmt.Sprintf("/nonexistent/c09dir%d", i))
	}
	bp := strings.Join(dirs, string(os.PathListSeparator))
	if !c09Preflight(c, c09TheEnv, p, []string{"PPROF_BINARY_PATH=" + bp}) {
		c.Res.Hit("locate/preflight-crash")
		return
	}
	os.Setenv("PPROF_BINARY_PATH", bp)
	defer os.Unsetenv("PPROF_BINARY_PATH")
	run := c09PProf(p, []string{"-top", "-symbolize=none", "-output=c09out"}, nil)
	c.Res.ModelCompared++
	c.Res.Count("locate "+cs.Text, buildID != "")
	c.Res.Hit(fmt.Sprintf("locate/buildid-len=%d", min(len(buildID), 3)))
	if c09HangReport(c, run, "driver.PProf does not return loading a profile with "+cs.Text, cs) {
		return
	}
	if run.Panic != "" {
		c.Violation("C09/panic/"+c09PanicSite(run.Panic), "driver.PProf panics loading a profile with "+cs.Text+": "+c09FirstLine(run.Panic), cs)
		return
	}
	model := c.Drv.Ask(fmt.Sprintf("locate 1 %d %s %s", npaths, hexTok([]byte(file)), hexTok([]byte(buildID))))
	want := fmt.Sprintf("ok %d", len(run.Obj.opens))
	if run.Err != nil || model != want {
		c.Disagree("C09/corr/locate", fmt.Sprintf("%s: model %q, real code tried %d names (err=%v)", cs.Text, model, len(run.Obj.opens), run.Err),
			"locateBinaries_no_panic (model of fetch.go locateBinaries no longer corresponds)", cs)
	}
}

// ------------------------------------------------------------------------------------------
// correspondence 3b: -symbolize=<mode> option string (symbolizer.Symbolize, demanglerModeToOptions)
// ------------------------------------------------------------------------------------------

func c09SymMode(c *Ctx, mode string) {
	cs := &c09Case{Kind: "symmode", Value: hex.EncodeToString([]byte(mode)), Text: fmt.Sprintf("-symbolize=%q", mode)}
	p := c09SaneProfile("")
	p.Mapping[0].HasFunctions = false // so that local symbolization tries to open the binary
	run := c09PProf(p, []string{"-top", "-output=c09out", "-symbolize=" + mode}, nil)
	c.Res.ModelCompared++
	if c09HangReport(c, run, "driver.PProf does not return on "+cs.Text, cs) {
		return
	}
	if run.Panic != "" {
		c.Violation("C09/panic/"+c09PanicSite(run.Panic), "driver.PProf panics on "+cs.Text+": "+c09FirstLine(run.Panic), cs)
		return
	}
	unknown := strings.Count(run.UI.allErrs(), "ignoring unrecognized symbolization option")
	local := 0
	for _, n := range run.Obj.opens {
		if n == "/bin/prog" {
			local = 1
		}
	}
	model := c.Drv.Ask("symmode " + hexTok([]byte(mode)))
	c.Res.Hit("symmode/model=" + c09FirstWord(model))
	c.Res.Count("symmode "+cs.Value, strings.Contains(mode, "demangle") || strings.Contains(mode, ":"))
	ok := run.Err == nil
	f := strings.Fields(model)
	switch {
	case model == "skip": // "none"/"no": returns before symbolizing (messages for earlier options may have been printed)
		ok = ok && local == 0
	case len(f) == 4 && f[0] == "run":
		ok = ok && f[1] == strconv.Itoa(local) && f[2] == strconv.Itoa(unknown)
	default:
		ok = false
	}
	if !ok {
		c.Disagree("C09/corr/symmode", fmt.Sprintf("%s: model %q; real: local symbolization attempted=%d, unrecognized-option messages=%d, err=%v", cs.Text, model, local, unknown, run.Err),
			"symbolize_mode_no_panic (model of symbolizer.Symbolize's option string no longer corresponds)", cs)
	}
}

func c09SymModeGen(r *Rng) string {
	opts := []string{"", "none", "no", "local", "fastlocal", "remote", "force", "demangle=full", "demangle=none", "demangle=templates", "demangle=default",
		"demangle=", "demangle=x", "demangle", "Local", "FORCE", "Demangle=Full", "junk", "loc al", "demangle=full=x", "=", "demangle=demangle=full", "none ", "NO"}
	var parts []string
	for i, n := 0, 1+r.Intn(4); i < n; i++ {
		parts = append(parts, opts[r.Intn(len(opts))])
	}
	return strings.Join(parts, ":")
}

// ------------------------------------------------------------------------------------------
// correspondence 4: command and option tables
// ------------------------------------------------------------------------------------------

func c09Tables(c *Ctx) {
	cs := &c09Case{Kind: "tables", Text: "help / o"}
	run := c09PProf(c09SaneProfile(""), []string{"-symbolize=none"}, []string{"help", "o"})
	if c09HangReport(c, run, "help / o session does not return", cs) {
		return
	}
	if run.Panic != "" || run.Err != nil || len(run.UI.recs) < 3 {
		c.Disagree("C09/corr/tables/run", fmt.Sprintf("help/o session failed: %v %s", run.Err, c09Trunc(run.Panic, 100)), "command/option tables of Model/Crash.lean", cs)
		return
	}
	help := strings.Join(run.UI.recs[1].Prints, "\n")
	var realCmds []string
	if i := strings.Index(help, "Commands:"); i >= 0 {
		for _, ln := range strings.Split(help[i:], "\n")[1:] {
			f := strings.Fields(ln)
			if len(f) == 0 {
				break
			}
			if f[0] != "o/options" && !strings.HasPrefix(f[0], "q/") {
				realCmds = append(realCmds, f[0])
			}
		}
	}
	var modelCmds []string
	t := strings.Fields(c.Drv.Ask("commands"))
	for i := 1; i+1 < len(t); i += 2 {
		modelCmds = append(modelCmds, unhex(strings.TrimPrefix(t[i], "x")))
	}
	sortStrings(realCmds)
	sortStrings(modelCmds)
	c.Res.ModelCompared++
	if strings.Join(realCmds, " ") != strings.Join(modelCmds, " ") {
		c.Disagree("C09/corr/tables/commands", fmt.Sprintf("command table: real %v, model %v", realCmds, modelCmds), "command table of Model/Crash.lean (parseCommandLine_no_panic is about another table)", cs)
	}
	real := c09ParseOptions(strings.Join(run.UI.recs[2].Prints, "\n"))
	var realOpts, modelOpts []string
	for k := range real {
		realOpts = append(realOpts, k)
	}
	t = strings.Fields(c.Drv.Ask("fields"))
	for i := 1; i+1 < len(t); i += 2 {
		if n := unhex(strings.TrimPrefix(t[i], "x")); n != "source_path" {
			modelOpts = append(modelOpts, n)
		}
	}
	sortStrings(realOpts)
	sortStrings(modelOpts)
	if strings.Join(realOpts, " ") != strings.Join(modelOpts, " ") {
		c.Disagree("C09/corr/tables/options", fmt.Sprintf("option table: real %v, model %v", realOpts, modelOpts), "option table of Model/Crash.lean (config_set_total is about another table)", cs)
	}
}

// ------------------------------------------------------------------------------------------
// campaign: web handlers
// ------------------------------------------------------------------------------------------

var c09WebPaths = []string{"/", "/top", "/top", "/disasm", "/source", "/source", "/peek", "/peek", "/flamegraph", "/flamegraph", "/flamegraph", "/flamegraph2", "/flamegraphold", "/saveconfig", "/deleteconfig", "/download", "/top", "/disasm"}

func c09Web(c *Ctx, cs *c09Case) {
	pb, _ := hex.DecodeString(cs.Profile)
	reqs, text := unhexAll(cs.Lines), cs.Text
	p, err := profile.ParseData(pb)
	if err != nil {
		return
	}
	if !cs.NoPre && !c09Preflight(c, c09TheEnv, p, nil) {
		c.Res.Hit("web/preflight-crash")
		return
	}
	flags := []string{"-http=unused:1234", "-symbolize=none"}
	var bases []*profile.Profile
	for _, bh := range cs.Bases {
		bb, _ := hex.DecodeString(bh)
		b, err := profile.ParseData(bb)
		if err != nil || !c09Preflight(c, c09TheEnv, b, nil) {
			c.Res.Hit("web/preflight-crash")
			return
		}
		if cs.Diff {
			flags = append(flags, fmt.Sprintf("-diff_base=c09base%d", len(bases)))
		} else {
			flags = append(flags, fmt.Sprintf("-base=c09base%d", len(bases)))
		}
		bases = append(bases, b)
	}
	run := c09PProfB(p, bases, flags, nil)
	if run.Panic != "" {
		c.Violation("C09/panic/"+c09PanicSite(run.Panic), "driver.PProf -http panics: "+c09FirstLine(run.Panic)+" on "+text, cs)
		return
	}
	if c09HangReport(c, run, "driver.PProf -http does not return on "+text, cs) {
		return
	}
	if run.Err != nil || run.Handlers == nil {
		c.Res.Hit("web/load-error")
		c.Res.Count("web "+cs.Profile, false)
		return
	}
	probe := func(after string) bool {
		st, _, pn, hang := c09Serve(run.Handlers["/top"], "/top", "")
		if pn != "" || hang || st != 200 {
			one := *cs
			one.Lines = hexAll([]string{after, "/top"})
			c.Violation("C09/web/unusable-after", fmt.Sprintf("after request %q a plain /top answers status=%d panic=%q hang=%v (%s)", after, st, c09Trunc(pn, 100), hang, text), &one)
			return false
		}
		return true
	}
	if !probe("(start)") {
		return
	}
	for _, rq := range reqs {
		path, q := rq, ""
		if i := strings.IndexByte(rq, '?'); i >= 0 {
			path, q = rq[:i], rq[i+1:]
		}
		h := run.Handlers[path]
		if h == nil {
			c.Res.Hit("web/no-handler")
			continue
		}
		st, body, pn, hang, hsite := c09ServeSite(h, path, q)
		one := *cs
		one.Lines = hexAll([]string{rq})
		one.Text = fmt.Sprintf("GET %q on %s", rq, text)
		c.Res.Count("web "+cs.Profile+" "+rq, st == 200 || st == 400)
		switch {
		case pn != "":
			c.Violation("C09/web/panic/"+c09PanicSite(pn), "web handler panics: "+c09FirstLine(pn)+" on "+one.Text, &one)
			c.Res.Hit("web/panic")
		case hang:
			c.Violation("C09/hang/"+hsite, "web handler does not answer within "+c09InprocTimeout.String()+": "+one.Text, &one)
			c.Res.Hit("web/hang")
			return // the stuck handler keeps a CPU busy; stop using this server
		case st >= 500 && !(st == http.StatusNotImplemented && path == "/"):
			// (501 from "/" only says that graphviz is not installed here.) Any other 5xx means the
			// handler failed internally instead of producing the page or reporting a user error.
			c.Violation(fmt.Sprintf("C09/web/status-%d%s", st, path), fmt.Sprintf("web handler answers %d (%s) on %s", st, c09Trunc(c09FirstLine(body), 120), one.Text), &one)
			c.Res.Hit(fmt.Sprintf("web/status=%d", st))
		case st == 200 && len(body) == 0 && path != "/saveconfig" && path != "/deleteconfig":
			c.Violation("C09/web/empty-reply"+path, "web handler answers 200 with an empty body (no page, no error) on "+one.Text, &one)
			c.Res.Hit("web/empty-reply")
		default:
			c.Res.Hit(fmt.Sprintf("web/status=%d", st))
		}
		if pn != "" || hang || st >= 500 {
			if !probe(rq) {
				return
			}
		}
	}
	probe("(all requests)")
}

// ------------------------------------------------------------------------------------------
// runner
// ------------------------------------------------------------------------------------------

func runC09(c *Ctx) {
	c.Res.Rule = "correspondence (in-process, exported plug-in API): -tagfocus values vs model outcome class; interactive sessions with a scripted UI vs the model's per-line events, output file, active filters and final option values; candidate-binary counts of locateBinaries; command/option tables. " +
		"Campaign (real pprof binary, one process per case; web handlers through the HTTPServer hook): first a deterministic grid of every output command x every option that changes graph construction or trimming (alone and with call_tree) x two trimming settings on a profile with several calling contexts per function, every source-spec form (plain, binary + profile, -buildid, -symbolize modes, -base/-diff_base, -add_comment, -tools, -source_path, two sources, http source) x degenerate but valid profiles (no samples / locations / mappings / functions, locations without mappings, mappings without locations, a sample without locations, idle process, empty strings, one sample type) x {-top, -raw, interactive}; every name-like profile string (function/system name, file names, label keys and values, sample type/unit/comment) x separator adversaries as prefix, suffix and whole name (CLI and every web endpoint); and every string-valued option x values whose byte and rune lengths straddle the size limits (long ASCII, 2-/3-/4-byte characters, combining marks, invalid UTF-8); then valid profiles with odd strings/ids/addresses/line numbers/0-1-2-character build ids/labels/units and per-column value patterns (one column zero, all zero, only one column non-zero, cancelling +v/-v, MinInt64/MaxInt64, negative, ones) x option assignments; every fourth CLI/script case and every third web UI also gets -base/-diff_base profiles (same, same stacks with another value pattern, subset, other profile with the same types, reordered/renamed types, unrelated) and the boolean/choice/sample_index option grid (mean, normalize, relative_percentages, call_tree, drop_negative, noinlines, showcolumns, trim, granularity, sort, each sample type) x option assignments (every 8th case fetches its profile from an http URL served by the harness, with faults on the path that saves the local copy: unusable PPROF_TMPDIR/HOME/TMPDIR, file names from profile strings with separators, NUL, over-long) x interactive scripts (grammar + noise + mutation operators over valid lines: case changes incl. unicode case variants of command/option names, digit abbreviations, separator noise, redirections and pipes with odd targets, prefixes/suffixes/concatenations of command names, mixed-case help) x URL query strings; failing input = panic trace, recovered panic, hang, abnormal exit, or a session/server that stops answering. " +
		"Non-trivial: tagfilter values containing a digit; sessions with at least one assignment or report line; locate cases with a build id; CLI cases that got past flag parsing and profile loading; scripts whose session started; web requests answered 200/400."
	e := c09Setup()
	if f := flag.Lookup("replay"); c.Replay == "" || (f != nil && f.Value.String() != "") {
		defer os.RemoveAll(e.tmp) // last invocation in this process
	}
	saved := os.Stdout
	if dn, err := os.OpenFile(os.DevNull, os.O_WRONLY, 0); err == nil {
		os.Stdout = dn
		defer func() { os.Stdout = saved; dn.Close() }()
	}
	if c.Replay != "" {
		c09Replay(c, e)
		return
	}
	r := NewRng(c.Seed)
	scale := c.Scale
	if scale > 1 {
		scale *= 3 // thorough tier: ~10 minutes
	}
	// C09_ONLY=web,session,… restricts the run to some phases (development aid; the random streams
	// of the phases are independent forks, so a phase behaves the same alone)
	only := os.Getenv("C09_ONLY")
	want := func(ph string) bool { return only == "" || strings.Contains(","+only+",", ","+ph+",") }
	rCamp, rt, rs, rw := r.Fork(), r.Fork(), r.Fork(), r.Fork()

	// ---- campaign cases for the real binary: generated by one feeder goroutine (sole user of rCamp,
	// so the stream is deterministic), executed by a pool of workers while the in-process parts run;
	// only the verdicts (and the failing cases) are kept
	nCLI, nScript := 3000*scale, 1400*scale
	if !want("cli") {
		nCLI = 0
	}
	if !want("script") {
		nScript = 0
	}
	type verdict struct {
		kind, cls, key string
		res            *c09ProcResult // kept only when the case has to be reported
		sample         string
	}
	verdicts := make(chan verdict, 256)
	var collected []verdict
	var wg, wgc sync.WaitGroup
	wgc.Add(1)
	go func() {
		defer wgc.Done()
		for v := range verdicts {
			collected = append(collected, v)
		}
	}()
	if c.Pprof != "" {
		type job struct {
			i  int
			cs *c09Case
		}
		work := make(chan job)
		for w := 0; w < 14; w++ {
			wg.Add(1)
			go func() {
				defer wg.Done()
				for j := range work {
					res := c09Exec(c, e, j.i, j.cs)
					cls, _, _ := c09Classify(res)
					h := fnv.New64a()
					h.Write([]byte(j.cs.Kind + j.cs.Profile + strings.Join(j.cs.Args, " ") + strings.Join(j.cs.Lines, " ")))
					kind := j.cs.Kind
					if len(j.cs.Bases) > 0 {
						kind += map[bool]string{true: "+diff_base", false: "+base"}[j.cs.Diff]
					}
					if j.cs.Remote {
						kind += "+remote"
					}
					if j.i >= 3000000 {
						kind = "grid"
					}
					v := verdict{kind: kind, cls: cls, key: fmt.Sprintf("%s %x", j.cs.Kind, h.Sum64())}
					if c09Failing(cls) {
						v.res = res
					}
					if j.i < 3 {
						v.sample = c09Trunc(j.cs.Text, 300)
					}
					verdicts <- v
				}
			}()
		}
		go func() {
			defer close(work)
			// deterministic grid first: every output command x every option that changes graph
			// construction or trimming, on a profile where trimming really removes nodes
			if want("grid") && nCLI > 0 {
				for gi, cs := range c09GridCases() {
					work <- job{3000000 + gi, cs}
				}
			}
			for i := 0; i < nCLI+nScript; i++ {
				fr := rCamp.Fork()
				// separate streams: short build ids / int64-overflowing tag ranges / extreme line numbers
				// only in every 8th case each; every 8th case fetches its profile from an http URL
				// (remote source: saved locally afterwards) with faults injected on the save path
				shortBID, big, xlines, remote := i%8 == 3, i%8 == 5, i%8 == 6, i%8 == 0
				p := c09Profile(fr, shortBID, xlines)
				remoteText := ""
				if remote {
					remoteText = " remote[" + c09BadSaveNames(fr, p) + "]"
				}
				pb := c09ProfileBytes(p)
				if pb == nil {
					continue
				}
				types := c09TypeNames(p)
				cs := &c09Case{Profile: hex.EncodeToString(pb), N: i}
				// every fourth case runs with base profiles (-base / -diff_base) and the boolean /
				// choice / sample_index option grid
				withBase, baseText := i%8 == 1 || i%8 == 7, ""
				if withBase {
					cs.Diff = fr.Chance(55)
					for k, n := 0, 1+fr.Intn(10)/8; k < n; k++ {
						b, d := c09BaseFor(fr, p)
						if bb := c09ProfileBytes(b); bb != nil {
							cs.Bases = append(cs.Bases, hex.EncodeToString(bb))
							baseText += fmt.Sprintf(" base[%s %s]", d, describe(b))
						}
					}
					if cs.Diff {
						baseText = " -diff_base" + baseText
					} else {
						baseText = " -base" + baseText
					}
				}
				cs.Remote = remote
				if remote {
					if fe := c09SaveFaultEnv(fr, e); fe != nil {
						cs.Env = append(cs.Env, fe...)
					}
				}
				if fr.Chance(25) {
					cs.Env = append(cs.Env, "PPROF_BINARY_PATH="+fr.Pick([]string{"{TMP}/home", ":", "/nonexistent", "{TMP}/home:{TMP}/cfg", "relative/dir", "{TMP}/emptybin"}))
				}
				if i < nCLI {
					cs.Kind = "cli"
					args := c09CLIArgs(fr, types, big)
					if withBase {
						args = append(args[:1:1], c09GridArgs(fr, types)...) // the format flag + the option grid
						if fr.Chance(30) {
							args = append(args, c09CLIArgs(fr, types, false)[1:]...)
						}
					}
					cs.Args = hexAll(args)
					cs.Text = fmt.Sprintf("pprof %q%s%s <profile %s> env=%q", args, baseText, remoteText, describe(p), cs.Env)
				} else {
					cs.Kind = "script"
					var lines []string
					for j, n := 0, 5+fr.Intn(20); j < n; j++ {
						if withBase && fr.Chance(55) {
							lines = append(lines, c09CleanLine(c09GridLine(fr, types), false))
						} else {
							lines = append(lines, c09ScriptLine(fr, types, big, false))
						}
					}
					if withBase {
						cs.Args = hexAll(c09GridArgs(fr, types))
					} else if fr.Chance(30) {
						cs.Args = hexAll([]string{fr.Pick([]string{"-symbolize=none", "-nodecount=3", "-focus=main", "-tagfocus=1:", "-lines", "-sample_index=0", "-trim=false", "-call_tree"})})
					}
					cs.Lines = hexAll(lines)
					cs.Text = fmt.Sprintf("interactive script %q args=%q%s%s <profile %s> env=%q", lines, unhexAll(cs.Args), baseText, remoteText, describe(p), cs.Env)
				}
				cs.Args = c09NoNUL(cs.Args)
				work <- job{i, cs}
			}
		}()
	} else {
		c.Res.Notes = append(c.Res.Notes, "no pprof binary: CLI campaign skipped")
	}

	// ---- correspondence, in-process
	saneOK := c09Preflight(c, e, c09SaneProfile(""), nil) && c09Preflight(c, e, c09SaneProfile("samples"), nil) && c09Preflight(c, e, c09SaneProfile("nosuch"), nil)
	if !saneOK {
		only = "cli,script,web" // the plain profile cannot be loaded: in-process correspondence is impossible
		c.Disagree("C09/corr/sane-profile-crashes", "pprof crashes loading the plain correspondence profile", "all C09 correspondences", &c09Case{Kind: "tables"})
	}
	if want("tables") {
		c09Tables(c)
	}
	// ---- name adversaries through the web handlers (deterministic)
	if want("names") {
		// the granularity is given explicitly: in a long-lived process it is sticky (an earlier session may
		// have left "lines", which appends ":<line>" to every name and hides name-parsing defects)
		reqs := []string{"/flamegraph?g=functions", "/flamegraph?g=filefunctions", "/flamegraph?g=files", "/flamegraph?g=lines", "/flamegraph?g=addresses",
			"/top?g=functions", "/top?g=addresses", "/peek?f=.&g=functions", "/source?f=.", "/disasm?f=.", "/?f=.&g=functions", "/download"}
		for _, nc := range c09NameCases() {
			if nc.preflight && !c09Preflight(c, e, nc.p, nil) {
				continue
			}
			pb := c09ProfileBytes(nc.p)
			if pb == nil {
				continue
			}
			c09Web(c, &c09Case{Kind: "web", NoPre: true, Profile: hex.EncodeToString(pb), Lines: hexAll(reqs), Text: "web UI on <grid profile with " + nc.what + ">"})
			c.Res.Hit("names/web-profiles")
		}
	}

	if want("tagfilter") {
		// deterministic: every pair of unit spellings as a two-bound range (unit table drift between
		// the model's scaleUnitTable and internal/measurement shows up on every seed)
		us := []string{"", "b", "B", "kb", "kB", "KB", "mb", "MB", "gb", "tb", "pb", "bytes", "ns", "us", "ms", "s", "sec", "seconds", "hr", "hrs", "hour", "hours",
			"gcu", "GCU", "nanogcu", "microgcu", "milligcu", "kilogcu", "megagcu", "gigagcu", "teragcu", "petagcu", "count", "auto", "minimum", "x", "ss"}
		for _, u1 := range us {
			for _, u2 := range us {
				c09Tagfilter(c, "1"+u1+":2"+u2)
			}
		}
	}
	for i := 0; i < 5000*scale && want("tagfilter"); i++ {
		c09Tagfilter(c, c09TagValue(rt, i%6 == 0))
	}
	for _, f := range []string{"", "/bin/prog", "prog", "/"} {
		if !want("locate") {
			break
		}
		for _, b := range []string{"", "a", "ab", "abc", "abcdef0123"} {
			for _, n := range []int{1, 2} {
				c09Locate(c, f, b, n)
			}
		}
	}
	rm := r.Fork()
	for i := 0; i < 150*scale && want("symmode"); i++ {
		c09SymMode(c, c09SymModeGen(rm))
	}
	for i := 0; i < 1000*scale && want("session"); i++ {
		var lines []string
		for j, n := 0, 4+rs.Intn(10); j < n; j++ {
			lines = append(lines, c09ScriptLine(rs, []string{"samples", "cpu", "alloc_space"}, i%6 == 0, true))
		}
		if rs.Chance(15) {
			lines = append(lines, rs.Pick([]string{"quit", "exit", " q ", "q x"}))
			lines = append(lines, "top")
		}
		c09Session(c, rs.Pick([]string{"", "", "samples", "nosuch"}), lines)
	}

	// ---- web handlers
	for i := 0; i < 60*scale && want("web"); i++ {
		p := c09Profile(rw, false, i%4 == 1)
		pb := c09ProfileBytes(p)
		if pb == nil {
			continue
		}
		cs := &c09Case{Kind: "web", Profile: hex.EncodeToString(pb), Text: "web UI on <profile " + describe(p) + ">"}
		withBase := i%3 == 2
		if withBase {
			cs.Diff = rw.Chance(55)
			b, d := c09BaseFor(rw, p)
			if bb := c09ProfileBytes(b); bb != nil {
				cs.Bases = []string{hex.EncodeToString(bb)}
				cs.Text += fmt.Sprintf(" diff_base=%v base[%s %s]", cs.Diff, d, describe(b))
			}
		}
		var reqs []string
		for j := 0; j < 45; j++ {
			path := c09WebPaths[rw.Intn(len(c09WebPaths))]
			if withBase && rw.Chance(60) {
				reqs = append(reqs, path+"?"+c09GridQuery(rw, c09TypeNames(p)))
			} else {
				reqs = append(reqs, path+"?"+c09Query(rw, c09TypeNames(p), i%4 == 0))
			}
		}
		for j := range reqs { // the process-wide granularity is sticky: give it explicitly in half of the requests
			if !strings.Contains(reqs[j], "g=") && rw.Chance(50) {
				reqs[j] += "&g=" + rw.Pick([]string{"functions", "filefunctions", "files", "lines", "addresses"})
			}
		}
		cs.Lines = hexAll(reqs)
		c09Web(c, cs)
	}

	// ---- collect the campaign
	wg.Wait()
	close(verdicts)
	wgc.Wait()
	for _, v := range collected {
		if v.res != nil {
			c09Judge(c, v.res) // reports (and shrinks) the failing case
		}
		c.Res.Hit(v.kind + "/" + v.cls)
		c.Res.Count(v.key, v.cls == "ok" || v.cls == "report-error" || v.cls == "session-ok")
		if v.sample != "" {
			c.Res.Sample(map[string]any{"kind": v.kind, "text": v.sample, "class": v.cls})
		}
	}
}

func c09Replay(c *Ctx, e *c09Env) {
	var cs c09Case
	if err := c.LoadReplay(&cs); err != nil {
		c.Res.HarnessError = "replay: " + err.Error()
		return
	}
	switch cs.Kind {
	case "cli", "script":
		if c.Pprof == "" {
			c.Res.HarnessError = "replay needs the pprof binary"
			return
		}
		res := c09Exec(c, e, 0, &cs)
		cls := c09Judge(c, res)
		c.Res.Hit("replay/" + cs.Kind + "/" + cls)
		c.Res.Count("replay "+cs.Profile+strings.Join(cs.Args, " ")+strings.Join(cs.Lines, " "), true)
	case "tagfilter":
		c09Tagfilter(c, unhex(cs.Value))
	case "session":
		c09Session(c, unhex(cs.Value), unhexAll(cs.Lines))
	case "symmode":
		c09SymMode(c, unhex(cs.Value))
	case "locate":
		a := unhexAll(cs.Args)
		if len(a) == 2 {
			c09Locate(c, a[0], a[1], cs.N)
		}
	case "web":
		c09Web(c, &cs)
	case "completer":
		run := c09PProf(c09SaneProfile(""), []string{"-symbolize=none"}, nil)
		if run.UI.complete != nil {
			for _, l := range unhexAll(cs.Lines) {
				if pn := c09Safely(func() { run.UI.complete(l) }); pn != "" {
					c.Violation("C09/panic/completer", "auto-completer panics on "+fmt.Sprintf("%q: %s", l, pn), &cs)
				}
			}
		}
	case "tables":
		c09Tables(c)
	default:
		c.Res.HarnessError = "replay: unknown kind " + cs.Kind
	}
}
