//go:build verif

package main

// C02 — Parsing is total: an error or a valid profile for any bytes.
//
// Every case is a byte string handed to the REAL profile.ParseData under recover and a time
// budget. Direct oracle: no panic, no hang; an accepted profile passes CheckValid, satisfies
// the validity contract spelled out in the property, survives Write/Copy/Compact and every
// text report. Correspondence: Go ParseUncompressed / ParseData against the Lean model
// (`codec.parse`, `c02.dispatch`: protobuf path, validity gate, binary legacy CPU parser).

import (
	"bytes"
	"compress/gzip"
	"encoding/hex"
	"encoding/json"
	"fmt"
	"io"
	"os"
	"path/filepath"
	"runtime/debug"
	"strconv"
	"strings"
	"time"

	"github.com/google/pprof/profile"
)

func init() { register("C02", runC02) }

type c02Case struct {
	Bytes   string   `json:"bytes"` // hex of the input of profile.ParseData
	Stream  string   `json:"stream,omitempty"`
	CLI     bool     `json:"cli,omitempty"`     // also run the pprof binary with every report command
	Profile string   `json:"profile,omitempty"` // canonical form of a VALID profile: its written form is the input (Bytes empty)
	Cmds    []string `json:"cmds,omitempty"`    // or with exactly these commands (flags separated by \x1f, {file} = the input)
}

const (
	c02ParseBudget = 2 * time.Second // per input of at most 64 KiB
	c02PostBudget  = 8 * time.Second // Write+Copy+Compact+all reports of one accepted profile
	c02MaxModel    = 48 << 10        // inputs above this size are not sent to the model
)

// c02Timed runs f in its own goroutine under recover; a goroutine that does not come back
// within d is reported as a timeout (it cannot be killed and is left behind).
func c02Timed(d time.Duration, f func()) (panicked, stack string, timedOut bool) {
	type res struct{ pn, st string }
	ch := make(chan res, 1)
	go func() {
		defer func() {
			if e := recover(); e != nil {
				ch <- res{fmt.Sprint(e), string(debug.Stack())}
				return
			}
			ch <- res{}
		}()
		f()
	}()
	t := time.NewTimer(d)
	defer t.Stop()
	select {
	case r := <-ch:
		return r.pn, r.st, false
	case <-t.C:
		return "", "", true
	}
}

// c02Outcome is everything observed about one input on the real code.
type c02Outcome struct {
	sig      string // "" = the direct oracle holds
	what     string
	accepted bool
	errText  string
	canon    string // canonical profile when accepted
	pb       []byte // WriteUncompressed of the accepted profile
	p        *profile.Profile
	puErr    string // error of ParseUncompressed on the (gunzipped) input, "" = ok or not run
	puOK     bool
	cpu      bool     // the model recognised a binary legacy CPU profile
	reports  []string // per report format: "<name>:ok" or "<name>:error"
}

// c02Contract checks the validity contract in the words of the property.
func c02Contract(p *profile.Profile) string {
	locPtr := map[*profile.Location]int{}
	locID := map[uint64]int{}
	for _, l := range p.Location {
		if l == nil {
			return "nil entry in Location table"
		}
		locPtr[l]++
		locID[l.ID]++
	}
	mapPtr := map[*profile.Mapping]int{}
	mapID := map[uint64]int{}
	for _, m := range p.Mapping {
		if m == nil {
			return "nil entry in Mapping table"
		}
		mapPtr[m]++
		mapID[m.ID]++
	}
	fnPtr := map[*profile.Function]int{}
	fnID := map[uint64]int{}
	for _, f := range p.Function {
		if f == nil {
			return "nil entry in Function table"
		}
		fnPtr[f]++
		fnID[f.ID]++
	}
	for i, s := range p.Sample {
		if s == nil {
			return "nil sample"
		}
		if len(s.Value) != len(p.SampleType) {
			return fmt.Sprintf("sample %d has %d values for %d sample types", i, len(s.Value), len(p.SampleType))
		}
		for _, l := range s.Location {
			if l == nil {
				return fmt.Sprintf("sample %d references a nil location", i)
			}
			if l.ID == 0 || locPtr[l] != 1 || locID[l.ID] != 1 {
				return fmt.Sprintf("sample %d references location id %d which exists %d times in the table", i, l.ID, locPtr[l])
			}
		}
	}
	for _, l := range p.Location {
		if l.ID == 0 || locID[l.ID] != 1 {
			return fmt.Sprintf("location id %d is zero or not unique", l.ID)
		}
		if m := l.Mapping; m != nil && (m.ID == 0 || mapPtr[m] != 1 || mapID[m.ID] != 1) {
			return fmt.Sprintf("location %d references mapping id %d which exists %d times in the table", l.ID, m.ID, mapPtr[m])
		}
		for _, ln := range l.Line {
			f := ln.Function
			if f == nil {
				return fmt.Sprintf("location %d has a line with nil function", l.ID)
			}
			if f.ID == 0 || fnPtr[f] != 1 || fnID[f.ID] != 1 {
				return fmt.Sprintf("location %d references function id %d which exists %d times in the table", l.ID, f.ID, fnPtr[f])
			}
		}
	}
	for _, m := range p.Mapping {
		if m.ID == 0 || mapID[m.ID] != 1 {
			return fmt.Sprintf("mapping id %d is zero or not unique", m.ID)
		}
	}
	for _, f := range p.Function {
		if f.ID == 0 || fnID[f.ID] != 1 {
			return fmt.Sprintf("function id %d is zero or not unique", f.ID)
		}
	}
	return ""
}

// c02Observe runs the real code on b and evaluates the direct oracle.
func c02Observe(b []byte, reports bool) *c02Outcome { return c02observe(b, reports, false, 1, false) }

// c02ObserveFull additionally crosses every report kind with every numeric option assignment.
func c02ObserveFull(b []byte) *c02Outcome { return c02observe(b, true, true, 1, false) }

func c02observe(b []byte, reports, full bool, mult int, retried bool) *c02Outcome {
	o := &c02Outcome{}
	var p *profile.Profile
	var err error
	budget := c02ParseBudget * time.Duration(1+len(b)/(64<<10))
	pn, st, to := c02Timed(budget, func() { p, err = profile.ParseData(b) })
	if to { // rule out a stall of the test machine: once more, with three times the budget
		time.Sleep(200 * time.Millisecond)
		var p2 *profile.Profile
		var err2 error
		pn, st, to = c02Timed(3*budget, func() { p2, err2 = profile.ParseData(b) })
		p, err = p2, err2
	}
	switch {
	case to:
		o.sig, o.what = "C02/parse/timeout", fmt.Sprintf("profile.ParseData did not return within %v on a %d byte input", budget, len(b))
		return o
	case pn != "":
		o.sig, o.what = "C02/parse/panic/"+c02PanicWhere(st), "profile.ParseData panics: "+pn
		return o
	case err != nil:
		o.errText = err.Error()
		return o
	case p == nil:
		o.sig, o.what = "C02/parse/nil-profile", "profile.ParseData returned neither an error nor a profile"
		return o
	}
	o.accepted, o.p = true, p
	fail := func(sig, what string) { // first failure wins
		if o.sig == "" {
			o.sig, o.what = sig, what
		}
	}
	postBudget := time.Duration(mult) * c02PostBudget * time.Duration(1+len(b)/(64<<10))
	pn, st, to = c02Timed(postBudget, func() {
		if e := p.CheckValid(); e != nil {
			fail("C02/accepted/checkvalid", "accepted profile fails CheckValid: "+e.Error())
			return
		}
		if w := c02Contract(p); w != "" {
			fail("C02/accepted/contract", "accepted profile violates the validity contract: "+w)
			return
		}
		o.canon = Canon(p)
		// Write
		var buf bytes.Buffer
		if pn := c02Safely(func() { p.WriteUncompressed(&buf) }); pn != "" {
			fail("C02/write/panic", "WriteUncompressed of an accepted profile panics: "+pn)
			return
		}
		o.pb = buf.Bytes()
		if q, e := profile.ParseData(o.pb); e != nil {
			fail("C02/write/unparsable", "the written form of an accepted profile is rejected: "+e.Error())
		} else if q.CheckValid() != nil {
			fail("C02/write/invalid", "the written form of an accepted profile parses to an invalid profile")
		}
		var zbuf bytes.Buffer
		if pn := c02Safely(func() { p.Write(&zbuf) }); pn != "" {
			fail("C02/writegz/panic", "Write of an accepted profile panics: "+pn)
		} else if _, e := profile.ParseData(zbuf.Bytes()); e != nil {
			fail("C02/writegz/unparsable", "the gzip-written form of an accepted profile is rejected: "+e.Error())
		}
		// Copy
		var cp *profile.Profile
		if pn := c02Safely(func() { cp = p.Copy() }); pn != "" {
			fail("C02/copy/panic", "Copy of an accepted profile panics: "+pn)
		} else if cp == nil || cp.CheckValid() != nil || c02Contract(cp) != "" {
			fail("C02/copy/invalid", "Copy of an accepted profile is not valid")
		}
		// Compact = Merge of itself
		var cm *profile.Profile
		if pn := c02Safely(func() { cm = p.Compact() }); pn != "" {
			fail("C02/compact/panic", "Compact of an accepted profile panics: "+pn)
		} else if cm == nil {
			fail("C02/compact/nil", "Compact of an accepted profile returns nil (Merge of the profile with itself failed)")
		} else if e := cm.CheckValid(); e != nil {
			fail("C02/compact/invalid", "Compact of an accepted profile is not valid: "+e.Error())
		} else if w := c02Contract(cm); w != "" {
			fail("C02/compact/invalid", "Compact of an accepted profile violates the contract: "+w)
		}
		if pn := c02Safely(func() { _ = p.String() }); pn != "" {
			fail("C02/string/panic", "Profile.String of an accepted profile panics: "+pn)
		}
		if len(b) > 128<<10 { // very large boundary inputs: written / copied / compacted only
			return
		}
		// everything the driver does to a freshly parsed profile before a report
		if sg, w := c02Pipeline(o.pb); sg != "" {
			fail("C02/driver-pipeline/"+sg, w)
		}
		if !reports {
			return
		}
		for _, f := range c02Formats {
			var st string
			pn := func() (pn string) {
				defer func() {
					if e := recover(); e != nil {
						pn, st = fmt.Sprint(e), string(debug.Stack())
					}
				}()
				if e := c02Report(o.pb, f, c02ROpt{}); e != nil { // an error return is fine, a panic is not
					o.reports = append(o.reports, f.name+":error")
				} else {
					o.reports = append(o.reports, f.name+":ok")
				}
				return ""
			}()
			if pn != "" {
				fail("C02/report/"+f.name+"/panic/"+c02PanicWhere(st), "report "+f.name+" of an accepted profile panics: "+pn)
			}
		}
		// report kinds × numeric options (-mean, -divide_by, -sample_index, -drop_negative, -unit)
		for _, pk := range c02ReportPicks(o.pb, full) {
			var st string
			pn := func() (pn string) {
				defer func() {
					if e := recover(); e != nil {
						pn, st = fmt.Sprint(e), string(debug.Stack())
					}
				}()
				if e := c02Report(o.pb, pk.f, pk.o); e != nil {
					o.reports = append(o.reports, "opt:"+pk.o.name+":error")
				} else {
					o.reports = append(o.reports, "opt:"+pk.o.name+":ok")
				}
				return ""
			}()
			if pn != "" {
				fail("C02/report-options/panic/"+c02PanicWhere(st), "report "+pk.f.name+" with numeric options ["+pk.o.name+"] of an accepted profile panics: "+pn)
			}
		}
	})
	if to && !retried {
		// rule out a stall of the test machine: the whole observation once more with a larger budget
		time.Sleep(500 * time.Millisecond)
		return c02observe(b, reports, full, 4, true)
	}
	switch {
	case to:
		fail("C02/accepted/timeout", fmt.Sprintf("Write/Copy/Compact/reports of an accepted profile did not finish within %v", postBudget))
	case pn != "":
		fail("C02/accepted/panic/"+c02PanicWhere(st), "post-parse processing panics: "+pn)
	}
	return o
}

// c02Gunzip mirrors the gzip sniffing of ParseData.
func c02Gunzip(b []byte) (data []byte, wasGz bool, ok bool) {
	if len(b) >= 2 && b[0] == 0x1f && b[1] == 0x8b {
		gz, err := gzip.NewReader(bytes.NewBuffer(b))
		if err == nil {
			data, err = io.ReadAll(io.LimitReader(gz, 8<<20))
		}
		return data, true, err == nil
	}
	return b, false, true
}

type c02tok struct {
	t []string
	i int
}

func (t *c02tok) next() string {
	if t.i >= len(t.t) {
		return ""
	}
	t.i++
	return t.t[t.i-1]
}
func (t *c02tok) n() int { v, _ := strconv.Atoi(t.next()); return v }

type c02ModelSample struct {
	values []string
	addrs  []string
}

// c02ParseCPUReply decodes "<flavour> <word> <period> <n> {<nv> v… <na> a…} <rest>".
func c02ParseCPUReply(s string) (flavour, period string, samples []c02ModelSample, ok bool) {
	t := &c02tok{t: strings.Fields(s)}
	flavour = t.next()
	t.next() // word kind
	period = t.next()
	n := t.n()
	if n < 0 || n > 1<<20 {
		return "", "", nil, false
	}
	for i := 0; i < n; i++ {
		var ms c02ModelSample
		for j, m := 0, t.n(); j < m; j++ {
			ms.values = append(ms.values, t.next())
		}
		for j, m := 0, t.n(); j < m; j++ {
			ms.addrs = append(ms.addrs, t.next())
		}
		samples = append(samples, ms)
	}
	rest := t.next()
	return flavour, period, samples, rest != "" && t.i == len(t.t)
}

// c02Correspond compares the real code with the Lean model on input b (raw is what was handed
// to ParseData; b is raw after gzip decompression). Returns a disagreement signature or "".
func c02Correspond(c *Ctx, raw, b []byte, wasGz bool, o *c02Outcome) (sig, what, broken string) {
	if len(b) > c02MaxModel || c.Drv == nil {
		c.Res.Hit("model:skipped-size")
		return
	}
	htok := hexTok(b)
	// (1) ParseUncompressed ~ Codec.parseUncompressed
	if len(b) > 0 {
		var q *profile.Profile
		var qerr error
		if pn := c02Safely(func() { q, qerr = profile.ParseUncompressed(b) }); pn == "" {
			goRep := "err"
			if qerr == nil {
				goRep = "ok " + Canon(q)
				o.puOK = true
			} else {
				o.puErr = qerr.Error()
			}
			c.Res.ModelCompared++
			mp := c.Drv.Ask("codec.parse " + htok)
			if mp != goRep {
				return "C02/model-parseUncompressed/go=" + c02FirstWord(goRep) + ",model=" + c02FirstWord(mp),
					"ParseUncompressed and the model disagree: go=" + c02Trunc(goRep) + " model=" + c02Trunc(mp),
					"correspondence Codec.parseUncompressed ~ profile.ParseUncompressed (theorems unmarshal_never_panics, postDecode_never_panics, parse_ok_* are about the model)"
			}
			c.Res.Hit("model:parseUncompressed-" + c02FirstWord(goRep))
		}
	}
	// (2) ParseData ~ Parse.dispatch
	c.Res.ModelCompared++
	md := c.Drv.Ask("c02.dispatch " + htok)
	kind := c02FirstWord(md)
	c.Res.Hit("model:dispatch-" + kind)
	const brokenD = "correspondence Parse.dispatch ~ profile.ParseData (theorems parse_ok_valid_or_rejected, parseCPU_never_panics, dispatch_never_panics are about the model)"
	switch kind {
	case "proto":
		if !o.accepted {
			return "C02/model-dispatch/proto-accepted-go-rejected", "the model accepts (valid protobuf profile) but ParseData fails: " + c02Trunc(o.errText), brokenD
		}
		if o.canon != "" && md != "proto "+o.canon {
			return "C02/model-dispatch/proto-" + c02DiffField(o.canon, strings.TrimPrefix(md, "proto ")), "ParseData and the model return different profiles", brokenD
		}
	case "rejected":
		if o.accepted {
			return "C02/model-dispatch/rejected-go-accepted", "the model rejects (parse error or validity gate) but ParseData accepts", brokenD
		}
	case "cpu":
		flavour, period, ms, ok := c02ParseCPUReply(strings.TrimPrefix(md, "cpu "))
		if !ok {
			return "C02/model-dispatch/bad-reply", "unparsable model reply: " + c02Trunc(md), brokenD
		}
		c.Res.Hit("model:cpu-" + flavour)
		o.cpu = true
		if !o.accepted {
			if flavour == "cpp" && len(b) < 60000 {
				// text tail: only bufio.Scanner's 64 KiB token limit can make ParseMemoryMap fail
				return "C02/model-dispatch/cpu-go-rejected", "the model recognises a binary CPU profile but ParseData fails: " + c02Trunc(o.errText), brokenD
			}
			c.Res.Hit("model:cpu-java-text-rejected")
			return
		}
		p := o.p
		if strconv.FormatInt(p.Period, 10) != period {
			return "C02/model-dispatch/cpu-period", fmt.Sprintf("period: go=%d model=%s", p.Period, period), brokenD
		}
		if len(p.Sample) != len(ms) {
			return "C02/model-dispatch/cpu-sample-count", fmt.Sprintf("samples: go=%d model=%d", len(p.Sample), len(ms)), brokenD
		}
		for i, s := range p.Sample {
			if len(s.Value) != len(ms[i].values) {
				return "C02/model-dispatch/cpu-values", fmt.Sprintf("sample %d value count", i), brokenD
			}
			for j, v := range s.Value {
				if strconv.FormatInt(v, 10) != ms[i].values[j] {
					return "C02/model-dispatch/cpu-values", fmt.Sprintf("sample %d value %d: go=%d model=%s", i, j, v, ms[i].values[j]), brokenD
				}
			}
			if len(s.Location) != len(ms[i].addrs) {
				return "C02/model-dispatch/cpu-depth", fmt.Sprintf("sample %d depth: go=%d model=%d", i, len(s.Location), len(ms[i].addrs)), brokenD
			}
			if flavour == "cpp" {
				for j, l := range s.Location {
					if strconv.FormatUint(l.Address, 10) != ms[i].addrs[j] {
						return "C02/model-dispatch/cpu-address", fmt.Sprintf("sample %d frame %d: go=%d model=%s", i, j, l.Address, ms[i].addrs[j]), brokenD
					}
				}
			}
		}
		c.Res.Hit("model:cpu-compared-samples")
	case "text":
		// text legacy parsers: not modelled (harness-only part of the property). But the model says
		// the binary CPU parser does NOT recognise the input, so an accepted profile cannot be the
		// CPU parser's (the only one producing the sample types samples/count + cpu/nanoseconds).
		if o.accepted && len(o.p.SampleType) == 2 && o.p.SampleType[0].Type == "samples" && o.p.SampleType[0].Unit == "count" &&
			o.p.SampleType[1].Type == "cpu" && o.p.SampleType[1].Unit == "nanoseconds" {
			return "C02/model-dispatch/text-go-cpu", "ParseData returns a binary legacy CPU profile for an input the model's parseCPU does not recognise (header or nstk bound)", brokenD
		}
	default: // panic …, err, drv-dead, bad-op
		return "C02/model-dispatch/" + kind, "unexpected model reply: " + c02Trunc(md), brokenD
	}
	return
}

// c02Shrink: byte-level delta debugging. keep(b) says whether b still fails the same way.
func c02Shrink(b []byte, maxEvals int, keep func([]byte) bool) []byte {
	cur := append([]byte(nil), b...)
	evals := 0
	try := func(cand []byte) bool {
		if evals >= maxEvals {
			return false
		}
		evals++
		return keep(cand)
	}
	for chunk := len(cur) / 2; chunk >= 1; {
		removed := false
		for i := 0; i+chunk <= len(cur) && evals < maxEvals; {
			cand := append(append([]byte(nil), cur[:i]...), cur[i+chunk:]...)
			if try(cand) {
				cur, removed = cand, true
			} else {
				i += chunk
			}
		}
		if !removed || chunk > len(cur)/2 {
			chunk /= 2
		}
		if chunk > len(cur) {
			chunk = len(cur) / 2
		}
	}
	// simplify surviving bytes to 0
	for i := 0; i < len(cur) && i < 256 && evals < maxEvals; i++ {
		if cur[i] != 0 {
			cand := append([]byte(nil), cur...)
			cand[i] = 0
			if try(cand) {
				cur = cand
			}
		}
	}
	return cur
}

func c02WriteInflight(c *Ctx, cs c02Case) {
	doc := map[string]any{"property": "C02", "kind": "inflight", "signature": "C02/harness-died", "what": "the harness process died while this input was being processed (unrecoverable runtime error)", "seed": c.Seed, "case": cs}
	b, _ := json.Marshal(doc)
	os.WriteFile(filepath.Join(c.Dir, "inflight.json"), b, 0o644)
}

// c02Check runs one case completely and reports findings. Returns the outcome.
func c02Check(c *Ctx, raw []byte, stream string, cli bool) *c02Outcome {
	cs := c02Case{Bytes: hex.EncodeToString(raw), Stream: stream, CLI: cli}
	c02WriteInflight(c, cs)
	observe := func(b []byte) *c02Outcome {
		if strings.HasPrefix(stream, "v:") { // degenerate-value stream: full report × option cross
			return c02ObserveFull(b)
		}
		return c02Observe(b, true)
	}
	o := observe(raw)
	if o.sig != "" {
		// shrink the bytes while the same failure (same signature) reproduces
		maxEvals := 1500
		if strings.Contains(o.sig, "timeout") {
			maxEvals = 12
		}
		sig := o.sig
		if c.Res.sigSeen["violation"+sig] { // already reported with a shrunk replay
			c.Res.Hit("violation:" + o.sig)
			return o
		}
		small := c02Shrink(raw, maxEvals, func(cand []byte) bool { return observe(cand).sig == sig })
		c.Violation(o.sig, o.what, c02Case{Bytes: hex.EncodeToString(small), Stream: stream, CLI: false})
		c.Res.Hit("violation:" + o.sig)
		return o
	}
	b, wasGz, gzOK := c02Gunzip(raw)
	if wasGz {
		if gzOK {
			c.Res.Hit("gzip:decodes")
		} else {
			c.Res.Hit("gzip:corrupt")
			if o.accepted {
				c.Violation("C02/gzip/corrupt-accepted", "ParseData accepts an input whose gzip stream is corrupt", cs)
			}
		}
	}
	if gzOK {
		if sig, what, broken := c02Correspond(c, raw, b, wasGz, o); sig != "" {
			small := raw
			if !wasGz {
				small = c02Shrink(raw, 400, func(cand []byte) bool {
					oc := c02Observe(cand, false)
					if oc.sig != "" {
						return false
					}
					s2, _, _ := c02Correspond(&Ctx{Drv: c.Drv, Res: newResult("scratch")}, cand, cand, false, oc)
					return s2 == sig
				})
			}
			c.Disagree(sig, what, broken, c02Case{Bytes: hex.EncodeToString(small), Stream: stream})
		}
	}
	if cli && o.accepted {
		c02CLI(c, raw, stream, c02CLICommands)
	}
	return o
}

// c02CLI runs the real pprof binary on an accepted input.
func c02CLI(c *Ctx, raw []byte, stream string, cmds []string) {
	for _, r := range c02RunCLI(c, raw, cmds, 20*time.Second) {
		c.Res.Hit("cli:runs")
		shown := strings.ReplaceAll(r.cmd, "\x1f", " ")
		if r.timeout {
			// rule out a stall of the test machine: once more, alone, with a generous limit
			c.Res.Hit("cli:timeout-retried")
			time.Sleep(time.Second)
			if rr := c02RunCLI(c, raw, []string{r.cmd}, 120*time.Second); len(rr) == 1 {
				r = rr[0]
			}
		}
		switch {
		case r.timeout:
			c.Violation("C02/cli/timeout/"+c02FirstWord(shown), "pprof "+shown+" on an accepted profile did not finish within 120s (after a first attempt limited to 20s)", c02Case{Bytes: hex.EncodeToString(raw), Stream: stream, Cmds: []string{r.cmd}})
		case r.crashed:
			c.Res.Hit("cli:crash")
			c.Violation("C02/cli/panic/"+r.where, "pprof "+shown+" crashes on a profile the parser accepts: "+r.stderr, c02Case{Bytes: hex.EncodeToString(raw), Stream: stream, Cmds: []string{r.cmd}})
		}
	}
}

func c02ErrKind(e string) string {
	for _, k := range []string{"unrecognized profile format", "malformed profile format", "too much data", "bad varint", "type mismatch", "not enough data",
		"unknown wire type", "concatenated profiles", "string_table[0]", "empty input file", "decompressing profile", "missing sample type", "mismatch: sample has",
		"nil location", "reserved ID=0", "reserved id=0", "multiple mappings", "multiple functions", "multiple locations", "inconsistent mapping", "nil function", "inconsistent function",
		"malformed sample", "failed to parse", "parsing sample", "malformed profile:", "token too long"} {
		if strings.Contains(e, k) {
			return k
		}
	}
	return "other"
}

// c02CheckGenerated checks a VALID generated profile: what WriteUncompressed emits for it must be
// accepted by ParseData and pass the whole oracle ("written" clause, encoder side); and the
// encoding of the same profile by the Lean model's encoder — bytes that do not depend on the Go
// encoder — is an input the parser accepts, whose result must Write, Copy, Compact, re-parse
// ("a profile returned by the parser can always be written, copied").
func c02CheckGenerated(c *Ctx, p *profile.Profile, stream string) *c02Outcome {
	canon := Canon(p)
	raw, pn := c02WriteU(p)
	rejected := func(q *profile.Profile) (bool, string) {
		b, pn := c02WriteU(q)
		if pn != "" {
			return true, "WriteUncompressed panics: " + pn
		}
		var err error
		if pn := c02Safely(func() { _, err = profile.ParseData(b) }); pn != "" {
			return false, "" // a parser panic is reported by the byte-level path
		}
		if err != nil {
			return true, "ParseData rejects the written bytes: " + err.Error()
		}
		return false, ""
	}
	if bad, why := rejected(p); bad {
		// shrink the profile: drop samples, then table entries, while the failure persists
		q, _ := ParseCanon(canon)
		for i := 0; q != nil && i < len(q.Sample); {
			cand, _ := ParseCanon(Canon(q))
			cand.Sample = append(cand.Sample[:i:i], cand.Sample[i+1:]...)
			if b, _ := rejected(cand); b {
				q = cand
			} else {
				i++
			}
		}
		if q == nil {
			q = p
		}
		c.Violation("C02/write/generated-valid-rejected", "the written form of a valid profile ("+stream+") is not accepted back: "+c02Trunc(why), c02Case{Profile: Canon(q), Stream: stream})
	}
	_ = pn
	o := &c02Outcome{sig: "C02/write/generated-valid-rejected"}
	if bad, _ := rejected(p); !bad {
		o = c02Check(c, raw, stream, false)
	}
	// the same profile encoded by the model: an accepted INPUT that must survive Write and Copy
	if c.Drv != nil && len(canon) < 400<<10 {
		if ms := c.Drv.Ask("codec.serialize " + canon); strings.HasPrefix(ms, "ok x") {
			if mb, err := hex.DecodeString(ms[4:]); err == nil && !bytes.Equal(mb, raw) {
				c.Res.Hit("z-model-bytes:differ-from-go")
				c02Check(c, mb, stream+":model-bytes", false)
			} else if err == nil {
				c.Res.Hit("z-model-bytes:identical")
			}
		}
	}
	return o
}

// c02BigBoundary: light oracle for multi-megabyte valid profiles — written, parsed back,
// written again, copied; nothing that is super-linear in the stack depth (no Compact, String,
// reports, canonical text, model). Runs synchronously under recover; an input that cannot be
// processed within the budget is SKIPPED (noted), never reported: the promptness clause is
// stated for inputs of at most 64 KiB.
func c02BigBoundary(c *Ctx, bc c02BoundaryCase) {
	start := time.Now()
	stream := "z:" + bc.name
	report := func(sig, what string) {
		cs := c02Case{Stream: stream}
		if canon := Canon(bc.p); len(canon) < 64<<20 {
			cs.Profile = canon
		}
		c.Violation(sig, what+" ("+stream+")", cs)
	}
	var raw, raw2 []byte
	var q, cp *profile.Profile
	var err error
	if pn := c02Safely(func() { raw, _ = c02WriteU(bc.p) }); pn != "" || raw == nil {
		report("C02/write/panic-on-generated", "WriteUncompressed panics on a valid generated profile: "+pn)
		return
	}
	if pn := c02Safely(func() { q, err = profile.ParseData(raw) }); pn != "" {
		report("C02/parse/panic/big", "ParseData panics on the written form of a valid profile: "+pn)
		return
	}
	if err != nil {
		report("C02/write/generated-valid-rejected", "the written form of a valid profile is not accepted back: "+c02Trunc(err.Error()))
		return
	}
	if time.Since(start) > 60*time.Second {
		c.Res.Hit("z-big:skipped-slow")
		c.Res.Notes = append(c.Res.Notes, fmt.Sprintf("big boundary case %s skipped after parse: %v elapsed on a %d byte input", bc.name, time.Since(start).Round(time.Second), len(raw)))
		return
	}
	if pn := c02Safely(func() { raw2, _ = c02WriteU(q) }); pn != "" {
		report("C02/write/panic", "WriteUncompressed of an accepted profile panics: "+pn)
		return
	}
	if _, e := profile.ParseData(raw2); e != nil {
		report("C02/write/unparsable", "the written form of an accepted profile is rejected: "+c02Trunc(e.Error()))
		return
	}
	if pn := c02Safely(func() { cp = q.Copy() }); pn != "" {
		report("C02/copy/panic", "Copy of an accepted profile panics: "+pn)
		return
	}
	if cp == nil || cp.CheckValid() != nil {
		report("C02/copy/invalid", "Copy of an accepted profile is not valid")
		return
	}
	c.Res.Hit("z-big:" + bc.name)
	c.Res.Count(fmt.Sprintf("z-big:%s:%d", bc.name, len(raw)), true)
}
