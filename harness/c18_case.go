//go:build verif

package main

// C18 — replay-case types: a small self-contained description of a profile (or of a graph handed
// to graph.ComposeDot directly) in which EVERY string position is an arbitrary byte string.

import (
	"encoding/hex"
	"encoding/json"
	"strings"
	"unicode/utf8"

	"github.com/google/pprof/profile"
)

// c18s is a byte string that survives JSON: valid UTF-8 is written as a JSON string, anything
// else as {"hex": "…"}.
type c18s string

func (b c18s) MarshalJSON() ([]byte, error) {
	s := string(b)
	if utf8.ValidString(s) && !strings.ContainsRune(s, utf8.RuneError) {
		return json.Marshal(s)
	}
	return json.Marshal(map[string]string{"hex": hex.EncodeToString([]byte(s))})
}

func (b *c18s) UnmarshalJSON(d []byte) error {
	var s string
	if err := json.Unmarshal(d, &s); err == nil {
		*b = c18s(s)
		return nil
	}
	var m map[string]string
	if err := json.Unmarshal(d, &m); err != nil {
		return err
	}
	raw, err := hex.DecodeString(m["hex"])
	*b = c18s(raw)
	return err
}

type c18Func struct {
	Name    c18s  `json:"name"`
	SysName c18s  `json:"sysname,omitempty"`
	File    c18s  `json:"file,omitempty"`
	Start   int64 `json:"start,omitempty"`
}

type c18Map struct {
	File    c18s   `json:"file,omitempty"`
	BuildID c18s   `json:"buildid,omitempty"`
	Start   uint64 `json:"start"`
	Limit   uint64 `json:"limit"`
}

type c18Line struct {
	Func int   `json:"f"` // index into Funcs
	Line int64 `json:"l,omitempty"`
}

type c18Loc struct {
	Addr    uint64    `json:"addr"`
	Mapping int       `json:"m"` // index+1 into Mappings, 0 = none
	Lines   []c18Line `json:"lines"`
}

type c18KV struct {
	K c18s   `json:"k"`
	V []c18s `json:"v"`
}

type c18Num struct {
	K c18s    `json:"k"`
	V []int64 `json:"v"`
	U []c18s  `json:"u,omitempty"`
}

type c18Sample struct {
	Stack  []int    `json:"stack"` // indices into Locs, leaf first
	Values []int64  `json:"values"`
	Labels []c18KV  `json:"labels,omitempty"`
	Nums   []c18Num `json:"nums,omitempty"`
}

type c18Prof struct {
	Types    [][2]c18s   `json:"types"`
	Funcs    []c18Func   `json:"funcs"`
	Maps     []c18Map    `json:"maps,omitempty"`
	Locs     []c18Loc    `json:"locs"`
	Samples  []c18Sample `json:"samples"`
	Comments []c18s      `json:"comments,omitempty"`
	Period   [2]c18s     `json:"period,omitempty"`
	Duration int64       `json:"duration,omitempty"`
}

// build turns the description into a valid *profile.Profile (dense ids 1..n).
func (d *c18Prof) build() *profile.Profile {
	p := &profile.Profile{Period: 1, DurationNanos: d.Duration}
	for _, t := range d.Types {
		p.SampleType = append(p.SampleType, &profile.ValueType{Type: string(t[0]), Unit: string(t[1])})
	}
	p.PeriodType = &profile.ValueType{Type: string(d.Period[0]), Unit: string(d.Period[1])}
	for i, f := range d.Funcs {
		p.Function = append(p.Function, &profile.Function{ID: uint64(i + 1), Name: string(f.Name),
			SystemName: string(f.SysName), Filename: string(f.File), StartLine: f.Start})
	}
	for i, m := range d.Maps {
		p.Mapping = append(p.Mapping, &profile.Mapping{ID: uint64(i + 1), Start: m.Start, Limit: m.Limit,
			File: string(m.File), BuildID: string(m.BuildID), HasFunctions: true})
	}
	for i, l := range d.Locs {
		loc := &profile.Location{ID: uint64(i + 1), Address: l.Addr}
		if l.Mapping > 0 && l.Mapping <= len(p.Mapping) {
			loc.Mapping = p.Mapping[l.Mapping-1]
		}
		for _, ln := range l.Lines {
			if ln.Func >= 0 && ln.Func < len(p.Function) {
				loc.Line = append(loc.Line, profile.Line{Function: p.Function[ln.Func], Line: ln.Line})
			}
		}
		p.Location = append(p.Location, loc)
	}
	for _, s := range d.Samples {
		smp := &profile.Sample{}
		for _, li := range s.Stack {
			if li >= 0 && li < len(p.Location) {
				smp.Location = append(smp.Location, p.Location[li])
			}
		}
		smp.Value = make([]int64, len(p.SampleType))
		copy(smp.Value, s.Values)
		for _, kv := range s.Labels {
			if smp.Label == nil {
				smp.Label = map[string][]string{}
			}
			for _, v := range kv.V {
				smp.Label[string(kv.K)] = append(smp.Label[string(kv.K)], string(v))
			}
		}
		for _, n := range s.Nums {
			if smp.NumLabel == nil {
				smp.NumLabel = map[string][]int64{}
			}
			k := string(n.K)
			if len(n.U) == len(n.V) && len(n.U) > 0 || smp.NumUnit[k] != nil {
				if smp.NumUnit == nil {
					smp.NumUnit = map[string][]string{}
				}
				// units stay aligned with the values of the key (documented contract of NumUnit)
				for len(smp.NumUnit[k]) < len(smp.NumLabel[k]) {
					smp.NumUnit[k] = append(smp.NumUnit[k], "")
				}
				for i := range n.V {
					u := ""
					if i < len(n.U) {
						u = string(n.U[i])
					}
					smp.NumUnit[k] = append(smp.NumUnit[k], u)
				}
			}
			smp.NumLabel[k] = append(smp.NumLabel[k], n.V...)
		}
		p.Sample = append(p.Sample, smp)
	}
	for _, c := range d.Comments {
		p.Comments = append(p.Comments, string(c))
	}
	return p
}

// options of a report run (CLI flags or their in-process equivalents)
type c18Opts struct {
	CallTree    bool   `json:"call_tree,omitempty"`
	Gran        string `json:"granularity,omitempty"` // functions|lines|files|addresses|filefunctions
	TagShow     string `json:"tagshow,omitempty"`
	TagHide     string `json:"taghide,omitempty"`
	TagLeaf     string `json:"tagleaf,omitempty"`
	TagRoot     string `json:"tagroot,omitempty"`
	NodeCount   int    `json:"nodecount,omitempty"`
	SampleIndex int    `json:"sample_index,omitempty"`
	Compact     bool   `json:"compact_labels,omitempty"`
	KeepAll     bool   `json:"keep_all,omitempty"` // nodefraction=0 edgefraction=0
	Unit        string `json:"unit,omitempty"`     // -unit= / report.Options.OutputUnit ("" = minimum)
	DropNeg     bool   `json:"drop_negative,omitempty"`
}

// a graph handed to graph.ComposeDot directly
type c18Tag struct {
	Name  c18s  `json:"name"`
	Unit  c18s  `json:"unit,omitempty"`
	Value int64 `json:"value,omitempty"`
	Flat  int64 `json:"flat"`
	Cum   int64 `json:"cum"`
}

type c18NumTags struct {
	Key  c18s     `json:"key"` // "" or the name of a label tag
	Tags []c18Tag `json:"tags"`
}

type c18Node struct {
	Name    c18s         `json:"name"`
	Orig    c18s         `json:"orig,omitempty"`
	File    c18s         `json:"file,omitempty"`
	Objfile c18s         `json:"objfile,omitempty"`
	Addr    uint64       `json:"addr,omitempty"`
	Line    int          `json:"line,omitempty"`
	Col     int          `json:"col,omitempty"`
	Flat    int64        `json:"flat"`
	Cum     int64        `json:"cum"`
	Tags    []c18Tag     `json:"tags,omitempty"`
	Nums    []c18NumTags `json:"nums,omitempty"`
}

type c18Edge struct {
	Src      int   `json:"src"`
	Dst      int   `json:"dst"`
	Weight   int64 `json:"w"`
	Residual bool  `json:"residual,omitempty"`
	Inline   bool  `json:"inline,omitempty"`
}

type c18Graph struct {
	Title  c18s      `json:"title,omitempty"`
	Labels []c18s    `json:"labels,omitempty"`
	Unit   c18s      `json:"unit,omitempty"` // FormatValue(v) = decimal(v) + Unit
	Total  int64     `json:"total"`
	Nodes  []c18Node `json:"nodes"`
	Edges  []c18Edge `json:"edges,omitempty"`
	// the last Unlisted nodes are NOT put into Graph.Nodes (edges may still point at them, as
	// happens when graph construction drops a node but not its edges)
	Unlisted int `json:"unlisted,omitempty"`
}

type c18Case struct {
	Kind    string    `json:"kind"` // dot-cli callgrind-cli dot-report callgrind-report compose escape html
	Hot     string    `json:"hot,omitempty"`
	Marker  string    `json:"marker,omitempty"`
	Prof    *c18Prof  `json:"profile,omitempty"`
	Opts    c18Opts   `json:"opts"`
	Compose *c18Graph `json:"compose,omitempty"`
	Str     c18s      `json:"str,omitempty"`
	Known   bool      `json:"known_stream,omitempty"`
	Look    int       `json:"lookalike_pct,omitempty"` // how the input was generated (information only)
	Vals    string    `json:"values_mode,omitempty"`   // how the sample values were generated (information only)
}
