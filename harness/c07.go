//go:build verif

package main

// C07 — combining and subtracting profiles is linear in every entry.
// Files: c07.go (case type, fixed universe, runner), c07_gen.go (generators), c07_cli.go (real CLI
// runs, parsers, direct oracles), c07_model.go (Lean model protocol), c07_inproc.go (in-process
// correspondence of ScaleN / Scale(-1) / Normalize / CompatibilizeSampleTypes / ScaleProfiles).

import (
	"fmt"
	"os"
	"path/filepath"
	"sort"
	"strings"
	"sync"

	"github.com/google/pprof/profile"
)

func init() { register("C07", runC07) }

type c07Type struct {
	Type string `json:"type"`
	Unit string `json:"unit"`
}

type c07Sample struct {
	Stack  []int   `json:"stack"` // indices into the fixed location universe, leaf first
	Tag    string  `json:"tag,omitempty"`
	Values []int64 `json:"values"`
}

type c07Prof struct {
	Types   []c07Type   `json:"types"`
	Samples []c07Sample `json:"samples"`
	// Build > 0: the profile comes from "another build" of the same program: everything that is NOT
	// part of a report entry's identity at function granularity differs (function start lines and
	// file names, line numbers, addresses, mapping range / build id / file), names stay.
	Build int `json:"build,omitempty"`
	// Sym > 0: the same binary (same mapping, same addresses) symbolized differently: at some
	// addresses the function is renamed, the line number differs, file / start line differ, or
	// (Sym 2) there is no symbol information at all.
	Sym int `json:"sym,omitempty"`
	// IDs: id scheme of the tables: 0 dense 1..n rotated, 1 sparse / huge, 2 shifted (100+k).
	IDs int `json:"ids,omitempty"`
	// Extra unused locations in the table (the table holds only the locations the samples use, plus these)
	Extra int `json:"extra,omitempty"`
	// Aslr: the mapping is loaded Aslr*0x100000 higher (same build id: the mappings must merge)
	Aslr int `json:"aslr,omitempty"`
	// Hom > 0: homonym functions inside this profile (and against members with Hom 0): distinct
	// functions at different addresses that agree on every key field but one — same name, system
	// name and start line in ANOTHER FILE (locations 11 and the inlined line of 9), same name and
	// file with another start line (location 8), same name with another system name (caller line of 10).
	Hom int `json:"hom,omitempty"`
	// header patterns every legacy heap/cpu/contention profile carries: frames to drop / to keep
	Drop string `json:"drop_frames,omitempty"`
	Keep string `json:"keep_frames,omitempty"`
}

// c07Case is the self-contained replay form of one case.
type c07Case struct {
	Kind      string     `json:"kind"`             // many | cli | scalen | scaleneg | normalize | compat | scaleprofiles
	Stream    string     `json:"stream,omitempty"` // main | large | normalize-unaligned
	Strategy  string     `json:"strategy,omitempty"`
	Sources   []c07Prof  `json:"sources,omitempty"`
	Bases     []c07Prof  `json:"bases,omitempty"`
	Mode      string     `json:"mode,omitempty"` // plain | base | diff_base
	Normalize bool       `json:"normalize,omitempty"`
	Index     string     `json:"sample_index,omitempty"` // sample type name
	Ratios    [][2]int64 `json:"ratios,omitempty"`       // scalen: num/den per column
	Gran      string     `json:"granularity,omitempty"`  // "" (functions) | filefunctions | lines | files | addresses
	// kind "many": Sources/Bases hold the distinct profiles, the plans say which one stands at each
	// position of the (long) source and base lists
	Plan     []int `json:"plan,omitempty"`
	BasePlan []int `json:"base_plan,omitempty"`
}

// ---- fixed universe -------------------------------------------------------------------------

const c07NFuncs = 8

// location j -> functions of its lines, leaf (innermost inlined) first
var c07LocFuncs = [][]int{{0}, {1}, {2}, {3}, {4}, {5}, {6}, {7}, {1}, {2, 3}, {4, 1}, {0}}

func c07FuncName(i int) string { return fmt.Sprintf("fn%d", i) }

type c07Unit struct {
	fam    int
	factor int64
}

// the unit strings the generator uses and what measurement.go makes of them (restated here: part of
// the trusted base of this check; C15 checks the unit table itself)
var c07Units = map[string]c07Unit{
	"bytes": {1, 1}, "B": {1, 1}, "kb": {1, 1 << 10}, "kB": {1, 1 << 10}, "kilobytes": {1, 1 << 10}, "MB": {1, 1 << 20}, "gb": {1, 1 << 30},
	"nanoseconds": {2, 1}, "ns": {2, 1}, "us": {2, 1000}, "microseconds": {2, 1000}, "ms": {2, 1000000}, "milliseconds": {2, 1000000}, "s": {2, 1000000000}, "seconds": {2, 1000000000},
	"count": {0, 0}, "events": {0, 0}, "": {0, 0},
}
var c07UnitNames = func() []string {
	var ns []string
	for k := range c07Units {
		ns = append(ns, k)
	}
	sort.Strings(ns)
	return ns
}()

func c07UnitID(u string) int { return sort.SearchStrings(c07UnitNames, u) }

var c07FamUnits = map[int][]string{
	1: {"bytes", "B", "kb", "kB", "kilobytes", "MB", "gb"},
	2: {"nanoseconds", "ns", "us", "microseconds", "ms", "milliseconds", "s", "seconds"},
}

type c07TypeInfo struct {
	name string
	fam  int
	unit string // for fam 0: the fixed unit string
}

var c07TypeUniverse = []c07TypeInfo{
	{"alloc_space", 1, ""}, {"heap", 1, ""}, {"cpu", 2, ""}, {"wall", 2, ""},
	{"samples", 0, "count"}, {"objects", 0, "count"}, {"events", 0, "events"},
}

func c07TypeID(name string) int {
	for i, t := range c07TypeUniverse {
		if t.name == name {
			return i
		}
	}
	return 100 + len(name) // unknown names (hand-written corpus) still get a stable id
}

func c07TypeFam(name string) int {
	for _, t := range c07TypeUniverse {
		if t.name == name {
			return t.fam
		}
	}
	return 0
}

var c07Tags = []string{"", "a", "b"}

func c07TagID(t string) int {
	for i, x := range c07Tags {
		if x == t {
			return i
		}
	}
	return 9
}

// displayUnit: the -unit value under which the report prints the physical quantity exactly
func c07DisplayUnit(fam int) string {
	switch fam {
	case 1:
		return "bytes"
	case 2:
		return "ns"
	}
	return "count"
}

// factor of a unit string in multiples of the finest unit of its family (1 for family 0)
func c07Factor(u string) int64 {
	if x, ok := c07Units[u]; ok && x.fam != 0 {
		return x.factor
	}
	return 1
}

type c07LineSpec struct {
	name, sys, file string
	start, line     int64
}

// c07LocLines: what profile variant (build b, symbolization sym) says about universe location j;
// nil = no symbol information.
func c07LocLines(j, b, sym, hom int) []c07LineSpec {
	var out []c07LineSpec
	for k, f := range c07LocFuncs[j] {
		ls := c07LineSpec{name: c07FuncName(f), sys: c07FuncName(f), file: fmt.Sprintf("src/f%d.go", f), start: int64(10*f + 1 + 100*b), line: int64(10*f + 2 + j + k + 103*b)}
		if b > 0 {
			ls.file = fmt.Sprintf("build%d/src/f%d.go", b, f)
		}
		if hom > 0 {
			switch {
			case j == 11 || (j == 9 && k == 0):
				ls.file = "lib/" + ls.file
			case j == 8:
				ls.start += 7
			case j == 10 && k == 1:
				ls.sys = "_Z" + ls.name
			}
		}
		if sym > 0 {
			switch (j + sym) % 4 {
			case 1:
				ls.name += fmt.Sprintf(".v%d", sym)
				ls.sys = ls.name
			case 2:
				ls.line += int64(50 * sym)
			case 3:
				if sym == 2 {
					return nil
				}
				ls.file, ls.start = "alt/"+ls.file, ls.start+5
			}
		}
		out = append(out, ls)
	}
	return out
}

func c07ID(scheme, k, n, shift int) uint64 {
	switch scheme {
	case 1:
		if k%2 == 0 {
			return 1<<40 + uint64(k)*977 + uint64(shift)
		}
		return uint64(1000*(k+1) + shift)
	case 2:
		return uint64(100 + k)
	}
	return uint64((k+shift)%n) + 1
}

// c07Build makes a real profile from the abstract one. shift permutes the ids so that merging
// has to match entities semantically.
func c07Build(a *c07Prof, shift int) *profile.Profile {
	p := &profile.Profile{PeriodType: &profile.ValueType{Type: "cpu", Unit: "nanoseconds"}, Period: 1, DropFrames: a.Drop, KeepFrames: a.Keep}
	for _, t := range a.Types {
		p.SampleType = append(p.SampleType, &profile.ValueType{Type: t.Type, Unit: t.Unit})
	}
	b := a.Build
	if b < 0 || b > 3 {
		b = 0
	}
	mstart := uint64(0x1000+b*0x10000) + uint64(a.Aslr%8)*0x100000
	m := &profile.Mapping{ID: uint64(1 + b), Start: mstart, Limit: mstart + 0x1000, File: "/nonexistent/c07prog", BuildID: "c07",
		HasFunctions: true, HasFilenames: true, HasLineNumbers: true, HasInlineFrames: true}
	if a.IDs != 0 {
		m.ID = uint64(7 + 10*a.IDs)
	}
	if b > 0 {
		m.File, m.BuildID = fmt.Sprintf("/nonexistent/build%d/c07prog-b%d", b, b), fmt.Sprintf("c07-build%d", b)
	}
	p.Mapping = []*profile.Mapping{m}
	nl := len(c07LocFuncs)
	// the table holds the locations the samples use plus a.Extra unused ones
	used := make([]bool, nl)
	for _, s := range a.Samples {
		for _, j := range s.Stack {
			used[((j%nl)+nl)%nl] = true
		}
	}
	for j, e := 0, a.Extra; j < nl && e > 0; j++ {
		if !used[(j*5+shift)%nl] {
			used[(j*5+shift)%nl] = true
			e--
		}
	}
	var js []int
	for j := 0; j < nl; j++ {
		if used[j] {
			js = append(js, j)
		}
	}
	type fkey struct {
		name, sys, file string
		start           int64
	}
	fns := map[fkey]*profile.Function{}
	var fkeys []fkey
	locs := make([]*profile.Location, nl)
	for _, j := range js {
		l := &profile.Location{Mapping: m, Address: mstart + uint64(j)*16 + uint64(b)*0x200}
		for _, ls := range c07LocLines(j, b, a.Sym, a.Hom) {
			k := fkey{ls.name, ls.sys, ls.file, ls.start}
			if fns[k] == nil {
				fns[k] = &profile.Function{Name: ls.name, SystemName: ls.sys, Filename: ls.file, StartLine: ls.start}
				fkeys = append(fkeys, k)
			}
			l.Line = append(l.Line, profile.Line{Function: fns[k], Line: ls.line})
		}
		locs[j] = l
	}
	for k, fk := range fkeys {
		fns[fk].ID = c07ID(a.IDs, k, len(fkeys), shift)
		p.Function = append(p.Function, fns[fk])
	}
	for k, j := range js {
		locs[j].ID = c07ID(a.IDs, k, len(js), 2*shift)
		p.Location = append(p.Location, locs[j])
	}
	sort.Slice(p.Function, func(i, j int) bool { return p.Function[i].ID < p.Function[j].ID })
	if a.IDs != 1 { // the sparse scheme also leaves the table unsorted
		sort.Slice(p.Location, func(i, j int) bool { return p.Location[i].ID < p.Location[j].ID })
	}
	for _, s := range a.Samples {
		ps := &profile.Sample{Value: append([]int64(nil), s.Values...)}
		for _, j := range s.Stack {
			ps.Location = append(ps.Location, locs[((j%nl)+nl)%nl])
		}
		if s.Tag != "" {
			ps.Label = map[string][]string{"t": {s.Tag}}
		}
		p.Sample = append(p.Sample, ps)
	}
	return p
}

// c07Key identifies a stack for merging: locations, tag, base label.
type c07Key struct {
	Stack string // "3,1,2"
	Tag   string
	Base  bool
}

func c07StackStr(st []int) string {
	ss := make([]string, len(st))
	for i, x := range st {
		ss[i] = fmt.Sprint(x)
	}
	return strings.Join(ss, ",")
}

// intern tables of a run: a location is identified by WHAT IT SAYS (address relative to its
// mapping start within the universe, and per line function name, file, start line, line) — never
// by ids, absolute addresses or mapping ids.  Used only from the sequential checking phase.
type c07Intern struct {
	loc      map[string]int
	locNodes [][]int // location id -> function-name ids, leaf first
	fn       map[string]int
	fnNames  []string
}

func (t *c07Intern) fnID(name string) int {
	if id, ok := t.fn[name]; ok {
		return id
	}
	t.fn[name] = len(t.fnNames)
	t.fnNames = append(t.fnNames, name)
	return len(t.fnNames) - 1
}

// c07Abstract reads a real profile (an input as built, or an output of pprof) into the abstract
// form with interned semantic locations; it fails on anything that is not made of the universe.
func (run *c07Run) abstract(p *profile.Profile) (*c07Prof, []bool, error) {
	t := run.intern
	a := &c07Prof{}
	for _, ty := range p.SampleType {
		a.Types = append(a.Types, c07Type{ty.Type, ty.Unit})
	}
	var base []bool
	for _, s := range p.Sample {
		as := c07Sample{Values: append([]int64(nil), s.Value...)}
		for _, l := range s.Location {
			if l == nil || l.Mapping == nil || l.Address < l.Mapping.Start || (l.Address-l.Mapping.Start)%16 != 0 {
				return nil, nil, fmt.Errorf("location not of the universe")
			}
			off := l.Address - l.Mapping.Start
			j := int(off%0x200) / 16
			if off/0x200 > 3 || j >= len(c07LocFuncs) {
				return nil, nil, fmt.Errorf("location not of the universe")
			}
			var parts []string
			var nodes []int
			for _, ln := range l.Line {
				if ln.Function == nil {
					return nil, nil, fmt.Errorf("line without function")
				}
				parts = append(parts, fmt.Sprintf("%s;%s;%s;%d;%d", ln.Function.Name, ln.Function.SystemName, ln.Function.Filename, ln.Function.StartLine, ln.Line))
				nodes = append(nodes, t.fnID(ln.Function.Name))
			}
			if len(l.Line) == 0 {
				// no symbol information: its own report node (shown under the object file's name), not compared by name
				nodes = append(nodes, t.fnID("\x00unsymbolized"))
			}
			desc := fmt.Sprintf("%d|%s", j, strings.Join(parts, ","))
			id, ok := t.loc[desc]
			if !ok {
				id = len(t.locNodes)
				t.loc[desc] = id
				t.locNodes = append(t.locNodes, nodes)
			}
			as.Stack = append(as.Stack, id)
		}
		b := false
		for k, vs := range s.Label {
			switch {
			case k == "t" && len(vs) == 1:
				as.Tag = vs[0]
			case k == "pprof::base" && len(vs) == 1 && vs[0] == "true":
				b = true
			default:
				return nil, nil, fmt.Errorf("unexpected label %q", k)
			}
		}
		if len(s.NumLabel) != 0 {
			return nil, nil, fmt.Errorf("unexpected numeric label")
		}
		a.Samples = append(a.Samples, as)
		base = append(base, b)
	}
	return a, base, nil
}

// semantic: the case with every input replaced by what its built profile says (interned
// semantic stacks); all expectations are computed from this form.
func (run *c07Run) semantic(cs *c07Case) (*c07Case, error) {
	sc := *cs
	sc.Sources, sc.Bases = nil, nil
	conv := func(ps []c07Prof) ([]c07Prof, error) {
		var out []c07Prof
		for k := range ps {
			a, _, err := run.abstract(c07Build(&ps[k], k+1))
			if err != nil {
				return nil, err
			}
			a.Build = ps[k].Build
			out = append(out, *a)
		}
		return out, nil
	}
	var err error
	if sc.Sources, err = conv(cs.Sources); err != nil {
		return nil, err
	}
	if sc.Bases, err = conv(cs.Bases); err != nil {
		return nil, err
	}
	return &sc, nil
}

// ---- runner ---------------------------------------------------------------------------------

type c07Run struct {
	c      *Ctx
	tmp    string
	mu     sync.Mutex
	intern *c07Intern
}

func runC07(c *Ctx) {
	c.Res.Rule = "CLI stream: tuples of 1-3 source and 0-2 base profiles over a shared universe of 12 locations/8 functions with overlapping stacks, " +
		"permuted/partially overlapping sample types, units drawn per profile from one family (bytes..gb, ns..s, count), zeros in columns, |physical value| <= 2^46; " +
		"modes plain/-base/-diff_base x -normalize x sample_index; strategies: random, self-difference, self-difference with converted units, zero next to unscaled non-zero; " +
		"in half of the non-self-difference tuples the profiles come from different BUILDS: function/location/mapping ids, function start lines and file names, line numbers, addresses, mapping range/build id/file all differ, only names agree (entries must still combine by name); in 45% they are the SAME binary symbolized differently (same mapping and addresses; function renamed / other line / other file+start line / no symbols at an address); in 30% HOMONYM functions within and across members (same name+system name+start line in another file, same name+file with another start line, same name with another system name, at different addresses; always reported at -files/-filefunctions/-lines); in 20% all members carry the same drop_frames/keep_frames header with matching leaf-side frames; in 25% members have samples with values but an EMPTY stack (total of a plain report = sum of the totals when no value is negative); " +
		"independently in 60% the members have different table sizes (only used locations + 0-7 unused), id schemes (dense rotated, sparse/huge unsorted, shifted) and ASLR-shifted mappings; 1-5 sources; reports at functions (68%), lines, files or addresses granularity; " +
		"separate streams: large (|v|>2^53) and normalize-unaligned; many-sources stream (in-process driver.PProf, own FlagSet): source and base LISTS of k*128+{-2..2} tiny profiles (k=1..3), same oracles. In-process streams: ScaleN (integer/dyadic/zero ratios), Scale(-1) float path, Normalize, CompatibilizeSampleTypes, ScaleProfiles. " +
		"non-trivial = CLI case with >=2 profiles where at least two profiles share a stack, or in-process case with >=1 sample and a ratio != 1 / a reordering / a unit change; distinct by case JSON"
	tmp, err := os.MkdirTemp(c.Dir, "tmp-c07-")
	if err != nil {
		c.Res.HarnessError = err.Error()
		return
	}
	if os.Getenv("C07_KEEP") == "" {
		defer os.RemoveAll(tmp)
	}
	run := &c07Run{c: c, tmp: tmp, intern: &c07Intern{loc: map[string]int{}, fn: map[string]int{}}}
	if c.Replay != "" {
		var cs c07Case
		if err := c.LoadReplay(&cs); err != nil {
			c.Res.HarnessError = err.Error()
			return
		}
		run.evalCases([]*c07Case{&cs})
		return
	}
	r := NewRng(c.Seed)
	var cases []*c07Case
	nCLI := 200 * c.Scale
	for i := 0; i < nCLI; i++ {
		cases = append(cases, c07GenCLI(r, i))
	}
	for i := 0; i < 12*c.Scale; i++ {
		cases = append(cases, c07GenLarge(r, i))
	}
	for i := 0; i < 6*c.Scale; i++ {
		cases = append(cases, c07GenNormalizeUnaligned(r))
	}
	for i := 0; i < 3000*c.Scale; i++ {
		cases = append(cases, c07GenInproc(r, i))
	}
	rm := r.Fork()
	for i := 0; i < 4*c.Scale; i++ {
		cases = append(cases, c07GenMany(rm, i))
	}
	run.evalCases(cases)
}

// evalCases: CLI invocations of all cases run in parallel (one process each), the verdicts are
// then computed sequentially in case order, so reports are deterministic.
func (run *c07Run) evalCases(cases []*c07Case) {
	c := run.c
	outs := make([]*c07CLIOut, len(cases))
	var wg sync.WaitGroup
	sem := make(chan struct{}, 16)
	for i, cs := range cases {
		if cs.Kind != "cli" {
			continue
		}
		wg.Add(1)
		go func(i int, cs *c07Case) {
			defer wg.Done()
			outs[i] = run.runCLI(i, cs, sem)
		}(i, cs)
	}
	wg.Wait()
	for i, cs := range cases {
		key := c07CaseKey(cs)
		switch cs.Kind {
		case "cli":
			nt := run.checkCLI(cs, outs[i])
			c.Res.Count(key, nt)
			if i < 2 {
				c.Res.Sample(map[string]any{"kind": cs.Kind, "strategy": cs.Strategy, "mode": cs.Mode, "normalize": cs.Normalize, "sources": len(cs.Sources), "bases": len(cs.Bases), "index": cs.Index})
			}
		case "many":
			c.Res.Count(key, run.checkMany(cs, run.caseDir(i)))
		default:
			nt := run.checkInproc(cs)
			c.Res.Count(key, nt)
		}
	}
}

func c07CaseKey(cs *c07Case) string { return fmt.Sprintf("%+v", *cs) }

func (run *c07Run) caseDir(i int) string {
	d := filepath.Join(run.tmp, fmt.Sprintf("case%d", i))
	os.MkdirAll(d, 0o755)
	return d
}

func c07Safely(f func()) (panicked string) {
	defer func() {
		if e := recover(); e != nil {
			panicked = fmt.Sprint(e)
		}
	}()
	f()
	return ""
}

func c07Trunc(s string) string {
	if len(s) > 300 {
		return s[:300] + "…"
	}
	return s
}
