//go:build verif

package main

// C07 — combining and subtracting profiles is linear in every entry.
// Files: c07.go (case type, fixed universe, runner), c07_gen.go (generators), c07_cli.go (real CLI
// runs, parsers, direct oracles), c07_model.go (Lean model protocol), c07_inproc.go (in-process
// correspondence of ScaleN / Scale(-1) / Normalize / CompatibilizeSampleTypes / ScaleProfiles).

import (
	"fmt"
	"os"
	"path/filepath"
	"sort"
	"strings"
	"sync"

	"github.com/google/pprof/profile"
)

func init() { register("C07", runC07) }

type c07Type struct {
	Type string `json:"type"`
	Unit string `json:"unit"`
}

type c07Sample struct {
	Stack  []int   `json:"stack"` // indices into the fixed location universe, leaf first
	Tag    string  `json:"tag,omitempty"`
	Values []int64 `json:"values"`
}

type c07Prof struct {
	Types   []c07Type   `json:"types"`
	Samples []c07Sample `json:"samples"`
	// Build > 0: the profile comes from "another build" of the same program: everything that is NOT
	// part of a report entry's identity at function granularity differs (function start lines and
	// file names, line numbers, addresses, mapping range / build id / file), names stay.
	Build int `json:"build,omitempty"`
}

// c07Case is the self-contained replay form of one case.
type c07Case struct {
	Kind      string     `json:"kind"`             // many | cli | scalen | scaleneg | normalize | compat | scaleprofiles
	Stream    string     `json:"stream,omitempty"` // main | large | normalize-unaligned
	Strategy  string     `json:"strategy,omitempty"`
	Sources   []c07Prof  `json:"sources,omitempty"`
	Bases     []c07Prof  `json:"bases,omitempty"`
	Mode      string     `json:"mode,omitempty"` // plain | base | diff_base
	Normalize bool       `json:"normalize,omitempty"`
	Index     string     `json:"sample_index,omitempty"` // sample type name
	Ratios    [][2]int64 `json:"ratios,omitempty"`       // scalen: num/den per column
	// kind "many": Sources/Bases hold the distinct profiles, the plans say which one stands at each
	// position of the (long) source and base lists
	Plan     []int `json:"plan,omitempty"`
	BasePlan []int `json:"base_plan,omitempty"`
}

// ---- fixed universe -------------------------------------------------------------------------

const c07NFuncs = 8

// location j -> functions of its lines, leaf (innermost inlined) first
var c07LocFuncs = [][]int{{0}, {1}, {2}, {3}, {4}, {5}, {6}, {7}, {1}, {2, 3}, {4, 1}, {0}}

func c07FuncName(i int) string { return fmt.Sprintf("fn%d", i) }

type c07Unit struct {
	fam    int
	factor int64
}

// the unit strings the generator uses and what measurement.go makes of them (restated here: part of
// the trusted base of this check; C15 checks the unit table itself)
var c07Units = map[string]c07Unit{
	"bytes": {1, 1}, "B": {1, 1}, "kb": {1, 1 << 10}, "kB": {1, 1 << 10}, "kilobytes": {1, 1 << 10}, "MB": {1, 1 << 20}, "gb": {1, 1 << 30},
	"nanoseconds": {2, 1}, "ns": {2, 1}, "us": {2, 1000}, "microseconds": {2, 1000}, "ms": {2, 1000000}, "milliseconds": {2, 1000000}, "s": {2, 1000000000}, "seconds": {2, 1000000000},
	"count": {0, 0}, "events": {0, 0}, "": {0, 0},
}
var c07UnitNames = func() []string {
	var ns []string
	for k := range c07Units {
		ns = append(ns, k)
	}
	sort.Strings(ns)
	return ns
}()

func c07UnitID(u string) int { return sort.SearchStrings(c07UnitNames, u) }

var c07FamUnits = map[int][]string{
	1: {"bytes", "B", "kb", "kB", "kilobytes", "MB", "gb"},
	2: {"nanoseconds", "ns", "us", "microseconds", "ms", "milliseconds", "s", "seconds"},
}

type c07TypeInfo struct {
	name string
	fam  int
	unit string // for fam 0: the fixed unit string
}

var c07TypeUniverse = []c07TypeInfo{
	{"alloc_space", 1, ""}, {"heap", 1, ""}, {"cpu", 2, ""}, {"wall", 2, ""},
	{"samples", 0, "count"}, {"objects", 0, "count"}, {"events", 0, "events"},
}

func c07TypeID(name string) int {
	for i, t := range c07TypeUniverse {
		if t.name == name {
			return i
		}
	}
	return 100 + len(name) // unknown names (hand-written corpus) still get a stable id
}

func c07TypeFam(name string) int {
	for _, t := range c07TypeUniverse {
		if t.name == name {
			return t.fam
		}
	}
	return 0
}

var c07Tags = []string{"", "a", "b"}

func c07TagID(t string) int {
	for i, x := range c07Tags {
		if x == t {
			return i
		}
	}
	return 9
}

// displayUnit: the -unit value under which the report prints the physical quantity exactly
func c07DisplayUnit(fam int) string {
	switch fam {
	case 1:
		return "bytes"
	case 2:
		return "ns"
	}
	return "count"
}

// factor of a unit string in multiples of the finest unit of its family (1 for family 0)
func c07Factor(u string) int64 {
	if x, ok := c07Units[u]; ok && x.fam != 0 {
		return x.factor
	}
	return 1
}

// c07Build makes a real profile from the abstract one. shift permutes the ids so that merging
// has to match entities semantically.
func c07Build(a *c07Prof, shift int) *profile.Profile {
	p := &profile.Profile{PeriodType: &profile.ValueType{Type: "cpu", Unit: "nanoseconds"}, Period: 1}
	for _, t := range a.Types {
		p.SampleType = append(p.SampleType, &profile.ValueType{Type: t.Type, Unit: t.Unit})
	}
	b := a.Build
	if b < 0 || b > 3 {
		b = 0
	}
	mstart := uint64(0x1000 + b*0x10000)
	m := &profile.Mapping{ID: uint64(1 + b), Start: mstart, Limit: mstart + 0x1000, File: "/nonexistent/c07prog", BuildID: "c07",
		HasFunctions: true, HasFilenames: true, HasLineNumbers: true, HasInlineFrames: true}
	if b > 0 {
		m.File, m.BuildID = fmt.Sprintf("/nonexistent/build%d/c07prog", b), fmt.Sprintf("c07-build%d", b)
	}
	p.Mapping = []*profile.Mapping{m}
	fns := make([]*profile.Function, c07NFuncs)
	for i := 0; i < c07NFuncs; i++ {
		fns[i] = &profile.Function{ID: uint64((i+shift)%c07NFuncs) + 1, Name: c07FuncName(i), SystemName: c07FuncName(i),
			Filename: fmt.Sprintf("src/f%d.go", i), StartLine: int64(10*i + 1 + 100*b)}
		if b > 0 {
			fns[i].Filename = fmt.Sprintf("build%d/src/f%d.go", b, i)
		}
	}
	p.Function = append(p.Function, fns...)
	sort.Slice(p.Function, func(i, j int) bool { return p.Function[i].ID < p.Function[j].ID })
	nl := len(c07LocFuncs)
	locs := make([]*profile.Location, nl)
	for j := 0; j < nl; j++ {
		l := &profile.Location{ID: uint64((j+2*shift)%nl) + 1, Mapping: m, Address: mstart + uint64(j)*16 + uint64(b)*0x200}
		for k, f := range c07LocFuncs[j] {
			l.Line = append(l.Line, profile.Line{Function: fns[f], Line: int64(10*f + 2 + j + k + 100*b + 3*b)})
		}
		locs[j] = l
	}
	p.Location = append(p.Location, locs...)
	sort.Slice(p.Location, func(i, j int) bool { return p.Location[i].ID < p.Location[j].ID })
	for _, s := range a.Samples {
		ps := &profile.Sample{Value: append([]int64(nil), s.Values...)}
		for _, j := range s.Stack {
			ps.Location = append(ps.Location, locs[j%nl])
		}
		if s.Tag != "" {
			ps.Label = map[string][]string{"t": {s.Tag}}
		}
		p.Sample = append(p.Sample, ps)
	}
	return p
}

// c07Key identifies a stack for merging: locations, tag, base label.
type c07Key struct {
	Stack string // "3,1,2"
	Tag   string
	Base  bool
}

func c07StackStr(st []int) string {
	ss := make([]string, len(st))
	for i, x := range st {
		ss[i] = fmt.Sprint(x)
	}
	return strings.Join(ss, ",")
}

func c07ParseStack(s string) []int {
	if s == "" {
		return nil
	}
	var out []int
	for _, f := range strings.Split(s, ",") {
		var x int
		fmt.Sscan(f, &x)
		out = append(out, x)
	}
	return out
}

// c07Abstract reads a real profile (an output of pprof) back into the abstract form; it fails on
// anything that is not made of the universe.
func c07Abstract(p *profile.Profile) (*c07Prof, []bool, error) {
	a := &c07Prof{}
	for _, t := range p.SampleType {
		a.Types = append(a.Types, c07Type{t.Type, t.Unit})
	}
	var base []bool
	for _, s := range p.Sample {
		as := c07Sample{Values: append([]int64(nil), s.Value...)}
		for _, l := range s.Location {
			if l == nil || l.Mapping == nil || l.Address < l.Mapping.Start || (l.Address-l.Mapping.Start)%16 != 0 {
				return nil, nil, fmt.Errorf("location not of the universe")
			}
			off := l.Address - l.Mapping.Start
			j := int(off%0x200) / 16
			if off/0x200 > 3 || j >= len(c07LocFuncs) {
				return nil, nil, fmt.Errorf("location not of the universe")
			}
			if len(l.Line) != len(c07LocFuncs[j]) {
				return nil, nil, fmt.Errorf("location %d: %d lines, want %d", j, len(l.Line), len(c07LocFuncs[j]))
			}
			for k, ln := range l.Line {
				if ln.Function == nil || ln.Function.Name != c07FuncName(c07LocFuncs[j][k]) {
					return nil, nil, fmt.Errorf("location %d line %d: wrong function", j, k)
				}
			}
			as.Stack = append(as.Stack, j)
		}
		b := false
		for k, vs := range s.Label {
			switch {
			case k == "t" && len(vs) == 1:
				as.Tag = vs[0]
			case k == "pprof::base" && len(vs) == 1 && vs[0] == "true":
				b = true
			default:
				return nil, nil, fmt.Errorf("unexpected label %q", k)
			}
		}
		if len(s.NumLabel) != 0 {
			return nil, nil, fmt.Errorf("unexpected numeric label")
		}
		a.Samples = append(a.Samples, as)
		base = append(base, b)
	}
	return a, base, nil
}

// ---- runner ---------------------------------------------------------------------------------

type c07Run struct {
	c   *Ctx
	tmp string
	mu  sync.Mutex
}

func runC07(c *Ctx) {
	c.Res.Rule = "CLI stream: tuples of 1-3 source and 0-2 base profiles over a shared universe of 12 locations/8 functions with overlapping stacks, " +
		"permuted/partially overlapping sample types, units drawn per profile from one family (bytes..gb, ns..s, count), zeros in columns, |physical value| <= 2^46; " +
		"modes plain/-base/-diff_base x -normalize x sample_index; strategies: random, self-difference, self-difference with converted units, zero next to unscaled non-zero; " +
		"in half of the non-self-difference tuples the profiles come from different BUILDS: function/location/mapping ids, function start lines and file names, line numbers, addresses, mapping range/build id/file all differ, only names agree (entries must still combine by name); " +
		"separate streams: large (|v|>2^53) and normalize-unaligned; many-sources stream (in-process driver.PProf, own FlagSet): source and base LISTS of k*128+{-2..2} tiny profiles (k=1..3), same oracles. In-process streams: ScaleN (integer/dyadic/zero ratios), Scale(-1) float path, Normalize, CompatibilizeSampleTypes, ScaleProfiles. " +
		"non-trivial = CLI case with >=2 profiles where at least two profiles share a stack, or in-process case with >=1 sample and a ratio != 1 / a reordering / a unit change; distinct by case JSON"
	tmp, err := os.MkdirTemp(c.Dir, "tmp-c07-")
	if err != nil {
		c.Res.HarnessError = err.Error()
		return
	}
	if os.Getenv("C07_KEEP") == "" {
		defer os.RemoveAll(tmp)
	}
	run := &c07Run{c: c, tmp: tmp}
	if c.Replay != "" {
		var cs c07Case
		if err := c.LoadReplay(&cs); err != nil {
			c.Res.HarnessError = err.Error()
			return
		}
		run.evalCases([]*c07Case{&cs})
		return
	}
	r := NewRng(c.Seed)
	var cases []*c07Case
	nCLI := 260 * c.Scale
	for i := 0; i < nCLI; i++ {
		cases = append(cases, c07GenCLI(r, i))
	}
	for i := 0; i < 12*c.Scale; i++ {
		cases = append(cases, c07GenLarge(r, i))
	}
	for i := 0; i < 6*c.Scale; i++ {
		cases = append(cases, c07GenNormalizeUnaligned(r))
	}
	for i := 0; i < 3000*c.Scale; i++ {
		cases = append(cases, c07GenInproc(r, i))
	}
	rm := r.Fork()
	for i := 0; i < 4*c.Scale; i++ {
		cases = append(cases, c07GenMany(rm, i))
	}
	run.evalCases(cases)
}

// evalCases: CLI invocations of all cases run in parallel (one process each), the verdicts are
// then computed sequentially in case order, so reports are deterministic.
func (run *c07Run) evalCases(cases []*c07Case) {
	c := run.c
	outs := make([]*c07CLIOut, len(cases))
	var wg sync.WaitGroup
	sem := make(chan struct{}, 16)
	for i, cs := range cases {
		if cs.Kind != "cli" {
			continue
		}
		wg.Add(1)
		go func(i int, cs *c07Case) {
			defer wg.Done()
			outs[i] = run.runCLI(i, cs, sem)
		}(i, cs)
	}
	wg.Wait()
	for i, cs := range cases {
		key := c07CaseKey(cs)
		switch cs.Kind {
		case "cli":
			nt := run.checkCLI(cs, outs[i])
			c.Res.Count(key, nt)
			if i < 2 {
				c.Res.Sample(map[string]any{"kind": cs.Kind, "strategy": cs.Strategy, "mode": cs.Mode, "normalize": cs.Normalize, "sources": len(cs.Sources), "bases": len(cs.Bases), "index": cs.Index})
			}
		case "many":
			c.Res.Count(key, run.checkMany(cs, run.caseDir(i)))
		default:
			nt := run.checkInproc(cs)
			c.Res.Count(key, nt)
		}
	}
}

func c07CaseKey(cs *c07Case) string { return fmt.Sprintf("%+v", *cs) }

func (run *c07Run) caseDir(i int) string {
	d := filepath.Join(run.tmp, fmt.Sprintf("case%d", i))
	os.MkdirAll(d, 0o755)
	return d
}

func c07Safely(f func()) (panicked string) {
	defer func() {
		if e := recover(); e != nil {
			panicked = fmt.Sprint(e)
		}
	}()
	f()
	return ""
}

func c07Trunc(s string) string {
	if len(s) > 300 {
		return s[:300] + "…"
	}
	return s
}
