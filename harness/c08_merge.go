//go:build verif

package main

// C08, streams "merge" and "list".
//
// merge: MERGING is part of every multi-source command.  Sources contain EQUAL samples — same stack, same
// multi-key string and numeric label sets — within one source and across sources, and ±v pairs for
// -base/-diff_base.  profile.Merge / Compact are repeated 16 times in process (WriteUncompressed of the
// result must not change), and `pprof a b`, `-base`, `-diff_base` are run in fresh processes for
// -proto/-raw/-traces/-top/-tags.
//
// list: source listings with a READABLE source tree (-source_path) on profiles where several functions
// share one printable name and file but differ in StartLine (overloads, template instantiations).

import (
	"bytes"
	"fmt"
	"os"
	"path/filepath"
	"strings"

	"github.com/google/pprof/profile"
)

// c08WriteSourceTree writes a small, fixed source tree.
func c08WriteSourceTree(root string) {
	for _, f := range []string{"pkg/file.go", "pkg/other.go", "lib/util.go"} {
		os.MkdirAll(filepath.Join(root, filepath.Dir(f)), 0o755)
		var b strings.Builder
		for i := 1; i <= 120; i++ {
			fmt.Fprintf(&b, "// %s line %d\n", f, i)
		}
		os.WriteFile(filepath.Join(root, f), []byte(b.String()), 0o644)
	}
}

// ---------- merge ----------

func c08MergeLabels(r *Rng, variant int) (map[string][]string, map[string][]int64, map[string][]string) {
	// a few fixed label sets, each with several keys, so that equal samples are frequent
	switch variant % 4 {
	case 0:
		return map[string][]string{"tenant": {"a"}, "zone": {"z1"}, "phase": {"p", "q"}}, nil, nil
	case 1:
		return nil, map[string][]int64{"alignment": {8}, "request": {1024}, "depth": {3}}, map[string][]string{"alignment": {"bytes"}}
	case 2:
		return map[string][]string{"tenant": {"a"}, "zone": {"z2"}}, map[string][]int64{"bytes": {4096}, "objects": {2}}, map[string][]string{"bytes": {"bytes"}}
	}
	return map[string][]string{"k": {"v"}}, nil, nil
}

// c08MergePair builds two sources over the same functions/locations that share samples.
func c08MergePair(r *Rng) (*profile.Profile, *profile.Profile) {
	mk := func() *profile.Profile {
		p := &profile.Profile{TimeNanos: 1700000000000000000, DurationNanos: 1e9, Period: 1,
			PeriodType: &profile.ValueType{Type: "cpu", Unit: "nanoseconds"},
			SampleType: []*profile.ValueType{{Type: "samples", Unit: "count"}, {Type: "cpu", Unit: "nanoseconds"}},
			Mapping:    []*profile.Mapping{{ID: 1, Start: 0x400000, Limit: 0x500000, File: "/bin/prog", HasFunctions: true, HasFilenames: true, HasLineNumbers: true}},
		}
		for i, n := range []string{"main", "foo", "bar", "baz", "leaf"} {
			f := &profile.Function{ID: uint64(i + 1), Name: n, SystemName: n, Filename: "pkg/file.go", StartLine: int64(10 * (i + 1))}
			p.Function = append(p.Function, f)
			p.Location = append(p.Location, &profile.Location{ID: uint64(i + 1), Mapping: p.Mapping[0], Address: 0x400000 + uint64(16*(i+1)),
				Line: []profile.Line{{Function: f, Line: int64(10*(i+1) + 2)}}})
		}
		return p
	}
	a, b := mk(), mk()
	stacks := [][]int{{4, 1, 0}, {4, 2, 0}, {3, 2, 1, 0}, {4, 3, 0}, {2, 0}}
	add := func(p *profile.Profile, st, lv int, v int64) {
		s := &profile.Sample{Value: []int64{v, 10 * v}}
		for _, i := range stacks[st] {
			s.Location = append(s.Location, p.Location[i])
		}
		s.Label, s.NumLabel, s.NumUnit = c08MergeLabels(r, lv)
		p.Sample = append(p.Sample, s)
	}
	for i, n := 0, 6+r.Intn(8); i < n; i++ {
		st, lv, v := r.Intn(len(stacks)), r.Intn(4), int64(1+r.Intn(5))
		add(a, st, lv, v)
		switch r.Intn(4) {
		case 0:
			add(a, st, lv, v) // equal sample within one source
		case 1:
			add(b, st, lv, v) // equal sample across sources (cancels under -base)
		case 2:
			add(b, st, lv, v+1)
		}
		if r.Chance(30) {
			add(b, r.Intn(len(stacks)), r.Intn(4), int64(1+r.Intn(5)))
		}
	}
	if len(b.Sample) == 0 {
		add(b, 0, 0, 1)
	}
	return a, b
}

type c08MergeCase struct {
	Kind string   `json:"kind"` // "merge-inprocess"
	A    string   `json:"a"`
	B    string   `json:"b"`
	Reps int      `json:"reps"`
	Op   string   `json:"differing_operation,omitempty"`
	Outs []string `json:"sample_counts,omitempty"`
}

func c08MergeOnce(op, ca, cb string) (res []byte, n int, pn string) {
	pn = safely(func() {
		a, _ := ParseCanon(ca)
		b, _ := ParseCanon(cb)
		var m *profile.Profile
		var err error
		switch op {
		case "Merge":
			m, err = profile.Merge([]*profile.Profile{a, b})
		case "Merge-base":
			b.Scale(-1)
			m, err = profile.Merge([]*profile.Profile{a, b})
		case "Merge-self":
			m, err = profile.Merge([]*profile.Profile{a, a.Copy(), b})
		default: // Compact
			m = a.Compact()
		}
		if err != nil {
			res = []byte("error: " + err.Error())
			return
		}
		n = len(m.Sample)
		var buf bytes.Buffer
		m.WriteUncompressed(&buf)
		res = buf.Bytes()
	})
	return res, n, pn
}

func c08MergeInProcess(c *Ctx, cs c08MergeCase) {
	for _, op := range []string{"Merge", "Merge-base", "Merge-self", "Compact"} {
		first, n0, pn := c08MergeOnce(op, cs.A, cs.B)
		if pn != "" {
			c.Violation("C08/merge/"+op+"/panic", pn, cs)
			return
		}
		for k := 1; k < cs.Reps; k++ {
			got, n, pn := c08MergeOnce(op, cs.A, cs.B)
			if pn != "" || !bytes.Equal(got, first) {
				cs.Op, cs.Outs = op, []string{fmt.Sprint(n0, " samples"), fmt.Sprint(n, " samples ", pn)}
				c.Violation("C08/merge/"+op+"/result-differs-between-repetitions", fmt.Sprintf("%s of the same sources serializes differently on repetition %d (%d vs %d samples)", op, k+1, n0, n), cs)
				return
			}
		}
	}
	c.Res.Hit("merge-inprocess")
}

func c08MergeStream(c *Ctx, r *Rng, n, runs int) {
	tmp, err := os.MkdirTemp("", "c08merge-")
	if err != nil {
		c.Res.HarnessError = err.Error()
		return
	}
	defer os.RemoveAll(tmp)
	var jobs []*c08Job
	for i := 0; i < n; i++ {
		a, b := c08MergePair(r)
		ca, cb := Canon(a), Canon(b)
		c08MergeInProcess(c, c08MergeCase{Kind: "merge-inprocess", A: ca, B: cb, Reps: 16})
		c.Res.Count("merge/"+ca+cb, true)
		fa, err1 := c08WriteProfile(tmp, 2*i, a)
		fb, err2 := c08WriteProfile(tmp, 2*i+1, b)
		if err1 != nil || err2 != nil {
			c.Res.HarnessError = fmt.Sprint(err1, err2)
			return
		}
		for _, args := range [][]string{{"-proto"}, {"-raw"}, {"-traces"}, {"-top"}, {"-tags"}} {
			jobs = append(jobs, &c08Job{canon: ca, more: []string{cb}, files: []string{fa, fb}, args: args, stream: "multi"})
		}
		for _, args := range [][]string{{"-top", "-base=@more0"}, {"-proto", "-diff_base=@more0"}, {"-traces", "-base=@more0"}, {"-raw", "-diff_base=@more0"}} {
			jobs = append(jobs, &c08Job{canon: ca, more: []string{cb}, files: []string{fa}, extra: []string{fb}, args: args, stream: "base"})
		}
	}
	c08RunJobs(c, tmp, jobs, runs)
	c08JudgeJobs(c, jobs, runs)
}

// ---------- list ----------

// c08ListProfile: several functions share a printable name and a file but differ in StartLine.
func c08ListProfile(r *Rng) *profile.Profile {
	p := &profile.Profile{TimeNanos: 1700000000000000000, DurationNanos: 1e9, Period: 1,
		PeriodType: &profile.ValueType{Type: "cpu", Unit: "nanoseconds"},
		SampleType: []*profile.ValueType{{Type: "samples", Unit: "count"}},
		Mapping:    []*profile.Mapping{{ID: 1, Start: 0x400000, Limit: 0x500000, File: "/bin/prog", HasFunctions: true, HasFilenames: true, HasLineNumbers: true}},
	}
	type fdef struct {
		name, file string
		start      int64
	}
	defs := []fdef{{"main", "pkg/other.go", 5}}
	// 2-4 "overloads": same name, same file, different start lines
	for i, n := 0, 2+r.Intn(3); i < n; i++ {
		defs = append(defs, fdef{"overload", "pkg/file.go", int64(10 + 25*i)})
	}
	if r.Bool() {
		defs = append(defs, fdef{"tmpl", "lib/util.go", 20}, fdef{"tmpl", "lib/util.go", 70})
	}
	nested := r.Chance(40) // an enclosing function of the same name whose sampled line lies BEHIND the others
	if nested {
		defs = append(defs, fdef{"overload", "pkg/file.go", 4})
	}
	for i, d := range defs {
		f := &profile.Function{ID: uint64(i + 1), Name: d.name, SystemName: fmt.Sprintf("%s.%d", d.name, i), Filename: d.file, StartLine: d.start}
		p.Function = append(p.Function, f)
		// two sampled lines per function
		for k := 0; k < 2; k++ {
			id := uint64(len(p.Location) + 1)
			line := d.start + int64(2+5*k+r.Intn(3))
			if nested && i == len(defs)-1 && k == 1 {
				line = 112 // far behind every other sampled line of that name
			}
			p.Location = append(p.Location, &profile.Location{ID: id, Mapping: p.Mapping[0], Address: 0x400000 + 16*id,
				Line: []profile.Line{{Function: f, Line: line}}})
		}
	}
	for i := 2; i < len(p.Location); i++ {
		p.Sample = append(p.Sample, &profile.Sample{Location: []*profile.Location{p.Location[i], p.Location[r.Intn(2)]}, Value: []int64{int64(1 + r.Intn(4))}})
	}
	return p
}

func c08ListStream(c *Ctx, r *Rng, n, runs int) {
	tmp, err := os.MkdirTemp("", "c08list-")
	if err != nil {
		c.Res.HarnessError = err.Error()
		return
	}
	defer os.RemoveAll(tmp)
	var jobs []*c08Job
	for i := 0; i < n; i++ {
		p := c08ListProfile(r)
		if err := p.CheckValid(); err != nil {
			c.Res.HarnessError = "list profile invalid: " + err.Error()
			return
		}
		canon := Canon(p)
		fn, err := c08WriteProfile(tmp, i, p)
		if err != nil {
			c.Res.HarnessError = err.Error()
			return
		}
		c.Res.Hit("profile:same-name-different-startline")
		for _, args := range [][]string{{"-list=overload", "-source_path=@src"}, {"-list=.", "-source_path=@src"}, {"-list=tmpl|overload", "-source_path=@src", "-trim_path=/nowhere"}} {
			jobs = append(jobs, &c08Job{canon: canon, files: []string{fn}, args: args, stream: "list"})
		}
		for _, args := range [][]string{{"-weblist=overload", "-source_path=@src"}, {"-weblist=.", "-source_path=@src"}} {
			jobs = append(jobs, &c08Job{canon: canon, files: []string{fn}, args: args, stream: "list", toFile: true})
		}
	}
	c08RunJobs(c, tmp, jobs, runs)
	c08JudgeJobs(c, jobs, runs)
}
