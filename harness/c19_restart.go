//go:build verif

package main

// C19 (iii'): RESTART after a crash.  A save that was killed leaves the settings directory in one
// of the states the crash model enumerates — settings.json old, possibly next to a temp file
// holding any prefix of the new document, or the complete document not yet renamed, or already
// renamed.  The property is about what the NEXT pprof finds: the web interface is constructed
// again the way pprof does at start-up (driver.PProf -http → serveWebInterface → makeWebInterface,
// through the HTTPServer hook; a fresh instance, and once per run a fresh process under strace)
// on the directory exactly as the crash left it, and then
//   * settings.json must still hold the complete old or the complete new contents,
//   * the Config menu must list what the file holds,
//   * a further save must work and leave the other configurations alone.
// Lean: `Op.restart` is the identity on the file system (theorem crash_restart_old_or_new); that the
// real start-up is, is what this file checks.

import (
	"fmt"
	"os"
	"path/filepath"
	"strings"
)

type c19Leftover struct {
	Suffix string `json:"suffix"` // file name = "settings.json" + Suffix
	Len    int    `json:"len"`    // bytes of the new contents it holds; -1 = garbage
}

// restartJudge: start the web UI on xdg and evaluate the durability oracle.
func (e *c19Env) restartJudge(cs c19Case, xdg, file string, old []byte, oldExists bool, newb []byte) {
	c, t := e.c, e.t
	what := cs.Fault
	if cs.Kind == "restart" {
		what = fmt.Sprintf("leftover temp files %v", cs.Leftovers)
	}
	kind, _, _ := strings.Cut(cs.Fault, ":")
	if kind == "" {
		kind = "leftover"
	}
	beforeRaw, berr := os.ReadFile(file)
	vBefore := c19Classify(beforeRaw, berr == nil, old, oldExists, newb)
	srv, err := c19NewServer(xdg)
	if err != nil {
		c.Violation("C19/restart/"+kind+"/web-ui-does-not-start", "after "+what+" the web interface cannot be started: "+err.Error(), cs)
		return
	}
	got, gerr := os.ReadFile(file)
	verdict := c19Classify(got, gerr == nil, old, oldExists, newb)
	c.Res.Hit("restart:" + kind + ":" + vBefore + "->" + verdict)
	if verdict != "old" && verdict != "new" {
		if vBefore == "old" || vBefore == "new" {
			c.Violation("C19/restart/"+kind+"/file-"+verdict,
				fmt.Sprintf("after %s settings.json held the complete %s contents; after RESTARTING the web UI it is %s (%d bytes; old %d, new %d): start-up replaced the settings file by something that is neither", what, vBefore, verdict, len(got), len(old), len(newb)), cs)
		}
		return // already reported by the fault oracle
	}
	doc := c19ReadDoc(file, t)
	if doc.Err != "" {
		c.Violation("C19/restart/"+kind+"/file-unparsable", "after "+what+" and a restart the settings file does not parse: "+doc.Err, cs)
		return
	}
	status, body, pn := srv.get("/top")
	if status != 200 || pn != "" {
		c.Disagree("C19/menu/page", fmt.Sprintf("report page not served after restart (status %d %s %s)", status, pn, c19Trunc(body)), "observation of configMenu through a report page", cs)
		return
	}
	menu, err := c19Menu(body)
	if err != nil {
		c.Disagree("C19/menu/parse", err.Error(), "observation of configMenu through a report page", cs)
		return
	}
	names := []string{"Default"}
	for _, en := range doc.Entries {
		names = append(names, en.Name)
	}
	var shown []string
	for _, m := range menu {
		shown = append(shown, m.Name)
	}
	if strings.Join(shown, "\x00") != strings.Join(names, "\x00") {
		c.Violation("C19/restart/"+kind+"/menu", fmt.Sprintf("after %s and a restart the menu shows %q, settings.json holds %q", what, shown, names), cs)
		return
	}
	st := c19Step{Op: "save", Name: "after-restart", Params: map[string]string{"f": "again"}}
	status, body, pn = srv.get(st.request())
	after := c19ReadDoc(file, t)
	if status != 200 || pn != "" || after.Err != "" {
		c.Violation("C19/restart/"+kind+"/save-fails", fmt.Sprintf("after %s and a restart a further save fails: %d %s %s %s", what, status, c19Trunc(body), pn, after.Err), cs)
		return
	}
	e.frame(doc, after, "after-restart", "save-after-restart", cs)
	if _, n := c19Find(after.Entries, "after-restart"); n != 1 {
		c.Violation("C19/restart/"+kind+"/save-fails", "the save after the restart is not in the file", cs)
	}
}

// restartTrace: the start-up of a fresh pprof process on the crashed directory, under strace; the
// system calls that touch the settings directory must leave settings.json as it is.
func (e *c19Env) restartTrace(j *c19FaultJob) {
	c := e.c
	dir := filepath.Dir(j.file)
	cur, cerr := os.ReadFile(j.file)
	files := ""
	nfiles := 0
	ents, _ := os.ReadDir(dir)
	for _, en := range ents {
		b, err := os.ReadFile(filepath.Join(dir, en.Name()))
		if err != nil {
			continue
		}
		files += " " + hexTok([]byte(filepath.Join(dir, en.Name()))) + " " + hexTok(b)
		nfiles++
	}
	cs := j.cs
	cs.Note = "restart under strace on the directory the crash left"
	run := e.helper(j.xdg, "/top", -1, []string{}, "restart", "PVH_C19_MARK_EARLY=1")
	if !strings.Contains(run.out, "status 200") {
		c.Violation("C19/restart/traced/web-ui-does-not-start", "pprof does not start on the directory a killed save left: "+c19Trunc(run.out), cs)
		return
	}
	calls, err := c19ParseTrace(run.trace)
	if err != nil {
		c.Disagree("C19/trace/parse", err.Error(), "syscall-trace refinement of the restart", cs)
		return
	}
	ops, _, _, _, problems := c19MapTrace(calls, dir)
	if len(problems) > 0 {
		c.Disagree("C19/trace/map", fmt.Sprintf("restart trace not understood: %v", problems), "syscall-trace refinement of the restart", cs)
		return
	}
	toks := []string{"restart"}
	descs := []string{"restart"}
	for _, o := range ops {
		toks = append(toks, o.Tok)
		descs = append(descs, o.Desc)
	}
	oldTok := "0"
	if cerr == nil {
		oldTok = "1 " + hexTok(cur)
	}
	c.Res.ModelCompared++
	rep := c.Drv.Ask(fmt.Sprintf("fs.accepts %s %s %s 1 %d%s %d %s", hexTok([]byte(j.file)), oldTok, hexTok(cur), nfiles, files, len(toks), strings.Join(toks, " ")))
	c.Res.Hit(fmt.Sprintf("restart-trace:%s:ops=%d", firstWordC19(rep), len(ops)))
	cs.OpsTok = strings.Join(descs, " ; ")
	switch {
	case rep == "atomic":
	case strings.HasPrefix(rep, "bad "):
		c.Violation("C19/restart/traced/start-up-modifies-settings-file",
			"the system calls of pprof's start-up on a directory with a leftover temp file ("+cs.OpsTok+") change settings.json: "+rep+" — start-up must be the identity on the settings file", cs)
	default:
		if c.Drv != nil {
			c.Disagree("C19/trace/driver", "fs.accepts: "+c19Trunc(rep), "syscall-trace refinement of the restart (model driver)", cs)
		}
	}
}

// runRestart: a synthetic crashed directory: old settings file (built by the real code) + leftovers.
func (e *c19Env) runRestart(cs c19Case) {
	c := e.c
	old, oldExists, newb, err := e.faultBase(cs)
	if err != nil {
		c.Disagree("C19/fault/prepare", err.Error(), "restart stream", cs)
		return
	}
	j := e.faultPrepare(cs, old, oldExists)
	for _, lo := range cs.Leftovers {
		content := []byte("\x00garbage{")
		if lo.Len >= 0 && lo.Len <= len(newb) {
			content = newb[:lo.Len]
		}
		os.WriteFile(j.file+lo.Suffix, content, 0o600)
	}
	e.restartJudge(cs, j.xdg, j.file, old, oldExists, newb)
}

func (e *c19Env) restarts(r *Rng) {
	save := c19Step{Op: "save", Name: "third", Params: map[string]string{"f": "foo|bar", "n": "7", "unit": "ms"}}
	for _, olds := range [][]c19Step{c19OldSteps(), nil} {
		probe := c19Case{Kind: "restart", Old: olds, Save: &save}
		_, _, newb, err := e.faultBase(probe)
		if err != nil {
			e.c.Disagree("C19/fault/prepare", err.Error(), "restart stream", probe)
			return
		}
		n := len(newb)
		grid := [][]c19Leftover{
			{{".tmp123456789", 0}}, {{".tmp123456789", 1}}, {{".tmp42", n / 2}}, {{".tmp3141592653", n - 1}}, {{".tmp7", n}},
			{{".tmp1", -1}}, {{".tmp1", 1 + r.Intn(n-1)}, {".tmp2", 0}, {".tmp3", 1 + r.Intn(n-1)}}, {{".tmp", n / 3}}, {{".tmpabc", 2 * n / 3}},
		}
		for _, lo := range grid {
			cs := probe
			cs.Leftovers = lo
			e.runRestart(cs)
			e.c.Res.Count(fmt.Sprintf("restart:%v:%v", olds == nil, lo), true)
		}
	}
}
