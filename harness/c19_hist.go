//go:build verif

package main

// C19 (i'): request HISTORIES on one server instance over a small alphabet — 2-3 names × 2-3
// fixed option sets — in which identical requests recur (save X; save X again; delete X; save X
// with the same options; save Y; delete a missing name; …), interleaved with menu reads and with
// EXTERNAL edits of settings.json between requests (another pprof process removed an entry, the
// file was deleted or replaced).  Executed by runSeq: after every request the file must be what
// the Lean model (`settings.handle`) computes from the file before it, the direct oracle (saved
// options intact, others untouched, entry counts) must hold, and the menu must list the file.
// Anything the handlers remember between requests (a cache, a dedup of "identical" requests, a
// stale in-memory copy of the settings) shows up as a step whose effect is missing.

import (
	"bytes"
	"encoding/json"
	"net/url"
	"os"
	"path/filepath"
	"strings"
)

// c19Extern performs an external edit of the settings file.
func c19Extern(file string, st c19Step) {
	switch st.Op {
	case "extern-rm":
		os.Remove(file)
	case "extern-drop":
		raw, err := os.ReadFile(file)
		if err != nil {
			return
		}
		var top map[string]json.RawMessage
		if json.Unmarshal(raw, &top) != nil {
			return
		}
		var cfgs []json.RawMessage
		json.Unmarshal(top["configs"], &cfgs)
		kept := []json.RawMessage{}
		for _, c := range cfgs {
			var n struct {
				Name string `json:"name"`
			}
			json.Unmarshal(c, &n)
			if n.Name != st.Name {
				kept = append(kept, c)
			}
		}
		b, _ := json.Marshal(kept)
		top["configs"] = b
		out, _ := json.Marshal(top)
		var buf bytes.Buffer
		json.Indent(&buf, out, "", "  ")
		os.MkdirAll(filepath.Dir(file), 0o700)
		tmp := file + ".extern"
		os.WriteFile(tmp, buf.Bytes(), 0o644)
		os.Rename(tmp, file)
	}
}

// names that look URL-encoded; each is used TOGETHER with what one (and two) levels of URL decoding
// make of it, so a handler that decodes a name once too often (or once too few) names the wrong entry
var c19EncodedNames = []string{"cpu+hot", "top%2025", "a%2Bb", "x%252By", "100%25", "q%3Dv%26w", "%C3%BC", "p%2Fq%3Fr%23s", "sp%20ace+d", "%2B", "%25", "%2525"}

// names that cannot be decoded a second time, and other awkward ones
var c19AwkwardNames = []string{"100%", "%", "%zz", "+", "a&b=c", "#frag", "?q", "/etc/passwd", `"quoted"`, "it's", "ü€😀", "<b>", "a  b", strings.Repeat("very-long-name+%25-", 150) + "end"}

func c19HistNames(r *Rng) []string {
	switch r.Intn(10) {
	case 0, 1, 2:
		return []string{"X", "Y", "Z"}[:2+r.Intn(2)]
	case 3, 4, 5, 6, 7:
		x := c19EncodedNames[r.Intn(len(c19EncodedNames))]
		names := []string{x}
		for cur := x; len(names) < 3; {
			d, err := url.QueryUnescape(cur)
			if err != nil || d == cur || strings.TrimSpace(d) != d {
				break // (the harness reads names back from the rendered menu, which trims surrounding blanks)
			}
			names = append(names, d)
			cur = d
		}
		if len(names) < 3 {
			names = append(names, c19AwkwardNames[r.Intn(len(c19AwkwardNames))])
		}
		return names
	}
	a := c19AwkwardNames[r.Intn(len(c19AwkwardNames))]
	return []string{a, c19AwkwardNames[r.Intn(len(c19AwkwardNames))], "X"}
}

func c19GenHist(r *Rng, t *c19Table) c19Case {
	cs := c19Case{Kind: "seq"}
	names := c19HistNames(r)
	nsets := 2 + r.Intn(2)
	var sets []c19Step
	for i := 0; i < nsets; i++ {
		st := c19GenSave(r, t, "", true)
		delete(st.Params, "unknownparam")
		if i == 0 && r.Chance(30) {
			st.Params, st.Intent = map[string]string{}, map[string]c19Intent{} // the plain "save current view"
		}
		sets = append(sets, st)
	}
	enc := func() string {
		if r.Chance(40) {
			return "raw"
		}
		return ""
	}
	mk := func(name string, k int) c19Step {
		st := sets[k]
		return c19Step{Op: "save", Name: name, Params: st.Params, Intent: st.Intent, Enc: enc()}
	}
	var reqs []c19Step // requests issued so far (to repeat one exactly)
	if r.Chance(60) {
		// all names present at the same time before anything is deleted
		for _, nm := range names {
			st := mk(nm, r.Intn(nsets))
			reqs = append(reqs, st)
			cs.Steps = append(cs.Steps, st)
		}
	}
	n := 6 + r.Intn(11)
	for i := 0; i < n; i++ {
		var st c19Step
		switch k := r.Intn(100); {
		case k < 30 && len(reqs) > 0:
			st = reqs[r.Intn(len(reqs))] // an identical request again
			if r.Chance(50) {
				st = reqs[len(reqs)-1] // … the immediately preceding one
			}
		case k < 55:
			st = mk(names[r.Intn(len(names))], r.Intn(nsets))
		case k < 72:
			st = c19Step{Op: "delete", Name: names[r.Intn(len(names))], Enc: enc()}
		case k < 77:
			st = c19Step{Op: "delete", Name: "missing"}
		case k < 87:
			cs.Steps = append(cs.Steps, c19Step{Op: "menu", Page: c19GenPage(r)})
			continue
		case k < 94:
			cs.Steps = append(cs.Steps, c19Step{Op: "extern-drop", Name: names[r.Intn(len(names))]})
			continue
		case k < 97:
			cs.Steps = append(cs.Steps, c19Step{Op: "extern-rm"})
			continue
		default:
			cs.Steps = append(cs.Steps, c19Step{Op: "apply", Name: names[r.Intn(len(names))], Page: c19GenPage(r)})
			continue
		}
		reqs = append(reqs, st)
		if r.Chance(8) {
			st.FailAt = r.Pick([]string{"0", "1", "mid", "last-1"}) // this request's write fails part-way
		}
		cs.Steps = append(cs.Steps, st)
	}
	cs.Steps = append(cs.Steps, c19Step{Op: "menu", Page: map[string]string{}})
	return cs
}

// c19HistRepeats: the history issues some request at least twice with something in between or
// directly (the mechanism this stream exists for).
func c19HistRepeats(cs c19Case) bool {
	seen := map[string]bool{}
	for _, s := range cs.Steps {
		if s.Op != "save" && s.Op != "delete" {
			continue
		}
		k := s.request()
		if seen[k] {
			return true
		}
		seen[k] = true
	}
	return false
}
