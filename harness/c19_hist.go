//go:build verif

package main

// C19 (i'): request HISTORIES on one server instance over a small alphabet — 2-3 names × 2-3
// fixed option sets — in which identical requests recur (save X; save X again; delete X; save X
// with the same options; save Y; delete a missing name; …), interleaved with menu reads and with
// EXTERNAL edits of settings.json between requests (another pprof process removed an entry, the
// file was deleted or replaced).  Executed by runSeq: after every request the file must be what
// the Lean model (`settings.handle`) computes from the file before it, the direct oracle (saved
// options intact, others untouched, entry counts) must hold, and the menu must list the file.
// Anything the handlers remember between requests (a cache, a dedup of "identical" requests, a
// stale in-memory copy of the settings) shows up as a step whose effect is missing.

import (
	"bytes"
	"encoding/json"
	"os"
	"path/filepath"
)

// c19Extern performs an external edit of the settings file.
func c19Extern(file string, st c19Step) {
	switch st.Op {
	case "extern-rm":
		os.Remove(file)
	case "extern-drop":
		raw, err := os.ReadFile(file)
		if err != nil {
			return
		}
		var top map[string]json.RawMessage
		if json.Unmarshal(raw, &top) != nil {
			return
		}
		var cfgs []json.RawMessage
		json.Unmarshal(top["configs"], &cfgs)
		kept := []json.RawMessage{}
		for _, c := range cfgs {
			var n struct {
				Name string `json:"name"`
			}
			json.Unmarshal(c, &n)
			if n.Name != st.Name {
				kept = append(kept, c)
			}
		}
		b, _ := json.Marshal(kept)
		top["configs"] = b
		out, _ := json.Marshal(top)
		var buf bytes.Buffer
		json.Indent(&buf, out, "", "  ")
		os.MkdirAll(filepath.Dir(file), 0o700)
		tmp := file + ".extern"
		os.WriteFile(tmp, buf.Bytes(), 0o644)
		os.Rename(tmp, file)
	}
}

func c19GenHist(r *Rng, t *c19Table) c19Case {
	cs := c19Case{Kind: "seq"}
	names := []string{"X", "Y", "Z"}[:2+r.Intn(2)]
	nsets := 2 + r.Intn(2)
	var sets []c19Step
	for i := 0; i < nsets; i++ {
		st := c19GenSave(r, t, "", true)
		delete(st.Params, "unknownparam")
		if i == 0 && r.Chance(30) {
			st.Params, st.Intent = map[string]string{}, map[string]c19Intent{} // the plain "save current view"
		}
		sets = append(sets, st)
	}
	mk := func(name string, k int) c19Step {
		st := sets[k]
		return c19Step{Op: "save", Name: name, Params: st.Params, Intent: st.Intent}
	}
	var reqs []c19Step // requests issued so far (to repeat one exactly)
	n := 6 + r.Intn(11)
	for i := 0; i < n; i++ {
		var st c19Step
		switch k := r.Intn(100); {
		case k < 30 && len(reqs) > 0:
			st = reqs[r.Intn(len(reqs))] // an identical request again
			if r.Chance(50) {
				st = reqs[len(reqs)-1] // … the immediately preceding one
			}
		case k < 55:
			st = mk(names[r.Intn(len(names))], r.Intn(nsets))
		case k < 72:
			st = c19Step{Op: "delete", Name: names[r.Intn(len(names))]}
		case k < 77:
			st = c19Step{Op: "delete", Name: "missing"}
		case k < 87:
			cs.Steps = append(cs.Steps, c19Step{Op: "menu", Page: c19GenPage(r)})
			continue
		case k < 94:
			cs.Steps = append(cs.Steps, c19Step{Op: "extern-drop", Name: names[r.Intn(len(names))]})
			continue
		case k < 97:
			cs.Steps = append(cs.Steps, c19Step{Op: "extern-rm"})
			continue
		default:
			cs.Steps = append(cs.Steps, c19Step{Op: "apply", Name: names[r.Intn(len(names))], Page: c19GenPage(r)})
			continue
		}
		reqs = append(reqs, st)
		cs.Steps = append(cs.Steps, st)
	}
	cs.Steps = append(cs.Steps, c19Step{Op: "menu", Page: map[string]string{}})
	return cs
}

// c19HistRepeats: the history issues some request at least twice with something in between or
// directly (the mechanism this stream exists for).
func c19HistRepeats(cs c19Case) bool {
	seen := map[string]bool{}
	for _, s := range cs.Steps {
		if s.Op != "save" && s.Op != "delete" {
			continue
		}
		k := s.request()
		if seen[k] {
			return true
		}
		seen[k] = true
	}
	return false
}
