//go:build verif

package main

// C05 — reports with source_path / trim_path. report.newGraph rewrites every Function.Filename
// with report.trimPath before it builds a graph. The property's reading: an entry's file name is the
// profile's name trimmed ONCE; the trimmed reports (which rebuild the graph from a keep-set of
// entry identities) must show exactly the entries that survive the cutoffs, with their untrimmed
// numbers. Expected figures come from the Lean Spec with the file-name function
// Clean(trimOnce(name)) handed over as a table (like filepath.Clean otherwise): node identities are
// inputs of the Lean graph model, so "trimmed exactly once" is a statement about that table.
//
// Finding C05/trimpath/applied-once-per-rebuild (fixed by fixes/C05-trimpath-once.patch): the pinned
// tree re-ran trimPath on the already trimmed names at every rebuild; trimPath is not idempotent
// (source_path heuristic: "/r/proj/sub/proj/a.c" -> "sub/proj/a.c" -> "a.c"; relative trim_path "r":
// "r/r/a.c" -> "r/a.c" -> "a.c"), so no node of the rebuilt graph matched the keep-set and the
// report came back empty.

import (
	"fmt"
	"path/filepath"
	"strings"
)

// c05TrimOnce: what report.trimPath documents ("trim configured trim prefixes", else "search for
// basename of each search path in the original path and, if found, strip everything up to and
// including the basename"; the prefixes /proc/self/cwd/./ and /proc/self/cwd/ are always trimmed).
// An external, trusted function like filepath.Clean (listed in checks/C05.json).
func c05TrimOnce(path, trimPath, searchPath string) string {
	sPath, searchPath := filepath.ToSlash(path), filepath.ToSlash(searchPath)
	if trimPath == "" {
		for _, dir := range filepath.SplitList(searchPath) {
			want := "/" + filepath.Base(dir) + "/"
			if found := strings.Index(sPath, want); found != -1 {
				return path[found+len(want):]
			}
		}
	}
	trimPaths := append(filepath.SplitList(filepath.ToSlash(trimPath)), "/proc/self/cwd/./", "/proc/self/cwd/")
	for _, tp := range trimPaths {
		if !strings.HasSuffix(tp, "/") {
			tp += "/"
		}
		if strings.HasPrefix(sPath, tp) {
			return path[len(tp):]
		}
	}
	return path
}

// c05UsePaths installs the file-name function of a case for the Lean requests; the returned
// function restores the default.
func c05UsePaths(cs *c05Case) func() {
	if cs.SourcePath == "" && cs.TrimPath == "" {
		return func() {}
	}
	old := c04PathFn
	tp, sp := cs.TrimPath, cs.SourcePath
	c04PathFn = func(name string) string {
		t := c05TrimOnce(name, tp, sp)
		if t == "" {
			return "" // graph.nodeInfo leaves File empty for an empty name (no Clean)
		}
		return filepath.Clean(t)
	}
	return func() { c04PathFn = old }
}

// c05TrimPathStream: profiles whose file names repeat a path component that equals the basename of
// a source_path directory (or a relative trim_path), at granularities that keep file names, with
// node counts relative to the measured entry count so that the trimming removes something.
func c05TrimPathStream(c *Ctx, cliCases *[]*c05Case) {
	r := NewRng(c.Seed ^ 0x7219)
	files := []string{"/r/proj/sub/proj/a.c", "/r/proj/proj/b.c", "/r/proj/c.c", "/x/proj/proj/proj/d.go", "proj/proj/e.go",
		"r/r/f.c", "r/g.c", "/proc/self/cwd/r/h.c", "/other/i.c", "", "/r/proj/sub/./j.c"}
	type pathOpt struct{ source, trim string }
	popts := []pathOpt{{"/local/proj", ""}, {"/a/b:/local/proj", ""}, {"", "r"}, {"", "/r/proj"}, {"/local/proj", "/r"}, {"/local/sub", ""}}
	aggs := []*[6]bool{nil, {true, true, true, true, false, false}, {true, true, true, false, false, false}, {true, false, true, false, false, false}}
	for i := 0; i < 40*c.Scale; i++ {
		st := c04Strategies[i%len(c04Strategies)]
		if st == "empty" || st == "cancel" {
			st = "random"
		}
		p := genC04Profile(r, &c04GenOpts{Strategy: st})
		for j, f := range p.Function {
			f.Filename = files[(i+j*3+r.Intn(3))%len(files)]
		}
		canon := Canon(p)
		po := popts[i%len(popts)]
		rq := gReq{Agg: aggs[i%len(aggs)], VI: r.Intn(len(p.SampleType))}
		cliAble := i%len(aggs) == 1 || i%len(aggs) == 2 || i%len(aggs) == 3
		g, prob := buildGraph(canon, &rq, nil)
		if prob != "" || len(g.Nodes) < 2 {
			continue
		}
		N := len(g.Nodes)
		for k, format := range []string{"text", "tree"} {
			nc := []int{1, 2, N - 1, (N + 1) / 2}[r.Intn(4)]
			if nc < 1 {
				nc = 1
			}
			f := [][2]int64{{0, 1}, {0, 1}, {1, 16}, {1, 4}}[r.Intn(4)]
			cs := &c05Case{Level: "report", Profile: canon, Format: format, Req: rq, NodeCount: nc, FracNum: f[0], FracDen: f[1],
				EdgeNum: 0, EdgeDen: 1, CumSort: r.Bool(), SourcePath: po.source, TrimPath: po.trim}
			c.Res.Hit("trimpath-format:" + format)
			c.Res.Hit(fmt.Sprintf("trimpath-option:source=%q,trim=%q", po.source, po.trim))
			c05Removed = false
			c05Report(c, cs)
			c.Res.Count(canon+"trimpath"+fmt.Sprint(*cs), c05Removed)
			if c05Removed {
				c.Res.Hit("trimpath:graph-rebuilt-from-keep-set")
			}
			if cliAble && (i+k)%2 == 0 && c.Pprof != "" {
				cc := *cs
				cc.Level = "cli"
				cc.Req.Agg = nil
				cc.Gran = []string{"", "lines", "filefunctions", "files"}[i%len(aggs)]
				*cliCases = append(*cliCases, &cc)
				c.Res.Hit("cli-trimpath")
			}
		}
	}
}
