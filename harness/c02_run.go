//go:build verif

package main

import (
	"bytes"
	"encoding/hex"
	"encoding/json"
	"fmt"
	"os"
	"os/exec"
	"path/filepath"
	"runtime"
	"runtime/debug"
	"strings"
	"syscall"
	"time"
)

const c02Rule = "byte strings from three streams: (a) structure-aware mutations of valid encodings of generated profiles (19 named strategies: length-prefix edits, id 0 / duplicate ids, dangling references, out-of-table string indices, function removed behind a line, duplicated fields, concatenations, value-count edits, wire-type edits, string-table edits, over-long varints, bit flips, truncations, …), (b) random wire-format field soups, (c) legacy inputs: mutated repository test inputs (text: value-level edits of the numeric columns of records and headers — one column 0 / 1 / negative / huge / overflowing while its neighbours stay ordinary, all-but-one zero, all zero — edits of the trailing memory map (mapping name patterns such as empty / only \"(deleted)\" / \"[\" / bracketed / .so variants / very long / non-UTF-8, permissions, offsets, adjacent, overlapping, inverted and extreme ranges, attribute and log-prefix lines, /proc/maps and brief forms), plus line/number/hex edits; binary CPU: word-level edits of nstk/count/header/end marker) and legacy documents of every flavour (heap, heap_v2, heapz_v2, growth, fragmentation, contentionz, mutex, threadz, count, java heapz, java contentionz, binary CPU) printed with every numeric column drawn from the same per-record value patterns and a generated trailing memory map of the same dimensions; (h) a header-field grid of valid symbolized profiles (drop_frames / keep_frames each empty, valid, invalid, match-all × default_sample_type empty/known/unknown × doc_url × period_type × comments), each also through the real binary; each of (a)-(c) also wrapped in valid and corrupt gzip. (v) valid symbolized profiles with degenerate value columns (all zero, cancelling per column, zero first/last column, MinInt64/MaxInt64, single sample, -1 divisor column, diff-base labels): every report kind × 26 assignments of the numeric options (-mean, -divide_by tiny…huge/negative, -sample_index by position/name/unknown, -drop_negative, -unit) in-process and a sample of the cross through the real binary, also with -base/-diff_base -normalize of the profile itself. (z) boundary sizes: valid profiles in which every length-delimited element the encoder emits (Sample by stack depth and label count, Location by line count, strings, packed value and comment lists, scalar fields of every varint width) takes every encoded size from 0 to ~320 and crosses 127/128 and 16383/16384 (2^21 in the thorough tier); the sizes reached are read back from the written bytes (z-sizes:* in the distribution). Every accepted profile goes through Write/Copy/Compact/String, the driver's post-parse pipeline (RemoveUninteresting, CheckValid, NumLabelUnits, SampleIndexByName, nil and match-all filters, Scale/ScaleN, Normalize+Scale(-1)+Merge with itself, label edits, Aggregate at 8 granularities) and 11 in-process reports with default options plus three (report kind, numeric option assignment) pairs chosen by a hash of the profile, one of them always with -mean. Non-trivial = reaches a mechanism the property anchors: the input is accepted; or the protobuf decoder got far enough to reject it at a bounds/type/string-index/concatenation check; or it parsed and the validity gate rejected it; or a legacy parser recognised the format (accepted or failed inside it). Distinct by input bytes."

// The generated run and every replay execute in a CHILD process with a capped address space:
// an unrecoverable runtime error of the code under test (stack overflow, out of memory,
// concurrent map write) kills only the child; the parent turns the input that was in flight
// into the failing input.

func c02ChildArgs(replay, out string) []string {
	var args []string
	a := os.Args[1:]
	for i := 0; i < len(a); i++ {
		name := strings.TrimLeft(a[i], "-")
		val, hasVal := "", false
		if j := strings.IndexByte(name, '='); j >= 0 {
			name, val, hasVal = name[:j], name[j+1:], true
		} else if i+1 < len(a) {
			val = a[i+1]
			i++
			hasVal = true
		}
		if !hasVal {
			continue
		}
		switch name {
		case "out", "replay", "corpus":
			continue
		}
		args = append(args, "-"+name, val)
	}
	args = append(args, "-out", out)
	if replay != "" {
		args = append(args, "-replay", replay)
	}
	return args
}

// c02RunChild returns the child's result, or died=true with the tail of its stderr.
func c02RunChild(c *Ctx, replay string, limit time.Duration) (res *Result, died bool, stderrTail string) {
	out := filepath.Join(c.Dir, fmt.Sprintf("child-%d-%d.json", os.Getpid(), time.Now().UnixNano()))
	defer os.Remove(out)
	cmd := exec.Command(os.Args[0], c02ChildArgs(replay, out)...)
	cmd.Env = append(os.Environ(), "C02_CHILD=1")
	var stderr bytes.Buffer
	cmd.Stderr = &stderr
	cmd.Stdout = &stderr
	if err := cmd.Start(); err != nil {
		return nil, true, "cannot start child: " + err.Error()
	}
	done := make(chan error, 1)
	go func() { done <- cmd.Wait() }()
	select {
	case <-done:
	case <-time.After(limit):
		cmd.Process.Kill()
		<-done
		stderr.WriteString("\nchild killed after " + limit.String())
	}
	b, err := os.ReadFile(out)
	if err != nil {
		s := stderr.String()
		if len(s) > 1500 {
			s = s[:700] + " … " + s[len(s)-700:]
		}
		return nil, true, s
	}
	var r Result
	if json.Unmarshal(b, &r) != nil {
		return nil, true, "unreadable child result"
	}
	return &r, false, ""
}

func (c *Ctx) c02Merge(r *Result) {
	c.Res.Evaluations += r.Evaluations
	c.Res.Nontrivial += r.Nontrivial
	c.Res.ModelCompared += r.ModelCompared
	if r.Rule != "" {
		c.Res.Rule = r.Rule
	}
	for k, v := range r.Dist {
		c.Res.Dist[k] += v
	}
	for _, s := range r.Samples {
		c.Res.Sample(s)
	}
	c.Res.Notes = append(c.Res.Notes, r.Notes...)
	if r.HarnessError != "" {
		c.Res.HarnessError = r.HarnessError
	}
	for _, f := range r.Findings {
		if !c.Res.sigSeen[f.Kind+f.Signature] {
			c.Res.sigSeen[f.Kind+f.Signature] = true
			c.Res.Findings = append(c.Res.Findings, f)
		}
	}
}

func c02FatalKind(stderr string) string {
	for _, k := range []string{"stack overflow", "out of memory", "concurrent map", "cannot allocate memory", "killed after"} {
		if strings.Contains(stderr, k) {
			return strings.ReplaceAll(k, " ", "-")
		}
	}
	return "crash"
}

func c02Supervise(c *Ctx) {
	c.Res.Rule = c02Rule
	inflight := filepath.Join(c.Dir, "inflight.json")
	limit := 9 * time.Minute
	if c.Scale > 1 {
		limit = 85 * time.Minute
	}
	if c.Replay != "" {
		limit = 3 * time.Minute
	}
	tmp := filepath.Join(c.Dir, fmt.Sprintf("shrink-%d.json", os.Getpid()))
	defer os.Remove(tmp)
	diesOn := func(cand []byte, stream string) (bool, string) {
		d, _ := json.Marshal(map[string]any{"case": c02Case{Bytes: hex.EncodeToString(cand), Stream: stream}})
		os.WriteFile(tmp, d, 0o644)
		_, died, t := c02RunChild(c, tmp, 2*time.Minute)
		return died, t
	}
	for attempt := 1; attempt <= 2; attempt++ {
		os.Remove(inflight)
		r, died, tail := c02RunChild(c, c.Replay, limit)
		if !died {
			c.c02Merge(r)
			return
		}
		// the child died: the input in flight is the candidate failing input
		var doc struct {
			Case c02Case `json:"case"`
		}
		b, err := os.ReadFile(inflight)
		if err != nil || json.Unmarshal(b, &doc) != nil {
			c.Res.Notes = append(c.Res.Notes, "harness child died without an input in flight: "+tail)
			continue
		}
		raw, _ := hex.DecodeString(doc.Case.Bytes)
		// confirm in a fresh process that it is this input (and not trouble of the test machine)
		again, tail2 := diesOn(raw, doc.Case.Stream)
		if !again {
			c.Res.Notes = append(c.Res.Notes, "harness child died ("+c02FatalKind(tail)+") but the input in flight does not reproduce it; run repeated")
			continue
		}
		kind := c02FatalKind(tail2)
		if c.Res.sigSeen["violation"+"C02/fatal/"+kind] { // already reported (e.g. by a corpus case)
			os.Remove(inflight)
			return
		}
		small := c02Shrink(raw, 40, func(cand []byte) bool {
			d, t := diesOn(cand, doc.Case.Stream)
			return d && c02FatalKind(t) == kind
		})
		os.Remove(inflight)
		c.Res.Evaluations++
		c.Violation("C02/fatal/"+kind, "the process running the parser on this input dies with an unrecoverable runtime error (not even recover() helps): "+tail2,
			c02Case{Bytes: hex.EncodeToString(small), Stream: doc.Case.Stream})
		return
	}
	// resource trouble of the test machine or of the harness itself, not of pprof: fall back to the
	// quick-size run so that the property is still exercised; only if that dies too give up
	c.Res.Notes = append(c.Res.Notes, "harness child died twice without a reproducible input: generated run repeated at quick size (thorough-only cases SKIPPED)")
	os.Setenv("C02_FORCE_QUICK", "1")
	defer os.Unsetenv("C02_FORCE_QUICK")
	os.Remove(inflight)
	if r, died, tail := c02RunChild(c, c.Replay, limit); !died {
		c.c02Merge(r)
		return
	} else {
		c.Res.Notes = append(c.Res.Notes, "quick-size fallback died too: "+tail)
	}
	c.Res.HarnessError = "harness child died three times without a reproducible input (see notes)"
}

func runC02(c *Ctx) {
	if os.Getenv("C02_CHILD") == "" {
		c02Supervise(c)
		return
	}
	// child: cap the address space so that a runaway allocation fails fast instead of
	// exhausting the machine
	lim := syscall.Rlimit{Cur: 6 << 30, Max: 6 << 30}
	syscall.Setrlimit(syscall.RLIMIT_AS, &lim)
	debug.SetMemoryLimit(3 << 30) // keep the collector well below the address-space cap
	if os.Getenv("C02_FORCE_QUICK") != "" {
		c.Scale = 1
	}
	c.Res.Rule = c02Rule
	classify := func(o *c02Outcome) (nontrivial bool) {
		switch {
		case o.accepted:
			c.Res.Hit("outcome:accepted")
			return true
		case o.errText != "":
			k := c02ErrKind(o.errText)
			c.Res.Hit("outcome:err:" + k)
			if o.puOK {
				c.Res.Hit("reject:validity-gate")
				return true
			}
			if o.puErr != "" {
				pk := c02ErrKind(o.puErr)
				c.Res.Hit("proto-decoder:" + pk)
				switch pk {
				case "too much data", "malformed profile format", "type mismatch", "string_table[0]", "concatenated profiles", "not enough data", "bad varint":
					return true
				}
			}
			return o.cpu || (k != "unrecognized profile format" && k != "decompressing profile" && k != "empty input file")
		}
		return false
	}
	if c.Replay != "" {
		var cs c02Case
		if err := c.LoadReplay(&cs); err != nil {
			c.Res.HarnessError = err.Error()
			return
		}
		if cs.Profile != "" {
			p, err := ParseCanon(cs.Profile)
			if err != nil {
				c.Res.HarnessError = "replay profile: " + err.Error()
				return
			}
			c02CheckGenerated(c, p, cs.Stream)
			c.Res.Count(cs.Profile, true)
			os.Remove(filepath.Join(c.Dir, "inflight.json"))
			return
		}
		raw, err := hex.DecodeString(cs.Bytes)
		if err != nil {
			c.Res.HarnessError = "replay bytes: " + err.Error()
			return
		}
		o := c02Check(c, raw, cs.Stream, cs.CLI)
		if len(cs.Cmds) > 0 && o.accepted {
			c02CLI(c, raw, cs.Stream, cs.Cmds)
		}
		c.Res.Count(cs.Bytes, classify(o))
		os.Remove(filepath.Join(c.Dir, "inflight.json"))
		return
	}
	scale := c.Scale
	if scale > 1 { // thorough: 40x the quick counts (≈ 200 k inputs, ≈ 10–15 min)
		scale *= 2
	}
	r := NewRng(c.Seed)
	seeds := c02LoadSeeds()
	if len(seeds) == 0 {
		c.Res.Notes = append(c.Res.Notes, "profile/testdata not readable: legacy stream uses generated documents only")
	}
	type accepted struct {
		raw    []byte
		stream string
	}
	var pool []accepted
	seenAcc := map[string]bool{}
	nSample := 0
	aborted := false
	one := func(raw []byte, stream string) {
		if aborted {
			return
		}
		if len(raw) > 64<<10 && !strings.HasPrefix(stream, "z:") { // boundary-size inputs keep their size
			raw = raw[:64<<10]
		}
		o := c02Check(c, raw, stream, false)
		if strings.Contains(o.sig, "timeout") {
			// a runaway goroutine is still burning CPU/memory: stop here, the finding is recorded
			aborted = true
			c.Res.Notes = append(c.Res.Notes, "run stopped after a timeout (the stuck goroutine cannot be killed)")
		}
		c.Res.Hit("stream:" + stream)
		for _, rs := range o.reports {
			c.Res.Hit("report:" + rs)
		}
		nt := classify(o)
		if o.accepted && !seenAcc[o.canon] {
			seenAcc[o.canon] = true
			pool = append(pool, accepted{raw, stream})
		}
		c.Res.Count(hex.EncodeToString(raw), nt)
		if nSample < 5 && nt && len(raw) < 300 && (nSample%2 == 0) == o.accepted {
			nSample++
			c.Res.Sample(map[string]string{"stream": stream, "bytes": hex.EncodeToString(raw), "accepted": fmt.Sprint(o.accepted), "error": c02Trunc(o.errText)})
		}
	}
	maybeGz := func(raw []byte, stream string) {
		one(raw, stream)
		if r.Chance(10) {
			kind, gz := c02GzipVariant(r, raw)
			one(gz, stream+"+"+kind)
		}
	}

	// C02_STREAMS (debugging aid): restrict the generated run to the named streams, e.g. "z" or "ab"
	on := func(l string) bool {
		sel := os.Getenv("C02_STREAMS")
		return sel == "" || strings.Contains(sel, l)
	}
	gate := func(l string, n int) int {
		if on(l) {
			return n
		}
		return 0
	}
	// (a) structure-aware mutations of valid encodings
	na := gate("a", 600*scale)
	var prev []byte
	for i := 0; i < na && !aborted; i++ {
		st := c02GenStrategies[i%len(c02GenStrategies)]
		opts := st.o
		p := GenProfile(r, &opts)
		valid, _ := c02WriteU(p)
		if prev == nil {
			prev = valid
		}
		if i%8 == 0 {
			maybeGz(valid, "a:valid")
		}
		for k := 0; k < 4; k++ {
			strat := c02StructStrategies[r.Intn(len(c02StructStrategies))]
			mb := c02MutateStruct(r, strat, valid, prev)
			if r.Chance(15) { // stack a second mutation
				mb = c02MutateStruct(r, c02StructStrategies[r.Intn(len(c02StructStrategies))], mb, prev)
			}
			c.Res.Hit("a-strategy:" + strat)
			maybeGz(mb, "a:mutated")
		}
		prev = valid
	}
	// (b) random field soups
	nb := gate("b", 800*scale)
	for i := 0; i < nb && !aborted; i++ {
		budget := 40 + r.Intn(200)
		maybeGz(c02Soup(r, c02ProfSchema, 0, &budget), "b:soup")
	}
	// (c) legacy
	textMut := func(doc []byte) ([]byte, string) {
		switch k := r.Intn(100); {
		case k < 30: // the trailing memory map: names, permissions, offsets, ranges, attributes
			return c02MutateMapLines(r, doc), "memory-map"
		case k < 38:
			return c02MutateMapLines(r, c02MutateColumns(r, doc)), "columns+memory-map"
		case k < 65: // value-level: numeric columns of records and headers
			return c02MutateColumns(r, doc), "columns"
		case k < 75: // both
			return c02MutateText(r, c02MutateColumns(r, doc)), "columns+text"
		default:
			return c02MutateText(r, doc), "text"
		}
	}
	nc := gate("c", 1500*scale)
	for i := 0; i < nc && !aborted; i++ {
		switch {
		case len(seeds) > 0 && i%5 == 0:
			s := seeds[r.Intn(len(seeds))]
			if i < 5*len(seeds) { // every seed unmodified once
				s = seeds[(i/5)%len(seeds)]
				maybeGz(s.data, "c:seed")
			}
			if s.binary {
				maybeGz(c02MutateBinary(r, s.data), "c:seed-binary-mutated")
			} else {
				m, how := textMut(s.data)
				c.Res.Hit("c-text-mutation:" + how)
				maybeGz(m, "c:seed-text-mutated")
			}
		case len(seeds) > 0 && i%5 == 1: // text seeds only: value-level edits
			var texts []c02Seed
			for _, s := range seeds {
				if !s.binary {
					texts = append(texts, s)
				}
			}
			if len(texts) > 0 {
				s := texts[r.Intn(len(texts))]
				c.Res.Hit("c-text-mutation:columns")
				maybeGz(c02MutateColumns(r, s.data), "c:seed-text-columns")
			}
		case i%5 == 2:
			doc := c02GenBinaryCPU(r)
			if r.Chance(35) {
				maybeGz(doc, "c:gen-binary")
			} else {
				maybeGz(c02MutateBinary(r, doc), "c:gen-binary-mutated")
			}
		default:
			kind, doc := c02GenTextLegacy(r)
			c.Res.Hit("c-gen-text:" + kind)
			if r.Chance(60) { // the printers already draw every column from the value patterns
				maybeGz(doc, "c:gen-text")
			} else {
				m, how := textMut(doc)
				c.Res.Hit("c-text-mutation:" + how)
				maybeGz(m, "c:gen-text-mutated")
			}
		}
	}
	// (h) header-field grid: valid symbolized profiles with every combination of drop_frames /
	// keep_frames (empty, valid, invalid, match-all) × default_sample_type (empty, known, unknown)
	// × doc_url × period_type × comments; in-process pipeline and reports for each, and the real
	// binary for every drop×keep combination
	nh := 64
	if scale > 1 {
		nh = 2 * c02HdrCombos
	}
	nh = gate("h", nh)
	off := r.Intn(c02HdrCombos)
	cliSeen := map[int]bool{}
	for i := 0; i < nh && !aborted; i++ {
		// stride 37 is coprime to 576: consecutive cases differ in every coordinate
		k := (off + i*37) % c02HdrCombos
		p, desc := c02HeaderProfile(r, k)
		raw, pn := c02WriteU(p)
		if pn != "" {
			continue
		}
		c.Res.Hit("h-dropkeep:" + fmt.Sprint(k%16))
		before := len(c.Res.Findings)
		one(raw, "h:header-grid")
		if len(c.Res.Findings) > before {
			c.Res.Notes = append(c.Res.Notes, "header-grid case: "+desc)
		}
		if !cliSeen[k%16] || scale > 1 && i%8 == 0 {
			cliSeen[k%16] = true
			c.Res.Hit("cli:inputs")
			c02CLI(c, raw, "h:header-grid", []string{"-top", c02CLICommands[r.Intn(len(c02CLICommands))]})
		}
	}
	// (z) boundary sizes of every length-delimited element the encoder emits
	sizes := map[string]map[int]bool{}
	for _, bc := range c02BoundaryCases(r, scale > 1) {
		if aborted || !on("z") {
			break
		}
		raw, pn := c02WriteU(bc.p)
		if pn != "" {
			c.Violation("C02/write/panic-on-generated", "WriteUncompressed panics on a valid generated profile ("+bc.name+"): "+pn, c02Case{Profile: Canon(bc.p), Stream: "z:" + bc.name})
			continue
		}
		c.Res.Hit("z-case:" + bc.name)
		c02ElementSizes(raw, func(kind string, size int) {
			if sizes[kind] == nil {
				sizes[kind] = map[int]bool{}
			}
			sizes[kind][size] = true
		})
		if o := c02CheckGenerated(c, bc.p, "z:"+bc.name); o != nil {
			c.Res.Hit("stream:z:" + bc.name)
			c.Res.Count(fmt.Sprintf("z:%s:%d", bc.name, len(raw)), true)
		}
	}
	if scale > 1 && on("z") && !aborted {
		for _, mk := range c02BigBoundaryCases() {
			bc := mk()
			c02BigBoundary(c, bc)
			bc.p = nil
			runtime.GC()
			debug.FreeOSMemory()
		}
	}
	for kind, set := range sizes {
		n, around128, around16k := 0, 0, 0
		for sz := range set {
			if sz <= 320 {
				n++
			}
			if sz >= 126 && sz <= 130 {
				around128++
			}
			if sz >= 16382 && sz <= 16386 {
				around16k++
			}
		}
		c.Res.Dist[fmt.Sprintf("z-sizes:%s:distinct<=320", kind)] = n
		c.Res.Dist[fmt.Sprintf("z-sizes:%s:of-126..130", kind)] = around128
		c.Res.Dist[fmt.Sprintf("z-sizes:%s:of-16382..16386", kind)] = around16k
	}
	// (v) degenerate value columns: valid symbolized profiles whose columns are all zero, cancel
	// to zero, have a zero first / last column, MinInt64 / MaxInt64, a single sample, …; every
	// report kind × every numeric option assignment in-process, and a sample of the cross
	// (always including -mean) through the real binary, also with the profile as its own base
	nv := 3 * len(c02ValuePatterns)
	if scale > 1 {
		nv = 12 * len(c02ValuePatterns)
	}
	nv = gate("v", nv)
	for i := 0; i < nv && !aborted; i++ {
		pat := c02ValuePatterns[i%len(c02ValuePatterns)]
		p := c02ValueProfile(r, pat)
		raw, pn := c02WriteU(p)
		if pn != "" {
			continue
		}
		c.Res.Hit("v-pattern:" + pat)
		one(raw, "v:values")
		if i < len(c02ValuePatterns) || scale > 1 && i%4 == 0 {
			var cmds []string
			add := func(kind string, o c02ROpt, extra ...string) {
				if fl, ok := c02CLIFlags(p, o); ok {
					cmds = append(cmds, strings.Join(append(append([]string{kind}, fl...), extra...), "\x1f"))
				}
			}
			add(c02CLICommands[r.Intn(len(c02CLICommands))], c02ROpts[r.Intn(c02NMeanOpts)])
			add("-top", c02ROpts[0])
			for k := 0; k < 3; k++ {
				add(c02CLICommands[r.Intn(len(c02CLICommands))], c02ROpts[r.Intn(len(c02ROpts))])
			}
			add(c02CLICommands[r.Intn(len(c02CLICommands))], c02ROpts[r.Intn(len(c02ROpts))], "-normalize", "-diff_base={file}")
			add("-top", c02ROpt{}, "-base={file}")
			c.Res.Hit("cli:inputs")
			c02CLI(c, raw, "v:values", cmds)
		}
	}
	// a few fixed degenerate inputs
	for _, raw := range [][]byte{nil, {}, {0}, {0x1f}, {0x1f, 0x8b}, {0x1f, 0x8b, 8}, bytes.Repeat([]byte{0xff}, 64), bytes.Repeat([]byte{0x80}, 64), bytes.Repeat([]byte{0x0a}, 1000), []byte("\n"), []byte("heap profile: "), c02Gzip(nil)} {
		one(raw, "fixed")
	}
	// the real CLI on a sample of accepted inputs (quick: a handful, thorough: several hundred)
	ncli := 12
	if c.Scale > 1 {
		ncli = 400
	}
	for i := 0; i < ncli && len(pool) > 0 && !aborted; i++ {
		a := pool[r.Intn(len(pool))]
		cmds := c02CLICommands
		if c.Scale == 1 { // quick: three commands per input
			cmds = []string{c02CLICommands[r.Intn(len(c02CLICommands))], c02CLICommands[r.Intn(len(c02CLICommands))], "-top"}
		}
		// numeric options on half of the commands (index-form sample_index only: no profile at hand)
		cmds = append([]string(nil), cmds...)
		for j := range cmds {
			if r.Bool() {
				o := c02ROpts[r.Intn(len(c02ROpts))]
				if strings.HasPrefix(o.sampleIndex, "@") || strings.HasPrefix(o.sampleIndex, "#") {
					o.sampleIndex = "0"
				}
				if fl, ok := c02CLIFlags(nil, o); ok && len(fl) > 0 {
					cmds[j] += "\x1f" + strings.Join(fl, "\x1f")
				}
			}
		}
		cmds = append(cmds, "-top\x1f-mean")
		c.Res.Hit("cli:inputs")
		c02CLI(c, a.raw, a.stream, cmds)
	}
	os.Remove(filepath.Join(c.Dir, "inflight.json"))
}
