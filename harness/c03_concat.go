//go:build verif

package main

import (
	"fmt"

	"github.com/google/pprof/profile"
)

// "Ambiguous concatenation": the merge keys are built by JOINING variable-length lists of
// fields (Location.key: the fields of every line; sampleKey: location ids, string labels,
// numeric labels, units). If a field, a count or a separator is left out under some condition,
// two DIFFERENT lists flatten to the same key although no pair differing in one attribute
// collides. Generic strategy: take a flat word w of small numbers and realise EVERY way of
// segmenting it into the key's variable-length parts as a separate entity — lines that take
// 3, 2 or 1 numbers of w (the missing fields being zero), samples whose stack / string label /
// numeric label / unit boundaries fall at every position of w. The merged function and
// location ids are pinned to 1..5 by a primer sample, so ids, line numbers, columns, byte values
// and counts all range over the same tiny set. Oracle: the Spec weight table, as always.

const concatK = 5

func concatBase() *profile.Profile {
	p := &profile.Profile{
		SampleType: []*profile.ValueType{{Type: "samples", Unit: "count"}, {Type: "cpu", Unit: "ns"}},
		PeriodType: &profile.ValueType{Type: "cpu", Unit: "ns"}, Period: 1,
	}
	m := &profile.Mapping{ID: 1, Start: 0x1000, Limit: 0x9000, File: "/bin/a", BuildID: "b1", HasFunctions: true}
	p.Mapping = []*profile.Mapping{m}
	for i := 1; i <= concatK; i++ {
		p.Function = append(p.Function, &profile.Function{ID: uint64(i), Name: string(rune('a' + i - 1)), SystemName: string(rune('a' + i - 1)), Filename: "x.go", StartLine: 1})
	}
	return p
}

// segmentations of w into chunks of 1..3 numbers, at most maxParts chunks.
func compositions(n, maxParts int) [][]int {
	var out [][]int
	var rec func(rest int, cur []int)
	rec = func(rest int, cur []int) {
		if rest == 0 {
			out = append(out, append([]int{}, cur...))
			return
		}
		if len(cur) == maxParts {
			return
		}
		for k := 1; k <= 3 && k <= rest; k++ {
			rec(rest-k, append(cur, k))
		}
	}
	rec(n, nil)
	return out
}

// chainsOf: every inline chain whose fields, with zero fields dropped, read w.
func chainsOf(p *profile.Profile, w []int64) [][]profile.Line {
	var out [][]profile.Line
	seen := map[string]bool{}
	for _, comp := range compositions(len(w), 4) {
		// each 2-chunk has two readings (column missing / line missing)
		n2 := 0
		for _, k := range comp {
			if k == 2 {
				n2++
			}
		}
		for mask := 0; mask < 1<<uint(n2); mask++ {
			var chain []profile.Line
			pos, bit, ok := 0, 0, true
			for _, k := range comp {
				fid := w[pos]
				if fid < 1 || fid > concatK {
					ok = false
					break
				}
				ln := profile.Line{Function: p.Function[fid-1]}
				switch k {
				case 3:
					ln.Line, ln.Column = w[pos+1], w[pos+2]
				case 2:
					if mask>>uint(bit)&1 == 0 {
						ln.Line = w[pos+1]
					} else {
						ln.Column = w[pos+1]
					}
					bit++
				}
				chain = append(chain, ln)
				pos += k
			}
			if !ok {
				continue
			}
			key := ""
			for _, ln := range chain {
				key += fmt.Sprintf("%d,%d,%d;", ln.Function.ID, ln.Line, ln.Column)
			}
			if !seen[key] {
				seen[key] = true
				out = append(out, chain)
			}
		}
	}
	return out
}

func randWord(r *Rng, n int, lo, hi int64) []int64 {
	w := make([]int64, n)
	for i := range w {
		w[i] = lo + int64(r.Intn(int(hi-lo+1)))
	}
	return w
}

// genLineSegSoup: all segmentations of one word as inline chains at ONE address.
// split=false: one profile; split=true: the chains are dealt alternately to two inputs.
func genLineSegSoup(r *Rng, split bool) c03Gen {
	w := randWord(r, 5+r.Intn(4), 1, concatK)
	mk := func() *profile.Profile {
		p := concatBase()
		primer := &profile.Location{ID: 1, Mapping: p.Mapping[0], Address: 0x1800}
		for _, f := range p.Function {
			primer.Line = append(primer.Line, profile.Line{Function: f, Line: 9, Column: 9})
		}
		p.Location = []*profile.Location{primer}
		p.Sample = []*profile.Sample{{Location: []*profile.Location{primer}, Value: []int64{1, 1}}}
		return p
	}
	ps := []*profile.Profile{mk()}
	if split {
		ps = append(ps, mk())
	}
	chains := chainsOf(ps[0], w)
	for i, j := range shuffleInts(r, len(chains)) { // order of first appearance varies
		if i < j {
			chains[i], chains[j] = chains[j], chains[i]
		}
	}
	if len(chains) > 40 {
		chains = chains[:40]
	}
	for i, ch := range chains {
		p := ps[i%len(ps)]
		lines := make([]profile.Line, len(ch))
		for j, ln := range ch {
			lines[j] = profile.Line{Function: p.Function[ln.Function.ID-1], Line: ln.Line, Column: ln.Column}
		}
		l := &profile.Location{ID: uint64(len(p.Location) + 1), Mapping: p.Mapping[0], Address: 0x1100, Line: lines}
		p.Location = append(p.Location, l)
		p.Sample = append(p.Sample, &profile.Sample{Location: []*profile.Location{l}, Value: []int64{int64(i + 2), 1}})
	}
	kind := "concat-lines/same-profile"
	if split {
		kind = "concat-lines/cross-inputs"
	}
	return c03Gen{kind: kind, tag: fmt.Sprintf("w=%v", w), profiles: ps}
}

func bytesOf(w []int64) string {
	b := make([]byte, len(w))
	for i, v := range w {
		b[i] = byte(v)
	}
	return string(b)
}

// genKeySegSoup: all ways of reading one word as (stack ids | string label | numeric label | units).
func genKeySegSoup(r *Rng, split bool) c03Gen {
	w := randWord(r, 3+r.Intn(5), 0, 3)
	mk := func() *profile.Profile {
		p := concatBase()
		var stack []*profile.Location
		for i := 1; i <= concatK; i++ {
			l := &profile.Location{ID: uint64(i), Mapping: p.Mapping[0], Address: 0x1000 + uint64(i)*0x10,
				Line: []profile.Line{{Function: p.Function[i-1], Line: 1}}}
			p.Location = append(p.Location, l)
			stack = append(stack, l)
		}
		p.Sample = []*profile.Sample{{Location: stack, Value: []int64{1, 1}}} // primer: merged location ids 1..5
		return p
	}
	type sm struct {
		ids []int64
		L   map[string][]string
		N   map[string][]int64
		U   map[string][]string
	}
	var sms []sm
	seen := map[string]bool{}
	add := func(x sm) {
		k := fmt.Sprintf("%v|%v|%v|%v", x.ids, x.L, x.N, x.U)
		if !seen[k] {
			seen[k] = true
			sms = append(sms, x)
		}
	}
	for j := 0; j <= 3 && j <= len(w); j++ {
		ok := true
		for _, v := range w[:j] {
			if v < 1 || v > concatK {
				ok = false
			}
		}
		if !ok {
			break
		}
		ids, rest := w[:j], w[j:]
		add(sm{ids: ids})
		if len(rest) == 0 {
			continue
		}
		add(sm{ids: ids, L: map[string][]string{"k": {bytesOf(rest)}}})
		add(sm{ids: ids, L: map[string][]string{bytesOf(rest[:1]): {bytesOf(rest[1:])}}})
		add(sm{ids: ids, L: map[string][]string{bytesOf(rest): {}}})
		add(sm{ids: ids, N: map[string][]int64{"k": append([]int64{}, rest...)}})
		add(sm{ids: ids, N: map[string][]int64{bytesOf(rest[:1]): append([]int64{}, rest[1:]...)}})
		add(sm{ids: ids, N: map[string][]int64{"k": {rest[0]}}, U: map[string][]string{"k": {bytesOf(rest[1:])}}})
		if len(rest) >= 4 && rest[0] != rest[2] && rest[0] != rest[3] {
			// two numeric keys: the unit of the first vs the key of the second, a value vs a key byte
			r0, r1, r2, r3 := bytesOf(rest[:1]), rest[1], bytesOf(rest[2:3]), bytesOf(rest[3:4])
			tail := append([]int64{}, rest[4:]...)
			add(sm{ids: ids, N: map[string][]int64{r0: {r1}, r3: tail}, U: map[string][]string{r0: {r2}}})
			add(sm{ids: ids, N: map[string][]int64{r0: {r1}, r2: append([]int64{rest[3]}, tail...)}, U: map[string][]string{r2: append([]string{""}, make([]string, len(tail))...)}})
			add(sm{ids: ids, N: map[string][]int64{r0: {r1}, r2: append([]int64{rest[3]}, tail...)}})
			add(sm{ids: ids, L: map[string][]string{r0: {r2}, r3: {}}})
			add(sm{ids: ids, L: map[string][]string{r0: {}, r2: {r3}}})
		}
		for i := 1; i < len(rest); i++ {
			add(sm{ids: ids, L: map[string][]string{"k": {bytesOf(rest[:i]), bytesOf(rest[i:])}}})
			add(sm{ids: ids, L: map[string][]string{"k": {bytesOf(rest[:i])}}, N: map[string][]int64{"k": append([]int64{}, rest[i:]...)}})
			add(sm{ids: ids, L: map[string][]string{bytesOf(rest[:i]): {}, bytesOf(rest[i:]): {}}})
			add(sm{ids: ids, N: map[string][]int64{bytesOf(rest[:i]): {}, bytesOf(rest[i:]): {}}})
			us := make([]string, i)
			for a := range us {
				us[a] = ""
			}
			us[0] = bytesOf(rest[i:])
			add(sm{ids: ids, N: map[string][]int64{"k": append([]int64{}, rest[:i]...)}, U: map[string][]string{"k": us}})
		}
	}
	for i, j := range shuffleInts(r, len(sms)) {
		if i < j {
			sms[i], sms[j] = sms[j], sms[i]
		}
	}
	if len(sms) > 60 {
		sms = sms[:60]
	}
	ps := []*profile.Profile{mk()}
	if split {
		ps = append(ps, mk())
	}
	for i, x := range sms {
		p := ps[i%len(ps)]
		s := &profile.Sample{Value: []int64{int64(i + 2), 1}, Label: x.L, NumLabel: x.N, NumUnit: x.U}
		for _, id := range x.ids {
			s.Location = append(s.Location, p.Location[id-1])
		}
		p.Sample = append(p.Sample, s)
	}
	kind := "concat-samplekey/same-profile"
	if split {
		kind = "concat-samplekey/cross-inputs"
	}
	return c03Gen{kind: kind, tag: fmt.Sprintf("w=%v", w), profiles: ps}
}
