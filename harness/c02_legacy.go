//go:build verif

package main

// Stream (c) of C02: legacy inputs. Seeds are the legacy test inputs of the repository
// (profile/testdata, read at run time from the tree under test) plus generated documents of
// every legacy flavour; mutations are byte-, line-, number- and word-level.

import (
	"bytes"
	"compress/gzip"
	"encoding/binary"
	"fmt"
	"os"
	"path/filepath"
	"regexp"
	"sort"
	"strings"
)

type c02Seed struct {
	name   string
	data   []byte
	binary bool
}

func c02LoadSeeds() []c02Seed {
	repo := os.Getenv("VERIF_REPO")
	if repo == "" {
		repo = "/repo"
	}
	files, _ := filepath.Glob(filepath.Join(repo, "profile", "testdata", "*"))
	sort.Strings(files)
	var out []c02Seed
	for _, f := range files {
		if strings.HasSuffix(f, ".string") {
			continue
		}
		b, err := os.ReadFile(f)
		if err != nil || len(b) == 0 || len(b) > 64<<10 {
			continue
		}
		name := filepath.Base(f)
		out = append(out, c02Seed{name: name, data: b, binary: strings.HasSuffix(name, ".cpu") && !bytes.HasPrefix(b, []byte{0x1f, 0x8b})})
	}
	return out
}

var c02DigitsRE = regexp.MustCompile(`[0-9]+`)
var c02HexRE = regexp.MustCompile(`0x[0-9a-f]+`)

var c02Numbers = []string{"0", "1", "-1", "18446744073709551615", "18446744073709551616", "9223372036854775807",
	"9223372036854775808", "99999999999999999999999999", "", "00000000000000000000001", "4294967296", "524288", "2147483648"}
var c02Hexes = []string{"0x0", "0x1", "0xffffffffffffffff", "0x10000000000000000", "0x", "0xfffffffffffffffffffffff", "0x400000", "0x7fffffffffffffff"}

// ---- value-level strategies for the numeric columns of the text formats ----
//
// Every record of every text legacy format carries a few decimal columns that the parsers
// combine arithmetically (size/count block sizes, scaleHeapSample rates, period and cycles
// scaling, java "bytes" labels). The failure class to reach is "one column is 0 (or 1,
// negative, huge) while its neighbours are ordinary", so columns are drawn per RECORD from a
// pattern, not independently.

var c02Special = []string{"0", "1", "-1", "2", "9223372036854775807", "9223372036854775808", "18446744073709551615",
	"18446744073709551616", "99999999999999999999999999", "4294967296", "2147483648", "524288", "-9223372036854775808", "00", "007"}

func c02Ordinary(r *Rng) string {
	switch r.Intn(4) {
	case 0:
		return fmt.Sprint(1 + r.Intn(9))
	case 1:
		return fmt.Sprint(1 + r.Intn(100000))
	case 2:
		return fmt.Sprint(1 + r.Intn(1<<30))
	default:
		return fmt.Sprint(1 + r.Intn(1000))
	}
}

// c02Cols draws the n numeric columns of one record.
func c02Cols(r *Rng, n int) []string {
	out := make([]string, n)
	for i := range out {
		out[i] = c02Ordinary(r)
	}
	if n == 0 {
		return out
	}
	switch k := r.Intn(100); {
	case k < 30: // all ordinary, non-zero
	case k < 55: // exactly one column zero, its neighbours are not
		out[r.Intn(n)] = "0"
	case k < 65: // exactly one column one
		out[r.Intn(n)] = "1"
	case k < 75: // exactly one column special (negative, huge, overflowing, …)
		out[r.Intn(n)] = c02Special[r.Intn(len(c02Special))]
	case k < 83: // all but one column zero
		keep := r.Intn(n)
		for i := range out {
			if i != keep {
				out[i] = "0"
			}
		}
	case k < 90: // all zero
		for i := range out {
			out[i] = "0"
		}
	default: // every column independently special or ordinary
		for i := range out {
			if r.Bool() {
				out[i] = c02Special[r.Intn(len(c02Special))]
			}
		}
	}
	return out
}

// a decimal column: a run of digits (optionally signed) that is not part of a hex literal,
// a word or a longer number, left of the '@' that starts the address list of the record.
var c02ColRE = regexp.MustCompile(`-?[0-9]+`)

func c02ColumnSpans(line []byte) [][]int {
	limit := len(line)
	if i := bytes.IndexByte(line, '@'); i >= 0 {
		limit = i
	}
	var out [][]int
	for _, m := range c02ColRE.FindAllIndex(line[:limit], -1) {
		if m[0] > 0 {
			c := line[m[0]-1]
			if c == 'x' || c == 'X' || c == '_' || c == '.' || (c >= 'a' && c <= 'z') || (c >= 'A' && c <= 'Z') {
				continue
			}
		}
		if m[1] < len(line) {
			c := line[m[1]]
			if c == 'x' || c == '-' || c == '.' || c == '_' || (c >= 'a' && c <= 'z') || (c >= 'A' && c <= 'Z') {
				continue
			}
		}
		out = append(out, m)
	}
	return out
}

// c02MutateColumns rewrites the numeric columns of 1..3 records (lines) of a text document
// according to the per-record patterns of c02Cols, or sets a single column and leaves the
// rest of the record as it is.
func c02MutateColumns(r *Rng, doc []byte) []byte {
	lines := bytes.SplitAfter(doc, []byte("\n"))
	var cand []int
	for i, l := range lines {
		if len(l) < 4096*16 && len(c02ColumnSpans(l)) > 0 {
			cand = append(cand, i)
		}
	}
	if len(cand) == 0 {
		return c02MutateText(r, doc)
	}
	for k, n := 0, 1+r.Intn(3); k < n; k++ {
		li := cand[r.Intn(len(cand))]
		if r.Chance(35) && len(cand) > 3 { // the first records and the header lines matter most
			li = cand[r.Intn(min(len(cand), 6))]
		}
		line := lines[li]
		spans := c02ColumnSpans(line)
		if len(spans) == 0 {
			continue
		}
		var vals []string
		if r.Chance(55) { // whole record from a pattern
			vals = c02Cols(r, len(spans))
		} else { // one column only
			vals = make([]string, len(spans))
			for i, sp := range spans {
				vals[i] = string(line[sp[0]:sp[1]])
			}
			v := "0"
			if !r.Chance(50) {
				v = c02Special[r.Intn(len(c02Special))]
			}
			vals[r.Intn(len(vals))] = v
		}
		var nl []byte
		prev := 0
		for i, sp := range spans {
			nl = append(nl, line[prev:sp[0]]...)
			nl = append(nl, vals[i]...)
			prev = sp[1]
		}
		nl = append(nl, line[prev:]...)
		lines[li] = nl
	}
	return bytes.Join(lines, nil)
}

// c02MutateText: line- and number-level edits of a text document.
func c02MutateText(r *Rng, doc []byte) []byte {
	out := append([]byte(nil), doc...)
	for k, n := 0, 1+r.Intn(3); k < n; k++ {
		switch r.Intn(9) {
		case 0: // replace one decimal number
			locs := c02DigitsRE.FindAllIndex(out, -1)
			if len(locs) > 0 {
				l := locs[r.Intn(len(locs))]
				out = append(append(append([]byte(nil), out[:l[0]]...), c02Numbers[r.Intn(len(c02Numbers))]...), out[l[1]:]...)
			}
		case 1: // replace one hex address
			locs := c02HexRE.FindAllIndex(out, -1)
			if len(locs) > 0 {
				l := locs[r.Intn(len(locs))]
				out = append(append(append([]byte(nil), out[:l[0]]...), c02Hexes[r.Intn(len(c02Hexes))]...), out[l[1]:]...)
			}
		case 2, 3: // delete / duplicate / swap lines
			lines := bytes.SplitAfter(out, []byte("\n"))
			if len(lines) > 1 {
				i, j := r.Intn(len(lines)), r.Intn(len(lines))
				switch r.Intn(3) {
				case 0:
					lines = append(lines[:i:i], lines[i+1:]...)
				case 1:
					lines = append(lines[:i+1:i+1], append([][]byte{lines[i]}, lines[i+1:]...)...)
				case 2:
					lines[i], lines[j] = lines[j], lines[i]
				}
				out = bytes.Join(lines, nil)
			}
		case 4: // truncate
			if len(out) > 0 {
				out = out[:r.Intn(len(out))]
			}
		case 5: // splice a header / sentinel of another format somewhere
			ins := []string{"--- Memory map: ---\n", "MAPPED_LIBRARIES:\n", "--- heapz 1 ---\n", "--- contentionz 1 ---\n", "--- threadz 1 ---\n",
				"heap profile: 1: 2 [ 3: 4] @ heap_v2/524288\n", "format = java\n", "resolution = bytes\n", "sampling period = 0\n", "cycles/second = 0\n",
				"goroutine profile: total 1\n", "00400000-00401000 r-xp 00000000 00:00 0 /bin/x\n", "a=b\n", "$a=$a$a\n", "=\n", "\n\n", "@", " @ ", "\x00", "\r\n"}
			s := ins[r.Intn(len(ins))]
			i := 0
			if len(out) > 0 {
				i = r.Intn(len(out))
				if r.Bool() { // at a line start
					if j := bytes.LastIndexByte(out[:i], '\n'); j >= 0 {
						i = j + 1
					} else {
						i = 0
					}
				}
			}
			out = append(append(append([]byte(nil), out[:i]...), s...), out[i:]...)
		case 6: // remove all newlines from a stretch (a very long line)
			if len(out) > 0 {
				i := r.Intn(len(out))
				j := i + r.Intn(len(out)-i)
				seg := bytes.ReplaceAll(out[i:j], []byte("\n"), []byte(" "))
				out = append(append(append([]byte(nil), out[:i]...), seg...), out[j:]...)
			}
		default:
			out = mutateBytes(r, out)
		}
	}
	return out
}

type c02WordKind struct {
	size int
	bo   binary.ByteOrder
}

var c02WordKinds = []c02WordKind{{4, binary.LittleEndian}, {4, binary.BigEndian}, {8, binary.LittleEndian}, {8, binary.BigEndian}}

func (k c02WordKind) put(out []byte, v uint64) []byte {
	if k.size == 4 {
		var t [4]byte
		k.bo.PutUint32(t[:], uint32(v))
		return append(out, t[:]...)
	}
	var t [8]byte
	k.bo.PutUint64(t[:], v)
	return append(out, t[:]...)
}

// c02DetectWords guesses the word kind of a binary CPU profile from its header.
func c02DetectWords(b []byte) (c02WordKind, bool) {
	for _, k := range c02WordKinds {
		if len(b) < 5*k.size {
			continue
		}
		get := func(i int) uint64 {
			if k.size == 4 {
				return uint64(k.bo.Uint32(b[i*4:]))
			}
			return k.bo.Uint64(b[i*8:])
		}
		if get(0) == 0 && get(1) == 3 && get(2) <= 1 && get(3) > 0 && get(4) == 0 {
			return k, true
		}
	}
	return c02WordKind{}, false
}

// c02MutateBinary: word-level edits of a binary CPU profile (falls back to byte edits).
func c02MutateBinary(r *Rng, doc []byte) []byte {
	k, ok := c02DetectWords(doc)
	if ok && r.Chance(20) { // the text tail (memory map) of a binary CPU profile
		return c02MutateMapLines(r, doc)
	}
	if !ok || r.Chance(25) {
		return mutateBytes(r, doc)
	}
	out := append([]byte(nil), doc...)
	nw := len(out) / k.size
	setWord := func(i int, v uint64) {
		if i < 0 || i >= nw {
			return
		}
		if k.size == 4 {
			k.bo.PutUint32(out[i*4:], uint32(v))
		} else {
			k.bo.PutUint64(out[i*8:], v)
		}
	}
	getWord := func(i int) uint64 {
		if k.size == 4 {
			return uint64(k.bo.Uint32(out[i*4:]))
		}
		return k.bo.Uint64(out[i*8:])
	}
	for n, m := 0, 1+r.Intn(2); n < m; n++ {
		switch r.Intn(8) {
		case 0: // walk the sample list and corrupt one nstk
			i := 5
			var heads []int
			for i+1 < nw && len(heads) < 4096 {
				heads = append(heads, i)
				ns := getWord(i + 1)
				if ns > uint64(nw) {
					break
				}
				i += 2 + int(ns)
			}
			if len(heads) > 0 {
				h := heads[r.Intn(len(heads))]
				vals := []uint64{0, 1, ^uint64(0), 1 << 31, 1<<32 - 1, uint64(nw), uint64(len(out) / 4), uint64(len(out)/4 + 1), uint64(len(out)), getWord(h+1) + 1, 1 << 62}
				setWord(h+1, vals[r.Intn(len(vals))])
			}
		case 1: // corrupt a header word
			setWord(r.Intn(5), []uint64{0, 1, 2, 3, ^uint64(0), 1 << 63}[r.Intn(6)])
		case 2: // early end marker
			if nw > 8 {
				i := 5 + r.Intn(nw-7)
				setWord(i, 0)
				setWord(i+1, 1)
				setWord(i+2, 0)
			}
		case 3: // truncate at a word / inside a word
			if len(out) > 0 {
				cut := r.Intn(len(out))
				if r.Bool() {
					cut -= cut % k.size
				}
				out = out[:cut]
				nw = len(out) / k.size
			}
		case 4: // zero count
			if nw > 6 {
				setWord(5+r.Intn(nw-5), 0)
			}
		case 5: // random word
			if nw > 0 {
				setWord(r.Intn(nw), r.U64())
			}
		case 6: // java flag
			setWord(2, uint64(r.Intn(2)))
		case 7:
			out = mutateBytes(r, out)
			nw = len(out) / k.size
		}
	}
	return out
}

// c02GenBinaryCPU builds a binary CPU profile document (all four word kinds, C++/java flag,
// with or without end marker and text tail).
func c02GenBinaryCPU(r *Rng) []byte {
	k := c02WordKinds[r.Intn(4)]
	var out []byte
	java := r.Chance(25)
	out = k.put(out, 0)
	out = k.put(out, 3)
	if java {
		out = k.put(out, 1)
	} else {
		out = k.put(out, 0)
	}
	period := uint64(1 + r.Intn(20000))
	if r.Chance(5) {
		period = []uint64{1 << 31, 1<<32 - 1, 1 << 62, ^uint64(0)}[r.Intn(4)]
	}
	out = k.put(out, period)
	out = k.put(out, 0)
	addrs := make([]uint64, 1+r.Intn(12))
	for i := range addrs {
		addrs[i] = 0x400000 + uint64(r.Intn(0x1000))
		if r.Chance(5) {
			addrs[i] = []uint64{0, 1, ^uint64(0), 1 << 32}[r.Intn(4)]
		}
	}
	common := addrs[r.Intn(len(addrs))] // a frequent second frame: exercises the signal-frame removal
	ns := r.Intn(40)
	for i := 0; i < ns; i++ {
		cnt := uint64(1 + r.Intn(100))
		if r.Chance(5) {
			cnt = []uint64{0, 1 << 40, ^uint64(0)}[r.Intn(3)]
		}
		d := r.Intn(7)
		out = k.put(out, cnt)
		out = k.put(out, uint64(d))
		for j := 0; j < d; j++ {
			a := addrs[r.Intn(len(addrs))]
			if j == 1 && r.Chance(90) {
				a = common
			}
			if j == 1 && r.Chance(5) { // duplicate leaf (leaf == second+1 after the -1 adjustment… second == leaf)
				a = addrs[0]
			}
			out = k.put(out, a)
		}
	}
	if r.Chance(85) {
		out = k.put(out, 0)
		out = k.put(out, 1)
		out = k.put(out, 0)
	}
	if java {
		if r.Chance(80) {
			for _, a := range addrs {
				out = append(out, fmt.Sprintf("0x%x %s (%s:%d)\n", a, defaultNames[r.Intn(len(defaultNames))], "F.java", r.Intn(100))...)
			}
		}
	} else if r.Chance(70) {
		out = append(out, c02GenMemMap(r)...)
	}
	return out
}

func c02Hexlist(r *Rng) string {
	var sb strings.Builder
	n := 1 + r.Intn(5)
	if r.Chance(8) {
		n = 0
	}
	for i := 0; i < n; i++ {
		fmt.Fprintf(&sb, " 0x%x", 0x400000+r.Intn(0x2000))
	}
	return sb.String()
}

// c02GenTextLegacy builds a small document of one of the text legacy flavours with the
// printers below; every numeric column of every header and record comes from c02Cols.
func c02GenTextLegacy(r *Rng) (string, []byte) {
	var sb strings.Builder
	kind := []string{"heap", "heap_v2", "heapz_v2", "growth", "fragmentation", "contention", "mutex", "thread", "goroutine", "javaheap", "javacontention"}[r.Intn(11)]
	sp := func() string { return strings.Repeat(" ", 1+r.Intn(3)) }
	switch kind {
	case "heap", "heap_v2", "heapz_v2", "growth", "fragmentation":
		h := c02Cols(r, 5) // inuse count, inuse bytes, alloc count, alloc bytes, sampling rate
		if r.Chance(40) {  // no allocation columns: identical to the in-use ones
			h[2], h[3] = h[0], h[1]
		}
		suffix := map[string]string{"heap": "heap/" + h[4], "heap_v2": "heap_v2/" + h[4], "heapz_v2": "heapz_v2/" + h[4], "growth": "growthz", "fragmentation": "fragmentationz"}[kind]
		if kind == "heap" && r.Chance(30) {
			suffix = "heapprofile"
		}
		if kind != "growth" && kind != "fragmentation" && r.Chance(10) {
			suffix = strings.SplitN(suffix, "/", 2)[0] // rate omitted
		}
		fmt.Fprintf(&sb, "heap profile: %s: %s [ %s: %s] @ %s\n", h[0], h[1], h[2], h[3], suffix)
		for i, n := 0, r.Intn(10); i < n; i++ {
			c := c02Cols(r, 4)
			if r.Chance(40) {
				c[2], c[3] = c[0], c[1]
			}
			fmt.Fprintf(&sb, "%s%s:%s%s [%s%s:%s%s] @%s\n", sp(), c[0], sp(), c[1], sp(), c[2], sp(), c[3], c02Hexlist(r))
			if r.Chance(10) {
				sb.WriteString("# comment\n\n")
			}
		}
		sb.WriteString("\n" + c02GenMemMap(r))
	case "contention", "mutex":
		if kind == "mutex" {
			sb.WriteString("--- mutex:\n")
		} else {
			sb.WriteString("--- contentionz 1 ---\n")
		}
		h := c02Cols(r, 4)
		attrs := []string{"cycles/second = " + h[0], "sampling period = " + h[1], "ms since reset = " + h[2], "discarded samples = " + h[3]}
		for _, a := range attrs {
			if r.Chance(85) {
				sb.WriteString(a + "\n")
			}
		}
		for i, n := 0, r.Intn(10); i < n; i++ {
			c := c02Cols(r, 2)
			fmt.Fprintf(&sb, "%s%s%s%s @%s\n", sp(), c[0], sp(), c[1], c02Hexlist(r))
		}
		sb.WriteString(c02GenMemMap(r))
	case "thread":
		fmt.Fprintf(&sb, "--- threadz %s ---\n\n", c02Cols(r, 1)[0])
		for i, n := 0, r.Intn(6); i < n; i++ {
			fmt.Fprintf(&sb, "--- Thread %x (name: t%d/%s) stack: ---\n", 0x7f0000000000+r.Intn(1000), i, c02Cols(r, 1)[0])
			if r.Chance(25) {
				sb.WriteString("    [same as previous thread]\n")
			} else {
				fmt.Fprintf(&sb, " %s\n", c02Hexlist(r))
			}
		}
		sb.WriteString(c02GenMemMap(r))
	case "goroutine":
		fmt.Fprintf(&sb, "%s profile: total %s\n", []string{"goroutine", "threadcreate", "x"}[r.Intn(3)], c02Cols(r, 1)[0])
		for i, n := 0, r.Intn(8); i < n; i++ {
			fmt.Fprintf(&sb, "%s @%s\n#\t0x400000\tmain.f+0x10\t/a/b.go:12\n\n", c02Cols(r, 1)[0], c02Hexlist(r))
		}
		if r.Chance(70) {
			sb.WriteString(c02GenMemMap(r))
		}
	case "javaheap":
		sb.WriteString("--- heapz 1 ---\nformat = java\nresolution = bytes\n")
		for i, n := 0, 1+r.Intn(8); i < n; i++ {
			c := c02Cols(r, 2) // bytes, objects
			fmt.Fprintf(&sb, "%s%s%s%s @%s\n", sp(), c[0], sp(), c[1], c02Hexlist(r))
		}
		for i := 0; i < 6; i++ {
			fmt.Fprintf(&sb, "   0x%x %s (F.java:%s)\n", 0x400000+r.Intn(0x2000), defaultNames[r.Intn(len(defaultNames))], c02Cols(r, 1)[0])
		}
	case "javacontention":
		h := c02Cols(r, 2)
		fmt.Fprintf(&sb, "--- contentionz 1 ---\nformat = java\nresolution = microseconds\nsampling period = %s\nms since reset = %s\n", h[0], h[1])
		for i, n := 0, 1+r.Intn(8); i < n; i++ {
			c := c02Cols(r, 2)
			fmt.Fprintf(&sb, "%s%s%s%s @%s\n", sp(), c[0], sp(), c[1], c02Hexlist(r))
		}
		for i := 0; i < 6; i++ {
			fmt.Fprintf(&sb, "   0x%x %s (libx.so)\n", 0x400000+r.Intn(0x2000), defaultNames[r.Intn(len(defaultNames))])
		}
	}
	return kind, []byte(sb.String())
}

func c02Gzip(b []byte) []byte {
	var buf bytes.Buffer
	zw := gzip.NewWriter(&buf)
	zw.Write(b)
	zw.Close()
	return buf.Bytes()
}

// c02GzipVariant wraps payload in gzip, valid or corrupt in one of several ways.
func c02GzipVariant(r *Rng, payload []byte) (string, []byte) {
	gz := c02Gzip(payload)
	switch r.Intn(10) {
	case 0, 1, 2:
		return "gz-valid", gz
	case 3:
		return "gz-truncated", gz[:r.Intn(len(gz))]
	case 4:
		out := append([]byte(nil), gz...)
		out[r.Intn(len(out))] ^= 1 << uint(r.Intn(8))
		return "gz-bitflip", out
	case 5: // bad CRC / size trailer
		out := append([]byte(nil), gz...)
		out[len(out)-1-r.Intn(8)] ^= 0xff
		return "gz-bad-trailer", out
	case 6:
		return "gz-twice", c02Gzip(gz)
	case 7: // two members
		return "gz-multistream", append(append([]byte(nil), gz...), c02Gzip(payload)...)
	case 8: // trailing garbage
		return "gz-trailing-garbage", append(append([]byte(nil), gz...), byte(r.U64()), byte(r.U64()))
	default: // header only / magic only
		return "gz-header-only", gz[:min(len(gz), 2+r.Intn(12))]
	}
}
