//go:build verif

package main

import (
	"bytes"
	"errors"
	"flag"
	"fmt"
	"io"
	"net/http"
	"net/http/httptest"
	"net/url"
	"os"
	"regexp"
	"runtime"
	"runtime/debug"
	"strconv"
	"strings"
	"sync"
	"sync/atomic"
	"time"

	"github.com/google/pprof/internal/driver"
	"github.com/google/pprof/internal/plugin"
	"github.com/google/pprof/profile"
)

// ---------------------------------------------------------------------------------------------
// In-process use of the real driver through its exported plug-in API (driver.PProf with
// plugin.Options): scripted UI, recording Writer/ObjTool, Fetcher serving an in-memory profile,
// HTTPServer hook capturing the web handlers. Nothing unexported of /repo is referenced.
// ---------------------------------------------------------------------------------------------

// c09Flags implements plugin.FlagSet on a private flag.FlagSet. The driver seeds every option
// flag with the *current* process-wide config; to make each in-process call independent of the
// calls before it, the defaults seen at the first call (pristine process state) are reused.
type c09Flags struct {
	fs    *flag.FlagSet
	args  []string
	extra []string
}

var c09Pristine = struct {
	sync.Mutex
	b map[string]bool
	i map[string]int
	f map[string]float64
	s map[string]string
}{b: map[string]bool{}, i: map[string]int{}, f: map[string]float64{}, s: map[string]string{}}

func newC09Flags(args []string) *c09Flags {
	fs := flag.NewFlagSet("pprof", flag.ContinueOnError)
	fs.SetOutput(io.Discard)
	return &c09Flags{fs: fs, args: args}
}
func (f *c09Flags) Bool(n string, d bool, u string) *bool {
	c09Pristine.Lock()
	if v, ok := c09Pristine.b[n]; ok {
		d = v
	} else {
		c09Pristine.b[n] = d
	}
	c09Pristine.Unlock()
	return f.fs.Bool(n, d, u)
}
func (f *c09Flags) Int(n string, d int, u string) *int {
	c09Pristine.Lock()
	if v, ok := c09Pristine.i[n]; ok {
		d = v
	} else {
		c09Pristine.i[n] = d
	}
	c09Pristine.Unlock()
	return f.fs.Int(n, d, u)
}
func (f *c09Flags) Float64(n string, d float64, u string) *float64 {
	c09Pristine.Lock()
	if v, ok := c09Pristine.f[n]; ok {
		d = v
	} else {
		c09Pristine.f[n] = d
	}
	c09Pristine.Unlock()
	return f.fs.Float64(n, d, u)
}
func (f *c09Flags) String(n string, d string, u string) *string {
	c09Pristine.Lock()
	if v, ok := c09Pristine.s[n]; ok {
		d = v
	} else {
		c09Pristine.s[n] = d
	}
	c09Pristine.Unlock()
	return f.fs.String(n, d, u)
}

type c09StringList []*string

func (l *c09StringList) String() string { return "" }
func (l *c09StringList) Set(v string) error {
	*l = append(*l, &v)
	return nil
}
func (f *c09Flags) StringList(n string, d string, u string) *[]*string {
	l := &c09StringList{}
	f.fs.Var(l, n, u)
	return (*[]*string)(l)
}
func (f *c09Flags) ExtraUsage() string      { return strings.Join(f.extra, "\n") }
func (f *c09Flags) AddExtraUsage(eu string) { f.extra = append(f.extra, eu) }
func (f *c09Flags) Parse(usage func()) []string {
	f.fs.Usage = usage
	if err := f.fs.Parse(f.args); err != nil {
		return nil
	}
	a := f.fs.Args()
	if len(a) == 0 {
		usage()
	}
	return a
}

// c09LineRec is what the real session did in response to one scripted line.
type c09LineRec struct {
	Line   string
	Errs   []string // UI.PrintErr texts
	Prints []string // UI.Print texts
	Opened []string // Writer.Open names
	Bufs   []*c09WC // what was written to them (same order)
}

type c09UI struct {
	mu       sync.Mutex
	lines    []string
	next     int
	recs     []*c09LineRec // recs[0] = before the first ReadLine (start-up)
	complete func(string) string
}

func newC09UI(lines []string) *c09UI { return &c09UI{lines: lines, recs: []*c09LineRec{{}}} }
func (u *c09UI) cur() *c09LineRec    { return u.recs[len(u.recs)-1] }
func (u *c09UI) ReadLine(prompt string) (string, error) {
	u.mu.Lock()
	defer u.mu.Unlock()
	if u.next >= len(u.lines) {
		return "", io.EOF
	}
	l := u.lines[u.next]
	u.next++
	u.recs = append(u.recs, &c09LineRec{Line: l})
	return l, nil
}
func (u *c09UI) Print(a ...interface{}) {
	u.mu.Lock()
	defer u.mu.Unlock()
	u.cur().Prints = append(u.cur().Prints, fmt.Sprint(a...))
}
func (u *c09UI) PrintErr(a ...interface{}) {
	u.mu.Lock()
	defer u.mu.Unlock()
	u.cur().Errs = append(u.cur().Errs, fmt.Sprint(a...))
}
func (u *c09UI) IsTerminal() bool                      { return false }
func (u *c09UI) WantBrowser() bool                     { return false }
func (u *c09UI) SetAutoComplete(c func(string) string) { u.complete = c }
func (u *c09UI) allErrs() string {
	u.mu.Lock()
	defer u.mu.Unlock()
	var sb strings.Builder
	for _, r := range u.recs {
		for _, e := range r.Errs {
			sb.WriteString(e)
			sb.WriteByte('\n')
		}
	}
	return sb.String()
}

type c09WC struct {
	bytes.Buffer
}

func (*c09WC) Close() error { return nil }

type c09Writer struct {
	ui *c09UI
}

func (w *c09Writer) Open(name string) (io.WriteCloser, error) {
	b := &c09WC{}
	w.ui.mu.Lock()
	w.ui.cur().Opened = append(w.ui.cur().Opened, name)
	w.ui.cur().Bufs = append(w.ui.cur().Bufs, b)
	w.ui.mu.Unlock()
	if strings.HasPrefix(name, "/nonexistent") {
		return nil, errors.New("open " + name + ": no such file or directory")
	}
	return b, nil
}

// c09Obj is an ObjTool for which no binary exists; it records the names it is asked to open.
type c09Obj struct {
	mu    sync.Mutex
	opens []string
}

func (o *c09Obj) Open(file string, start, limit, offset uint64, rs string) (plugin.ObjFile, error) {
	o.mu.Lock()
	o.opens = append(o.opens, file)
	o.mu.Unlock()
	return nil, errors.New("no such file")
}
func (o *c09Obj) Disasm(file string, start, end uint64, intel bool) ([]plugin.Inst, error) {
	return nil, errors.New("no disassembler")
}

// c09Fetch serves the profile under the source name "c09prof" and base profiles under "c09base<i>".
type c09Fetch struct {
	p     *profile.Profile
	bases []*profile.Profile
}

func (f c09Fetch) Fetch(src string, d, t time.Duration) (*profile.Profile, string, error) {
	if src == "c09prof" {
		return f.p.Copy(), "", nil
	}
	for i, b := range f.bases {
		if src == fmt.Sprintf("c09base%d", i) {
			return b.Copy(), "", nil
		}
	}
	return nil, "", errors.New("unknown source " + src)
}

type c09Run struct {
	UI       *c09UI
	W        *c09Writer
	Obj      *c09Obj
	Err      error
	Panic    string // recovered panic value + stack ("" if none)
	Hang     bool
	HangSite string // where the hung call is stuck (outermost function of the innermost pprof package)
	Handlers map[string]http.Handler
}

var c09InprocMu sync.Mutex // the driver's option set is process-wide: one in-process call at a time

// c09PProf runs driver.PProf in-process on profile p with the given flags and scripted lines.
func c09PProf(p *profile.Profile, flags []string, lines []string) *c09Run {
	return c09PProfB(p, nil, flags, lines)
}

// c09PProfB is c09PProf with base profiles available as sources c09base0, c09base1, … (the flags
// name them: -base=c09base0 / -diff_base=c09base0).
func c09PProfB(p *profile.Profile, bases []*profile.Profile, flags []string, lines []string) *c09Run {
	c09InprocMu.Lock()
	defer c09InprocMu.Unlock()
	ui := newC09UI(lines)
	r := &c09Run{UI: ui, W: &c09Writer{ui: ui}, Obj: &c09Obj{}}
	if c09Poisoned.Load() {
		r.Hang, r.HangSite = true, "after-earlier-hang"
		return r
	}
	done := make(chan struct{})
	go func() {
		defer close(done)
		defer func() {
			if e := recover(); e != nil {
				r.Panic = fmt.Sprint(e) + "\n" + string(debug.Stack())
			}
		}()
		r.Err = driver.PProf(&plugin.Options{
			Writer:  r.W,
			Flagset: newC09Flags(append(append([]string{}, flags...), "c09prof")),
			Fetch:   c09Fetch{p, bases},
			Obj:     r.Obj,
			UI:      ui,
			HTTPServer: func(a *plugin.HTTPServerArgs) error {
				r.Handlers = a.Handlers
				return nil
			},
		})
	}()
	select {
	case <-done:
	case <-time.After(c09InprocTimeout):
		r.Hang, r.HangSite = true, c09GoroutineSite("c09PProfB.func1")
		c09Poisoned.Store(true)
	}
	return r
}

// c09Poisoned: an in-process call did not return. Its goroutine is still inside the driver and may
// hold the driver's locks for ever (e.g. a leaked config mutex), so every later in-process call
// would block too: they are answered with Hang at once instead of waiting for the watchdog each time.
var c09Poisoned atomic.Bool

// c09GoroutineSite finds the goroutine whose stack contains the frame `marker` and names the place
// where it is stuck.
func c09GoroutineSite(marker string) string {
	buf := make([]byte, 8<<20)
	n := runtime.Stack(buf, true)
	for _, blk := range strings.Split(string(buf[:n]), "\n\n") {
		if strings.Contains(blk, marker) {
			return c09HangSite(blk)
		}
	}
	return "unknown"
}

var c09FrameRx = regexp.MustCompile(`github\.com/google/pprof/((?:internal/|profile|driver)[\w./]*?)\.((?:\(\*?\w+\)\.)?\w+)`)

// c09PanicSite extracts "<pkg>.<func>" of the innermost pprof frame from a Go panic trace
// (stderr of a crashed process or debug.Stack of a recovered panic): stable across line edits.
func c09PanicSite(trace string) string {
	for _, ln := range strings.Split(trace, "\n") {
		if strings.Contains(ln, "zzverif") || strings.HasPrefix(ln, "\t") {
			continue
		}
		if m := c09FrameRx.FindStringSubmatch(ln); m != nil {
			return m[1] + "." + m[2]
		}
	}
	return "unknown"
}

// c09Serve invokes a captured web handler directly under recover with a watchdog.
func c09Serve(h http.Handler, path, rawQuery string) (status int, body string, panicked string, hang bool) {
	rec := httptest.NewRecorder()
	req := &http.Request{Method: "GET", URL: &url.URL{Path: path, RawQuery: rawQuery}, Header: http.Header{}, Host: "localhost",
		RemoteAddr: "127.0.0.1:1", Proto: "HTTP/1.1", ProtoMajor: 1, ProtoMinor: 1, Body: http.NoBody}
	if c09Poisoned.Load() {
		return 0, "", "", true
	}
	done := make(chan struct{})
	go func() {
		defer close(done)
		defer func() {
			if e := recover(); e != nil {
				panicked = fmt.Sprint(e) + "\n" + string(debug.Stack())
			}
		}()
		h.ServeHTTP(rec, req)
	}()
	select {
	case <-done:
	case <-time.After(c09InprocTimeout):
		c09Poisoned.Store(true)
		return 0, "", "", true
	}
	return rec.Code, rec.Body.String(), panicked, false
}

// c09InprocTimeout: watchdog for in-process calls (they take milliseconds); longer when the machine
// is overloaded, so that starvation is not mistaken for a hang.
var c09InprocTimeout = func() time.Duration {
	if b, err := os.ReadFile("/proc/loadavg"); err == nil {
		if f := strings.Fields(string(b)); len(f) > 0 {
			if l, err := strconv.ParseFloat(f[0], 64); err == nil && l > 1.5*float64(runtime.NumCPU()) {
				return 60 * time.Second
			}
		}
	}
	return 15 * time.Second
}()

// c09ServeSite is c09Serve plus, for a hang, the place where the handler's goroutine is stuck.
func c09ServeSite(h http.Handler, path, rawQuery string) (status int, body string, panicked string, hang bool, site string) {
	status, body, panicked, hang = c09Serve(h, path, rawQuery)
	site = "web"
	if hang {
		buf := make([]byte, 4<<20)
		n := runtime.Stack(buf, true)
		for _, blk := range strings.Split(string(buf[:n]), "\n\n") {
			if strings.Contains(blk, "c09Serve.func1") && strings.Contains(blk, "ServeHTTP") {
				site = c09HangSite(blk)
			}
		}
	}
	return
}

// c09HangSite names a hang by the outermost function of the innermost pprof package on the stack
// (the innermost frame itself varies from sample to sample inside a loop).
func c09HangSite(trace string) string {
	// a goroutine that is blocked (mutex, channel, select, I/O) sits at one fixed place: name that
	// place (innermost pprof frame); only for a running goroutine the innermost frame varies
	if i := strings.Index(trace, "["); i >= 0 && strings.HasPrefix(strings.TrimSpace(trace), "goroutine ") {
		if j := strings.IndexAny(trace[i:], "]\n"); j > 0 {
			state := trace[i+1 : i+j]
			if !strings.HasPrefix(state, "running") && !strings.HasPrefix(state, "runnable") {
				return c09PanicSite(trace) + "/blocked"
			}
		}
	}
	site, pkg := "unknown", ""
	for _, ln := range strings.Split(trace, "\n") {
		if strings.HasPrefix(ln, "\t") || strings.Contains(ln, "zzverif") {
			continue
		}
		if ln == "" && pkg != "" {
			break
		}
		m := c09FrameRx.FindStringSubmatch(ln)
		if m == nil {
			continue
		}
		if pkg == "" {
			pkg = m[1]
		}
		if m[1] != pkg {
			break
		}
		site = m[1] + "." + m[2]
	}
	return site
}

// c09Safely runs f, converting a panic into its message.
func c09Safely(f func()) (panicked string) {
	defer func() {
		if e := recover(); e != nil {
			panicked = fmt.Sprint(e)
		}
	}()
	f()
	return ""
}

func c09Trunc(s string, n int) string {
	if len(s) > n {
		return s[:n] + "…"
	}
	return s
}

func c09FirstWord(s string) string {
	if i := strings.IndexByte(s, ' '); i >= 0 {
		return s[:i]
	}
	return s
}
