#!/usr/bin/env python3
"""Rebuild the C19 self-test patches (relative to /repo HEAD, which has the three C19 fixes), run
pprof's own tests and bin/check on each, and print a table.  Usage:
  git -C /repo worktree add --detach /tmp/wt-C19 HEAD; python3 selftest/C19/make-and-run.py [name…];
  git -C /repo worktree remove --force /tmp/wt-C19
(the mutant-revert-*.patch files are produced with `git revert -n <commit>; git diff HEAD`)."""
import os, shutil, subprocess, sys

WT = "/tmp/wt-C19"
OUT = "/verif/selftest/C19"
ENV = dict(os.environ, GOFLAGS="-mod=mod", GOPROXY="off", GOSUMDB="off", GOTOOLCHAIN="local")
S = "internal/driver/settings.go"
C = "internal/driver/config.go"


def rep(path, old, new, count=1):
    p = os.path.join(WT, path)
    s = open(p).read()
    assert old in s, (path, old)
    open(p, "w").write(s.replace(old, new, count))


MUTANTS = {
    # --- must alarm ---
    "mutant-rename-before-write": lambda: (
        rep(S, "\tif _, err = tmp.Write(data); err != nil {\n\t\treturn err\n\t}\n",
            "\tif err = os.Rename(tmp.Name(), fname); err != nil {\n\t\treturn err\n\t}\n\tif _, err = tmp.Write(data); err != nil {\n\t\treturn err\n\t}\n"),
        rep(S, "\treturn os.Rename(tmp.Name(), fname)\n}", "\treturn nil\n}")),
    "mutant-drop-fsync": lambda: rep(S, "\tif err = tmp.Sync(); err != nil {\n\t\treturn err\n\t}\n", ""),
    "mutant-fsync-after-rename": lambda: (
        rep(S, "\tif err = tmp.Sync(); err != nil {\n\t\treturn err\n\t}\n\tif err = tmp.Close(); err != nil {\n\t\treturn err\n\t}\n\treturn os.Rename(tmp.Name(), fname)\n",
            "\tif err = os.Rename(tmp.Name(), fname); err != nil {\n\t\treturn err\n\t}\n\tif err = tmp.Sync(); err != nil {\n\t\treturn err\n\t}\n\treturn tmp.Close()\n")),
    "mutant-write-error-ignored": lambda: rep(S, "\tif _, err = tmp.Write(data); err != nil {\n\t\treturn err\n\t}\n", "\ttmp.Write(data)\n"),
    "mutant-back-to-writefile": lambda: rep(S, "writeFileAtomic(fname, data, 0644); err != nil", "os.WriteFile(fname, data, 0644); err != nil"),
    "mutant-lock-removed": lambda: rep(S, "\tsettingsMu.Lock()\n\tdefer settingsMu.Unlock()\n", ""),
    "mutant-lock-covers-write-only": lambda: (
        rep(S, "\tsettingsMu.Lock()\n\tdefer settingsMu.Unlock()\n", ""),
        rep(S, "\treturn writeSettings(fname, settings)\n}", "\tsettingsMu.Lock()\n\tdefer settingsMu.Unlock()\n\treturn writeSettings(fname, settings)\n}")),
    "mutant-url-table-omits-hide": lambda: rep(C, '\t\t"hide":                 "h",\n', ""),
    "mutant-url-table-omits-showcolumns": lambda: rep(C, '\t\t"showcolumns":          "showcolumns",\n', ""),
    "mutant-url-param-shared": lambda: rep(C, '"show_from":            "sf",', '"show_from":            "s",'),
    "mutant-resettransient-clobbers-sort": lambda: rep(C, "\tcfg.SampleIndex = current.SampleIndex\n", "\tcfg.SampleIndex = current.SampleIndex\n\tcfg.Sort = current.Sort\n"),
    "mutant-bool-url-not-parsable": lambda: rep(C, "\t\t\tv = v[:1]\n", "\t\t\tv = strings.ToUpper(v[:2])\n"),
    "mutant-default-elided-when-nonempty": lambda: rep(C, "\t\tif v == f.defaultValue {\n", "\t\tif v == f.defaultValue || v == \"0\" {\n"),
    "mutant-delete-by-prefix": lambda: (
        rep(S, '\t\t\tif c.Name == config {\n\t\t\t\ts.Configs = append(s.Configs[:i], s.Configs[i+1:]...)',
            '\t\t\tif strings.HasPrefix(c.Name, config) {\n\t\t\t\ts.Configs = append(s.Configs[:i], s.Configs[i+1:]...)'),
        rep(S, '\t"path/filepath"\n', '\t"path/filepath"\n\t"strings"\n')),
    "mutant-save-replaces-neighbour": lambda: rep(S, "\t\t\t\ts.Configs[i].config = cfg\n\t\t\t\treturn nil\n",
        "\t\t\t\ts.Configs[i].config = cfg\n\t\t\t\tif i+1 < len(s.Configs) {\n\t\t\t\t\ts.Configs[i+1].Unit = cfg.Unit\n\t\t\t\t}\n\t\t\t\treturn nil\n"),
    "mutant-omitempty-nonzero-base": lambda: rep(S, "\tfor i := range settings.Configs {\n\t\tsettings.Configs[i].resetTransient()\n",
        "\tfor i := range settings.Configs {\n\t\tif !settings.Configs[i].Trim {\n\t\t\tsettings.Configs[i].Trim = defaultConfig().Trim // missing => default\n\t\t}\n\t\tsettings.Configs[i].resetTransient()\n"),
    "mutant-omitempty-nonzero-base-nodecount": lambda: rep(S, "\tfor i := range settings.Configs {\n\t\tsettings.Configs[i].resetTransient()\n",
        "\tfor i := range settings.Configs {\n\t\tif settings.Configs[i].NodeCount == 0 {\n\t\t\tsettings.Configs[i].NodeCount = defaultConfig().NodeCount // missing => default\n\t\t}\n\t\tsettings.Configs[i].resetTransient()\n"),
    # --- must NOT alarm ---
    "harmless-fixed-temp-name": lambda: (
        rep(S, '\ttmp, err := os.CreateTemp(filepath.Dir(fname), filepath.Base(fname)+".tmp*")\n',
            '\ttmp, err := os.OpenFile(fname+".new", os.O_WRONLY|os.O_CREATE|os.O_TRUNC, 0600)\n')),
    "harmless-compact-json-dir-fsync": lambda: (
        rep(S, 'json.MarshalIndent(settings, "", "  ")', "json.Marshal(settings)"),
        rep(S, "\treturn os.Rename(tmp.Name(), fname)\n}",
            "\tif err = os.Rename(tmp.Name(), fname); err != nil {\n\t\treturn err\n\t}\n\tif d, derr := os.Open(filepath.Dir(fname)); derr == nil {\n\t\td.Sync()\n\t\td.Close()\n\t}\n\treturn nil\n}")),
    "harmless-chunked-write-lock-in-callers": lambda: (
        rep(S, "\tif _, err = tmp.Write(data); err != nil {\n\t\treturn err\n\t}\n",
            "\tfor len(data) > 0 {\n\t\tn := 100\n\t\tif n > len(data) {\n\t\t\tn = len(data)\n\t\t}\n\t\tif _, err = tmp.Write(data[:n]); err != nil {\n\t\t\treturn err\n\t\t}\n\t\tdata = data[n:]\n\t}\n"),
        rep(S, "\tsettingsMu.Lock()\n\tdefer settingsMu.Unlock()\n", ""),
        rep(S, "\treturn editSettings(fname, func(s *settings) error {", "\tsettingsMu.Lock()\n\tdefer settingsMu.Unlock()\n\treturn editSettings(fname, func(s *settings) error {", 2)),
    "harmless-url-table-as-package-var": lambda: (
        rep(C, "\turlparam := map[string]string{", "\turlparam = map[string]string{"),
        rep(C, "var (\n\tconfigFields []configField", "var urlparam map[string]string\n\nvar (\n\tconfigFields []configField")),
}


def restore():
    subprocess.run(["git", "checkout", "-q", "--", S, C], cwd=WT, check=True)


def run(cmd, cwd, env=ENV, timeout=900):
    p = subprocess.run(cmd, cwd=cwd, env=env, stdout=subprocess.PIPE, stderr=subprocess.STDOUT, text=True, timeout=timeout)
    return p.returncode, p.stdout


def main():
    only = sys.argv[1:]
    for name, mut in MUTANTS.items():
        if only and name not in only:
            continue
        restore()
        mut()
        # patch relative to the fixed tree
        rc, diff = run(["git", "diff", "--", S, C], WT)
        open(os.path.join(OUT, name + ".patch"), "w").write(diff)
        rc, out = run(["go", "build", "./..."], WT)
        if rc != 0:
            print("%-45s DOES NOT COMPILE\n%s" % (name, out[-600:]))
            continue
        rc, out = run(["go", "test", "./internal/driver/..."], WT)
        tests = "tests-pass" if rc == 0 else "TESTS-FAIL"
        rc, out = run(["bin/check", "C19"], "/verif", env=dict(ENV, VERIF_REPO=WT, VERIF_SEED=os.environ.get("VERIF_SEED", "1")))
        sigs = [l.strip()[2:].split(":")[0] for l in out.splitlines() if l.startswith("  # ")]
        print("%-45s %s check-exit=%d %s" % (name, tests, rc, "; ".join(s[:90] for s in sigs[:4])))
        sys.stdout.flush()
    restore()


main()
