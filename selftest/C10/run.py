#!/usr/bin/env python3
"""selftest/C10/run.py [name-substring ...] [--gotest]
Apply each patch of this directory to a scratch worktree of /repo, run `bin/check C10` against it and
compare with the expectation in the file name: mutant-* must yield VIOLATION with a replay file that
reproduces under --replay, harmless-* must pass.  --gotest additionally runs the touched package's
own tests on the patched tree (a mutant is only interesting if they still pass)."""
import glob, os, re, subprocess, sys
HERE = os.path.dirname(os.path.abspath(__file__))
VERIF = os.path.dirname(os.path.dirname(HERE))
WT = os.environ.get("C10_WT", "/tmp/wt-C10")
GOENV = dict(os.environ, GOFLAGS="-mod=mod", GOPROXY="off", GOSUMDB="off", GOTOOLCHAIN="local")

def sh(cmd, **kw):
    return subprocess.run(cmd, shell=True, text=True, stdout=subprocess.PIPE, stderr=subprocess.STDOUT, **kw)

args = [a for a in sys.argv[1:] if not a.startswith("--")]
gotest = "--gotest" in sys.argv
own = not os.path.exists(WT)
if own:
    print(sh(f"git -C /repo worktree add --detach {WT} HEAD").stdout.strip())
ok = True
try:
    for p in sorted(glob.glob(os.path.join(HERE, "*.patch"))):
        name = os.path.basename(p)[:-6]
        if args and not any(a in name for a in args):
            continue
        sh("git checkout -q . && git clean -fdq", cwd=WT)
        r = sh(f"git apply {p}", cwd=WT)
        if r.returncode:
            print(name, "PATCH DOES NOT APPLY", r.stdout); ok = False; continue
        tests = ""
        if gotest:
            t = sh("go test ./internal/driver/ ./internal/report/ ./profile/", cwd=WT, env=GOENV)
            tests = " [go test: %s]" % ("pass" if t.returncode == 0 else "FAIL")
        r = sh("bin/check C10", cwd=VERIF, env=dict(os.environ, VERIF_REPO=WT))
        viol = [l for l in r.stdout.splitlines() if l.startswith("VIOLATION")]
        want = name.startswith("mutant")
        verdict = "ok" if bool(viol) == want else "WRONG"
        extra = ""
        if want and viol:
            m = re.search(r"replay=(\S+)", viol[0])
            if "no-failing-input-found" in viol[0]:
                extra = " (no concrete input)"
            elif m:
                rr = sh(f"bin/check C10 --replay {m.group(1)}", cwd=VERIF, env=dict(os.environ, VERIF_REPO=WT))
                extra = " replay-reproduces" if "VIOLATION" in rr.stdout else " REPLAY-DOES-NOT-REPRODUCE"
                if "REPLAY-DOES" in extra:
                    verdict = "WRONG"
        if verdict != "ok":
            ok = False
        print(f"{name}: {verdict}{extra}{tests} — {r.stdout.splitlines()[-1] if r.stdout.splitlines() else ''}")
        for s in [l.strip() for l in r.stdout.splitlines() if l.startswith("  #")][:3]:
            print("    " + s[:260])
finally:
    sh("git checkout -q . && git clean -fdq", cwd=WT)
    if own:
        sh(f"git -C /repo worktree remove --force {WT}")
sys.exit(0 if ok else 1)
