#!/usr/bin/env python3
"""apply each mutant to the fixed tree in /tmp/wt-C12, run the package tests, run bin/check, record."""
import subprocess, os, sys, difflib, json

WT = '/tmp/wt-C12'
FIX = '/tmp/c12-fixed'
SYM = 'internal/symbolizer/symbolizer.go'
SZ = 'internal/symbolz/symbolz.go'
ENV = dict(os.environ, GOFLAGS='-mod=mod', GOPROXY='off', GOSUMDB='off', GOTOOLCHAIN='local')

def rd(rel): return open(os.path.join(FIX, rel)).read()

MUT = {}
def mutant(name, kind, what):
    def deco(f):
        MUT[name] = (kind, what, f)
        return f
    return deco

def rep(s, old, new, count=1):
    assert old in s, old
    return s.replace(old, new, count)

@mutant('m01-clears-sample-labels', 'alarm', 'local symbolization clears s.Label of every sample')
def m01():
    return {SYM: rep(rd(SYM), "	missingBinaries := false\n", "	if force {\n		for _, s := range prof.Sample {\n			s.Label = nil\n		}\n	}\n	missingBinaries := false\n")}

@mutant('m02-local-aligns-address', 'alarm', 'local symbolization rewrites l.Address (clears the low bit) of symbolized locations')
def m02():
    return {SYM: rep(rd(SYM), "		l.IsFolded = false\n", "		l.IsFolded = false\n		l.Address &^= 1\n")}

@mutant('m03-resymbolizes-partly-symbolized', 'alarm', 'local step skips a mapping only when all three flags are set (re-symbolizes mappings with symbols without force)')
def m03():
    return {SYM: rep(rd(SYM), "if !force && (m.HasFunctions || m.HasFilenames || m.HasLineNumbers) {", "if !force && (m.HasFunctions && m.HasFilenames && m.HasLineNumbers) {")}

@mutant('m04-flag-set-although-lookup-failed', 'alarm', 'HasFunctions/HasInlineFrames set before the SourceLine answer is examined')
def m04():
    return {SYM: rep(rd(SYM), "		stack, err := obj.SourceLine(l.Address)\n", "		stack, err := obj.SourceLine(l.Address)\n		m.HasFunctions, m.HasInlineFrames = true, true\n")}

@mutant('m05-symbolz-ignores-mapping-of-location', 'alarm', 'symbolz applies the answers to locations of every mapping with that address')
def m05():
    return {SZ: rep(rd(SZ), "		if l.Mapping != m {\n			continue\n		}\n		if line, ok := lines[l.Address]; ok {", "		if line, ok := lines[l.Address]; ok {")}

@mutant('m06-force-demangle-copies-empty-system-name', 'alarm', 'Demangle(force) overwrites the name with an empty system name')
def m06():
    return {SYM: rep(rd(SYM), '			if f.Name != "" && f.SystemName != "" {\n', '			if f.Name != "" {\n')}

@mutant('m07-function-id-len-plus-one', 'alarm', 'new function ids from len(prof.Function)+1 again (the unrepaired allocation)')
def m07():
    return {SYM: rep(rd(SYM), "		maxFunctionID++\n		f.ID = maxFunctionID\n", "		f.ID = uint64(len(prof.Function)) + 1\n")}

@mutant('m09-local-drops-unsymbolized-samples', 'alarm', 'local symbolization removes samples without locations')
def m09():
    return {SYM: rep(rd(SYM), "	missingBinaries := false\n", "	kept := prof.Sample[:0]\n	for _, s := range prof.Sample {\n		if len(s.Location) > 0 {\n			kept = append(kept, s)\n		}\n	}\n	prof.Sample = kept\n	missingBinaries := false\n")}

@mutant('m11-symbolz-function-id-len-plus-one', 'alarm', 'symbolz numbers new functions len(p.Function)+1 again (the unrepaired allocation)')
def m11():
    return {SZ: rep(rd(SZ), "					ID:         maxFunctionID,", "					ID:         uint64(len(p.Function) + 1),")}

@mutant('m12-line-function-not-in-table', 'alarm', 'interned function returned without being appended to prof.Function on a repeated key')
def m12():
    return {SYM: rep(rd(SYM), "		if fp := functions[*f]; fp != nil {\n			return fp\n		}", "		if fp := functions[*f]; fp != nil {\n			cp := *fp\n			return &cp\n		}")}

@mutant('h01-flags-computed-after-lines', 'harmless', 'symbolizeOneMapping computes the flags in a second pass over the stack')
def h01():
    s = rd(SYM)
    s = rep(s, """			if frame.Func != "" {
				m.HasFunctions = true
			}
			if frame.File != "" {
				m.HasFilenames = true
			}
			if frame.Line != 0 {
				m.HasLineNumbers = true
			}
""", "")
    s = rep(s, """		if len(stack) > 0 {
			m.HasInlineFrames = true
		}
""", """		for _, frame := range stack {
			m.HasFunctions = m.HasFunctions || frame.Func != ""
			m.HasFilenames = m.HasFilenames || frame.File != ""
			m.HasLineNumbers = m.HasLineNumbers || frame.Line != 0
		}
		m.HasInlineFrames = true
""")
    return {SYM: s}

@mutant('h02-function-ids-step-two', 'harmless', 'new function ids leave gaps (maxFunctionID += 2): different but unique ids')
def h02():
    return {SYM: rep(rd(SYM), "		maxFunctionID++\n		f.ID = maxFunctionID\n", "		maxFunctionID += 2\n		f.ID = maxFunctionID - 1\n"),
            SZ: rep(rd(SZ), "				maxFunctionID++\n				fn = &profile.Function{", "				maxFunctionID += 3\n				fn = &profile.Function{")}

@mutant('h03-symbolz-query-built-with-builder', 'harmless', 'symbolz builds the query with a strings.Builder and a set for the answers')
def h03():
    s = rd(SZ)
    s = rep(s, "	b, err := syms(source, strings.Join(a, \"+\"))\n", "	var q strings.Builder\n	for i, s := range a {\n		if i > 0 {\n			q.WriteByte('+')\n		}\n		q.WriteString(s)\n	}\n	b, err := syms(source, q.String())\n")
    return {SZ: s}

@mutant('h04-removeMatching-rewritten', 'harmless', 'removeMatching re-implemented as a single left-to-right scan')
def h04():
    s = rd(SYM)
    i = s.index("func removeMatching(name string, start, end byte) string {")
    s = s[:i] + '''func removeMatching(name string, start, end byte) string {
	var kept, pend []byte
	nesting := 0
	for i := 0; i < len(name); i++ {
		c := name[i]
		switch {
		case c == start:
			nesting++
			pend = append(pend, c)
		case c == end:
			nesting--
			if nesting < 0 {
				return string(kept) + name[i:]
			}
			if nesting == 0 {
				pend = pend[:0]
			} else {
				pend = append(pend, c)
			}
		case nesting > 0:
			pend = append(pend, c)
		default:
			kept = append(kept, c)
		}
	}
	return string(kept) + string(pend)
}
'''
    return {SYM: s}

def restore():
    for rel in (SYM, SZ):
        open(os.path.join(WT, rel), 'w').write(rd(rel))

def run(name):
    kind, what, f = MUT[name]
    restore()
    files = f()
    patch = ''
    for rel, content in files.items():
        open(os.path.join(WT, rel), 'w').write(content)
        patch += ''.join(difflib.unified_diff(rd(rel).splitlines(True), content.splitlines(True), 'a/' + rel, 'b/' + rel))
    t = subprocess.run(['go', 'test', './internal/symbolizer/...', './internal/symbolz/...', './internal/driver/...'], cwd=WT, env=ENV, capture_output=True, text=True)
    tests_ok = t.returncode == 0
    c = subprocess.run(['bin/check', 'C12'], cwd='/verif', env=dict(os.environ, VERIF_REPO=WT), capture_output=True, text=True)
    lines = [l for l in c.stdout.splitlines() if l.startswith('VIOLATION') or l.startswith('  #') or l.startswith('check ')]
    alarm = c.returncode != 0
    ok = tests_ok and (alarm == (kind == 'alarm'))
    print('%s [%s] tests_pass=%s alarm=%s => %s' % (name, kind, tests_ok, alarm, 'OK' if ok else 'UNEXPECTED'))
    if not tests_ok:
        print(t.stdout[-1500:])
    for l in lines[:6]:
        print('    ' + l[:260])
    open('/verif/selftest/C12/%s.patch' % name, 'w').write(patch)
    restore()
    return ok

if __name__ == '__main__':
    names = sys.argv[1:] or sorted(MUT)
    res = {n: run(n) for n in names}
    print(res)
