package symbolizer

import (
	"fmt"
	"math/rand"
	"os"
	"strings"
	"testing"

	"github.com/google/pprof/profile"
)

// zzRefRemoveMatching is a verbatim copy of removeMatching as it is on the
// unchanged tree; it serves as the reference.
func zzRefRemoveMatching(name string, start, end byte) string {
	s := string(start) + string(end)
	var nesting, first, current int
	for index := strings.IndexAny(name[current:], s); index != -1; index = strings.IndexAny(name[current:], s) {
		switch current += index; name[current] {
		case start:
			nesting++
			if nesting == 1 {
				first = current
			}
		case end:
			nesting--
			switch {
			case nesting < 0:
				return name // Mismatch, abort
			case nesting == 0:
				name = name[:first] + name[current+1:]
				current = first - 1
			}
		}
		current++
	}
	return name
}

var zzNames = []string{
	"",
	"x",
	"()",
	"<>",
	"<unknown>",
	"(anonymous namespace)::f(int)",
	"a(b)c)d(e)f",
	"a(b",
	"a(b)(c",
	"((a)",
	")(",
	"><",
	"std::vector<std::pair<int, char> >::push_back(std::pair<int, char>&&)",
	"operator<< <char>(std::ostream&, char)",
	"foo<bar<baz>>(qux<int>)::{lambda(auto:1)#1}::operator()<int>(int) const",
	"ns::T<(anonymous namespace)::U>::m()",
	"a::b<c(d)>::e(f<g>)",
	"a::b<c(d>)::e",
	"java.lang.Class.<init>",
	"pkg.(*T[...]).Method",
	"main.f[go.shape.int](x)",
	"\x00<\xff>(\x80)::",
	"((((((((((((((((((((x))))))))))))))))))))::y",
	"_ZN3foo3barEv",
	"__ZN3foo3barEv",
	"_ZNSt6vectorIiSaIiEE9push_backEOi",
	"_Z3fooILi1EEvv",
	strings.Repeat("<(", 200) + "x" + strings.Repeat(")>", 200) + "::z",
	strings.Repeat("a<b>", 300),
}

func TestZZEquivB(t *testing.T) {
	// 1. removeMatching against the reference, on a table and on random strings.
	for _, n := range zzNames {
		for _, pr := range [][2]byte{{'(', ')'}, {'<', '>'}, {'[', ']'}} {
			if got, want := removeMatching(n, pr[0], pr[1]), zzRefRemoveMatching(n, pr[0], pr[1]); got != want {
				t.Errorf("removeMatching(%q, %c, %c) = %q, want %q", n, pr[0], pr[1], got, want)
			}
		}
	}
	rnd := rand.New(rand.NewSource(9))
	alphabet := []byte("()<>ab:\x00\xff")
	for i := 0; i < 20000; i++ {
		b := make([]byte, rnd.Intn(14))
		for j := range b {
			b[j] = alphabet[rnd.Intn(len(alphabet))]
		}
		n := string(b)
		if got, want := removeMatching(n, '(', ')'), zzRefRemoveMatching(n, '(', ')'); got != want {
			t.Fatalf("removeMatching(%q, (, )) = %q, want %q", n, got, want)
		}
		if got, want := removeMatching(n, '<', '>'), zzRefRemoveMatching(n, '<', '>'); got != want {
			t.Fatalf("removeMatching(%q, <, >) = %q, want %q", n, got, want)
		}
	}

	// 2. Demangle (the caller) on a profile with these names, all modes,
	// compared to the transcript recorded on the unchanged tree.
	var out strings.Builder
	for _, mode := range []string{"", "templates", "full", "none"} {
		for _, force := range []bool{false, true} {
			p := &profile.Profile{}
			for i, n := range zzNames {
				if len(n) > 120 {
					continue // keep the transcript small; covered by part 1
				}
				f := &profile.Function{ID: uint64(i + 1), SystemName: n}
				if i%3 == 0 {
					f.Name = n
				}
				if i%7 == 0 {
					f.Name = "already"
				}
				p.Function = append(p.Function, f)
			}
			Demangle(p, force, mode)
			fmt.Fprintf(&out, "mode=%q force=%v\n", mode, force)
			for _, f := range p.Function {
				fmt.Fprintf(&out, "  %q -> %q\n", f.SystemName, f.Name)
			}
		}
	}
	got := out.String()
	if os.Getenv("ZZ_PRINT") != "" {
		fmt.Print(got)
		return
	}
	if got != zzWantB {
		t.Errorf("Demangle transcript differs from the one recorded on the unchanged tree.\n--- got\n%s\n--- want\n%s", got, zzWantB)
	}
}

// zzWantB is the transcript produced by the unchanged tree.
const zzWantB = `mode="" force=false
  "" -> "already"
  "x" -> "x"
  "()" -> "()"
  "<>" -> "<>"
  "<unknown>" -> "<unknown>"
  "(anonymous namespace)::f(int)" -> "::f"
  "a(b)c)d(e)f" -> "a(b)c)d(e)f"
  "a(b" -> "already"
  "a(b)(c" -> "a(b)(c"
  "((a)" -> "((a)"
  ")(" -> ")("
  "><" -> "><"
  "std::vector<std::pair<int, char> >::push_back(std::pair<int, char>&&)" -> "std::vector::push_back"
  "operator<< <char>(std::ostream&, char)" -> "operator<< <char>"
  "foo<bar<baz>>(qux<int>)::{lambda(auto:1)#1}::operator()<int>(int) const" -> "already"
  "ns::T<(anonymous namespace)::U>::m()" -> "ns::T::m"
  "a::b<c(d)>::e(f<g>)" -> "a::b::e"
  "a::b<c(d>)::e" -> "a::b<c::e"
  "java.lang.Class.<init>" -> "java.lang.Class.<init>"
  "pkg.(*T[...]).Method" -> "pkg.(*T[...]).Method"
  "main.f[go.shape.int](x)" -> "main.f[go.shape.int]"
  "\x00<\xff>(\x80)::" -> "already"
  "((((((((((((((((((((x))))))))))))))))))))::y" -> "::y"
  "_ZN3foo3barEv" -> "foo::bar"
  "__ZN3foo3barEv" -> "foo::bar"
  "_ZNSt6vectorIiSaIiEE9push_backEOi" -> "std::vector::push_back"
  "_Z3fooILi1EEvv" -> "foo"
mode="" force=true
  "" -> "already"
  "x" -> "x"
  "()" -> "()"
  "<>" -> "<>"
  "<unknown>" -> "<unknown>"
  "(anonymous namespace)::f(int)" -> "::f"
  "a(b)c)d(e)f" -> "a(b)c)d(e)f"
  "a(b" -> "a(b"
  "a(b)(c" -> "a(b)(c"
  "((a)" -> "((a)"
  ")(" -> ")("
  "><" -> "><"
  "std::vector<std::pair<int, char> >::push_back(std::pair<int, char>&&)" -> "std::vector::push_back"
  "operator<< <char>(std::ostream&, char)" -> "operator<< <char>"
  "foo<bar<baz>>(qux<int>)::{lambda(auto:1)#1}::operator()<int>(int) const" -> "foo::{lambda#1}::operator const"
  "ns::T<(anonymous namespace)::U>::m()" -> "ns::T::m"
  "a::b<c(d)>::e(f<g>)" -> "a::b::e"
  "a::b<c(d>)::e" -> "a::b<c::e"
  "java.lang.Class.<init>" -> "java.lang.Class.<init>"
  "pkg.(*T[...]).Method" -> "pkg.(*T[...]).Method"
  "main.f[go.shape.int](x)" -> "main.f[go.shape.int]"
  "\x00<\xff>(\x80)::" -> "\x00::"
  "((((((((((((((((((((x))))))))))))))))))))::y" -> "::y"
  "_ZN3foo3barEv" -> "foo::bar"
  "__ZN3foo3barEv" -> "foo::bar"
  "_ZNSt6vectorIiSaIiEE9push_backEOi" -> "std::vector::push_back"
  "_Z3fooILi1EEvv" -> "foo"
mode="templates" force=false
  "" -> "already"
  "x" -> "x"
  "()" -> "()"
  "<>" -> "<>"
  "<unknown>" -> "<unknown>"
  "(anonymous namespace)::f(int)" -> "::f"
  "a(b)c)d(e)f" -> "a(b)c)d(e)f"
  "a(b" -> "already"
  "a(b)(c" -> "a(b)(c"
  "((a)" -> "((a)"
  ")(" -> ")("
  "><" -> "><"
  "std::vector<std::pair<int, char> >::push_back(std::pair<int, char>&&)" -> "std::vector<std::pair<int, char> >::push_back"
  "operator<< <char>(std::ostream&, char)" -> "operator<< <char>"
  "foo<bar<baz>>(qux<int>)::{lambda(auto:1)#1}::operator()<int>(int) const" -> "already"
  "ns::T<(anonymous namespace)::U>::m()" -> "ns::T<::U>::m"
  "a::b<c(d)>::e(f<g>)" -> "a::b<c>::e"
  "a::b<c(d>)::e" -> "a::b<c::e"
  "java.lang.Class.<init>" -> "java.lang.Class.<init>"
  "pkg.(*T[...]).Method" -> "pkg.(*T[...]).Method"
  "main.f[go.shape.int](x)" -> "main.f[go.shape.int]"
  "\x00<\xff>(\x80)::" -> "already"
  "((((((((((((((((((((x))))))))))))))))))))::y" -> "::y"
  "_ZN3foo3barEv" -> "foo::bar"
  "__ZN3foo3barEv" -> "foo::bar"
  "_ZNSt6vectorIiSaIiEE9push_backEOi" -> "std::vector<int, std::allocator<int> >::push_back"
  "_Z3fooILi1EEvv" -> "foo<1>"
mode="templates" force=true
  "" -> "already"
  "x" -> "x"
  "()" -> "()"
  "<>" -> "<>"
  "<unknown>" -> "<unknown>"
  "(anonymous namespace)::f(int)" -> "::f"
  "a(b)c)d(e)f" -> "a(b)c)d(e)f"
  "a(b" -> "a(b"
  "a(b)(c" -> "a(b)(c"
  "((a)" -> "((a)"
  ")(" -> ")("
  "><" -> "><"
  "std::vector<std::pair<int, char> >::push_back(std::pair<int, char>&&)" -> "std::vector<std::pair<int, char> >::push_back"
  "operator<< <char>(std::ostream&, char)" -> "operator<< <char>"
  "foo<bar<baz>>(qux<int>)::{lambda(auto:1)#1}::operator()<int>(int) const" -> "foo<bar<baz>>::{lambda#1}::operator<int> const"
  "ns::T<(anonymous namespace)::U>::m()" -> "ns::T<::U>::m"
  "a::b<c(d)>::e(f<g>)" -> "a::b<c>::e"
  "a::b<c(d>)::e" -> "a::b<c::e"
  "java.lang.Class.<init>" -> "java.lang.Class.<init>"
  "pkg.(*T[...]).Method" -> "pkg.(*T[...]).Method"
  "main.f[go.shape.int](x)" -> "main.f[go.shape.int]"
  "\x00<\xff>(\x80)::" -> "\x00<\xff>::"
  "((((((((((((((((((((x))))))))))))))))))))::y" -> "::y"
  "_ZN3foo3barEv" -> "foo::bar"
  "__ZN3foo3barEv" -> "foo::bar"
  "_ZNSt6vectorIiSaIiEE9push_backEOi" -> "std::vector<int, std::allocator<int> >::push_back"
  "_Z3fooILi1EEvv" -> "foo<1>"
mode="full" force=false
  "" -> "already"
  "x" -> "x"
  "()" -> "()"
  "<>" -> "<>"
  "<unknown>" -> "<unknown>"
  "(anonymous namespace)::f(int)" -> "(anonymous namespace)::f(int)"
  "a(b)c)d(e)f" -> "a(b)c)d(e)f"
  "a(b" -> "already"
  "a(b)(c" -> "a(b)(c"
  "((a)" -> "((a)"
  ")(" -> ")("
  "><" -> "><"
  "std::vector<std::pair<int, char> >::push_back(std::pair<int, char>&&)" -> "std::vector<std::pair<int, char> >::push_back(std::pair<int, char>&&)"
  "operator<< <char>(std::ostream&, char)" -> "operator<< <char>(std::ostream&, char)"
  "foo<bar<baz>>(qux<int>)::{lambda(auto:1)#1}::operator()<int>(int) const" -> "already"
  "ns::T<(anonymous namespace)::U>::m()" -> "ns::T<(anonymous namespace)::U>::m()"
  "a::b<c(d)>::e(f<g>)" -> "a::b<c(d)>::e(f<g>)"
  "a::b<c(d>)::e" -> "a::b<c(d>)::e"
  "java.lang.Class.<init>" -> "java.lang.Class.<init>"
  "pkg.(*T[...]).Method" -> "pkg.(*T[...]).Method"
  "main.f[go.shape.int](x)" -> "main.f[go.shape.int](x)"
  "\x00<\xff>(\x80)::" -> "already"
  "((((((((((((((((((((x))))))))))))))))))))::y" -> "((((((((((((((((((((x))))))))))))))))))))::y"
  "_ZN3foo3barEv" -> "foo::bar()"
  "__ZN3foo3barEv" -> "foo::bar()"
  "_ZNSt6vectorIiSaIiEE9push_backEOi" -> "std::vector<int, std::allocator<int> >::push_back(int&&)"
  "_Z3fooILi1EEvv" -> "void foo<1>()"
mode="full" force=true
  "" -> "already"
  "x" -> "x"
  "()" -> "()"
  "<>" -> "<>"
  "<unknown>" -> "<unknown>"
  "(anonymous namespace)::f(int)" -> "(anonymous namespace)::f(int)"
  "a(b)c)d(e)f" -> "a(b)c)d(e)f"
  "a(b" -> "a(b"
  "a(b)(c" -> "a(b)(c"
  "((a)" -> "((a)"
  ")(" -> ")("
  "><" -> "><"
  "std::vector<std::pair<int, char> >::push_back(std::pair<int, char>&&)" -> "std::vector<std::pair<int, char> >::push_back(std::pair<int, char>&&)"
  "operator<< <char>(std::ostream&, char)" -> "operator<< <char>(std::ostream&, char)"
  "foo<bar<baz>>(qux<int>)::{lambda(auto:1)#1}::operator()<int>(int) const" -> "foo<bar<baz>>(qux<int>)::{lambda(auto:1)#1}::operator()<int>(int) const"
  "ns::T<(anonymous namespace)::U>::m()" -> "ns::T<(anonymous namespace)::U>::m()"
  "a::b<c(d)>::e(f<g>)" -> "a::b<c(d)>::e(f<g>)"
  "a::b<c(d>)::e" -> "a::b<c(d>)::e"
  "java.lang.Class.<init>" -> "java.lang.Class.<init>"
  "pkg.(*T[...]).Method" -> "pkg.(*T[...]).Method"
  "main.f[go.shape.int](x)" -> "main.f[go.shape.int](x)"
  "\x00<\xff>(\x80)::" -> "\x00<\xff>(\x80)::"
  "((((((((((((((((((((x))))))))))))))))))))::y" -> "((((((((((((((((((((x))))))))))))))))))))::y"
  "_ZN3foo3barEv" -> "foo::bar()"
  "__ZN3foo3barEv" -> "foo::bar()"
  "_ZNSt6vectorIiSaIiEE9push_backEOi" -> "std::vector<int, std::allocator<int> >::push_back(int&&)"
  "_Z3fooILi1EEvv" -> "void foo<1>()"
mode="none" force=false
  "" -> "already"
  "x" -> ""
  "()" -> ""
  "<>" -> "<>"
  "<unknown>" -> ""
  "(anonymous namespace)::f(int)" -> ""
  "a(b)c)d(e)f" -> "a(b)c)d(e)f"
  "a(b" -> "already"
  "a(b)(c" -> ""
  "((a)" -> "((a)"
  ")(" -> ""
  "><" -> ""
  "std::vector<std::pair<int, char> >::push_back(std::pair<int, char>&&)" -> "std::vector<std::pair<int, char> >::push_back(std::pair<int, char>&&)"
  "operator<< <char>(std::ostream&, char)" -> ""
  "foo<bar<baz>>(qux<int>)::{lambda(auto:1)#1}::operator()<int>(int) const" -> "already"
  "ns::T<(anonymous namespace)::U>::m()" -> "ns::T<(anonymous namespace)::U>::m()"
  "a::b<c(d)>::e(f<g>)" -> ""
  "a::b<c(d>)::e" -> ""
  "java.lang.Class.<init>" -> "java.lang.Class.<init>"
  "pkg.(*T[...]).Method" -> ""
  "main.f[go.shape.int](x)" -> ""
  "\x00<\xff>(\x80)::" -> "already"
  "((((((((((((((((((((x))))))))))))))))))))::y" -> ""
  "_ZN3foo3barEv" -> ""
  "__ZN3foo3barEv" -> "__ZN3foo3barEv"
  "_ZNSt6vectorIiSaIiEE9push_backEOi" -> ""
  "_Z3fooILi1EEvv" -> ""
mode="none" force=true
  "" -> "already"
  "x" -> ""
  "()" -> ""
  "<>" -> "<>"
  "<unknown>" -> ""
  "(anonymous namespace)::f(int)" -> ""
  "a(b)c)d(e)f" -> "a(b)c)d(e)f"
  "a(b" -> "a(b"
  "a(b)(c" -> ""
  "((a)" -> "((a)"
  ")(" -> ""
  "><" -> ""
  "std::vector<std::pair<int, char> >::push_back(std::pair<int, char>&&)" -> "std::vector<std::pair<int, char> >::push_back(std::pair<int, char>&&)"
  "operator<< <char>(std::ostream&, char)" -> ""
  "foo<bar<baz>>(qux<int>)::{lambda(auto:1)#1}::operator()<int>(int) const" -> "foo<bar<baz>>(qux<int>)::{lambda(auto:1)#1}::operator()<int>(int) const"
  "ns::T<(anonymous namespace)::U>::m()" -> "ns::T<(anonymous namespace)::U>::m()"
  "a::b<c(d)>::e(f<g>)" -> ""
  "a::b<c(d>)::e" -> ""
  "java.lang.Class.<init>" -> "java.lang.Class.<init>"
  "pkg.(*T[...]).Method" -> ""
  "main.f[go.shape.int](x)" -> ""
  "\x00<\xff>(\x80)::" -> "\x00<\xff>(\x80)::"
  "((((((((((((((((((((x))))))))))))))))))))::y" -> ""
  "_ZN3foo3barEv" -> ""
  "__ZN3foo3barEv" -> "__ZN3foo3barEv"
  "_ZNSt6vectorIiSaIiEE9push_backEOi" -> ""
  "_Z3fooILi1EEvv" -> ""
`
