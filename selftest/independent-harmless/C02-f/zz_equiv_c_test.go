package profile

import (
	"crypto/sha256"
	"encoding/hex"
	"fmt"
	"os"
	"path/filepath"
	"strings"
	"testing"
)

// Equivalence demonstration for change C (word readers and header
// recognition of the legacy binary profilez parser). Expected values were
// computed on the unchanged tree.

func zzcOutcome(data []byte) string {
	p, err := ParseData(data)
	if err != nil {
		return "ERR " + err.Error()
	}
	if err := p.CheckValid(); err != nil {
		return "INVALID " + err.Error()
	}
	h := sha256.Sum256([]byte(p.String()))
	return "OK " + hex.EncodeToString(h[:8])
}

// zzcWords encodes words with the given word size (4 or 8) and endianness.
func zzcWords(size int, big bool, words ...uint64) []byte {
	var out []byte
	for _, w := range words {
		buf := make([]byte, size)
		for i := 0; i < size; i++ {
			by := byte(w >> (8 * uint(i)))
			if big {
				buf[size-1-i] = by
			} else {
				buf[i] = by
			}
		}
		out = append(out, buf...)
	}
	return out
}

const zzcMaps = "MAPPED_LIBRARIES:\n" +
	"00400000-00500000 r-xp 00000000 fd:01 1234 /bin/app\n" +
	"7f0000000000-7f0000100000 r-xp 00000000 fd:01 99 /lib/libc.so.6\n"

const zzcJavaLocs = "0x1000 foo.Bar (Bar.java:12)\n0x2000 baz (/usr/lib/libjvm.so)\n0x401000 GC\n"

func zzcInputs() (names []string, inputs [][]byte) {
	add := func(name string, b []byte) {
		names = append(names, name)
		inputs = append(inputs, b)
	}
	for _, enc := range []struct {
		name string
		size int
		big  bool
	}{{"32l", 4, false}, {"32b", 4, true}, {"64l", 8, false}, {"64b", 8, true}} {
		hdrCPP := zzcWords(enc.size, enc.big, 0, 3, 0, 10000, 0)
		hdrJava := zzcWords(enc.size, enc.big, 0, 3, 1, 250, 0)
		samples := zzcWords(enc.size, enc.big,
			5, 3, 0x401000, 0x401101, 0x7f0000000201,
			2, 2, 0x401005, 0x401101,
			1, 4, 0x402000, 0x401fff+1, 0x401101, 0x1000,
			0, 1, 0) // end marker
		add(enc.name+"/cpp", append(append(append([]byte{}, hdrCPP...), samples...), zzcMaps...))
		add(enc.name+"/cpp-no-eod", append(append([]byte{}, hdrCPP...), zzcWords(enc.size, enc.big, 5, 2, 0x401000, 0x401101)...))
		add(enc.name+"/cpp-header-only", hdrCPP)
		add(enc.name+"/cpp-nstk-too-big", append(append([]byte{}, hdrCPP...), zzcWords(enc.size, enc.big, 5, 1000, 0x401000)...))
		add(enc.name+"/cpp-odd-tail", append(append(append([]byte{}, hdrCPP...), zzcWords(enc.size, enc.big, 1, 1, 0x401000)...), 1, 2, 3))
		add(enc.name+"/java", append(append(append([]byte{}, hdrJava...), zzcWords(enc.size, enc.big,
			3, 2, 0x1000, 0x2000, 4, 3, 0x2000, 0x401000, 0x3000, 0, 1, 0)...), zzcJavaLocs...))
		add(enc.name+"/zero-period", zzcWords(enc.size, enc.big, 0, 3, 0, 0, 0, 0, 1, 0))
		add(enc.name+"/bad-flavour", zzcWords(enc.size, enc.big, 0, 3, 2, 100, 0, 0, 1, 0))
		add(enc.name+"/bad-padding", zzcWords(enc.size, enc.big, 0, 3, 0, 100, 7, 0, 1, 0))
		add(enc.name+"/bad-magic", zzcWords(enc.size, enc.big, 0, 4, 0, 100, 0, 0, 1, 0))
		add(enc.name+"/huge-period", zzcWords(enc.size, enc.big, 0, 3, 0, 0xffffffffffffffff, 0, 1, 1, 0x401000, 0, 1, 0))
	}
	return names, inputs
}

var zzcWant = map[string]string{
	"32l/cpp":              "OK 5d4fb0c8b7bb781f",
	"32l/cpp-no-eod":       "OK db53508616d13819",
	"32l/cpp-header-only":  "OK f5ae4edafac1d4b8",
	"32l/cpp-nstk-too-big": "ERR parsing profile: unrecognized profile format",
	"32l/cpp-odd-tail":     "ERR parsing profile: unrecognized profile format",
	"32l/java":             "OK 93c1dd9343452443",
	"32l/zero-period":      "ERR parsing profile: unrecognized profile format",
	"32l/bad-flavour":      "ERR parsing profile: unrecognized profile format",
	"32l/bad-padding":      "ERR parsing profile: unrecognized profile format",
	"32l/bad-magic":        "ERR parsing profile: unrecognized profile format",
	"32l/huge-period":      "OK abc9aa8d9add1f58",
	"32b/cpp":              "OK 5d4fb0c8b7bb781f",
	"32b/cpp-no-eod":       "OK db53508616d13819",
	"32b/cpp-header-only":  "OK f5ae4edafac1d4b8",
	"32b/cpp-nstk-too-big": "ERR parsing profile: unrecognized profile format",
	"32b/cpp-odd-tail":     "ERR parsing profile: unrecognized profile format",
	"32b/java":             "OK 93c1dd9343452443",
	"32b/zero-period":      "ERR parsing profile: unrecognized profile format",
	"32b/bad-flavour":      "ERR parsing profile: unrecognized profile format",
	"32b/bad-padding":      "ERR parsing profile: unrecognized profile format",
	"32b/bad-magic":        "ERR parsing profile: unrecognized profile format",
	"32b/huge-period":      "OK abc9aa8d9add1f58",
	"64l/cpp":              "OK 109d24fe5f9ce11d",
	"64l/cpp-no-eod":       "OK db53508616d13819",
	"64l/cpp-header-only":  "OK f5ae4edafac1d4b8",
	"64l/cpp-nstk-too-big": "ERR parsing profile: unrecognized profile format",
	"64l/cpp-odd-tail":     "ERR parsing profile: unrecognized profile format",
	"64l/java":             "OK 93c1dd9343452443",
	"64l/zero-period":      "ERR parsing profile: unrecognized profile format",
	"64l/bad-flavour":      "ERR parsing profile: unrecognized profile format",
	"64l/bad-padding":      "ERR parsing profile: unrecognized profile format",
	"64l/bad-magic":        "ERR parsing profile: unrecognized profile format",
	"64l/huge-period":      "OK 9de0e3acd0119769",
	"64b/cpp":              "OK 109d24fe5f9ce11d",
	"64b/cpp-no-eod":       "OK db53508616d13819",
	"64b/cpp-header-only":  "OK f5ae4edafac1d4b8",
	"64b/cpp-nstk-too-big": "ERR parsing profile: unrecognized profile format",
	"64b/cpp-odd-tail":     "ERR parsing profile: unrecognized profile format",
	"64b/java":             "OK 93c1dd9343452443",
	"64b/zero-period":      "ERR parsing profile: unrecognized profile format",
	"64b/bad-flavour":      "ERR parsing profile: unrecognized profile format",
	"64b/bad-padding":      "ERR parsing profile: unrecognized profile format",
	"64b/bad-magic":        "ERR parsing profile: unrecognized profile format",
	"64b/huge-period":      "OK 9de0e3acd0119769",
}

func TestZZEquivC(t *testing.T) {
	// The four word readers, on short, exact and long inputs.
	raw := []byte{0x01, 0x02, 0x03, 0x04, 0x05, 0x06, 0x07, 0x88, 0x99}
	var sb strings.Builder
	for i, get := range cpuInts {
		for n := 0; n <= len(raw); n++ {
			v, rest := get(raw[:n])
			fmt.Fprintf(&sb, "%d/%d:%x,%v,%d;", i, n, v, rest == nil, len(rest))
		}
		v, rest := get(nil)
		fmt.Fprintf(&sb, "%d/nil:%x,%v;", i, v, rest == nil)
	}
	h := sha256.Sum256([]byte(sb.String()))
	if got, want := hex.EncodeToString(h[:8]), "ab4f51cf683468c8"; got != want {
		t.Errorf("word readers digest %s, want %s\n%s", got, want, sb.String())
	}
	if v, _ := get32l(raw); v != 0x04030201 {
		t.Errorf("get32l %x", v)
	}
	if v, _ := get32b(raw); v != 0x01020304 {
		t.Errorf("get32b %x", v)
	}
	if v, _ := get64l(raw); v != 0x8807060504030201 {
		t.Errorf("get64l %x", v)
	}
	if v, _ := get64b(raw); v != 0x0102030405060788 {
		t.Errorf("get64b %x", v)
	}

	names, inputs := zzcInputs()
	for i, name := range names {
		got := zzcOutcome(inputs[i])
		if want := zzcWant[name]; got != want {
			t.Errorf("%s: got %q, want %q", name, got, want)
		}
	}

	// Every truncation of two well-formed inputs (32-bit big endian C++ and
	// 64-bit little endian java): total, and same outcome sequence.
	var all strings.Builder
	for _, idx := range []int{11, 27} {
		in := inputs[idx]
		for n := 0; n <= len(in); n++ {
			all.WriteString(zzcOutcome(in[:n]))
			all.WriteByte('\n')
		}
	}
	h = sha256.Sum256([]byte(all.String()))
	if got, want := hex.EncodeToString(h[:8]), "c317e84a5636b891"; got != want {
		t.Errorf("truncation outcomes digest %s, want %s (inputs %s, %s)", got, want, names[11], names[27])
	}

	for name, want := range map[string]string{
		"cppbench.cpu": "OK 1757ba5db4e248e9",
		"java.cpu":     "OK 1c543a46e4c5c6e7",
		"gobench.cpu":  "OK 1a781d6b2c8b89e0",
		"go.crc32.cpu": "OK 7a6189c5490ed6aa",
	} {
		data, err := os.ReadFile(filepath.Join("testdata", name))
		if err != nil {
			t.Fatal(err)
		}
		if got := zzcOutcome(data); got != want {
			t.Errorf("%s: got %q want %q", name, got, want)
		}
		// Truncated real profiles stay total.
		for _, n := range []int{19, 20, 39, 40, 41, 100, 1001, len(data) / 2} {
			if n < len(data) {
				zzcOutcome(data[:n])
			}
		}
	}
}
