#!/bin/sh
# Usage: demo.sh <worktree root>. Copies the equivalence test into the profile
# package, runs it, removes it again. Exits 0 iff the test passes. Works with
# and without patch.diff applied.
set -u
root=${1:?usage: demo.sh WORKTREE_ROOT}
here=$(cd "$(dirname "$0")" && pwd)
export GOFLAGS=-mod=mod GOPROXY=off GOSUMDB=off GOTOOLCHAIN=local
cp "$here/zz_equiv_c_test.go" "$root/profile/zz_equiv_c_test.go" || exit 2
(cd "$root" && go test -vet=off -count=1 -run 'TestZZEquivC$' ./profile/)
rc=$?
rm -f "$root/profile/zz_equiv_c_test.go"
exit $rc
