#!/bin/sh
# usage: demo.sh <worktree root>
set -u
root="$1"
here="$(cd "$(dirname "$0")" && pwd)"
export GOFLAGS=-mod=mod GOPROXY=off GOSUMDB=off GOTOOLCHAIN=local
cp "$here/zz_equiv_c_test.go" "$root/internal/binutils/zz_equiv_c_test.go"
log="$(mktemp)"
(cd "$root" && go test -vet=off -count=1 -race -run 'TestZZEquivC$' -v ./internal/binutils/) >"$log" 2>&1
rc=$?
cat "$log"
# A skipped or missing test must not count as a pass.
grep -q '^--- PASS: TestZZEquivC' "$log" || rc=1
rm -f "$log" "$root/internal/binutils/zz_equiv_c_test.go"
exit $rc
