package binutils

import (
	"errors"
	"fmt"
	"path/filepath"
	"runtime"
	"strings"
	"sync"
	"testing"

	"github.com/google/pprof/internal/plugin"
)

// zzScriptRW is a lineReaderWriter that logs every request and answers from a
// reply function. It is deliberately not safe for concurrent use: the callers'
// lock has to keep exchanges from interleaving (checked from the log, and by
// the race detector).
type zzScriptRW struct {
	log     []string
	pending []string
	reply   func(req string) []string
	failW   error
	failR   error
}

func (m *zzScriptRW) write(s string) error {
	m.log = append(m.log, s)
	if m.failW != nil {
		return m.failW
	}
	m.pending = append(m.pending, m.reply(s)...)
	return nil
}

func (m *zzScriptRW) readLine() (string, error) {
	if m.failR != nil {
		return "", m.failR
	}
	if len(m.pending) == 0 {
		return "", errors.New("end of file")
	}
	l := m.pending[0]
	m.pending = m.pending[1:]
	return l, nil
}

func (m *zzScriptRW) close() {}

// zzA2LReply imitates "addr2line -aif": an address echo followed by
// function/file:line pairs, innermost first.
func zzA2LReply(req string) []string {
	out := []string{"0x" + req}
	switch req {
	case "ffffffffffffffff":
		return append(out, "??", "??:0")
	case "1000":
		return append(out, "inl", "a.h:7 (discriminator 3)", "outer", "dir/a.c:12")
	case "2000":
		return append(out, "f2", "b.c:?")
	case "fffffffffffffff0":
		return append(out, "wrapped", "w.c:1")
	}
	if strings.HasPrefix(req, "a") {
		return append(out, "fn_"+req, "file_"+req+".c:"+fmt.Sprint(len(req)))
	}
	return append(out, "??", "??:0")
}

func zzFrames(fr []plugin.Frame, err error) string {
	return fmt.Sprintf("%+v err=%v", fr, err)
}

const zzGoldenC = `a2l 1000: [{Func:inl File:a.h Line:7 Column:0 StartLine:0} {Func:outer File:dir/a.c Line:12 Column:0 StartLine:0}] err=<nil>
a2l 2000: [{Func:f2 File:b.c:? Line:0 Column:0 StartLine:0}] err=<nil>
a2l unknown: [] err=<nil>
a2l wrap: [{Func:wrapped File:w.c Line:1 Column:0 StartLine:0}] err=<nil>
a2l requests: 1000,ffffffffffffffff,2000,ffffffffffffffff,3000,ffffffffffffffff,fffffffffffffff0,ffffffffffffffff
a2l write error: [] err=pipe closed requests=1000
a2l read error: [] err=no reply requests=1000,ffffffffffffffff
a2l bad reply: [] err=unexpected addr2line output: garbage
llvm code: [{Func:inl File:x.h Line:3 Column:9 StartLine:1} {Func:outer File:x.c Line:20 Column:2 StartLine:18}] err=<nil>
llvm data: [{Func:gvar File:0x4010 16 Line:0 Column:0 StartLine:0}] err=<nil>
llvm requests: bin file 0x4010,bin file 0xfffffffffffffff0,bin file 0x0
llvm bad json: true
llvm bad size: true
llvm write error: [] err=pipe closed requests=bin 0x1
llvm read error: [] err=no reply requests=bin 0x1
fake code: [{Func:Inlined_0x2a File:foo.h Line:0 Column:0 StartLine:0} {Func:Func_0x2a File:foo.c Line:2 Column:1 StartLine:2}] err=<nil>
fake data: [{Func:foo_0x30 File:0x30 8 Line:0 Column:0 StartLine:0}] err=<nil>
`

func TestZZEquivC(t *testing.T) {
	if runtime.GOOS != "linux" {
		t.Skip("linux only")
	}
	var out strings.Builder
	pr := func(format string, args ...interface{}) { fmt.Fprintf(&out, format, args...) }

	// --- addr2line, one at a time ---
	rw := &zzScriptRW{reply: zzA2LReply}
	a := &addr2Liner{rw: rw, base: 0x500}
	pr("a2l 1000: %s\n", zzFrames(a.addrInfo(0x1500)))
	pr("a2l 2000: %s\n", zzFrames(a.addrInfo(0x2500)))
	pr("a2l unknown: %s\n", zzFrames(a.addrInfo(0x3500)))
	pr("a2l wrap: %s\n", zzFrames(a.addrInfo(0x4f0))) // below base: wraps around
	pr("a2l requests: %s\n", strings.Join(rw.log, ","))

	rw = &zzScriptRW{reply: zzA2LReply, failW: errors.New("pipe closed")}
	a = &addr2Liner{rw: rw, base: 0x500}
	fr, err := a.addrInfo(0x1500)
	pr("a2l write error: %s requests=%s\n", zzFrames(fr, err), strings.Join(rw.log, ","))
	rw = &zzScriptRW{reply: zzA2LReply, failR: errors.New("no reply")}
	a = &addr2Liner{rw: rw, base: 0x500}
	fr, err = a.addrInfo(0x1500)
	pr("a2l read error: %s requests=%s\n", zzFrames(fr, err), strings.Join(rw.log, ","))
	rw = &zzScriptRW{reply: func(string) []string { return []string{"garbage"} }}
	a = &addr2Liner{rw: rw}
	pr("a2l bad reply: %s\n", zzFrames(a.addrInfo(1)))

	// --- addr2line, many goroutines on one connection ---
	rw = &zzScriptRW{reply: zzA2LReply}
	a = &addr2Liner{rw: rw, base: 0x500}
	var wg sync.WaitGroup
	for g := 0; g < 8; g++ {
		wg.Add(1)
		go func(g int) {
			defer wg.Done()
			for i := 0; i < 50; i++ {
				addr := uint64(0xa000 + g*0x100 + i)
				req := fmt.Sprintf("%x", addr)
				want := fmt.Sprintf("[{Func:fn_%s File:file_%s.c Line:%d Column:0 StartLine:0}] err=<nil>", req, req, len(req))
				if got := zzFrames(a.addrInfo(addr + 0x500)); got != want {
					t.Errorf("concurrent addr2line %x: got %s want %s", addr, got, want)
				}
			}
		}(g)
	}
	wg.Wait()
	if len(rw.log) != 800 || len(rw.pending) != 0 {
		t.Errorf("addr2line: %d requests, %d unread lines; want 800, 0", len(rw.log), len(rw.pending))
	}
	for i := 0; i+1 < len(rw.log); i += 2 {
		if rw.log[i] == "ffffffffffffffff" || rw.log[i+1] != "ffffffffffffffff" {
			t.Errorf("addr2line requests interleaved at %d: %q %q", i, rw.log[i], rw.log[i+1])
			break
		}
	}

	// --- llvm-symbolizer against a scripted connection ---
	llvmReply := func(req string) []string {
		switch req {
		case "bin file 0x4010":
			return []string{`{"Address":"0x4010","ModuleName":"bin file","Symbol":[{"Column":9,"FileName":"x.h","FunctionName":"inl","Line":3,"StartLine":1},{"Column":2,"FileName":"x.c","FunctionName":"outer","Line":20,"StartLine":18}]}`}
		case "bin file 0xfffffffffffffff0":
			return []string{`{"Address":"0x4010","ModuleName":"bin file","Data":{"Name":"gvar","Size":"0x10","Start":"0x4010"}}`}
		case "bin file 0x0":
			return []string{`{"Address":"0x0","ModuleName":"bin file","Data":{"Name":"v","Size":"big","Start":"0x0"}}`}
		}
		return []string{"not json"}
	}
	lrw := &zzScriptRW{reply: llvmReply}
	l := &llvmSymbolizer{filename: "bin file", rw: lrw, base: 0x1000}
	pr("llvm code: %s\n", zzFrames(l.addrInfo(0x5010)))
	l.isData = true
	pr("llvm data: %s\n", zzFrames(l.addrInfo(0xff0)))
	_, esz := l.addrInfo(0x1000)
	pr("llvm requests: %s\n", strings.Join(lrw.log, ","))
	_, ejs := l.addrInfo(0x1234)
	l.isData = false
	_, ejs2 := l.addrInfo(0x1234)
	pr("llvm bad json: %t\n", ejs != nil && ejs2 != nil)
	pr("llvm bad size: %t\n", esz != nil && strings.Contains(esz.Error(), "big"))
	lrw = &zzScriptRW{reply: llvmReply, failW: errors.New("pipe closed")}
	l = &llvmSymbolizer{filename: "bin", rw: lrw}
	fr, err = l.addrInfo(1)
	pr("llvm write error: %s requests=%s\n", zzFrames(fr, err), strings.Join(lrw.log, ","))
	lrw = &zzScriptRW{reply: llvmReply, failR: errors.New("no reply")}
	l = &llvmSymbolizer{filename: "bin", rw: lrw}
	fr, err = l.addrInfo(1)
	pr("llvm read error: %s requests=%s\n", zzFrames(fr, err), strings.Join(lrw.log, ","))

	// --- llvm-symbolizer process, many goroutines on one connection ---
	cmd := filepath.Join("testdata", "fake-llvm-symbolizer")
	for _, isData := range []bool{false, true} {
		sym, err := newLLVMSymbolizer(cmd, "foo", 0x10, isData)
		if err != nil {
			t.Fatal(err)
		}
		if isData {
			pr("fake data: %s\n", zzFrames(sym.addrInfo(0x40)))
		} else {
			pr("fake code: %s\n", zzFrames(sym.addrInfo(0x3a)))
		}
		for g := 0; g < 8; g++ {
			wg.Add(1)
			go func(g int) {
				defer wg.Done()
				for i := 0; i < 25; i++ {
					addr := uint64(0x1000 + g*0x100 + i)
					fr, err := sym.addrInfo(addr + 0x10)
					var want string
					if isData {
						want = fmt.Sprintf("[{Func:foo_0x%x File:0x%x 8 Line:0 Column:0 StartLine:0}] err=<nil>", addr, addr)
					} else {
						want = fmt.Sprintf("[{Func:Inlined_0x%x File:foo.h Line:0 Column:0 StartLine:0} {Func:Func_0x%x File:foo.c Line:2 Column:1 StartLine:2}] err=<nil>", addr, addr)
					}
					if got := zzFrames(fr, err); got != want {
						t.Errorf("concurrent llvm-symbolizer %x: got %s want %s", addr, got, want)
					}
				}
			}(g)
		}
		wg.Wait()
		sym.rw.close()
	}

	if got := out.String(); got != zzGoldenC {
		t.Errorf("transcript differs\n--- got ---\n%s--- want ---\n%s", got, zzGoldenC)
	}
}
