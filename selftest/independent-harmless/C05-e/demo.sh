#!/bin/sh
# Usage: demo.sh <worktree-root>. Runs the equivalence test for rewrite B against
# whatever source state the worktree is in (with or without b/patch.diff applied).
set -u
wt=${1:?usage: demo.sh <worktree root>}
here=$(cd "$(dirname "$0")" && pwd)
export GOFLAGS=-mod=mod GOPROXY=off GOSUMDB=off GOTOOLCHAIN=local
cp "$here/zz_equiv_b_test.go" "$wt/internal/report/zz_equiv_b_test.go"
(cd "$wt" && go test -vet=off -count=1 -run 'TestZZEquivB' ./internal/report/)
rc=$?
rm -f "$wt/internal/report/zz_equiv_b_test.go"
exit $rc
