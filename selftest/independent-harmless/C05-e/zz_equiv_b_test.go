package report

// Equivalence demonstration for rewrite B (TextItems / printText / printTree glue).
// The expected digests were computed on the UNCHANGED tree and hard-coded; the
// test passes both with and without the patch.

import (
	"bytes"
	"crypto/sha256"
	"encoding/json"
	"fmt"
	"os"
	"regexp"
	"sort"
	"strings"
	"testing"

	"github.com/google/pprof/internal/graph"
	"github.com/google/pprof/profile"
)

func zzbProfile() *profile.Profile {
	m := &profile.Mapping{ID: 1, Start: 0x1000, Limit: 0x9000, File: "/bin/zzprog", HasFunctions: true}
	names := []string{"main", "alpha", "beta", "gamma", "delta", "eps", "phi", "gee", "aitch", "inl"}
	fn := map[string]*profile.Function{}
	var fns []*profile.Function
	for i, n := range names {
		f := &profile.Function{ID: uint64(i + 1), Name: n, SystemName: n, Filename: "/src/" + n + ".go", StartLine: int64(10 * (i + 1))}
		fn[n] = f
		fns = append(fns, f)
	}
	loc := map[string]*profile.Location{}
	var locs []*profile.Location
	for i, n := range names[:9] {
		l := &profile.Location{ID: uint64(i + 1), Mapping: m, Address: uint64(0x1000 + 0x100*i),
			Line: []profile.Line{{Function: fn[n], Line: int64(10*(i+1) + 3)}}}
		loc[n] = l
		locs = append(locs, l)
	}
	// beta with inl inlined into it (leaf-most line first).
	bi := &profile.Location{ID: 20, Mapping: m, Address: 0x2f00,
		Line: []profile.Line{{Function: fn["inl"], Line: 101}, {Function: fn["beta"], Line: 37}}}
	loc["beta+inl"] = bi
	locs = append(locs, bi)
	// second address inside gamma
	g2 := &profile.Location{ID: 21, Mapping: m, Address: 0x1310,
		Line: []profile.Line{{Function: fn["gamma"], Line: 49}}}
	loc["gamma2"] = g2
	locs = append(locs, g2)
	// inl also called out of line (makes its text entry "(partial-inline)")
	id := &profile.Location{ID: 22, Mapping: m, Address: 0x1a00,
		Line: []profile.Line{{Function: fn["inl"], Line: 103}}}
	loc["inl-direct"] = id
	locs = append(locs, id)

	st := func(v1, v2 int64, lbl string, leafFirst ...string) *profile.Sample {
		s := &profile.Sample{Value: []int64{v1, v2}}
		for _, n := range leafFirst {
			s.Location = append(s.Location, loc[n])
		}
		if lbl != "" {
			s.Label = map[string][]string{"req": {lbl}}
			s.NumLabel = map[string][]int64{"bytes": {v2 / 10}}
			s.NumUnit = map[string][]string{"bytes": {"bytes"}}
		}
		return s
	}
	return &profile.Profile{
		SampleType:    []*profile.ValueType{{Type: "samples", Unit: "count"}, {Type: "cpu", Unit: "milliseconds"}},
		PeriodType:    &profile.ValueType{Type: "cpu", Unit: "milliseconds"},
		Period:        10,
		DurationNanos: 10e9,
		Mapping:       []*profile.Mapping{m},
		Function:      fns,
		Location:      locs,
		Sample: []*profile.Sample{
			st(10, 1000, "x", "gamma", "beta", "alpha", "main"),
			st(5, 500, "y", "delta", "beta", "alpha", "main"),
			st(3, 300, "", "eps", "alpha", "main"),
			st(2, 200, "x", "gamma2", "phi", "main"),
			st(1, 70, "", "aitch", "gee", "phi", "main"),
			st(1, 30, "", "gee", "main"),
			st(1, 10, "z", "aitch", "gamma", "beta", "alpha", "main"),
			st(1, 50, "", "beta", "alpha", "alpha", "main"),
			st(2, 160, "y", "beta+inl", "alpha", "main"),
			st(1, 40, "", "delta", "beta+inl", "phi", "main"),
			st(-1, -45, "", "eps", "main"),
			st(1, 25, "", "main"),
			st(1, 15, "", "inl-direct", "gee", "main"),
			st(1, 25, "", "phi", "eps", "delta"),
		},
	}
}

// zzbRun renders one report and returns its bytes.
func zzbRun(t *testing.T, o Options) []byte {
	return zzbRunAgg(t, o, false)
}

// zzbRunAgg optionally aggregates to function granularity first, as the driver
// does by default.
func zzbRunAgg(t *testing.T, o Options, agg bool) []byte {
	t.Helper()
	p := zzbProfile()
	if agg {
		if err := p.Aggregate(true, true, false, false, false, false); err != nil {
			t.Fatal(err)
		}
	}
	o.SampleValue = func(v []int64) int64 { return v[1] }
	o.SampleUnit = p.SampleType[1].Unit
	o.SampleType = "cpu"
	rpt := New(p, &o)
	var buf bytes.Buffer
	if o.OutputFormat == Dot && o.CallTree {
		// In a call tree several nodes share one NodeInfo, so the order of
		// exact ties (and with it the N<id> numbering of the DOT text) depends
		// on map iteration order already on the unchanged tree. Compare the
		// graph itself in a canonical form instead of the DOT bytes.
		g, c := GetDOT(rpt)
		return zzbCanonTree(g, c.Labels)
	}
	if err := Generate(&buf, rpt, nil); err != nil {
		fmt.Fprintf(&buf, "ERROR: %v\n", err)
	}
	return buf.Bytes()
}

func zzbPath(n *graph.Node) string {
	s := n.Info.PrintableName()
	for depth := 0; len(n.In) == 1 && depth < 100; depth++ {
		for p := range n.In {
			n = p
		}
		s = n.Info.PrintableName() + ">" + s
	}
	return s
}

func zzbCanonTree(g *graph.Graph, labels []string) []byte {
	var lines []string
	for _, n := range g.Nodes {
		lines = append(lines, fmt.Sprintf("node %s flat=%d cum=%d in=%d out=%d", zzbPath(n), n.FlatValue(), n.CumValue(), len(n.In), len(n.Out)))
		for _, e := range n.Out {
			lines = append(lines, fmt.Sprintf("edge %s -> %s w=%d residual=%v inline=%v", zzbPath(e.Src), zzbPath(e.Dest), e.WeightValue(), e.Residual, e.Inline))
		}
	}
	sort.Strings(lines)
	return []byte(strings.Join(labels, "\n") + "\n" + strings.Join(lines, "\n") + "\n")
}

var zzbFormats = []struct {
	name string
	f    int
}{{"text", Text}, {"tree", Tree}, {"dot", Dot}, {"callgrind", Callgrind}}

func zzbDigests(t *testing.T) map[string]string {
	out := map[string]string{}
	for _, f := range zzbFormats {
		for _, callTree := range []bool{false, true} {
			for _, cum := range []bool{false, true} {
				h := sha256.New()
				for _, nc := range []int{0, 1, 2, 3, 5, 8, 100} {
					for _, nf := range []float64{0, 0.02, 0.05, 0.2, 0.6, 1.5} {
						for _, ef := range []float64{0, 0.03, 0.3} {
							for _, agg := range []bool{false, true} {
								b := zzbRunAgg(t, Options{OutputFormat: f.f, CallTree: callTree, CumSort: cum,
									NodeCount: nc, NodeFraction: nf, EdgeFraction: ef}, agg)
								fmt.Fprintf(h, "## nc=%d nf=%v ef=%v agg=%v len=%d\n", nc, nf, ef, agg, len(b))
								h.Write(b)
							}
						}
					}
				}
				out[fmt.Sprintf("%s/calltree=%v/cum=%v", f.name, callTree, cum)] = fmt.Sprintf("%x", h.Sum(nil)[:8])
			}
		}
	}
	// peek-like tree reports (Symbol regexp set), including a no-match error.
	h := sha256.New()
	for _, rx := range []string{"beta", "^g", "nomatch"} {
		for _, nc := range []int{0, 2, 4} {
			h.Write(zzbRun(t, Options{OutputFormat: Tree, NodeCount: nc, NodeFraction: 0.05, Symbol: regexp.MustCompile(rx)}))
		}
	}
	out["peek"] = fmt.Sprintf("%x", h.Sum(nil)[:8])
	// Mean-divisor variant (flat/cum are quotients) and DropNegative.
	h = sha256.New()
	for _, f := range zzbFormats {
		for _, nc := range []int{0, 2, 4} {
			p := zzbProfile()
			rpt := New(p, &Options{OutputFormat: f.f, NodeCount: nc, NodeFraction: 0.05, DropNegative: true, CumSort: nc == 2,
				SampleValue:       func(v []int64) int64 { return v[1] },
				SampleMeanDivisor: func(v []int64) int64 { return v[0] },
				SampleUnit:        "milliseconds", SampleType: "cpu"})
			var buf bytes.Buffer
			if err := Generate(&buf, rpt, nil); err != nil {
				t.Fatal(err)
			}
			h.Write(buf.Bytes())
		}
	}
	out["mean+dropneg"] = fmt.Sprintf("%x", h.Sum(nil)[:8])
	// TextItems as consumed by the web UI (JSON), including the everything-trimmed case.
	h = sha256.New()
	for _, nf := range []float64{0, 0.2, 1.5} {
		for _, nc := range []int{0, 3} {
			p := zzbProfile()
			rpt := New(p, &Options{OutputFormat: Text, NodeCount: nc, NodeFraction: nf,
				SampleValue: func(v []int64) int64 { return v[1] }, SampleUnit: "milliseconds", SampleType: "cpu"})
			items, labels := TextItems(rpt)
			js, err := json.Marshal(struct {
				I []TextItem
				L []string
			}{items, labels})
			if err != nil {
				t.Fatal(err)
			}
			h.Write(js)
			h.Write([]byte("\n"))
		}
	}
	out["textitems-json"] = fmt.Sprintf("%x", h.Sum(nil)[:8])
	return out
}

func TestZZEquivB(t *testing.T) {
	got := zzbDigests(t)
	if os.Getenv("ZZ_PRINT") != "" {
		for k, v := range got {
			fmt.Printf("\t%q: %q,\n", k, v)
		}
		fmt.Print(string(zzbRunAgg(t, Options{OutputFormat: Text, NodeCount: 4, NodeFraction: 0.05}, true)))
		fmt.Println("=====")
		fmt.Print(string(zzbRunAgg(t, Options{OutputFormat: Tree, NodeCount: 3, NodeFraction: 0.05, CumSort: true}, true)))
		return
	}
	if len(got) != len(zzbWant) {
		t.Errorf("got %d digests, want %d", len(got), len(zzbWant))
	}
	for k, w := range zzbWant {
		if got[k] != w {
			t.Errorf("%s: digest %s, want %s (computed on the unchanged tree)", k, got[k], w)
		}
	}
	// A few literal spot checks so that the digests are not the only evidence.
	txt := string(zzbRunAgg(t, Options{OutputFormat: Text, NodeCount: 4, NodeFraction: 0.05}, true))
	if txt != zzbWantText {
		t.Errorf("text report differs:\n%s\nwant:\n%s", txt, zzbWantText)
	}
}

var zzbWant = map[string]string{
	"callgrind/calltree=false/cum=false": "07689277e297da8f",
	"callgrind/calltree=false/cum=true":  "27022699fe273f8e",
	"callgrind/calltree=true/cum=false":  "804003e8a280ed1d",
	"callgrind/calltree=true/cum=true":   "5fa5c8200de3bd77",
	"dot/calltree=false/cum=false":       "951f8aa2ba56f965",
	"dot/calltree=false/cum=true":        "951f8aa2ba56f965",
	"dot/calltree=true/cum=false":        "a4edec2f952bfcd1",
	"dot/calltree=true/cum=true":         "a4edec2f952bfcd1",
	"mean+dropneg":                       "4c952f0e1d239f98",
	"peek":                               "7a4a28969fda9fcb",
	"text/calltree=false/cum=false":      "5080c41c52936d21",
	"text/calltree=false/cum=true":       "d409713513d6d52f",
	"text/calltree=true/cum=false":       "5080c41c52936d21",
	"text/calltree=true/cum=true":        "d409713513d6d52f",
	"textitems-json":                     "303227d0f42f08ad",
	"tree/calltree=false/cum=false":      "b587160ba46a8794",
	"tree/calltree=false/cum=true":       "7a3e851b759bfb2d",
	"tree/calltree=true/cum=false":       "b587160ba46a8794",
	"tree/calltree=true/cum=true":        "7a3e851b759bfb2d",
}

const zzbWantText = `File: zzprog
Type: cpu
Duration: 10s, Total samples = 2.47s (24.70%)
Showing nodes accounting for 2.17s, 87.85% of 2.47s total
Dropped 2 nodes (cum <= 0.12s)
Showing top 4 nodes out of 8
      flat  flat%   sum%        cum   cum%
     1.20s 48.58% 48.58%      1.21s 48.99%  gamma
     0.54s 21.86% 70.45%      0.56s 22.87%  delta
     0.26s 10.32% 80.77%      0.28s 11.34%  eps
     0.17s  7.09% 87.85%      0.21s  8.70%  inl
`
