package report

import (
	"crypto/sha256"
	"fmt"
	"math"
	"testing"

	"github.com/google/pprof/internal/graph"
	"github.com/google/pprof/internal/measurement"
	"github.com/google/pprof/profile"
)

type zzCNode struct{ flat, flatDiv, cum, cumDiv int64 }

func zzCGraph(ns []zzCNode) *graph.Graph {
	g := &graph.Graph{}
	for _, n := range ns {
		g.Nodes = append(g.Nodes, &graph.Node{Flat: n.flat, FlatDiv: n.flatDiv, Cum: n.cum, CumDiv: n.cumDiv})
	}
	return g
}

func zzCSelect(ns []zzCNode, total int64, sampleUnit, outputUnit string, ratio float64, format int) string {
	o := &Options{SampleUnit: sampleUnit, OutputUnit: outputUnit, Ratio: ratio, OutputFormat: format}
	rpt := &Report{total: total, options: o}
	rpt.selectOutputUnit(zzCGraph(ns))
	return o.OutputUnit
}

func TestZZEquivC_Explicit(t *testing.T) {
	// Expected units computed on the unchanged tree.
	for i, tc := range []struct {
		nodes      []zzCNode
		total      int64
		sampleUnit string
		outputUnit string
		ratio      float64
		format     int
		want       string
	}{
		{[]zzCNode{{flat: 20, cum: 20}, {flat: 5 << 20, cum: 5 << 20}}, 5<<20 + 20, "bytes", "minimum", 0, Text, "kB"},
		{[]zzCNode{{flat: 20, cum: 20}, {flat: 5 << 20, cum: 5 << 20}}, 5<<20 + 20, "bytes", "minimum", 0, Callgrind, "B"},
		{[]zzCNode{{flat: 10, cum: 10}, {flat: 5 << 20, cum: 5 << 20}}, 5<<20 + 10, "bytes", "minimum", 0, Text, "B"},
		{[]zzCNode{{flat: 10, cum: 10}, {flat: 5 << 20, cum: 5 << 20}}, 5<<20 + 10, "bytes", "auto", 0, Text, "auto"},
		{[]zzCNode{{flat: 10, cum: 10}, {flat: 5 << 20, cum: 5 << 20}}, 5<<20 + 10, "bytes", "minimum", 1 << 10, Text, "kB"},
		{[]zzCNode{{flat: 2048, cum: 2048}, {flat: 4096, cum: 4096}}, 6144, "bytes", "minimum", 0, Text, "kB"},
		{[]zzCNode{{flat: 0, cum: 0}}, 3000, "milliseconds", "minimum", 0, Text, "s"},
		{[]zzCNode{{flat: 0, cum: -7}, {flat: 100, cum: 100}}, 5000000, "ms", "minimum", 0, Text, "ms"},
		{[]zzCNode{{flat: 0, cum: -7}, {flat: 100, cum: 100}}, 5000000, "ms", "minimum", 0, Dot, "ms"},
		{[]zzCNode{{flat: 1, cum: 1}, {flat: 100000, cum: 100000}}, 100001, "ms", "minimum", 0, Text, "ms"},
		{[]zzCNode{{flat: 3, cum: 3}, {flat: 9, cum: 9}}, 12, "count", "minimum", 0, Text, "count"},
		{[]zzCNode{{flat: 3, cum: 3}, {flat: 9, cum: 9}}, 12, "widgets", "minimum", 0, Text, "widgets"},
		{[]zzCNode{{flat: math.MinInt64, cum: 0}, {flat: 4000, cum: 4000}}, 4000, "ns", "minimum", 0, Text, "us"},
		{[]zzCNode{{flat: 3000, flatDiv: 3, cum: 8e9, cumDiv: 2}}, 4e9, "nanoseconds", "minimum", 0, Text, "us"},
		{nil, 4e9, "nanoseconds", "minimum", 0, Text, "minimum"},
		{[]zzCNode{{flat: 2, cum: 2}}, 1 << 40, "gcu", "minimum", 0, Text, "GCU"},
		{[]zzCNode{{flat: 20, cum: 20}}, 1 << 40, "milligcu", "minimum", 0, Text, "GCU"},
	} {
		if got := zzCSelect(tc.nodes, tc.total, tc.sampleUnit, tc.outputUnit, tc.ratio, tc.format); got != tc.want {
			t.Errorf("case %d: OutputUnit = %q, want %q", i, got, tc.want)
		}
	}
}

func TestZZEquivC_Sweep(t *testing.T) {
	vals := []int64{0, 1, 10, 11, 1023, 10240, 10486, 3 << 30, 36e11,
		math.MaxInt64 / 100, math.MaxInt64/100 + 1, math.MaxInt64, math.MinInt64, -5000}
	var nodeSets [][]zzCNode
	for _, a := range vals {
		nodeSets = append(nodeSets, []zzCNode{{flat: a, cum: a}})
		for _, b := range vals {
			nodeSets = append(nodeSets,
				[]zzCNode{{flat: a, cum: b}},
				[]zzCNode{{flat: 0, cum: a}, {flat: b, cum: b}},
				[]zzCNode{{flat: a, flatDiv: 3, cum: b, cumDiv: 2}, {flat: b, cum: a}})
		}
	}
	units := []string{"bytes", "kb", "ns", "milliseconds", "hours", "nanogcu", "count", "objects"}
	ratios := []float64{0, 0.5, 1e-3, 1024}
	formats := []int{Text, Dot, Callgrind, Tree}
	b, n := sha256.New(), 0
	for si, ns := range nodeSets {
		for _, total := range []int64{0, 500, 5e9, 1 << 42, math.MaxInt64, -1 << 30} {
			for _, u := range units {
				for _, r := range ratios {
					for _, f := range formats {
						out := zzCSelect(ns, total, u, "minimum", r, f)
						// The report's value formatter must render values identically in the selected unit.
						o := &Options{SampleUnit: u, OutputUnit: out, Ratio: r}
						n++
						fmt.Fprintf(b, "%d %d %q %v %d -> %q %q %q\n", si, total, u, r, f, out,
							New(&profile.Profile{}, o).formatValue(total), measurement.ScaledLabel(12345678, u, out))
					}
				}
			}
		}
	}
	got := fmt.Sprintf("%x", b.Sum(nil))
	const want = "632a74ca79296a862388e49e3e4940ff89abd3aea5e282eef10790041108d8ed" // computed on the unchanged tree
	if got != want {
		t.Errorf("sweep digest = %s, want %s (%d rows)", got, want, n)
	}
}
