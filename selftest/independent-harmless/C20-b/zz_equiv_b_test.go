package driver

import (
	"fmt"
	"strconv"
	"strings"
	"sync"
	"testing"
)

// Equivalence demonstration for change B (config.go). Expected values were
// computed on the unchanged tree and hard-coded.

func zzErrStr(err error) string {
	if err == nil {
		return "<nil>"
	}
	return err.Error()
}

func TestZZEquivBConfigureSequential(t *testing.T) {
	saved := currentConfig()
	defer setCurrentConfig(saved)
	setCurrentConfig(defaultConfig())

	steps := []struct {
		name, value string
		wantErr     string
		// fields to inspect after the step, "field=value"
		check []string
	}{
		{"focus", "main\\..*", "<nil>", []string{"focus=main\\..*"}},
		{"nodecount", "42", "<nil>", []string{"nodecount=42"}},
		{"nodecount", "abc", `strconv.Atoi: parsing "abc": invalid syntax`, []string{"nodecount=42"}},
		{"nodefraction", "0.25", "<nil>", []string{"nodefraction=0.25"}},
		{"nodefraction", "x", `strconv.ParseFloat: parsing "x": invalid syntax`, []string{"nodefraction=0.25"}},
		{"trim", "no", "<nil>", []string{"trim=false"}},
		{"trim", "", "<nil>", []string{"trim=true"}},
		{"trim", "perhaps", `illegal value "perhaps" for bool variable`, []string{"trim=true"}},
		{"granularity", "lines", "<nil>", []string{"granularity=lines"}},
		{"granularity", "bogus", `invalid "granularity" value "bogus"`, []string{"granularity=lines"}},
		{"files", "true", "<nil>", []string{"granularity=files"}},
		{"addresses", "1", "<nil>", []string{"granularity=addresses"}},
		{"functions", "T", "<nil>", []string{"granularity=functions"}},
		{"lines", "false", `unknown config field "lines"`, []string{"granularity=functions"}},
		{"lines", "yes", `unknown config field "lines"`, []string{"granularity=functions"}},
		{"lines", "", `unknown config field "lines"`, []string{"granularity=functions"}},
		{"cum", "true", "<nil>", []string{"sort=cum"}},
		{"flat", "0", `unknown config field "flat"`, []string{"sort=cum"}},
		{"sort", "flat", "<nil>", []string{"sort=flat"}},
		{"sort", "cumulative", `invalid "sort" value "cumulative"`, []string{"sort=flat"}},
		{"nosuchfield", "1", `unknown config field "nosuchfield"`, []string{"focus=main\\..*", "nodecount=42", "trim=true", "sort=flat", "granularity=functions"}},
		{"", "1", `unknown config field ""`, nil},
		{"divide_by", "2.5", "<nil>", []string{"divide_by=2.5"}},
		{"unit", "ms", "<nil>", []string{"unit=ms"}},
	}
	for i, s := range steps {
		before := currentConfig()
		err := configure(s.name, s.value)
		if got := zzErrStr(err); got != s.wantErr {
			t.Errorf("step %d configure(%q,%q): err = %s, want %s", i, s.name, s.value, got, s.wantErr)
		}
		after := currentConfig()
		if err != nil && before != after {
			t.Errorf("step %d: failed configure changed the config: %+v -> %+v", i, before, after)
		}
		for _, c := range s.check {
			kv := strings.SplitN(c, "=", 2)
			f, ok := configFieldMap[kv[0]]
			if !ok {
				t.Fatalf("no field %q", kv[0])
			}
			if got := after.get(f); got != kv[1] {
				t.Errorf("step %d: %s = %q, want %q", i, kv[0], got, kv[1])
			}
		}
	}
	// Whole-struct check of the end state.
	want := defaultConfig()
	want.Focus = "main\\..*"
	want.NodeCount = 42
	want.NodeFraction = 0.25
	want.Trim = true
	want.Granularity = "functions"
	want.Sort = "flat"
	want.DivideBy = 2.5
	want.Unit = "ms"
	if got := currentConfig(); got != want {
		t.Errorf("end state:\n got %+v\nwant %+v", got, want)
	}
}

func TestZZEquivBConfigureConcurrent(t *testing.T) {
	saved := currentConfig()
	defer setCurrentConfig(saved)
	setCurrentConfig(defaultConfig())

	// Each writer owns one string field and one shared-kind field, and writes
	// an increasing sequence. Since every configure is a read-modify-write of
	// the whole config, a lost update would show up as a field going backwards
	// or as a wrong final value.
	strFields := []string{"focus", "ignore", "hide", "show", "tagfocus", "tagignore", "show_from", "prune_from"}
	const iters = 300
	var wg sync.WaitGroup
	stop := make(chan struct{})
	for k, name := range strFields {
		wg.Add(1)
		go func(k int, name string) {
			defer wg.Done()
			for i := 1; i <= iters; i++ {
				if err := configure(name, fmt.Sprintf("w%d-%d", k, i)); err != nil {
					t.Error(err)
					return
				}
				// Interleave failing updates; they must not disturb anything.
				if i%7 == 0 {
					if err := configure("nodecount", "bad"); err == nil {
						t.Error("expected error")
					}
					if err := configure("lines", "false"); err == nil {
						t.Error("expected error")
					}
				}
			}
		}(k, name)
	}
	// One writer toggles a choice field via its choice names and an int field.
	wg.Add(1)
	go func() {
		defer wg.Done()
		choices := []string{"functions", "filefunctions", "files", "lines", "addresses"}
		for i := 1; i <= iters; i++ {
			if err := configure(choices[i%len(choices)], "true"); err != nil {
				t.Error(err)
			}
			if err := configure("nodecount", strconv.Itoa(i)); err != nil {
				t.Error(err)
			}
		}
	}()
	// Readers.
	var rwg sync.WaitGroup
	for r := 0; r < 4; r++ {
		rwg.Add(1)
		go func() {
			defer rwg.Done()
			last := make([]int, len(strFields))
			lastCount := -1
			for {
				select {
				case <-stop:
					return
				default:
				}
				cfg := currentConfig()
				for k, name := range strFields {
					v := cfg.get(configFieldMap[name])
					if v == "" {
						continue
					}
					prefix := fmt.Sprintf("w%d-", k)
					if !strings.HasPrefix(v, prefix) {
						t.Errorf("%s = %q: torn or foreign value", name, v)
						return
					}
					n, err := strconv.Atoi(v[len(prefix):])
					if err != nil || n < last[k] {
						t.Errorf("%s went backwards: %q after %d", name, v, last[k])
						return
					}
					last[k] = n
				}
				if cfg.NodeCount != -1 {
					if cfg.NodeCount < lastCount {
						t.Errorf("nodecount went backwards: %d after %d", cfg.NodeCount, lastCount)
						return
					}
					lastCount = cfg.NodeCount
				}
				switch cfg.Granularity {
				case "", "functions", "filefunctions", "files", "lines", "addresses":
				default:
					t.Errorf("bad granularity %q", cfg.Granularity)
					return
				}
			}
		}()
	}
	wg.Wait()
	close(stop)
	rwg.Wait()

	want := defaultConfig()
	want.Focus = "w0-300"
	want.Ignore = "w1-300"
	want.Hide = "w2-300"
	want.Show = "w3-300"
	want.TagFocus = "w4-300"
	want.TagIgnore = "w5-300"
	want.ShowFrom = "w6-300"
	want.PruneFrom = "w7-300"
	want.NodeCount = 300
	want.Granularity = "functions" // choices[300%5]
	if got := currentConfig(); got != want {
		t.Errorf("final state:\n got %+v\nwant %+v", got, want)
	}
}

func TestZZEquivBSetAndGetConcurrent(t *testing.T) {
	saved := currentConfig()
	defer setCurrentConfig(saved)

	// Whole-config replacement racing with readers: every snapshot must be one
	// of the configs that was set, never a mix.
	a := defaultConfig()
	a.Focus, a.Ignore, a.NodeCount, a.Sort = "aaa", "aaa", 1, "flat"
	b := defaultConfig()
	b.Focus, b.Ignore, b.NodeCount, b.Sort = "bbbbbbbb", "bbbbbbbb", 2, "cum"
	setCurrentConfig(a)
	var wg sync.WaitGroup
	wg.Add(1)
	go func() {
		defer wg.Done()
		for i := 0; i < 2000; i++ {
			if i%2 == 0 {
				setCurrentConfig(b)
			} else {
				setCurrentConfig(a)
			}
		}
	}()
	for r := 0; r < 4; r++ {
		wg.Add(1)
		go func() {
			defer wg.Done()
			for i := 0; i < 2000; i++ {
				if c := currentConfig(); c != a && c != b {
					t.Errorf("torn config: %+v", c)
					return
				}
				var tr config
				tr.Focus = "zzz"
				tr.resetTransient()
				if tr.Focus != "zzz" || tr.DivideBy != 1.0 {
					t.Errorf("resetTransient: %+v", tr)
					return
				}
			}
		}()
	}
	wg.Wait()
	if got := currentConfig(); got != a {
		t.Errorf("final: got %+v want %+v", got, a)
	}
}
