package profile

import (
	"fmt"
	"os"
	"sort"
	"strings"
	"testing"
)

// Equivalence demonstration for change C (strings.Cut instead of
// strings.SplitN for "attr = value" lines in contention headers and memory
// maps; contention header check restructured). Expected values were
// computed on the unchanged tree and hard-coded below.

var zzCDocs = map[string]string{
	"contentionz": `--- contentionz 1 ---
cycles/second = 3201000000
sampling period = 100
ms since reset = 16502830
discarded samples = 0
  19490304       27 @ 0xbccc97 0xc61202 0x42ed5f
    768       1 @ 0xbccc97 0xa42dc7
# comment

   5760     2 @ 0xbccc97
--- Memory map: ---
  build=abc123
  00400000-00fcb000: cppbench_server_main (@0) $build
  7fc5e7d9d000-7fc5e7db7000: /libnss_files-2.15.so
`,
	"mutex_nospace": `--- mutex:
cycles/second=2000000000
sampling period=2
10 3 @ 0x5 0x6
7 1 @ 0x6
`,
	"contention_colon": `--- contention:
  sampling period   =   7
cycles/second=1000000000
# comment in header

discarded samples = whatever = 3
100 2 @ 0x401001 0x402001
50 1 @ 0x401001
--- Memory map: ---
00400000-00500000 r-xp 00000000 fd:01 123 /bin/prog
`,
	"no_period": `--- contentionz 1 ---
cycles/second = 1000
10 3 @ 0x5 0x6
`,
	"no_attrs": `--- mutex:
10 3 @ 0x5 0x6
7 1 @ 0x0
`,
	"header_only_dash": `--- contention:
sampling period=3
--- Memory map: ---
00400000-00500000 r-xp 00000000 fd:01 123 /bin/prog
`,
	"bad_value_with_eq": `--- contentionz 1 ---
sampling period = 1=2
10 3 @ 0x5 0x6
`,
	"unknown_attr": `--- contentionz 1 ---
colour = blue
10 3 @ 0x5 0x6
`,
	"format_attr": `--- contentionz 1 ---
format = java
10 3 @ 0x5 0x6
`,
	"empty_key": `--- contentionz 1 ---
= 5
10 3 @ 0x5 0x6
`,
	"bad_header": `--- contentions 1 ---
sampling period = 1
10 3 @ 0x5 0x6
`,
	"prefix_header": `--- contentionz
sampling period = 1
10 3 @ 0x5 0x6
`,
	"heap_with_attrs": `heap profile: 1: 100 [ 1: 100 ] @ heapprofile
1: 100 [ 1: 100 ] @ 0x401010 0x7f0000000020
MAPPED_LIBRARIES:
 root = /usr/lib
ver=2=3
00400000-00500000 r-xp 00000000 fd:01 123 /bin/prog
7f0000000000-7f0000100000 r-xp 00001000 fd:01 456 $root/libc-$ver.so
  7f0000200000-7f0000300000: $root/libm.so (@2000) $ver
`,
}

var zzCMaps = map[string]string{
	"plain": "00400000-00500000 r-xp 00000000 fd:01 123 /bin/prog\n",
	"attrs": "a=1\n b = two words \nc=x=y\n=empty\nnoattr\n" +
		"1000-2000: /$a/$b (@10) $c\n" +
		"3000-4000 r-xp 00000100 00:00 5 /lib/$a$a.so\n" +
		"a=9\n5000-6000: $a\n",
	"log": "I0101 12:00:00.000000 123 file.cc:42] build=xyz\n" +
		"I0101 12:00:00.000000 123 file.cc:43] 00400000-00500000: /bin/$build\n" +
		"00600000-00700000 rw-p 00000000 00:00 0 /data\n",
}

func zzCParse(doc string) string {
	p, err := ParseData([]byte(doc))
	if err != nil {
		return "ERR: " + err.Error()
	}
	return p.String()
}

func zzCMap(doc string) string {
	ms, err := ParseProcMaps(strings.NewReader(doc))
	if err != nil {
		return "ERR: " + err.Error()
	}
	var b strings.Builder
	for _, m := range ms {
		fmt.Fprintf(&b, "%#x-%#x off=%#x file=%q build=%q\n", m.Start, m.Limit, m.Offset, m.File, m.BuildID)
	}
	return b.String()
}

func TestZZEquivC(t *testing.T) {
	gen := os.Getenv("ZZ_GEN") != ""
	check := func(kind string, docs, want map[string]string, f func(string) string) {
		var names []string
		for n := range docs {
			names = append(names, n)
		}
		sort.Strings(names)
		for _, n := range names {
			got := f(docs[n])
			if gen {
				fmt.Printf("%s\t%q: %q,\n", kind, n, got)
				continue
			}
			w, ok := want[n]
			if !ok || got != w {
				t.Errorf("%s %s: got\n%s\nwant\n%s", kind, n, got, w)
			}
		}
	}
	check("DOC", zzCDocs, zzCDocWant, zzCParse)
	check("MAP", zzCMaps, zzCMapWant, zzCMap)
}

var zzCDocWant = map[string]string{
	"bad_header":        "ERR: parsing profile: unrecognized profile format",
	"bad_value_with_eq": "ERR: parsing profile: missing sample type information",
	"contention_colon":  "PeriodType: contentions count\nPeriod: 7\nSamples:\ncontentions/count delay/nanoseconds\n         14        700: 1 2 \n          7        350: 1 \nLocations\n     1: 0x401000 M=1 \n     2: 0x402000 M=1 \nMappings\n1: 0x400000/0x500000/0x0 /bin/prog  \n",
	"contentionz":       "PeriodType: contentions count\nPeriod: 100\nDuration: 4h35\nSamples:\ncontentions/count delay/nanoseconds\n       2700  608881724: 1 2 3 \n        100      23992: 1 4 \n        200     179943: 1 \nLocations\n     1: 0xbccc96 M=1 \n     2: 0xc61201 M=1 \n     3: 0x42ed5e M=1 \n     4: 0xa42dc6 M=1 \nMappings\n1: 0x400000/0xfcb000/0x0 cppbench_server_main abc123 \n2: 0x7fc5e7d9d000/0x7fc5e7db7000/0x0 /libnss_files-2.15.so  \n",
	"empty_key":         "PeriodType:  \nPeriod: 0\nSamples:\n\nLocations\nMappings\n",
	"format_attr":       "ERR: parsing profile: missing sample type information",
	"header_only_dash":  "PeriodType: contentions count\nPeriod: 3\nSamples:\ncontentions/count delay/nanoseconds\nLocations\nMappings\n1: 0x400000/0x500000/0x0 /bin/prog  \n",
	"heap_with_attrs":   "PeriodType: space bytes\nPeriod: 1\nSamples:\nobjects/count space/bytes\n          1        100: 1 2 \n                bytes:[100]\nLocations\n     1: 0x40100f M=1 \n     2: 0x7f000000001f M=2 \nMappings\n1: 0x400000/0x500000/0x0 /bin/prog  \n2: 0x7f0000000000/0x7f0000100000/0x1000 /usr/lib/libc-2=3.so  \n3: 0x7f0000200000/0x7f0000300000/0x2000 /usr/lib/libm.so 2 \n",
	"mutex_nospace":     "PeriodType: contentions count\nPeriod: 2\nSamples:\ncontentions/count delay/nanoseconds\n          6         10: 1 2 \n          2          7: 2 \nLocations\n     1: 0x4 M=1 \n     2: 0x5 M=1 \nMappings\n1: 0x0/0xffffffffffffffff/0x0   \n",
	"no_attrs":          "PeriodType: contentions count\nPeriod: 1\nSamples:\ncontentions/count delay/nanoseconds\n          3         10: 1 2 \n          1          7: 3 \nLocations\n     1: 0x4 M=1 \n     2: 0x5 M=1 \n     3: 0xffffffffffffffff M=1 \nMappings\n1: 0x0/0xffffffffffffffff/0x0   \n",
	"no_period":         "PeriodType: contentions count\nPeriod: 1\nSamples:\ncontentions/count delay/nanoseconds\n          3   10000000: 1 2 \nLocations\n     1: 0x4 M=1 \n     2: 0x5 M=1 \nMappings\n1: 0x0/0xffffffffffffffff/0x0   \n",
	"prefix_header":     "ERR: parsing profile: unrecognized profile format",
	"unknown_attr":      "ERR: parsing profile: unrecognized profile format",
}

var zzCMapWant = map[string]string{
	"attrs": "0x1000-0x2000 off=0x0 file=\"/1/two\" build=\"\"\n0x3000-0x4000 off=0x100 file=\"/lib/11.so\" build=\"\"\n0x5000-0x6000 off=0x0 file=\"1\" build=\"\"\n",
	"log":   "0x400000-0x500000 off=0x0 file=\"/bin/xyz\" build=\"\"\n",
	"plain": "0x400000-0x500000 off=0x0 file=\"/bin/prog\" build=\"\"\n",
}
