package binutils

import (
	"debug/elf"
	"fmt"
	"io"
	"os"
	"path/filepath"
	"testing"
)

// describeOpen opens name as an ELF object with the given runtime mapping and
// translates addr; it returns a string capturing everything observable: open
// error-ness, the relocation symbol value that was picked up, the concrete
// ObjFile type, the translated address, error-ness and the data flag.
func describeOpen(b *binrep, name string, start, limit, offset uint64, relocSym string, addr uint64) string {
	o, err := b.openELF(name, start, limit, offset, relocSym)
	if err != nil {
		return "openerr"
	}
	var f *file
	typ := ""
	switch v := o.(type) {
	case *fileNM:
		f, typ = &v.file, "nm"
	case *fileAddr2Line:
		f, typ = &v.file, "a2l"
	}
	ko := "nil"
	if f.m.kernelOffset != nil {
		ko = fmt.Sprintf("%#x", *f.m.kernelOffset)
	}
	if f.m.start != start || f.m.limit != limit || f.m.offset != offset {
		return "badmapping"
	}
	got, err := o.ObjAddr(addr)
	return fmt.Sprintf("%s ko=%s obj=%#x err=%v data=%v bid=%s", typ, ko, got, err != nil, f.isData, o.BuildID())
}

func TestZZEquivB(t *testing.T) {
	exe := filepath.Join("testdata", "exe_linux_64")

	// A copy of the same binary under a kernel-like name forces the relocation
	// symbol lookup even for page-aligned mappings.
	dir := t.TempDir()
	vmlinux := filepath.Join(dir, "vmlinux-test")
	src, err := os.Open(exe)
	if err != nil {
		t.Fatal(err)
	}
	dst, err := os.Create(vmlinux)
	if err != nil {
		t.Fatal(err)
	}
	if _, err := io.Copy(dst, src); err != nil {
		t.Fatal(err)
	}
	src.Close()
	dst.Close()

	for i, tc := range []struct {
		fast                 bool
		name                 string
		start, limit, offset uint64
		relocSym             string
		addr                 uint64
		want                 string
	}{
		{true, exe, 0x400000, 0x401000, 0x0, "", 0x400440, "nm ko=nil obj=0x400440 err=false data=false bid=910b52eaddce54ae8bbeb49f93c04ded113fcf4d"},
		{false, exe, 0x5400000, 0x5401000, 0x0, "", 0x540052d, "a2l ko=nil obj=0x40052d err=false data=false bid=910b52eaddce54ae8bbeb49f93c04ded113fcf4d"},
		{true, exe, 0x5400000, 0x5401000, 0x0, "", 0x5400800, "nm ko=nil obj=0x0 err=true data=false bid=910b52eaddce54ae8bbeb49f93c04ded113fcf4d"},
		{true, exe, 0x5600e00, 0x5602000, 0xe00, "", 0x5600e10, "nm ko=nil obj=0x600e10 err=false data=true bid=910b52eaddce54ae8bbeb49f93c04ded113fcf4d"},
		{true, exe, 0x5600e00, 0x5602000, 0xe00, "main", 0x5600e10, "openerr"},
		{false, exe, 0x5600000, 0x5601800, 0x0, "_start", 0x5600e10, "openerr"},
		{true, exe, 0x5600000, 0x5602000, 0x10, "_init", 0x5600e10, "openerr"},
		{true, exe, 0x5600000, 0x5602000, 0x0, "main", 0x5601000, "nm ko=nil obj=0x601000 err=false data=true bid=910b52eaddce54ae8bbeb49f93c04ded113fcf4d"},
		{true, exe, 0x5600000, 0x5603000, 0x0, "", 0x5600e10, "nm ko=nil obj=0x600e10 err=false data=true bid=910b52eaddce54ae8bbeb49f93c04ded113fcf4d"},
		{true, exe, 0x5600000, 0x5602000, 0x2000, "", 0x5600e10, "nm ko=nil obj=0x0 err=true data=false bid=910b52eaddce54ae8bbeb49f93c04ded113fcf4d"},
		{true, vmlinux, 0x5400000, 0x5401000, 0x0, "", 0x5400400, "nm ko=nil obj=0x400400 err=false data=false bid=910b52eaddce54ae8bbeb49f93c04ded113fcf4d"},
		{false, vmlinux, 0x5400000, 0x5401000, 0x0, "_start", 0x5400400, "openerr"},
		{true, vmlinux, 0x400000, 0x401000, 0x0, "main", 0x40052d, "nm ko=0x40052d obj=0x40052d err=false data=false bid=910b52eaddce54ae8bbeb49f93c04ded113fcf4d"},
		{true, vmlinux, 0xffffffff81000000, 0xffffffff82000000, 0x0, "_init", 0xffffffff81000500, "nm ko=0x4003e0 obj=0x400500 err=false data=false bid=910b52eaddce54ae8bbeb49f93c04ded113fcf4d"},
		{true, vmlinux, 0x4003e0, 0x401000, 0x0, "_init", 0x400440, "nm ko=0x4003e0 obj=0x400440 err=false data=false bid=910b52eaddce54ae8bbeb49f93c04ded113fcf4d"},
		{false, exe, 0x4003e0, 0x401000, 0x0, "_init", 0x400440, "a2l ko=0x4003e0 obj=0x400440 err=false data=false bid=910b52eaddce54ae8bbeb49f93c04ded113fcf4d"},
		{true, exe, 0x400000, 0x400fff, 0x0, "_start", 0x400440, "nm ko=0x400440 obj=0x400440 err=false data=false bid=910b52eaddce54ae8bbeb49f93c04ded113fcf4d"},
		{true, exe, 0x0, 0xffffffffffffffff, 0x0, "", 0x400440, "nm ko=nil obj=0x400440 err=false data=false bid=910b52eaddce54ae8bbeb49f93c04ded113fcf4d"},
		{true, exe, 0x1000, 0x2000, 0x3000, "nosuchsymbol", 0x1800, "nm ko=nil obj=0x0 err=true data=false bid=910b52eaddce54ae8bbeb49f93c04ded113fcf4d"},
	} {
		b := &binrep{fast: tc.fast, addr2lineFound: !tc.fast}
		got := describeOpen(b, tc.name, tc.start, tc.limit, tc.offset, tc.relocSym, tc.addr)
		if got != tc.want {
			t.Errorf("open case %d (%s %#x-%#x @%#x sym=%q addr=%#x):\n got %s\nwant %s", i, filepath.Base(tc.name), tc.start, tc.limit, tc.offset, tc.relocSym, tc.addr, got, tc.want)
		}
	}

	// Synthetic multi-segment layouts through computeBase with a stubbed elfOpen:
	// PIE with four PT_LOAD segments (R, RX, RW with bss, RW) plus non-LOAD noise.
	realELFOpen := elfOpen
	defer func() { elfOpen = realELFOpen }()
	pie := &elf.File{
		FileHeader: elf.FileHeader{Type: elf.ET_DYN},
		Progs: []*elf.Prog{
			{ProgHeader: elf.ProgHeader{Type: elf.PT_PHDR, Flags: elf.PF_R, Off: 0x40, Vaddr: 0x40, Filesz: 0x268, Memsz: 0x268, Align: 8}},
			{ProgHeader: elf.ProgHeader{Type: elf.PT_LOAD, Flags: elf.PF_R, Off: 0, Vaddr: 0, Filesz: 0x1a38, Memsz: 0x1a38, Align: 0x1000}},
			{ProgHeader: elf.ProgHeader{Type: elf.PT_LOAD, Flags: elf.PF_R | elf.PF_X, Off: 0x1a40, Vaddr: 0x2a40, Filesz: 0x3b10, Memsz: 0x3b10, Align: 0x1000}},
			{ProgHeader: elf.ProgHeader{Type: elf.PT_LOAD, Flags: elf.PF_R | elf.PF_W, Off: 0x5550, Vaddr: 0x7550, Filesz: 0x2b0, Memsz: 0xab0, Align: 0x1000}},
			{ProgHeader: elf.ProgHeader{Type: elf.PT_LOAD, Flags: elf.PF_R | elf.PF_W, Off: 0x5800, Vaddr: 0x9800, Filesz: 0x120, Memsz: 0x1f00, Align: 0x1000}},
			{ProgHeader: elf.ProgHeader{Type: elf.PT_GNU_STACK, Flags: elf.PF_R | elf.PF_W, Align: 16}},
		},
	}
	hugeExec := &elf.File{
		FileHeader: elf.FileHeader{Type: elf.ET_EXEC},
		Progs: []*elf.Prog{
			{ProgHeader: elf.ProgHeader{Type: elf.PT_LOAD, Flags: elf.PF_R | elf.PF_X, Off: 0, Vaddr: 0x200000, Filesz: 0x31d7c4, Memsz: 0x31d7c4, Align: 0x200000}},
			{ProgHeader: elf.ProgHeader{Type: elf.PT_LOAD, Flags: elf.PF_R | elf.PF_W, Off: 0x31d7c8, Vaddr: 0x71d7c8, Filesz: 0x9ee8, Memsz: 0x1b2f8, Align: 0x200000}},
		},
	}
	noLoad := &elf.File{
		FileHeader: elf.FileHeader{Type: elf.ET_REL},
		Progs:      []*elf.Prog{{ProgHeader: elf.ProgHeader{Type: elf.PT_NOTE, Off: 0x100, Filesz: 0x20, Memsz: 0x20}}},
	}
	const bias = 0x7f3a5c200000
	for i, tc := range []struct {
		f                    *elf.File
		start, limit, offset uint64
		addr                 uint64
		want                 string
	}{
		{pie, 0x7f3a5c200000, 0x7f3a5c202000, 0x0, 0x7f3a5c201000, "obj=0x1000 err=false data=true"},
		{pie, 0x7f3a5c202000, 0x7f3a5c206000, 0x1000, 0x7f3a5c202a40, "obj=0x2a40 err=false data=false"},
		{pie, 0x7f3a5c202000, 0x7f3a5c206000, 0x1000, 0x7f3a5c206540, "obj=0x0 err=true data=false"},
		{pie, 0x7f3a5c202000, 0x7f3a5c207000, 0x1000, 0x7f3a5c204000, "obj=0x4000 err=false data=false"},
		{pie, 0x7f3a5c207000, 0x7f3a5c208000, 0x5000, 0x7f3a5c207550, "obj=0x7550 err=false data=true"},
		{pie, 0x7f3a5c207000, 0x7f3a5c208000, 0x5000, 0x7f3a5c207100, "obj=0x6100 err=false data=false"},
		{pie, 0x7f3a5c207000, 0x7f3a5c208000, 0x5000, 0x7f3a5c207801, "obj=0x0 err=true data=false"},
		{pie, 0x7f3a5c209000, 0x7f3a5c20a000, 0x5000, 0x7f3a5c209800, "obj=0x0 err=true data=false"},
		{pie, 0x7f3a5c209000, 0x7f3a5c20c000, 0x5000, 0x7f3a5c209900, "obj=0x0 err=true data=false"},
		{pie, 0x7f3a5c209000, 0x7f3a5c20a000, 0x5000, 0x7f3a5c209000, "obj=0x6000 err=false data=false"},
		{pie, 0x7f3a5c202000, 0x7f3a5c206000, 0x9000, 0x7f3a5c203000, "obj=0x0 err=true data=false"},
		{pie, 0x7f3a5c206000, 0x7f3a5c202000, 0x1000, 0x7f3a5c203000, "obj=0x0 err=true data=false"},
		{hugeExec, 0x200000, 0x51e000, 0x0, 0x2abcde, "obj=0x2abcde err=false data=false"},
		{hugeExec, 0x400000, 0x51e000, 0x200000, 0x4abcde, "obj=0x4abcde err=false data=false"},
		{hugeExec, 0x71d000, 0x728000, 0x31d000, 0x71d7c8, "obj=0x71d7c8 err=false data=true"},
		{hugeExec, 0x71d000, 0x728000, 0x31d000, 0x71d100, "obj=0x71d100 err=false data=true"},
		{hugeExec, 0x7f0000600000, 0x7f000091e000, 0x0, 0x7f00006abcde, "obj=0x2abcde err=false data=false"},
		{noLoad, 0x2000, 0x5000, 0x0, 0x4000, "obj=0x2000 err=false data=false"},
		{noLoad, 0x2000, 0x5000, 0x1000, 0x4000, "obj=0x0 err=true data=false"},
	} {
		elfOpen = func(string) (*elf.File, error) { return tc.f, nil }
		f := file{name: "synthetic", m: &elfMapping{start: tc.start, limit: tc.limit, offset: tc.offset}}
		obj, err := f.ObjAddr(tc.addr)
		got := fmt.Sprintf("obj=%#x err=%v data=%v", obj, err != nil, f.isData)
		if got != tc.want {
			t.Errorf("synthetic case %d (%#x-%#x @%#x addr=%#x):\n got %s\nwant %s", i, tc.start, tc.limit, tc.offset, tc.addr, got, tc.want)
		}
	}
}
