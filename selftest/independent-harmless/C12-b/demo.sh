#!/bin/sh
# usage: demo.sh <pprof worktree root>
# Copies the equivalence test into internal/symbolz, runs it, removes it.
set -u
root=${1:?usage: demo.sh WORKTREE}
here=$(cd "$(dirname "$0")" && pwd)
export GOFLAGS=-mod=mod GOPROXY=off GOSUMDB=off GOTOOLCHAIN=local
dst="$root/internal/symbolz/zz_equiv_b_test.go"
cp "$here/zz_equiv_b_test.go" "$dst" || exit 2
(cd "$root" && go test -vet=off -count=1 -run 'TestZZEquivB' ./internal/symbolz/)
rc=$?
rm -f "$dst"
exit $rc
