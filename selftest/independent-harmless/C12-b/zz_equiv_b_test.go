package symbolz

import (
	"bytes"
	"crypto/sha256"
	"fmt"
	"io"
	"math/rand"
	"os"
	"regexp"
	"strconv"
	"strings"
	"testing"

	"github.com/google/pprof/internal/plugin"
	"github.com/google/pprof/profile"
)

// The pattern symbolz output lines have been matched with so far; used
// here as an independent reference for what a response means.
var zzbRefRE = regexp.MustCompile(`(0x[[:xdigit:]]+)\s+(.*)`)

const zzbSource = "http://host:8000/pprof/profile"

func zzbProfile() (*profile.Profile, plugin.MappingSources) {
	ms := []*profile.Mapping{
		{ID: 1, Start: 0x1000, Limit: 0x2000, File: "/bin/main", BuildID: "mainid"},
		{ID: 2, Start: 0x7000, Limit: 0x8000, Offset: 0x100, File: "/lib/libfoo.so"},
		{ID: 3, Start: 0x9000, Limit: 0xa000, File: "/lib/done.so", HasFunctions: true},
	}
	fs := []*profile.Function{
		{ID: 7, Name: "preexisting", SystemName: "preexisting"},
		{ID: 40, Name: "done", SystemName: "done"},
	}
	addrs := []struct {
		a uint64
		m int
	}{
		{0x1000, 0}, {0x1010, 0}, {0x10a0, 0}, {0x1abc, 0}, {0x1fff, 0}, {0x1050, 0},
		{0x7000, 1}, {0x7010, 1}, {0x7abc, 1},
		{0x9000, 2}, {0x9010, 2},
	}
	var ls []*profile.Location
	for i, a := range addrs {
		ls = append(ls, &profile.Location{ID: uint64(50 - 2*i), Mapping: ms[a.m], Address: a.a})
	}
	ls[5].Line = []profile.Line{{Function: fs[0], Line: 1}} // not queried, but may be overwritten by an answer
	ls[9].Line = []profile.Line{{Function: fs[1], Line: 5}}
	p := &profile.Profile{
		SampleType: []*profile.ValueType{{Type: "samples", Unit: "count"}},
		PeriodType: &profile.ValueType{Type: "cpu", Unit: "ns"},
		Period:     1,
		Mapping:    ms,
		Function:   fs,
		Location:   ls,
	}
	for i := range ls {
		s := &profile.Sample{
			Value:    []int64{int64(i + 1)},
			Location: []*profile.Location{ls[i], ls[(i*3+1)%len(ls)]},
		}
		if i%2 == 0 {
			s.Label = map[string][]string{"k": {fmt.Sprint("v", i)}}
		}
		p.Sample = append(p.Sample, s)
	}
	type src = struct {
		Source string
		Start  uint64
	}
	sources := plugin.MappingSources{
		"mainid":         {src{zzbSource, 0x1000}},
		"/lib/libfoo.so": {src{"not a url", 0}, src{zzbSource, 0x7800}}, // offset +0x800 for mapping 2
		"/lib/done.so":   {src{zzbSource, 0x9000}},
	}
	return p, sources
}

func zzbFrame(p *profile.Profile) string {
	var b strings.Builder
	for _, s := range p.Sample {
		fmt.Fprintf(&b, "S %v %v:", s.Value, s.Label)
		for _, l := range s.Location {
			fmt.Fprintf(&b, " %d@%#x", l.ID, l.Address)
		}
		b.WriteString("\n")
	}
	for _, l := range p.Location {
		fmt.Fprintf(&b, "L %d %#x m%d\n", l.ID, l.Address, l.Mapping.ID)
	}
	for _, m := range p.Mapping {
		fmt.Fprintf(&b, "M %d %#x %#x %#x %q %q\n", m.ID, m.Start, m.Limit, m.Offset, m.File, m.BuildID)
	}
	return b.String()
}

// zzbRun symbolizes a fresh profile, answering the n-th query with
// responses[n] (an "ERR" response makes the query fail). It returns a
// description of everything observable afterwards.
func zzbRun(t *testing.T, force bool, responses []string) (string, *profile.Profile, error) {
	p, sources := zzbProfile()
	before := zzbFrame(p)
	var b strings.Builder
	n := 0
	syms := func(source, post string) ([]byte, error) {
		fmt.Fprintf(&b, "query %s %s\n", source, post)
		r := ""
		if n < len(responses) {
			r = responses[n]
		}
		n++
		if r == "ERR" {
			return nil, fmt.Errorf("symbolz down")
		}
		return []byte(r), nil
	}
	err := Symbolize(p, force, sources, syms, nil)
	fmt.Fprintf(&b, "err: %v\n", err)
	if after := zzbFrame(p); after != before {
		t.Errorf("frame changed by Symbolize(%q):\nbefore:\n%s\nafter:\n%s", responses, before, after)
	}
	if verr := p.CheckValid(); verr != nil {
		t.Errorf("invalid profile after Symbolize(%q): %v", responses, verr)
	}
	seen := map[uint64]bool{}
	for _, f := range p.Function {
		if f.ID == 0 || seen[f.ID] {
			t.Errorf("bad or duplicate function id %d after Symbolize(%q)", f.ID, responses)
		}
		seen[f.ID] = true
		fmt.Fprintf(&b, "F %d %q %q %q %d\n", f.ID, f.Name, f.SystemName, f.Filename, f.StartLine)
	}
	for _, l := range p.Location {
		fmt.Fprintf(&b, "L %d %#x:", l.ID, l.Address)
		for _, ln := range l.Line {
			fmt.Fprintf(&b, " [f%d %q %d]", ln.Function.ID, ln.Function.Name, ln.Line)
		}
		b.WriteString("\n")
	}
	for _, m := range p.Mapping {
		fmt.Fprintf(&b, "M %d %v %v %v %v\n", m.ID, m.HasFunctions, m.HasFilenames, m.HasLineNumbers, m.HasInlineFrames)
	}
	return b.String(), p, err
}

// zzbReference computes, with the reference pattern, the names a response
// assigns to (unadjusted) addresses, in the way symbolizeMapping reads a
// response. ok is false if the response makes symbolization fail.
func zzbReference(resp string, offset int64) (names map[uint64]string, order []string, ok bool) {
	names = map[uint64]string{}
	known := map[string]bool{}
	buf := bytes.NewBufferString(resp)
	for {
		l, err := buf.ReadString('\n')
		if err != nil {
			if err == io.EOF {
				return names, order, true
			}
			return nil, nil, false
		}
		m := zzbRefRE.FindStringSubmatch(l)
		if len(m) != 3 {
			continue
		}
		a, err := strconv.ParseUint(m[1], 0, 64)
		if err != nil {
			return nil, nil, false
		}
		addr, overflow := adjust(a, -offset)
		if overflow {
			return nil, nil, false
		}
		if !known[m[2]] {
			known[m[2]] = true
			order = append(order, m[2])
		}
		names[addr] = m[2]
	}
}

var zzbCases = map[string][]string{
	"plain":        {"0x1000 main\n0x1010 foo bar\n0x10a0 main\n", "0x7800 libfoo_a\n0x7810 libfoo_b\n"},
	"upperhex":     {"0x10A0 upper\n0x1ABC mixed\n0x1aBc  again \n", "0x7ABC no\n0x82bc yes\n"},
	"junk":         {"junk 0x1000 main\n  \t0x1010\tfoo\n>>0x0x10a0 x\n0xg 0x1abc after bad\n0x 0x1fff empty prefix\n", ""},
	"spaces":       {"0x1000 \t \f\r  spaced name \n0x1010 \n0x10a0\n0x1abc\r\n0x1fff crlf\r\n", "0x7800\v vt\n0x7810 \vvt2\n"},
	"nomatch":      {"0X1000 upper x\n1000 main\n0x1000main\n0x1010_ foo\n0xzz foo\n\n", "x\n"},
	"partial":      {"0x1000 main\n0x1010 unterminated", "0x7800 a"},
	"dups":         {"0x1000 first\n0x1000 second\n0x1010 first\n0x2345 elsewhere\n0x1050 over preexisting\n", "0x7800 first\n0x7000 unshifted\n"},
	"embedded0x":   {"0x1000 0x1010 name\n0x10 0x1010 real?\n00x1010 zero\n", "0x0 zero\n"},
	"utf8":         {"0x1000 café 世界\n0x1010 \xff\xfe raw\n\xff0x10a0 after raw\n", ""},
	"toolong":      {"0x1000 main\n0x1ffffffffffffffffffff big\n0x1010 never\n", "0x7800 never\n"},
	"overflow":     {"0x1000 main\n", "0x7800 ok\n0x7ff under\n0x7810 never\n"},
	"error-first":  {"ERR"},
	"error-second": {"0x1000 main\n", "ERR"},
	"empty":        {"", ""},
}

func TestZZEquivB(t *testing.T) {
	record := os.Getenv("ZZ_EQUIV_RECORD")
	check := func(name, got string) {
		if record != "" {
			if err := os.WriteFile(record+"/testdata_zz_equiv_b_"+name+".golden", []byte(got), 0o644); err != nil {
				t.Fatal(err)
			}
			return
		}
		want, ok := zzbGolden[name]
		if !ok {
			t.Fatalf("no golden for %s", name)
		}
		if got != want {
			t.Errorf("%s: output differs from the one recorded on the unchanged tree:\n--- got ---\n%s\n--- want ---\n%s", name, got, want)
		}
	}

	for name, responses := range zzbCases {
		for _, force := range []bool{false, true} {
			got, _, _ := zzbRun(t, force, responses)
			check(fmt.Sprintf("%s-force=%v", name, force), got)
		}
	}

	// Pseudo-random responses over an alphabet that stresses the line
	// syntax; each is checked against the reference pattern, and a digest
	// of all results is compared with the one of the unchanged tree.
	rnd := rand.New(rand.NewSource(12))
	pieces := []string{"0x", "0x", "0X", "0", "x", "1000", "1010", "10a0", "10A0", "1abc", "1fff", "1050", "7800", "7810", "82bc",
		" ", " ", "\t", "\r", "\f", "\v", "\n", "\n", "main", "foo", "_ZN3fooEv", "g", "(int)", "é", "\xff", "+", "  "}
	digest := sha256.New()
	offsets := []int64{0, 0x800}
	failures := 0
	for i := 0; i < 4000; i++ {
		var responses []string
		for q := 0; q < 2; q++ {
			var r strings.Builder
			for k, n := 0, rnd.Intn(14); k < n; k++ {
				r.WriteString(pieces[rnd.Intn(len(pieces))])
			}
			if rnd.Intn(4) != 0 {
				r.WriteString("\n")
			}
			responses = append(responses, r.String())
		}
		got, p, err := zzbRun(t, false, responses)
		digest.Write([]byte(got))

		// Reference: mappings 1 and 2 are queried in turn; the first failure stops.
		wantErr := false
		for q := 0; q < 2 && !wantErr; q++ {
			names, order, ok := zzbReference(responses[q], offsets[q])
			if !ok {
				wantErr = true
				break
			}
			for _, l := range p.Location {
				if l.Mapping != p.Mapping[q] {
					continue
				}
				name, hit := names[l.Address]
				switch {
				case hit && (len(l.Line) != 1 || l.Line[0].Function.Name != name || l.Line[0].Function.SystemName != name):
					t.Errorf("response %q: location %#x: got lines %v, want single function %q", responses[q], l.Address, l.Line, name)
				case !hit && len(l.Line) != 0 && l.Address != 0x1050:
					t.Errorf("response %q: location %#x: unexpectedly symbolized: %v", responses[q], l.Address, l.Line)
				}
			}
			_ = order
		}
		if (err != nil) != wantErr {
			t.Errorf("responses %q: err = %v, reference says failure = %v", responses, err, wantErr)
		}
		if err != nil {
			failures++
		}
		if t.Failed() {
			t.FailNow()
		}
	}
	check("random", fmt.Sprintf("%x failures=%d\n", digest.Sum(nil), failures))
}

// Outputs recorded on the unchanged tree.
var zzbGolden = map[string]string{
	"dups-force=false": "" +
		"query http://host:8000/pprof/symbol 0x1000+0x1010+0x10a0+0x1abc+0x1fff\n" +
		"query http://host:8000/pprof/symbol 0x7800+0x7810+0x82bc\n" +
		"err: <nil>\n" +
		"F 7 \"preexisting\" \"preexisting\" \"\" 0\n" +
		"F 40 \"done\" \"done\" \"\" 0\n" +
		"F 41 \"first\" \"first\" \"\" 0\n" +
		"F 42 \"second\" \"second\" \"\" 0\n" +
		"F 43 \"elsewhere\" \"elsewhere\" \"\" 0\n" +
		"F 44 \"over preexisting\" \"over preexisting\" \"\" 0\n" +
		"F 45 \"first\" \"first\" \"\" 0\n" +
		"F 46 \"unshifted\" \"unshifted\" \"\" 0\n" +
		"L 50 0x1000: [f42 \"second\" 0]\n" +
		"L 48 0x1010: [f41 \"first\" 0]\n" +
		"L 46 0x10a0:\n" +
		"L 44 0x1abc:\n" +
		"L 42 0x1fff:\n" +
		"L 40 0x1050: [f44 \"over preexisting\" 0]\n" +
		"L 38 0x7000: [f45 \"first\" 0]\n" +
		"L 36 0x7010:\n" +
		"L 34 0x7abc:\n" +
		"L 32 0x9000: [f40 \"done\" 5]\n" +
		"L 30 0x9010:\n" +
		"M 1 true false false false\n" +
		"M 2 true false false false\n" +
		"M 3 true false false false\n" +
		"",
	"dups-force=true": "" +
		"query http://host:8000/pprof/symbol 0x1000+0x1010+0x10a0+0x1abc+0x1fff\n" +
		"query http://host:8000/pprof/symbol 0x7800+0x7810+0x82bc\n" +
		"query http://host:8000/pprof/symbol 0x9010\n" +
		"err: <nil>\n" +
		"F 7 \"preexisting\" \"preexisting\" \"\" 0\n" +
		"F 40 \"done\" \"done\" \"\" 0\n" +
		"F 41 \"first\" \"first\" \"\" 0\n" +
		"F 42 \"second\" \"second\" \"\" 0\n" +
		"F 43 \"elsewhere\" \"elsewhere\" \"\" 0\n" +
		"F 44 \"over preexisting\" \"over preexisting\" \"\" 0\n" +
		"F 45 \"first\" \"first\" \"\" 0\n" +
		"F 46 \"unshifted\" \"unshifted\" \"\" 0\n" +
		"L 50 0x1000: [f42 \"second\" 0]\n" +
		"L 48 0x1010: [f41 \"first\" 0]\n" +
		"L 46 0x10a0:\n" +
		"L 44 0x1abc:\n" +
		"L 42 0x1fff:\n" +
		"L 40 0x1050: [f44 \"over preexisting\" 0]\n" +
		"L 38 0x7000: [f45 \"first\" 0]\n" +
		"L 36 0x7010:\n" +
		"L 34 0x7abc:\n" +
		"L 32 0x9000: [f40 \"done\" 5]\n" +
		"L 30 0x9010:\n" +
		"M 1 true false false false\n" +
		"M 2 true false false false\n" +
		"M 3 true false false false\n" +
		"",
	"embedded0x-force=false": "" +
		"query http://host:8000/pprof/symbol 0x1000+0x1010+0x10a0+0x1abc+0x1fff\n" +
		"query http://host:8000/pprof/symbol 0x7800+0x7810+0x82bc\n" +
		"err: cannot adjust symbolz address 0 by -2048, it would overflow\n" +
		"F 7 \"preexisting\" \"preexisting\" \"\" 0\n" +
		"F 40 \"done\" \"done\" \"\" 0\n" +
		"F 41 \"0x1010 name\" \"0x1010 name\" \"\" 0\n" +
		"F 42 \"0x1010 real?\" \"0x1010 real?\" \"\" 0\n" +
		"F 43 \"zero\" \"zero\" \"\" 0\n" +
		"L 50 0x1000: [f41 \"0x1010 name\" 0]\n" +
		"L 48 0x1010: [f43 \"zero\" 0]\n" +
		"L 46 0x10a0:\n" +
		"L 44 0x1abc:\n" +
		"L 42 0x1fff:\n" +
		"L 40 0x1050: [f7 \"preexisting\" 1]\n" +
		"L 38 0x7000:\n" +
		"L 36 0x7010:\n" +
		"L 34 0x7abc:\n" +
		"L 32 0x9000: [f40 \"done\" 5]\n" +
		"L 30 0x9010:\n" +
		"M 1 true false false false\n" +
		"M 2 false false false false\n" +
		"M 3 true false false false\n" +
		"",
	"embedded0x-force=true": "" +
		"query http://host:8000/pprof/symbol 0x1000+0x1010+0x10a0+0x1abc+0x1fff\n" +
		"query http://host:8000/pprof/symbol 0x7800+0x7810+0x82bc\n" +
		"err: cannot adjust symbolz address 0 by -2048, it would overflow\n" +
		"F 7 \"preexisting\" \"preexisting\" \"\" 0\n" +
		"F 40 \"done\" \"done\" \"\" 0\n" +
		"F 41 \"0x1010 name\" \"0x1010 name\" \"\" 0\n" +
		"F 42 \"0x1010 real?\" \"0x1010 real?\" \"\" 0\n" +
		"F 43 \"zero\" \"zero\" \"\" 0\n" +
		"L 50 0x1000: [f41 \"0x1010 name\" 0]\n" +
		"L 48 0x1010: [f43 \"zero\" 0]\n" +
		"L 46 0x10a0:\n" +
		"L 44 0x1abc:\n" +
		"L 42 0x1fff:\n" +
		"L 40 0x1050: [f7 \"preexisting\" 1]\n" +
		"L 38 0x7000:\n" +
		"L 36 0x7010:\n" +
		"L 34 0x7abc:\n" +
		"L 32 0x9000: [f40 \"done\" 5]\n" +
		"L 30 0x9010:\n" +
		"M 1 true false false false\n" +
		"M 2 false false false false\n" +
		"M 3 true false false false\n" +
		"",
	"empty-force=false": "" +
		"query http://host:8000/pprof/symbol 0x1000+0x1010+0x10a0+0x1abc+0x1fff\n" +
		"query http://host:8000/pprof/symbol 0x7800+0x7810+0x82bc\n" +
		"err: <nil>\n" +
		"F 7 \"preexisting\" \"preexisting\" \"\" 0\n" +
		"F 40 \"done\" \"done\" \"\" 0\n" +
		"L 50 0x1000:\n" +
		"L 48 0x1010:\n" +
		"L 46 0x10a0:\n" +
		"L 44 0x1abc:\n" +
		"L 42 0x1fff:\n" +
		"L 40 0x1050: [f7 \"preexisting\" 1]\n" +
		"L 38 0x7000:\n" +
		"L 36 0x7010:\n" +
		"L 34 0x7abc:\n" +
		"L 32 0x9000: [f40 \"done\" 5]\n" +
		"L 30 0x9010:\n" +
		"M 1 true false false false\n" +
		"M 2 true false false false\n" +
		"M 3 true false false false\n" +
		"",
	"empty-force=true": "" +
		"query http://host:8000/pprof/symbol 0x1000+0x1010+0x10a0+0x1abc+0x1fff\n" +
		"query http://host:8000/pprof/symbol 0x7800+0x7810+0x82bc\n" +
		"query http://host:8000/pprof/symbol 0x9010\n" +
		"err: <nil>\n" +
		"F 7 \"preexisting\" \"preexisting\" \"\" 0\n" +
		"F 40 \"done\" \"done\" \"\" 0\n" +
		"L 50 0x1000:\n" +
		"L 48 0x1010:\n" +
		"L 46 0x10a0:\n" +
		"L 44 0x1abc:\n" +
		"L 42 0x1fff:\n" +
		"L 40 0x1050: [f7 \"preexisting\" 1]\n" +
		"L 38 0x7000:\n" +
		"L 36 0x7010:\n" +
		"L 34 0x7abc:\n" +
		"L 32 0x9000: [f40 \"done\" 5]\n" +
		"L 30 0x9010:\n" +
		"M 1 true false false false\n" +
		"M 2 true false false false\n" +
		"M 3 true false false false\n" +
		"",
	"error-first-force=false": "" +
		"query http://host:8000/pprof/symbol 0x1000+0x1010+0x10a0+0x1abc+0x1fff\n" +
		"err: symbolz down\n" +
		"F 7 \"preexisting\" \"preexisting\" \"\" 0\n" +
		"F 40 \"done\" \"done\" \"\" 0\n" +
		"L 50 0x1000:\n" +
		"L 48 0x1010:\n" +
		"L 46 0x10a0:\n" +
		"L 44 0x1abc:\n" +
		"L 42 0x1fff:\n" +
		"L 40 0x1050: [f7 \"preexisting\" 1]\n" +
		"L 38 0x7000:\n" +
		"L 36 0x7010:\n" +
		"L 34 0x7abc:\n" +
		"L 32 0x9000: [f40 \"done\" 5]\n" +
		"L 30 0x9010:\n" +
		"M 1 false false false false\n" +
		"M 2 false false false false\n" +
		"M 3 true false false false\n" +
		"",
	"error-first-force=true": "" +
		"query http://host:8000/pprof/symbol 0x1000+0x1010+0x10a0+0x1abc+0x1fff\n" +
		"err: symbolz down\n" +
		"F 7 \"preexisting\" \"preexisting\" \"\" 0\n" +
		"F 40 \"done\" \"done\" \"\" 0\n" +
		"L 50 0x1000:\n" +
		"L 48 0x1010:\n" +
		"L 46 0x10a0:\n" +
		"L 44 0x1abc:\n" +
		"L 42 0x1fff:\n" +
		"L 40 0x1050: [f7 \"preexisting\" 1]\n" +
		"L 38 0x7000:\n" +
		"L 36 0x7010:\n" +
		"L 34 0x7abc:\n" +
		"L 32 0x9000: [f40 \"done\" 5]\n" +
		"L 30 0x9010:\n" +
		"M 1 false false false false\n" +
		"M 2 false false false false\n" +
		"M 3 true false false false\n" +
		"",
	"error-second-force=false": "" +
		"query http://host:8000/pprof/symbol 0x1000+0x1010+0x10a0+0x1abc+0x1fff\n" +
		"query http://host:8000/pprof/symbol 0x7800+0x7810+0x82bc\n" +
		"err: symbolz down\n" +
		"F 7 \"preexisting\" \"preexisting\" \"\" 0\n" +
		"F 40 \"done\" \"done\" \"\" 0\n" +
		"F 41 \"main\" \"main\" \"\" 0\n" +
		"L 50 0x1000: [f41 \"main\" 0]\n" +
		"L 48 0x1010:\n" +
		"L 46 0x10a0:\n" +
		"L 44 0x1abc:\n" +
		"L 42 0x1fff:\n" +
		"L 40 0x1050: [f7 \"preexisting\" 1]\n" +
		"L 38 0x7000:\n" +
		"L 36 0x7010:\n" +
		"L 34 0x7abc:\n" +
		"L 32 0x9000: [f40 \"done\" 5]\n" +
		"L 30 0x9010:\n" +
		"M 1 true false false false\n" +
		"M 2 false false false false\n" +
		"M 3 true false false false\n" +
		"",
	"error-second-force=true": "" +
		"query http://host:8000/pprof/symbol 0x1000+0x1010+0x10a0+0x1abc+0x1fff\n" +
		"query http://host:8000/pprof/symbol 0x7800+0x7810+0x82bc\n" +
		"err: symbolz down\n" +
		"F 7 \"preexisting\" \"preexisting\" \"\" 0\n" +
		"F 40 \"done\" \"done\" \"\" 0\n" +
		"F 41 \"main\" \"main\" \"\" 0\n" +
		"L 50 0x1000: [f41 \"main\" 0]\n" +
		"L 48 0x1010:\n" +
		"L 46 0x10a0:\n" +
		"L 44 0x1abc:\n" +
		"L 42 0x1fff:\n" +
		"L 40 0x1050: [f7 \"preexisting\" 1]\n" +
		"L 38 0x7000:\n" +
		"L 36 0x7010:\n" +
		"L 34 0x7abc:\n" +
		"L 32 0x9000: [f40 \"done\" 5]\n" +
		"L 30 0x9010:\n" +
		"M 1 true false false false\n" +
		"M 2 false false false false\n" +
		"M 3 true false false false\n" +
		"",
	"junk-force=false": "" +
		"query http://host:8000/pprof/symbol 0x1000+0x1010+0x10a0+0x1abc+0x1fff\n" +
		"query http://host:8000/pprof/symbol 0x7800+0x7810+0x82bc\n" +
		"err: <nil>\n" +
		"F 7 \"preexisting\" \"preexisting\" \"\" 0\n" +
		"F 40 \"done\" \"done\" \"\" 0\n" +
		"F 41 \"main\" \"main\" \"\" 0\n" +
		"F 42 \"foo\" \"foo\" \"\" 0\n" +
		"F 43 \"x\" \"x\" \"\" 0\n" +
		"F 44 \"after bad\" \"after bad\" \"\" 0\n" +
		"F 45 \"empty prefix\" \"empty prefix\" \"\" 0\n" +
		"L 50 0x1000: [f41 \"main\" 0]\n" +
		"L 48 0x1010: [f42 \"foo\" 0]\n" +
		"L 46 0x10a0: [f43 \"x\" 0]\n" +
		"L 44 0x1abc: [f44 \"after bad\" 0]\n" +
		"L 42 0x1fff: [f45 \"empty prefix\" 0]\n" +
		"L 40 0x1050: [f7 \"preexisting\" 1]\n" +
		"L 38 0x7000:\n" +
		"L 36 0x7010:\n" +
		"L 34 0x7abc:\n" +
		"L 32 0x9000: [f40 \"done\" 5]\n" +
		"L 30 0x9010:\n" +
		"M 1 true false false false\n" +
		"M 2 true false false false\n" +
		"M 3 true false false false\n" +
		"",
	"junk-force=true": "" +
		"query http://host:8000/pprof/symbol 0x1000+0x1010+0x10a0+0x1abc+0x1fff\n" +
		"query http://host:8000/pprof/symbol 0x7800+0x7810+0x82bc\n" +
		"query http://host:8000/pprof/symbol 0x9010\n" +
		"err: <nil>\n" +
		"F 7 \"preexisting\" \"preexisting\" \"\" 0\n" +
		"F 40 \"done\" \"done\" \"\" 0\n" +
		"F 41 \"main\" \"main\" \"\" 0\n" +
		"F 42 \"foo\" \"foo\" \"\" 0\n" +
		"F 43 \"x\" \"x\" \"\" 0\n" +
		"F 44 \"after bad\" \"after bad\" \"\" 0\n" +
		"F 45 \"empty prefix\" \"empty prefix\" \"\" 0\n" +
		"L 50 0x1000: [f41 \"main\" 0]\n" +
		"L 48 0x1010: [f42 \"foo\" 0]\n" +
		"L 46 0x10a0: [f43 \"x\" 0]\n" +
		"L 44 0x1abc: [f44 \"after bad\" 0]\n" +
		"L 42 0x1fff: [f45 \"empty prefix\" 0]\n" +
		"L 40 0x1050: [f7 \"preexisting\" 1]\n" +
		"L 38 0x7000:\n" +
		"L 36 0x7010:\n" +
		"L 34 0x7abc:\n" +
		"L 32 0x9000: [f40 \"done\" 5]\n" +
		"L 30 0x9010:\n" +
		"M 1 true false false false\n" +
		"M 2 true false false false\n" +
		"M 3 true false false false\n" +
		"",
	"nomatch-force=false": "" +
		"query http://host:8000/pprof/symbol 0x1000+0x1010+0x10a0+0x1abc+0x1fff\n" +
		"query http://host:8000/pprof/symbol 0x7800+0x7810+0x82bc\n" +
		"err: <nil>\n" +
		"F 7 \"preexisting\" \"preexisting\" \"\" 0\n" +
		"F 40 \"done\" \"done\" \"\" 0\n" +
		"L 50 0x1000:\n" +
		"L 48 0x1010:\n" +
		"L 46 0x10a0:\n" +
		"L 44 0x1abc:\n" +
		"L 42 0x1fff:\n" +
		"L 40 0x1050: [f7 \"preexisting\" 1]\n" +
		"L 38 0x7000:\n" +
		"L 36 0x7010:\n" +
		"L 34 0x7abc:\n" +
		"L 32 0x9000: [f40 \"done\" 5]\n" +
		"L 30 0x9010:\n" +
		"M 1 true false false false\n" +
		"M 2 true false false false\n" +
		"M 3 true false false false\n" +
		"",
	"nomatch-force=true": "" +
		"query http://host:8000/pprof/symbol 0x1000+0x1010+0x10a0+0x1abc+0x1fff\n" +
		"query http://host:8000/pprof/symbol 0x7800+0x7810+0x82bc\n" +
		"query http://host:8000/pprof/symbol 0x9010\n" +
		"err: <nil>\n" +
		"F 7 \"preexisting\" \"preexisting\" \"\" 0\n" +
		"F 40 \"done\" \"done\" \"\" 0\n" +
		"L 50 0x1000:\n" +
		"L 48 0x1010:\n" +
		"L 46 0x10a0:\n" +
		"L 44 0x1abc:\n" +
		"L 42 0x1fff:\n" +
		"L 40 0x1050: [f7 \"preexisting\" 1]\n" +
		"L 38 0x7000:\n" +
		"L 36 0x7010:\n" +
		"L 34 0x7abc:\n" +
		"L 32 0x9000: [f40 \"done\" 5]\n" +
		"L 30 0x9010:\n" +
		"M 1 true false false false\n" +
		"M 2 true false false false\n" +
		"M 3 true false false false\n" +
		"",
	"overflow-force=false": "" +
		"query http://host:8000/pprof/symbol 0x1000+0x1010+0x10a0+0x1abc+0x1fff\n" +
		"query http://host:8000/pprof/symbol 0x7800+0x7810+0x82bc\n" +
		"err: cannot adjust symbolz address 2047 by -2048, it would overflow\n" +
		"F 7 \"preexisting\" \"preexisting\" \"\" 0\n" +
		"F 40 \"done\" \"done\" \"\" 0\n" +
		"F 41 \"main\" \"main\" \"\" 0\n" +
		"F 42 \"ok\" \"ok\" \"\" 0\n" +
		"L 50 0x1000: [f41 \"main\" 0]\n" +
		"L 48 0x1010:\n" +
		"L 46 0x10a0:\n" +
		"L 44 0x1abc:\n" +
		"L 42 0x1fff:\n" +
		"L 40 0x1050: [f7 \"preexisting\" 1]\n" +
		"L 38 0x7000:\n" +
		"L 36 0x7010:\n" +
		"L 34 0x7abc:\n" +
		"L 32 0x9000: [f40 \"done\" 5]\n" +
		"L 30 0x9010:\n" +
		"M 1 true false false false\n" +
		"M 2 false false false false\n" +
		"M 3 true false false false\n" +
		"",
	"overflow-force=true": "" +
		"query http://host:8000/pprof/symbol 0x1000+0x1010+0x10a0+0x1abc+0x1fff\n" +
		"query http://host:8000/pprof/symbol 0x7800+0x7810+0x82bc\n" +
		"err: cannot adjust symbolz address 2047 by -2048, it would overflow\n" +
		"F 7 \"preexisting\" \"preexisting\" \"\" 0\n" +
		"F 40 \"done\" \"done\" \"\" 0\n" +
		"F 41 \"main\" \"main\" \"\" 0\n" +
		"F 42 \"ok\" \"ok\" \"\" 0\n" +
		"L 50 0x1000: [f41 \"main\" 0]\n" +
		"L 48 0x1010:\n" +
		"L 46 0x10a0:\n" +
		"L 44 0x1abc:\n" +
		"L 42 0x1fff:\n" +
		"L 40 0x1050: [f7 \"preexisting\" 1]\n" +
		"L 38 0x7000:\n" +
		"L 36 0x7010:\n" +
		"L 34 0x7abc:\n" +
		"L 32 0x9000: [f40 \"done\" 5]\n" +
		"L 30 0x9010:\n" +
		"M 1 true false false false\n" +
		"M 2 false false false false\n" +
		"M 3 true false false false\n" +
		"",
	"partial-force=false": "" +
		"query http://host:8000/pprof/symbol 0x1000+0x1010+0x10a0+0x1abc+0x1fff\n" +
		"query http://host:8000/pprof/symbol 0x7800+0x7810+0x82bc\n" +
		"err: <nil>\n" +
		"F 7 \"preexisting\" \"preexisting\" \"\" 0\n" +
		"F 40 \"done\" \"done\" \"\" 0\n" +
		"F 41 \"main\" \"main\" \"\" 0\n" +
		"L 50 0x1000: [f41 \"main\" 0]\n" +
		"L 48 0x1010:\n" +
		"L 46 0x10a0:\n" +
		"L 44 0x1abc:\n" +
		"L 42 0x1fff:\n" +
		"L 40 0x1050: [f7 \"preexisting\" 1]\n" +
		"L 38 0x7000:\n" +
		"L 36 0x7010:\n" +
		"L 34 0x7abc:\n" +
		"L 32 0x9000: [f40 \"done\" 5]\n" +
		"L 30 0x9010:\n" +
		"M 1 true false false false\n" +
		"M 2 true false false false\n" +
		"M 3 true false false false\n" +
		"",
	"partial-force=true": "" +
		"query http://host:8000/pprof/symbol 0x1000+0x1010+0x10a0+0x1abc+0x1fff\n" +
		"query http://host:8000/pprof/symbol 0x7800+0x7810+0x82bc\n" +
		"query http://host:8000/pprof/symbol 0x9010\n" +
		"err: <nil>\n" +
		"F 7 \"preexisting\" \"preexisting\" \"\" 0\n" +
		"F 40 \"done\" \"done\" \"\" 0\n" +
		"F 41 \"main\" \"main\" \"\" 0\n" +
		"L 50 0x1000: [f41 \"main\" 0]\n" +
		"L 48 0x1010:\n" +
		"L 46 0x10a0:\n" +
		"L 44 0x1abc:\n" +
		"L 42 0x1fff:\n" +
		"L 40 0x1050: [f7 \"preexisting\" 1]\n" +
		"L 38 0x7000:\n" +
		"L 36 0x7010:\n" +
		"L 34 0x7abc:\n" +
		"L 32 0x9000: [f40 \"done\" 5]\n" +
		"L 30 0x9010:\n" +
		"M 1 true false false false\n" +
		"M 2 true false false false\n" +
		"M 3 true false false false\n" +
		"",
	"plain-force=false": "" +
		"query http://host:8000/pprof/symbol 0x1000+0x1010+0x10a0+0x1abc+0x1fff\n" +
		"query http://host:8000/pprof/symbol 0x7800+0x7810+0x82bc\n" +
		"err: <nil>\n" +
		"F 7 \"preexisting\" \"preexisting\" \"\" 0\n" +
		"F 40 \"done\" \"done\" \"\" 0\n" +
		"F 41 \"main\" \"main\" \"\" 0\n" +
		"F 42 \"foo bar\" \"foo bar\" \"\" 0\n" +
		"F 43 \"libfoo_a\" \"libfoo_a\" \"\" 0\n" +
		"F 44 \"libfoo_b\" \"libfoo_b\" \"\" 0\n" +
		"L 50 0x1000: [f41 \"main\" 0]\n" +
		"L 48 0x1010: [f42 \"foo bar\" 0]\n" +
		"L 46 0x10a0: [f41 \"main\" 0]\n" +
		"L 44 0x1abc:\n" +
		"L 42 0x1fff:\n" +
		"L 40 0x1050: [f7 \"preexisting\" 1]\n" +
		"L 38 0x7000: [f43 \"libfoo_a\" 0]\n" +
		"L 36 0x7010: [f44 \"libfoo_b\" 0]\n" +
		"L 34 0x7abc:\n" +
		"L 32 0x9000: [f40 \"done\" 5]\n" +
		"L 30 0x9010:\n" +
		"M 1 true false false false\n" +
		"M 2 true false false false\n" +
		"M 3 true false false false\n" +
		"",
	"plain-force=true": "" +
		"query http://host:8000/pprof/symbol 0x1000+0x1010+0x10a0+0x1abc+0x1fff\n" +
		"query http://host:8000/pprof/symbol 0x7800+0x7810+0x82bc\n" +
		"query http://host:8000/pprof/symbol 0x9010\n" +
		"err: <nil>\n" +
		"F 7 \"preexisting\" \"preexisting\" \"\" 0\n" +
		"F 40 \"done\" \"done\" \"\" 0\n" +
		"F 41 \"main\" \"main\" \"\" 0\n" +
		"F 42 \"foo bar\" \"foo bar\" \"\" 0\n" +
		"F 43 \"libfoo_a\" \"libfoo_a\" \"\" 0\n" +
		"F 44 \"libfoo_b\" \"libfoo_b\" \"\" 0\n" +
		"L 50 0x1000: [f41 \"main\" 0]\n" +
		"L 48 0x1010: [f42 \"foo bar\" 0]\n" +
		"L 46 0x10a0: [f41 \"main\" 0]\n" +
		"L 44 0x1abc:\n" +
		"L 42 0x1fff:\n" +
		"L 40 0x1050: [f7 \"preexisting\" 1]\n" +
		"L 38 0x7000: [f43 \"libfoo_a\" 0]\n" +
		"L 36 0x7010: [f44 \"libfoo_b\" 0]\n" +
		"L 34 0x7abc:\n" +
		"L 32 0x9000: [f40 \"done\" 5]\n" +
		"L 30 0x9010:\n" +
		"M 1 true false false false\n" +
		"M 2 true false false false\n" +
		"M 3 true false false false\n" +
		"",
	"random": "" +
		"c82e9e499abfc1501d952edbaa477b4e8d2cce66bf32c72725c426db5cd6f5b9 failures=15\n" +
		"",
	"spaces-force=false": "" +
		"query http://host:8000/pprof/symbol 0x1000+0x1010+0x10a0+0x1abc+0x1fff\n" +
		"query http://host:8000/pprof/symbol 0x7800+0x7810+0x82bc\n" +
		"err: <nil>\n" +
		"F 7 \"preexisting\" \"preexisting\" \"\" 0\n" +
		"F 40 \"done\" \"done\" \"\" 0\n" +
		"F 41 \"spaced name \" \"spaced name \" \"\" 0\n" +
		"F 42 \"\" \"\" \"\" 0\n" +
		"F 43 \"crlf\\r\" \"crlf\\r\" \"\" 0\n" +
		"F 44 \"\\vvt2\" \"\\vvt2\" \"\" 0\n" +
		"L 50 0x1000: [f41 \"spaced name \" 0]\n" +
		"L 48 0x1010: [f42 \"\" 0]\n" +
		"L 46 0x10a0: [f42 \"\" 0]\n" +
		"L 44 0x1abc: [f42 \"\" 0]\n" +
		"L 42 0x1fff: [f43 \"crlf\\r\" 0]\n" +
		"L 40 0x1050: [f7 \"preexisting\" 1]\n" +
		"L 38 0x7000:\n" +
		"L 36 0x7010: [f44 \"\\vvt2\" 0]\n" +
		"L 34 0x7abc:\n" +
		"L 32 0x9000: [f40 \"done\" 5]\n" +
		"L 30 0x9010:\n" +
		"M 1 true false false false\n" +
		"M 2 true false false false\n" +
		"M 3 true false false false\n" +
		"",
	"spaces-force=true": "" +
		"query http://host:8000/pprof/symbol 0x1000+0x1010+0x10a0+0x1abc+0x1fff\n" +
		"query http://host:8000/pprof/symbol 0x7800+0x7810+0x82bc\n" +
		"query http://host:8000/pprof/symbol 0x9010\n" +
		"err: <nil>\n" +
		"F 7 \"preexisting\" \"preexisting\" \"\" 0\n" +
		"F 40 \"done\" \"done\" \"\" 0\n" +
		"F 41 \"spaced name \" \"spaced name \" \"\" 0\n" +
		"F 42 \"\" \"\" \"\" 0\n" +
		"F 43 \"crlf\\r\" \"crlf\\r\" \"\" 0\n" +
		"F 44 \"\\vvt2\" \"\\vvt2\" \"\" 0\n" +
		"L 50 0x1000: [f41 \"spaced name \" 0]\n" +
		"L 48 0x1010: [f42 \"\" 0]\n" +
		"L 46 0x10a0: [f42 \"\" 0]\n" +
		"L 44 0x1abc: [f42 \"\" 0]\n" +
		"L 42 0x1fff: [f43 \"crlf\\r\" 0]\n" +
		"L 40 0x1050: [f7 \"preexisting\" 1]\n" +
		"L 38 0x7000:\n" +
		"L 36 0x7010: [f44 \"\\vvt2\" 0]\n" +
		"L 34 0x7abc:\n" +
		"L 32 0x9000: [f40 \"done\" 5]\n" +
		"L 30 0x9010:\n" +
		"M 1 true false false false\n" +
		"M 2 true false false false\n" +
		"M 3 true false false false\n" +
		"",
	"toolong-force=false": "" +
		"query http://host:8000/pprof/symbol 0x1000+0x1010+0x10a0+0x1abc+0x1fff\n" +
		"err: unexpected parse failure 0x1ffffffffffffffffffff: strconv.ParseUint: parsing \"0x1ffffffffffffffffffff\": value out of range\n" +
		"F 7 \"preexisting\" \"preexisting\" \"\" 0\n" +
		"F 40 \"done\" \"done\" \"\" 0\n" +
		"F 41 \"main\" \"main\" \"\" 0\n" +
		"L 50 0x1000:\n" +
		"L 48 0x1010:\n" +
		"L 46 0x10a0:\n" +
		"L 44 0x1abc:\n" +
		"L 42 0x1fff:\n" +
		"L 40 0x1050: [f7 \"preexisting\" 1]\n" +
		"L 38 0x7000:\n" +
		"L 36 0x7010:\n" +
		"L 34 0x7abc:\n" +
		"L 32 0x9000: [f40 \"done\" 5]\n" +
		"L 30 0x9010:\n" +
		"M 1 false false false false\n" +
		"M 2 false false false false\n" +
		"M 3 true false false false\n" +
		"",
	"toolong-force=true": "" +
		"query http://host:8000/pprof/symbol 0x1000+0x1010+0x10a0+0x1abc+0x1fff\n" +
		"err: unexpected parse failure 0x1ffffffffffffffffffff: strconv.ParseUint: parsing \"0x1ffffffffffffffffffff\": value out of range\n" +
		"F 7 \"preexisting\" \"preexisting\" \"\" 0\n" +
		"F 40 \"done\" \"done\" \"\" 0\n" +
		"F 41 \"main\" \"main\" \"\" 0\n" +
		"L 50 0x1000:\n" +
		"L 48 0x1010:\n" +
		"L 46 0x10a0:\n" +
		"L 44 0x1abc:\n" +
		"L 42 0x1fff:\n" +
		"L 40 0x1050: [f7 \"preexisting\" 1]\n" +
		"L 38 0x7000:\n" +
		"L 36 0x7010:\n" +
		"L 34 0x7abc:\n" +
		"L 32 0x9000: [f40 \"done\" 5]\n" +
		"L 30 0x9010:\n" +
		"M 1 false false false false\n" +
		"M 2 false false false false\n" +
		"M 3 true false false false\n" +
		"",
	"upperhex-force=false": "" +
		"query http://host:8000/pprof/symbol 0x1000+0x1010+0x10a0+0x1abc+0x1fff\n" +
		"query http://host:8000/pprof/symbol 0x7800+0x7810+0x82bc\n" +
		"err: <nil>\n" +
		"F 7 \"preexisting\" \"preexisting\" \"\" 0\n" +
		"F 40 \"done\" \"done\" \"\" 0\n" +
		"F 41 \"upper\" \"upper\" \"\" 0\n" +
		"F 42 \"mixed\" \"mixed\" \"\" 0\n" +
		"F 43 \"again \" \"again \" \"\" 0\n" +
		"F 44 \"no\" \"no\" \"\" 0\n" +
		"F 45 \"yes\" \"yes\" \"\" 0\n" +
		"L 50 0x1000:\n" +
		"L 48 0x1010:\n" +
		"L 46 0x10a0: [f41 \"upper\" 0]\n" +
		"L 44 0x1abc: [f43 \"again \" 0]\n" +
		"L 42 0x1fff:\n" +
		"L 40 0x1050: [f7 \"preexisting\" 1]\n" +
		"L 38 0x7000:\n" +
		"L 36 0x7010:\n" +
		"L 34 0x7abc: [f45 \"yes\" 0]\n" +
		"L 32 0x9000: [f40 \"done\" 5]\n" +
		"L 30 0x9010:\n" +
		"M 1 true false false false\n" +
		"M 2 true false false false\n" +
		"M 3 true false false false\n" +
		"",
	"upperhex-force=true": "" +
		"query http://host:8000/pprof/symbol 0x1000+0x1010+0x10a0+0x1abc+0x1fff\n" +
		"query http://host:8000/pprof/symbol 0x7800+0x7810+0x82bc\n" +
		"query http://host:8000/pprof/symbol 0x9010\n" +
		"err: <nil>\n" +
		"F 7 \"preexisting\" \"preexisting\" \"\" 0\n" +
		"F 40 \"done\" \"done\" \"\" 0\n" +
		"F 41 \"upper\" \"upper\" \"\" 0\n" +
		"F 42 \"mixed\" \"mixed\" \"\" 0\n" +
		"F 43 \"again \" \"again \" \"\" 0\n" +
		"F 44 \"no\" \"no\" \"\" 0\n" +
		"F 45 \"yes\" \"yes\" \"\" 0\n" +
		"L 50 0x1000:\n" +
		"L 48 0x1010:\n" +
		"L 46 0x10a0: [f41 \"upper\" 0]\n" +
		"L 44 0x1abc: [f43 \"again \" 0]\n" +
		"L 42 0x1fff:\n" +
		"L 40 0x1050: [f7 \"preexisting\" 1]\n" +
		"L 38 0x7000:\n" +
		"L 36 0x7010:\n" +
		"L 34 0x7abc: [f45 \"yes\" 0]\n" +
		"L 32 0x9000: [f40 \"done\" 5]\n" +
		"L 30 0x9010:\n" +
		"M 1 true false false false\n" +
		"M 2 true false false false\n" +
		"M 3 true false false false\n" +
		"",
	"utf8-force=false": "" +
		"query http://host:8000/pprof/symbol 0x1000+0x1010+0x10a0+0x1abc+0x1fff\n" +
		"query http://host:8000/pprof/symbol 0x7800+0x7810+0x82bc\n" +
		"err: <nil>\n" +
		"F 7 \"preexisting\" \"preexisting\" \"\" 0\n" +
		"F 40 \"done\" \"done\" \"\" 0\n" +
		"F 41 \"caf\u00e9 \u4e16\u754c\" \"caf\u00e9 \u4e16\u754c\" \"\" 0\n" +
		"F 42 \"\\xff\\xfe raw\" \"\\xff\\xfe raw\" \"\" 0\n" +
		"F 43 \"after raw\" \"after raw\" \"\" 0\n" +
		"L 50 0x1000: [f41 \"caf\u00e9 \u4e16\u754c\" 0]\n" +
		"L 48 0x1010: [f42 \"\\xff\\xfe raw\" 0]\n" +
		"L 46 0x10a0: [f43 \"after raw\" 0]\n" +
		"L 44 0x1abc:\n" +
		"L 42 0x1fff:\n" +
		"L 40 0x1050: [f7 \"preexisting\" 1]\n" +
		"L 38 0x7000:\n" +
		"L 36 0x7010:\n" +
		"L 34 0x7abc:\n" +
		"L 32 0x9000: [f40 \"done\" 5]\n" +
		"L 30 0x9010:\n" +
		"M 1 true false false false\n" +
		"M 2 true false false false\n" +
		"M 3 true false false false\n" +
		"",
	"utf8-force=true": "" +
		"query http://host:8000/pprof/symbol 0x1000+0x1010+0x10a0+0x1abc+0x1fff\n" +
		"query http://host:8000/pprof/symbol 0x7800+0x7810+0x82bc\n" +
		"query http://host:8000/pprof/symbol 0x9010\n" +
		"err: <nil>\n" +
		"F 7 \"preexisting\" \"preexisting\" \"\" 0\n" +
		"F 40 \"done\" \"done\" \"\" 0\n" +
		"F 41 \"caf\u00e9 \u4e16\u754c\" \"caf\u00e9 \u4e16\u754c\" \"\" 0\n" +
		"F 42 \"\\xff\\xfe raw\" \"\\xff\\xfe raw\" \"\" 0\n" +
		"F 43 \"after raw\" \"after raw\" \"\" 0\n" +
		"L 50 0x1000: [f41 \"caf\u00e9 \u4e16\u754c\" 0]\n" +
		"L 48 0x1010: [f42 \"\\xff\\xfe raw\" 0]\n" +
		"L 46 0x10a0: [f43 \"after raw\" 0]\n" +
		"L 44 0x1abc:\n" +
		"L 42 0x1fff:\n" +
		"L 40 0x1050: [f7 \"preexisting\" 1]\n" +
		"L 38 0x7000:\n" +
		"L 36 0x7010:\n" +
		"L 34 0x7abc:\n" +
		"L 32 0x9000: [f40 \"done\" 5]\n" +
		"L 30 0x9010:\n" +
		"M 1 true false false false\n" +
		"M 2 true false false false\n" +
		"M 3 true false false false\n" +
		"",
}
