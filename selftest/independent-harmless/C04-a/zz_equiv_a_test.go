package graph

import (
	"fmt"
	"os"
	"sort"
	"strings"
	"testing"

	"github.com/google/pprof/profile"
)

// zzEquivProfile builds a profile with recursion, mutual recursion, inlined
// multi-line frames (including a location whose two lines are the same
// function), shared locations, an empty stack, an unsymbolized frame, negative
// values, labels and two sample types.
func zzEquivProfile() *profile.Profile {
	m := &profile.Mapping{ID: 1, Start: 0x1000, Limit: 0x9000, File: "/bin/prog", HasFunctions: true, HasFilenames: true, HasLineNumbers: true, HasInlineFrames: true}
	fn := func(id uint64, name string) *profile.Function {
		return &profile.Function{ID: id, Name: name, SystemName: name, Filename: "/src/" + name + ".go", StartLine: int64(id * 10)}
	}
	fMain, fOuter, fInner, fRec, fLeaf := fn(1, "main"), fn(2, "outer"), fn(3, "inner"), fn(4, "rec"), fn(5, "leaf")
	l1 := &profile.Location{ID: 1, Mapping: m, Address: 0x1100, Line: []profile.Line{{Function: fMain, Line: 11}}}
	l2 := &profile.Location{ID: 2, Mapping: m, Address: 0x1200, Line: []profile.Line{{Function: fInner, Line: 31}, {Function: fOuter, Line: 21}}}
	l3 := &profile.Location{ID: 3, Mapping: m, Address: 0x1300, Line: []profile.Line{{Function: fRec, Line: 41}}}
	l4 := &profile.Location{ID: 4, Mapping: m, Address: 0x1400}
	l5 := &profile.Location{ID: 5, Mapping: m, Address: 0x1500, Line: []profile.Line{{Function: fLeaf, Line: 51}}}
	l6 := &profile.Location{ID: 6, Mapping: m, Address: 0x1600, Line: []profile.Line{{Function: fRec, Line: 42}, {Function: fRec, Line: 43}}}
	l7 := &profile.Location{ID: 7, Mapping: m, Address: 0x1700, Line: []profile.Line{{Function: fLeaf, Line: 52}}}
	L := func(ls ...*profile.Location) []*profile.Location { return ls }
	p := &profile.Profile{
		SampleType: []*profile.ValueType{{Type: "samples", Unit: "count"}, {Type: "cpu", Unit: "nanoseconds"}},
		PeriodType: &profile.ValueType{Type: "cpu", Unit: "nanoseconds"},
		Period:     1,
		Mapping:    []*profile.Mapping{m},
		Function:   []*profile.Function{fMain, fOuter, fInner, fRec, fLeaf},
		Location:   []*profile.Location{l1, l2, l3, l4, l5, l6, l7},
		Sample: []*profile.Sample{
			{Location: L(l5, l2, l1), Value: []int64{3, 10}},
			{Location: L(l3, l3, l3, l1), Value: []int64{2, 7}},
			{Location: L(l3, l2, l3, l2, l1), Value: []int64{1, -5}},
			{Location: nil, Value: []int64{4, 9}},
			{Location: L(l4, l1), Value: []int64{5, 11}},
			{Location: L(l5, l2, l1), Value: []int64{6, 13}, Label: map[string][]string{"k": {"v1", "v2"}}, NumLabel: map[string][]int64{"bytes": {64}}, NumUnit: map[string][]string{"bytes": {"bytes"}}},
			{Location: L(l6, l1), Value: []int64{1, 2}},
			{Location: L(l6, l6, l3, l1), Value: []int64{2, -3}},
			{Location: L(l7, l5, l7, l5, l1), Value: []int64{7, 17}},
			{Location: L(l5, l1), Value: []int64{0, 0}},
			{Location: L(l1, l1), Value: []int64{0, 19}},
			{Location: L(l2, l2), Value: []int64{8, 23}},
		},
	}
	if err := p.CheckValid(); err != nil {
		panic(err)
	}
	return p
}

func zzDump(g *Graph) string {
	var lines []string
	for _, n := range g.Nodes {
		var b strings.Builder
		fmt.Fprintf(&b, "N %s|%s|%d flat=%d/%d cum=%d/%d fv=%d cv=%d", n.Info.PrintableName(), n.Info.Objfile, n.Info.StartLine, n.Flat, n.FlatDiv, n.Cum, n.CumDiv, n.FlatValue(), n.CumValue())
		var es []string
		for _, e := range n.Out {
			es = append(es, fmt.Sprintf(" ->%s w=%d/%d wv=%d res=%v inl=%v", e.Dest.Info.PrintableName(), e.Weight, e.WeightDiv, e.WeightValue(), e.Residual, e.Inline))
			if e.Dest.In[n] != e {
				es = append(es, " ASYMMETRIC")
			}
		}
		sort.Strings(es)
		b.WriteString(strings.Join(es, ""))
		var ts []string
		for k, t := range n.LabelTags {
			ts = append(ts, fmt.Sprintf(" L[%s]=%d/%d,%d/%d", k, t.Flat, t.FlatDiv, t.Cum, t.CumDiv))
		}
		for k, tm := range n.NumericTags {
			for k2, t := range tm {
				ts = append(ts, fmt.Sprintf(" T[%s][%s]=%d/%d,%d/%d", k, k2, t.Flat, t.FlatDiv, t.Cum, t.CumDiv))
			}
		}
		sort.Strings(ts)
		b.WriteString(strings.Join(ts, ""))
		lines = append(lines, b.String())
	}
	sort.Strings(lines)
	return strings.Join(lines, "\n") + "\n"
}

func zzAll() string {
	var out strings.Builder
	type gran struct {
		name                                                   string
		inlineFrame, function, filename, line, column, address bool
		noAgg                                                  bool
	}
	grans := []gran{
		{name: "raw", noAgg: true},
		{name: "functions", inlineFrame: true, function: true},
		{name: "functions-noinlines", function: true},
		{name: "lines", inlineFrame: true, function: true, filename: true, line: true},
		{name: "addresses", inlineFrame: true, function: true, filename: true, line: true, address: true},
		{name: "files", inlineFrame: true, filename: true},
	}
	for _, gr := range grans {
		for idx := 0; idx < 2; idx++ {
			for _, mean := range []bool{false, true} {
				for _, kept := range []bool{false, true} {
					p := zzEquivProfile()
					if !gr.noAgg {
						if err := p.Aggregate(gr.inlineFrame, gr.function, gr.filename, gr.line, gr.column, gr.address); err != nil {
							panic(err)
						}
					}
					idx := idx
					o := &Options{SampleValue: func(v []int64) int64 { return v[idx] }, ObjNames: idx == 1}
					if mean {
						o.SampleMeanDivisor = func(v []int64) int64 { return v[0] }
					}
					if kept {
						// Keep everything except the nodes named "outer": edges over it become residual.
						full := New(p, &Options{SampleValue: o.SampleValue, SampleMeanDivisor: o.SampleMeanDivisor, ObjNames: o.ObjNames})
						o.KeptNodes = NodeSet{}
						for _, n := range full.Nodes {
							if n.Info.Name != "outer" {
								o.KeptNodes[n.Info] = true
							}
						}
					}
					fmt.Fprintf(&out, "== %s idx=%d mean=%v kept=%v\n", gr.name, idx, mean, kept)
					out.WriteString(zzDump(New(p, o)))
				}
			}
		}
	}
	return out.String()
}

func TestZZEquivA(t *testing.T) {
	got := zzAll()
	if f := os.Getenv("ZZ_EQUIV_WRITE"); f != "" {
		if err := os.WriteFile(f, []byte(got), 0o644); err != nil {
			t.Fatal(err)
		}
		return
	}
	if got != zzWantA {
		gl, wl := strings.Split(got, "\n"), strings.Split(zzWantA, "\n")
		for i := 0; i < len(gl) && i < len(wl); i++ {
			if gl[i] != wl[i] {
				t.Fatalf("line %d differs:\n got: %s\nwant: %s", i+1, gl[i], wl[i])
			}
		}
		t.Fatalf("output length differs: got %d lines, want %d", len(gl), len(wl))
	}
	// Spot-check a few numbers against the definition (sample_index=1, raw, no mean).
	for _, s := range []string{
		"N 0000000000001300 rec /src/rec.go:41|/bin/prog|40 flat=2/0 cum=-1/0",
		// main->rec: 7 (3-deep recursion counted once) + -3.
		"cum=71/0 fv=19 cv=71 ->0000000000001200 outer /src/outer.go:21 w=18/0 wv=18 res=false inl=false ->0000000000001300 rec /src/rec.go:41 w=4/0",
		// inner->rec occurs twice in one sample (mutual recursion) and is counted once: -5.
		"N 0000000000001200 inner /src/inner.go:31|/bin/prog|30 flat=23/0 cum=41/0 fv=23 cv=41 ->0000000000001200 outer /src/outer.go:21 w=23/0 wv=23 res=false inl=false ->0000000000001300 rec /src/rec.go:41 w=-5/0",
	} {
		if !strings.Contains(got, s) {
			t.Errorf("missing %q", s)
		}
	}
}

// zzWantA was recorded on the unchanged tree.
const zzWantA = `== raw idx=0 mean=false kept=false
N 0000000000001100 main /src/main.go:11||0 flat=0/0 cum=27/0 fv=0 cv=27 ->0000000000001200 outer /src/outer.go:21 w=10/0 wv=10 res=false inl=false ->0000000000001300 rec /src/rec.go:41 w=4/0 wv=4 res=false inl=false ->0000000000001400 [prog] w=5/0 wv=5 res=false inl=false ->0000000000001500 leaf /src/leaf.go:51 w=7/0 wv=7 res=false inl=false ->0000000000001600 rec /src/rec.go:43 w=1/0 wv=1 res=false inl=false L[k:v1\nk:v2]=0/0,6/0 T[k:v1\nk:v2][64]=0/0,6/0
N 0000000000001200 inner /src/inner.go:31||0 flat=8/0 cum=18/0 fv=8 cv=18 ->0000000000001200 outer /src/outer.go:21 w=8/0 wv=8 res=false inl=false ->0000000000001300 rec /src/rec.go:41 w=1/0 wv=1 res=false inl=false ->0000000000001500 leaf /src/leaf.go:51 w=9/0 wv=9 res=false inl=false L[k:v1\nk:v2]=0/0,6/0 T[k:v1\nk:v2][64]=0/0,6/0
N 0000000000001200 outer /src/outer.go:21||0 flat=0/0 cum=18/0 fv=0 cv=18 ->0000000000001200 inner /src/inner.go:31 w=18/0 wv=18 res=false inl=true L[k:v1\nk:v2]=0/0,6/0 T[k:v1\nk:v2][64]=0/0,6/0
N 0000000000001300 rec /src/rec.go:41||0 flat=3/0 cum=5/0 fv=3 cv=5 ->0000000000001200 outer /src/outer.go:21 w=1/0 wv=1 res=false inl=false ->0000000000001600 rec /src/rec.go:43 w=2/0 wv=2 res=false inl=false
N 0000000000001400 [prog]|/bin/prog|0 flat=5/0 cum=5/0 fv=5 cv=5
N 0000000000001500 leaf /src/leaf.go:51||0 flat=9/0 cum=16/0 fv=9 cv=16 ->0000000000001700 leaf /src/leaf.go:52 w=7/0 wv=7 res=false inl=false L[k:v1\nk:v2]=6/0,6/0 T[k:v1\nk:v2][64]=6/0,6/0
N 0000000000001600 rec /src/rec.go:42||0 flat=3/0 cum=3/0 fv=3 cv=3 ->0000000000001600 rec /src/rec.go:43 w=2/0 wv=2 res=false inl=false
N 0000000000001600 rec /src/rec.go:43||0 flat=0/0 cum=3/0 fv=0 cv=3 ->0000000000001600 rec /src/rec.go:42 w=3/0 wv=3 res=false inl=true
N 0000000000001700 leaf /src/leaf.go:52||0 flat=7/0 cum=7/0 fv=7 cv=7 ->0000000000001500 leaf /src/leaf.go:51 w=7/0 wv=7 res=false inl=false
== raw idx=0 mean=false kept=true
N 0000000000001100 main /src/main.go:11||0 flat=0/0 cum=27/0 fv=0 cv=27 ->0000000000001200 inner /src/inner.go:31 w=10/0 wv=10 res=true inl=true ->0000000000001300 rec /src/rec.go:41 w=4/0 wv=4 res=false inl=false ->0000000000001400 [prog] w=5/0 wv=5 res=false inl=false ->0000000000001500 leaf /src/leaf.go:51 w=7/0 wv=7 res=false inl=false ->0000000000001600 rec /src/rec.go:43 w=1/0 wv=1 res=false inl=false L[k:v1\nk:v2]=0/0,6/0 T[k:v1\nk:v2][64]=0/0,6/0
N 0000000000001200 inner /src/inner.go:31||0 flat=8/0 cum=18/0 fv=8 cv=18 ->0000000000001300 rec /src/rec.go:41 w=1/0 wv=1 res=false inl=false ->0000000000001500 leaf /src/leaf.go:51 w=9/0 wv=9 res=false inl=false L[k:v1\nk:v2]=0/0,6/0 T[k:v1\nk:v2][64]=0/0,6/0
N 0000000000001300 rec /src/rec.go:41||0 flat=3/0 cum=5/0 fv=3 cv=5 ->0000000000001200 inner /src/inner.go:31 w=1/0 wv=1 res=true inl=true ->0000000000001600 rec /src/rec.go:43 w=2/0 wv=2 res=false inl=false
N 0000000000001400 [prog]|/bin/prog|0 flat=5/0 cum=5/0 fv=5 cv=5
N 0000000000001500 leaf /src/leaf.go:51||0 flat=9/0 cum=16/0 fv=9 cv=16 ->0000000000001700 leaf /src/leaf.go:52 w=7/0 wv=7 res=false inl=false L[k:v1\nk:v2]=6/0,6/0 T[k:v1\nk:v2][64]=6/0,6/0
N 0000000000001600 rec /src/rec.go:42||0 flat=3/0 cum=3/0 fv=3 cv=3 ->0000000000001600 rec /src/rec.go:43 w=2/0 wv=2 res=false inl=false
N 0000000000001600 rec /src/rec.go:43||0 flat=0/0 cum=3/0 fv=0 cv=3 ->0000000000001600 rec /src/rec.go:42 w=3/0 wv=3 res=false inl=true
N 0000000000001700 leaf /src/leaf.go:52||0 flat=7/0 cum=7/0 fv=7 cv=7 ->0000000000001500 leaf /src/leaf.go:51 w=7/0 wv=7 res=false inl=false
== raw idx=0 mean=true kept=false
N 0000000000001100 main /src/main.go:11||0 flat=0/0 cum=27/27 fv=0 cv=1 ->0000000000001200 outer /src/outer.go:21 w=10/10 wv=1 res=false inl=false ->0000000000001300 rec /src/rec.go:41 w=4/4 wv=1 res=false inl=false ->0000000000001400 [prog] w=5/5 wv=1 res=false inl=false ->0000000000001500 leaf /src/leaf.go:51 w=7/7 wv=1 res=false inl=false ->0000000000001600 rec /src/rec.go:43 w=1/1 wv=1 res=false inl=false L[k:v1\nk:v2]=0/0,6/6 T[k:v1\nk:v2][64]=0/0,6/6
N 0000000000001200 inner /src/inner.go:31||0 flat=8/8 cum=18/18 fv=1 cv=1 ->0000000000001200 outer /src/outer.go:21 w=8/8 wv=1 res=false inl=false ->0000000000001300 rec /src/rec.go:41 w=1/1 wv=1 res=false inl=false ->0000000000001500 leaf /src/leaf.go:51 w=9/9 wv=1 res=false inl=false L[k:v1\nk:v2]=0/0,6/6 T[k:v1\nk:v2][64]=0/0,6/6
N 0000000000001200 outer /src/outer.go:21||0 flat=0/0 cum=18/18 fv=0 cv=1 ->0000000000001200 inner /src/inner.go:31 w=18/18 wv=1 res=false inl=true L[k:v1\nk:v2]=0/0,6/6 T[k:v1\nk:v2][64]=0/0,6/6
N 0000000000001300 rec /src/rec.go:41||0 flat=3/3 cum=5/5 fv=1 cv=1 ->0000000000001200 outer /src/outer.go:21 w=1/1 wv=1 res=false inl=false ->0000000000001600 rec /src/rec.go:43 w=2/2 wv=1 res=false inl=false
N 0000000000001400 [prog]|/bin/prog|0 flat=5/5 cum=5/5 fv=1 cv=1
N 0000000000001500 leaf /src/leaf.go:51||0 flat=9/9 cum=16/16 fv=1 cv=1 ->0000000000001700 leaf /src/leaf.go:52 w=7/7 wv=1 res=false inl=false L[k:v1\nk:v2]=6/6,6/6 T[k:v1\nk:v2][64]=6/6,6/6
N 0000000000001600 rec /src/rec.go:42||0 flat=3/3 cum=3/3 fv=1 cv=1 ->0000000000001600 rec /src/rec.go:43 w=2/2 wv=1 res=false inl=false
N 0000000000001600 rec /src/rec.go:43||0 flat=0/0 cum=3/3 fv=0 cv=1 ->0000000000001600 rec /src/rec.go:42 w=3/3 wv=1 res=false inl=true
N 0000000000001700 leaf /src/leaf.go:52||0 flat=7/7 cum=7/7 fv=1 cv=1 ->0000000000001500 leaf /src/leaf.go:51 w=7/7 wv=1 res=false inl=false
== raw idx=0 mean=true kept=true
N 0000000000001100 main /src/main.go:11||0 flat=0/0 cum=27/27 fv=0 cv=1 ->0000000000001200 inner /src/inner.go:31 w=10/10 wv=1 res=true inl=true ->0000000000001300 rec /src/rec.go:41 w=4/4 wv=1 res=false inl=false ->0000000000001400 [prog] w=5/5 wv=1 res=false inl=false ->0000000000001500 leaf /src/leaf.go:51 w=7/7 wv=1 res=false inl=false ->0000000000001600 rec /src/rec.go:43 w=1/1 wv=1 res=false inl=false L[k:v1\nk:v2]=0/0,6/6 T[k:v1\nk:v2][64]=0/0,6/6
N 0000000000001200 inner /src/inner.go:31||0 flat=8/8 cum=18/18 fv=1 cv=1 ->0000000000001300 rec /src/rec.go:41 w=1/1 wv=1 res=false inl=false ->0000000000001500 leaf /src/leaf.go:51 w=9/9 wv=1 res=false inl=false L[k:v1\nk:v2]=0/0,6/6 T[k:v1\nk:v2][64]=0/0,6/6
N 0000000000001300 rec /src/rec.go:41||0 flat=3/3 cum=5/5 fv=1 cv=1 ->0000000000001200 inner /src/inner.go:31 w=1/1 wv=1 res=true inl=true ->0000000000001600 rec /src/rec.go:43 w=2/2 wv=1 res=false inl=false
N 0000000000001400 [prog]|/bin/prog|0 flat=5/5 cum=5/5 fv=1 cv=1
N 0000000000001500 leaf /src/leaf.go:51||0 flat=9/9 cum=16/16 fv=1 cv=1 ->0000000000001700 leaf /src/leaf.go:52 w=7/7 wv=1 res=false inl=false L[k:v1\nk:v2]=6/6,6/6 T[k:v1\nk:v2][64]=6/6,6/6
N 0000000000001600 rec /src/rec.go:42||0 flat=3/3 cum=3/3 fv=1 cv=1 ->0000000000001600 rec /src/rec.go:43 w=2/2 wv=1 res=false inl=false
N 0000000000001600 rec /src/rec.go:43||0 flat=0/0 cum=3/3 fv=0 cv=1 ->0000000000001600 rec /src/rec.go:42 w=3/3 wv=1 res=false inl=true
N 0000000000001700 leaf /src/leaf.go:52||0 flat=7/7 cum=7/7 fv=1 cv=1 ->0000000000001500 leaf /src/leaf.go:51 w=7/7 wv=1 res=false inl=false
== raw idx=1 mean=false kept=false
N 0000000000001100 main /src/main.go:11|/bin/prog|10 flat=19/0 cum=71/0 fv=19 cv=71 ->0000000000001200 outer /src/outer.go:21 w=18/0 wv=18 res=false inl=false ->0000000000001300 rec /src/rec.go:41 w=4/0 wv=4 res=false inl=false ->0000000000001400 [prog] w=11/0 wv=11 res=false inl=false ->0000000000001500 leaf /src/leaf.go:51 w=17/0 wv=17 res=false inl=false ->0000000000001600 rec /src/rec.go:43 w=2/0 wv=2 res=false inl=false L[k:v1\nk:v2]=0/0,13/0 T[k:v1\nk:v2][64]=0/0,13/0
N 0000000000001200 inner /src/inner.go:31|/bin/prog|30 flat=23/0 cum=41/0 fv=23 cv=41 ->0000000000001200 outer /src/outer.go:21 w=23/0 wv=23 res=false inl=false ->0000000000001300 rec /src/rec.go:41 w=-5/0 wv=-5 res=false inl=false ->0000000000001500 leaf /src/leaf.go:51 w=23/0 wv=23 res=false inl=false L[k:v1\nk:v2]=0/0,13/0 T[k:v1\nk:v2][64]=0/0,13/0
N 0000000000001200 outer /src/outer.go:21|/bin/prog|20 flat=0/0 cum=41/0 fv=0 cv=41 ->0000000000001200 inner /src/inner.go:31 w=41/0 wv=41 res=false inl=true L[k:v1\nk:v2]=0/0,13/0 T[k:v1\nk:v2][64]=0/0,13/0
N 0000000000001300 rec /src/rec.go:41|/bin/prog|40 flat=2/0 cum=-1/0 fv=2 cv=-1 ->0000000000001200 outer /src/outer.go:21 w=-5/0 wv=-5 res=false inl=false ->0000000000001600 rec /src/rec.go:43 w=-3/0 wv=-3 res=false inl=false
N 0000000000001400 [prog]|/bin/prog|0 flat=11/0 cum=11/0 fv=11 cv=11
N 0000000000001500 leaf /src/leaf.go:51|/bin/prog|50 flat=23/0 cum=40/0 fv=23 cv=40 ->0000000000001700 leaf /src/leaf.go:52 w=17/0 wv=17 res=false inl=false L[k:v1\nk:v2]=13/0,13/0 T[k:v1\nk:v2][64]=13/0,13/0
N 0000000000001600 rec /src/rec.go:42|/bin/prog|40 flat=-1/0 cum=-1/0 fv=-1 cv=-1 ->0000000000001600 rec /src/rec.go:43 w=-3/0 wv=-3 res=false inl=false
N 0000000000001600 rec /src/rec.go:43|/bin/prog|40 flat=0/0 cum=-1/0 fv=0 cv=-1 ->0000000000001600 rec /src/rec.go:42 w=-1/0 wv=-1 res=false inl=true
N 0000000000001700 leaf /src/leaf.go:52|/bin/prog|50 flat=17/0 cum=17/0 fv=17 cv=17 ->0000000000001500 leaf /src/leaf.go:51 w=17/0 wv=17 res=false inl=false
== raw idx=1 mean=false kept=true
N 0000000000001100 main /src/main.go:11|/bin/prog|10 flat=19/0 cum=71/0 fv=19 cv=71 ->0000000000001200 inner /src/inner.go:31 w=18/0 wv=18 res=true inl=true ->0000000000001300 rec /src/rec.go:41 w=4/0 wv=4 res=false inl=false ->0000000000001400 [prog] w=11/0 wv=11 res=false inl=false ->0000000000001500 leaf /src/leaf.go:51 w=17/0 wv=17 res=false inl=false ->0000000000001600 rec /src/rec.go:43 w=2/0 wv=2 res=false inl=false L[k:v1\nk:v2]=0/0,13/0 T[k:v1\nk:v2][64]=0/0,13/0
N 0000000000001200 inner /src/inner.go:31|/bin/prog|30 flat=23/0 cum=41/0 fv=23 cv=41 ->0000000000001300 rec /src/rec.go:41 w=-5/0 wv=-5 res=false inl=false ->0000000000001500 leaf /src/leaf.go:51 w=23/0 wv=23 res=false inl=false L[k:v1\nk:v2]=0/0,13/0 T[k:v1\nk:v2][64]=0/0,13/0
N 0000000000001300 rec /src/rec.go:41|/bin/prog|40 flat=2/0 cum=-1/0 fv=2 cv=-1 ->0000000000001200 inner /src/inner.go:31 w=-5/0 wv=-5 res=true inl=true ->0000000000001600 rec /src/rec.go:43 w=-3/0 wv=-3 res=false inl=false
N 0000000000001400 [prog]|/bin/prog|0 flat=11/0 cum=11/0 fv=11 cv=11
N 0000000000001500 leaf /src/leaf.go:51|/bin/prog|50 flat=23/0 cum=40/0 fv=23 cv=40 ->0000000000001700 leaf /src/leaf.go:52 w=17/0 wv=17 res=false inl=false L[k:v1\nk:v2]=13/0,13/0 T[k:v1\nk:v2][64]=13/0,13/0
N 0000000000001600 rec /src/rec.go:42|/bin/prog|40 flat=-1/0 cum=-1/0 fv=-1 cv=-1 ->0000000000001600 rec /src/rec.go:43 w=-3/0 wv=-3 res=false inl=false
N 0000000000001600 rec /src/rec.go:43|/bin/prog|40 flat=0/0 cum=-1/0 fv=0 cv=-1 ->0000000000001600 rec /src/rec.go:42 w=-1/0 wv=-1 res=false inl=true
N 0000000000001700 leaf /src/leaf.go:52|/bin/prog|50 flat=17/0 cum=17/0 fv=17 cv=17 ->0000000000001500 leaf /src/leaf.go:51 w=17/0 wv=17 res=false inl=false
== raw idx=1 mean=true kept=false
N 0000000000001100 main /src/main.go:11|/bin/prog|10 flat=19/0 cum=71/27 fv=19 cv=2 ->0000000000001200 outer /src/outer.go:21 w=18/10 wv=1 res=false inl=false ->0000000000001300 rec /src/rec.go:41 w=4/4 wv=1 res=false inl=false ->0000000000001400 [prog] w=11/5 wv=2 res=false inl=false ->0000000000001500 leaf /src/leaf.go:51 w=17/7 wv=2 res=false inl=false ->0000000000001600 rec /src/rec.go:43 w=2/1 wv=2 res=false inl=false L[k:v1\nk:v2]=0/0,13/6 T[k:v1\nk:v2][64]=0/0,13/6
N 0000000000001200 inner /src/inner.go:31|/bin/prog|30 flat=23/8 cum=41/18 fv=2 cv=2 ->0000000000001200 outer /src/outer.go:21 w=23/8 wv=2 res=false inl=false ->0000000000001300 rec /src/rec.go:41 w=-5/1 wv=-5 res=false inl=false ->0000000000001500 leaf /src/leaf.go:51 w=23/9 wv=2 res=false inl=false L[k:v1\nk:v2]=0/0,13/6 T[k:v1\nk:v2][64]=0/0,13/6
N 0000000000001200 outer /src/outer.go:21|/bin/prog|20 flat=0/0 cum=41/18 fv=0 cv=2 ->0000000000001200 inner /src/inner.go:31 w=41/18 wv=2 res=false inl=true L[k:v1\nk:v2]=0/0,13/6 T[k:v1\nk:v2][64]=0/0,13/6
N 0000000000001300 rec /src/rec.go:41|/bin/prog|40 flat=2/3 cum=-1/5 fv=0 cv=0 ->0000000000001200 outer /src/outer.go:21 w=-5/1 wv=-5 res=false inl=false ->0000000000001600 rec /src/rec.go:43 w=-3/2 wv=-1 res=false inl=false
N 0000000000001400 [prog]|/bin/prog|0 flat=11/5 cum=11/5 fv=2 cv=2
N 0000000000001500 leaf /src/leaf.go:51|/bin/prog|50 flat=23/9 cum=40/16 fv=2 cv=2 ->0000000000001700 leaf /src/leaf.go:52 w=17/7 wv=2 res=false inl=false L[k:v1\nk:v2]=13/6,13/6 T[k:v1\nk:v2][64]=13/6,13/6
N 0000000000001600 rec /src/rec.go:42|/bin/prog|40 flat=-1/3 cum=-1/3 fv=0 cv=0 ->0000000000001600 rec /src/rec.go:43 w=-3/2 wv=-1 res=false inl=false
N 0000000000001600 rec /src/rec.go:43|/bin/prog|40 flat=0/0 cum=-1/3 fv=0 cv=0 ->0000000000001600 rec /src/rec.go:42 w=-1/3 wv=0 res=false inl=true
N 0000000000001700 leaf /src/leaf.go:52|/bin/prog|50 flat=17/7 cum=17/7 fv=2 cv=2 ->0000000000001500 leaf /src/leaf.go:51 w=17/7 wv=2 res=false inl=false
== raw idx=1 mean=true kept=true
N 0000000000001100 main /src/main.go:11|/bin/prog|10 flat=19/0 cum=71/27 fv=19 cv=2 ->0000000000001200 inner /src/inner.go:31 w=18/10 wv=1 res=true inl=true ->0000000000001300 rec /src/rec.go:41 w=4/4 wv=1 res=false inl=false ->0000000000001400 [prog] w=11/5 wv=2 res=false inl=false ->0000000000001500 leaf /src/leaf.go:51 w=17/7 wv=2 res=false inl=false ->0000000000001600 rec /src/rec.go:43 w=2/1 wv=2 res=false inl=false L[k:v1\nk:v2]=0/0,13/6 T[k:v1\nk:v2][64]=0/0,13/6
N 0000000000001200 inner /src/inner.go:31|/bin/prog|30 flat=23/8 cum=41/18 fv=2 cv=2 ->0000000000001300 rec /src/rec.go:41 w=-5/1 wv=-5 res=false inl=false ->0000000000001500 leaf /src/leaf.go:51 w=23/9 wv=2 res=false inl=false L[k:v1\nk:v2]=0/0,13/6 T[k:v1\nk:v2][64]=0/0,13/6
N 0000000000001300 rec /src/rec.go:41|/bin/prog|40 flat=2/3 cum=-1/5 fv=0 cv=0 ->0000000000001200 inner /src/inner.go:31 w=-5/1 wv=-5 res=true inl=true ->0000000000001600 rec /src/rec.go:43 w=-3/2 wv=-1 res=false inl=false
N 0000000000001400 [prog]|/bin/prog|0 flat=11/5 cum=11/5 fv=2 cv=2
N 0000000000001500 leaf /src/leaf.go:51|/bin/prog|50 flat=23/9 cum=40/16 fv=2 cv=2 ->0000000000001700 leaf /src/leaf.go:52 w=17/7 wv=2 res=false inl=false L[k:v1\nk:v2]=13/6,13/6 T[k:v1\nk:v2][64]=13/6,13/6
N 0000000000001600 rec /src/rec.go:42|/bin/prog|40 flat=-1/3 cum=-1/3 fv=0 cv=0 ->0000000000001600 rec /src/rec.go:43 w=-3/2 wv=-1 res=false inl=false
N 0000000000001600 rec /src/rec.go:43|/bin/prog|40 flat=0/0 cum=-1/3 fv=0 cv=0 ->0000000000001600 rec /src/rec.go:42 w=-1/3 wv=0 res=false inl=true
N 0000000000001700 leaf /src/leaf.go:52|/bin/prog|50 flat=17/7 cum=17/7 fv=2 cv=2 ->0000000000001500 leaf /src/leaf.go:51 w=17/7 wv=2 res=false inl=false
== functions idx=0 mean=false kept=false
N [prog]|/bin/prog|0 flat=5/0 cum=5/0 fv=5 cv=5
N inner||0 flat=8/0 cum=18/0 fv=8 cv=18 ->leaf w=9/0 wv=9 res=false inl=false ->outer w=8/0 wv=8 res=false inl=false ->rec w=1/0 wv=1 res=false inl=false L[k:v1\nk:v2]=0/0,6/0 T[k:v1\nk:v2][64]=0/0,6/0
N leaf||0 flat=16/0 cum=16/0 fv=16 cv=16 L[k:v1\nk:v2]=6/0,6/0 T[k:v1\nk:v2][64]=6/0,6/0
N main||0 flat=0/0 cum=27/0 fv=0 cv=27 ->[prog] w=5/0 wv=5 res=false inl=false ->leaf w=7/0 wv=7 res=false inl=false ->outer w=10/0 wv=10 res=false inl=false ->rec w=5/0 wv=5 res=false inl=false L[k:v1\nk:v2]=0/0,6/0 T[k:v1\nk:v2][64]=0/0,6/0
N outer||0 flat=0/0 cum=18/0 fv=0 cv=18 ->inner w=18/0 wv=18 res=false inl=true L[k:v1\nk:v2]=0/0,6/0 T[k:v1\nk:v2][64]=0/0,6/0
N rec||0 flat=6/0 cum=6/0 fv=6 cv=6 ->outer w=1/0 wv=1 res=false inl=false
== functions idx=0 mean=false kept=true
N [prog]|/bin/prog|0 flat=5/0 cum=5/0 fv=5 cv=5
N inner||0 flat=8/0 cum=18/0 fv=8 cv=18 ->leaf w=9/0 wv=9 res=false inl=false ->rec w=1/0 wv=1 res=false inl=false L[k:v1\nk:v2]=0/0,6/0 T[k:v1\nk:v2][64]=0/0,6/0
N leaf||0 flat=16/0 cum=16/0 fv=16 cv=16 L[k:v1\nk:v2]=6/0,6/0 T[k:v1\nk:v2][64]=6/0,6/0
N main||0 flat=0/0 cum=27/0 fv=0 cv=27 ->[prog] w=5/0 wv=5 res=false inl=false ->inner w=10/0 wv=10 res=true inl=true ->leaf w=7/0 wv=7 res=false inl=false ->rec w=5/0 wv=5 res=false inl=false L[k:v1\nk:v2]=0/0,6/0 T[k:v1\nk:v2][64]=0/0,6/0
N rec||0 flat=6/0 cum=6/0 fv=6 cv=6 ->inner w=1/0 wv=1 res=true inl=true
== functions idx=0 mean=true kept=false
N [prog]|/bin/prog|0 flat=5/5 cum=5/5 fv=1 cv=1
N inner||0 flat=8/8 cum=18/18 fv=1 cv=1 ->leaf w=9/9 wv=1 res=false inl=false ->outer w=8/8 wv=1 res=false inl=false ->rec w=1/1 wv=1 res=false inl=false L[k:v1\nk:v2]=0/0,6/6 T[k:v1\nk:v2][64]=0/0,6/6
N leaf||0 flat=16/16 cum=16/16 fv=1 cv=1 L[k:v1\nk:v2]=6/6,6/6 T[k:v1\nk:v2][64]=6/6,6/6
N main||0 flat=0/0 cum=27/27 fv=0 cv=1 ->[prog] w=5/5 wv=1 res=false inl=false ->leaf w=7/7 wv=1 res=false inl=false ->outer w=10/10 wv=1 res=false inl=false ->rec w=5/5 wv=1 res=false inl=false L[k:v1\nk:v2]=0/0,6/6 T[k:v1\nk:v2][64]=0/0,6/6
N outer||0 flat=0/0 cum=18/18 fv=0 cv=1 ->inner w=18/18 wv=1 res=false inl=true L[k:v1\nk:v2]=0/0,6/6 T[k:v1\nk:v2][64]=0/0,6/6
N rec||0 flat=6/6 cum=6/6 fv=1 cv=1 ->outer w=1/1 wv=1 res=false inl=false
== functions idx=0 mean=true kept=true
N [prog]|/bin/prog|0 flat=5/5 cum=5/5 fv=1 cv=1
N inner||0 flat=8/8 cum=18/18 fv=1 cv=1 ->leaf w=9/9 wv=1 res=false inl=false ->rec w=1/1 wv=1 res=false inl=false L[k:v1\nk:v2]=0/0,6/6 T[k:v1\nk:v2][64]=0/0,6/6
N leaf||0 flat=16/16 cum=16/16 fv=1 cv=1 L[k:v1\nk:v2]=6/6,6/6 T[k:v1\nk:v2][64]=6/6,6/6
N main||0 flat=0/0 cum=27/27 fv=0 cv=1 ->[prog] w=5/5 wv=1 res=false inl=false ->inner w=10/10 wv=1 res=true inl=true ->leaf w=7/7 wv=1 res=false inl=false ->rec w=5/5 wv=1 res=false inl=false L[k:v1\nk:v2]=0/0,6/6 T[k:v1\nk:v2][64]=0/0,6/6
N rec||0 flat=6/6 cum=6/6 fv=1 cv=1 ->inner w=1/1 wv=1 res=true inl=true
== functions idx=1 mean=false kept=false
N [prog]|/bin/prog|0 flat=11/0 cum=11/0 fv=11 cv=11
N inner|/bin/prog|30 flat=23/0 cum=41/0 fv=23 cv=41 ->leaf w=23/0 wv=23 res=false inl=false ->outer w=23/0 wv=23 res=false inl=false ->rec w=-5/0 wv=-5 res=false inl=false L[k:v1\nk:v2]=0/0,13/0 T[k:v1\nk:v2][64]=0/0,13/0
N leaf|/bin/prog|50 flat=40/0 cum=40/0 fv=40 cv=40 L[k:v1\nk:v2]=13/0,13/0 T[k:v1\nk:v2][64]=13/0,13/0
N main|/bin/prog|10 flat=19/0 cum=71/0 fv=19 cv=71 ->[prog] w=11/0 wv=11 res=false inl=false ->leaf w=17/0 wv=17 res=false inl=false ->outer w=18/0 wv=18 res=false inl=false ->rec w=6/0 wv=6 res=false inl=false L[k:v1\nk:v2]=0/0,13/0 T[k:v1\nk:v2][64]=0/0,13/0
N outer|/bin/prog|20 flat=0/0 cum=41/0 fv=0 cv=41 ->inner w=41/0 wv=41 res=false inl=true L[k:v1\nk:v2]=0/0,13/0 T[k:v1\nk:v2][64]=0/0,13/0
N rec|/bin/prog|40 flat=1/0 cum=1/0 fv=1 cv=1 ->outer w=-5/0 wv=-5 res=false inl=false
== functions idx=1 mean=false kept=true
N [prog]|/bin/prog|0 flat=11/0 cum=11/0 fv=11 cv=11
N inner|/bin/prog|30 flat=23/0 cum=41/0 fv=23 cv=41 ->leaf w=23/0 wv=23 res=false inl=false ->rec w=-5/0 wv=-5 res=false inl=false L[k:v1\nk:v2]=0/0,13/0 T[k:v1\nk:v2][64]=0/0,13/0
N leaf|/bin/prog|50 flat=40/0 cum=40/0 fv=40 cv=40 L[k:v1\nk:v2]=13/0,13/0 T[k:v1\nk:v2][64]=13/0,13/0
N main|/bin/prog|10 flat=19/0 cum=71/0 fv=19 cv=71 ->[prog] w=11/0 wv=11 res=false inl=false ->inner w=18/0 wv=18 res=true inl=true ->leaf w=17/0 wv=17 res=false inl=false ->rec w=6/0 wv=6 res=false inl=false L[k:v1\nk:v2]=0/0,13/0 T[k:v1\nk:v2][64]=0/0,13/0
N rec|/bin/prog|40 flat=1/0 cum=1/0 fv=1 cv=1 ->inner w=-5/0 wv=-5 res=true inl=true
== functions idx=1 mean=true kept=false
N [prog]|/bin/prog|0 flat=11/5 cum=11/5 fv=2 cv=2
N inner|/bin/prog|30 flat=23/8 cum=41/18 fv=2 cv=2 ->leaf w=23/9 wv=2 res=false inl=false ->outer w=23/8 wv=2 res=false inl=false ->rec w=-5/1 wv=-5 res=false inl=false L[k:v1\nk:v2]=0/0,13/6 T[k:v1\nk:v2][64]=0/0,13/6
N leaf|/bin/prog|50 flat=40/16 cum=40/16 fv=2 cv=2 L[k:v1\nk:v2]=13/6,13/6 T[k:v1\nk:v2][64]=13/6,13/6
N main|/bin/prog|10 flat=19/0 cum=71/27 fv=19 cv=2 ->[prog] w=11/5 wv=2 res=false inl=false ->leaf w=17/7 wv=2 res=false inl=false ->outer w=18/10 wv=1 res=false inl=false ->rec w=6/5 wv=1 res=false inl=false L[k:v1\nk:v2]=0/0,13/6 T[k:v1\nk:v2][64]=0/0,13/6
N outer|/bin/prog|20 flat=0/0 cum=41/18 fv=0 cv=2 ->inner w=41/18 wv=2 res=false inl=true L[k:v1\nk:v2]=0/0,13/6 T[k:v1\nk:v2][64]=0/0,13/6
N rec|/bin/prog|40 flat=1/6 cum=1/6 fv=0 cv=0 ->outer w=-5/1 wv=-5 res=false inl=false
== functions idx=1 mean=true kept=true
N [prog]|/bin/prog|0 flat=11/5 cum=11/5 fv=2 cv=2
N inner|/bin/prog|30 flat=23/8 cum=41/18 fv=2 cv=2 ->leaf w=23/9 wv=2 res=false inl=false ->rec w=-5/1 wv=-5 res=false inl=false L[k:v1\nk:v2]=0/0,13/6 T[k:v1\nk:v2][64]=0/0,13/6
N leaf|/bin/prog|50 flat=40/16 cum=40/16 fv=2 cv=2 L[k:v1\nk:v2]=13/6,13/6 T[k:v1\nk:v2][64]=13/6,13/6
N main|/bin/prog|10 flat=19/0 cum=71/27 fv=19 cv=2 ->[prog] w=11/5 wv=2 res=false inl=false ->inner w=18/10 wv=1 res=true inl=true ->leaf w=17/7 wv=2 res=false inl=false ->rec w=6/5 wv=1 res=false inl=false L[k:v1\nk:v2]=0/0,13/6 T[k:v1\nk:v2][64]=0/0,13/6
N rec|/bin/prog|40 flat=1/6 cum=1/6 fv=0 cv=0 ->inner w=-5/1 wv=-5 res=true inl=true
== functions-noinlines idx=0 mean=false kept=false
N [prog]|/bin/prog|0 flat=5/0 cum=5/0 fv=5 cv=5
N leaf||0 flat=16/0 cum=16/0 fv=16 cv=16 L[k:v1\nk:v2]=6/0,6/0 T[k:v1\nk:v2][64]=6/0,6/0
N main||0 flat=0/0 cum=27/0 fv=0 cv=27 ->[prog] w=5/0 wv=5 res=false inl=false ->leaf w=7/0 wv=7 res=false inl=false ->outer w=10/0 wv=10 res=false inl=false ->rec w=5/0 wv=5 res=false inl=false L[k:v1\nk:v2]=0/0,6/0 T[k:v1\nk:v2][64]=0/0,6/0
N outer||0 flat=8/0 cum=18/0 fv=8 cv=18 ->leaf w=9/0 wv=9 res=false inl=false ->rec w=1/0 wv=1 res=false inl=false L[k:v1\nk:v2]=0/0,6/0 T[k:v1\nk:v2][64]=0/0,6/0
N rec||0 flat=6/0 cum=6/0 fv=6 cv=6 ->outer w=1/0 wv=1 res=false inl=false
== functions-noinlines idx=0 mean=false kept=true
N [prog]|/bin/prog|0 flat=5/0 cum=5/0 fv=5 cv=5
N leaf||0 flat=16/0 cum=16/0 fv=16 cv=16 L[k:v1\nk:v2]=6/0,6/0 T[k:v1\nk:v2][64]=6/0,6/0
N main||0 flat=0/0 cum=27/0 fv=0 cv=27 ->[prog] w=5/0 wv=5 res=false inl=false ->leaf w=16/0 wv=16 res=true inl=false ->rec w=6/0 wv=6 res=true inl=false L[k:v1\nk:v2]=0/0,6/0 T[k:v1\nk:v2][64]=0/0,6/0
N rec||0 flat=6/0 cum=6/0 fv=6 cv=6
== functions-noinlines idx=0 mean=true kept=false
N [prog]|/bin/prog|0 flat=5/5 cum=5/5 fv=1 cv=1
N leaf||0 flat=16/16 cum=16/16 fv=1 cv=1 L[k:v1\nk:v2]=6/6,6/6 T[k:v1\nk:v2][64]=6/6,6/6
N main||0 flat=0/0 cum=27/27 fv=0 cv=1 ->[prog] w=5/5 wv=1 res=false inl=false ->leaf w=7/7 wv=1 res=false inl=false ->outer w=10/10 wv=1 res=false inl=false ->rec w=5/5 wv=1 res=false inl=false L[k:v1\nk:v2]=0/0,6/6 T[k:v1\nk:v2][64]=0/0,6/6
N outer||0 flat=8/8 cum=18/18 fv=1 cv=1 ->leaf w=9/9 wv=1 res=false inl=false ->rec w=1/1 wv=1 res=false inl=false L[k:v1\nk:v2]=0/0,6/6 T[k:v1\nk:v2][64]=0/0,6/6
N rec||0 flat=6/6 cum=6/6 fv=1 cv=1 ->outer w=1/1 wv=1 res=false inl=false
== functions-noinlines idx=0 mean=true kept=true
N [prog]|/bin/prog|0 flat=5/5 cum=5/5 fv=1 cv=1
N leaf||0 flat=16/16 cum=16/16 fv=1 cv=1 L[k:v1\nk:v2]=6/6,6/6 T[k:v1\nk:v2][64]=6/6,6/6
N main||0 flat=0/0 cum=27/27 fv=0 cv=1 ->[prog] w=5/5 wv=1 res=false inl=false ->leaf w=16/16 wv=1 res=true inl=false ->rec w=6/6 wv=1 res=true inl=false L[k:v1\nk:v2]=0/0,6/6 T[k:v1\nk:v2][64]=0/0,6/6
N rec||0 flat=6/6 cum=6/6 fv=1 cv=1
== functions-noinlines idx=1 mean=false kept=false
N [prog]|/bin/prog|0 flat=11/0 cum=11/0 fv=11 cv=11
N leaf|/bin/prog|50 flat=40/0 cum=40/0 fv=40 cv=40 L[k:v1\nk:v2]=13/0,13/0 T[k:v1\nk:v2][64]=13/0,13/0
N main|/bin/prog|10 flat=19/0 cum=71/0 fv=19 cv=71 ->[prog] w=11/0 wv=11 res=false inl=false ->leaf w=17/0 wv=17 res=false inl=false ->outer w=18/0 wv=18 res=false inl=false ->rec w=6/0 wv=6 res=false inl=false L[k:v1\nk:v2]=0/0,13/0 T[k:v1\nk:v2][64]=0/0,13/0
N outer|/bin/prog|20 flat=23/0 cum=41/0 fv=23 cv=41 ->leaf w=23/0 wv=23 res=false inl=false ->rec w=-5/0 wv=-5 res=false inl=false L[k:v1\nk:v2]=0/0,13/0 T[k:v1\nk:v2][64]=0/0,13/0
N rec|/bin/prog|40 flat=1/0 cum=1/0 fv=1 cv=1 ->outer w=-5/0 wv=-5 res=false inl=false
== functions-noinlines idx=1 mean=false kept=true
N [prog]|/bin/prog|0 flat=11/0 cum=11/0 fv=11 cv=11
N leaf|/bin/prog|50 flat=40/0 cum=40/0 fv=40 cv=40 L[k:v1\nk:v2]=13/0,13/0 T[k:v1\nk:v2][64]=13/0,13/0
N main|/bin/prog|10 flat=19/0 cum=71/0 fv=19 cv=71 ->[prog] w=11/0 wv=11 res=false inl=false ->leaf w=40/0 wv=40 res=true inl=false ->rec w=1/0 wv=1 res=true inl=false L[k:v1\nk:v2]=0/0,13/0 T[k:v1\nk:v2][64]=0/0,13/0
N rec|/bin/prog|40 flat=1/0 cum=1/0 fv=1 cv=1
== functions-noinlines idx=1 mean=true kept=false
N [prog]|/bin/prog|0 flat=11/5 cum=11/5 fv=2 cv=2
N leaf|/bin/prog|50 flat=40/16 cum=40/16 fv=2 cv=2 L[k:v1\nk:v2]=13/6,13/6 T[k:v1\nk:v2][64]=13/6,13/6
N main|/bin/prog|10 flat=19/0 cum=71/27 fv=19 cv=2 ->[prog] w=11/5 wv=2 res=false inl=false ->leaf w=17/7 wv=2 res=false inl=false ->outer w=18/10 wv=1 res=false inl=false ->rec w=6/5 wv=1 res=false inl=false L[k:v1\nk:v2]=0/0,13/6 T[k:v1\nk:v2][64]=0/0,13/6
N outer|/bin/prog|20 flat=23/8 cum=41/18 fv=2 cv=2 ->leaf w=23/9 wv=2 res=false inl=false ->rec w=-5/1 wv=-5 res=false inl=false L[k:v1\nk:v2]=0/0,13/6 T[k:v1\nk:v2][64]=0/0,13/6
N rec|/bin/prog|40 flat=1/6 cum=1/6 fv=0 cv=0 ->outer w=-5/1 wv=-5 res=false inl=false
== functions-noinlines idx=1 mean=true kept=true
N [prog]|/bin/prog|0 flat=11/5 cum=11/5 fv=2 cv=2
N leaf|/bin/prog|50 flat=40/16 cum=40/16 fv=2 cv=2 L[k:v1\nk:v2]=13/6,13/6 T[k:v1\nk:v2][64]=13/6,13/6
N main|/bin/prog|10 flat=19/0 cum=71/27 fv=19 cv=2 ->[prog] w=11/5 wv=2 res=false inl=false ->leaf w=40/16 wv=2 res=true inl=false ->rec w=1/6 wv=0 res=true inl=false L[k:v1\nk:v2]=0/0,13/6 T[k:v1\nk:v2][64]=0/0,13/6
N rec|/bin/prog|40 flat=1/6 cum=1/6 fv=0 cv=0
== lines idx=0 mean=false kept=false
N [prog]|/bin/prog|0 flat=5/0 cum=5/0 fv=5 cv=5
N inner /src/inner.go:31||0 flat=8/0 cum=18/0 fv=8 cv=18 ->leaf /src/leaf.go:51 w=9/0 wv=9 res=false inl=false ->outer /src/outer.go:21 w=8/0 wv=8 res=false inl=false ->rec /src/rec.go:41 w=1/0 wv=1 res=false inl=false L[k:v1\nk:v2]=0/0,6/0 T[k:v1\nk:v2][64]=0/0,6/0
N leaf /src/leaf.go:51||0 flat=9/0 cum=16/0 fv=9 cv=16 ->leaf /src/leaf.go:52 w=7/0 wv=7 res=false inl=false L[k:v1\nk:v2]=6/0,6/0 T[k:v1\nk:v2][64]=6/0,6/0
N leaf /src/leaf.go:52||0 flat=7/0 cum=7/0 fv=7 cv=7 ->leaf /src/leaf.go:51 w=7/0 wv=7 res=false inl=false
N main /src/main.go:11||0 flat=0/0 cum=27/0 fv=0 cv=27 ->[prog] w=5/0 wv=5 res=false inl=false ->leaf /src/leaf.go:51 w=7/0 wv=7 res=false inl=false ->outer /src/outer.go:21 w=10/0 wv=10 res=false inl=false ->rec /src/rec.go:41 w=4/0 wv=4 res=false inl=false ->rec /src/rec.go:43 w=1/0 wv=1 res=false inl=false L[k:v1\nk:v2]=0/0,6/0 T[k:v1\nk:v2][64]=0/0,6/0
N outer /src/outer.go:21||0 flat=0/0 cum=18/0 fv=0 cv=18 ->inner /src/inner.go:31 w=18/0 wv=18 res=false inl=true L[k:v1\nk:v2]=0/0,6/0 T[k:v1\nk:v2][64]=0/0,6/0
N rec /src/rec.go:41||0 flat=3/0 cum=5/0 fv=3 cv=5 ->outer /src/outer.go:21 w=1/0 wv=1 res=false inl=false ->rec /src/rec.go:43 w=2/0 wv=2 res=false inl=false
N rec /src/rec.go:42||0 flat=3/0 cum=3/0 fv=3 cv=3 ->rec /src/rec.go:43 w=2/0 wv=2 res=false inl=false
N rec /src/rec.go:43||0 flat=0/0 cum=3/0 fv=0 cv=3 ->rec /src/rec.go:42 w=3/0 wv=3 res=false inl=true
== lines idx=0 mean=false kept=true
N [prog]|/bin/prog|0 flat=5/0 cum=5/0 fv=5 cv=5
N inner /src/inner.go:31||0 flat=8/0 cum=18/0 fv=8 cv=18 ->leaf /src/leaf.go:51 w=9/0 wv=9 res=false inl=false ->rec /src/rec.go:41 w=1/0 wv=1 res=false inl=false L[k:v1\nk:v2]=0/0,6/0 T[k:v1\nk:v2][64]=0/0,6/0
N leaf /src/leaf.go:51||0 flat=9/0 cum=16/0 fv=9 cv=16 ->leaf /src/leaf.go:52 w=7/0 wv=7 res=false inl=false L[k:v1\nk:v2]=6/0,6/0 T[k:v1\nk:v2][64]=6/0,6/0
N leaf /src/leaf.go:52||0 flat=7/0 cum=7/0 fv=7 cv=7 ->leaf /src/leaf.go:51 w=7/0 wv=7 res=false inl=false
N main /src/main.go:11||0 flat=0/0 cum=27/0 fv=0 cv=27 ->[prog] w=5/0 wv=5 res=false inl=false ->inner /src/inner.go:31 w=10/0 wv=10 res=true inl=true ->leaf /src/leaf.go:51 w=7/0 wv=7 res=false inl=false ->rec /src/rec.go:41 w=4/0 wv=4 res=false inl=false ->rec /src/rec.go:43 w=1/0 wv=1 res=false inl=false L[k:v1\nk:v2]=0/0,6/0 T[k:v1\nk:v2][64]=0/0,6/0
N rec /src/rec.go:41||0 flat=3/0 cum=5/0 fv=3 cv=5 ->inner /src/inner.go:31 w=1/0 wv=1 res=true inl=true ->rec /src/rec.go:43 w=2/0 wv=2 res=false inl=false
N rec /src/rec.go:42||0 flat=3/0 cum=3/0 fv=3 cv=3 ->rec /src/rec.go:43 w=2/0 wv=2 res=false inl=false
N rec /src/rec.go:43||0 flat=0/0 cum=3/0 fv=0 cv=3 ->rec /src/rec.go:42 w=3/0 wv=3 res=false inl=true
== lines idx=0 mean=true kept=false
N [prog]|/bin/prog|0 flat=5/5 cum=5/5 fv=1 cv=1
N inner /src/inner.go:31||0 flat=8/8 cum=18/18 fv=1 cv=1 ->leaf /src/leaf.go:51 w=9/9 wv=1 res=false inl=false ->outer /src/outer.go:21 w=8/8 wv=1 res=false inl=false ->rec /src/rec.go:41 w=1/1 wv=1 res=false inl=false L[k:v1\nk:v2]=0/0,6/6 T[k:v1\nk:v2][64]=0/0,6/6
N leaf /src/leaf.go:51||0 flat=9/9 cum=16/16 fv=1 cv=1 ->leaf /src/leaf.go:52 w=7/7 wv=1 res=false inl=false L[k:v1\nk:v2]=6/6,6/6 T[k:v1\nk:v2][64]=6/6,6/6
N leaf /src/leaf.go:52||0 flat=7/7 cum=7/7 fv=1 cv=1 ->leaf /src/leaf.go:51 w=7/7 wv=1 res=false inl=false
N main /src/main.go:11||0 flat=0/0 cum=27/27 fv=0 cv=1 ->[prog] w=5/5 wv=1 res=false inl=false ->leaf /src/leaf.go:51 w=7/7 wv=1 res=false inl=false ->outer /src/outer.go:21 w=10/10 wv=1 res=false inl=false ->rec /src/rec.go:41 w=4/4 wv=1 res=false inl=false ->rec /src/rec.go:43 w=1/1 wv=1 res=false inl=false L[k:v1\nk:v2]=0/0,6/6 T[k:v1\nk:v2][64]=0/0,6/6
N outer /src/outer.go:21||0 flat=0/0 cum=18/18 fv=0 cv=1 ->inner /src/inner.go:31 w=18/18 wv=1 res=false inl=true L[k:v1\nk:v2]=0/0,6/6 T[k:v1\nk:v2][64]=0/0,6/6
N rec /src/rec.go:41||0 flat=3/3 cum=5/5 fv=1 cv=1 ->outer /src/outer.go:21 w=1/1 wv=1 res=false inl=false ->rec /src/rec.go:43 w=2/2 wv=1 res=false inl=false
N rec /src/rec.go:42||0 flat=3/3 cum=3/3 fv=1 cv=1 ->rec /src/rec.go:43 w=2/2 wv=1 res=false inl=false
N rec /src/rec.go:43||0 flat=0/0 cum=3/3 fv=0 cv=1 ->rec /src/rec.go:42 w=3/3 wv=1 res=false inl=true
== lines idx=0 mean=true kept=true
N [prog]|/bin/prog|0 flat=5/5 cum=5/5 fv=1 cv=1
N inner /src/inner.go:31||0 flat=8/8 cum=18/18 fv=1 cv=1 ->leaf /src/leaf.go:51 w=9/9 wv=1 res=false inl=false ->rec /src/rec.go:41 w=1/1 wv=1 res=false inl=false L[k:v1\nk:v2]=0/0,6/6 T[k:v1\nk:v2][64]=0/0,6/6
N leaf /src/leaf.go:51||0 flat=9/9 cum=16/16 fv=1 cv=1 ->leaf /src/leaf.go:52 w=7/7 wv=1 res=false inl=false L[k:v1\nk:v2]=6/6,6/6 T[k:v1\nk:v2][64]=6/6,6/6
N leaf /src/leaf.go:52||0 flat=7/7 cum=7/7 fv=1 cv=1 ->leaf /src/leaf.go:51 w=7/7 wv=1 res=false inl=false
N main /src/main.go:11||0 flat=0/0 cum=27/27 fv=0 cv=1 ->[prog] w=5/5 wv=1 res=false inl=false ->inner /src/inner.go:31 w=10/10 wv=1 res=true inl=true ->leaf /src/leaf.go:51 w=7/7 wv=1 res=false inl=false ->rec /src/rec.go:41 w=4/4 wv=1 res=false inl=false ->rec /src/rec.go:43 w=1/1 wv=1 res=false inl=false L[k:v1\nk:v2]=0/0,6/6 T[k:v1\nk:v2][64]=0/0,6/6
N rec /src/rec.go:41||0 flat=3/3 cum=5/5 fv=1 cv=1 ->inner /src/inner.go:31 w=1/1 wv=1 res=true inl=true ->rec /src/rec.go:43 w=2/2 wv=1 res=false inl=false
N rec /src/rec.go:42||0 flat=3/3 cum=3/3 fv=1 cv=1 ->rec /src/rec.go:43 w=2/2 wv=1 res=false inl=false
N rec /src/rec.go:43||0 flat=0/0 cum=3/3 fv=0 cv=1 ->rec /src/rec.go:42 w=3/3 wv=1 res=false inl=true
== lines idx=1 mean=false kept=false
N [prog]|/bin/prog|0 flat=11/0 cum=11/0 fv=11 cv=11
N inner /src/inner.go:31|/bin/prog|30 flat=23/0 cum=41/0 fv=23 cv=41 ->leaf /src/leaf.go:51 w=23/0 wv=23 res=false inl=false ->outer /src/outer.go:21 w=23/0 wv=23 res=false inl=false ->rec /src/rec.go:41 w=-5/0 wv=-5 res=false inl=false L[k:v1\nk:v2]=0/0,13/0 T[k:v1\nk:v2][64]=0/0,13/0
N leaf /src/leaf.go:51|/bin/prog|50 flat=23/0 cum=40/0 fv=23 cv=40 ->leaf /src/leaf.go:52 w=17/0 wv=17 res=false inl=false L[k:v1\nk:v2]=13/0,13/0 T[k:v1\nk:v2][64]=13/0,13/0
N leaf /src/leaf.go:52|/bin/prog|50 flat=17/0 cum=17/0 fv=17 cv=17 ->leaf /src/leaf.go:51 w=17/0 wv=17 res=false inl=false
N main /src/main.go:11|/bin/prog|10 flat=19/0 cum=71/0 fv=19 cv=71 ->[prog] w=11/0 wv=11 res=false inl=false ->leaf /src/leaf.go:51 w=17/0 wv=17 res=false inl=false ->outer /src/outer.go:21 w=18/0 wv=18 res=false inl=false ->rec /src/rec.go:41 w=4/0 wv=4 res=false inl=false ->rec /src/rec.go:43 w=2/0 wv=2 res=false inl=false L[k:v1\nk:v2]=0/0,13/0 T[k:v1\nk:v2][64]=0/0,13/0
N outer /src/outer.go:21|/bin/prog|20 flat=0/0 cum=41/0 fv=0 cv=41 ->inner /src/inner.go:31 w=41/0 wv=41 res=false inl=true L[k:v1\nk:v2]=0/0,13/0 T[k:v1\nk:v2][64]=0/0,13/0
N rec /src/rec.go:41|/bin/prog|40 flat=2/0 cum=-1/0 fv=2 cv=-1 ->outer /src/outer.go:21 w=-5/0 wv=-5 res=false inl=false ->rec /src/rec.go:43 w=-3/0 wv=-3 res=false inl=false
N rec /src/rec.go:42|/bin/prog|40 flat=-1/0 cum=-1/0 fv=-1 cv=-1 ->rec /src/rec.go:43 w=-3/0 wv=-3 res=false inl=false
N rec /src/rec.go:43|/bin/prog|40 flat=0/0 cum=-1/0 fv=0 cv=-1 ->rec /src/rec.go:42 w=-1/0 wv=-1 res=false inl=true
== lines idx=1 mean=false kept=true
N [prog]|/bin/prog|0 flat=11/0 cum=11/0 fv=11 cv=11
N inner /src/inner.go:31|/bin/prog|30 flat=23/0 cum=41/0 fv=23 cv=41 ->leaf /src/leaf.go:51 w=23/0 wv=23 res=false inl=false ->rec /src/rec.go:41 w=-5/0 wv=-5 res=false inl=false L[k:v1\nk:v2]=0/0,13/0 T[k:v1\nk:v2][64]=0/0,13/0
N leaf /src/leaf.go:51|/bin/prog|50 flat=23/0 cum=40/0 fv=23 cv=40 ->leaf /src/leaf.go:52 w=17/0 wv=17 res=false inl=false L[k:v1\nk:v2]=13/0,13/0 T[k:v1\nk:v2][64]=13/0,13/0
N leaf /src/leaf.go:52|/bin/prog|50 flat=17/0 cum=17/0 fv=17 cv=17 ->leaf /src/leaf.go:51 w=17/0 wv=17 res=false inl=false
N main /src/main.go:11|/bin/prog|10 flat=19/0 cum=71/0 fv=19 cv=71 ->[prog] w=11/0 wv=11 res=false inl=false ->inner /src/inner.go:31 w=18/0 wv=18 res=true inl=true ->leaf /src/leaf.go:51 w=17/0 wv=17 res=false inl=false ->rec /src/rec.go:41 w=4/0 wv=4 res=false inl=false ->rec /src/rec.go:43 w=2/0 wv=2 res=false inl=false L[k:v1\nk:v2]=0/0,13/0 T[k:v1\nk:v2][64]=0/0,13/0
N rec /src/rec.go:41|/bin/prog|40 flat=2/0 cum=-1/0 fv=2 cv=-1 ->inner /src/inner.go:31 w=-5/0 wv=-5 res=true inl=true ->rec /src/rec.go:43 w=-3/0 wv=-3 res=false inl=false
N rec /src/rec.go:42|/bin/prog|40 flat=-1/0 cum=-1/0 fv=-1 cv=-1 ->rec /src/rec.go:43 w=-3/0 wv=-3 res=false inl=false
N rec /src/rec.go:43|/bin/prog|40 flat=0/0 cum=-1/0 fv=0 cv=-1 ->rec /src/rec.go:42 w=-1/0 wv=-1 res=false inl=true
== lines idx=1 mean=true kept=false
N [prog]|/bin/prog|0 flat=11/5 cum=11/5 fv=2 cv=2
N inner /src/inner.go:31|/bin/prog|30 flat=23/8 cum=41/18 fv=2 cv=2 ->leaf /src/leaf.go:51 w=23/9 wv=2 res=false inl=false ->outer /src/outer.go:21 w=23/8 wv=2 res=false inl=false ->rec /src/rec.go:41 w=-5/1 wv=-5 res=false inl=false L[k:v1\nk:v2]=0/0,13/6 T[k:v1\nk:v2][64]=0/0,13/6
N leaf /src/leaf.go:51|/bin/prog|50 flat=23/9 cum=40/16 fv=2 cv=2 ->leaf /src/leaf.go:52 w=17/7 wv=2 res=false inl=false L[k:v1\nk:v2]=13/6,13/6 T[k:v1\nk:v2][64]=13/6,13/6
N leaf /src/leaf.go:52|/bin/prog|50 flat=17/7 cum=17/7 fv=2 cv=2 ->leaf /src/leaf.go:51 w=17/7 wv=2 res=false inl=false
N main /src/main.go:11|/bin/prog|10 flat=19/0 cum=71/27 fv=19 cv=2 ->[prog] w=11/5 wv=2 res=false inl=false ->leaf /src/leaf.go:51 w=17/7 wv=2 res=false inl=false ->outer /src/outer.go:21 w=18/10 wv=1 res=false inl=false ->rec /src/rec.go:41 w=4/4 wv=1 res=false inl=false ->rec /src/rec.go:43 w=2/1 wv=2 res=false inl=false L[k:v1\nk:v2]=0/0,13/6 T[k:v1\nk:v2][64]=0/0,13/6
N outer /src/outer.go:21|/bin/prog|20 flat=0/0 cum=41/18 fv=0 cv=2 ->inner /src/inner.go:31 w=41/18 wv=2 res=false inl=true L[k:v1\nk:v2]=0/0,13/6 T[k:v1\nk:v2][64]=0/0,13/6
N rec /src/rec.go:41|/bin/prog|40 flat=2/3 cum=-1/5 fv=0 cv=0 ->outer /src/outer.go:21 w=-5/1 wv=-5 res=false inl=false ->rec /src/rec.go:43 w=-3/2 wv=-1 res=false inl=false
N rec /src/rec.go:42|/bin/prog|40 flat=-1/3 cum=-1/3 fv=0 cv=0 ->rec /src/rec.go:43 w=-3/2 wv=-1 res=false inl=false
N rec /src/rec.go:43|/bin/prog|40 flat=0/0 cum=-1/3 fv=0 cv=0 ->rec /src/rec.go:42 w=-1/3 wv=0 res=false inl=true
== lines idx=1 mean=true kept=true
N [prog]|/bin/prog|0 flat=11/5 cum=11/5 fv=2 cv=2
N inner /src/inner.go:31|/bin/prog|30 flat=23/8 cum=41/18 fv=2 cv=2 ->leaf /src/leaf.go:51 w=23/9 wv=2 res=false inl=false ->rec /src/rec.go:41 w=-5/1 wv=-5 res=false inl=false L[k:v1\nk:v2]=0/0,13/6 T[k:v1\nk:v2][64]=0/0,13/6
N leaf /src/leaf.go:51|/bin/prog|50 flat=23/9 cum=40/16 fv=2 cv=2 ->leaf /src/leaf.go:52 w=17/7 wv=2 res=false inl=false L[k:v1\nk:v2]=13/6,13/6 T[k:v1\nk:v2][64]=13/6,13/6
N leaf /src/leaf.go:52|/bin/prog|50 flat=17/7 cum=17/7 fv=2 cv=2 ->leaf /src/leaf.go:51 w=17/7 wv=2 res=false inl=false
N main /src/main.go:11|/bin/prog|10 flat=19/0 cum=71/27 fv=19 cv=2 ->[prog] w=11/5 wv=2 res=false inl=false ->inner /src/inner.go:31 w=18/10 wv=1 res=true inl=true ->leaf /src/leaf.go:51 w=17/7 wv=2 res=false inl=false ->rec /src/rec.go:41 w=4/4 wv=1 res=false inl=false ->rec /src/rec.go:43 w=2/1 wv=2 res=false inl=false L[k:v1\nk:v2]=0/0,13/6 T[k:v1\nk:v2][64]=0/0,13/6
N rec /src/rec.go:41|/bin/prog|40 flat=2/3 cum=-1/5 fv=0 cv=0 ->inner /src/inner.go:31 w=-5/1 wv=-5 res=true inl=true ->rec /src/rec.go:43 w=-3/2 wv=-1 res=false inl=false
N rec /src/rec.go:42|/bin/prog|40 flat=-1/3 cum=-1/3 fv=0 cv=0 ->rec /src/rec.go:43 w=-3/2 wv=-1 res=false inl=false
N rec /src/rec.go:43|/bin/prog|40 flat=0/0 cum=-1/3 fv=0 cv=0 ->rec /src/rec.go:42 w=-1/3 wv=0 res=false inl=true
== addresses idx=0 mean=false kept=false
N 0000000000001100 main /src/main.go:11||0 flat=0/0 cum=27/0 fv=0 cv=27 ->0000000000001200 outer /src/outer.go:21 w=10/0 wv=10 res=false inl=false ->0000000000001300 rec /src/rec.go:41 w=4/0 wv=4 res=false inl=false ->0000000000001400 [prog] w=5/0 wv=5 res=false inl=false ->0000000000001500 leaf /src/leaf.go:51 w=7/0 wv=7 res=false inl=false ->0000000000001600 rec /src/rec.go:43 w=1/0 wv=1 res=false inl=false L[k:v1\nk:v2]=0/0,6/0 T[k:v1\nk:v2][64]=0/0,6/0
N 0000000000001200 inner /src/inner.go:31||0 flat=8/0 cum=18/0 fv=8 cv=18 ->0000000000001200 outer /src/outer.go:21 w=8/0 wv=8 res=false inl=false ->0000000000001300 rec /src/rec.go:41 w=1/0 wv=1 res=false inl=false ->0000000000001500 leaf /src/leaf.go:51 w=9/0 wv=9 res=false inl=false L[k:v1\nk:v2]=0/0,6/0 T[k:v1\nk:v2][64]=0/0,6/0
N 0000000000001200 outer /src/outer.go:21||0 flat=0/0 cum=18/0 fv=0 cv=18 ->0000000000001200 inner /src/inner.go:31 w=18/0 wv=18 res=false inl=true L[k:v1\nk:v2]=0/0,6/0 T[k:v1\nk:v2][64]=0/0,6/0
N 0000000000001300 rec /src/rec.go:41||0 flat=3/0 cum=5/0 fv=3 cv=5 ->0000000000001200 outer /src/outer.go:21 w=1/0 wv=1 res=false inl=false ->0000000000001600 rec /src/rec.go:43 w=2/0 wv=2 res=false inl=false
N 0000000000001400 [prog]|/bin/prog|0 flat=5/0 cum=5/0 fv=5 cv=5
N 0000000000001500 leaf /src/leaf.go:51||0 flat=9/0 cum=16/0 fv=9 cv=16 ->0000000000001700 leaf /src/leaf.go:52 w=7/0 wv=7 res=false inl=false L[k:v1\nk:v2]=6/0,6/0 T[k:v1\nk:v2][64]=6/0,6/0
N 0000000000001600 rec /src/rec.go:42||0 flat=3/0 cum=3/0 fv=3 cv=3 ->0000000000001600 rec /src/rec.go:43 w=2/0 wv=2 res=false inl=false
N 0000000000001600 rec /src/rec.go:43||0 flat=0/0 cum=3/0 fv=0 cv=3 ->0000000000001600 rec /src/rec.go:42 w=3/0 wv=3 res=false inl=true
N 0000000000001700 leaf /src/leaf.go:52||0 flat=7/0 cum=7/0 fv=7 cv=7 ->0000000000001500 leaf /src/leaf.go:51 w=7/0 wv=7 res=false inl=false
== addresses idx=0 mean=false kept=true
N 0000000000001100 main /src/main.go:11||0 flat=0/0 cum=27/0 fv=0 cv=27 ->0000000000001200 inner /src/inner.go:31 w=10/0 wv=10 res=true inl=true ->0000000000001300 rec /src/rec.go:41 w=4/0 wv=4 res=false inl=false ->0000000000001400 [prog] w=5/0 wv=5 res=false inl=false ->0000000000001500 leaf /src/leaf.go:51 w=7/0 wv=7 res=false inl=false ->0000000000001600 rec /src/rec.go:43 w=1/0 wv=1 res=false inl=false L[k:v1\nk:v2]=0/0,6/0 T[k:v1\nk:v2][64]=0/0,6/0
N 0000000000001200 inner /src/inner.go:31||0 flat=8/0 cum=18/0 fv=8 cv=18 ->0000000000001300 rec /src/rec.go:41 w=1/0 wv=1 res=false inl=false ->0000000000001500 leaf /src/leaf.go:51 w=9/0 wv=9 res=false inl=false L[k:v1\nk:v2]=0/0,6/0 T[k:v1\nk:v2][64]=0/0,6/0
N 0000000000001300 rec /src/rec.go:41||0 flat=3/0 cum=5/0 fv=3 cv=5 ->0000000000001200 inner /src/inner.go:31 w=1/0 wv=1 res=true inl=true ->0000000000001600 rec /src/rec.go:43 w=2/0 wv=2 res=false inl=false
N 0000000000001400 [prog]|/bin/prog|0 flat=5/0 cum=5/0 fv=5 cv=5
N 0000000000001500 leaf /src/leaf.go:51||0 flat=9/0 cum=16/0 fv=9 cv=16 ->0000000000001700 leaf /src/leaf.go:52 w=7/0 wv=7 res=false inl=false L[k:v1\nk:v2]=6/0,6/0 T[k:v1\nk:v2][64]=6/0,6/0
N 0000000000001600 rec /src/rec.go:42||0 flat=3/0 cum=3/0 fv=3 cv=3 ->0000000000001600 rec /src/rec.go:43 w=2/0 wv=2 res=false inl=false
N 0000000000001600 rec /src/rec.go:43||0 flat=0/0 cum=3/0 fv=0 cv=3 ->0000000000001600 rec /src/rec.go:42 w=3/0 wv=3 res=false inl=true
N 0000000000001700 leaf /src/leaf.go:52||0 flat=7/0 cum=7/0 fv=7 cv=7 ->0000000000001500 leaf /src/leaf.go:51 w=7/0 wv=7 res=false inl=false
== addresses idx=0 mean=true kept=false
N 0000000000001100 main /src/main.go:11||0 flat=0/0 cum=27/27 fv=0 cv=1 ->0000000000001200 outer /src/outer.go:21 w=10/10 wv=1 res=false inl=false ->0000000000001300 rec /src/rec.go:41 w=4/4 wv=1 res=false inl=false ->0000000000001400 [prog] w=5/5 wv=1 res=false inl=false ->0000000000001500 leaf /src/leaf.go:51 w=7/7 wv=1 res=false inl=false ->0000000000001600 rec /src/rec.go:43 w=1/1 wv=1 res=false inl=false L[k:v1\nk:v2]=0/0,6/6 T[k:v1\nk:v2][64]=0/0,6/6
N 0000000000001200 inner /src/inner.go:31||0 flat=8/8 cum=18/18 fv=1 cv=1 ->0000000000001200 outer /src/outer.go:21 w=8/8 wv=1 res=false inl=false ->0000000000001300 rec /src/rec.go:41 w=1/1 wv=1 res=false inl=false ->0000000000001500 leaf /src/leaf.go:51 w=9/9 wv=1 res=false inl=false L[k:v1\nk:v2]=0/0,6/6 T[k:v1\nk:v2][64]=0/0,6/6
N 0000000000001200 outer /src/outer.go:21||0 flat=0/0 cum=18/18 fv=0 cv=1 ->0000000000001200 inner /src/inner.go:31 w=18/18 wv=1 res=false inl=true L[k:v1\nk:v2]=0/0,6/6 T[k:v1\nk:v2][64]=0/0,6/6
N 0000000000001300 rec /src/rec.go:41||0 flat=3/3 cum=5/5 fv=1 cv=1 ->0000000000001200 outer /src/outer.go:21 w=1/1 wv=1 res=false inl=false ->0000000000001600 rec /src/rec.go:43 w=2/2 wv=1 res=false inl=false
N 0000000000001400 [prog]|/bin/prog|0 flat=5/5 cum=5/5 fv=1 cv=1
N 0000000000001500 leaf /src/leaf.go:51||0 flat=9/9 cum=16/16 fv=1 cv=1 ->0000000000001700 leaf /src/leaf.go:52 w=7/7 wv=1 res=false inl=false L[k:v1\nk:v2]=6/6,6/6 T[k:v1\nk:v2][64]=6/6,6/6
N 0000000000001600 rec /src/rec.go:42||0 flat=3/3 cum=3/3 fv=1 cv=1 ->0000000000001600 rec /src/rec.go:43 w=2/2 wv=1 res=false inl=false
N 0000000000001600 rec /src/rec.go:43||0 flat=0/0 cum=3/3 fv=0 cv=1 ->0000000000001600 rec /src/rec.go:42 w=3/3 wv=1 res=false inl=true
N 0000000000001700 leaf /src/leaf.go:52||0 flat=7/7 cum=7/7 fv=1 cv=1 ->0000000000001500 leaf /src/leaf.go:51 w=7/7 wv=1 res=false inl=false
== addresses idx=0 mean=true kept=true
N 0000000000001100 main /src/main.go:11||0 flat=0/0 cum=27/27 fv=0 cv=1 ->0000000000001200 inner /src/inner.go:31 w=10/10 wv=1 res=true inl=true ->0000000000001300 rec /src/rec.go:41 w=4/4 wv=1 res=false inl=false ->0000000000001400 [prog] w=5/5 wv=1 res=false inl=false ->0000000000001500 leaf /src/leaf.go:51 w=7/7 wv=1 res=false inl=false ->0000000000001600 rec /src/rec.go:43 w=1/1 wv=1 res=false inl=false L[k:v1\nk:v2]=0/0,6/6 T[k:v1\nk:v2][64]=0/0,6/6
N 0000000000001200 inner /src/inner.go:31||0 flat=8/8 cum=18/18 fv=1 cv=1 ->0000000000001300 rec /src/rec.go:41 w=1/1 wv=1 res=false inl=false ->0000000000001500 leaf /src/leaf.go:51 w=9/9 wv=1 res=false inl=false L[k:v1\nk:v2]=0/0,6/6 T[k:v1\nk:v2][64]=0/0,6/6
N 0000000000001300 rec /src/rec.go:41||0 flat=3/3 cum=5/5 fv=1 cv=1 ->0000000000001200 inner /src/inner.go:31 w=1/1 wv=1 res=true inl=true ->0000000000001600 rec /src/rec.go:43 w=2/2 wv=1 res=false inl=false
N 0000000000001400 [prog]|/bin/prog|0 flat=5/5 cum=5/5 fv=1 cv=1
N 0000000000001500 leaf /src/leaf.go:51||0 flat=9/9 cum=16/16 fv=1 cv=1 ->0000000000001700 leaf /src/leaf.go:52 w=7/7 wv=1 res=false inl=false L[k:v1\nk:v2]=6/6,6/6 T[k:v1\nk:v2][64]=6/6,6/6
N 0000000000001600 rec /src/rec.go:42||0 flat=3/3 cum=3/3 fv=1 cv=1 ->0000000000001600 rec /src/rec.go:43 w=2/2 wv=1 res=false inl=false
N 0000000000001600 rec /src/rec.go:43||0 flat=0/0 cum=3/3 fv=0 cv=1 ->0000000000001600 rec /src/rec.go:42 w=3/3 wv=1 res=false inl=true
N 0000000000001700 leaf /src/leaf.go:52||0 flat=7/7 cum=7/7 fv=1 cv=1 ->0000000000001500 leaf /src/leaf.go:51 w=7/7 wv=1 res=false inl=false
== addresses idx=1 mean=false kept=false
N 0000000000001100 main /src/main.go:11|/bin/prog|10 flat=19/0 cum=71/0 fv=19 cv=71 ->0000000000001200 outer /src/outer.go:21 w=18/0 wv=18 res=false inl=false ->0000000000001300 rec /src/rec.go:41 w=4/0 wv=4 res=false inl=false ->0000000000001400 [prog] w=11/0 wv=11 res=false inl=false ->0000000000001500 leaf /src/leaf.go:51 w=17/0 wv=17 res=false inl=false ->0000000000001600 rec /src/rec.go:43 w=2/0 wv=2 res=false inl=false L[k:v1\nk:v2]=0/0,13/0 T[k:v1\nk:v2][64]=0/0,13/0
N 0000000000001200 inner /src/inner.go:31|/bin/prog|30 flat=23/0 cum=41/0 fv=23 cv=41 ->0000000000001200 outer /src/outer.go:21 w=23/0 wv=23 res=false inl=false ->0000000000001300 rec /src/rec.go:41 w=-5/0 wv=-5 res=false inl=false ->0000000000001500 leaf /src/leaf.go:51 w=23/0 wv=23 res=false inl=false L[k:v1\nk:v2]=0/0,13/0 T[k:v1\nk:v2][64]=0/0,13/0
N 0000000000001200 outer /src/outer.go:21|/bin/prog|20 flat=0/0 cum=41/0 fv=0 cv=41 ->0000000000001200 inner /src/inner.go:31 w=41/0 wv=41 res=false inl=true L[k:v1\nk:v2]=0/0,13/0 T[k:v1\nk:v2][64]=0/0,13/0
N 0000000000001300 rec /src/rec.go:41|/bin/prog|40 flat=2/0 cum=-1/0 fv=2 cv=-1 ->0000000000001200 outer /src/outer.go:21 w=-5/0 wv=-5 res=false inl=false ->0000000000001600 rec /src/rec.go:43 w=-3/0 wv=-3 res=false inl=false
N 0000000000001400 [prog]|/bin/prog|0 flat=11/0 cum=11/0 fv=11 cv=11
N 0000000000001500 leaf /src/leaf.go:51|/bin/prog|50 flat=23/0 cum=40/0 fv=23 cv=40 ->0000000000001700 leaf /src/leaf.go:52 w=17/0 wv=17 res=false inl=false L[k:v1\nk:v2]=13/0,13/0 T[k:v1\nk:v2][64]=13/0,13/0
N 0000000000001600 rec /src/rec.go:42|/bin/prog|40 flat=-1/0 cum=-1/0 fv=-1 cv=-1 ->0000000000001600 rec /src/rec.go:43 w=-3/0 wv=-3 res=false inl=false
N 0000000000001600 rec /src/rec.go:43|/bin/prog|40 flat=0/0 cum=-1/0 fv=0 cv=-1 ->0000000000001600 rec /src/rec.go:42 w=-1/0 wv=-1 res=false inl=true
N 0000000000001700 leaf /src/leaf.go:52|/bin/prog|50 flat=17/0 cum=17/0 fv=17 cv=17 ->0000000000001500 leaf /src/leaf.go:51 w=17/0 wv=17 res=false inl=false
== addresses idx=1 mean=false kept=true
N 0000000000001100 main /src/main.go:11|/bin/prog|10 flat=19/0 cum=71/0 fv=19 cv=71 ->0000000000001200 inner /src/inner.go:31 w=18/0 wv=18 res=true inl=true ->0000000000001300 rec /src/rec.go:41 w=4/0 wv=4 res=false inl=false ->0000000000001400 [prog] w=11/0 wv=11 res=false inl=false ->0000000000001500 leaf /src/leaf.go:51 w=17/0 wv=17 res=false inl=false ->0000000000001600 rec /src/rec.go:43 w=2/0 wv=2 res=false inl=false L[k:v1\nk:v2]=0/0,13/0 T[k:v1\nk:v2][64]=0/0,13/0
N 0000000000001200 inner /src/inner.go:31|/bin/prog|30 flat=23/0 cum=41/0 fv=23 cv=41 ->0000000000001300 rec /src/rec.go:41 w=-5/0 wv=-5 res=false inl=false ->0000000000001500 leaf /src/leaf.go:51 w=23/0 wv=23 res=false inl=false L[k:v1\nk:v2]=0/0,13/0 T[k:v1\nk:v2][64]=0/0,13/0
N 0000000000001300 rec /src/rec.go:41|/bin/prog|40 flat=2/0 cum=-1/0 fv=2 cv=-1 ->0000000000001200 inner /src/inner.go:31 w=-5/0 wv=-5 res=true inl=true ->0000000000001600 rec /src/rec.go:43 w=-3/0 wv=-3 res=false inl=false
N 0000000000001400 [prog]|/bin/prog|0 flat=11/0 cum=11/0 fv=11 cv=11
N 0000000000001500 leaf /src/leaf.go:51|/bin/prog|50 flat=23/0 cum=40/0 fv=23 cv=40 ->0000000000001700 leaf /src/leaf.go:52 w=17/0 wv=17 res=false inl=false L[k:v1\nk:v2]=13/0,13/0 T[k:v1\nk:v2][64]=13/0,13/0
N 0000000000001600 rec /src/rec.go:42|/bin/prog|40 flat=-1/0 cum=-1/0 fv=-1 cv=-1 ->0000000000001600 rec /src/rec.go:43 w=-3/0 wv=-3 res=false inl=false
N 0000000000001600 rec /src/rec.go:43|/bin/prog|40 flat=0/0 cum=-1/0 fv=0 cv=-1 ->0000000000001600 rec /src/rec.go:42 w=-1/0 wv=-1 res=false inl=true
N 0000000000001700 leaf /src/leaf.go:52|/bin/prog|50 flat=17/0 cum=17/0 fv=17 cv=17 ->0000000000001500 leaf /src/leaf.go:51 w=17/0 wv=17 res=false inl=false
== addresses idx=1 mean=true kept=false
N 0000000000001100 main /src/main.go:11|/bin/prog|10 flat=19/0 cum=71/27 fv=19 cv=2 ->0000000000001200 outer /src/outer.go:21 w=18/10 wv=1 res=false inl=false ->0000000000001300 rec /src/rec.go:41 w=4/4 wv=1 res=false inl=false ->0000000000001400 [prog] w=11/5 wv=2 res=false inl=false ->0000000000001500 leaf /src/leaf.go:51 w=17/7 wv=2 res=false inl=false ->0000000000001600 rec /src/rec.go:43 w=2/1 wv=2 res=false inl=false L[k:v1\nk:v2]=0/0,13/6 T[k:v1\nk:v2][64]=0/0,13/6
N 0000000000001200 inner /src/inner.go:31|/bin/prog|30 flat=23/8 cum=41/18 fv=2 cv=2 ->0000000000001200 outer /src/outer.go:21 w=23/8 wv=2 res=false inl=false ->0000000000001300 rec /src/rec.go:41 w=-5/1 wv=-5 res=false inl=false ->0000000000001500 leaf /src/leaf.go:51 w=23/9 wv=2 res=false inl=false L[k:v1\nk:v2]=0/0,13/6 T[k:v1\nk:v2][64]=0/0,13/6
N 0000000000001200 outer /src/outer.go:21|/bin/prog|20 flat=0/0 cum=41/18 fv=0 cv=2 ->0000000000001200 inner /src/inner.go:31 w=41/18 wv=2 res=false inl=true L[k:v1\nk:v2]=0/0,13/6 T[k:v1\nk:v2][64]=0/0,13/6
N 0000000000001300 rec /src/rec.go:41|/bin/prog|40 flat=2/3 cum=-1/5 fv=0 cv=0 ->0000000000001200 outer /src/outer.go:21 w=-5/1 wv=-5 res=false inl=false ->0000000000001600 rec /src/rec.go:43 w=-3/2 wv=-1 res=false inl=false
N 0000000000001400 [prog]|/bin/prog|0 flat=11/5 cum=11/5 fv=2 cv=2
N 0000000000001500 leaf /src/leaf.go:51|/bin/prog|50 flat=23/9 cum=40/16 fv=2 cv=2 ->0000000000001700 leaf /src/leaf.go:52 w=17/7 wv=2 res=false inl=false L[k:v1\nk:v2]=13/6,13/6 T[k:v1\nk:v2][64]=13/6,13/6
N 0000000000001600 rec /src/rec.go:42|/bin/prog|40 flat=-1/3 cum=-1/3 fv=0 cv=0 ->0000000000001600 rec /src/rec.go:43 w=-3/2 wv=-1 res=false inl=false
N 0000000000001600 rec /src/rec.go:43|/bin/prog|40 flat=0/0 cum=-1/3 fv=0 cv=0 ->0000000000001600 rec /src/rec.go:42 w=-1/3 wv=0 res=false inl=true
N 0000000000001700 leaf /src/leaf.go:52|/bin/prog|50 flat=17/7 cum=17/7 fv=2 cv=2 ->0000000000001500 leaf /src/leaf.go:51 w=17/7 wv=2 res=false inl=false
== addresses idx=1 mean=true kept=true
N 0000000000001100 main /src/main.go:11|/bin/prog|10 flat=19/0 cum=71/27 fv=19 cv=2 ->0000000000001200 inner /src/inner.go:31 w=18/10 wv=1 res=true inl=true ->0000000000001300 rec /src/rec.go:41 w=4/4 wv=1 res=false inl=false ->0000000000001400 [prog] w=11/5 wv=2 res=false inl=false ->0000000000001500 leaf /src/leaf.go:51 w=17/7 wv=2 res=false inl=false ->0000000000001600 rec /src/rec.go:43 w=2/1 wv=2 res=false inl=false L[k:v1\nk:v2]=0/0,13/6 T[k:v1\nk:v2][64]=0/0,13/6
N 0000000000001200 inner /src/inner.go:31|/bin/prog|30 flat=23/8 cum=41/18 fv=2 cv=2 ->0000000000001300 rec /src/rec.go:41 w=-5/1 wv=-5 res=false inl=false ->0000000000001500 leaf /src/leaf.go:51 w=23/9 wv=2 res=false inl=false L[k:v1\nk:v2]=0/0,13/6 T[k:v1\nk:v2][64]=0/0,13/6
N 0000000000001300 rec /src/rec.go:41|/bin/prog|40 flat=2/3 cum=-1/5 fv=0 cv=0 ->0000000000001200 inner /src/inner.go:31 w=-5/1 wv=-5 res=true inl=true ->0000000000001600 rec /src/rec.go:43 w=-3/2 wv=-1 res=false inl=false
N 0000000000001400 [prog]|/bin/prog|0 flat=11/5 cum=11/5 fv=2 cv=2
N 0000000000001500 leaf /src/leaf.go:51|/bin/prog|50 flat=23/9 cum=40/16 fv=2 cv=2 ->0000000000001700 leaf /src/leaf.go:52 w=17/7 wv=2 res=false inl=false L[k:v1\nk:v2]=13/6,13/6 T[k:v1\nk:v2][64]=13/6,13/6
N 0000000000001600 rec /src/rec.go:42|/bin/prog|40 flat=-1/3 cum=-1/3 fv=0 cv=0 ->0000000000001600 rec /src/rec.go:43 w=-3/2 wv=-1 res=false inl=false
N 0000000000001600 rec /src/rec.go:43|/bin/prog|40 flat=0/0 cum=-1/3 fv=0 cv=0 ->0000000000001600 rec /src/rec.go:42 w=-1/3 wv=0 res=false inl=true
N 0000000000001700 leaf /src/leaf.go:52|/bin/prog|50 flat=17/7 cum=17/7 fv=2 cv=2 ->0000000000001500 leaf /src/leaf.go:51 w=17/7 wv=2 res=false inl=false
== files idx=0 mean=false kept=false
N /src/inner.go|/bin/prog|30 flat=8/0 cum=18/0 fv=8 cv=18 ->/src/leaf.go w=9/0 wv=9 res=false inl=false ->/src/outer.go w=8/0 wv=8 res=false inl=false ->/src/rec.go w=1/0 wv=1 res=false inl=false L[k:v1\nk:v2]=0/0,6/0 T[k:v1\nk:v2][64]=0/0,6/0
N /src/leaf.go|/bin/prog|50 flat=16/0 cum=16/0 fv=16 cv=16 L[k:v1\nk:v2]=6/0,6/0 T[k:v1\nk:v2][64]=6/0,6/0
N /src/main.go|/bin/prog|10 flat=0/0 cum=27/0 fv=0 cv=27 ->/src/leaf.go w=7/0 wv=7 res=false inl=false ->/src/outer.go w=10/0 wv=10 res=false inl=false ->/src/rec.go w=5/0 wv=5 res=false inl=false ->[prog] w=5/0 wv=5 res=false inl=false L[k:v1\nk:v2]=0/0,6/0 T[k:v1\nk:v2][64]=0/0,6/0
N /src/outer.go|/bin/prog|20 flat=0/0 cum=18/0 fv=0 cv=18 ->/src/inner.go w=18/0 wv=18 res=false inl=true L[k:v1\nk:v2]=0/0,6/0 T[k:v1\nk:v2][64]=0/0,6/0
N /src/rec.go|/bin/prog|40 flat=6/0 cum=6/0 fv=6 cv=6 ->/src/outer.go w=1/0 wv=1 res=false inl=false
N [prog]|/bin/prog|0 flat=5/0 cum=5/0 fv=5 cv=5
== files idx=0 mean=false kept=true
N /src/inner.go|/bin/prog|30 flat=8/0 cum=18/0 fv=8 cv=18 ->/src/leaf.go w=9/0 wv=9 res=false inl=false ->/src/outer.go w=8/0 wv=8 res=false inl=false ->/src/rec.go w=1/0 wv=1 res=false inl=false L[k:v1\nk:v2]=0/0,6/0 T[k:v1\nk:v2][64]=0/0,6/0
N /src/leaf.go|/bin/prog|50 flat=16/0 cum=16/0 fv=16 cv=16 L[k:v1\nk:v2]=6/0,6/0 T[k:v1\nk:v2][64]=6/0,6/0
N /src/main.go|/bin/prog|10 flat=0/0 cum=27/0 fv=0 cv=27 ->/src/leaf.go w=7/0 wv=7 res=false inl=false ->/src/outer.go w=10/0 wv=10 res=false inl=false ->/src/rec.go w=5/0 wv=5 res=false inl=false ->[prog] w=5/0 wv=5 res=false inl=false L[k:v1\nk:v2]=0/0,6/0 T[k:v1\nk:v2][64]=0/0,6/0
N /src/outer.go|/bin/prog|20 flat=0/0 cum=18/0 fv=0 cv=18 ->/src/inner.go w=18/0 wv=18 res=false inl=true L[k:v1\nk:v2]=0/0,6/0 T[k:v1\nk:v2][64]=0/0,6/0
N /src/rec.go|/bin/prog|40 flat=6/0 cum=6/0 fv=6 cv=6 ->/src/outer.go w=1/0 wv=1 res=false inl=false
N [prog]|/bin/prog|0 flat=5/0 cum=5/0 fv=5 cv=5
== files idx=0 mean=true kept=false
N /src/inner.go|/bin/prog|30 flat=8/8 cum=18/18 fv=1 cv=1 ->/src/leaf.go w=9/9 wv=1 res=false inl=false ->/src/outer.go w=8/8 wv=1 res=false inl=false ->/src/rec.go w=1/1 wv=1 res=false inl=false L[k:v1\nk:v2]=0/0,6/6 T[k:v1\nk:v2][64]=0/0,6/6
N /src/leaf.go|/bin/prog|50 flat=16/16 cum=16/16 fv=1 cv=1 L[k:v1\nk:v2]=6/6,6/6 T[k:v1\nk:v2][64]=6/6,6/6
N /src/main.go|/bin/prog|10 flat=0/0 cum=27/27 fv=0 cv=1 ->/src/leaf.go w=7/7 wv=1 res=false inl=false ->/src/outer.go w=10/10 wv=1 res=false inl=false ->/src/rec.go w=5/5 wv=1 res=false inl=false ->[prog] w=5/5 wv=1 res=false inl=false L[k:v1\nk:v2]=0/0,6/6 T[k:v1\nk:v2][64]=0/0,6/6
N /src/outer.go|/bin/prog|20 flat=0/0 cum=18/18 fv=0 cv=1 ->/src/inner.go w=18/18 wv=1 res=false inl=true L[k:v1\nk:v2]=0/0,6/6 T[k:v1\nk:v2][64]=0/0,6/6
N /src/rec.go|/bin/prog|40 flat=6/6 cum=6/6 fv=1 cv=1 ->/src/outer.go w=1/1 wv=1 res=false inl=false
N [prog]|/bin/prog|0 flat=5/5 cum=5/5 fv=1 cv=1
== files idx=0 mean=true kept=true
N /src/inner.go|/bin/prog|30 flat=8/8 cum=18/18 fv=1 cv=1 ->/src/leaf.go w=9/9 wv=1 res=false inl=false ->/src/outer.go w=8/8 wv=1 res=false inl=false ->/src/rec.go w=1/1 wv=1 res=false inl=false L[k:v1\nk:v2]=0/0,6/6 T[k:v1\nk:v2][64]=0/0,6/6
N /src/leaf.go|/bin/prog|50 flat=16/16 cum=16/16 fv=1 cv=1 L[k:v1\nk:v2]=6/6,6/6 T[k:v1\nk:v2][64]=6/6,6/6
N /src/main.go|/bin/prog|10 flat=0/0 cum=27/27 fv=0 cv=1 ->/src/leaf.go w=7/7 wv=1 res=false inl=false ->/src/outer.go w=10/10 wv=1 res=false inl=false ->/src/rec.go w=5/5 wv=1 res=false inl=false ->[prog] w=5/5 wv=1 res=false inl=false L[k:v1\nk:v2]=0/0,6/6 T[k:v1\nk:v2][64]=0/0,6/6
N /src/outer.go|/bin/prog|20 flat=0/0 cum=18/18 fv=0 cv=1 ->/src/inner.go w=18/18 wv=1 res=false inl=true L[k:v1\nk:v2]=0/0,6/6 T[k:v1\nk:v2][64]=0/0,6/6
N /src/rec.go|/bin/prog|40 flat=6/6 cum=6/6 fv=1 cv=1 ->/src/outer.go w=1/1 wv=1 res=false inl=false
N [prog]|/bin/prog|0 flat=5/5 cum=5/5 fv=1 cv=1
== files idx=1 mean=false kept=false
N /src/inner.go|/bin/prog|30 flat=23/0 cum=41/0 fv=23 cv=41 ->/src/leaf.go w=23/0 wv=23 res=false inl=false ->/src/outer.go w=23/0 wv=23 res=false inl=false ->/src/rec.go w=-5/0 wv=-5 res=false inl=false L[k:v1\nk:v2]=0/0,13/0 T[k:v1\nk:v2][64]=0/0,13/0
N /src/leaf.go|/bin/prog|50 flat=40/0 cum=40/0 fv=40 cv=40 L[k:v1\nk:v2]=13/0,13/0 T[k:v1\nk:v2][64]=13/0,13/0
N /src/main.go|/bin/prog|10 flat=19/0 cum=71/0 fv=19 cv=71 ->/src/leaf.go w=17/0 wv=17 res=false inl=false ->/src/outer.go w=18/0 wv=18 res=false inl=false ->/src/rec.go w=6/0 wv=6 res=false inl=false ->[prog] w=11/0 wv=11 res=false inl=false L[k:v1\nk:v2]=0/0,13/0 T[k:v1\nk:v2][64]=0/0,13/0
N /src/outer.go|/bin/prog|20 flat=0/0 cum=41/0 fv=0 cv=41 ->/src/inner.go w=41/0 wv=41 res=false inl=true L[k:v1\nk:v2]=0/0,13/0 T[k:v1\nk:v2][64]=0/0,13/0
N /src/rec.go|/bin/prog|40 flat=1/0 cum=1/0 fv=1 cv=1 ->/src/outer.go w=-5/0 wv=-5 res=false inl=false
N [prog]|/bin/prog|0 flat=11/0 cum=11/0 fv=11 cv=11
== files idx=1 mean=false kept=true
N /src/inner.go|/bin/prog|30 flat=23/0 cum=41/0 fv=23 cv=41 ->/src/leaf.go w=23/0 wv=23 res=false inl=false ->/src/outer.go w=23/0 wv=23 res=false inl=false ->/src/rec.go w=-5/0 wv=-5 res=false inl=false L[k:v1\nk:v2]=0/0,13/0 T[k:v1\nk:v2][64]=0/0,13/0
N /src/leaf.go|/bin/prog|50 flat=40/0 cum=40/0 fv=40 cv=40 L[k:v1\nk:v2]=13/0,13/0 T[k:v1\nk:v2][64]=13/0,13/0
N /src/main.go|/bin/prog|10 flat=19/0 cum=71/0 fv=19 cv=71 ->/src/leaf.go w=17/0 wv=17 res=false inl=false ->/src/outer.go w=18/0 wv=18 res=false inl=false ->/src/rec.go w=6/0 wv=6 res=false inl=false ->[prog] w=11/0 wv=11 res=false inl=false L[k:v1\nk:v2]=0/0,13/0 T[k:v1\nk:v2][64]=0/0,13/0
N /src/outer.go|/bin/prog|20 flat=0/0 cum=41/0 fv=0 cv=41 ->/src/inner.go w=41/0 wv=41 res=false inl=true L[k:v1\nk:v2]=0/0,13/0 T[k:v1\nk:v2][64]=0/0,13/0
N /src/rec.go|/bin/prog|40 flat=1/0 cum=1/0 fv=1 cv=1 ->/src/outer.go w=-5/0 wv=-5 res=false inl=false
N [prog]|/bin/prog|0 flat=11/0 cum=11/0 fv=11 cv=11
== files idx=1 mean=true kept=false
N /src/inner.go|/bin/prog|30 flat=23/8 cum=41/18 fv=2 cv=2 ->/src/leaf.go w=23/9 wv=2 res=false inl=false ->/src/outer.go w=23/8 wv=2 res=false inl=false ->/src/rec.go w=-5/1 wv=-5 res=false inl=false L[k:v1\nk:v2]=0/0,13/6 T[k:v1\nk:v2][64]=0/0,13/6
N /src/leaf.go|/bin/prog|50 flat=40/16 cum=40/16 fv=2 cv=2 L[k:v1\nk:v2]=13/6,13/6 T[k:v1\nk:v2][64]=13/6,13/6
N /src/main.go|/bin/prog|10 flat=19/0 cum=71/27 fv=19 cv=2 ->/src/leaf.go w=17/7 wv=2 res=false inl=false ->/src/outer.go w=18/10 wv=1 res=false inl=false ->/src/rec.go w=6/5 wv=1 res=false inl=false ->[prog] w=11/5 wv=2 res=false inl=false L[k:v1\nk:v2]=0/0,13/6 T[k:v1\nk:v2][64]=0/0,13/6
N /src/outer.go|/bin/prog|20 flat=0/0 cum=41/18 fv=0 cv=2 ->/src/inner.go w=41/18 wv=2 res=false inl=true L[k:v1\nk:v2]=0/0,13/6 T[k:v1\nk:v2][64]=0/0,13/6
N /src/rec.go|/bin/prog|40 flat=1/6 cum=1/6 fv=0 cv=0 ->/src/outer.go w=-5/1 wv=-5 res=false inl=false
N [prog]|/bin/prog|0 flat=11/5 cum=11/5 fv=2 cv=2
== files idx=1 mean=true kept=true
N /src/inner.go|/bin/prog|30 flat=23/8 cum=41/18 fv=2 cv=2 ->/src/leaf.go w=23/9 wv=2 res=false inl=false ->/src/outer.go w=23/8 wv=2 res=false inl=false ->/src/rec.go w=-5/1 wv=-5 res=false inl=false L[k:v1\nk:v2]=0/0,13/6 T[k:v1\nk:v2][64]=0/0,13/6
N /src/leaf.go|/bin/prog|50 flat=40/16 cum=40/16 fv=2 cv=2 L[k:v1\nk:v2]=13/6,13/6 T[k:v1\nk:v2][64]=13/6,13/6
N /src/main.go|/bin/prog|10 flat=19/0 cum=71/27 fv=19 cv=2 ->/src/leaf.go w=17/7 wv=2 res=false inl=false ->/src/outer.go w=18/10 wv=1 res=false inl=false ->/src/rec.go w=6/5 wv=1 res=false inl=false ->[prog] w=11/5 wv=2 res=false inl=false L[k:v1\nk:v2]=0/0,13/6 T[k:v1\nk:v2][64]=0/0,13/6
N /src/outer.go|/bin/prog|20 flat=0/0 cum=41/18 fv=0 cv=2 ->/src/inner.go w=41/18 wv=2 res=false inl=true L[k:v1\nk:v2]=0/0,13/6 T[k:v1\nk:v2][64]=0/0,13/6
N /src/rec.go|/bin/prog|40 flat=1/6 cum=1/6 fv=0 cv=0 ->/src/outer.go w=-5/1 wv=-5 res=false inl=false
N [prog]|/bin/prog|0 flat=11/5 cum=11/5 fv=2 cv=2
`
