package driver

import (
	"fmt"
	"os"
	"strings"
	"testing"

	"github.com/google/pprof/profile"
)

// zzEquivAUI is a minimal plugin.UI that records PrintErr output.
type zzEquivAUI struct{ errs []string }

func (u *zzEquivAUI) ReadLine(string) (string, error)     { return "", fmt.Errorf("no input") }
func (u *zzEquivAUI) Print(...interface{})                {}
func (u *zzEquivAUI) PrintErr(args ...interface{})        { u.errs = append(u.errs, fmt.Sprint(args...)) }
func (u *zzEquivAUI) IsTerminal() bool                    { return false }
func (u *zzEquivAUI) WantBrowser() bool                   { return false }
func (u *zzEquivAUI) SetAutoComplete(func(string) string) {}

func zzEquivASamples() []*profile.Sample {
	return []*profile.Sample{
		{NumLabel: map[string][]int64{"bytes": {32 * 1024}}, Label: map[string][]string{"k": {"v1"}}},
		{NumLabel: map[string][]int64{"bytes": {64 * 1024, 1}}, Label: map[string][]string{"k": {"v2", "w"}, "x": {"y"}}},
		{NumLabel: map[string][]int64{"bytes": {4 * 1024 * 1024}}},
		{NumLabel: map[string][]int64{"latency": {1500}}, Label: map[string][]string{"x": {"k:v1"}}},
		{NumLabel: map[string][]int64{"latency": {-3}, "n": {10}}},
		{NumLabel: map[string][]int64{"n": {9223372036854775807}}},
		{NumLabel: map[string][]int64{"n": {-9223372036854775808}}},
		{NumLabel: map[string][]int64{"": {0}}, Label: map[string][]string{"": {""}}},
		{},
	}
}

var zzEquivAFilters = []string{
	"", "32kb", ":64kb", "4mb:", "12kb:64mb", "32kb:", "1:10", "10", "-3", "+10", ":-3ms", "1s:2s",
	"1500ms", "1us:2s", "1kb:2s", "bytes=32kb", "bytes=:64kb", "bytes=1:", "latency=1s:", "latency=1500",
	"n=10", "n=9223372036854775807", "n=9223372036854775808", "99999999999999999999", ":99999999999999999999",
	"1:99999999999999999999", "1kb:99999999999999999999x", "-9223372036854775808", "-9223372036854775809:",
	"k=v1", "k=v.", "k=v1,w", "k:v1", "k:v1,x:y", "v1", "x=k:v1", "=", "=1", "a=b=c", "k=", "k==", "[", "k=[",
	"k=v1,[", "1:2:3", "1kb:2kb:", ":1:", "::", ":", "1 kb", "1kb,2kb", "1xyz", "1xyz:2xyz", "1xyz:2abc",
	"1kb:2", "1:2kb", "0", "0:", ":0", "=0", "=:0", "12kb:64mb ", " 32kb", "1e3", "0x10", "١٢", "1ｋb",
	"(?i)V1", "k=(?i)V1", "a**", "\\", "k=\\", "1\x00", "n=1:\n", "1µs", "1GiB:", "1hour:2days",
}

func zzEquivADigest() string {
	units := map[string]string{"bytes": "bytes", "latency": "milliseconds", "n": "", "": "kb"}
	var b strings.Builder
	for _, name := range []string{"tagfocus", "tagignore"} {
		for _, f := range zzEquivAFilters {
			ui := &zzEquivAUI{}
			fn, err := compileTagFilter(name, f, units, ui, nil)
			fmt.Fprintf(&b, "%s %q: ", name, f)
			switch {
			case err != nil:
				fmt.Fprintf(&b, "err=%q", err.Error())
			case fn == nil:
				b.WriteString("nil")
			default:
				for _, s := range zzEquivASamples() {
					if fn(s) {
						b.WriteByte('1')
					} else {
						b.WriteByte('0')
					}
				}
			}
			fmt.Fprintf(&b, " ui=%q\n", ui.errs)
		}
	}
	// A prior error must short-circuit and be passed through unchanged.
	prior := fmt.Errorf("prior")
	fn, err := compileTagFilter("tagfocus", "1kb:", units, &zzEquivAUI{}, prior)
	fmt.Fprintf(&b, "prior: %v %v\n", fn == nil, err == prior)

	// parseTagFilterRange directly, with units on the probe values.
	type probe struct {
		v int64
		u string
	}
	probes := []probe{{1, "kb"}, {1024, "bytes"}, {1024, "b"}, {2, "s"}, {2000, "ms"}, {5, ""}, {5, "widgets"},
		{-1, "kb"}, {1 << 40, "bytes"}, {1, "tb"}, {0, "kb"}, {3600, "s"}, {1, "hrs"}, {-9223372036854775808, "ns"}}
	for _, f := range zzEquivAFilters {
		fn, err := parseTagFilterRange(f)
		fmt.Fprintf(&b, "range %q: ", f)
		switch {
		case err != nil:
			fmt.Fprintf(&b, "err=%q", err.Error())
		case fn == nil:
			b.WriteString("nil")
		default:
			for _, p := range probes {
				if fn(p.v, p.u) {
					b.WriteByte('1')
				} else {
					b.WriteByte('0')
				}
			}
		}
		b.WriteByte('\n')
	}
	return b.String()
}

func TestZZEquivA(t *testing.T) {
	got := zzEquivADigest()
	if out := os.Getenv("ZZ_EQUIV_WRITE"); out != "" {
		if err := os.WriteFile(out, []byte(got), 0o644); err != nil {
			t.Fatal(err)
		}
		return
	}
	if got != zzEquivAWant {
		gl, wl := strings.Split(got, "\n"), strings.Split(zzEquivAWant, "\n")
		for i := 0; i < len(gl) && i < len(wl); i++ {
			if gl[i] != wl[i] {
				t.Errorf("line %d:\n got  %s\n want %s", i, gl[i], wl[i])
			}
		}
		t.Fatalf("digest differs (got %d lines, want %d)", len(gl), len(wl))
	}
}

// Expected digest, computed on the unchanged tree.
var zzEquivAWant = strings.Join([]string{
	"tagfocus \"\": nil ui=[]",
	"tagfocus \"32kb\": 100000000 ui=[\"tagfocus:Interpreted '32kb' as range, not regexp\"]",
	"tagfocus \":64kb\": 110010110 ui=[\"tagfocus:Interpreted ':64kb' as range, not regexp\"]",
	"tagfocus \"4mb:\": 001011000 ui=[\"tagfocus:Interpreted '4mb:' as range, not regexp\"]",
	"tagfocus \"12kb:64mb\": 111000000 ui=[\"tagfocus:Interpreted '12kb:64mb' as range, not regexp\"]",
	"tagfocus \"32kb:\": 111001000 ui=[\"tagfocus:Interpreted '32kb:' as range, not regexp\"]",
	"tagfocus \"1:10\": 000010000 ui=[\"tagfocus:Interpreted '1:10' as range, not regexp\"]",
	"tagfocus \"10\": 000010000 ui=[\"tagfocus:Interpreted '10' as range, not regexp\"]",
	"tagfocus \"-3\": 000000000 ui=[\"tagfocus:Interpreted '-3' as range, not regexp\"]",
	"tagfocus \"+10\": 000010000 ui=[\"tagfocus:Interpreted '+10' as range, not regexp\"]",
	"tagfocus \":-3ms\": 000010100 ui=[\"tagfocus:Interpreted ':-3ms' as range, not regexp\"]",
	"tagfocus \"1s:2s\": 000100000 ui=[\"tagfocus:Interpreted '1s:2s' as range, not regexp\"]",
	"tagfocus \"1500ms\": 000100000 ui=[\"tagfocus:Interpreted '1500ms' as range, not regexp\"]",
	"tagfocus \"1us:2s\": 000110000 ui=[\"tagfocus:Interpreted '1us:2s' as range, not regexp\"]",
	"tagfocus \"1kb:2s\": 000000000 ui=[]",
	"tagfocus \"bytes=32kb\": 100000000 ui=[\"tagfocus:Interpreted '32kb' as range, not regexp\"]",
	"tagfocus \"bytes=:64kb\": 110000000 ui=[\"tagfocus:Interpreted ':64kb' as range, not regexp\"]",
	"tagfocus \"bytes=1:\": 000000000 ui=[\"tagfocus:Interpreted '1:' as range, not regexp\"]",
	"tagfocus \"latency=1s:\": 000100000 ui=[\"tagfocus:Interpreted '1s:' as range, not regexp\"]",
	"tagfocus \"latency=1500\": 000000000 ui=[\"tagfocus:Interpreted '1500' as range, not regexp\"]",
	"tagfocus \"n=10\": 000010000 ui=[\"tagfocus:Interpreted '10' as range, not regexp\"]",
	"tagfocus \"n=9223372036854775807\": 000001000 ui=[\"tagfocus:Interpreted '9223372036854775807' as range, not regexp\"]",
	"tagfocus \"n=9223372036854775808\": err=\"parsing tagfocus range: failed to parse int 9223372036854775808: strconv.ParseInt: parsing \\\"9223372036854775808\\\": value out of range\" ui=[]",
	"tagfocus \"99999999999999999999\": err=\"parsing tagfocus range: failed to parse int 99999999999999999999: strconv.ParseInt: parsing \\\"99999999999999999999\\\": value out of range\" ui=[]",
	"tagfocus \":99999999999999999999\": err=\"parsing tagfocus range: failed to parse int 99999999999999999999: strconv.ParseInt: parsing \\\"99999999999999999999\\\": value out of range\" ui=[]",
	"tagfocus \"1:99999999999999999999\": err=\"parsing tagfocus range: failed to parse int 99999999999999999999: strconv.ParseInt: parsing \\\"99999999999999999999\\\": value out of range\" ui=[]",
	"tagfocus \"1kb:99999999999999999999x\": err=\"parsing tagfocus range: failed to parse int 99999999999999999999: strconv.ParseInt: parsing \\\"99999999999999999999\\\": value out of range\" ui=[]",
	"tagfocus \"-9223372036854775808\": 000000100 ui=[\"tagfocus:Interpreted '-9223372036854775808' as range, not regexp\"]",
	"tagfocus \"-9223372036854775809:\": err=\"parsing tagfocus range: failed to parse int -9223372036854775809: strconv.ParseInt: parsing \\\"-9223372036854775809\\\": value out of range\" ui=[]",
	"tagfocus \"k=v1\": 100000000 ui=[]",
	"tagfocus \"k=v.\": 110000000 ui=[]",
	"tagfocus \"k=v1,w\": 110000000 ui=[]",
	"tagfocus \"k:v1\": 100100000 ui=[]",
	"tagfocus \"k:v1,x:y\": 000000000 ui=[]",
	"tagfocus \"v1\": 100100000 ui=[]",
	"tagfocus \"x=k:v1\": 000100000 ui=[]",
	"tagfocus \"=\": 110100010 ui=[]",
	"tagfocus \"=1\": 000000000 ui=[\"tagfocus:Interpreted '1' as range, not regexp\"]",
	"tagfocus \"a=b=c\": 000000000 ui=[]",
	"tagfocus \"k=\": 110000000 ui=[]",
	"tagfocus \"k==\": 000000000 ui=[]",
	"tagfocus \"[\": err=\"parsing tagfocus regexp: error parsing regexp: missing closing ]: `[`\" ui=[]",
	"tagfocus \"k=[\": err=\"parsing tagfocus regexp: error parsing regexp: missing closing ]: `[`\" ui=[]",
	"tagfocus \"k=v1,[\": err=\"parsing tagfocus regexp: error parsing regexp: missing closing ]: `[`\" ui=[]",
	"tagfocus \"1:2:3\": 000000000 ui=[]",
	"tagfocus \"1kb:2kb:\": 000000000 ui=[]",
	"tagfocus \":1:\": 000000000 ui=[]",
	"tagfocus \"::\": 000000000 ui=[]",
	"tagfocus \":\": 110100010 ui=[]",
	"tagfocus \"1 kb\": 000000000 ui=[]",
	"tagfocus \"1kb,2kb\": 000000000 ui=[]",
	"tagfocus \"1xyz\": 000000000 ui=[\"tagfocus:Interpreted '1xyz' as range, not regexp\"]",
	"tagfocus \"1xyz:2xyz\": 000000000 ui=[\"tagfocus:Interpreted '1xyz:2xyz' as range, not regexp\"]",
	"tagfocus \"1xyz:2abc\": 000000000 ui=[\"tagfocus:Interpreted '1xyz:2abc' as range, not regexp\"]",
	"tagfocus \"1kb:2\": 000000000 ui=[\"tagfocus:Interpreted '1kb:2' as range, not regexp\"]",
	"tagfocus \"1:2kb\": 000000000 ui=[]",
	"tagfocus \"0\": 000000000 ui=[\"tagfocus:Interpreted '0' as range, not regexp\"]",
	"tagfocus \"0:\": 000011000 ui=[\"tagfocus:Interpreted '0:' as range, not regexp\"]",
	"tagfocus \":0\": 000000100 ui=[\"tagfocus:Interpreted ':0' as range, not regexp\"]",
	"tagfocus \"=0\": 000000000 ui=[\"tagfocus:Interpreted '0' as range, not regexp\"]",
	"tagfocus \"=:0\": 000000100 ui=[\"tagfocus:Interpreted ':0' as range, not regexp\"]",
	"tagfocus \"12kb:64mb \": 000000000 ui=[]",
	"tagfocus \" 32kb\": 000000000 ui=[]",
	"tagfocus \"1e3\": 000000000 ui=[]",
	"tagfocus \"0x10\": 000000000 ui=[]",
	"tagfocus \"\u0661\u0662\": 000000000 ui=[]",
	"tagfocus \"1\uff4bb\": 000000000 ui=[]",
	"tagfocus \"(?i)V1\": 100100000 ui=[]",
	"tagfocus \"k=(?i)V1\": 100000000 ui=[]",
	"tagfocus \"a**\": err=\"parsing tagfocus regexp: error parsing regexp: invalid nested repetition operator: `**`\" ui=[]",
	"tagfocus \"\\\\\": err=\"parsing tagfocus regexp: error parsing regexp: trailing backslash at end of expression: ``\" ui=[]",
	"tagfocus \"k=\\\\\": err=\"parsing tagfocus regexp: error parsing regexp: trailing backslash at end of expression: ``\" ui=[]",
	"tagfocus \"1\\x00\": 000000000 ui=[]",
	"tagfocus \"n=1:\\n\": 000000000 ui=[]",
	"tagfocus \"1\u00b5s\": 000000000 ui=[]",
	"tagfocus \"1GiB:\": 000011000 ui=[\"tagfocus:Interpreted '1GiB:' as range, not regexp\"]",
	"tagfocus \"1hour:2days\": 000000000 ui=[\"tagfocus:Interpreted '1hour:2days' as range, not regexp\"]",
	"tagignore \"\": nil ui=[]",
	"tagignore \"32kb\": 100000000 ui=[\"tagignore:Interpreted '32kb' as range, not regexp\"]",
	"tagignore \":64kb\": 110010110 ui=[\"tagignore:Interpreted ':64kb' as range, not regexp\"]",
	"tagignore \"4mb:\": 001011000 ui=[\"tagignore:Interpreted '4mb:' as range, not regexp\"]",
	"tagignore \"12kb:64mb\": 111000000 ui=[\"tagignore:Interpreted '12kb:64mb' as range, not regexp\"]",
	"tagignore \"32kb:\": 111001000 ui=[\"tagignore:Interpreted '32kb:' as range, not regexp\"]",
	"tagignore \"1:10\": 000010000 ui=[\"tagignore:Interpreted '1:10' as range, not regexp\"]",
	"tagignore \"10\": 000010000 ui=[\"tagignore:Interpreted '10' as range, not regexp\"]",
	"tagignore \"-3\": 000000000 ui=[\"tagignore:Interpreted '-3' as range, not regexp\"]",
	"tagignore \"+10\": 000010000 ui=[\"tagignore:Interpreted '+10' as range, not regexp\"]",
	"tagignore \":-3ms\": 000010100 ui=[\"tagignore:Interpreted ':-3ms' as range, not regexp\"]",
	"tagignore \"1s:2s\": 000100000 ui=[\"tagignore:Interpreted '1s:2s' as range, not regexp\"]",
	"tagignore \"1500ms\": 000100000 ui=[\"tagignore:Interpreted '1500ms' as range, not regexp\"]",
	"tagignore \"1us:2s\": 000110000 ui=[\"tagignore:Interpreted '1us:2s' as range, not regexp\"]",
	"tagignore \"1kb:2s\": 000000000 ui=[]",
	"tagignore \"bytes=32kb\": 100000000 ui=[\"tagignore:Interpreted '32kb' as range, not regexp\"]",
	"tagignore \"bytes=:64kb\": 110000000 ui=[\"tagignore:Interpreted ':64kb' as range, not regexp\"]",
	"tagignore \"bytes=1:\": 000000000 ui=[\"tagignore:Interpreted '1:' as range, not regexp\"]",
	"tagignore \"latency=1s:\": 000100000 ui=[\"tagignore:Interpreted '1s:' as range, not regexp\"]",
	"tagignore \"latency=1500\": 000000000 ui=[\"tagignore:Interpreted '1500' as range, not regexp\"]",
	"tagignore \"n=10\": 000010000 ui=[\"tagignore:Interpreted '10' as range, not regexp\"]",
	"tagignore \"n=9223372036854775807\": 000001000 ui=[\"tagignore:Interpreted '9223372036854775807' as range, not regexp\"]",
	"tagignore \"n=9223372036854775808\": err=\"parsing tagignore range: failed to parse int 9223372036854775808: strconv.ParseInt: parsing \\\"9223372036854775808\\\": value out of range\" ui=[]",
	"tagignore \"99999999999999999999\": err=\"parsing tagignore range: failed to parse int 99999999999999999999: strconv.ParseInt: parsing \\\"99999999999999999999\\\": value out of range\" ui=[]",
	"tagignore \":99999999999999999999\": err=\"parsing tagignore range: failed to parse int 99999999999999999999: strconv.ParseInt: parsing \\\"99999999999999999999\\\": value out of range\" ui=[]",
	"tagignore \"1:99999999999999999999\": err=\"parsing tagignore range: failed to parse int 99999999999999999999: strconv.ParseInt: parsing \\\"99999999999999999999\\\": value out of range\" ui=[]",
	"tagignore \"1kb:99999999999999999999x\": err=\"parsing tagignore range: failed to parse int 99999999999999999999: strconv.ParseInt: parsing \\\"99999999999999999999\\\": value out of range\" ui=[]",
	"tagignore \"-9223372036854775808\": 000000100 ui=[\"tagignore:Interpreted '-9223372036854775808' as range, not regexp\"]",
	"tagignore \"-9223372036854775809:\": err=\"parsing tagignore range: failed to parse int -9223372036854775809: strconv.ParseInt: parsing \\\"-9223372036854775809\\\": value out of range\" ui=[]",
	"tagignore \"k=v1\": 100000000 ui=[]",
	"tagignore \"k=v.\": 110000000 ui=[]",
	"tagignore \"k=v1,w\": 110000000 ui=[]",
	"tagignore \"k:v1\": 100100000 ui=[]",
	"tagignore \"k:v1,x:y\": 000000000 ui=[]",
	"tagignore \"v1\": 100100000 ui=[]",
	"tagignore \"x=k:v1\": 000100000 ui=[]",
	"tagignore \"=\": 110100010 ui=[]",
	"tagignore \"=1\": 000000000 ui=[\"tagignore:Interpreted '1' as range, not regexp\"]",
	"tagignore \"a=b=c\": 000000000 ui=[]",
	"tagignore \"k=\": 110000000 ui=[]",
	"tagignore \"k==\": 000000000 ui=[]",
	"tagignore \"[\": err=\"parsing tagignore regexp: error parsing regexp: missing closing ]: `[`\" ui=[]",
	"tagignore \"k=[\": err=\"parsing tagignore regexp: error parsing regexp: missing closing ]: `[`\" ui=[]",
	"tagignore \"k=v1,[\": err=\"parsing tagignore regexp: error parsing regexp: missing closing ]: `[`\" ui=[]",
	"tagignore \"1:2:3\": 000000000 ui=[]",
	"tagignore \"1kb:2kb:\": 000000000 ui=[]",
	"tagignore \":1:\": 000000000 ui=[]",
	"tagignore \"::\": 000000000 ui=[]",
	"tagignore \":\": 110100010 ui=[]",
	"tagignore \"1 kb\": 000000000 ui=[]",
	"tagignore \"1kb,2kb\": 000000000 ui=[]",
	"tagignore \"1xyz\": 000000000 ui=[\"tagignore:Interpreted '1xyz' as range, not regexp\"]",
	"tagignore \"1xyz:2xyz\": 000000000 ui=[\"tagignore:Interpreted '1xyz:2xyz' as range, not regexp\"]",
	"tagignore \"1xyz:2abc\": 000000000 ui=[\"tagignore:Interpreted '1xyz:2abc' as range, not regexp\"]",
	"tagignore \"1kb:2\": 000000000 ui=[\"tagignore:Interpreted '1kb:2' as range, not regexp\"]",
	"tagignore \"1:2kb\": 000000000 ui=[]",
	"tagignore \"0\": 000000000 ui=[\"tagignore:Interpreted '0' as range, not regexp\"]",
	"tagignore \"0:\": 000011000 ui=[\"tagignore:Interpreted '0:' as range, not regexp\"]",
	"tagignore \":0\": 000000100 ui=[\"tagignore:Interpreted ':0' as range, not regexp\"]",
	"tagignore \"=0\": 000000000 ui=[\"tagignore:Interpreted '0' as range, not regexp\"]",
	"tagignore \"=:0\": 000000100 ui=[\"tagignore:Interpreted ':0' as range, not regexp\"]",
	"tagignore \"12kb:64mb \": 000000000 ui=[]",
	"tagignore \" 32kb\": 000000000 ui=[]",
	"tagignore \"1e3\": 000000000 ui=[]",
	"tagignore \"0x10\": 000000000 ui=[]",
	"tagignore \"\u0661\u0662\": 000000000 ui=[]",
	"tagignore \"1\uff4bb\": 000000000 ui=[]",
	"tagignore \"(?i)V1\": 100100000 ui=[]",
	"tagignore \"k=(?i)V1\": 100000000 ui=[]",
	"tagignore \"a**\": err=\"parsing tagignore regexp: error parsing regexp: invalid nested repetition operator: `**`\" ui=[]",
	"tagignore \"\\\\\": err=\"parsing tagignore regexp: error parsing regexp: trailing backslash at end of expression: ``\" ui=[]",
	"tagignore \"k=\\\\\": err=\"parsing tagignore regexp: error parsing regexp: trailing backslash at end of expression: ``\" ui=[]",
	"tagignore \"1\\x00\": 000000000 ui=[]",
	"tagignore \"n=1:\\n\": 000000000 ui=[]",
	"tagignore \"1\u00b5s\": 000000000 ui=[]",
	"tagignore \"1GiB:\": 000011000 ui=[\"tagignore:Interpreted '1GiB:' as range, not regexp\"]",
	"tagignore \"1hour:2days\": 000000000 ui=[\"tagignore:Interpreted '1hour:2days' as range, not regexp\"]",
	"prior: true true",
	"range \"\": nil",
	"range \"32kb\": 00000000000000",
	"range \":64kb\": 11100111001000",
	"range \"4mb:\": 00000110110000",
	"range \"12kb:64mb\": 00000000000000",
	"range \"32kb:\": 00000000110000",
	"range \"1:10\": 00000110000000",
	"range \"10\": 00000000000000",
	"range \"-3\": 00000000000000",
	"range \"+10\": 00000000000000",
	"range \":-3ms\": 00000000000001",
	"range \"1s:2s\": 00011000000000",
	"range \"1500ms\": 00000000000000",
	"range \"1us:2s\": 00011110000000",
	"range \"1kb:2s\": nil",
	"range \"bytes=32kb\": nil",
	"range \"bytes=:64kb\": nil",
	"range \"bytes=1:\": nil",
	"range \"latency=1s:\": nil",
	"range \"latency=1500\": nil",
	"range \"n=10\": nil",
	"range \"n=9223372036854775807\": nil",
	"range \"n=9223372036854775808\": err=\"failed to parse int 9223372036854775808: strconv.ParseInt: parsing \\\"9223372036854775808\\\": value out of range\"",
	"range \"99999999999999999999\": err=\"failed to parse int 99999999999999999999: strconv.ParseInt: parsing \\\"99999999999999999999\\\": value out of range\"",
	"range \":99999999999999999999\": err=\"failed to parse int 99999999999999999999: strconv.ParseInt: parsing \\\"99999999999999999999\\\": value out of range\"",
	"range \"1:99999999999999999999\": err=\"failed to parse int 99999999999999999999: strconv.ParseInt: parsing \\\"99999999999999999999\\\": value out of range\"",
	"range \"1kb:99999999999999999999x\": err=\"failed to parse int 99999999999999999999: strconv.ParseInt: parsing \\\"99999999999999999999\\\": value out of range\"",
	"range \"-9223372036854775808\": 00000000000000",
	"range \"-9223372036854775809:\": err=\"failed to parse int -9223372036854775809: strconv.ParseInt: parsing \\\"-9223372036854775809\\\": value out of range\"",
	"range \"k=v1\": nil",
	"range \"k=v.\": nil",
	"range \"k=v1,w\": nil",
	"range \"k:v1\": nil",
	"range \"k:v1,x:y\": nil",
	"range \"v1\": nil",
	"range \"x=k:v1\": nil",
	"range \"=\": nil",
	"range \"=1\": nil",
	"range \"a=b=c\": nil",
	"range \"k=\": nil",
	"range \"k==\": nil",
	"range \"[\": nil",
	"range \"k=[\": nil",
	"range \"k=v1,[\": nil",
	"range \"1:2:3\": nil",
	"range \"1kb:2kb:\": nil",
	"range \":1:\": nil",
	"range \"::\": nil",
	"range \":\": nil",
	"range \"1 kb\": nil",
	"range \"1kb,2kb\": nil",
	"range \"1xyz\": 00000000000000",
	"range \"1xyz:2xyz\": 00000000000000",
	"range \"1xyz:2abc\": 00000000000000",
	"range \"1kb:2\": 11100000000000",
	"range \"1:2kb\": nil",
	"range \"0\": 00000000000000",
	"range \"0:\": 00000110000000",
	"range \":0\": 00000000000000",
	"range \"=0\": nil",
	"range \"=:0\": nil",
	"range \"12kb:64mb \": nil",
	"range \" 32kb\": nil",
	"range \"1e3\": nil",
	"range \"0x10\": nil",
	"range \"\u0661\u0662\": nil",
	"range \"1\uff4bb\": nil",
	"range \"(?i)V1\": nil",
	"range \"k=(?i)V1\": nil",
	"range \"a**\": nil",
	"range \"\\\\\": nil",
	"range \"k=\\\\\": nil",
	"range \"1\\x00\": nil",
	"range \"n=1:\\n\": nil",
	"range \"1\u00b5s\": nil",
	"range \"1GiB:\": 00000110000000",
	"range \"1hour:2days\": 00000000000110",
	"",
}, "\n")
