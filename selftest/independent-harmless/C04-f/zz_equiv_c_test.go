package driver

import (
	"bytes"
	"fmt"
	"strings"
	"testing"

	"github.com/google/pprof/internal/report"
	"github.com/google/pprof/profile"
)

// zzEquivCProfile builds a profile with recursion, inlined multi-line
// locations, locations shared between samples, an empty stack, an
// unsymbolized frame, negative values and two sample types. Two functions
// share a file and two locations share a function, so that every granularity
// merges a different set of entries.
func zzEquivCProfile() *profile.Profile {
	m := &profile.Mapping{ID: 1, Start: 0x1000, Limit: 0x9000, File: "/bin/prog",
		HasFunctions: true, HasFilenames: true, HasLineNumbers: true, HasInlineFrames: true}
	fn := func(id uint64, name, file string) *profile.Function {
		return &profile.Function{ID: id, Name: name, SystemName: "_" + name, Filename: file, StartLine: int64(id * 10)}
	}
	fMain, fA, fB, fInl := fn(1, "main", "main.go"), fn(2, "a", "a.go"), fn(3, "b", "b.go"), fn(4, "inl", "a.go")
	l1 := &profile.Location{ID: 1, Mapping: m, Address: 0x1100, Line: []profile.Line{{Function: fMain, Line: 5, Column: 2}}}
	l2 := &profile.Location{ID: 2, Mapping: m, Address: 0x1200, Line: []profile.Line{{Function: fInl, Line: 7, Column: 3}, {Function: fA, Line: 21, Column: 9}}}
	l3 := &profile.Location{ID: 3, Mapping: m, Address: 0x1300, Line: []profile.Line{{Function: fB, Line: 33}}}
	l4 := &profile.Location{ID: 4, Mapping: m, Address: 0x1400} // unsymbolized
	l5 := &profile.Location{ID: 5, Mapping: m, Address: 0x1500, Line: []profile.Line{{Function: fB, Line: 33, Column: 4}}}
	l6 := &profile.Location{ID: 6, Mapping: m, Address: 0x1600, Line: []profile.Line{{Function: fInl, Line: 8}, {Function: fInl, Line: 9}, {Function: fB, Line: 34}}}
	return &profile.Profile{
		SampleType: []*profile.ValueType{{Type: "samples", Unit: "count"}, {Type: "cpu", Unit: "milliseconds"}},
		PeriodType: &profile.ValueType{Type: "cpu", Unit: "milliseconds"},
		Period:     10,
		Mapping:    []*profile.Mapping{m},
		Function:   []*profile.Function{fMain, fA, fB, fInl},
		Location:   []*profile.Location{l1, l2, l3, l4, l5, l6},
		Sample: []*profile.Sample{
			{Location: []*profile.Location{l3, l2, l1}, Value: []int64{2, 200}},
			{Location: []*profile.Location{l2, l3, l2, l1}, Value: []int64{3, 90}},
			{Location: []*profile.Location{l5, l3, l3, l1}, Value: []int64{1, -70}},
			{Location: nil, Value: []int64{5, 500}},
			{Location: []*profile.Location{l4, l2, l1}, Value: []int64{4, 44}},
			{Location: []*profile.Location{l6, l6, l4, l1}, Value: []int64{7, 35}},
			{Location: []*profile.Location{l2, l1}, Value: []int64{-2, -20}},
		},
	}
}

func zzEquivCDump(p *profile.Profile) string {
	var b strings.Builder
	for _, m := range p.Mapping {
		fmt.Fprintf(&b, "M%d fn=%v file=%v line=%v inl=%v\n", m.ID, m.HasFunctions, m.HasFilenames, m.HasLineNumbers, m.HasInlineFrames)
	}
	for _, f := range p.Function {
		fmt.Fprintf(&b, "F%d %q %q %q %d\n", f.ID, f.Name, f.SystemName, f.Filename, f.StartLine)
	}
	for _, l := range p.Location {
		fmt.Fprintf(&b, "L%d %#x", l.ID, l.Address)
		for _, ln := range l.Line {
			fmt.Fprintf(&b, " [F%d %d:%d]", ln.Function.ID, ln.Line, ln.Column)
		}
		b.WriteByte('\n')
	}
	return b.String()
}

func TestZZEquivAggregate(t *testing.T) {
	var got strings.Builder
	for _, g := range []string{"", "functions", "filefunctions", "files", "lines", "addresses", "address", "Functions", "bogus"} {
		for _, noinl := range []bool{false, true} {
			for _, cols := range []bool{false, true} {
				p := zzEquivCProfile()
				cfg := config{Granularity: g, NoInlines: noinl, ShowColumns: cols}
				err := aggregate(p, cfg)
				fmt.Fprintf(&got, "=== granularity=%q noinlines=%v showcolumns=%v err=%v\n%s", g, noinl, cols, err, zzEquivCDump(p))
				if err != nil {
					continue
				}
				// The flat/cum numbers shown by a text report built on the
				// aggregated profile, for the cpu sample type.
				rpt := report.New(p, &report.Options{
					OutputFormat: report.Text,
					SampleValue:  func(v []int64) int64 { return v[1] },
					SampleType:   "cpu",
					SampleUnit:   "milliseconds",
				})
				var buf bytes.Buffer
				if err := report.Generate(&buf, rpt, nil); err != nil {
					t.Fatalf("Generate: %v", err)
				}
				got.WriteString(buf.String())
			}
		}
	}
	if testing.Verbose() {
		fmt.Printf("<<<GOT\n%s>>>GOT\n", got.String())
	}
	if got.String() != wantZZEquivC {
		t.Errorf("aggregate results differ from those recorded on the unchanged tree:\n%s", got.String())
	}
}

// Recorded on the unchanged tree.
const wantZZEquivC = `=== granularity="" noinlines=false showcolumns=false err=<nil>
M1 fn=true file=false line=false inl=true
F1 "main" "_main" "" 10
F2 "a" "_a" "" 20
F3 "b" "_b" "" 30
F4 "inl" "_inl" "" 40
L1 0x0 [F1 0:0]
L2 0x0 [F4 0:0] [F2 0:0]
L3 0x0 [F3 0:0]
L4 0x0
L5 0x0 [F3 0:0]
L6 0x0 [F4 0:0] [F4 0:0] [F3 0:0]
File: prog
Type: cpu
Showing nodes accounting for 0.28s, 29.09% of 0.96s total
      flat  flat%   sum%        cum   cum%
     0.13s 13.56% 13.56%      0.26s 26.59%  b
     0.10s 10.95% 24.50%      0.35s 36.39%  inl (inline)
     0.04s  4.59% 29.09%      0.08s  8.24%  [prog]
         0     0% 29.09%      0.31s 32.74%  a
         0     0% 29.09%      0.28s 29.09%  main
=== granularity="" noinlines=false showcolumns=true err=<nil>
M1 fn=true file=false line=false inl=true
F1 "main" "_main" "" 10
F2 "a" "_a" "" 20
F3 "b" "_b" "" 30
F4 "inl" "_inl" "" 40
L1 0x0 [F1 0:0]
L2 0x0 [F4 0:0] [F2 0:0]
L3 0x0 [F3 0:0]
L4 0x0
L5 0x0 [F3 0:0]
L6 0x0 [F4 0:0] [F4 0:0] [F3 0:0]
File: prog
Type: cpu
Showing nodes accounting for 0.28s, 29.09% of 0.96s total
      flat  flat%   sum%        cum   cum%
     0.13s 13.56% 13.56%      0.26s 26.59%  b
     0.10s 10.95% 24.50%      0.35s 36.39%  inl (inline)
     0.04s  4.59% 29.09%      0.08s  8.24%  [prog]
         0     0% 29.09%      0.31s 32.74%  a
         0     0% 29.09%      0.28s 29.09%  main
=== granularity="" noinlines=true showcolumns=false err=<nil>
M1 fn=true file=false line=false inl=false
F1 "main" "_main" "" 10
F2 "a" "_a" "" 20
F3 "b" "_b" "" 30
F4 "inl" "_inl" "" 40
L1 0x0 [F1 0:0]
L2 0x0 [F2 0:0]
L3 0x0 [F3 0:0]
L4 0x0
L5 0x0 [F3 0:0]
L6 0x0 [F3 0:0]
File: prog
Type: cpu
Showing nodes accounting for 0.28s, 29.09% of 0.96s total
      flat  flat%   sum%        cum   cum%
     0.17s 17.21% 17.21%      0.26s 26.59%  b
     0.07s  7.30% 24.50%      0.31s 32.74%  a
     0.04s  4.59% 29.09%      0.08s  8.24%  [prog]
         0     0% 29.09%      0.28s 29.09%  main
=== granularity="" noinlines=true showcolumns=true err=<nil>
M1 fn=true file=false line=false inl=false
F1 "main" "_main" "" 10
F2 "a" "_a" "" 20
F3 "b" "_b" "" 30
F4 "inl" "_inl" "" 40
L1 0x0 [F1 0:0]
L2 0x0 [F2 0:0]
L3 0x0 [F3 0:0]
L4 0x0
L5 0x0 [F3 0:0]
L6 0x0 [F3 0:0]
File: prog
Type: cpu
Showing nodes accounting for 0.28s, 29.09% of 0.96s total
      flat  flat%   sum%        cum   cum%
     0.17s 17.21% 17.21%      0.26s 26.59%  b
     0.07s  7.30% 24.50%      0.31s 32.74%  a
     0.04s  4.59% 29.09%      0.08s  8.24%  [prog]
         0     0% 29.09%      0.28s 29.09%  main
=== granularity="functions" noinlines=false showcolumns=false err=<nil>
M1 fn=true file=false line=false inl=true
F1 "main" "_main" "" 10
F2 "a" "_a" "" 20
F3 "b" "_b" "" 30
F4 "inl" "_inl" "" 40
L1 0x0 [F1 0:0]
L2 0x0 [F4 0:0] [F2 0:0]
L3 0x0 [F3 0:0]
L4 0x0
L5 0x0 [F3 0:0]
L6 0x0 [F4 0:0] [F4 0:0] [F3 0:0]
File: prog
Type: cpu
Showing nodes accounting for 0.28s, 29.09% of 0.96s total
      flat  flat%   sum%        cum   cum%
     0.13s 13.56% 13.56%      0.26s 26.59%  b
     0.10s 10.95% 24.50%      0.35s 36.39%  inl (inline)
     0.04s  4.59% 29.09%      0.08s  8.24%  [prog]
         0     0% 29.09%      0.31s 32.74%  a
         0     0% 29.09%      0.28s 29.09%  main
=== granularity="functions" noinlines=false showcolumns=true err=<nil>
M1 fn=true file=false line=false inl=true
F1 "main" "_main" "" 10
F2 "a" "_a" "" 20
F3 "b" "_b" "" 30
F4 "inl" "_inl" "" 40
L1 0x0 [F1 0:0]
L2 0x0 [F4 0:0] [F2 0:0]
L3 0x0 [F3 0:0]
L4 0x0
L5 0x0 [F3 0:0]
L6 0x0 [F4 0:0] [F4 0:0] [F3 0:0]
File: prog
Type: cpu
Showing nodes accounting for 0.28s, 29.09% of 0.96s total
      flat  flat%   sum%        cum   cum%
     0.13s 13.56% 13.56%      0.26s 26.59%  b
     0.10s 10.95% 24.50%      0.35s 36.39%  inl (inline)
     0.04s  4.59% 29.09%      0.08s  8.24%  [prog]
         0     0% 29.09%      0.31s 32.74%  a
         0     0% 29.09%      0.28s 29.09%  main
=== granularity="functions" noinlines=true showcolumns=false err=<nil>
M1 fn=true file=false line=false inl=false
F1 "main" "_main" "" 10
F2 "a" "_a" "" 20
F3 "b" "_b" "" 30
F4 "inl" "_inl" "" 40
L1 0x0 [F1 0:0]
L2 0x0 [F2 0:0]
L3 0x0 [F3 0:0]
L4 0x0
L5 0x0 [F3 0:0]
L6 0x0 [F3 0:0]
File: prog
Type: cpu
Showing nodes accounting for 0.28s, 29.09% of 0.96s total
      flat  flat%   sum%        cum   cum%
     0.17s 17.21% 17.21%      0.26s 26.59%  b
     0.07s  7.30% 24.50%      0.31s 32.74%  a
     0.04s  4.59% 29.09%      0.08s  8.24%  [prog]
         0     0% 29.09%      0.28s 29.09%  main
=== granularity="functions" noinlines=true showcolumns=true err=<nil>
M1 fn=true file=false line=false inl=false
F1 "main" "_main" "" 10
F2 "a" "_a" "" 20
F3 "b" "_b" "" 30
F4 "inl" "_inl" "" 40
L1 0x0 [F1 0:0]
L2 0x0 [F2 0:0]
L3 0x0 [F3 0:0]
L4 0x0
L5 0x0 [F3 0:0]
L6 0x0 [F3 0:0]
File: prog
Type: cpu
Showing nodes accounting for 0.28s, 29.09% of 0.96s total
      flat  flat%   sum%        cum   cum%
     0.17s 17.21% 17.21%      0.26s 26.59%  b
     0.07s  7.30% 24.50%      0.31s 32.74%  a
     0.04s  4.59% 29.09%      0.08s  8.24%  [prog]
         0     0% 29.09%      0.28s 29.09%  main
=== granularity="filefunctions" noinlines=false showcolumns=false err=<nil>
M1 fn=true file=true line=false inl=true
F1 "main" "_main" "main.go" 10
F2 "a" "_a" "a.go" 20
F3 "b" "_b" "b.go" 30
F4 "inl" "_inl" "a.go" 40
L1 0x0 [F1 0:0]
L2 0x0 [F4 0:0] [F2 0:0]
L3 0x0 [F3 0:0]
L4 0x0
L5 0x0 [F3 0:0]
L6 0x0 [F4 0:0] [F4 0:0] [F3 0:0]
File: prog
Type: cpu
Showing nodes accounting for 0.28s, 29.09% of 0.96s total
      flat  flat%   sum%        cum   cum%
     0.13s 13.56% 13.56%      0.26s 26.59%  b b.go
     0.10s 10.95% 24.50%      0.35s 36.39%  inl a.go (inline)
     0.04s  4.59% 29.09%      0.08s  8.24%  [prog]
         0     0% 29.09%      0.31s 32.74%  a a.go
         0     0% 29.09%      0.28s 29.09%  main main.go
=== granularity="filefunctions" noinlines=false showcolumns=true err=<nil>
M1 fn=true file=true line=false inl=true
F1 "main" "_main" "main.go" 10
F2 "a" "_a" "a.go" 20
F3 "b" "_b" "b.go" 30
F4 "inl" "_inl" "a.go" 40
L1 0x0 [F1 0:0]
L2 0x0 [F4 0:0] [F2 0:0]
L3 0x0 [F3 0:0]
L4 0x0
L5 0x0 [F3 0:0]
L6 0x0 [F4 0:0] [F4 0:0] [F3 0:0]
File: prog
Type: cpu
Showing nodes accounting for 0.28s, 29.09% of 0.96s total
      flat  flat%   sum%        cum   cum%
     0.13s 13.56% 13.56%      0.26s 26.59%  b b.go
     0.10s 10.95% 24.50%      0.35s 36.39%  inl a.go (inline)
     0.04s  4.59% 29.09%      0.08s  8.24%  [prog]
         0     0% 29.09%      0.31s 32.74%  a a.go
         0     0% 29.09%      0.28s 29.09%  main main.go
=== granularity="filefunctions" noinlines=true showcolumns=false err=<nil>
M1 fn=true file=true line=false inl=false
F1 "main" "_main" "main.go" 10
F2 "a" "_a" "a.go" 20
F3 "b" "_b" "b.go" 30
F4 "inl" "_inl" "a.go" 40
L1 0x0 [F1 0:0]
L2 0x0 [F2 0:0]
L3 0x0 [F3 0:0]
L4 0x0
L5 0x0 [F3 0:0]
L6 0x0 [F3 0:0]
File: prog
Type: cpu
Showing nodes accounting for 0.28s, 29.09% of 0.96s total
      flat  flat%   sum%        cum   cum%
     0.17s 17.21% 17.21%      0.26s 26.59%  b b.go
     0.07s  7.30% 24.50%      0.31s 32.74%  a a.go
     0.04s  4.59% 29.09%      0.08s  8.24%  [prog]
         0     0% 29.09%      0.28s 29.09%  main main.go
=== granularity="filefunctions" noinlines=true showcolumns=true err=<nil>
M1 fn=true file=true line=false inl=false
F1 "main" "_main" "main.go" 10
F2 "a" "_a" "a.go" 20
F3 "b" "_b" "b.go" 30
F4 "inl" "_inl" "a.go" 40
L1 0x0 [F1 0:0]
L2 0x0 [F2 0:0]
L3 0x0 [F3 0:0]
L4 0x0
L5 0x0 [F3 0:0]
L6 0x0 [F3 0:0]
File: prog
Type: cpu
Showing nodes accounting for 0.28s, 29.09% of 0.96s total
      flat  flat%   sum%        cum   cum%
     0.17s 17.21% 17.21%      0.26s 26.59%  b b.go
     0.07s  7.30% 24.50%      0.31s 32.74%  a a.go
     0.04s  4.59% 29.09%      0.08s  8.24%  [prog]
         0     0% 29.09%      0.28s 29.09%  main main.go
=== granularity="files" noinlines=false showcolumns=false err=<nil>
M1 fn=false file=true line=false inl=true
F1 "" "" "main.go" 10
F2 "" "" "a.go" 20
F3 "" "" "b.go" 30
F4 "" "" "a.go" 40
L1 0x0 [F1 0:0]
L2 0x0 [F4 0:0] [F2 0:0]
L3 0x0 [F3 0:0]
L4 0x0
L5 0x0 [F3 0:0]
L6 0x0 [F4 0:0] [F4 0:0] [F3 0:0]
File: prog
Type: cpu
Showing nodes accounting for 0.28s, 29.09% of 0.96s total
      flat  flat%   sum%        cum   cum%
     0.13s 13.56% 13.56%      0.26s 26.59%  b.go
     0.10s 10.95% 24.50%      0.35s 36.39%  a.go (inline)
     0.04s  4.59% 29.09%      0.08s  8.24%  [prog]
         0     0% 29.09%      0.31s 32.74%  a.go
         0     0% 29.09%      0.28s 29.09%  main.go
=== granularity="files" noinlines=false showcolumns=true err=<nil>
M1 fn=false file=true line=false inl=true
F1 "" "" "main.go" 10
F2 "" "" "a.go" 20
F3 "" "" "b.go" 30
F4 "" "" "a.go" 40
L1 0x0 [F1 0:0]
L2 0x0 [F4 0:0] [F2 0:0]
L3 0x0 [F3 0:0]
L4 0x0
L5 0x0 [F3 0:0]
L6 0x0 [F4 0:0] [F4 0:0] [F3 0:0]
File: prog
Type: cpu
Showing nodes accounting for 0.28s, 29.09% of 0.96s total
      flat  flat%   sum%        cum   cum%
     0.13s 13.56% 13.56%      0.26s 26.59%  b.go
     0.10s 10.95% 24.50%      0.35s 36.39%  a.go (inline)
     0.04s  4.59% 29.09%      0.08s  8.24%  [prog]
         0     0% 29.09%      0.31s 32.74%  a.go
         0     0% 29.09%      0.28s 29.09%  main.go
=== granularity="files" noinlines=true showcolumns=false err=<nil>
M1 fn=false file=true line=false inl=false
F1 "" "" "main.go" 10
F2 "" "" "a.go" 20
F3 "" "" "b.go" 30
F4 "" "" "a.go" 40
L1 0x0 [F1 0:0]
L2 0x0 [F2 0:0]
L3 0x0 [F3 0:0]
L4 0x0
L5 0x0 [F3 0:0]
L6 0x0 [F3 0:0]
File: prog
Type: cpu
Showing nodes accounting for 0.28s, 29.09% of 0.96s total
      flat  flat%   sum%        cum   cum%
     0.17s 17.21% 17.21%      0.26s 26.59%  b.go
     0.07s  7.30% 24.50%      0.31s 32.74%  a.go
     0.04s  4.59% 29.09%      0.08s  8.24%  [prog]
         0     0% 29.09%      0.28s 29.09%  main.go
=== granularity="files" noinlines=true showcolumns=true err=<nil>
M1 fn=false file=true line=false inl=false
F1 "" "" "main.go" 10
F2 "" "" "a.go" 20
F3 "" "" "b.go" 30
F4 "" "" "a.go" 40
L1 0x0 [F1 0:0]
L2 0x0 [F2 0:0]
L3 0x0 [F3 0:0]
L4 0x0
L5 0x0 [F3 0:0]
L6 0x0 [F3 0:0]
File: prog
Type: cpu
Showing nodes accounting for 0.28s, 29.09% of 0.96s total
      flat  flat%   sum%        cum   cum%
     0.17s 17.21% 17.21%      0.26s 26.59%  b.go
     0.07s  7.30% 24.50%      0.31s 32.74%  a.go
     0.04s  4.59% 29.09%      0.08s  8.24%  [prog]
         0     0% 29.09%      0.28s 29.09%  main.go
=== granularity="lines" noinlines=false showcolumns=false err=<nil>
M1 fn=true file=true line=true inl=true
F1 "main" "_main" "main.go" 10
F2 "a" "_a" "a.go" 20
F3 "b" "_b" "b.go" 30
F4 "inl" "_inl" "a.go" 40
L1 0x0 [F1 5:0]
L2 0x0 [F4 7:0] [F2 21:0]
L3 0x0 [F3 33:0]
L4 0x0
L5 0x0 [F3 33:0]
L6 0x0 [F4 8:0] [F4 9:0] [F3 34:0]
File: prog
Type: cpu
Showing nodes accounting for 0.28s, 29.09% of 0.96s total
      flat  flat%   sum%        cum   cum%
     0.13s 13.56% 13.56%      0.22s 22.94%  b b.go:33
     0.07s  7.30% 20.86%      0.31s 32.74%  inl a.go:7 (inline)
     0.04s  4.59% 25.44%      0.08s  8.24%  [prog]
     0.04s  3.65% 29.09%      0.04s  3.65%  inl a.go:8 (inline)
         0     0% 29.09%      0.31s 32.74%  a a.go:21
         0     0% 29.09%      0.04s  3.65%  b b.go:34
         0     0% 29.09%      0.04s  3.65%  inl a.go:9 (inline)
         0     0% 29.09%      0.28s 29.09%  main main.go:5
=== granularity="lines" noinlines=false showcolumns=true err=<nil>
M1 fn=true file=true line=true inl=true
F1 "main" "_main" "main.go" 10
F2 "a" "_a" "a.go" 20
F3 "b" "_b" "b.go" 30
F4 "inl" "_inl" "a.go" 40
L1 0x0 [F1 5:2]
L2 0x0 [F4 7:3] [F2 21:9]
L3 0x0 [F3 33:0]
L4 0x0
L5 0x0 [F3 33:4]
L6 0x0 [F4 8:0] [F4 9:0] [F3 34:0]
File: prog
Type: cpu
Showing nodes accounting for 0.28s, 29.09% of 0.96s total
      flat  flat%   sum%        cum   cum%
     0.20s 20.86% 20.86%      0.22s 22.94%  b b.go:33
    -0.07s  7.30% 13.56%     -0.07s  7.30%  b b.go:33:4
     0.07s  7.30% 20.86%      0.31s 32.74%  inl a.go:7:3 (inline)
     0.04s  4.59% 25.44%      0.08s  8.24%  [prog]
     0.04s  3.65% 29.09%      0.04s  3.65%  inl a.go:8 (inline)
         0     0% 29.09%      0.31s 32.74%  a a.go:21:9
         0     0% 29.09%      0.04s  3.65%  b b.go:34
         0     0% 29.09%      0.04s  3.65%  inl a.go:9 (inline)
         0     0% 29.09%      0.28s 29.09%  main main.go:5:2
=== granularity="lines" noinlines=true showcolumns=false err=<nil>
M1 fn=true file=true line=true inl=false
F1 "main" "_main" "main.go" 10
F2 "a" "_a" "a.go" 20
F3 "b" "_b" "b.go" 30
F4 "inl" "_inl" "a.go" 40
L1 0x0 [F1 5:0]
L2 0x0 [F2 21:0]
L3 0x0 [F3 33:0]
L4 0x0
L5 0x0 [F3 33:0]
L6 0x0 [F3 34:0]
File: prog
Type: cpu
Showing nodes accounting for 0.28s, 29.09% of 0.96s total
      flat  flat%   sum%        cum   cum%
     0.13s 13.56% 13.56%      0.22s 22.94%  b b.go:33
     0.07s  7.30% 20.86%      0.31s 32.74%  a a.go:21
     0.04s  4.59% 25.44%      0.08s  8.24%  [prog]
     0.04s  3.65% 29.09%      0.04s  3.65%  b b.go:34
         0     0% 29.09%      0.28s 29.09%  main main.go:5
=== granularity="lines" noinlines=true showcolumns=true err=<nil>
M1 fn=true file=true line=true inl=false
F1 "main" "_main" "main.go" 10
F2 "a" "_a" "a.go" 20
F3 "b" "_b" "b.go" 30
F4 "inl" "_inl" "a.go" 40
L1 0x0 [F1 5:2]
L2 0x0 [F2 21:9]
L3 0x0 [F3 33:0]
L4 0x0
L5 0x0 [F3 33:4]
L6 0x0 [F3 34:0]
File: prog
Type: cpu
Showing nodes accounting for 0.28s, 29.09% of 0.96s total
      flat  flat%   sum%        cum   cum%
     0.20s 20.86% 20.86%      0.22s 22.94%  b b.go:33
     0.07s  7.30% 28.15%      0.31s 32.74%  a a.go:21:9
    -0.07s  7.30% 20.86%     -0.07s  7.30%  b b.go:33:4
     0.04s  4.59% 25.44%      0.08s  8.24%  [prog]
     0.04s  3.65% 29.09%      0.04s  3.65%  b b.go:34
         0     0% 29.09%      0.28s 29.09%  main main.go:5:2
=== granularity="addresses" noinlines=false showcolumns=false err=<nil>
M1 fn=true file=true line=true inl=true
F1 "main" "_main" "main.go" 10
F2 "a" "_a" "a.go" 20
F3 "b" "_b" "b.go" 30
F4 "inl" "_inl" "a.go" 40
L1 0x1100 [F1 5:2]
L2 0x1200 [F4 7:3] [F2 21:9]
L3 0x1300 [F3 33:0]
L4 0x1400
L5 0x1500 [F3 33:4]
L6 0x1600 [F4 8:0] [F4 9:0] [F3 34:0]
File: prog
Type: cpu
Showing nodes accounting for 0.28s, 29.09% of 0.96s total
      flat  flat%   sum%        cum   cum%
     0.20s 20.86% 20.86%      0.22s 22.94%  0000000000001300 b b.go:33
     0.07s  7.30% 28.15%      0.31s 32.74%  0000000000001200 inl a.go:7:3 (inline)
    -0.07s  7.30% 20.86%     -0.07s  7.30%  0000000000001500 b b.go:33:4
     0.04s  4.59% 25.44%      0.08s  8.24%  0000000000001400 [prog]
     0.04s  3.65% 29.09%      0.04s  3.65%  0000000000001600 inl a.go:8 (inline)
         0     0% 29.09%      0.28s 29.09%  0000000000001100 main main.go:5:2
         0     0% 29.09%      0.31s 32.74%  0000000000001200 a a.go:21:9
         0     0% 29.09%      0.04s  3.65%  0000000000001600 b b.go:34
         0     0% 29.09%      0.04s  3.65%  0000000000001600 inl a.go:9 (inline)
=== granularity="addresses" noinlines=false showcolumns=true err=<nil>
M1 fn=true file=true line=true inl=true
F1 "main" "_main" "main.go" 10
F2 "a" "_a" "a.go" 20
F3 "b" "_b" "b.go" 30
F4 "inl" "_inl" "a.go" 40
L1 0x1100 [F1 5:2]
L2 0x1200 [F4 7:3] [F2 21:9]
L3 0x1300 [F3 33:0]
L4 0x1400
L5 0x1500 [F3 33:4]
L6 0x1600 [F4 8:0] [F4 9:0] [F3 34:0]
File: prog
Type: cpu
Showing nodes accounting for 0.28s, 29.09% of 0.96s total
      flat  flat%   sum%        cum   cum%
     0.20s 20.86% 20.86%      0.22s 22.94%  0000000000001300 b b.go:33
     0.07s  7.30% 28.15%      0.31s 32.74%  0000000000001200 inl a.go:7:3 (inline)
    -0.07s  7.30% 20.86%     -0.07s  7.30%  0000000000001500 b b.go:33:4
     0.04s  4.59% 25.44%      0.08s  8.24%  0000000000001400 [prog]
     0.04s  3.65% 29.09%      0.04s  3.65%  0000000000001600 inl a.go:8 (inline)
         0     0% 29.09%      0.28s 29.09%  0000000000001100 main main.go:5:2
         0     0% 29.09%      0.31s 32.74%  0000000000001200 a a.go:21:9
         0     0% 29.09%      0.04s  3.65%  0000000000001600 b b.go:34
         0     0% 29.09%      0.04s  3.65%  0000000000001600 inl a.go:9 (inline)
=== granularity="addresses" noinlines=true showcolumns=false err=<nil>
M1 fn=true file=true line=true inl=false
F1 "main" "_main" "main.go" 10
F2 "a" "_a" "a.go" 20
F3 "b" "_b" "b.go" 30
F4 "inl" "_inl" "a.go" 40
L1 0x1100 [F1 5:0]
L2 0x1200 [F2 21:0]
L3 0x1300 [F3 33:0]
L4 0x1400
L5 0x1500 [F3 33:0]
L6 0x1600 [F3 34:0]
File: prog
Type: cpu
Showing nodes accounting for 0.28s, 29.09% of 0.96s total
      flat  flat%   sum%        cum   cum%
     0.20s 20.86% 20.86%      0.22s 22.94%  0000000000001300 b b.go:33
     0.07s  7.30% 28.15%      0.31s 32.74%  0000000000001200 a a.go:21
    -0.07s  7.30% 20.86%     -0.07s  7.30%  0000000000001500 b b.go:33
     0.04s  4.59% 25.44%      0.08s  8.24%  0000000000001400 [prog]
     0.04s  3.65% 29.09%      0.04s  3.65%  0000000000001600 b b.go:34
         0     0% 29.09%      0.28s 29.09%  0000000000001100 main main.go:5
=== granularity="addresses" noinlines=true showcolumns=true err=<nil>
M1 fn=true file=true line=true inl=false
F1 "main" "_main" "main.go" 10
F2 "a" "_a" "a.go" 20
F3 "b" "_b" "b.go" 30
F4 "inl" "_inl" "a.go" 40
L1 0x1100 [F1 5:2]
L2 0x1200 [F2 21:9]
L3 0x1300 [F3 33:0]
L4 0x1400
L5 0x1500 [F3 33:4]
L6 0x1600 [F3 34:0]
File: prog
Type: cpu
Showing nodes accounting for 0.28s, 29.09% of 0.96s total
      flat  flat%   sum%        cum   cum%
     0.20s 20.86% 20.86%      0.22s 22.94%  0000000000001300 b b.go:33
     0.07s  7.30% 28.15%      0.31s 32.74%  0000000000001200 a a.go:21:9
    -0.07s  7.30% 20.86%     -0.07s  7.30%  0000000000001500 b b.go:33:4
     0.04s  4.59% 25.44%      0.08s  8.24%  0000000000001400 [prog]
     0.04s  3.65% 29.09%      0.04s  3.65%  0000000000001600 b b.go:34
         0     0% 29.09%      0.28s 29.09%  0000000000001100 main main.go:5:2
=== granularity="address" noinlines=false showcolumns=false err=unexpected granularity
M1 fn=true file=true line=true inl=true
F1 "main" "_main" "main.go" 10
F2 "a" "_a" "a.go" 20
F3 "b" "_b" "b.go" 30
F4 "inl" "_inl" "a.go" 40
L1 0x1100 [F1 5:2]
L2 0x1200 [F4 7:3] [F2 21:9]
L3 0x1300 [F3 33:0]
L4 0x1400
L5 0x1500 [F3 33:4]
L6 0x1600 [F4 8:0] [F4 9:0] [F3 34:0]
=== granularity="address" noinlines=false showcolumns=true err=unexpected granularity
M1 fn=true file=true line=true inl=true
F1 "main" "_main" "main.go" 10
F2 "a" "_a" "a.go" 20
F3 "b" "_b" "b.go" 30
F4 "inl" "_inl" "a.go" 40
L1 0x1100 [F1 5:2]
L2 0x1200 [F4 7:3] [F2 21:9]
L3 0x1300 [F3 33:0]
L4 0x1400
L5 0x1500 [F3 33:4]
L6 0x1600 [F4 8:0] [F4 9:0] [F3 34:0]
=== granularity="address" noinlines=true showcolumns=false err=unexpected granularity
M1 fn=true file=true line=true inl=true
F1 "main" "_main" "main.go" 10
F2 "a" "_a" "a.go" 20
F3 "b" "_b" "b.go" 30
F4 "inl" "_inl" "a.go" 40
L1 0x1100 [F1 5:2]
L2 0x1200 [F4 7:3] [F2 21:9]
L3 0x1300 [F3 33:0]
L4 0x1400
L5 0x1500 [F3 33:4]
L6 0x1600 [F4 8:0] [F4 9:0] [F3 34:0]
=== granularity="address" noinlines=true showcolumns=true err=unexpected granularity
M1 fn=true file=true line=true inl=true
F1 "main" "_main" "main.go" 10
F2 "a" "_a" "a.go" 20
F3 "b" "_b" "b.go" 30
F4 "inl" "_inl" "a.go" 40
L1 0x1100 [F1 5:2]
L2 0x1200 [F4 7:3] [F2 21:9]
L3 0x1300 [F3 33:0]
L4 0x1400
L5 0x1500 [F3 33:4]
L6 0x1600 [F4 8:0] [F4 9:0] [F3 34:0]
=== granularity="Functions" noinlines=false showcolumns=false err=unexpected granularity
M1 fn=true file=true line=true inl=true
F1 "main" "_main" "main.go" 10
F2 "a" "_a" "a.go" 20
F3 "b" "_b" "b.go" 30
F4 "inl" "_inl" "a.go" 40
L1 0x1100 [F1 5:2]
L2 0x1200 [F4 7:3] [F2 21:9]
L3 0x1300 [F3 33:0]
L4 0x1400
L5 0x1500 [F3 33:4]
L6 0x1600 [F4 8:0] [F4 9:0] [F3 34:0]
=== granularity="Functions" noinlines=false showcolumns=true err=unexpected granularity
M1 fn=true file=true line=true inl=true
F1 "main" "_main" "main.go" 10
F2 "a" "_a" "a.go" 20
F3 "b" "_b" "b.go" 30
F4 "inl" "_inl" "a.go" 40
L1 0x1100 [F1 5:2]
L2 0x1200 [F4 7:3] [F2 21:9]
L3 0x1300 [F3 33:0]
L4 0x1400
L5 0x1500 [F3 33:4]
L6 0x1600 [F4 8:0] [F4 9:0] [F3 34:0]
=== granularity="Functions" noinlines=true showcolumns=false err=unexpected granularity
M1 fn=true file=true line=true inl=true
F1 "main" "_main" "main.go" 10
F2 "a" "_a" "a.go" 20
F3 "b" "_b" "b.go" 30
F4 "inl" "_inl" "a.go" 40
L1 0x1100 [F1 5:2]
L2 0x1200 [F4 7:3] [F2 21:9]
L3 0x1300 [F3 33:0]
L4 0x1400
L5 0x1500 [F3 33:4]
L6 0x1600 [F4 8:0] [F4 9:0] [F3 34:0]
=== granularity="Functions" noinlines=true showcolumns=true err=unexpected granularity
M1 fn=true file=true line=true inl=true
F1 "main" "_main" "main.go" 10
F2 "a" "_a" "a.go" 20
F3 "b" "_b" "b.go" 30
F4 "inl" "_inl" "a.go" 40
L1 0x1100 [F1 5:2]
L2 0x1200 [F4 7:3] [F2 21:9]
L3 0x1300 [F3 33:0]
L4 0x1400
L5 0x1500 [F3 33:4]
L6 0x1600 [F4 8:0] [F4 9:0] [F3 34:0]
=== granularity="bogus" noinlines=false showcolumns=false err=unexpected granularity
M1 fn=true file=true line=true inl=true
F1 "main" "_main" "main.go" 10
F2 "a" "_a" "a.go" 20
F3 "b" "_b" "b.go" 30
F4 "inl" "_inl" "a.go" 40
L1 0x1100 [F1 5:2]
L2 0x1200 [F4 7:3] [F2 21:9]
L3 0x1300 [F3 33:0]
L4 0x1400
L5 0x1500 [F3 33:4]
L6 0x1600 [F4 8:0] [F4 9:0] [F3 34:0]
=== granularity="bogus" noinlines=false showcolumns=true err=unexpected granularity
M1 fn=true file=true line=true inl=true
F1 "main" "_main" "main.go" 10
F2 "a" "_a" "a.go" 20
F3 "b" "_b" "b.go" 30
F4 "inl" "_inl" "a.go" 40
L1 0x1100 [F1 5:2]
L2 0x1200 [F4 7:3] [F2 21:9]
L3 0x1300 [F3 33:0]
L4 0x1400
L5 0x1500 [F3 33:4]
L6 0x1600 [F4 8:0] [F4 9:0] [F3 34:0]
=== granularity="bogus" noinlines=true showcolumns=false err=unexpected granularity
M1 fn=true file=true line=true inl=true
F1 "main" "_main" "main.go" 10
F2 "a" "_a" "a.go" 20
F3 "b" "_b" "b.go" 30
F4 "inl" "_inl" "a.go" 40
L1 0x1100 [F1 5:2]
L2 0x1200 [F4 7:3] [F2 21:9]
L3 0x1300 [F3 33:0]
L4 0x1400
L5 0x1500 [F3 33:4]
L6 0x1600 [F4 8:0] [F4 9:0] [F3 34:0]
=== granularity="bogus" noinlines=true showcolumns=true err=unexpected granularity
M1 fn=true file=true line=true inl=true
F1 "main" "_main" "main.go" 10
F2 "a" "_a" "a.go" 20
F3 "b" "_b" "b.go" 30
F4 "inl" "_inl" "a.go" 40
L1 0x1100 [F1 5:2]
L2 0x1200 [F4 7:3] [F2 21:9]
L3 0x1300 [F3 33:0]
L4 0x1400
L5 0x1500 [F3 33:4]
L6 0x1600 [F4 8:0] [F4 9:0] [F3 34:0]
`
