package profile

import (
	"fmt"
	"os"
	"sort"
	"strings"
	"testing"
)

// Equivalence demonstration for change A (parseHexAddresses without regexp).
// Expected values were computed on the unchanged tree and hard-coded below.

var zzAHexInputs = []string{
	"",
	" 0x1 0x2",
	"0x0x12",
	"00x1f",
	"0xABC",
	"0xabcg 0x",
	"x0x10x2",
	"0xffffffffffffffff",
	"0x10000000000000000 0x1",
	"0x1 0x10000000000000000",
	"1: 2 @ 0x3",
	"0x1,0x2;0x3",
	"0x00x5",
	"PC:  0x00bc8f1c: helper(arg *)",
	"  0x7f7949a9811d: __libc_start_main",
	"creator: 0xa45b96 0xa460b4 0xbaa17f 0xbaa9f9 0xbb0d21 0x40bce4 0x7f7949a9811d",
	"0X12 0xg 0x 0",
	"000x0000 0x",
	"\t0xdeadbeef\t0xcafe\n0x1",
	"0x0123456789abcdef0",
	"0xé1 0x1é",
	"0",
	"0x",
	"x",
	"0x0",
}

func zzAHex(s string) string {
	addrs, err := parseHexAddresses(s)
	return fmt.Sprintf("%#x nil=%v err=%v", addrs, addrs == nil, err)
}

var zzADocs = map[string]string{
	"heap_v2": `heap profile: 3: 4096 [ 10: 20480 ] @ heap_v2/524288
# a comment

1: 1024 [ 2: 2048 ] @ 0x401000 0x402000 0x403000
 2:  3072 [  8: 18432] @ 0x401000 0x7f0000001234
0: 0 [ 0: 0 ] @
-1: -16 [ 1: 16 ] @ 0x402000

MAPPED_LIBRARIES:
00400000-00500000 r-xp 00000000 fd:01 123 /bin/prog
7f0000000000-7f0000100000 r-xp 00001000 fd:01 456 /lib/libc.so
`,
	"heapprofile": `heap profile: 1: 100 [ 1: 100 ] @ heapprofile
1: 100 [ 1: 100 ] @ 0x10 0x20 0x10
--- Memory map: ---
  00000000-00001000: /a/b.so (@100) abcdef
`,
	"growth": `heap profile: 85: 178257920 [ 85: 178257920 ] @ growthz
     1:  2097152 [     1:  2097152 ] @ 0xafc0eb 0xb087b2 0xb0aa7e
     4:  8388608 [     4:  8388608 ] @ 0xafc0eb 0xb0aa7e
`,
	"contention": `--- contentionz 1 ---
cycles/second = 3201000000
sampling period = 100
ms since reset = 16502830
discarded samples = 0
  19490304       27 @ 0xbccc97 0xc61202 0x42ed5f
    768       1 @ 0xbccc97 0xa42dc7
# comment
   5760     2 @ 0xbccc97
--- Memory map: ---
  00400000-00fcb000: cppbench_server_main
  7fc5e7d9d000-7fc5e7db7000: /libnss_files-2.15.so
`,
	"mutex": `--- mutex:
cycles/second=2000000000
sampling period=2
10 3 @ 0x5 0x6
7 1 @ 0x6
`,
	"thread": `--- threadz 1 ---

--- Thread 7f794ab90940 (name: main/14748) stack: ---
  PC:  0x00bc8f1c: helper(arg *)
  0x0040be31: main
  0x7f7949a9811d: __libc_start_main
--- Thread 7f794964e700 (name: thread1/14751) stack: ---
  PC:  0x7f794a32bf7d: nanosleep
  0x7f794a32bf7d: nanosleep
  0x7f794a32414e: start_thread
      creator: 0xa45b96 0xa460b4 0xbaa17f
--- Thread 7f794934c700 (name: thread2/14752) stack: ---
  [same as previous thread]
--- Thread 7f794934c701 (name: thread3/14753) stack: ---
  0x1 0x2
  0x3
--- Memory map: ---
  00400000-00fcb000: cppbench_server_main
`,
	"javaheap": `--- heapz 1 ---
format = java
resolution = bytes
  7048     1 @ 0x3 0x4 0x5
  4752     2 @ 0x4 0x5

  880     3 @ 0x6

  0x00000003 Foo.bar (Foo.java:12)
  0x00000004 Baz.qux (Baz.java:-1)
  0x00000005 GC
  0x00000006 lib (/usr/lib/libx.so)
`,
	"javacontention": `--- contentionz 1 ---
format = java
resolution = microseconds
sampling period = 100
ms since reset = 6019923
  1 1 @ 0x3 0x4
  14 3 @ 0x4
  0x00000003 Foo.bar (Foo.java:12)
  0x00000004 generated stub/JIT
`,
	"gocount": `goroutine profile: total 5
# hi
3 @ 0x10 0x20 0x30

2 @ 0x20 0x30
`,
}

func zzAParse(doc string) string {
	p, err := ParseData([]byte(doc))
	if err != nil {
		return "ERR: " + err.Error()
	}
	return p.String()
}

func TestZZEquivA(t *testing.T) {
	gen := os.Getenv("ZZ_GEN") != ""
	for i, in := range zzAHexInputs {
		got := zzAHex(in)
		if gen {
			fmt.Printf("\t%q,\n", got)
			continue
		}
		if got != zzAHexWant[i] {
			t.Errorf("parseHexAddresses(%q) = %s, want %s", in, got, zzAHexWant[i])
		}
	}
	var names []string
	for n := range zzADocs {
		names = append(names, n)
	}
	sort.Strings(names)
	for _, n := range names {
		got := zzAParse(zzADocs[n])
		if gen {
			fmt.Printf("\t%q: %q,\n", n, got)
			continue
		}
		if strings.HasPrefix(got, "ERR") {
			t.Errorf("%s: unexpected %s", n, got)
		}
		if got != zzADocWant[n] {
			t.Errorf("%s: got\n%s\nwant\n%s", n, got, zzADocWant[n])
		}
	}
}

var zzAHexWant = []string{
	"[] nil=true err=<nil>",
	"[0x1 0x2] nil=false err=<nil>",
	"[0x0] nil=false err=<nil>",
	"[0x1f] nil=false err=<nil>",
	"[] nil=true err=<nil>",
	"[0xabc] nil=false err=<nil>",
	"[0x10] nil=false err=<nil>",
	"[0xffffffffffffffff] nil=false err=<nil>",
	"[] nil=true err=failed to parse as hex 64-bit number: 0x10000000000000000",
	"[] nil=true err=failed to parse as hex 64-bit number: 0x10000000000000000",
	"[0x3] nil=false err=<nil>",
	"[0x1 0x2 0x3] nil=false err=<nil>",
	"[0x0] nil=false err=<nil>",
	"[0xbc8f1c] nil=false err=<nil>",
	"[0x7f7949a9811d] nil=false err=<nil>",
	"[0xa45b96 0xa460b4 0xbaa17f 0xbaa9f9 0xbb0d21 0x40bce4 0x7f7949a9811d] nil=false err=<nil>",
	"[] nil=true err=<nil>",
	"[0x0] nil=false err=<nil>",
	"[0xdeadbeef 0xcafe 0x1] nil=false err=<nil>",
	"[0x123456789abcdef0] nil=false err=<nil>",
	"[0x1] nil=false err=<nil>",
	"[] nil=true err=<nil>",
	"[] nil=true err=<nil>",
	"[] nil=true err=<nil>",
	"[0x0] nil=false err=<nil>",
}

var zzADocWant = map[string]string{
	"contention":     "PeriodType: contentions count\nPeriod: 100\nDuration: 4h35\nSamples:\ncontentions/count delay/nanoseconds\n       2700  608881724: 1 2 3 \n        100      23992: 1 4 \n        200     179943: 1 \nLocations\n     1: 0xbccc96 M=1 \n     2: 0xc61201 M=1 \n     3: 0x42ed5e M=1 \n     4: 0xa42dc6 M=1 \nMappings\n1: 0x400000/0xfcb000/0x0 cppbench_server_main  \n2: 0x7fc5e7d9d000/0x7fc5e7db7000/0x0 /libnss_files-2.15.so  \n",
	"gocount":        "PeriodType: goroutine count\nPeriod: 1\nSamples:\ngoroutine/count\n          3: 1 2 3 \n          2: 2 3 \nLocations\n     1: 0xf M=1 \n     2: 0x1f M=1 \n     3: 0x2f M=1 \nMappings\n1: 0x0/0xffffffffffffffff/0x0   \n",
	"growth":         "PeriodType: space bytes\nPeriod: 1\nSamples:\nobjects/count space/bytes\n          1    2097152: 1 2 3 \n                bytes:[2097152]\n          4    8388608: 1 3 \n                bytes:[2097152]\nLocations\n     1: 0xafc0ea M=1 \n     2: 0xb087b1 M=1 \n     3: 0xb0aa7d M=1 \nMappings\n1: 0x0/0xffffffffffffffff/0x0   \n",
	"heap_v2":        "PeriodType: space bytes\nPeriod: 524288\nSamples:\nalloc_objects/count alloc_space/bytes inuse_objects/count inuse_space/bytes\n       1025    1049600        512     524800: 1 2 3 \n                bytes:[1024]\n       1824    4203526        683    1050112: 1 4 \n                bytes:[1536]\n          0          0          0          0: \n                bytes:[0]\n      32768     524296     -32768    -524296: 2 \n                bytes:[16]\nLocations\n     1: 0x400fff M=1 \n     2: 0x401fff M=1 \n     3: 0x402fff M=1 \n     4: 0x7f0000001233 M=2 \nMappings\n1: 0x400000/0x500000/0x0 /bin/prog  \n2: 0x7f0000000000/0x7f0000100000/0x1000 /lib/libc.so  \n",
	"heapprofile":    "PeriodType: space bytes\nPeriod: 1\nSamples:\nobjects/count space/bytes\n          1        100: 1 2 1 \n                bytes:[100]\nLocations\n     1: 0xf M=1 \n     2: 0x1f M=1 \nMappings\n1: 0x0/0x1000/0x100 /a/b.so abcdef \n",
	"javacontention": "PeriodType: contentions count\nPeriod: 100\nDuration: 1h40\nSamples:\ncontentions/count delay/microseconds\n        100        100: 1 2 \n        300       1400: 2 \nLocations\n     1: 0x0 Foo.bar Foo.java:12:0 s=0\n     2: 0x0 STUB :0:0 s=0\nMappings\n",
	"javaheap":       "PeriodType:  \nPeriod: 0\nSamples:\ninuse_objects/count inuse_space/bytes\n         74     527819: 1 2 3 \n                bytes:[7048]\n        442    1050953: 2 3 \n                bytes:[2376]\n       5363    1573304: 4 \n                bytes:[293]\nLocations\n     1: 0x0 Foo.bar Foo.java:12:0 s=0\n     2: 0x0 Baz.qux Baz.java:0:0 s=0\n     3: 0x0 GC :0:0 s=0\n     4: 0x0 lib libx.so:0:0 s=0\nMappings\n",
	"mutex":          "PeriodType: contentions count\nPeriod: 2\nSamples:\ncontentions/count delay/nanoseconds\n          6         10: 1 2 \n          2          7: 2 \nLocations\n     1: 0x4 M=1 \n     2: 0x5 M=1 \nMappings\n1: 0x0/0xffffffffffffffff/0x0   \n",
	"thread":         "PeriodType: thread count\nPeriod: 1\nSamples:\nthread/count\n          1: 1 2 3 \n          2: 4 6 7 8 9 \n          1: 10 10 11 \nLocations\n     1: 0xbc8f1c M=1 \n     2: 0x40be30 M=1 \n     3: 0x7f7949a9811c M=2 \n     4: 0x7f794a32bf7d M=2 \n     5: 0x7f794a32bf7c M=2 \n     6: 0x7f794a32414d M=2 \n     7: 0xa45b95 M=1 \n     8: 0xa460b3 M=1 \n     9: 0xbaa17e M=1 \n    10: 0x1 M=2 \n    11: 0x2 M=2 \nMappings\n1: 0x400000/0xfcb000/0x0 cppbench_server_main  \n2: 0x0/0xffffffffffffffff/0x0   \n",
}
