package profile

import (
	"fmt"
	"regexp"
	"strings"
	"testing"
)

// spec: each sample is a list of locations (leaf first); each location is "fnA|fnB" lines (leaf-most inlined first).
// identical location strings share a *Location. "" function name => Line with nil Function; "-" => location without lines.
func zzCBuild(samples [][]string) *Profile {
	p := &Profile{
		SampleType: []*ValueType{{Type: "samples", Unit: "count"}},
		PeriodType: &ValueType{Type: "cpu", Unit: "ns"}, Period: 1,
	}
	fns := map[string]*Function{}
	locs := map[string]*Location{}
	for si, st := range samples {
		s := &Sample{Value: []int64{int64(10 + si)}, Label: map[string][]string{"k": {fmt.Sprint("v", si)}}}
		for _, ls := range st {
			l, ok := locs[ls]
			if !ok {
				l = &Location{ID: uint64(len(p.Location) + 1), Address: uint64(0x1000 + len(p.Location))}
				if ls != "-" {
					for li, fn := range strings.Split(ls, "|") {
						var f *Function
						if fn != "" {
							f = fns[fn]
							if f == nil {
								f = &Function{ID: uint64(len(p.Function) + 1), Name: fn, SystemName: fn, Filename: "f.c"}
								fns[fn] = f
								p.Function = append(p.Function, f)
							}
						}
						l.Line = append(l.Line, Line{Function: f, Line: int64(li + 1)})
					}
				}
				locs[ls] = l
				p.Location = append(p.Location, l)
			}
			s.Location = append(s.Location, l)
		}
		p.Sample = append(p.Sample, s)
	}
	return p
}

func zzCDump(p *Profile) string {
	var b strings.Builder
	for _, s := range p.Sample {
		fmt.Fprintf(&b, "%v %v:", s.Value, s.Label)
		for _, l := range s.Location {
			fmt.Fprintf(&b, " %d[", l.ID)
			for i, ln := range l.Line {
				if i > 0 {
					b.WriteString("|")
				}
				if ln.Function != nil {
					b.WriteString(ln.Function.Name)
				}
				fmt.Fprintf(&b, ":%d", ln.Line)
			}
			b.WriteString("]")
		}
		b.WriteString("\n")
	}
	fmt.Fprintf(&b, "locs=%d:", len(p.Location))
	for _, l := range p.Location {
		fmt.Fprintf(&b, " %d/%d", l.ID, len(l.Line))
	}
	fmt.Fprintf(&b, " drop=%q keep=%q\n", p.DropFrames, p.KeepFrames)
	return b.String()
}

var zzCNames = []string{
	"main", ".main", "..main", "foo(int)", "Foo::(anonymous namespace)::Bar",
	"Hello::(anonymous namespace)::World(const Foo::(anonymous namespace)::Test::Bar)",
	"Foo::operator()(::Bar)", "operator()", "operator()()", "operator(", "operator(int)", "xoperator()(a)",
	"(anonymous namespace)", "(anonymous namespace)(x)", "(anonymous namespace", "(anonymous namespace)::f(int)(long)",
	"", "(", ")", "()", "a(b)(c)", "operatoroperator()(z)", "(anonymous namespace)operator()(anonymous namespace)",
	"opera(tor()", "f<(anonymous namespace)::T>(int)", "日本(語)", "a::(anonymous namespace)::operator()(int) const",
	".(x)", "operator()(anonymous namespace)(q)", "(operator())",
}

var zzCProfiles = [][][]string{
	// 0: basic with inlines, shared locs
	{{"leaf", "drop|mid", "user", "main"}, {"other", "drop|mid", "main"}, {"drop|mid", "main"}, {"x|drop", "y", "main"}},
	// 1: match at root / leaf / before first user frame
	{{"a", "b", "drop"}, {"drop", "a", "b"}, {"drop"}, {"a|drop"}, {"drop|a"}, {"a", "drop", "drop"}, {"a", "drop", "b", "drop"}},
	// 2: keep interplay, unsimplified names
	{{"l", "drop(int)", "m"}, {"l", "dropkeep", "m"}, {"l", "q|dropkeep|drop(x)|r", "m"}, {"l", ".drop", "dropkeep", "m"}},
	// 3: nil functions and empty locations
	{{"l", "-", "drop", "-"}, {"l", "|drop|", "m"}, {"l", "drop", ""}, {"-", "drop"}, {"l", "drop|", "|m"}},
	// 4: repeated, shared match inside inlined location where some samples are root there
	{{"z", "a|drop|b", "c"}, {"z", "a|drop|b"}, {"a|drop|b", "a|drop|b"}, {"w", "drop|drop", "c", "a|drop|b"}},
	// 5: c++ names
	{{"l", "ns::(anonymous namespace)::drop(int)", "m"}, {"l", "ns::operator()(int)", "m"}, {"l", "other|ns::operator()", "m"}},
}

var zzCRx = [][2]string{
	{"drop", ""}, {"drop.*", "dropkeep"}, {"drop|a", ""}, {".*", "m|main|c"}, {"nomatch", ""}, {"ns::.*", ".*operator.*"}, {"", ""}, {"dro", ""},
}

var zzCWantPF = map[string]string{
	"0/0": "[10] map[k:[v0]]: 2[drop:1|mid:2] 3[user:1] 4[main:1]\n[11] map[k:[v1]]: 2[drop:1|mid:2] 4[main:1]\n[12] map[k:[v2]]: 2[drop:1|mid:2] 4[main:1]\n[13] map[k:[v3]]: 6[drop:2] 7[y:1] 4[main:1]\nlocs=7: 1/1 2/2 3/1 4/1 5/1 6/1 7/1 drop=\"\" keep=\"\"\n",
	"0/1": "[10] map[k:[v0]]: 2[drop:1|mid:2] 3[user:1] 4[main:1]\n[11] map[k:[v1]]: 2[drop:1|mid:2] 4[main:1]\n[12] map[k:[v2]]: 2[drop:1|mid:2] 4[main:1]\n[13] map[k:[v3]]: 6[drop:2] 7[y:1] 4[main:1]\nlocs=7: 1/1 2/2 3/1 4/1 5/1 6/1 7/1 drop=\"\" keep=\"\"\n",
	"0/2": "[10] map[k:[v0]]: 2[drop:1|mid:2] 3[user:1] 4[main:1]\n[11] map[k:[v1]]: 2[drop:1|mid:2] 4[main:1]\n[12] map[k:[v2]]: 2[drop:1|mid:2] 4[main:1]\n[13] map[k:[v3]]: 6[drop:2] 7[y:1] 4[main:1]\nlocs=7: 1/1 2/2 3/1 4/1 5/1 6/1 7/1 drop=\"\" keep=\"\"\n",
	"0/3": "[10] map[k:[v0]]: 1[leaf:1] 2[drop:1|mid:2] 3[user:1] 4[main:1]\n[11] map[k:[v1]]: 5[other:1] 2[drop:1|mid:2] 4[main:1]\n[12] map[k:[v2]]: 2[drop:1|mid:2] 4[main:1]\n[13] map[k:[v3]]: 6[x:1|drop:2] 7[y:1] 4[main:1]\nlocs=7: 1/1 2/2 3/1 4/1 5/1 6/2 7/1 drop=\"\" keep=\"\"\n",
	"0/4": "[10] map[k:[v0]]: 1[leaf:1] 2[drop:1|mid:2] 3[user:1] 4[main:1]\n[11] map[k:[v1]]: 5[other:1] 2[drop:1|mid:2] 4[main:1]\n[12] map[k:[v2]]: 2[drop:1|mid:2] 4[main:1]\n[13] map[k:[v3]]: 6[x:1|drop:2] 7[y:1] 4[main:1]\nlocs=7: 1/1 2/2 3/1 4/1 5/1 6/2 7/1 drop=\"\" keep=\"\"\n",
	"0/5": "[10] map[k:[v0]]: 1[leaf:1] 2[drop:1|mid:2] 3[user:1] 4[main:1]\n[11] map[k:[v1]]: 5[other:1] 2[drop:1|mid:2] 4[main:1]\n[12] map[k:[v2]]: 2[drop:1|mid:2] 4[main:1]\n[13] map[k:[v3]]: 6[x:1|drop:2] 7[y:1] 4[main:1]\nlocs=7: 1/1 2/2 3/1 4/1 5/1 6/2 7/1 drop=\"\" keep=\"\"\n",
	"0/7": "[10] map[k:[v0]]: 1[leaf:1] 2[drop:1|mid:2] 3[user:1] 4[main:1]\n[11] map[k:[v1]]: 5[other:1] 2[drop:1|mid:2] 4[main:1]\n[12] map[k:[v2]]: 2[drop:1|mid:2] 4[main:1]\n[13] map[k:[v3]]: 6[x:1|drop:2] 7[y:1] 4[main:1]\nlocs=7: 1/1 2/2 3/1 4/1 5/1 6/2 7/1 drop=\"\" keep=\"\"\n",
	"1/0": "[10] map[k:[v0]]: 3[drop:1]\n[11] map[k:[v1]]: 3[drop:1] 1[a:1] 2[b:1]\n[12] map[k:[v2]]: 3[drop:1]\n[13] map[k:[v3]]: 4[drop:2]\n[14] map[k:[v4]]: 5[drop:1|a:2]\n[15] map[k:[v5]]: 3[drop:1] 3[drop:1]\n[16] map[k:[v6]]: 3[drop:1] 2[b:1] 3[drop:1]\nlocs=5: 1/1 2/1 3/1 4/1 5/2 drop=\"\" keep=\"\"\n",
	"1/1": "[10] map[k:[v0]]: 3[drop:1]\n[11] map[k:[v1]]: 3[drop:1] 1[a:1] 2[b:1]\n[12] map[k:[v2]]: 3[drop:1]\n[13] map[k:[v3]]: 4[drop:2]\n[14] map[k:[v4]]: 5[drop:1|a:2]\n[15] map[k:[v5]]: 3[drop:1] 3[drop:1]\n[16] map[k:[v6]]: 3[drop:1] 2[b:1] 3[drop:1]\nlocs=5: 1/1 2/1 3/1 4/1 5/2 drop=\"\" keep=\"\"\n",
	"1/2": "[10] map[k:[v0]]: 1[a:1] 2[b:1] 3[drop:1]\n[11] map[k:[v1]]: 3[drop:1] 1[a:1] 2[b:1]\n[12] map[k:[v2]]: 3[drop:1]\n[13] map[k:[v3]]: 4[a:1|drop:2]\n[14] map[k:[v4]]: 5[drop:1|a:2]\n[15] map[k:[v5]]: 1[a:1] 3[drop:1] 3[drop:1]\n[16] map[k:[v6]]: 1[a:1] 3[drop:1] 2[b:1] 3[drop:1]\nlocs=5: 1/1 2/1 3/1 4/2 5/2 drop=\"\" keep=\"\"\n",
	"1/3": "[10] map[k:[v0]]: 1[a:1] 2[b:1] 3[drop:1]\n[11] map[k:[v1]]: 3[drop:1] 1[a:1] 2[b:1]\n[12] map[k:[v2]]: 3[drop:1]\n[13] map[k:[v3]]: 4[a:1|drop:2]\n[14] map[k:[v4]]: 5[drop:1|a:2]\n[15] map[k:[v5]]: 1[a:1] 3[drop:1] 3[drop:1]\n[16] map[k:[v6]]: 1[a:1] 3[drop:1] 2[b:1] 3[drop:1]\nlocs=5: 1/1 2/1 3/1 4/2 5/2 drop=\"\" keep=\"\"\n",
	"1/4": "[10] map[k:[v0]]: 1[a:1] 2[b:1] 3[drop:1]\n[11] map[k:[v1]]: 3[drop:1] 1[a:1] 2[b:1]\n[12] map[k:[v2]]: 3[drop:1]\n[13] map[k:[v3]]: 4[a:1|drop:2]\n[14] map[k:[v4]]: 5[drop:1|a:2]\n[15] map[k:[v5]]: 1[a:1] 3[drop:1] 3[drop:1]\n[16] map[k:[v6]]: 1[a:1] 3[drop:1] 2[b:1] 3[drop:1]\nlocs=5: 1/1 2/1 3/1 4/2 5/2 drop=\"\" keep=\"\"\n",
	"1/5": "[10] map[k:[v0]]: 1[a:1] 2[b:1] 3[drop:1]\n[11] map[k:[v1]]: 3[drop:1] 1[a:1] 2[b:1]\n[12] map[k:[v2]]: 3[drop:1]\n[13] map[k:[v3]]: 4[a:1|drop:2]\n[14] map[k:[v4]]: 5[drop:1|a:2]\n[15] map[k:[v5]]: 1[a:1] 3[drop:1] 3[drop:1]\n[16] map[k:[v6]]: 1[a:1] 3[drop:1] 2[b:1] 3[drop:1]\nlocs=5: 1/1 2/1 3/1 4/2 5/2 drop=\"\" keep=\"\"\n",
	"1/7": "[10] map[k:[v0]]: 1[a:1] 2[b:1] 3[drop:1]\n[11] map[k:[v1]]: 3[drop:1] 1[a:1] 2[b:1]\n[12] map[k:[v2]]: 3[drop:1]\n[13] map[k:[v3]]: 4[a:1|drop:2]\n[14] map[k:[v4]]: 5[drop:1|a:2]\n[15] map[k:[v5]]: 1[a:1] 3[drop:1] 3[drop:1]\n[16] map[k:[v6]]: 1[a:1] 3[drop:1] 2[b:1] 3[drop:1]\nlocs=5: 1/1 2/1 3/1 4/2 5/2 drop=\"\" keep=\"\"\n",
	"2/0": "[10] map[k:[v0]]: 2[drop(int):1] 3[m:1]\n[11] map[k:[v1]]: 1[l:1] 4[dropkeep:1] 3[m:1]\n[12] map[k:[v2]]: 5[drop(x):3|r:4] 3[m:1]\n[13] map[k:[v3]]: 6[.drop:1] 4[dropkeep:1] 3[m:1]\nlocs=6: 1/1 2/1 3/1 4/1 5/2 6/1 drop=\"\" keep=\"\"\n",
	"2/1": "[10] map[k:[v0]]: 2[drop(int):1] 3[m:1]\n[11] map[k:[v1]]: 4[dropkeep:1] 3[m:1]\n[12] map[k:[v2]]: 5[dropkeep:2|drop(x):3|r:4] 3[m:1]\n[13] map[k:[v3]]: 6[.drop:1] 4[dropkeep:1] 3[m:1]\nlocs=6: 1/1 2/1 3/1 4/1 5/3 6/1 drop=\"\" keep=\"\"\n",
	"2/2": "[10] map[k:[v0]]: 2[drop(int):1] 3[m:1]\n[11] map[k:[v1]]: 1[l:1] 4[dropkeep:1] 3[m:1]\n[12] map[k:[v2]]: 5[drop(x):3|r:4] 3[m:1]\n[13] map[k:[v3]]: 6[.drop:1] 4[dropkeep:1] 3[m:1]\nlocs=6: 1/1 2/1 3/1 4/1 5/2 6/1 drop=\"\" keep=\"\"\n",
	"2/3": "[10] map[k:[v0]]: 1[l:1] 2[drop(int):1] 3[m:1]\n[11] map[k:[v1]]: 1[l:1] 4[dropkeep:1] 3[m:1]\n[12] map[k:[v2]]: 1[l:1] 5[q:1|dropkeep:2|drop(x):3|r:4] 3[m:1]\n[13] map[k:[v3]]: 1[l:1] 6[.drop:1] 4[dropkeep:1] 3[m:1]\nlocs=6: 1/1 2/1 3/1 4/1 5/4 6/1 drop=\"\" keep=\"\"\n",
	"2/4": "[10] map[k:[v0]]: 1[l:1] 2[drop(int):1] 3[m:1]\n[11] map[k:[v1]]: 1[l:1] 4[dropkeep:1] 3[m:1]\n[12] map[k:[v2]]: 1[l:1] 5[q:1|dropkeep:2|drop(x):3|r:4] 3[m:1]\n[13] map[k:[v3]]: 1[l:1] 6[.drop:1] 4[dropkeep:1] 3[m:1]\nlocs=6: 1/1 2/1 3/1 4/1 5/4 6/1 drop=\"\" keep=\"\"\n",
	"2/5": "[10] map[k:[v0]]: 1[l:1] 2[drop(int):1] 3[m:1]\n[11] map[k:[v1]]: 1[l:1] 4[dropkeep:1] 3[m:1]\n[12] map[k:[v2]]: 1[l:1] 5[q:1|dropkeep:2|drop(x):3|r:4] 3[m:1]\n[13] map[k:[v3]]: 1[l:1] 6[.drop:1] 4[dropkeep:1] 3[m:1]\nlocs=6: 1/1 2/1 3/1 4/1 5/4 6/1 drop=\"\" keep=\"\"\n",
	"2/7": "[10] map[k:[v0]]: 1[l:1] 2[drop(int):1] 3[m:1]\n[11] map[k:[v1]]: 1[l:1] 4[dropkeep:1] 3[m:1]\n[12] map[k:[v2]]: 1[l:1] 5[q:1|dropkeep:2|drop(x):3|r:4] 3[m:1]\n[13] map[k:[v3]]: 1[l:1] 6[.drop:1] 4[dropkeep:1] 3[m:1]\nlocs=6: 1/1 2/1 3/1 4/1 5/4 6/1 drop=\"\" keep=\"\"\n",
	"3/0": "[10] map[k:[v0]]: 3[drop:1] 2[]\n[11] map[k:[v1]]: 4[drop:2|:3] 5[m:1]\n[12] map[k:[v2]]: 3[drop:1] 6[:1]\n[13] map[k:[v3]]: 3[drop:1]\n[14] map[k:[v4]]: 7[drop:1|:2] 8[:1|m:2]\nlocs=8: 1/1 2/0 3/1 4/2 5/1 6/1 7/2 8/2 drop=\"\" keep=\"\"\n",
	"3/1": "[10] map[k:[v0]]: 3[drop:1] 2[]\n[11] map[k:[v1]]: 4[drop:2|:3] 5[m:1]\n[12] map[k:[v2]]: 3[drop:1] 6[:1]\n[13] map[k:[v3]]: 3[drop:1]\n[14] map[k:[v4]]: 7[drop:1|:2] 8[:1|m:2]\nlocs=8: 1/1 2/0 3/1 4/2 5/1 6/1 7/2 8/2 drop=\"\" keep=\"\"\n",
	"3/2": "[10] map[k:[v0]]: 3[drop:1] 2[]\n[11] map[k:[v1]]: 4[drop:2|:3] 5[m:1]\n[12] map[k:[v2]]: 3[drop:1] 6[:1]\n[13] map[k:[v3]]: 3[drop:1]\n[14] map[k:[v4]]: 7[drop:1|:2] 8[:1|m:2]\nlocs=8: 1/1 2/0 3/1 4/2 5/1 6/1 7/2 8/2 drop=\"\" keep=\"\"\n",
	"3/3": "[10] map[k:[v0]]: 1[l:1] 2[] 3[drop:1] 2[]\n[11] map[k:[v1]]: 1[l:1] 4[drop:2|:3] 5[m:1]\n[12] map[k:[v2]]: 1[l:1] 3[drop:1] 6[:1]\n[13] map[k:[v3]]: 3[drop:1]\n[14] map[k:[v4]]: 1[l:1] 7[drop:1|:2] 8[m:2]\nlocs=8: 1/1 2/0 3/1 4/2 5/1 6/1 7/2 8/1 drop=\"\" keep=\"\"\n",
	"3/4": "[10] map[k:[v0]]: 1[l:1] 2[] 3[drop:1] 2[]\n[11] map[k:[v1]]: 1[l:1] 4[:1|drop:2|:3] 5[m:1]\n[12] map[k:[v2]]: 1[l:1] 3[drop:1] 6[:1]\n[13] map[k:[v3]]: 2[] 3[drop:1]\n[14] map[k:[v4]]: 1[l:1] 7[drop:1|:2] 8[:1|m:2]\nlocs=8: 1/1 2/0 3/1 4/3 5/1 6/1 7/2 8/2 drop=\"\" keep=\"\"\n",
	"3/5": "[10] map[k:[v0]]: 1[l:1] 2[] 3[drop:1] 2[]\n[11] map[k:[v1]]: 1[l:1] 4[:1|drop:2|:3] 5[m:1]\n[12] map[k:[v2]]: 1[l:1] 3[drop:1] 6[:1]\n[13] map[k:[v3]]: 2[] 3[drop:1]\n[14] map[k:[v4]]: 1[l:1] 7[drop:1|:2] 8[:1|m:2]\nlocs=8: 1/1 2/0 3/1 4/3 5/1 6/1 7/2 8/2 drop=\"\" keep=\"\"\n",
	"3/7": "[10] map[k:[v0]]: 1[l:1] 2[] 3[drop:1] 2[]\n[11] map[k:[v1]]: 1[l:1] 4[:1|drop:2|:3] 5[m:1]\n[12] map[k:[v2]]: 1[l:1] 3[drop:1] 6[:1]\n[13] map[k:[v3]]: 2[] 3[drop:1]\n[14] map[k:[v4]]: 1[l:1] 7[drop:1|:2] 8[:1|m:2]\nlocs=8: 1/1 2/0 3/1 4/3 5/1 6/1 7/2 8/2 drop=\"\" keep=\"\"\n",
	"4/0": "[10] map[k:[v0]]: 2[drop:2|b:3] 3[c:1]\n[11] map[k:[v1]]: 2[drop:2|b:3]\n[12] map[k:[v2]]: 2[drop:2|b:3] 2[drop:2|b:3]\n[13] map[k:[v3]]: 5[drop:1|drop:2] 3[c:1] 2[drop:2|b:3]\nlocs=5: 1/1 2/2 3/1 4/1 5/2 drop=\"\" keep=\"\"\n",
	"4/1": "[10] map[k:[v0]]: 2[drop:2|b:3] 3[c:1]\n[11] map[k:[v1]]: 2[drop:2|b:3]\n[12] map[k:[v2]]: 2[drop:2|b:3] 2[drop:2|b:3]\n[13] map[k:[v3]]: 5[drop:1|drop:2] 3[c:1] 2[drop:2|b:3]\nlocs=5: 1/1 2/2 3/1 4/1 5/2 drop=\"\" keep=\"\"\n",
	"4/2": "[10] map[k:[v0]]: 2[a:1|drop:2|b:3] 3[c:1]\n[11] map[k:[v1]]: 2[a:1|drop:2|b:3]\n[12] map[k:[v2]]: 2[a:1|drop:2|b:3] 2[a:1|drop:2|b:3]\n[13] map[k:[v3]]: 5[drop:1|drop:2] 3[c:1] 2[a:1|drop:2|b:3]\nlocs=5: 1/1 2/3 3/1 4/1 5/2 drop=\"\" keep=\"\"\n",
	"4/3": "[10] map[k:[v0]]: 1[z:1] 2[a:1|drop:2|b:3] 3[c:1]\n[11] map[k:[v1]]: 1[z:1] 2[a:1|drop:2|b:3]\n[12] map[k:[v2]]: 2[a:1|drop:2|b:3] 2[a:1|drop:2|b:3]\n[13] map[k:[v3]]: 4[w:1] 5[drop:1|drop:2] 3[c:1] 2[a:1|drop:2|b:3]\nlocs=5: 1/1 2/3 3/1 4/1 5/2 drop=\"\" keep=\"\"\n",
	"4/4": "[10] map[k:[v0]]: 1[z:1] 2[a:1|drop:2|b:3] 3[c:1]\n[11] map[k:[v1]]: 1[z:1] 2[a:1|drop:2|b:3]\n[12] map[k:[v2]]: 2[a:1|drop:2|b:3] 2[a:1|drop:2|b:3]\n[13] map[k:[v3]]: 4[w:1] 5[drop:1|drop:2] 3[c:1] 2[a:1|drop:2|b:3]\nlocs=5: 1/1 2/3 3/1 4/1 5/2 drop=\"\" keep=\"\"\n",
	"4/5": "[10] map[k:[v0]]: 1[z:1] 2[a:1|drop:2|b:3] 3[c:1]\n[11] map[k:[v1]]: 1[z:1] 2[a:1|drop:2|b:3]\n[12] map[k:[v2]]: 2[a:1|drop:2|b:3] 2[a:1|drop:2|b:3]\n[13] map[k:[v3]]: 4[w:1] 5[drop:1|drop:2] 3[c:1] 2[a:1|drop:2|b:3]\nlocs=5: 1/1 2/3 3/1 4/1 5/2 drop=\"\" keep=\"\"\n",
	"4/7": "[10] map[k:[v0]]: 1[z:1] 2[a:1|drop:2|b:3] 3[c:1]\n[11] map[k:[v1]]: 1[z:1] 2[a:1|drop:2|b:3]\n[12] map[k:[v2]]: 2[a:1|drop:2|b:3] 2[a:1|drop:2|b:3]\n[13] map[k:[v3]]: 4[w:1] 5[drop:1|drop:2] 3[c:1] 2[a:1|drop:2|b:3]\nlocs=5: 1/1 2/3 3/1 4/1 5/2 drop=\"\" keep=\"\"\n",
	"5/0": "[10] map[k:[v0]]: 1[l:1] 2[ns::(anonymous namespace)::drop(int):1] 3[m:1]\n[11] map[k:[v1]]: 1[l:1] 4[ns::operator()(int):1] 3[m:1]\n[12] map[k:[v2]]: 1[l:1] 5[other:1|ns::operator():2] 3[m:1]\nlocs=5: 1/1 2/1 3/1 4/1 5/2 drop=\"\" keep=\"\"\n",
	"5/1": "[10] map[k:[v0]]: 1[l:1] 2[ns::(anonymous namespace)::drop(int):1] 3[m:1]\n[11] map[k:[v1]]: 1[l:1] 4[ns::operator()(int):1] 3[m:1]\n[12] map[k:[v2]]: 1[l:1] 5[other:1|ns::operator():2] 3[m:1]\nlocs=5: 1/1 2/1 3/1 4/1 5/2 drop=\"\" keep=\"\"\n",
	"5/2": "[10] map[k:[v0]]: 1[l:1] 2[ns::(anonymous namespace)::drop(int):1] 3[m:1]\n[11] map[k:[v1]]: 1[l:1] 4[ns::operator()(int):1] 3[m:1]\n[12] map[k:[v2]]: 1[l:1] 5[other:1|ns::operator():2] 3[m:1]\nlocs=5: 1/1 2/1 3/1 4/1 5/2 drop=\"\" keep=\"\"\n",
	"5/3": "[10] map[k:[v0]]: 1[l:1] 2[ns::(anonymous namespace)::drop(int):1] 3[m:1]\n[11] map[k:[v1]]: 1[l:1] 4[ns::operator()(int):1] 3[m:1]\n[12] map[k:[v2]]: 1[l:1] 5[other:1|ns::operator():2] 3[m:1]\nlocs=5: 1/1 2/1 3/1 4/1 5/2 drop=\"\" keep=\"\"\n",
	"5/4": "[10] map[k:[v0]]: 1[l:1] 2[ns::(anonymous namespace)::drop(int):1] 3[m:1]\n[11] map[k:[v1]]: 1[l:1] 4[ns::operator()(int):1] 3[m:1]\n[12] map[k:[v2]]: 1[l:1] 5[other:1|ns::operator():2] 3[m:1]\nlocs=5: 1/1 2/1 3/1 4/1 5/2 drop=\"\" keep=\"\"\n",
	"5/5": "[10] map[k:[v0]]: 2[ns::(anonymous namespace)::drop(int):1] 3[m:1]\n[11] map[k:[v1]]: 4[ns::operator()(int):1] 3[m:1]\n[12] map[k:[v2]]: 5[ns::operator():2] 3[m:1]\nlocs=5: 1/1 2/1 3/1 4/1 5/1 drop=\"\" keep=\"\"\n",
	"5/7": "[10] map[k:[v0]]: 1[l:1] 2[ns::(anonymous namespace)::drop(int):1] 3[m:1]\n[11] map[k:[v1]]: 1[l:1] 4[ns::operator()(int):1] 3[m:1]\n[12] map[k:[v2]]: 1[l:1] 5[other:1|ns::operator():2] 3[m:1]\nlocs=5: 1/1 2/1 3/1 4/1 5/2 drop=\"\" keep=\"\"\n",
}
var zzCWantPU = map[string]string{
	"0/0": "[10] map[k:[v0]]: 2[drop:1|mid:2] 3[user:1] 4[main:1]\n[11] map[k:[v1]]: 2[drop:1|mid:2] 4[main:1]\n[12] map[k:[v2]]: 2[drop:1|mid:2] 4[main:1]\n[13] map[k:[v3]]: 6[drop:2] 7[y:1] 4[main:1]\nlocs=7: 1/1 2/2 3/1 4/1 5/1 6/1 7/1 drop=\"\" keep=\"\"\n",
	"0/1": "[10] map[k:[v0]]: 2[drop:1|mid:2] 3[user:1] 4[main:1]\n[11] map[k:[v1]]: 2[drop:1|mid:2] 4[main:1]\n[12] map[k:[v2]]: 2[drop:1|mid:2] 4[main:1]\n[13] map[k:[v3]]: 6[drop:2] 7[y:1] 4[main:1]\nlocs=7: 1/1 2/2 3/1 4/1 5/1 6/1 7/1 drop=\"\" keep=\"\"\n",
	"0/2": "[10] map[k:[v0]]: 1[leaf:1] 2[drop:1|mid:2] 3[user:1] 4[main:1]\n[11] map[k:[v1]]: 2[drop:1|mid:2] 4[main:1]\n[12] map[k:[v2]]: 2[drop:1|mid:2] 4[main:1]\n[13] map[k:[v3]]: 6[drop:2] 7[y:1] 4[main:1]\nlocs=7: 1/1 2/2 3/1 4/1 5/1 6/1 7/1 drop=\"\" keep=\"\"\n",
	"0/3": "[10] map[k:[v0]]: 1[leaf:1] 2[drop:1|mid:2] 3[user:1] 4[main:1]\n[11] map[k:[v1]]: 5[other:1] 2[drop:1|mid:2] 4[main:1]\n[12] map[k:[v2]]: 2[drop:1|mid:2] 4[main:1]\n[13] map[k:[v3]]: 6[x:1|drop:2] 7[y:1] 4[main:1]\nlocs=7: 1/1 2/2 3/1 4/1 5/1 6/2 7/1 drop=\"\" keep=\"\"\n",
	"0/4": "[10] map[k:[v0]]: 1[leaf:1] 2[drop:1|mid:2] 3[user:1] 4[main:1]\n[11] map[k:[v1]]: 5[other:1] 2[drop:1|mid:2] 4[main:1]\n[12] map[k:[v2]]: 2[drop:1|mid:2] 4[main:1]\n[13] map[k:[v3]]: 6[x:1|drop:2] 7[y:1] 4[main:1]\nlocs=7: 1/1 2/2 3/1 4/1 5/1 6/2 7/1 drop=\"\" keep=\"\"\n",
	"0/5": "[10] map[k:[v0]]: 1[leaf:1] 2[drop:1|mid:2] 3[user:1] 4[main:1]\n[11] map[k:[v1]]: 5[other:1] 2[drop:1|mid:2] 4[main:1]\n[12] map[k:[v2]]: 2[drop:1|mid:2] 4[main:1]\n[13] map[k:[v3]]: 6[x:1|drop:2] 7[y:1] 4[main:1]\nlocs=7: 1/1 2/2 3/1 4/1 5/1 6/2 7/1 drop=\"\" keep=\"\"\n",
	"0/7": "[10] map[k:[v0]]: 2[drop:1|mid:2] 3[user:1] 4[main:1]\n[11] map[k:[v1]]: 2[drop:1|mid:2] 4[main:1]\n[12] map[k:[v2]]: 2[drop:1|mid:2] 4[main:1]\n[13] map[k:[v3]]: 6[drop:2] 7[y:1] 4[main:1]\nlocs=7: 1/1 2/2 3/1 4/1 5/1 6/1 7/1 drop=\"\" keep=\"\"\n",
	"1/0": "[10] map[k:[v0]]: 3[drop:1]\n[11] map[k:[v1]]: 3[drop:1] 1[a:1] 2[b:1]\n[12] map[k:[v2]]: 3[drop:1]\n[13] map[k:[v3]]: 4[drop:2]\n[14] map[k:[v4]]: 5[drop:1|a:2]\n[15] map[k:[v5]]: 3[drop:1] 3[drop:1]\n[16] map[k:[v6]]: 3[drop:1] 2[b:1] 3[drop:1]\nlocs=5: 1/1 2/1 3/1 4/1 5/2 drop=\"\" keep=\"\"\n",
	"1/1": "[10] map[k:[v0]]: 3[drop:1]\n[11] map[k:[v1]]: 3[drop:1] 1[a:1] 2[b:1]\n[12] map[k:[v2]]: 3[drop:1]\n[13] map[k:[v3]]: 4[drop:2]\n[14] map[k:[v4]]: 5[drop:1|a:2]\n[15] map[k:[v5]]: 3[drop:1] 3[drop:1]\n[16] map[k:[v6]]: 3[drop:1] 2[b:1] 3[drop:1]\nlocs=5: 1/1 2/1 3/1 4/1 5/2 drop=\"\" keep=\"\"\n",
	"1/2": "[10] map[k:[v0]]: 1[a:1] 2[b:1] 3[drop:1]\n[11] map[k:[v1]]: 3[drop:1] 1[a:1] 2[b:1]\n[12] map[k:[v2]]: 3[drop:1]\n[13] map[k:[v3]]: 4[a:1|drop:2]\n[14] map[k:[v4]]: 5[drop:1|a:2]\n[15] map[k:[v5]]: 1[a:1] 3[drop:1] 3[drop:1]\n[16] map[k:[v6]]: 1[a:1] 3[drop:1] 2[b:1] 3[drop:1]\nlocs=5: 1/1 2/1 3/1 4/2 5/2 drop=\"\" keep=\"\"\n",
	"1/3": "[10] map[k:[v0]]: 1[a:1] 2[b:1] 3[drop:1]\n[11] map[k:[v1]]: 3[drop:1] 1[a:1] 2[b:1]\n[12] map[k:[v2]]: 3[drop:1]\n[13] map[k:[v3]]: 4[a:1|drop:2]\n[14] map[k:[v4]]: 5[drop:1|a:2]\n[15] map[k:[v5]]: 1[a:1] 3[drop:1] 3[drop:1]\n[16] map[k:[v6]]: 1[a:1] 3[drop:1] 2[b:1] 3[drop:1]\nlocs=5: 1/1 2/1 3/1 4/2 5/2 drop=\"\" keep=\"\"\n",
	"1/4": "[10] map[k:[v0]]: 1[a:1] 2[b:1] 3[drop:1]\n[11] map[k:[v1]]: 3[drop:1] 1[a:1] 2[b:1]\n[12] map[k:[v2]]: 3[drop:1]\n[13] map[k:[v3]]: 4[a:1|drop:2]\n[14] map[k:[v4]]: 5[drop:1|a:2]\n[15] map[k:[v5]]: 1[a:1] 3[drop:1] 3[drop:1]\n[16] map[k:[v6]]: 1[a:1] 3[drop:1] 2[b:1] 3[drop:1]\nlocs=5: 1/1 2/1 3/1 4/2 5/2 drop=\"\" keep=\"\"\n",
	"1/5": "[10] map[k:[v0]]: 1[a:1] 2[b:1] 3[drop:1]\n[11] map[k:[v1]]: 3[drop:1] 1[a:1] 2[b:1]\n[12] map[k:[v2]]: 3[drop:1]\n[13] map[k:[v3]]: 4[a:1|drop:2]\n[14] map[k:[v4]]: 5[drop:1|a:2]\n[15] map[k:[v5]]: 1[a:1] 3[drop:1] 3[drop:1]\n[16] map[k:[v6]]: 1[a:1] 3[drop:1] 2[b:1] 3[drop:1]\nlocs=5: 1/1 2/1 3/1 4/2 5/2 drop=\"\" keep=\"\"\n",
	"1/7": "[10] map[k:[v0]]: 3[drop:1]\n[11] map[k:[v1]]: 3[drop:1] 1[a:1] 2[b:1]\n[12] map[k:[v2]]: 3[drop:1]\n[13] map[k:[v3]]: 4[drop:2]\n[14] map[k:[v4]]: 5[drop:1|a:2]\n[15] map[k:[v5]]: 3[drop:1] 3[drop:1]\n[16] map[k:[v6]]: 3[drop:1] 2[b:1] 3[drop:1]\nlocs=5: 1/1 2/1 3/1 4/1 5/2 drop=\"\" keep=\"\"\n",
	"2/0": "[10] map[k:[v0]]: 2[drop(int):1] 3[m:1]\n[11] map[k:[v1]]: 4[dropkeep:1] 3[m:1]\n[12] map[k:[v2]]: 5[dropkeep:2|drop(x):3|r:4] 3[m:1]\n[13] map[k:[v3]]: 6[.drop:1] 4[dropkeep:1] 3[m:1]\nlocs=6: 1/1 2/1 3/1 4/1 5/3 6/1 drop=\"\" keep=\"\"\n",
	"2/1": "[10] map[k:[v0]]: 2[drop(int):1] 3[m:1]\n[11] map[k:[v1]]: 4[dropkeep:1] 3[m:1]\n[12] map[k:[v2]]: 5[dropkeep:2|drop(x):3|r:4] 3[m:1]\n[13] map[k:[v3]]: 6[.drop:1] 4[dropkeep:1] 3[m:1]\nlocs=6: 1/1 2/1 3/1 4/1 5/3 6/1 drop=\"\" keep=\"\"\n",
	"2/2": "[10] map[k:[v0]]: 2[drop(int):1] 3[m:1]\n[11] map[k:[v1]]: 4[dropkeep:1] 3[m:1]\n[12] map[k:[v2]]: 5[dropkeep:2|drop(x):3|r:4] 3[m:1]\n[13] map[k:[v3]]: 6[.drop:1] 4[dropkeep:1] 3[m:1]\nlocs=6: 1/1 2/1 3/1 4/1 5/3 6/1 drop=\"\" keep=\"\"\n",
	"2/3": "[10] map[k:[v0]]: 1[l:1] 2[drop(int):1] 3[m:1]\n[11] map[k:[v1]]: 1[l:1] 4[dropkeep:1] 3[m:1]\n[12] map[k:[v2]]: 1[l:1] 5[q:1|dropkeep:2|drop(x):3|r:4] 3[m:1]\n[13] map[k:[v3]]: 1[l:1] 6[.drop:1] 4[dropkeep:1] 3[m:1]\nlocs=6: 1/1 2/1 3/1 4/1 5/4 6/1 drop=\"\" keep=\"\"\n",
	"2/4": "[10] map[k:[v0]]: 1[l:1] 2[drop(int):1] 3[m:1]\n[11] map[k:[v1]]: 1[l:1] 4[dropkeep:1] 3[m:1]\n[12] map[k:[v2]]: 1[l:1] 5[q:1|dropkeep:2|drop(x):3|r:4] 3[m:1]\n[13] map[k:[v3]]: 1[l:1] 6[.drop:1] 4[dropkeep:1] 3[m:1]\nlocs=6: 1/1 2/1 3/1 4/1 5/4 6/1 drop=\"\" keep=\"\"\n",
	"2/5": "[10] map[k:[v0]]: 1[l:1] 2[drop(int):1] 3[m:1]\n[11] map[k:[v1]]: 1[l:1] 4[dropkeep:1] 3[m:1]\n[12] map[k:[v2]]: 1[l:1] 5[q:1|dropkeep:2|drop(x):3|r:4] 3[m:1]\n[13] map[k:[v3]]: 1[l:1] 6[.drop:1] 4[dropkeep:1] 3[m:1]\nlocs=6: 1/1 2/1 3/1 4/1 5/4 6/1 drop=\"\" keep=\"\"\n",
	"2/7": "[10] map[k:[v0]]: 2[drop(int):1] 3[m:1]\n[11] map[k:[v1]]: 4[dropkeep:1] 3[m:1]\n[12] map[k:[v2]]: 5[dropkeep:2|drop(x):3|r:4] 3[m:1]\n[13] map[k:[v3]]: 6[.drop:1] 4[dropkeep:1] 3[m:1]\nlocs=6: 1/1 2/1 3/1 4/1 5/3 6/1 drop=\"\" keep=\"\"\n",
	"3/0": "[10] map[k:[v0]]: 3[drop:1] 2[]\n[11] map[k:[v1]]: 4[drop:2|:3] 5[m:1]\n[12] map[k:[v2]]: 3[drop:1] 6[:1]\n[13] map[k:[v3]]: 3[drop:1]\n[14] map[k:[v4]]: 7[drop:1|:2] 8[:1|m:2]\nlocs=8: 1/1 2/0 3/1 4/2 5/1 6/1 7/2 8/2 drop=\"\" keep=\"\"\n",
	"3/1": "[10] map[k:[v0]]: 3[drop:1] 2[]\n[11] map[k:[v1]]: 4[drop:2|:3] 5[m:1]\n[12] map[k:[v2]]: 3[drop:1] 6[:1]\n[13] map[k:[v3]]: 3[drop:1]\n[14] map[k:[v4]]: 7[drop:1|:2] 8[:1|m:2]\nlocs=8: 1/1 2/0 3/1 4/2 5/1 6/1 7/2 8/2 drop=\"\" keep=\"\"\n",
	"3/2": "[10] map[k:[v0]]: 3[drop:1] 2[]\n[11] map[k:[v1]]: 4[drop:2|:3] 5[m:1]\n[12] map[k:[v2]]: 3[drop:1] 6[:1]\n[13] map[k:[v3]]: 3[drop:1]\n[14] map[k:[v4]]: 7[drop:1|:2] 8[:1|m:2]\nlocs=8: 1/1 2/0 3/1 4/2 5/1 6/1 7/2 8/2 drop=\"\" keep=\"\"\n",
	"3/3": "[10] map[k:[v0]]: 1[l:1] 2[] 3[drop:1] 2[]\n[11] map[k:[v1]]: 1[l:1] 4[drop:2|:3] 5[m:1]\n[12] map[k:[v2]]: 1[l:1] 3[drop:1] 6[:1]\n[13] map[k:[v3]]: 3[drop:1]\n[14] map[k:[v4]]: 1[l:1] 7[drop:1|:2] 8[m:2]\nlocs=8: 1/1 2/0 3/1 4/2 5/1 6/1 7/2 8/1 drop=\"\" keep=\"\"\n",
	"3/4": "[10] map[k:[v0]]: 1[l:1] 2[] 3[drop:1] 2[]\n[11] map[k:[v1]]: 1[l:1] 4[:1|drop:2|:3] 5[m:1]\n[12] map[k:[v2]]: 1[l:1] 3[drop:1] 6[:1]\n[13] map[k:[v3]]: 2[] 3[drop:1]\n[14] map[k:[v4]]: 1[l:1] 7[drop:1|:2] 8[:1|m:2]\nlocs=8: 1/1 2/0 3/1 4/3 5/1 6/1 7/2 8/2 drop=\"\" keep=\"\"\n",
	"3/5": "[10] map[k:[v0]]: 1[l:1] 2[] 3[drop:1] 2[]\n[11] map[k:[v1]]: 1[l:1] 4[:1|drop:2|:3] 5[m:1]\n[12] map[k:[v2]]: 1[l:1] 3[drop:1] 6[:1]\n[13] map[k:[v3]]: 2[] 3[drop:1]\n[14] map[k:[v4]]: 1[l:1] 7[drop:1|:2] 8[:1|m:2]\nlocs=8: 1/1 2/0 3/1 4/3 5/1 6/1 7/2 8/2 drop=\"\" keep=\"\"\n",
	"3/7": "[10] map[k:[v0]]: 3[drop:1] 2[]\n[11] map[k:[v1]]: 4[drop:2|:3] 5[m:1]\n[12] map[k:[v2]]: 3[drop:1] 6[:1]\n[13] map[k:[v3]]: 3[drop:1]\n[14] map[k:[v4]]: 7[drop:1|:2] 8[:1|m:2]\nlocs=8: 1/1 2/0 3/1 4/2 5/1 6/1 7/2 8/2 drop=\"\" keep=\"\"\n",
	"4/0": "[10] map[k:[v0]]: 2[drop:2|b:3] 3[c:1]\n[11] map[k:[v1]]: 2[drop:2|b:3]\n[12] map[k:[v2]]: 2[drop:2|b:3] 2[drop:2|b:3]\n[13] map[k:[v3]]: 5[drop:1|drop:2] 3[c:1] 2[drop:2|b:3]\nlocs=5: 1/1 2/2 3/1 4/1 5/2 drop=\"\" keep=\"\"\n",
	"4/1": "[10] map[k:[v0]]: 2[drop:2|b:3] 3[c:1]\n[11] map[k:[v1]]: 2[drop:2|b:3]\n[12] map[k:[v2]]: 2[drop:2|b:3] 2[drop:2|b:3]\n[13] map[k:[v3]]: 5[drop:1|drop:2] 3[c:1] 2[drop:2|b:3]\nlocs=5: 1/1 2/2 3/1 4/1 5/2 drop=\"\" keep=\"\"\n",
	"4/2": "[10] map[k:[v0]]: 2[a:1|drop:2|b:3] 3[c:1]\n[11] map[k:[v1]]: 2[a:1|drop:2|b:3]\n[12] map[k:[v2]]: 2[a:1|drop:2|b:3] 2[a:1|drop:2|b:3]\n[13] map[k:[v3]]: 5[drop:1|drop:2] 3[c:1] 2[a:1|drop:2|b:3]\nlocs=5: 1/1 2/3 3/1 4/1 5/2 drop=\"\" keep=\"\"\n",
	"4/3": "[10] map[k:[v0]]: 1[z:1] 2[a:1|drop:2|b:3] 3[c:1]\n[11] map[k:[v1]]: 1[z:1] 2[a:1|drop:2|b:3]\n[12] map[k:[v2]]: 2[a:1|drop:2|b:3] 2[a:1|drop:2|b:3]\n[13] map[k:[v3]]: 4[w:1] 5[drop:1|drop:2] 3[c:1] 2[a:1|drop:2|b:3]\nlocs=5: 1/1 2/3 3/1 4/1 5/2 drop=\"\" keep=\"\"\n",
	"4/4": "[10] map[k:[v0]]: 1[z:1] 2[a:1|drop:2|b:3] 3[c:1]\n[11] map[k:[v1]]: 1[z:1] 2[a:1|drop:2|b:3]\n[12] map[k:[v2]]: 2[a:1|drop:2|b:3] 2[a:1|drop:2|b:3]\n[13] map[k:[v3]]: 4[w:1] 5[drop:1|drop:2] 3[c:1] 2[a:1|drop:2|b:3]\nlocs=5: 1/1 2/3 3/1 4/1 5/2 drop=\"\" keep=\"\"\n",
	"4/5": "[10] map[k:[v0]]: 1[z:1] 2[a:1|drop:2|b:3] 3[c:1]\n[11] map[k:[v1]]: 1[z:1] 2[a:1|drop:2|b:3]\n[12] map[k:[v2]]: 2[a:1|drop:2|b:3] 2[a:1|drop:2|b:3]\n[13] map[k:[v3]]: 4[w:1] 5[drop:1|drop:2] 3[c:1] 2[a:1|drop:2|b:3]\nlocs=5: 1/1 2/3 3/1 4/1 5/2 drop=\"\" keep=\"\"\n",
	"4/7": "[10] map[k:[v0]]: 2[drop:2|b:3] 3[c:1]\n[11] map[k:[v1]]: 2[drop:2|b:3]\n[12] map[k:[v2]]: 2[drop:2|b:3] 2[drop:2|b:3]\n[13] map[k:[v3]]: 5[drop:1|drop:2] 3[c:1] 2[drop:2|b:3]\nlocs=5: 1/1 2/2 3/1 4/1 5/2 drop=\"\" keep=\"\"\n",
	"5/0": "[10] map[k:[v0]]: 2[ns::(anonymous namespace)::drop(int):1] 3[m:1]\n[11] map[k:[v1]]: 1[l:1] 4[ns::operator()(int):1] 3[m:1]\n[12] map[k:[v2]]: 1[l:1] 5[other:1|ns::operator():2] 3[m:1]\nlocs=5: 1/1 2/1 3/1 4/1 5/2 drop=\"\" keep=\"\"\n",
	"5/1": "[10] map[k:[v0]]: 2[ns::(anonymous namespace)::drop(int):1] 3[m:1]\n[11] map[k:[v1]]: 1[l:1] 4[ns::operator()(int):1] 3[m:1]\n[12] map[k:[v2]]: 1[l:1] 5[other:1|ns::operator():2] 3[m:1]\nlocs=5: 1/1 2/1 3/1 4/1 5/2 drop=\"\" keep=\"\"\n",
	"5/2": "[10] map[k:[v0]]: 2[ns::(anonymous namespace)::drop(int):1] 3[m:1]\n[11] map[k:[v1]]: 4[ns::operator()(int):1] 3[m:1]\n[12] map[k:[v2]]: 5[ns::operator():2] 3[m:1]\nlocs=5: 1/1 2/1 3/1 4/1 5/1 drop=\"\" keep=\"\"\n",
	"5/3": "[10] map[k:[v0]]: 1[l:1] 2[ns::(anonymous namespace)::drop(int):1] 3[m:1]\n[11] map[k:[v1]]: 1[l:1] 4[ns::operator()(int):1] 3[m:1]\n[12] map[k:[v2]]: 1[l:1] 5[other:1|ns::operator():2] 3[m:1]\nlocs=5: 1/1 2/1 3/1 4/1 5/2 drop=\"\" keep=\"\"\n",
	"5/4": "[10] map[k:[v0]]: 1[l:1] 2[ns::(anonymous namespace)::drop(int):1] 3[m:1]\n[11] map[k:[v1]]: 1[l:1] 4[ns::operator()(int):1] 3[m:1]\n[12] map[k:[v2]]: 1[l:1] 5[other:1|ns::operator():2] 3[m:1]\nlocs=5: 1/1 2/1 3/1 4/1 5/2 drop=\"\" keep=\"\"\n",
	"5/5": "[10] map[k:[v0]]: 2[ns::(anonymous namespace)::drop(int):1] 3[m:1]\n[11] map[k:[v1]]: 4[ns::operator()(int):1] 3[m:1]\n[12] map[k:[v2]]: 5[ns::operator():2] 3[m:1]\nlocs=5: 1/1 2/1 3/1 4/1 5/1 drop=\"\" keep=\"\"\n",
	"5/7": "[10] map[k:[v0]]: 2[ns::(anonymous namespace)::drop(int):1] 3[m:1]\n[11] map[k:[v1]]: 1[l:1] 4[ns::operator()(int):1] 3[m:1]\n[12] map[k:[v2]]: 1[l:1] 5[other:1|ns::operator():2] 3[m:1]\nlocs=5: 1/1 2/1 3/1 4/1 5/2 drop=\"\" keep=\"\"\n",
}

// TestZZEquivC checks PruneFrom with anchored and unanchored expressions against
// outputs recorded on the unmodified tree.
func TestZZEquivC(t *testing.T) {
	n := 0
	for pi, sp := range zzCProfiles {
		for ri, rx := range zzCRx {
			if rx[0] == "" {
				continue
			}
			key := fmt.Sprintf("%d/%d", pi, ri)
			p := zzCBuild(sp)
			p.PruneFrom(regexp.MustCompile("^(" + rx[0] + ")$"))
			if got, want := zzCDump(p), zzCWantPF[key]; got != want || want == "" {
				t.Errorf("PruneFrom anchored %s:\n got %q\nwant %q", key, got, want)
			}
			p = zzCBuild(sp)
			p.PruneFrom(regexp.MustCompile(rx[0]))
			if got, want := zzCDump(p), zzCWantPU[key]; got != want || want == "" {
				t.Errorf("PruneFrom unanchored %s:\n got %q\nwant %q", key, got, want)
			}
			n++
		}
	}
	if n != 42 {
		t.Fatalf("ran %d cases", n)
	}
}
