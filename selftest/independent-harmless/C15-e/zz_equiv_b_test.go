package measurement

import (
	"crypto/sha256"
	"fmt"
	"math"
	"os"
	"strings"
	"testing"
)

func zzValues() []int64 {
	base := []int64{0, 1, 2, 9, 99, 999, 1000, 1001, 1023, 1024, 1025, 1535, 1536,
		59999, 60000, 999999, 1000000, 1<<20 - 1, 1 << 20, 1<<20 + 1,
		999999999, 1000000000, 1<<30 - 1, 1 << 30, 59999999999, 60000000000,
		3599999999999, 3600000000000, 3600000000001, 1<<40 - 1, 1 << 40,
		1<<50 - 1, 1 << 50, 1<<50 + 1, 1 << 53, 1<<53 + 1, 1 << 62, math.MaxInt64 - 1, math.MaxInt64}
	var out []int64
	for _, v := range base {
		out = append(out, v, -v)
	}
	return append(out, math.MinInt64, math.MinInt64+1)
}

var zzFrom = []string{
	"b", "B", "byte", "bytes", "Bytes", "kb", "KB", "kilobytes", "mbyte", "MB", "gigabyte", "gb", "TB", "tbytes", "pb", "petabytes",
	"ns", "nanoseconds", "us", "μs", "microsecond", "ms", "milliseconds", "s", "sec", "secs", "seconds", "Second", "hr", "hrs", "hour", "hours",
	"nanogcu", "microgcus", "milligcu", "gcu", "GCU", "gcus", "kilogcu", "megagcu", "gigagcu", "teragcu", "petagcu",
	"", "count", "samples", "widgets", "bs", "ss", "n*GCU", "minimum", "auto", "mss",
}

var zzTo = []string{
	"auto", "minimum", "b", "bytes", "kB", "megabyte", "GB", "tb", "PB",
	"ns", "us", "μs", "ms", "s", "seconds", "hrs", "hour",
	"nanogcu", "milligcu", "gcu", "kilogcu", "petagcu",
	"", "count", "sample", "unit", "default", "widgets", "Auto", "mss",
}

func TestZZEquivScaleGrid(t *testing.T) {
	h := sha256.New()
	n := 0
	for _, v := range zzValues() {
		for _, f := range zzFrom {
			for _, to := range zzTo {
				sv, su := Scale(v, f, to)
				fmt.Fprintf(h, "%d|%s|%s|%016x|%s|%s\n", v, f, to, math.Float64bits(sv), su, ScaledLabel(v, f, to))
				n++
			}
		}
	}
	got := fmt.Sprintf("%d:%x", n, h.Sum(nil))
	const want = "127200:45a8a065351afb328037bad9ff5be02bfaac82abc949d5949630e1450d151ab1"
	if os.Getenv("ZZ_PRINT") != "" {
		fmt.Printf("GOLD %q\n", got)
		return
	}
	if got != want {
		t.Errorf("grid digest: got %s want %s", got, want)
	}
}

func TestZZEquivScaleRows(t *testing.T) {
	rows := []struct {
		v        int64
		from, to string
	}{
		{1023, "bytes", "auto"}, {1024, "bytes", "auto"}, {-1024, "bytes", "auto"}, {1<<20 - 1, "b", "minimum"},
		{1 << 50, "byte", "auto"}, {math.MaxInt64, "kb", "auto"}, {math.MinInt64, "bytes", "auto"}, {math.MinInt64, "ns", "hrs"},
		{0, "bytes", "auto"}, {0, "hours", "minimum"}, {999, "ns", "auto"}, {1000, "ns", "auto"}, {59999999999, "ns", "auto"},
		{3599999999999, "ns", "auto"}, {3600000000000, "ns", "auto"}, {-3600000000000, "nanoseconds", "auto"},
		{5, "hrs", "seconds"}, {5, "hours", "bytes"}, {5, "hours", "widgets"}, {5, "widgets", "hours"}, {5, "widgets", "auto"},
		{7, "kilogcu", "auto"}, {7, "nanogcu", "auto"}, {0, "gcu", "auto"}, {1500, "milligcu", "gcu"}, {1, "petagcu", "nanogcu"},
		{12, "MB", "kb"}, {12, "mb", "mb"}, {-12, "Megabytes", "GB"}, {3, "count", "auto"}, {3, "", ""}, {3, "ms", ""},
	}
	want := strings.Split(`1023 "bytes"->"auto" = 1023 "B" label="1023B"
1024 "bytes"->"auto" = 1 "kB" label="1kB"
-1024 "bytes"->"auto" = -1 "kB" label="-1kB"
1048575 "b"->"minimum" = 1023.9990234375 "kB" label="1024kB"
1125899906842624 "byte"->"auto" = 1 "PB" label="1PB"
9223372036854775807 "kb"->"auto" = 8.388608e+06 "PB" label="8388608PB"
-9223372036854775808 "bytes"->"auto" = -8192 "PB" label="-8192PB"
-9223372036854775808 "ns"->"hrs" = -2.5620477880152157e+06 "hrs" label="-2562047.79hrs"
0 "bytes"->"auto" = 0 "B" label="0"
0 "hours"->"minimum" = 0 "s" label="0"
999 "ns"->"auto" = 999 "ns" label="999ns"
1000 "ns"->"auto" = 1 "us" label="1us"
59999999999 "ns"->"auto" = 59.999999999 "s" label="60s"
3599999999999 "ns"->"auto" = 3599.999999999 "s" label="3600s"
3600000000000 "ns"->"auto" = 1 "hrs" label="1hrs"
-3600000000000 "nanoseconds"->"auto" = -1 "hrs" label="-1hrs"
5 "hrs"->"seconds" = 18000 "s" label="18000s"
5 "hours"->"bytes" = 18000 "s" label="18000s"
5 "hours"->"widgets" = 18000 "s" label="18000s"
5 "widgets"->"hours" = 5 "hours" label="5hours"
5 "widgets"->"auto" = 5 "" label="5"
7 "kilogcu"->"auto" = 7 "k*GCU" label="7k*GCU"
7 "nanogcu"->"auto" = 7 "n*GCU" label="7n*GCU"
0 "gcu"->"auto" = 0 "GCU" label="0"
1500 "milligcu"->"gcu" = 1.5 "GCU" label="1.50GCU"
1 "petagcu"->"nanogcu" = 1e+24 "n*GCU" label="999999999999999983222784n*GCU"
12 "MB"->"kb" = 12288 "kB" label="12288kB"
12 "mb"->"mb" = 12 "MB" label="12MB"
-12 "Megabytes"->"GB" = -0.01171875 "GB" label="-0.01GB"
3 "count"->"auto" = 3 "" label="3"
3 ""->"" = 3 "" label="3"
3 "ms"->"" = 0.003 "s" label="0"`, "\n")
	var got []string
	for _, r := range rows {
		sv, su := Scale(r.v, r.from, r.to)
		got = append(got, fmt.Sprintf("%d %q->%q = %v %q label=%q", r.v, r.from, r.to, sv, su, ScaledLabel(r.v, r.from, r.to)))
	}
	if os.Getenv("ZZ_PRINT") != "" {
		fmt.Printf("ROWS\n%s\nENDROWS\n", strings.Join(got, "\n"))
		return
	}
	if len(got) != len(want) {
		t.Fatalf("got %d rows want %d", len(got), len(want))
	}
	for i := range got {
		if got[i] != want[i] {
			t.Errorf("row %d:\n got %s\nwant %s", i, got[i], want[i])
		}
	}
}
