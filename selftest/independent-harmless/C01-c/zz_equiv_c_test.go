package profile

// Equivalence demonstration for a behaviour-preserving change (property C01:
// profile serialization round-trips without loss). The golden hashes below
// were computed on the UNCHANGED tree; the test must pass both with and
// without the patch. Set EQUIV_PRINT=1 to print the observed values.

import (
	"bytes"
	"crypto/sha256"
	"encoding/hex"
	"fmt"
	"math"
	"os"
	"path/filepath"
	"sort"
	"strings"
	"testing"
)

type rngEqC struct{ s uint64 }

func (r *rngEqC) next() uint64 {
	r.s += 0x9e3779b97f4a7c15
	z := r.s
	z = (z ^ (z >> 30)) * 0xbf58476d1ce4e5b9
	z = (z ^ (z >> 27)) * 0x94d049bb133111eb
	return z ^ (z >> 31)
}

func (r *rngEqC) intn(n int) int { return int(r.next() % uint64(n)) }

var strPoolEqC = []string{
	"", "a", "cpu", "nanoseconds", "\xff\xfe\x80", "日本語", "x\x00y",
	"[kernel.kallsyms]_stext", "/usr/lib/libc.so.6", "main.main", "bytes",
	strings.Repeat("long/", 60), "key", "unit", "https://example.com/doc?x=1",
}

var valPoolEqC = []int64{
	0, 1, -1, 2, 127, 128, -128, 16383, 16384, 1 << 35, -(1 << 35),
	math.MaxInt64, math.MinInt64, math.MaxInt32, math.MinInt32,
}

func (r *rngEqC) str() string { return strPoolEqC[r.intn(len(strPoolEqC))] }
func (r *rngEqC) val() int64  { return valPoolEqC[r.intn(len(valPoolEqC))] }
func (r *rngEqC) u64() uint64 {
	switch r.intn(4) {
	case 0:
		return 0
	case 1:
		return uint64(r.intn(300))
	case 2:
		return math.MaxUint64 - uint64(r.intn(3))
	}
	return r.next()
}

// ids returns n distinct non-zero ids mixing small/dense, boundary and
// sparse/huge values.
func (r *rngEqC) ids(n int) []uint64 {
	seen := map[uint64]bool{0: true}
	var out []uint64
	for len(out) < n {
		var id uint64
		switch r.intn(5) {
		case 0:
			id = uint64(len(out) + 1)
		case 1:
			id = uint64(n + r.intn(3)) // around the dense/sparse boundary
		case 2:
			id = uint64(1 + r.intn(2*n+2))
		case 3:
			id = math.MaxUint64 - uint64(r.intn(4))
		default:
			id = 1<<40 + r.next()>>20
		}
		if seen[id] {
			continue
		}
		seen[id] = true
		out = append(out, id)
	}
	return out
}

func genProfileEqC(seed uint64) *Profile {
	r := &rngEqC{s: seed * 7919}
	p := &Profile{}
	nST := r.intn(4)
	for i := 0; i < nST; i++ {
		p.SampleType = append(p.SampleType, &ValueType{Type: r.str(), Unit: r.str()})
	}
	for _, id := range r.ids(r.intn(4)) {
		p.Mapping = append(p.Mapping, &Mapping{
			ID: id, Start: r.u64(), Limit: r.u64(), Offset: r.u64(),
			File: r.str(), BuildID: r.str(),
			HasFunctions: r.intn(2) == 0, HasFilenames: r.intn(2) == 0,
			HasLineNumbers: r.intn(2) == 0, HasInlineFrames: r.intn(2) == 0,
		})
	}
	for _, id := range r.ids(r.intn(6)) {
		p.Function = append(p.Function, &Function{
			ID: id, Name: r.str(), SystemName: r.str(), Filename: r.str(), StartLine: r.val(),
		})
	}
	for _, id := range r.ids(r.intn(7)) {
		l := &Location{ID: id, Address: r.u64(), IsFolded: r.intn(3) == 0}
		if len(p.Mapping) > 0 && r.intn(3) != 0 {
			l.Mapping = p.Mapping[r.intn(len(p.Mapping))]
		}
		if len(p.Function) > 0 {
			for j, n := 0, r.intn(4); j < n; j++ {
				l.Line = append(l.Line, Line{
					Function: p.Function[r.intn(len(p.Function))],
					Line:     r.val(), Column: r.val(),
				})
			}
		}
		p.Location = append(p.Location, l)
	}
	if nST > 0 {
		for i, n := 0, r.intn(6); i < n; i++ {
			s := &Sample{}
			if len(p.Location) > 0 {
				for j, k := 0, r.intn(6); j < k; j++ {
					s.Location = append(s.Location, p.Location[r.intn(len(p.Location))])
				}
			}
			for j := 0; j < nST; j++ {
				s.Value = append(s.Value, r.val())
			}
			for j, k := 0, r.intn(3); j < k; j++ {
				if s.Label == nil {
					s.Label = map[string][]string{}
				}
				key := r.str()
				for v, nv := 0, 1+r.intn(3); v < nv; v++ {
					s.Label[key] = append(s.Label[key], r.str())
				}
			}
			for j, k := 0, r.intn(3); j < k; j++ {
				if s.NumLabel == nil {
					s.NumLabel = map[string][]int64{}
					s.NumUnit = map[string][]string{}
				}
				key := r.str()
				if _, dup := s.NumLabel[key]; dup {
					continue
				}
				nv := 1 + r.intn(4)
				withUnits := r.intn(2) == 0
				for v := 0; v < nv; v++ {
					s.NumLabel[key] = append(s.NumLabel[key], r.val())
					if withUnits {
						u := ""
						if r.intn(3) != 0 {
							u = r.str()
						}
						s.NumUnit[key] = append(s.NumUnit[key], u)
					}
				}
			}
			p.Sample = append(p.Sample, s)
		}
	}
	p.DropFrames, p.KeepFrames = r.str(), r.str()
	p.TimeNanos, p.DurationNanos, p.Period = r.val(), r.val(), r.val()
	switch r.intn(3) {
	case 0:
		p.PeriodType = &ValueType{}
	case 1:
		p.PeriodType = &ValueType{Type: r.str(), Unit: r.str()}
	}
	for i, n := 0, r.intn(5); i < n; i++ {
		p.Comments = append(p.Comments, r.str())
	}
	p.DefaultSampleType, p.DocURL = r.str(), r.str()
	return p
}

// dumpEqC renders every exported field of p; it is nil-safe and shows
// pointer sharing through table indices.
func dumpEqC(p *Profile) string {
	var b strings.Builder
	mi := map[*Mapping]int{}
	fi := map[*Function]int{}
	li := map[*Location]int{}
	for i, st := range p.SampleType {
		fmt.Fprintf(&b, "st%d %q %q\n", i, st.Type, st.Unit)
	}
	for i, m := range p.Mapping {
		mi[m] = i
		fmt.Fprintf(&b, "m%d id=%d %d %d %d %q %q %v %v %v %v krs=%q\n", i, m.ID, m.Start, m.Limit, m.Offset,
			m.File, m.BuildID, m.HasFunctions, m.HasFilenames, m.HasLineNumbers, m.HasInlineFrames, m.KernelRelocationSymbol)
	}
	for i, f := range p.Function {
		fi[f] = i
		fmt.Fprintf(&b, "f%d id=%d %q %q %q %d\n", i, f.ID, f.Name, f.SystemName, f.Filename, f.StartLine)
	}
	for i, l := range p.Location {
		li[l] = i
		fmt.Fprintf(&b, "l%d id=%d addr=%d folded=%v", i, l.ID, l.Address, l.IsFolded)
		if l.Mapping == nil {
			b.WriteString(" m=nil")
		} else if ix, ok := mi[l.Mapping]; ok {
			fmt.Fprintf(&b, " m=#%d", ix)
		} else {
			fmt.Fprintf(&b, " m=?%d", l.Mapping.ID)
		}
		fmt.Fprintf(&b, " nlines=%d(nil=%v)", len(l.Line), l.Line == nil)
		for _, ln := range l.Line {
			if ln.Function == nil {
				fmt.Fprintf(&b, " [nil %d %d]", ln.Line, ln.Column)
			} else if ix, ok := fi[ln.Function]; ok {
				fmt.Fprintf(&b, " [#%d %d %d]", ix, ln.Line, ln.Column)
			} else {
				fmt.Fprintf(&b, " [?%d %d %d]", ln.Function.ID, ln.Line, ln.Column)
			}
		}
		b.WriteString("\n")
	}
	for i, s := range p.Sample {
		fmt.Fprintf(&b, "s%d v=%v loc=", i, s.Value)
		for _, l := range s.Location {
			if l == nil {
				b.WriteString("nil,")
			} else if ix, ok := li[l]; ok {
				fmt.Fprintf(&b, "#%d,", ix)
			} else {
				fmt.Fprintf(&b, "?%d,", l.ID)
			}
		}
		var ks []string
		for k := range s.Label {
			ks = append(ks, k)
		}
		sort.Strings(ks)
		fmt.Fprintf(&b, " label(nil=%v)", s.Label == nil)
		for _, k := range ks {
			fmt.Fprintf(&b, " %q=%q", k, s.Label[k])
		}
		ks = nil
		for k := range s.NumLabel {
			ks = append(ks, k)
		}
		sort.Strings(ks)
		fmt.Fprintf(&b, " num(nil=%v)", s.NumLabel == nil)
		for _, k := range ks {
			fmt.Fprintf(&b, " %q=%v", k, s.NumLabel[k])
		}
		ks = nil
		for k := range s.NumUnit {
			ks = append(ks, k)
		}
		sort.Strings(ks)
		fmt.Fprintf(&b, " unit(nil=%v)", s.NumUnit == nil)
		for _, k := range ks {
			fmt.Fprintf(&b, " %q=%q", k, s.NumUnit[k])
		}
		b.WriteString("\n")
	}
	fmt.Fprintf(&b, "drop=%q keep=%q t=%d d=%d period=%d", p.DropFrames, p.KeepFrames, p.TimeNanos, p.DurationNanos, p.Period)
	if p.PeriodType == nil {
		b.WriteString(" pt=nil")
	} else {
		fmt.Fprintf(&b, " pt=%q/%q", p.PeriodType.Type, p.PeriodType.Unit)
	}
	fmt.Fprintf(&b, " comments=%q dst=%q doc=%q\n", p.Comments, p.DefaultSampleType, p.DocURL)
	return b.String()
}

func hashEqC(parts ...[]byte) string {
	h := sha256.New()
	for _, p := range parts {
		fmt.Fprintf(h, "%d:", len(p))
		h.Write(p)
	}
	return hex.EncodeToString(h.Sum(nil))[:16]
}

func checkGoldenEqC(t *testing.T, name string, got, want []string) {
	t.Helper()
	if os.Getenv("EQUIV_PRINT") != "" {
		fmt.Printf("var %s = []string{\n", name)
		for _, g := range got {
			fmt.Printf("\t%q,\n", g)
		}
		fmt.Printf("}\n")
		return
	}
	if len(got) != len(want) {
		t.Fatalf("%s: got %d entries, want %d", name, len(got), len(want))
	}
	for i := range got {
		if got[i] != want[i] {
			t.Errorf("%s[%d]: got %s, want %s", name, i, got[i], want[i])
		}
	}
}

// roundTripEqC writes p, parses it back, re-writes and re-parses, and checks
// the fixed-point requirements of the property. It returns a digest of the
// first encoding, the re-encoding and the parsed profile.
func roundTripEqC(t *testing.T, what string, p *Profile) string {
	t.Helper()
	b1 := serialize(p)
	p2, err := ParseUncompressed(b1)
	if err != nil {
		t.Fatalf("%s: parse(write(p)): %v", what, err)
	}
	if err := p2.CheckValid(); err != nil {
		t.Fatalf("%s: parsed profile invalid: %v", what, err)
	}
	d2 := dumpEqC(p2)
	b2 := serialize(p2)
	p3, err := ParseUncompressed(b2)
	if err != nil {
		t.Fatalf("%s: parse(write(parse(write(p)))): %v", what, err)
	}
	if d3 := dumpEqC(p3); d3 != d2 {
		t.Errorf("%s: parsed profile does not survive write-then-parse:\n%s\nvs\n%s", what, d2, d3)
	}
	if b3 := serialize(p3); !bytes.Equal(b2, b3) {
		t.Errorf("%s: re-serialization is not byte identical", what)
	}
	// Compressed path.
	var zbuf bytes.Buffer
	if err := p.Write(&zbuf); err != nil {
		t.Fatalf("%s: Write: %v", what, err)
	}
	if len(b1) > 0 {
		pz, err := ParseData(zbuf.Bytes())
		if err != nil {
			t.Fatalf("%s: ParseData(gz): %v", what, err)
		}
		if dz := dumpEqC(pz); dz != d2 {
			t.Errorf("%s: compressed and uncompressed round trips differ", what)
		}
	}
	return hashEqC(b1, b2, []byte(d2))
}

func TestEquivGeneratedEqC(t *testing.T) {
	var got []string
	for seed := uint64(1); seed <= 60; seed++ {
		p := genProfileEqC(seed)
		if err := p.CheckValid(); err != nil {
			t.Fatalf("seed %d: generator produced invalid profile: %v", seed, err)
		}
		got = append(got, roundTripEqC(t, fmt.Sprintf("seed %d", seed), p))
	}
	checkGoldenEqC(t, "goldenGeneratedEqC", got, goldenGeneratedEqC)
}

func TestEquivTestdataEqC(t *testing.T) {
	files, err := filepath.Glob(filepath.Join("testdata", "*"))
	if err != nil || len(files) == 0 {
		t.Fatalf("no testdata: %v", err)
	}
	sort.Strings(files)
	var got []string
	for _, f := range files {
		if strings.HasSuffix(f, ".string") {
			continue
		}
		data, err := os.ReadFile(f)
		if err != nil {
			t.Fatal(err)
		}
		p, err := ParseData(data)
		if err != nil {
			t.Fatalf("%s: %v", f, err)
		}
		got = append(got, filepath.Base(f)+":"+roundTripEqC(t, f, p))
	}
	checkGoldenEqC(t, "goldenTestdataEqC", got, goldenTestdataEqC)
}

// --- specific to change C: id -> object resolution in postDecode ---

// Minimal independent wire-format writer so the inputs do not depend on the
// package's encoder.
type wireEqC struct{ b []byte }

func (w *wireEqC) varint(x uint64) {
	for x >= 0x80 {
		w.b = append(w.b, byte(x)|0x80)
		x >>= 7
	}
	w.b = append(w.b, byte(x))
}
func (w *wireEqC) u(tag int, x uint64) { w.varint(uint64(tag) << 3); w.varint(x) }
func (w *wireEqC) bytes(tag int, d []byte) {
	w.varint(uint64(tag)<<3 | 2)
	w.varint(uint64(len(d)))
	w.b = append(w.b, d...)
}
func (w *wireEqC) msg(tag int, f func(*wireEqC)) {
	var in wireEqC
	f(&in)
	w.bytes(tag, in.b)
}

// buildIDCaseEqC builds an (often invalid but parseable) profile whose
// mapping/function/location tables use the given ids and whose references
// use the given ref ids.
func buildIDCaseEqC(mapIDs, funcIDs, locIDs, refs []uint64, clean bool) []byte {
	var w wireEqC
	w.msg(1, func(w *wireEqC) { w.u(1, 1); w.u(2, 2) })
	for i, id := range mapIDs {
		w.msg(3, func(w *wireEqC) { w.u(1, id); w.u(2, uint64(0x1000*(i+1))); w.u(3, uint64(0x1000*(i+2))); w.u(5, 3) })
	}
	for i, id := range funcIDs {
		w.msg(5, func(w *wireEqC) { w.u(1, id); w.u(2, 4); w.u(5, uint64(i+1)) })
	}
	for i, id := range locIDs {
		w.msg(4, func(w *wireEqC) {
			w.u(1, id)
			w.u(2, refs[i%len(refs)])
			w.u(3, uint64(0x1000+i))
			for j := 0; j < 1+i%3; j++ {
				w.msg(4, func(w *wireEqC) { w.u(1, refs[(i+j)%len(refs)]); w.u(2, uint64(10*i+j)) })
			}
		})
	}
	// One location without mapping_id and with a line without function_id.
	if !clean {
		w.msg(4, func(w *wireEqC) { w.u(3, 0xdead); w.msg(4, func(w *wireEqC) { w.u(2, 77) }) })
	}
	// Samples: one unpacked (<=2 ids), one packed, referencing every ref id.
	w.msg(2, func(w *wireEqC) { w.u(1, refs[0]); w.u(1, refs[len(refs)-1]); w.u(2, 5) })
	w.msg(2, func(w *wireEqC) {
		var in wireEqC
		for _, r := range refs {
			in.varint(r)
		}
		for _, id := range locIDs {
			in.varint(id)
		}
		w.bytes(1, in.b)
		w.u(2, 6)
	})
	w.msg(2, func(w *wireEqC) { w.u(2, 7) })
	for _, s := range []string{"", "t", "u", "file", "fn"} {
		w.bytes(6, []byte(s))
	}
	return w.b
}

func TestEquivIDResolutionEqC(t *testing.T) {
	const big = math.MaxUint64
	cases := []struct {
		m, f, l, refs []uint64
		clean         bool
	}{
		{[]uint64{1, 2, 3}, []uint64{1, 2, 3}, []uint64{1, 2, 3}, []uint64{1, 2, 3, 4, 0}, false},
		// ids exactly at / just past the dense-table boundary len(table)+1
		{[]uint64{3, 4, 5}, []uint64{4, 3, 2}, []uint64{2, 3, 4, 5}, []uint64{2, 3, 4, 5, 6}, false},
		// sparse and huge ids
		{[]uint64{big, 1 << 40, 7}, []uint64{big - 1, 1 << 33, 9}, []uint64{big, 1 << 63, 100}, []uint64{big, big - 1, 1 << 40, 1 << 33, 1 << 63, 7, 9, 100}, false},
		// duplicate ids, both in the dense and the sparse range: last one wins
		{[]uint64{1, 1, 50, 50}, []uint64{2, 2, 60, 60}, []uint64{1, 1, 70, 70, 2}, []uint64{1, 2, 50, 60, 70}, false},
		// reserved id 0 present in the tables
		{[]uint64{0, 1}, []uint64{0, 1}, []uint64{0, 1}, []uint64{0, 1, 2}, false},
		// empty tables, dangling references
		{nil, nil, []uint64{5}, []uint64{0, 1, 5, big}, false},
		{[]uint64{2}, nil, nil, []uint64{2}, false},
		// same id on both sides of the boundary for different tables
		{[]uint64{1, 2}, []uint64{3}, []uint64{3, 2, 1, 4, 5, 6}, []uint64{1, 2, 3, 4, 5, 6, 7}, false},
		// valid profiles (every reference resolves), dense, boundary and sparse ids
		{[]uint64{1, 2, 3}, []uint64{1, 2, 3}, []uint64{1, 2, 3}, []uint64{1, 2, 3}, true},
		{[]uint64{5, 4, 3, 2}, []uint64{2, 3, 4, 5}, []uint64{4, 5, 2, 3}, []uint64{2, 3, 4, 5}, true},
		{[]uint64{big, 1 << 40, 1}, []uint64{1, big, 1 << 40}, []uint64{1 << 40, 1, big}, []uint64{big, 1, 1 << 40}, true},
	}
	var got []string
	for i, c := range cases {
		data := buildIDCaseEqC(c.m, c.f, c.l, c.refs, c.clean)
		p, err := ParseUncompressed(data)
		if err != nil {
			t.Fatalf("case %d: %v", i, err)
		}
		for _, l := range p.Location {
			if l.mappingIDX != 0 {
				t.Errorf("case %d: mappingIDX not cleared", i)
			}
			for _, ln := range l.Line {
				if ln.functionIDX != 0 {
					t.Errorf("case %d: functionIDX not cleared", i)
				}
			}
		}
		for _, s := range p.Sample {
			if s.locationIDX != nil {
				t.Errorf("case %d: locationIDX not cleared", i)
			}
		}
		d := dumpEqC(p)
		valid := p.CheckValid() == nil
		got = append(got, fmt.Sprintf("case%d valid=%v %s", i, valid, hashEqC([]byte(d))))
		if valid != c.clean {
			t.Errorf("case %d: valid=%v, want %v", i, valid, c.clean)
		}
		if valid {
			roundTripEqC(t, fmt.Sprintf("case %d", i), p)
		}
	}
	// Spot check with explicit expectations: duplicates -> last wins, id==len+1 -> resolved, dangling -> nil.
	p, err := ParseUncompressed(buildIDCaseEqC([]uint64{1, 1, 50, 50}, []uint64{2, 2, 60, 60}, []uint64{1, 1, 70, 70, 2}, []uint64{1, 2, 50, 60, 70}, false))
	if err != nil {
		t.Fatal(err)
	}
	if p.Location[0].Mapping != p.Mapping[1] || p.Location[2].Mapping != p.Mapping[3] || p.Location[1].Mapping != nil {
		t.Errorf("mapping resolution changed")
	}
	if p.Location[1].Line[0].Function != p.Function[1] || p.Location[3].Line[0].Function != p.Function[3] {
		t.Errorf("function resolution changed")
	}
	s := p.Sample[1]
	if s.Location[0] != p.Location[1] || s.Location[1] != p.Location[4] || s.Location[2] != nil || s.Location[4] != p.Location[3] {
		t.Errorf("location resolution changed")
	}
	checkGoldenEqC(t, "goldenIDsEqC", got, goldenIDsEqC)
}

// Golden values computed on the unchanged tree.

var goldenGeneratedEqC = []string{
	"25d839337c0e6370",
	"ec319f016a4550aa",
	"ba99033f2fa2ce69",
	"4c2b45d9eddf3112",
	"059910944a13c20b",
	"a5c96d84a00b9615",
	"d7a269f73f185b88",
	"6ba9025336443830",
	"b0c5a81b74aa00f5",
	"799b39d5afdeb76a",
	"f7b2358b9fcaa077",
	"6f79415c1063d5c2",
	"95c6b1d87491e15b",
	"3910edebea6198ce",
	"62fc5d5c624d97a8",
	"5d8c49d4a8af15a2",
	"1fc1f8b0cb8d8e45",
	"74226fecddbe6ebe",
	"9db17cc90ee3b1a7",
	"b66305c0288755f1",
	"7d69035cd7557472",
	"8a0ac376f9a7c501",
	"48805345c9eb19fe",
	"a565a8ecac227a44",
	"9b0af04c26012ad1",
	"27a0ae483ea29bb6",
	"ddbb7d6df7697998",
	"1987006fc6723cb7",
	"45d485f497efc63c",
	"01967421f30fbf60",
	"3b11946db6fc4133",
	"879db9f6873fd8cf",
	"b55b6e6762469e86",
	"740decc22732d527",
	"f3c6627925a01ac2",
	"00411b58f0f87c9d",
	"ed64183e969dd89d",
	"64a36533bf26a385",
	"0782ceca5ec7500f",
	"4380ca08fc4d4bb8",
	"ccc6cd019794af76",
	"78e166c187e181bd",
	"e147d09d87d92f6d",
	"645eeb1f084c44d0",
	"dad30b0f37cedcb8",
	"401716fafb678f44",
	"6359c307b7df42c6",
	"11a1baae8f63a8b1",
	"f1991fbedfc44577",
	"7c3a41af74b809d1",
	"ebaeb41dea2417f7",
	"ffde7e7e40d3cb73",
	"887212156a82d10a",
	"ce905485a494f25c",
	"3ce4b94b456a5ca2",
	"9ff0d5085fc570fe",
	"aa827ea8cc78a4c5",
	"1290a58b8b1cfb17",
	"dac4c839d91688b4",
	"3ac51b959c7fec52",
}

var goldenTestdataEqC = []string{
	"cppbench.contention:e82d8fd1164a3324",
	"cppbench.cpu:8675b802ddadfed7",
	"cppbench.growth:c34ceccd77cd908a",
	"cppbench.heap:651bb8dbf1b61fd6",
	"cppbench.thread:e9a82412d273d773",
	"cppbench.thread.all:d2438cdfafb7aaea",
	"cppbench.thread.none:a6a1747c5b783031",
	"go.crc32.cpu:22da87728838df01",
	"go.godoc.thread:d6b39ec2db8ad9ed",
	"gobench.cpu:d9598b3dfc779bb9",
	"gobench.heap:b2fe6f999ab5a30d",
	"java.contention:d1f03852b5cea3b1",
	"java.cpu:bcdc63897d161302",
	"java.heap:056cdf4405ce350e",
}

var goldenIDsEqC = []string{
	"case0 valid=false 488ff7ac37384f75",
	"case1 valid=false ab6400316e21e75c",
	"case2 valid=false c460479017d3934a",
	"case3 valid=false ecb66655f9521f01",
	"case4 valid=false 8945002916a745f7",
	"case5 valid=false 4b3b52a16a2d8437",
	"case6 valid=false bed697607469c4f1",
	"case7 valid=false 03829cac0dee4853",
	"case8 valid=true 27a747de0523cc8e",
	"case9 valid=true 168105d85fe10247",
	"case10 valid=true b2857c54ca054969",
}
