package driver

// Equivalence demonstration scaffold for property C16 (multi-source fetch
// merges whatever succeeded, independent of timing). Kept out of the patch.

import (
	"bytes"
	"crypto/sha256"
	"fmt"
	"io"
	"net/http"
	"os"
	"path/filepath"
	"sort"
	"strings"
	"sync"
	"testing"
	"time"

	"github.com/google/pprof/internal/plugin"
	"github.com/google/pprof/profile"
)

func init() { time.Local = time.UTC } // p.String() prints the profile time in local time

var (
	_ = os.Getenv
	_ = filepath.Join
	_ = io.EOF
)

// zzUI records everything printed; safe for concurrent use.
type zzUI struct {
	mu    sync.Mutex
	errs  []string
	infos []string
}

func (u *zzUI) ReadLine(string) (string, error) { return "", io.EOF }
func (u *zzUI) Print(args ...interface{}) {
	u.mu.Lock()
	defer u.mu.Unlock()
	u.infos = append(u.infos, fmt.Sprint(args...))
}
func (u *zzUI) PrintErr(args ...interface{}) {
	u.mu.Lock()
	defer u.mu.Unlock()
	u.errs = append(u.errs, fmt.Sprint(args...))
}
func (u *zzUI) IsTerminal() bool                    { return false }
func (u *zzUI) WantBrowser() bool                   { return false }
func (u *zzUI) SetAutoComplete(func(string) string) {}

type zzSym struct{}

func (zzSym) Symbolize(string, plugin.MappingSources, *profile.Profile) error { return nil }

// zzProfile builds the i-th synthetic profile. Different i give different
// functions, mappings, units and values so that the merge order is visible in
// the merged profile.
func zzProfile(i int) *profile.Profile {
	unit := "nanoseconds"
	mul := int64(1000000)
	if i%5 == 0 {
		unit, mul = "milliseconds", 1
	}
	m := &profile.Mapping{ID: 1, Start: 0x1000, Limit: 0x400000, File: "/bin/prog", BuildID: "bid0"}
	switch i % 4 {
	case 1:
		m.File, m.BuildID = fmt.Sprintf("/lib/lib%d.so", i%3), ""
	case 2:
		m.File, m.BuildID = "", ""
	case 3:
		m.BuildID = fmt.Sprintf("bid%d", i%6)
	}
	f1 := &profile.Function{ID: 1, Name: fmt.Sprintf("fn%d", i%7), SystemName: fmt.Sprintf("fn%d", i%7), Filename: "a.go"}
	f2 := &profile.Function{ID: 2, Name: fmt.Sprintf("uniq%d", i), SystemName: fmt.Sprintf("uniq%d", i), Filename: "b.go"}
	l1 := &profile.Location{ID: 1, Mapping: m, Address: 0x1100 + uint64(i%7)*16, Line: []profile.Line{{Function: f1, Line: int64(10 + i%7)}}}
	l2 := &profile.Location{ID: 2, Mapping: m, Address: 0x2000 + uint64(i)*16, Line: []profile.Line{{Function: f2, Line: int64(i)}}}
	return &profile.Profile{
		SampleType:    []*profile.ValueType{{Type: "samples", Unit: "count"}, {Type: "cpu", Unit: unit}},
		PeriodType:    &profile.ValueType{Type: "cpu", Unit: unit},
		Period:        10 * mul,
		DurationNanos: int64(1000 + i),
		TimeNanos:     int64(5000 - i),
		Comments:      []string{fmt.Sprintf("c%d", i%9)},
		Sample: []*profile.Sample{
			{Location: []*profile.Location{l1, l2}, Value: []int64{int64(i + 1), int64(i+1) * 10 * mul}},
			{Location: []*profile.Location{l2}, Value: []int64{1, 10 * mul}, Label: map[string][]string{"k": {fmt.Sprintf("v%d", i%3)}}},
			{Location: []*profile.Location{l1}, Value: []int64{int64(2 + i%4), int64(2+i%4) * 10 * mul}},
		},
		Location: []*profile.Location{l1, l2},
		Function: []*profile.Function{f1, f2},
		Mapping:  []*profile.Mapping{m},
	}
}

func zzBytes(p *profile.Profile) []byte {
	var b bytes.Buffer
	if err := p.Write(&b); err != nil {
		panic(err)
	}
	return b.Bytes()
}

// zzInvalid is a well-formed encoding of a profile that fails validation
// (sample value count does not match the sample types).
func zzInvalid(i int) []byte {
	p := zzProfile(i)
	p.Sample[0].Value = []int64{1}
	return zzBytes(p)
}

// zzTransport serves URLs of the form http://host/<kind>/<id>. Every request
// is delayed by a pseudo-random amount derived from (seed, url) so that the
// completion order of concurrent fetches differs between seeds.
type zzTransport struct {
	seed uint64
	max  time.Duration
}

func zzMix(x uint64) uint64 {
	x += 0x9e3779b97f4a7c15
	x = (x ^ (x >> 30)) * 0xbf58476d1ce4e5b9
	x = (x ^ (x >> 27)) * 0x94d049bb133111eb
	return x ^ (x >> 31)
}

func (tr *zzTransport) RoundTrip(req *http.Request) (*http.Response, error) {
	parts := strings.Split(strings.Trim(req.URL.Path, "/"), "/")
	if len(parts) < 2 {
		return nil, fmt.Errorf("bad test url %s", req.URL)
	}
	kind := parts[len(parts)-2]
	var id int
	fmt.Sscanf(parts[len(parts)-1], "%d", &id)
	if tr.max > 0 {
		h := tr.seed
		for _, c := range []byte(req.URL.String()) {
			h = zzMix(h ^ uint64(c))
		}
		time.Sleep(time.Duration(h % uint64(tr.max)))
	}
	resp := &http.Response{
		StatusCode: 200, Status: "200 OK", Proto: "HTTP/1.1", ProtoMajor: 1, ProtoMinor: 1,
		Header: http.Header{}, Request: req,
	}
	var body []byte
	switch kind {
	case "ok":
		body = zzBytes(zzProfile(id))
	case "garbage":
		body = []byte(fmt.Sprintf("this is not a profile %d\x00\x01\x02", id))
	case "empty":
		body = nil
	case "invalid":
		body = zzInvalid(id)
	case "404":
		resp.StatusCode, resp.Status = 404, "404 Not Found"
		body = []byte("nope")
	case "500pprof":
		resp.StatusCode, resp.Status = 500, "500 Internal Server Error"
		resp.Header.Set("X-Go-Pprof", "1")
		resp.Header.Set("Content-Type", "text/plain; charset=utf-8")
		body = []byte(fmt.Sprintf("profiling busy %d", id))
	case "neterr":
		return nil, fmt.Errorf("simulated connection refused %d", id)
	default:
		return nil, fmt.Errorf("bad test kind %q", kind)
	}
	resp.Body = io.NopCloser(bytes.NewReader(body))
	resp.ContentLength = int64(len(body))
	return resp, nil
}

func zzDumpMsrc(w io.Writer, name string, ms plugin.MappingSources) {
	keys := make([]string, 0, len(ms))
	for k := range ms {
		keys = append(keys, k)
	}
	sort.Strings(keys)
	fmt.Fprintf(w, "%s: %d keys nil=%v\n", name, len(keys), ms == nil)
	for _, k := range keys {
		fmt.Fprintf(w, "  %q nil=%v:", k, ms[k] == nil)
		for _, e := range ms[k] {
			fmt.Fprintf(w, " (%s,%#x)", e.Source, e.Start)
		}
		fmt.Fprintln(w)
	}
}

func zzDumpProfile(w io.Writer, name string, p *profile.Profile) {
	if p == nil {
		fmt.Fprintf(w, "%s: <nil>\n", name)
		return
	}
	fmt.Fprintf(w, "%s:\n%s\n", name, p.String())
}

// zzDumpUI writes error lines mentioning "/s/" (sources) in the order printed,
// then those mentioning "/b/" (bases) in the order printed, then the rest and
// the info lines sorted (sources and bases are fetched concurrently so their
// relative order is not promised).
func zzDumpUI(w io.Writer, ui *zzUI, norm func(string) string) {
	ui.mu.Lock()
	defer ui.mu.Unlock()
	var s, b, rest []string
	for _, e := range ui.errs {
		e = norm(e)
		switch {
		case strings.Contains(e, "/s/"):
			s = append(s, e)
		case strings.Contains(e, "/b/"):
			b = append(b, e)
		default:
			rest = append(rest, e)
		}
	}
	sort.Strings(rest)
	infos := make([]string, 0, len(ui.infos))
	for _, i := range ui.infos {
		infos = append(infos, norm(i))
	}
	sort.Strings(infos)
	fmt.Fprintf(w, "src errs:\n  %s\nbase errs:\n  %s\nother errs:\n  %s\ninfos:\n  %s\n",
		strings.Join(s, "\n  "), strings.Join(b, "\n  "), strings.Join(rest, "\n  "), strings.Join(infos, "\n  "))
}

func zzHash(s string) string {
	return fmt.Sprintf("%x/%d", sha256.Sum256([]byte(s)), len(s))[56:]
}

// zzKinds picks the behaviour of source i under failure pattern pat.
func zzKind(pat string, i, n int) string {
	fails := []string{"404", "garbage", "invalid", "neterr", "500pprof", "empty"}
	switch pat {
	case "none":
		return "ok"
	case "all":
		return fails[i%len(fails)]
	case "every3":
		if i%3 == 1 {
			return fails[(i/3)%len(fails)]
		}
		return "ok"
	case "firstchunk": // everything in the first 128-chunk fails
		if i < 128 {
			return fails[i%len(fails)]
		}
		return "ok"
	case "boundary": // failures right around the chunk boundary
		if i == 0 || i == 127 || i == 128 || i == 255 || i == 256 || i == n-1 {
			return fails[i%len(fails)]
		}
		return "ok"
	case "onlylast":
		if i == n-1 {
			return "ok"
		}
		return fails[i%len(fails)]
	}
	panic(pat)
}

// zzAddrs builds n addresses for role "s" (source) or "b" (base). host
// "pproftest.local" is treated as local by grabProfile (no save), any other
// host counts as remote.
func zzAddrs(role, host, pat string, n, idBase int) []string {
	out := make([]string, n)
	for i := range out {
		out[i] = fmt.Sprintf("http://%s/%s/%s/%d", host, role, zzKind(pat, i, n), idBase+i)
	}
	return out
}

func zzSources(s *source, addrs []string) []profileSource {
	out := make([]profileSource, len(addrs))
	for i, a := range addrs {
		out[i] = profileSource{addr: a, source: s}
	}
	return out
}

func zzGrab(srcAddrs, baseAddrs []string, seed uint64, max time.Duration, norm func(string) string) string {
	s := &source{Sources: srcAddrs, Base: baseAddrs}
	ui := &zzUI{}
	tr := &zzTransport{seed: seed, max: max}
	p, pb, m, mb, save, err := grabSourcesAndBases(zzSources(s, srcAddrs), zzSources(s, baseAddrs), nil, testObj{}, ui, tr)
	var w strings.Builder
	fmt.Fprintf(&w, "err=%v save=%v\n", err, save)
	zzDumpProfile(&w, "p", p)
	zzDumpProfile(&w, "pbase", pb)
	zzDumpMsrc(&w, "msrc", m)
	zzDumpMsrc(&w, "mbase", mb)
	zzDumpUI(&w, ui, norm)
	return w.String()
}

func zzIdent(s string) string { return s }

func zzCheck(t *testing.T, name, got, want string) {
	t.Helper()
	if dir := os.Getenv("ZZ_DUMP"); dir != "" {
		os.WriteFile(filepath.Join(dir, strings.ReplaceAll(name, "/", "_")+".txt"), []byte(got), 0644)
	}
	h := zzHash(got)
	if os.Getenv("ZZ_PRINT") != "" {
		fmt.Printf("\t\t%q: %q,\n", name, h)
		return
	}
	if h != want {
		t.Errorf("%s: digest %s, want %s\n%.300s", name, h, want, got)
	}
}

var zzWantC = map[string]string{
	"file/dir":                 "446b049b/104",
	"file/empty":               "07377172/106",
	"file/garbage":             "cd49f416/117",
	"file/invalid":             "40f66d7e/133",
	"file/missing-abs":         "1d609428/121",
	"file/missing-file-scheme": "13843d32/136",
	"file/missing-rel":         "85d0c59f/128",
	"file/ok":                  "eaaf1c3e/469",
	"file/ok-with-duration":    "77ab1625/469",
	"grab/m1":                  "88f043fe/524",
	"grab/m12":                 "9d2e46fe/1888",
	"grab/m128":                "f0602f57/27714",
	"grab/m129":                "dc5edc78/42381",
	"grab/m300":                "5c8536a1/79262",
	"grab/m300-every3":         "e0ded818/53057",
	"grab/m6-all-fail":         "2a892528/963",
	"url/404":                  "640d9afd/179",
	"url/500pprof":             "22e90560/221",
	"url/empty":                "58e365a1/186",
	"url/garbage":              "071afcc0/201",
	"url/hostport":             "7b117cf4/555",
	"url/https":                "1a8c0e91/546",
	"url/invalid":              "85583986/217",
	"url/neterr":               "49c5e9ef/231",
	"url/ok":                   "88f1b80a/540",
	"url/ok-duration":          "bfbe127a/577",
	"url/ok-seconds-in-url":    "f55d5fa3/573",
}

// TestZZEquivC exercises fetch (file, URL and unrecognizable sources; every
// failure class) directly, and grabSourcesAndBases over lists mixing local
// files and URLs, crossing the 128-source chunk boundary.
func TestZZEquivC(t *testing.T) {
	tmp := t.TempDir()
	t.Setenv("TMPDIR", filepath.Join(tmp, "t"))
	for _, d := range []string{"t", "s", "b", "s/dir"} {
		if err := os.MkdirAll(filepath.Join(tmp, d), 0755); err != nil {
			t.Fatal(err)
		}
	}
	norm := func(s string) string { return strings.ReplaceAll(s, tmp, "$TMP") }
	write := func(rel string, data []byte) string {
		name := filepath.Join(tmp, rel)
		if err := os.WriteFile(name, data, 0644); err != nil {
			t.Fatal(err)
		}
		return name
	}
	// fileAddr returns the address of a local file source of the given kind.
	fileAddr := func(role, kind string, id int) string {
		rel := fmt.Sprintf("%s/%s_%d", role, kind, id)
		switch kind {
		case "ok":
			return write(rel, zzBytes(zzProfile(id)))
		case "garbage":
			return write(rel, []byte(fmt.Sprintf("junk %d\x00\x01", id)))
		case "invalid":
			return write(rel, zzInvalid(id))
		case "empty":
			return write(rel, nil)
		default: // missing
			return filepath.Join(tmp, rel)
		}
	}

	direct := func(name, src string, duration, timeout time.Duration) {
		ui := &zzUI{}
		p, u, err := fetch(src, duration, timeout, ui, &zzTransport{})
		var w strings.Builder
		fmt.Fprintf(&w, "src=%q err=%s\n", u, norm(fmt.Sprint(err)))
		zzDumpProfile(&w, "p", p)
		zzDumpUI(&w, ui, norm)
		zzCheck(t, name, w.String(), zzWantC[name])
	}
	direct("file/ok", fileAddr("s", "ok", 3), 0, 0)
	direct("file/ok-with-duration", fileAddr("s", "ok", 4), 5*time.Second, 7*time.Second)
	direct("file/garbage", fileAddr("s", "garbage", 5), 0, 0)
	direct("file/invalid", fileAddr("s", "invalid", 6), 0, 0)
	direct("file/empty", fileAddr("s", "empty", 7), 0, 0)
	direct("file/missing-abs", fileAddr("s", "missing", 8), 0, 0)
	direct("file/missing-rel", "zz_no_such_file_for_c16", 0, 0)
	direct("file/missing-file-scheme", "file:///zz_no_such_file_for_c16", 0, 0)
	direct("file/dir", filepath.Join(tmp, "s", "dir"), 0, 0)
	direct("url/ok", "http://h.test/s/ok/9", 0, 0)
	direct("url/ok-duration", "http://h.test/s/ok/10?x=1", 3*time.Second, 0)
	direct("url/ok-seconds-in-url", "http://h.test/s/ok/11?seconds=2&a=b", 0, 0)
	direct("url/hostport", "h.test:8080/s/ok/12", 0, 4*time.Second)
	direct("url/https", "https://h.test/s/ok/13", 0, 0)
	direct("url/404", "http://h.test/s/404/14", 0, 0)
	direct("url/500pprof", "http://h.test/s/500pprof/15", 0, 0)
	direct("url/neterr", "http://h.test/s/neterr/16", 0, 0)
	direct("url/garbage", "http://h.test/s/garbage/17", 0, 0)
	direct("url/invalid", "http://h.test/s/invalid/18", 0, 0)
	direct("url/empty", "http://h.test/s/empty/19", 0, 0)

	// A perf.data file: perf_to_profile is not expected to be installed, so
	// only the error class is compared (the message depends on $PATH).
	{
		ui := &zzUI{}
		p, u, err := fetch(write("s/perf.data", []byte("PERFILE2 and then some")), 0, 0, ui, &zzTransport{})
		if err != nil && (p != nil || u != "" || !strings.Contains(err.Error(), "failed to convert perf.data file") || len(ui.infos) != 1) {
			t.Errorf("perf.data: p=%v src=%q err=%v infos=%v", p, u, err, ui.infos)
		}
	}

	// Mixed file/URL lists through grabSourcesAndBases.
	mixed := func(role, pat string, n, idBase int) []string {
		out := make([]string, n)
		for i := range out {
			kind := zzKind(pat, i, n)
			id := idBase + i
			switch {
			case i%2 == 0 && (kind == "ok" || kind == "garbage" || kind == "invalid" || kind == "empty"):
				out[i] = fileAddr(role, kind, id)
			case i%2 == 0 && kind == "404":
				out[i] = fileAddr(role, "missing", id)
			default:
				out[i] = fmt.Sprintf("http://pproftest.local/%s/%s/%d", role, kind, id)
			}
		}
		return out
	}
	type sc struct {
		name        string
		nsrc, nbase int
		spat, bpat  string
	}
	for _, c := range []sc{
		{"m1", 1, 0, "none", "none"},
		{"m6-all-fail", 6, 0, "all", "none"},
		{"m12", 12, 7, "every3", "all"},
		{"m128", 128, 3, "boundary", "every3"},
		{"m129", 129, 128, "every3", "onlylast"},
		{"m300", 300, 140, "boundary", "firstchunk"},
		{"m300-every3", 300, 2, "every3", "none"},
	} {
		src := mixed("s", c.spat, c.nsrc, 0)
		base := mixed("b", c.bpat, c.nbase, 2000)
		for _, seed := range []uint64{7, 8} {
			got := zzGrab(src, base, seed, 3*time.Millisecond, norm)
			zzCheck(t, "grab/"+c.name, got, zzWantC["grab/"+c.name])
		}
	}
}
