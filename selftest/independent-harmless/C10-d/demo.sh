#!/bin/sh
# usage: demo.sh <worktree-root>; exits 0 iff the equivalence test passes.
set -u
WT="${1:?worktree root}"
HERE="$(cd "$(dirname "$0")" && pwd)"
export GOFLAGS=-mod=mod GOPROXY=off GOSUMDB=off GOTOOLCHAIN=local
T=zz_equiv_a_test.go
cp "$HERE/$T" "$WT/internal/driver/$T" || exit 2
(cd "$WT" && go test -vet=off -count=1 -run 'TestZZEquivA$' ./internal/driver)
rc=$?
rm -f "$WT/internal/driver/$T"
exit $rc
