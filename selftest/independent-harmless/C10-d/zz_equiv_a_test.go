package driver

// Equivalence demonstration for change A (table-driven aggregate()).
//
// It (1) calls aggregate() directly on fresh copies of a profile for every
// granularity x noinlines x showcolumns combination and fingerprints the
// resulting profile, and (2) runs an interactive session in which granularity
// assignments are interleaved with report commands, fingerprinting every
// report written. The expected fingerprints were computed on the UNCHANGED
// tree and are hard-coded; the test passes with and without the change.
//
// Set ZZ_PRINT=1 to print the actual fingerprints.

import (
	"bytes"
	"crypto/sha256"
	"fmt"
	"io"
	"os"
	"strings"
	"testing"

	"github.com/google/pprof/internal/plugin"
	"github.com/google/pprof/profile"
)

func zzaProfile() *profile.Profile {
	m := []*profile.Mapping{
		{ID: 1, Start: 0x1000, Limit: 0x9000, File: "/bin/zzprog", HasFunctions: true, HasFilenames: true, HasLineNumbers: true, HasInlineFrames: true},
	}
	f := []*profile.Function{
		{ID: 1, Name: "main.main", SystemName: "main.main", Filename: "/src/app/main.go", StartLine: 10},
		{ID: 2, Name: "main.work", SystemName: "main.work", Filename: "/src/app/main.go", StartLine: 40},
		{ID: 3, Name: "lib.Encode", SystemName: "lib.Encode", Filename: "/src/lib/enc.go", StartLine: 5},
		{ID: 4, Name: "lib.inlined", SystemName: "lib.inlined", Filename: "/src/lib/enc.go", StartLine: 70},
		{ID: 5, Name: "lib.Encode", SystemName: "lib.Encode", Filename: "/src/lib/enc_other.go", StartLine: 5},
		{ID: 6, Name: "runtime.memmove", SystemName: "runtime.memmove", Filename: "/go/src/runtime/memmove.s", StartLine: 1},
	}
	l := []*profile.Location{
		{ID: 1, Mapping: m[0], Address: 0x1100, Line: []profile.Line{{Function: f[0], Line: 12, Column: 3}}},
		{ID: 2, Mapping: m[0], Address: 0x1200, Line: []profile.Line{{Function: f[1], Line: 44, Column: 7}}},
		{ID: 3, Mapping: m[0], Address: 0x1210, Line: []profile.Line{{Function: f[1], Line: 44, Column: 19}}},
		{ID: 4, Mapping: m[0], Address: 0x1300, Line: []profile.Line{{Function: f[3], Line: 72, Column: 2}, {Function: f[2], Line: 9, Column: 11}}},
		{ID: 5, Mapping: m[0], Address: 0x1310, Line: []profile.Line{{Function: f[2], Line: 9, Column: 30}}},
		{ID: 6, Mapping: m[0], Address: 0x1400, Line: []profile.Line{{Function: f[4], Line: 6, Column: 1}}},
		{ID: 7, Mapping: m[0], Address: 0x1500, Line: []profile.Line{{Function: f[5], Line: 100}}},
		{ID: 8, Mapping: m[0], Address: 0x1508, Line: []profile.Line{{Function: f[5], Line: 101}}},
	}
	s := func(v1, v2 int64, lbl string, locs ...int) *profile.Sample {
		smp := &profile.Sample{Value: []int64{v1, v2}}
		for _, i := range locs {
			smp.Location = append(smp.Location, l[i-1])
		}
		if lbl != "" {
			smp.Label = map[string][]string{"req": {lbl}}
			smp.NumLabel = map[string][]int64{"bytes": {int64(len(lbl)) * 64}}
			smp.NumUnit = map[string][]string{"bytes": {"bytes"}}
		}
		return smp
	}
	return &profile.Profile{
		SampleType:    []*profile.ValueType{{Type: "samples", Unit: "count"}, {Type: "cpu", Unit: "milliseconds"}},
		PeriodType:    &profile.ValueType{Type: "cpu", Unit: "milliseconds"},
		Period:        10,
		DurationNanos: 5e9,
		Sample: []*profile.Sample{
			s(10, 100, "a", 7, 4, 2, 1),
			s(20, 200, "b", 8, 4, 2, 1),
			s(5, 50, "a", 8, 5, 3, 1),
			s(7, 70, "", 6, 3, 1),
			s(3, 30, "b", 6, 2, 1),
			s(40, 400, "", 2, 1),
			s(1, 10, "c", 3, 1),
			s(2, 20, "", 1),
		},
		Location: l,
		Function: f,
		Mapping:  m,
	}
}

type zzaUI struct {
	in  []string
	log []string
}

func (u *zzaUI) ReadLine(string) (string, error) {
	if len(u.in) == 0 {
		return "", io.EOF
	}
	l := u.in[0]
	u.in = u.in[1:]
	return l, nil
}
func (u *zzaUI) Print(args ...interface{})           {}
func (u *zzaUI) PrintErr(args ...interface{})        { u.log = append(u.log, "ERR "+fmt.Sprint(args...)) }
func (u *zzaUI) IsTerminal() bool                    { return false }
func (u *zzaUI) WantBrowser() bool                   { return false }
func (u *zzaUI) SetAutoComplete(func(string) string) {}

type zzaFile struct {
	name string
	bytes.Buffer
}

func (f *zzaFile) Close() error { return nil }

type zzaWriter struct{ files []*zzaFile }

func (w *zzaWriter) Open(name string) (io.WriteCloser, error) {
	f := &zzaFile{name: name}
	w.files = append(w.files, f)
	return f, nil
}

func zzaSum(b []byte) string { return fmt.Sprintf("%x", sha256.Sum256(b))[:16] }

func TestZZEquivA(t *testing.T) {
	saved := currentConfig()
	defer setCurrentConfig(saved)
	savedShortcuts := pprofShortcuts
	defer func() { pprofShortcuts = savedShortcuts }()
	savedMode := interactiveMode
	defer func() { interactiveMode = savedMode }()
	savedHelp := configHelp["sample_index"]
	defer func() { configHelp["sample_index"] = savedHelp }()

	var got []string

	// Part 1: aggregate() called directly.
	copier := makeProfileCopier(zzaProfile())
	for _, g := range []string{"", "functions", "filefunctions", "files", "lines", "addresses", "bogus", "Lines"} {
		for _, noinl := range []bool{false, true} {
			for _, cols := range []bool{false, true} {
				cfg := defaultConfig()
				cfg.Granularity, cfg.NoInlines, cfg.ShowColumns = g, noinl, cols
				p := copier.newCopy()
				err := aggregate(p, cfg)
				got = append(got, fmt.Sprintf("agg g=%q noinl=%v cols=%v err=%v %s", g, noinl, cols, err, zzaSum([]byte(p.String()))))
			}
		}
	}

	// Part 2: an interactive history mixing granularity assignments and reports.
	setCurrentConfig(defaultConfig())
	pprofShortcuts = shortcuts{":": pprofShortcuts[":"]}
	script := []string{
		"top 20 >o01",
		"granularity=lines",
		"top 20 >o02",
		"tree >o03",
		"files=1",
		"top >o04",
		"top 20 >o05 Encode",
		"noinlines",
		"addresses=true",
		"top 20 >o06",
		"raw >o07",
		"noinlines=false",
		"top 20 >o08",
		"showcolumns=1",
		"lines=true",
		"traces >o09",
		"peek work >o10",
		"filefunctions=true",
		"dot >o11 -memmove",
		"functions=t",
		"showcolumns=false",
		"top 20 >o12",
		"granularity=nosuch",
		"top 20 >o13",
		"cpu",
		"top -cum >o14",
		"granularity=",
		"top 20 >o15",
	}
	ui := &zzaUI{in: script}
	w := &zzaWriter{}
	o := setDefaults(&plugin.Options{UI: ui, Writer: w})
	if err := interactive(zzaProfile(), o); err != nil {
		t.Fatalf("interactive: %v", err)
	}
	for _, f := range w.files {
		got = append(got, fmt.Sprintf("file %s %d %s", f.name, f.Len(), zzaSum(f.Bytes())))
	}
	for _, l := range ui.log {
		if strings.HasPrefix(l, "ERR Generating report in ") {
			continue
		}
		got = append(got, l)
	}
	final := currentConfig()
	got = append(got, fmt.Sprintf("final granularity=%q noinlines=%v showcolumns=%v sample_index=%q", final.Granularity, final.NoInlines, final.ShowColumns, final.SampleIndex))

	actual := strings.Join(got, "\n")
	if os.Getenv("ZZ_PRINT") != "" {
		fmt.Printf("----BEGIN----\n%s\n----END----\n", actual)
	}
	if actual != zzaExpected {
		t.Errorf("behaviour differs from the unchanged tree:\n%s", zzaDiffLines(zzaExpected, actual))
	}
}

func zzaDiffLines(want, got string) string {
	w, g := strings.Split(want, "\n"), strings.Split(got, "\n")
	var b strings.Builder
	for i := 0; i < len(w) || i < len(g); i++ {
		var x, y string
		if i < len(w) {
			x = w[i]
		}
		if i < len(g) {
			y = g[i]
		}
		if x != y {
			fmt.Fprintf(&b, "line %d:\n  want %s\n  got  %s\n", i+1, x, y)
		}
	}
	return b.String()
}

const zzaExpected = `agg g="" noinl=false cols=false err=<nil> 07e61d793d92c6ba
agg g="" noinl=false cols=true err=<nil> 07e61d793d92c6ba
agg g="" noinl=true cols=false err=<nil> 5f3ea3f912392034
agg g="" noinl=true cols=true err=<nil> 5f3ea3f912392034
agg g="functions" noinl=false cols=false err=<nil> 07e61d793d92c6ba
agg g="functions" noinl=false cols=true err=<nil> 07e61d793d92c6ba
agg g="functions" noinl=true cols=false err=<nil> 5f3ea3f912392034
agg g="functions" noinl=true cols=true err=<nil> 5f3ea3f912392034
agg g="filefunctions" noinl=false cols=false err=<nil> 82dabc984ba60044
agg g="filefunctions" noinl=false cols=true err=<nil> 82dabc984ba60044
agg g="filefunctions" noinl=true cols=false err=<nil> a9cbb3789e1c412d
agg g="filefunctions" noinl=true cols=true err=<nil> a9cbb3789e1c412d
agg g="files" noinl=false cols=false err=<nil> 04930a4dcc6b63ff
agg g="files" noinl=false cols=true err=<nil> 04930a4dcc6b63ff
agg g="files" noinl=true cols=false err=<nil> 1e8bbf9bab71138b
agg g="files" noinl=true cols=true err=<nil> 1e8bbf9bab71138b
agg g="lines" noinl=false cols=false err=<nil> 5f272e7cb02e1157
agg g="lines" noinl=false cols=true err=<nil> 50e5be5b05a6cf60
agg g="lines" noinl=true cols=false err=<nil> d829178709504c57
agg g="lines" noinl=true cols=true err=<nil> 6d69fbb07101fad4
agg g="addresses" noinl=false cols=false err=<nil> c633dd99e9f1c19c
agg g="addresses" noinl=false cols=true err=<nil> c633dd99e9f1c19c
agg g="addresses" noinl=true cols=false err=<nil> d104fc00bd3ff6a9
agg g="addresses" noinl=true cols=true err=<nil> dfa51c3ba84d9703
agg g="bogus" noinl=false cols=false err=unexpected granularity c633dd99e9f1c19c
agg g="bogus" noinl=false cols=true err=unexpected granularity c633dd99e9f1c19c
agg g="bogus" noinl=true cols=false err=unexpected granularity c633dd99e9f1c19c
agg g="bogus" noinl=true cols=true err=unexpected granularity c633dd99e9f1c19c
agg g="Lines" noinl=false cols=false err=unexpected granularity c633dd99e9f1c19c
agg g="Lines" noinl=false cols=true err=unexpected granularity c633dd99e9f1c19c
agg g="Lines" noinl=true cols=false err=unexpected granularity c633dd99e9f1c19c
agg g="Lines" noinl=true cols=true err=unexpected granularity c633dd99e9f1c19c
file o01 387 df71eb6dfc5bdbf6
file o02 663 1a212ac7bac6beb8
file o03 2812 79ee759f573f7cf5
file o04 486 59e786122556ef26
file o05 520 c762097c75a4cb78
file o06 862 709a0f9191214b38
file o07 1168 d104fc00bd3ff6a9
file o08 980 c279de8a428fe78f
file o09 2040 d534dfe9e24cf74c
file o10 1180 1fd8e6a09313aced
file o11 1946 a37d326aed46dd3b
file o12 387 df71eb6dfc5bdbf6
file o13 387 df71eb6dfc5bdbf6
file o14 387 f526a0e0cf1b8599
file o15 387 df71eb6dfc5bdbf6
ERR invalid "granularity" value "nosuch"
ERR invalid "granularity" value ""
final granularity="functions" noinlines=false showcolumns=false sample_index="cpu"`
