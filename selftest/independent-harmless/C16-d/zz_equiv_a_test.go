package driver

// Equivalence demonstration scaffold for property C16 (multi-source fetch
// merges whatever succeeded, independent of timing). Kept out of the patch.

import (
	"bytes"
	"crypto/sha256"
	"fmt"
	"io"
	"net/http"
	"os"
	"path/filepath"
	"sort"
	"strings"
	"sync"
	"testing"
	"time"

	"github.com/google/pprof/internal/plugin"
	"github.com/google/pprof/profile"
)

func init() { time.Local = time.UTC } // p.String() prints the profile time in local time

var (
	_ = os.Getenv
	_ = filepath.Join
	_ = io.EOF
)

// zzUI records everything printed; safe for concurrent use.
type zzUI struct {
	mu    sync.Mutex
	errs  []string
	infos []string
}

func (u *zzUI) ReadLine(string) (string, error) { return "", io.EOF }
func (u *zzUI) Print(args ...interface{}) {
	u.mu.Lock()
	defer u.mu.Unlock()
	u.infos = append(u.infos, fmt.Sprint(args...))
}
func (u *zzUI) PrintErr(args ...interface{}) {
	u.mu.Lock()
	defer u.mu.Unlock()
	u.errs = append(u.errs, fmt.Sprint(args...))
}
func (u *zzUI) IsTerminal() bool                    { return false }
func (u *zzUI) WantBrowser() bool                   { return false }
func (u *zzUI) SetAutoComplete(func(string) string) {}

type zzSym struct{}

func (zzSym) Symbolize(string, plugin.MappingSources, *profile.Profile) error { return nil }

// zzProfile builds the i-th synthetic profile. Different i give different
// functions, mappings, units and values so that the merge order is visible in
// the merged profile.
func zzProfile(i int) *profile.Profile {
	unit := "nanoseconds"
	mul := int64(1000000)
	if i%5 == 0 {
		unit, mul = "milliseconds", 1
	}
	m := &profile.Mapping{ID: 1, Start: 0x1000, Limit: 0x400000, File: "/bin/prog", BuildID: "bid0"}
	switch i % 4 {
	case 1:
		m.File, m.BuildID = fmt.Sprintf("/lib/lib%d.so", i%3), ""
	case 2:
		m.File, m.BuildID = "", ""
	case 3:
		m.BuildID = fmt.Sprintf("bid%d", i%6)
	}
	f1 := &profile.Function{ID: 1, Name: fmt.Sprintf("fn%d", i%7), SystemName: fmt.Sprintf("fn%d", i%7), Filename: "a.go"}
	f2 := &profile.Function{ID: 2, Name: fmt.Sprintf("uniq%d", i), SystemName: fmt.Sprintf("uniq%d", i), Filename: "b.go"}
	l1 := &profile.Location{ID: 1, Mapping: m, Address: 0x1100 + uint64(i%7)*16, Line: []profile.Line{{Function: f1, Line: int64(10 + i%7)}}}
	l2 := &profile.Location{ID: 2, Mapping: m, Address: 0x2000 + uint64(i)*16, Line: []profile.Line{{Function: f2, Line: int64(i)}}}
	return &profile.Profile{
		SampleType:    []*profile.ValueType{{Type: "samples", Unit: "count"}, {Type: "cpu", Unit: unit}},
		PeriodType:    &profile.ValueType{Type: "cpu", Unit: unit},
		Period:        10 * mul,
		DurationNanos: int64(1000 + i),
		TimeNanos:     int64(5000 - i),
		Comments:      []string{fmt.Sprintf("c%d", i%9)},
		Sample: []*profile.Sample{
			{Location: []*profile.Location{l1, l2}, Value: []int64{int64(i + 1), int64(i+1) * 10 * mul}},
			{Location: []*profile.Location{l2}, Value: []int64{1, 10 * mul}, Label: map[string][]string{"k": {fmt.Sprintf("v%d", i%3)}}},
			{Location: []*profile.Location{l1}, Value: []int64{int64(2 + i%4), int64(2+i%4) * 10 * mul}},
		},
		Location: []*profile.Location{l1, l2},
		Function: []*profile.Function{f1, f2},
		Mapping:  []*profile.Mapping{m},
	}
}

func zzBytes(p *profile.Profile) []byte {
	var b bytes.Buffer
	if err := p.Write(&b); err != nil {
		panic(err)
	}
	return b.Bytes()
}

// zzInvalid is a well-formed encoding of a profile that fails validation
// (sample value count does not match the sample types).
func zzInvalid(i int) []byte {
	p := zzProfile(i)
	p.Sample[0].Value = []int64{1}
	return zzBytes(p)
}

// zzTransport serves URLs of the form http://host/<kind>/<id>. Every request
// is delayed by a pseudo-random amount derived from (seed, url) so that the
// completion order of concurrent fetches differs between seeds.
type zzTransport struct {
	seed uint64
	max  time.Duration
}

func zzMix(x uint64) uint64 {
	x += 0x9e3779b97f4a7c15
	x = (x ^ (x >> 30)) * 0xbf58476d1ce4e5b9
	x = (x ^ (x >> 27)) * 0x94d049bb133111eb
	return x ^ (x >> 31)
}

func (tr *zzTransport) RoundTrip(req *http.Request) (*http.Response, error) {
	parts := strings.Split(strings.Trim(req.URL.Path, "/"), "/")
	if len(parts) < 2 {
		return nil, fmt.Errorf("bad test url %s", req.URL)
	}
	kind := parts[len(parts)-2]
	var id int
	fmt.Sscanf(parts[len(parts)-1], "%d", &id)
	if tr.max > 0 {
		h := tr.seed
		for _, c := range []byte(req.URL.String()) {
			h = zzMix(h ^ uint64(c))
		}
		time.Sleep(time.Duration(h % uint64(tr.max)))
	}
	resp := &http.Response{
		StatusCode: 200, Status: "200 OK", Proto: "HTTP/1.1", ProtoMajor: 1, ProtoMinor: 1,
		Header: http.Header{}, Request: req,
	}
	var body []byte
	switch kind {
	case "ok":
		body = zzBytes(zzProfile(id))
	case "garbage":
		body = []byte(fmt.Sprintf("this is not a profile %d\x00\x01\x02", id))
	case "empty":
		body = nil
	case "invalid":
		body = zzInvalid(id)
	case "404":
		resp.StatusCode, resp.Status = 404, "404 Not Found"
		body = []byte("nope")
	case "500pprof":
		resp.StatusCode, resp.Status = 500, "500 Internal Server Error"
		resp.Header.Set("X-Go-Pprof", "1")
		resp.Header.Set("Content-Type", "text/plain; charset=utf-8")
		body = []byte(fmt.Sprintf("profiling busy %d", id))
	case "neterr":
		return nil, fmt.Errorf("simulated connection refused %d", id)
	default:
		return nil, fmt.Errorf("bad test kind %q", kind)
	}
	resp.Body = io.NopCloser(bytes.NewReader(body))
	resp.ContentLength = int64(len(body))
	return resp, nil
}

func zzDumpMsrc(w io.Writer, name string, ms plugin.MappingSources) {
	keys := make([]string, 0, len(ms))
	for k := range ms {
		keys = append(keys, k)
	}
	sort.Strings(keys)
	fmt.Fprintf(w, "%s: %d keys nil=%v\n", name, len(keys), ms == nil)
	for _, k := range keys {
		fmt.Fprintf(w, "  %q nil=%v:", k, ms[k] == nil)
		for _, e := range ms[k] {
			fmt.Fprintf(w, " (%s,%#x)", e.Source, e.Start)
		}
		fmt.Fprintln(w)
	}
}

func zzDumpProfile(w io.Writer, name string, p *profile.Profile) {
	if p == nil {
		fmt.Fprintf(w, "%s: <nil>\n", name)
		return
	}
	fmt.Fprintf(w, "%s:\n%s\n", name, p.String())
}

// zzDumpUI writes error lines mentioning "/s/" (sources) in the order printed,
// then those mentioning "/b/" (bases) in the order printed, then the rest and
// the info lines sorted (sources and bases are fetched concurrently so their
// relative order is not promised).
func zzDumpUI(w io.Writer, ui *zzUI, norm func(string) string) {
	ui.mu.Lock()
	defer ui.mu.Unlock()
	var s, b, rest []string
	for _, e := range ui.errs {
		e = norm(e)
		switch {
		case strings.Contains(e, "/s/"):
			s = append(s, e)
		case strings.Contains(e, "/b/"):
			b = append(b, e)
		default:
			rest = append(rest, e)
		}
	}
	sort.Strings(rest)
	infos := make([]string, 0, len(ui.infos))
	for _, i := range ui.infos {
		infos = append(infos, norm(i))
	}
	sort.Strings(infos)
	fmt.Fprintf(w, "src errs:\n  %s\nbase errs:\n  %s\nother errs:\n  %s\ninfos:\n  %s\n",
		strings.Join(s, "\n  "), strings.Join(b, "\n  "), strings.Join(rest, "\n  "), strings.Join(infos, "\n  "))
}

func zzHash(s string) string {
	return fmt.Sprintf("%x/%d", sha256.Sum256([]byte(s)), len(s))[56:]
}

// zzKinds picks the behaviour of source i under failure pattern pat.
func zzKind(pat string, i, n int) string {
	fails := []string{"404", "garbage", "invalid", "neterr", "500pprof", "empty"}
	switch pat {
	case "none":
		return "ok"
	case "all":
		return fails[i%len(fails)]
	case "every3":
		if i%3 == 1 {
			return fails[(i/3)%len(fails)]
		}
		return "ok"
	case "firstchunk": // everything in the first 128-chunk fails
		if i < 128 {
			return fails[i%len(fails)]
		}
		return "ok"
	case "boundary": // failures right around the chunk boundary
		if i == 0 || i == 127 || i == 128 || i == 255 || i == 256 || i == n-1 {
			return fails[i%len(fails)]
		}
		return "ok"
	case "onlylast":
		if i == n-1 {
			return "ok"
		}
		return fails[i%len(fails)]
	}
	panic(pat)
}

// zzAddrs builds n addresses for role "s" (source) or "b" (base). host
// "pproftest.local" is treated as local by grabProfile (no save), any other
// host counts as remote.
func zzAddrs(role, host, pat string, n, idBase int) []string {
	out := make([]string, n)
	for i := range out {
		out[i] = fmt.Sprintf("http://%s/%s/%s/%d", host, role, zzKind(pat, i, n), idBase+i)
	}
	return out
}

func zzSources(s *source, addrs []string) []profileSource {
	out := make([]profileSource, len(addrs))
	for i, a := range addrs {
		out[i] = profileSource{addr: a, source: s}
	}
	return out
}

func zzGrab(srcAddrs, baseAddrs []string, seed uint64, max time.Duration, norm func(string) string) string {
	s := &source{Sources: srcAddrs, Base: baseAddrs}
	ui := &zzUI{}
	tr := &zzTransport{seed: seed, max: max}
	p, pb, m, mb, save, err := grabSourcesAndBases(zzSources(s, srcAddrs), zzSources(s, baseAddrs), nil, testObj{}, ui, tr)
	var w strings.Builder
	fmt.Fprintf(&w, "err=%v save=%v\n", err, save)
	zzDumpProfile(&w, "p", p)
	zzDumpProfile(&w, "pbase", pb)
	zzDumpMsrc(&w, "msrc", m)
	zzDumpMsrc(&w, "mbase", mb)
	zzDumpUI(&w, ui, norm)
	return w.String()
}

func zzIdent(s string) string { return s }

func zzCheck(t *testing.T, name, got, want string) {
	t.Helper()
	if dir := os.Getenv("ZZ_DUMP"); dir != "" {
		os.WriteFile(filepath.Join(dir, strings.ReplaceAll(name, "/", "_")+".txt"), []byte(got), 0644)
	}
	h := zzHash(got)
	if os.Getenv("ZZ_PRINT") != "" {
		fmt.Printf("\t\t%q: %q,\n", name, h)
		return
	}
	if h != want {
		t.Errorf("%s: digest %s, want %s\n%.300s", name, h, want, got)
	}
}

var zzWantA = map[string]string{
	"fetch/both-all-fail/diffbase-norm":                "d4c77da1/1010",
	"fetch/both-all-fail/plain":                        "d4c77da1/1010",
	"fetch/n127/diffbase-norm":                         "e0fc0cab/12528",
	"fetch/n127/plain":                                 "ceed5f5d/27820",
	"fetch/n128/diffbase-norm":                         "5ec9eb67/67910",
	"fetch/n128/plain":                                 "c850cea5/56594",
	"fetch/n129-firstchunk/diffbase-norm":              "5a4837e7/42837",
	"fetch/n129-firstchunk/plain":                      "78da58ce/42747",
	"fetch/one-fails/diffbase-norm":                    "1a4f957b/225",
	"fetch/one-fails/plain":                            "1a4f957b/225",
	"fetch/one/diffbase-norm":                          "ce196ca0/529",
	"fetch/one/plain":                                  "ce196ca0/529",
	"fetch/remote-base-only-failing-src/diffbase-norm": "a682a072/926",
	"fetch/remote-base-only-failing-src/plain":         "a682a072/926",
	"fetch/remote-base/diffbase-norm":                  "bfdd8d5d/3287",
	"fetch/remote-base/plain":                          "f0d1627e/2931",
	"fetch/remote-src/diffbase-norm":                   "aefe6295/980",
	"fetch/remote-src/plain":                           "835f2216/2475",
	"fetch/src-all-fail-bases-ok/diffbase-norm":        "45523db3/935",
	"fetch/src-all-fail-bases-ok/plain":                "45523db3/935",
	"fetch/src-ok-bases-all-fail/diffbase-norm":        "e5cf76a7/1082",
	"fetch/src-ok-bases-all-fail/plain":                "e5cf76a7/1082",
	"fetch/three-base2/diffbase-norm":                  "94824e89/1720",
	"fetch/three-base2/plain":                          "a394bb5f/1542",
	"grab/both-all-fail":                               "295313da/1079",
	"grab/n127":                                        "3864cc2e/33397",
	"grab/n128":                                        "03cd6481/72907",
	"grab/n129-firstchunk":                             "b2ebd582/43094",
	"grab/n260-onlylast":                               "2ebe3e21/42563",
	"grab/n300-boundary":                               "4d5e98e0/84874",
	"grab/n300-every3":                                 "b04bc09f/133460",
	"grab/one":                                         "31538fb3/645",
	"grab/one-fails":                                   "ca05a4a8/294",
	"grab/remote-base":                                 "99016b45/3731",
	"grab/remote-base-only-failing-src":                "a11533a3/995",
	"grab/remote-src":                                  "6a022c59/3109",
	"grab/src-all-fail-bases-ok":                       "5d5fb301/1004",
	"grab/src-ok-bases-all-fail":                       "53fe330e/1151",
	"grab/three-base2":                                 "fda8cf9d/2112",
}

// TestZZEquivA exercises grabSourcesAndBases / fetchProfiles over source and
// base lists of 1..300 entries (crossing the 128 chunk boundary), failure
// subsets and two different completion orders per scenario.
func TestZZEquivA(t *testing.T) {
	type sc struct {
		name         string
		nsrc, nbase  int
		spat, bpat   string
		shost, bhost string
	}
	scs := []sc{
		{"one", 1, 0, "none", "none", "pproftest.local", "pproftest.local"},
		{"one-fails", 1, 0, "all", "none", "pproftest.local", "pproftest.local"},
		{"three-base2", 3, 2, "every3", "none", "pproftest.local", "pproftest.local"},
		{"src-ok-bases-all-fail", 5, 4, "none", "all", "pproftest.local", "pproftest.local"},
		{"src-all-fail-bases-ok", 4, 3, "all", "none", "pproftest.local", "pproftest.local"},
		{"both-all-fail", 3, 3, "all", "all", "pproftest.local", "pproftest.local"},
		{"remote-src", 7, 2, "every3", "every3", "example.test", "pproftest.local"},
		{"remote-base", 4, 6, "none", "every3", "pproftest.local", "example.test"},
		{"remote-base-only-failing-src", 4, 3, "all", "none", "pproftest.local", "example.test"},
		{"n127", 127, 1, "every3", "none", "pproftest.local", "pproftest.local"},
		{"n128", 128, 129, "every3", "boundary", "pproftest.local", "pproftest.local"},
		{"n129-firstchunk", 129, 130, "firstchunk", "onlylast", "pproftest.local", "pproftest.local"},
		{"n300-boundary", 300, 3, "boundary", "every3", "example.test", "pproftest.local"},
		{"n300-every3", 300, 257, "every3", "firstchunk", "pproftest.local", "example.test"},
		{"n260-onlylast", 260, 0, "onlylast", "none", "pproftest.local", "pproftest.local"},
	}
	for _, c := range scs {
		src := zzAddrs("s", c.shost, c.spat, c.nsrc, 0)
		base := zzAddrs("b", c.bhost, c.bpat, c.nbase, 1000)
		for _, seed := range []uint64{1, 2} {
			got := zzGrab(src, base, seed, 3*time.Millisecond, zzIdent)
			zzCheck(t, "grab/"+c.name, got, zzWantA["grab/"+c.name])
		}
	}

	// End to end through fetchProfiles (subtracting the bases, saving a copy).
	tmp := t.TempDir()
	t.Setenv("PPROF_TMPDIR", tmp)
	norm := func(s string) string { return strings.ReplaceAll(s, tmp, "$TMP") }
	for _, c := range scs {
		if c.nsrc > 130 {
			continue
		}
		for _, variant := range []string{"plain", "diffbase-norm"} {
			name := "fetch/" + c.name + "/" + variant
			for _, seed := range []uint64{3, 4} {
				s := &source{
					Sources: zzAddrs("s", c.shost, c.spat, c.nsrc, 0),
					Base:    zzAddrs("b", c.bhost, c.bpat, c.nbase, 1000),
					Comment: "cmt",
				}
				if variant != "plain" {
					s.DiffBase, s.Normalize = true, true
				}
				ui := &zzUI{}
				o := &plugin.Options{UI: ui, Obj: testObj{}, Sym: zzSym{}, HTTPTransport: &zzTransport{seed: seed, max: 2 * time.Millisecond}}
				p, err := fetchProfiles(s, o)
				var w strings.Builder
				fmt.Fprintf(&w, "err=%v\n", err)
				zzDumpProfile(&w, "p", p)
				// The saved temp file gets a fresh sequence number; keep only the prefix.
				zzDumpUI(&w, ui, func(s string) string {
					s = norm(s)
					if strings.HasPrefix(s, "Saved profile in ") {
						if i := strings.LastIndex(s[:len(s)-len(".pb.gz")], "."); i >= 0 {
							s = s[:i] + ".NNN.pb.gz"
						}
					}
					return s
				})
				zzCheck(t, name, w.String(), zzWantA[name])
			}
		}
	}
}
