package report

import (
	"bytes"
	"regexp"
	"strings"
	"testing"

	"github.com/google/pprof/internal/graph"
	"github.com/google/pprof/profile"
)

func zzbProfile() *profile.Profile {
	m1 := &profile.Mapping{ID: 1, Start: 0x1000, Limit: 0x9000, File: "/bin/we\"ird\\obj\nfile"}
	m2 := &profile.Mapping{ID: 2, Start: 0x10000, Limit: 0x90000000000, File: " \t(7) lib.so"}
	names := []string{`main."quoted"`, "ns::back\\slash", "\n  new\nline<fn>", "héllo.wörld (1)", "(2)", "plain", " \n\t", "plain"}
	files := []string{"/src/a\"b.go", "/src/a\"b.go", "\n/src/nl\n.go", "", "   ", "/src/(3) p.go", "/src/x.go", "/src/other.go"}
	addrs := []uint64{0x1000, 0x1010, 0x100f, 0x8fff, 0x10000, 0x8000000000f, 0x10008, 0x2000}
	var fns []*profile.Function
	var locs []*profile.Location
	for i, n := range names {
		f := &profile.Function{ID: uint64(i + 1), Name: n, SystemName: n, Filename: files[i]}
		fns = append(fns, f)
		m := m1
		if addrs[i] >= 0x10000 {
			m = m2
		}
		locs = append(locs, &profile.Location{ID: uint64(i + 1), Mapping: m, Address: addrs[i], Line: []profile.Line{{Function: f, Line: int64(10 + i)}}})
	}
	// A location with inlined frames.
	locs = append(locs, &profile.Location{ID: 9, Mapping: m1, Address: 0x3000, Line: []profile.Line{{Function: fns[5], Line: 77}, {Function: fns[0], Line: 78}}})
	p := &profile.Profile{
		SampleType: []*profile.ValueType{{Type: "sam\nples", Unit: "co\nunt"}},
		PeriodType: &profile.ValueType{Type: "cpu", Unit: "ms"},
		Mapping:    []*profile.Mapping{m1, m2},
		Function:   fns,
		Location:   locs,
	}
	add := func(v int64, ids ...int) {
		s := &profile.Sample{Value: []int64{v}}
		for _, id := range ids {
			s.Location = append(s.Location, locs[id])
		}
		p.Sample = append(p.Sample, s)
	}
	add(100, 0, 1, 2)
	add(70, 0, 2)
	add(50, 3, 1, 2)
	add(30, 4, 3)
	add(20, 5, 4, 0)
	add(10, 5)
	add(5, 1, 1)
	add(3, 6, 7, 5)
	add(2, 7, 6)
	add(1, 8, 2)
	add(4, 5, 1, 8)
	return p
}

func zzbCallgrind(t *testing.T, callTree bool) string {
	p := zzbProfile()
	rpt := New(p, &Options{
		OutputFormat: Callgrind,
		CallTree:     callTree,
		SampleValue:  func(v []int64) int64 { return v[0] },
		SampleType:   "sam\nples",
		SampleUnit:   "co\nunt",
		OutputUnit:   "co\nunt",
	})
	var buf bytes.Buffer
	if err := Generate(&buf, rpt, nil); err != nil {
		t.Fatal(err)
	}
	return buf.String()
}

var zzbLines = []string{"", "x", " x", "\tx ", "\n", "\n\n x\ny\n", " \t \n", "a b", "  (1) n", "é\n", "\r\nx", "\n\t\n \tq\t\n "}

var zzbAddrs = []struct {
	prev *graph.NodeInfo
	curr uint64
}{
	{nil, 0}, {nil, 0x1234}, {&graph.NodeInfo{Address: 5}, 5}, {&graph.NodeInfo{Address: 0x1000}, 0x1010},
	{&graph.NodeInfo{Address: 0x1010}, 0x1000}, {&graph.NodeInfo{Address: 0}, 0xffffffffffffffff},
	{&graph.NodeInfo{Address: 0xffffffffffffffff}, 0}, {&graph.NodeInfo{Address: 1}, 0x8000000000000001},
	{&graph.NodeInfo{Address: 0x10}, 0x20000000}, {&graph.NodeInfo{Address: 0x20000000}, 0x10}, {&graph.NodeInfo{Address: 0}, 9},
	{&graph.NodeInfo{Address: 100}, 0}, {&graph.NodeInfo{Address: 0x7fffffffffffffff}, 0}, {&graph.NodeInfo{Address: 0}, 0x8000000000000000},
}

// Expected values below were computed on the unchanged tree.
var zzbWantLines = []string{"", "x", "x", "x ", "", "x y ", "", "a b", "(1) n", "é ", "\r x", "q\t  "}

var zzbWantAddrs = []string{"0x0", "0x1234", "*", "+16", "-16", "-1", "+1", "0x8000000000000001", "0x20000000", "0x10", "+9", "0x0", "0x0", "0x8000000000000000"}

var zzbWantCallgrind = map[bool]string{
	false: "positions: instr line\nevents: sam ples(co unt)\n\nob=(1) /bin/we\"ird\\obj file\nfl=(1) /src/a\"b.go\nfn=(1) main.\"quoted\"\n0x1000 10 170\ncfl=\ncfn=(2) (2)\ncalls=0 0x10000 14\n* * 20\n\nob=(1)\nfl=\nfn=(3) héllo.wörld (1)\n0x8fff 13 50\ncfl=\ncfn=(2)\ncalls=0 +61440 14\n* * 30\n\nob=(2) (7) lib.so\nfl=(2) /src/(3) p.go\nfn=(4) plain\n0x8000000000f 15 34\ncfl=(3) /src/other.go\ncfn=(4)\ncalls=0 0x2000 17\n* * 3\n\nob=(2)\nfl=\nfn=(2)\n0x10000 14 30\ncfl=(2)\ncfn=(5) plain [1/2]\ncalls=0 * 15\n* * 20\n\nob=(1)\nfl=(1)\nfn=(6) ns::back\\slash\n0x1010 11 5\ncfl=(1)\ncfn=(1)\ncalls=0 0x1000 10\n* * 100\ncfl=\ncfn=(3)\ncalls=0 0x8fff 13\n* * 50\ncfl=(2)\ncfn=(5)\ncalls=0 0x8000000000f 15\n* * 4\n\nob=(2)\nfl=(4) /src/x.go\nfn=\n+61432 16 3\ncfl=(3)\ncfn=(4)\ncalls=0 +4080 17\n* * 2\n\nob=(1)\nfl=(3)\nfn=(4)\n0x2000 17 2\ncfl=(4)\ncfn=\ncalls=0 * 16\n* * 3\n\nob=(1)\nfl=(2)\nfn=(4)\n+4096 77 1\ncfl=(1)\ncfn=(6)\ncalls=0 -4080 11\n* * 4\n\nob=(1)\nfl=(5) /src/nl .go\nfn=(7) new line<fn>\n-8177 12 0\ncfl=(1)\ncfn=(6)\ncalls=0 -8176 11\n* * 150\ncfl=(1)\ncfn=(1)\ncalls=0 -8192 10\n* * 70\ncfl=(1)\ncfn=(1)\ncalls=0 * 78\n* * 1\n\nob=(1)\nfl=(1)\nfn=(1)\n+8177 78 0\ncfl=(2)\ncfn=(8) plain [2/2]\ncalls=0 +8177 77\n* * 5\n",
	true:  "positions: instr line\nevents: sam ples(co unt)\n\nob=(1) /bin/we\"ird\\obj file\nfl=(1) /src/a\"b.go\nfn=(1) main.\"quoted\"\n0x1000 10 100\n* 10 70\n\nob=(1)\nfl=\nfn=(2) héllo.wörld (1)\n0x8fff 13 50\n\nob=(2) (7) lib.so\nfl=\nfn=(3) (2)\n+28673 14 30\n\nob=(2)\nfl=(2) /src/(3) p.go\nfn=(4) plain\n0x8000000000f 15 20\n* 15 10\ncfl=(3) /src/other.go\ncfn=(5) plain [2/2]\ncalls=0 0x2000 17\n* * 3\n\nob=(1)\nfl=(1)\nfn=(6) ns::back\\slash\n0x1010 11 5\n\nob=(2)\nfl=(2)\nfn=(4)\n0x8000000000f 15 4\n\nob=(2)\nfl=(4) /src/x.go\nfn=\n0x10008 16 3\n\nob=(1)\nfl=(3)\nfn=(4)\n0x2000 17 2\n\nob=(1)\nfl=(2)\nfn=(4)\n+4096 77 1\n\nob=(1)\nfl=(1)\nfn=(1)\n-8192 10 0\ncfl=\ncfn=(7) (2) [2/2]\ncalls=0 +53248 14\n* * 20\n\nob=(1)\nfl=(5) /src/nl .go\nfn=(8) new line<fn>\n+15 12 0\ncfl=(1)\ncfn=(9) ns::back\\slash [2/4]\ncalls=0 +16 11\n* * 150\ncfl=(1)\ncfn=(10) main.\"quoted\" [2/3]\ncalls=0 * 10\n* * 70\ncfl=(1)\ncfn=(10)\ncalls=0 +8192 78\n* * 1\n\nob=(1)\nfl=(1)\nfn=(6)\n+1 11 0\ncfl=(1)\ncfn=(11) main.\"quoted\" [1/3]\ncalls=0 -15 10\n* * 100\ncfl=\ncfn=(12) héllo.wörld (1) [1/2]\ncalls=0 0x8fff 13\n* * 50\n* 11 0\ncfl=(1)\ncfn=(13) ns::back\\slash [1/4]\ncalls=0 * 11\n* * 5\n* 11 0\ncfl=(2)\ncfn=(14) plain [3/5]\ncalls=0 0x8000000000f 15\n* * 4\n\nob=(1)\nfl=(3)\nfn=(4)\n+4080 17 0\ncfl=(4)\ncfn=(15) [1/2]\ncalls=0 +61432 16\n* * 3\n\nob=(1)\nfl=(1)\nfn=(1)\n+4096 78 0\ncfl=(2)\ncfn=(16) plain [5/5]\ncalls=0 +4096 77\n* * 4\n* 78 0\ncfl=(2)\ncfn=(17) plain [4/5]\ncalls=0 * 77\n* * 1\n\nob=(1)\nfl=(2)\nfn=(4)\n* 77 0\ncfl=(1)\ncfn=(18) ns::back\\slash [4/4]\ncalls=0 -8176 11\n* * 4\n\nob=(1)\nfl=\nfn=(2)\n0x8fff 13 0\ncfl=\ncfn=(19) (2) [1/2]\ncalls=0 +53248 14\n* * 30\n\nob=(2)\nfl=\nfn=(3)\n+28673 14 0\ncfl=(2)\ncfn=(20) plain [1/5]\ncalls=0 0x8000000000f 15\n* * 20\n\nob=(2)\nfl=(4)\nfn=\n+8 16 0\ncfl=(3)\ncfn=(21) plain [1/2]\ncalls=0 0x2000 17\n* * 2\n",
}

var zzbNameLine = regexp.MustCompile(`^(ob|fl|fn|cfl|cfn)=(?:\((\d+)\))?(?: (.*))?$`)

func TestZZEquivB(t *testing.T) {
	for i, s := range zzbLines {
		if got := callgrindLine(s); got != zzbWantLines[i] {
			t.Errorf("callgrindLine(%q) = %q, want %q", s, got, zzbWantLines[i])
		}
	}
	for i, a := range zzbAddrs {
		if got := callgrindAddress(a.prev, a.curr); got != zzbWantAddrs[i] {
			t.Errorf("callgrindAddress(%v, %#x) = %q, want %q", a.prev, a.curr, got, zzbWantAddrs[i])
		}
	}
	for _, callTree := range []bool{false, true} {
		got := zzbCallgrind(t, callTree)
		if want := zzbWantCallgrind[callTree]; got != want {
			t.Errorf("callgrind output (call_tree=%v) differs from the unchanged tree:\n got %q\nwant %q", callTree, got, want)
		}
		// Name compression grammar: "(n) name" defines n once per name space,
		// "(n)" must refer to an earlier definition.
		defined := map[string]map[string]string{"ob": {}, "fl": {}, "fn": {}}
		refs := 0
		for _, line := range strings.Split(got, "\n") {
			m := zzbNameLine.FindStringSubmatch(line)
			if m == nil {
				if eq := strings.Index(line, "="); eq >= 0 && line[:eq] != "calls" {
					t.Errorf("malformed name line %q", line)
				}
				continue
			}
			space := strings.TrimPrefix(m[1], "c")
			switch id, name := m[2], m[3]; {
			case id == "" && name == "":
			case id == "":
				t.Errorf("uncompressed name in %q", line)
			case name != "":
				if _, dup := defined[space][id]; dup {
					t.Errorf("id redefined in %q", line)
				}
				defined[space][id] = name
			default:
				refs++
				if _, ok := defined[space][id]; !ok {
					t.Errorf("back-reference to undefined id in %q", line)
				}
			}
		}
		if refs == 0 {
			t.Errorf("no back-references exercised")
		}
	}
}
