package driver

import (
	"bytes"
	"fmt"
	"os"
	"sort"
	"strings"
	"sync"
	"testing"
	"time"

	"github.com/google/pprof/internal/plugin"
	"github.com/google/pprof/internal/report"
	"github.com/google/pprof/internal/transport"
	"github.com/google/pprof/profile"
)

func zzProf(types []string, stacks [][]string, vals [][]int64) *profile.Profile {
	p := &profile.Profile{Period: 1, PeriodType: &profile.ValueType{Type: "cpu", Unit: "nanoseconds"}}
	for _, t := range types {
		tu := strings.SplitN(t, "/", 2)
		p.SampleType = append(p.SampleType, &profile.ValueType{Type: tu[0], Unit: tu[1]})
	}
	m := &profile.Mapping{ID: 1, Start: 0x1000, Limit: 0x9000, File: "/bin/zz", HasFunctions: true, HasFilenames: true, HasLineNumbers: true}
	p.Mapping = []*profile.Mapping{m}
	fns := map[string]*profile.Function{}
	locs := map[string]*profile.Location{}
	for i, st := range stacks {
		s := &profile.Sample{Value: append([]int64(nil), vals[i]...)}
		for _, name := range st {
			l := locs[name]
			if l == nil {
				f := &profile.Function{ID: uint64(len(fns) + 1), Name: name, SystemName: name, Filename: name + ".go"}
				fns[name] = f
				p.Function = append(p.Function, f)
				l = &profile.Location{ID: uint64(len(locs) + 1), Mapping: m, Address: 0x1000 + uint64(strings.Index("a,b,c,d,main", name))*16, Line: []profile.Line{{Function: f, Line: 7}}}
				locs[name] = l
				p.Location = append(p.Location, l)
			}
			s.Location = append(s.Location, l)
		}
		p.Sample = append(p.Sample, s)
	}
	return p
}

var zzStacks = [][]string{{"a", "b", "main"}, {"c", "main"}, {"a", "main"}, {"d"}}

// zzStore is the set of named in-memory profiles the fake fetcher serves.
func zzStore() map[string]*profile.Profile {
	return map[string]*profile.Profile{
		"p1": zzProf([]string{"samples/count", "cpu/milliseconds"}, zzStacks,
			[][]int64{{1, 10}, {2, 20}, {3, 30}, {4, 40}}),
		"p2": zzProf([]string{"cpu/nanoseconds", "samples/count"}, zzStacks,
			[][]int64{{5000000, 5}, {6000000, 0}, {0, 7}, {1499999, 1}}),
		"p3": zzProf([]string{"samples/count", "cpu/milliseconds", "alloc/bytes"}, zzStacks[:3],
			[][]int64{{1, 1, 100}, {0, 2, 0}, {3, 0, 300}}),
		"p4": zzProf([]string{"samples/count", "cpu/milliseconds"}, zzStacks[1:],
			[][]int64{{10, 5}, {0, 25}, {30, 0}}),
		"mem": zzProf([]string{"alloc/bytes"}, zzStacks[:1], [][]int64{{1}}),
	}
}

type zzFetcher struct{ store map[string]*profile.Profile }

func (f zzFetcher) Fetch(src string, _, _ time.Duration) (*profile.Profile, string, error) {
	if strings.HasPrefix(src, "fail:") {
		return nil, "", fmt.Errorf("cannot fetch %s", strings.TrimPrefix(src, "fail:"))
	}
	p, ok := f.store[src]
	if !ok {
		return nil, "", fmt.Errorf("no such profile %s", src)
	}
	return p.Copy(), "", nil
}

type zzUI struct {
	mu   sync.Mutex
	errs []string
}

func (*zzUI) ReadLine(string) (string, error)       { return "", fmt.Errorf("no input") }
func (*zzUI) Print(...interface{})                  {}
func (*zzUI) IsTerminal() bool                      { return false }
func (*zzUI) WantBrowser() bool                     { return false }
func (*zzUI) SetAutoComplete(func(string) string)   {}
func (u *zzUI) PrintErr(args ...interface{}) {
	u.mu.Lock()
	defer u.mu.Unlock()
	u.errs = append(u.errs, fmt.Sprint(args...))
}

func zzDump(p *profile.Profile) string {
	var b strings.Builder
	b.WriteString("types=")
	for _, st := range p.SampleType {
		fmt.Fprintf(&b, "%s/%s,", st.Type, st.Unit)
	}
	b.WriteString("\n")
	var lines []string
	for _, s := range p.Sample {
		var names []string
		for _, l := range s.Location {
			for _, ln := range l.Line {
				names = append(names, ln.Function.Name)
			}
		}
		var labels []string
		for k, v := range s.Label {
			labels = append(labels, fmt.Sprintf("%s=%v", k, v))
		}
		sort.Strings(labels)
		lines = append(lines, fmt.Sprintf("%s %v %v", strings.Join(names, ";"), s.Value, labels))
	}
	sort.Strings(lines)
	b.WriteString(strings.Join(lines, "\n"))
	b.WriteString("\n")
	return b.String()
}

type zzCase struct {
	name string
	src  source
	want string
}

func zzCases() []zzCase {
	return []zzCase{
		{"plain-sum", source{Sources: []string{"p1", "p2", "p3"}}, zzWantSum},
		{"base", source{Sources: []string{"p1", "p2"}, Base: []string{"p2"}}, zzWantBase},
		{"base-self", source{Sources: []string{"p1", "p2"}, Base: []string{"p2", "p1"}}, zzWantSelf},
		{"diff-base", source{Sources: []string{"p1", "p3"}, Base: []string{"p2"}, DiffBase: true}, zzWantDiff},
		{"diff-base-normalize", source{Sources: []string{"p1"}, Base: []string{"p4", "p4"}, DiffBase: true, Normalize: true}, zzWantDiffNorm},
		{"base-normalize", source{Sources: []string{"p1", "p4"}, Base: []string{"p4"}, Normalize: true}, zzWantBaseNorm},
		{"some-sources-fail", source{Sources: []string{"p1", "fail:x", "p2"}, Base: []string{"fail:y", "p2"}}, zzWantSomeFail},
		{"all-sources-fail", source{Sources: []string{"fail:x"}, Base: []string{"p2"}}, zzWantAllSrcFail},
		{"all-bases-fail", source{Sources: []string{"p1"}, Base: []string{"fail:y", "fail:z"}}, zzWantAllBaseFail},
		{"source-merge-error", source{Sources: []string{"p1", "mem"}, Base: []string{"p1"}}, zzWantSrcErr},
		{"base-merge-error", source{Sources: []string{"p1"}, Base: []string{"p1", "mem"}}, zzWantBaseErr},
		{"source-vs-base-error", source{Sources: []string{"p1"}, Base: []string{"mem"}}, zzWantCrossErr},
	}
}

func zzRun(src source) string {
	var b strings.Builder
	ui := &zzUI{}
	src.Symbolize = "none"
	o := setDefaults(&plugin.Options{UI: ui, Fetch: zzFetcher{zzStore()}, Flagset: testFlags{}, HTTPTransport: transport.New(nil)})
	p, err := fetchProfiles(&src, o)
	sort.Strings(ui.errs)
	for _, e := range ui.errs {
		fmt.Fprintf(&b, "ui: %s\n", e)
	}
	if err != nil {
		fmt.Fprintf(&b, "error: %v\n", err)
		return b.String()
	}
	b.WriteString(zzDump(p))
	for idx := range p.SampleType {
		idx := idx
		rpt := report.New(p, &report.Options{
			OutputFormat: report.Text,
			SampleType:   p.SampleType[idx].Type,
			SampleUnit:   p.SampleType[idx].Unit,
			SampleValue:  func(v []int64) int64 { return v[idx] },
		})
		var out bytes.Buffer
		if err := report.Generate(&out, rpt, nil); err != nil {
			fmt.Fprintf(&b, "report error: %v\n", err)
			continue
		}
		fmt.Fprintf(&b, "-- top sample_index=%d\n%s", idx, out.String())
	}
	return b.String()
}

func TestZZEquivC(t *testing.T) {
	for _, tc := range zzCases() {
		// The fetches run concurrently; repeat to shake out any
		// scheduling dependence.
		for rep := 0; rep < 5; rep++ {
			got := zzRun(tc.src)
			if os.Getenv("ZZ_PRINT") != "" {
				fmt.Printf("=== %s\n%s", tc.name, got)
				break
			}
			if got != tc.want {
				t.Fatalf("%s (rep %d): got\n%s\nwant\n%s", tc.name, rep, got, tc.want)
			}
		}
	}
}

// ---- golden outputs (computed on the unchanged tree) ----

const zzWantSum = `types=samples/count,cpu/nanoseconds,
a;b;main [7 16000000] []
a;main [10 30000000] []
c;main [2 28000000] []
d [5 41499999] []
-- top sample_index=0
File: zz
Type: samples
Showing nodes accounting for 24, 100% of 24 total
      flat  flat%   sum%        cum   cum%
        17 70.83% 70.83%         17 70.83%  0000000000001000 a a.go:7
         5 20.83% 91.67%          5 20.83%  0000000000001060 d d.go:7
         2  8.33%   100%          2  8.33%  0000000000001040 c c.go:7
         0     0%   100%          7 29.17%  0000000000001020 b b.go:7
         0     0%   100%         19 79.17%  0000000000001080 main main.go:7
-- top sample_index=1
File: zz
Type: cpu
Showing nodes accounting for 0.12s, 100% of 0.12s total
      flat  flat%   sum%        cum   cum%
     0.05s 39.83% 39.83%      0.05s 39.83%  0000000000001000 a a.go:7
     0.04s 35.93% 75.76%      0.04s 35.93%  0000000000001060 d d.go:7
     0.03s 24.24%   100%      0.03s 24.24%  0000000000001040 c c.go:7
         0     0%   100%      0.02s 13.85%  0000000000001020 b b.go:7
         0     0%   100%      0.07s 64.07%  0000000000001080 main main.go:7
`

const zzWantBase = `types=samples/count,cpu/nanoseconds,
a;b;main [1 10000000] []
a;main [3 30000000] []
c;main [2 20000000] []
d [4 40000000] []
-- top sample_index=0
File: zz
Type: samples
Showing nodes accounting for 10, 100% of 10 total
      flat  flat%   sum%        cum   cum%
         4 40.00% 40.00%          4 40.00%  0000000000001000 a a.go:7
         4 40.00% 80.00%          4 40.00%  0000000000001060 d d.go:7
         2 20.00%   100%          2 20.00%  0000000000001040 c c.go:7
         0     0%   100%          1 10.00%  0000000000001020 b b.go:7
         0     0%   100%          6 60.00%  0000000000001080 main main.go:7
-- top sample_index=1
File: zz
Type: cpu
Showing nodes accounting for 0.10s, 100% of 0.10s total
      flat  flat%   sum%        cum   cum%
     0.04s 40.00% 40.00%      0.04s 40.00%  0000000000001000 a a.go:7
     0.04s 40.00% 80.00%      0.04s 40.00%  0000000000001060 d d.go:7
     0.02s 20.00%   100%      0.02s 20.00%  0000000000001040 c c.go:7
         0     0%   100%      0.01s 10.00%  0000000000001020 b b.go:7
         0     0%   100%      0.06s 60.00%  0000000000001080 main main.go:7
`

const zzWantSelf = `types=samples/count,cpu/nanoseconds,

-- top sample_index=0
File: zz
Type: samples
Showing nodes accounting for 0, 0% of 0 total
      flat  flat%   sum%        cum   cum%
-- top sample_index=1
File: zz
Type: cpu
Showing nodes accounting for 0, 0% of 0 total
      flat  flat%   sum%        cum   cum%
`

const zzWantDiff = `types=samples/count,cpu/nanoseconds,
a;b;main [-5 -5000000] [pprof::base=[true]]
a;b;main [2 11000000] []
a;main [-7 0] [pprof::base=[true]]
a;main [6 30000000] []
c;main [0 -6000000] [pprof::base=[true]]
c;main [2 22000000] []
d [-1 -1499999] [pprof::base=[true]]
d [4 40000000] []
-- top sample_index=0
File: zz
Type: samples
Showing nodes accounting for 1, 7.69% of 13 total
      flat  flat%   sum%        cum   cum%
        -4 30.77% 30.77%         -4 30.77%  0000000000001000 a a.go:7
         3 23.08%  7.69%          3 23.08%  0000000000001060 d d.go:7
         2 15.38%  7.69%          2 15.38%  0000000000001040 c c.go:7
         0     0%  7.69%         -3 23.08%  0000000000001020 b b.go:7
         0     0%  7.69%         -2 15.38%  0000000000001080 main main.go:7
-- top sample_index=1
File: zz
Type: cpu
Showing nodes accounting for 0.09s, 78.35% of 0.12s total
      flat  flat%   sum%        cum   cum%
     0.04s 33.33% 33.33%      0.04s 33.33%  0000000000001060 d d.go:7
     0.04s 31.17% 64.50%      0.04s 31.17%  0000000000001000 a a.go:7
     0.02s 13.85% 78.35%      0.02s 13.85%  0000000000001040 c c.go:7
         0     0% 78.35%      0.01s  5.19%  0000000000001020 b b.go:7
         0     0% 78.35%      0.05s 45.02%  0000000000001080 main main.go:7
`

const zzWantDiffNorm = `types=samples/count,cpu/milliseconds,
a;b;main [8 6] []
a;main [0 -50] [pprof::base=[true]]
a;main [24 18] []
c;main [-20 -10] [pprof::base=[true]]
c;main [16 12] []
d [-60 0] [pprof::base=[true]]
d [32 24] []
-- top sample_index=0
File: zz
Type: samples
Showing nodes accounting for 0, 0% of 80 total
      flat  flat%   sum%        cum   cum%
        32 40.00% 40.00%         32 40.00%  0000000000001000 a a.go:7
       -28 35.00%  5.00%        -28 35.00%  0000000000001060 d d.go:7
        -4  5.00%     0%         -4  5.00%  0000000000001040 c c.go:7
         0     0%     0%          8 10.00%  0000000000001020 b b.go:7
         0     0%     0%         28 35.00%  0000000000001080 main main.go:7
-- top sample_index=1
File: zz
Type: cpu
Showing nodes accounting for 0, 0% of 0.12s total
      flat  flat%   sum%        cum   cum%
    -0.03s 21.67% 21.67%     -0.03s 21.67%  0000000000001000 a a.go:7
     0.02s 20.00%  1.67%      0.02s 20.00%  0000000000001060 d d.go:7
         0  1.67%     0%          0  1.67%  0000000000001040 c c.go:7
         0     0%     0%      0.01s  5.00%  0000000000001020 b b.go:7
         0     0%     0%     -0.02s 20.00%  0000000000001080 main main.go:7
`

const zzWantBaseNorm = `types=samples/count,cpu/milliseconds,
a;b;main [1 2] []
a;main [2 -12] []
c;main [0 1] []
d [-3 9] []
-- top sample_index=0
File: zz
Type: samples
Showing nodes accounting for 0, 0% of 6 total
      flat  flat%   sum%        cum   cum%
         3 50.00% 50.00%          3 50.00%  0000000000001000 a a.go:7
        -3 50.00%     0%         -3 50.00%  0000000000001060 d d.go:7
         0     0%     0%          1 16.67%  0000000000001020 b b.go:7
         0     0%     0%          3 50.00%  0000000000001080 main main.go:7
-- top sample_index=1
File: zz
Type: cpu
Showing nodes accounting for 0, 0% of 0.02s total
      flat  flat%   sum%        cum   cum%
    -0.01s 41.67% 41.67%     -0.01s 41.67%  0000000000001000 a a.go:7
     0.01s 37.50%  4.17%      0.01s 37.50%  0000000000001060 d d.go:7
         0  4.17%     0%          0  4.17%  0000000000001040 c c.go:7
         0     0%     0%          0  8.33%  0000000000001020 b b.go:7
         0     0%     0%     -0.01s 37.50%  0000000000001080 main main.go:7
`

const zzWantSomeFail = `ui: Fetched 1 base profiles out of 2
ui: Fetched 2 source profiles out of 3
ui: fail:x: cannot fetch x
ui: fail:y: cannot fetch y
types=samples/count,cpu/nanoseconds,
a;b;main [1 10000000] []
a;main [3 30000000] []
c;main [2 20000000] []
d [4 40000000] []
-- top sample_index=0
File: zz
Type: samples
Showing nodes accounting for 10, 100% of 10 total
      flat  flat%   sum%        cum   cum%
         4 40.00% 40.00%          4 40.00%  0000000000001000 a a.go:7
         4 40.00% 80.00%          4 40.00%  0000000000001060 d d.go:7
         2 20.00%   100%          2 20.00%  0000000000001040 c c.go:7
         0     0%   100%          1 10.00%  0000000000001020 b b.go:7
         0     0%   100%          6 60.00%  0000000000001080 main main.go:7
-- top sample_index=1
File: zz
Type: cpu
Showing nodes accounting for 0.10s, 100% of 0.10s total
      flat  flat%   sum%        cum   cum%
     0.04s 40.00% 40.00%      0.04s 40.00%  0000000000001000 a a.go:7
     0.04s 40.00% 80.00%      0.04s 40.00%  0000000000001060 d d.go:7
     0.02s 20.00%   100%      0.02s 20.00%  0000000000001040 c c.go:7
         0     0%   100%      0.01s 10.00%  0000000000001020 b b.go:7
         0     0%   100%      0.06s 60.00%  0000000000001080 main main.go:7
`

const zzWantAllSrcFail = `ui: fail:x: cannot fetch x
error: failed to fetch any source profiles
`

const zzWantAllBaseFail = `ui: fail:y: cannot fetch y
ui: fail:z: cannot fetch z
error: failed to fetch any base profiles
`

const zzWantSrcErr = `error: problem fetching source profiles: profiles have empty common sample type list
`

const zzWantBaseErr = `error: problem fetching base profiles: profiles have empty common sample type list,
`

const zzWantCrossErr = `error: profiles have empty common sample type list
`

