#!/bin/sh
# usage: demo.sh <worktree root>
set -u
root="$1"
here="$(cd "$(dirname "$0")" && pwd)"
export GOFLAGS=-mod=mod GOPROXY=off GOSUMDB=off GOTOOLCHAIN=local
dst="$root/internal/report/zz_equiv_c_test.go"
cp "$here/zz_equiv_c_test.go" "$dst" || exit 2
(cd "$root" && go test -vet=off -count=1 -run 'TestZZEquivC$' ./internal/report/)
rc=$?
rm -f "$dst"
exit $rc
