package report

// Equivalence demonstration for property C17 (change C). The expected
// digests below were computed on the unchanged tree; the test must pass both
// with and without the change.

import (
	"crypto/sha256"
	"encoding/hex"
	"encoding/json"
	"fmt"
	"os"
	"testing"

	"github.com/google/pprof/profile"
)

type zzCaseC struct {
	name string
	prof *profile.Profile
	opts Options
}

func zzFnC(id uint64, name, file string) *profile.Function {
	return &profile.Function{ID: id, Name: name, SystemName: name, Filename: file}
}

func zzLocC(id uint64, lines ...profile.Line) *profile.Location {
	return &profile.Location{ID: id, Address: 0x1000 * id, Line: lines}
}

func zzProfC(fns []*profile.Function, locs []*profile.Location, samples ...*profile.Sample) *profile.Profile {
	return &profile.Profile{
		SampleType: []*profile.ValueType{{Type: "samples", Unit: "count"}, {Type: "cpu", Unit: "nanoseconds"}},
		Sample:     samples,
		Location:   locs,
		Function:   fns,
	}
}

func zzSampleC(v int64, locs ...*profile.Location) *profile.Sample {
	return &profile.Sample{Value: []int64{1, v}, Location: locs}
}

func zzCasesC() []zzCaseC {
	fMain := zzFnC(1, "main.main", "/src/app/main.go")
	fFoo := zzFnC(2, "example.com/pkg/foo.(*T).Run", "/src/pkg/foo/foo.go")
	fBar := zzFnC(3, "ns::Klass<int>::bar(int, char)", "/src/cc/bar.cc")
	fBar2 := zzFnC(4, "ns::Klass<int>::bar(int, char)", "/src/other/bar.cc") // same name, other file
	fDot := zzFnC(5, "a..b:::c.", "dir//x/../y.go")
	fFile := zzFnC(6, "", "/proc/self/cwd/lib/util/file.go") // file granularity
	fFile2 := zzFnC(7, "", "")
	fUni := zzFnC(8, "pkg/été.Fünc::op.\xff.x", "rép/f.go")
	fns := []*profile.Function{fMain, fFoo, fBar, fBar2, fDot, fFile, fFile2, fUni}

	ln := func(f *profile.Function, line, col int64) profile.Line {
		return profile.Line{Function: f, Line: line, Column: col}
	}
	lMain := zzLocC(1, ln(fMain, 10, 0))
	lFoo := zzLocC(2, ln(fFoo, 20, 3))
	lInl := zzLocC(3, ln(fBar, 31, 0), ln(fFoo, 22, 0), ln(fMain, 12, 7)) // bar inlined in foo inlined in main
	lBar2 := zzLocC(4, ln(fBar2, 31, 0))
	lNoFn := zzLocC(5, profile.Line{Line: 5})
	lNoLine := zzLocC(6)
	lDot := zzLocC(7, ln(fDot, 0, 0))
	lFile := zzLocC(8, ln(fFile, 0, 0), ln(fFile2, 0, 0))
	lUni := zzLocC(9, ln(fUni, 1, 1), ln(nil, 0, 0))
	lFoo0 := zzLocC(10, ln(fFoo, 0, 0))
	locs := []*profile.Location{lMain, lFoo, lInl, lBar2, lNoFn, lNoLine, lDot, lFile, lUni, lFoo0}

	mixed := func() *profile.Profile {
		return zzProfC(fns, locs,
			zzSampleC(100, lInl, lFoo, lMain),
			zzSampleC(-40, lFoo, lFoo, lInl, lFoo, lMain), // recursion incl. through inlining
			zzSampleC(7),          // empty stack
			zzSampleC(5, lNoLine), // location without lines
			zzSampleC(11, lNoFn, lMain),
			zzSampleC(13, lNoFn, lNoFn, lMain),
			zzSampleC(17, lBar2, lInl, lMain), // equal names, different files
			zzSampleC(19, lDot, lFile, lUni, lFoo0, lMain),
			zzSampleC(0, lFile, lFile),
			zzSampleC(23, lMain),
			zzSampleC(100, lInl, lFoo, lMain), // duplicate stack
		)
	}

	// Deterministic pseudo-random profile with many stack shapes.
	rnd := func(seed uint64, nSamples int) *profile.Profile {
		next := func() uint64 {
			seed += 0x9e3779b97f4a7c15
			z := seed
			z = (z ^ (z >> 30)) * 0xbf58476d1ce4e5b9
			z = (z ^ (z >> 27)) * 0x94d049bb133111eb
			return z ^ (z >> 31)
		}
		var samples []*profile.Sample
		for i := 0; i < nSamples; i++ {
			depth := int(next() % 9)
			var st []*profile.Location
			for d := 0; d < depth; d++ {
				st = append(st, locs[next()%uint64(len(locs))])
			}
			samples = append(samples, zzSampleC(int64(next()%2001)-1000, st...))
		}
		return zzProfC(fns, locs, samples...)
	}

	base := Options{OutputFormat: Tree, CallTree: true}
	trim := base
	trim.TrimPath = "/src"
	search := base
	search.SourcePath = "/home/me/pkg:/x/cc"
	ratio := base
	ratio.Ratio = 0.25
	return []zzCaseC{
		{"mixed", mixed(), base},
		{"mixed-trim", mixed(), trim},
		{"mixed-search", mixed(), search},
		{"mixed-ratio", mixed(), ratio},
		{"empty", zzProfC(fns, locs), base},
		{"rnd1", rnd(1, 60), base},
		{"rnd2", rnd(2, 200), trim},
		{"rnd3", rnd(3, 25), search},
	}
}

var zzWantC = map[string]string{
	"mixed":                         "98a529f8b46036ee3352c02e9126d9e4344f8c9a76ce9cb3c36b794a84969cc8",
	"mixed-trim":                    "63946f52acb054108a2ed4e16d05a4f011188797bb7a7c0d12c40d4a9f37adbd",
	"mixed-search":                  "377be167538203a8d183a7e11f8f517ce0ca66521d640ef56170f405b4b0f821",
	"mixed-ratio":                   "c43c7b248f769464fea804ea55fa0dcb9b2cbff1efe22595d7825489c75d65d4",
	"empty":                         "f1387b2eac319003541b6231f71fe4a2c89f88c6112f742f4a47cefe92e580f1",
	"rnd1":                          "7ff98127b9a2278474478694c79ed2ee428ba74b297bfbbcd9e01fabe4a74ed3",
	"rnd2":                          "06a979b4ee513282eab39d5d77584f34df61fe055b657390b9b6fcefd9ca06b4",
	"rnd3":                          "ec5ffe87eed0e5bb4060e167eb021eb97f371e2264652de6aacb019e1d076326",
	"n:":                            "[\"\"]|[\"\"]",
	"n:.":                           "[\".\"]|[\".\"]",
	"n:::":                          "[\"::\"]|[\"::\"]",
	"n::::":                         "[\":::\" \":\"]|[\":::\"]",
	"n:::::":                        "[\"::::\" \"::\"]|[\"::::\"]",
	"n:a":                           "[\"a\"]|[\"a\"]",
	"n:a.":                          "[\"a.\"]|[\"a.\"]",
	"n:.a":                          "[\".a\" \"a\"]|[\".a\"]",
	"n:a..b":                        "[\"a..b\" \".b\" \"b\"]|[\"a..b\"]",
	"n:a:::b":                       "[\"a:::b\" \":b\"]|[\"a:::b\"]",
	"n:a::.b.::c":                   "[\"a::.b.::c\" \".b.::c\" \"b.::c\" \"::c\" \"c\"]|[\"a::.b.::c\"]",
	"n:a:b:c":                       "[\"a:b:c\"]|[\"a:b:c\"]",
	"n:foo::operator()":             "[\"foo::operator()\" \"operator()\"]|[\"foo::operator()\"]",
	"n:github.com/x/y.(*T).M.func1": "[\"y.(*T).M.func1\" \"(*T).M.func1\" \"M.func1\" \"func1\"]|[\"github.com/x/y.(*T).M.func1\" \"x/y.(*T).M.func1\" \"y.(*T).M.func1\"]",
	"n:std::vector<int, std::allocator<int>>::push_back(int&&)": "[\"std::vector<int, std::allocator<int>>::push_back(int&&)\" \"vector<int, std::allocator<int>>::push_back(int&&)\" \"allocator<int>>::push_back(int&&)\" \"push_back(int&&)\"]|[\"std::vector<int, std::allocator<int>>::push_back(int&&)\"]",
	"n:/":                         "[\"/\"]|[\"/\"]",
	"n://":                        "[\"//\"]|[\"/\"]",
	"n:/a//b/":                    "[\"/a//b/\"]|[\"/a/b\" \"a/b\" \"b\"]",
	"n:a/b/../c/./d.go":           "[\"d.go\" \"go\"]|[\"a/c/d.go\" \"c/d.go\" \"d.go\"]",
	"n:./x":                       "[\"./x\" \"/x\"]|[\"x\"]",
	"n:../x/y":                    "[\"../x/y\" \"./x/y\" \"/x/y\"]|[\"../x/y\" \"x/y\" \"y\"]",
	"n:dir/été.go:12:3":           "[\"été.go:12:3\" \"go:12:3\"]|[\"dir/été.go:12:3\" \"été.go:12:3\"]",
	"n:x\xff.y\xff::z/w":          "[\"x\\xff.y\\xff::z/w\" \"y\\xff::z/w\" \"z/w\"]|[\"x\\xff.y\\xff::z/w\" \"w\"]",
	"n:java.lang.Thread.run":      "[\"Thread.run\" \"run\"]|[\"java.lang.Thread.run\"]",
	"n:main.(*T[go.shape.int]).f": "[\"main.(*T[go.shape.int]).f\" \"(*T[go.shape.int]).f\" \"shape.int]).f\" \"int]).f\" \"f\"]|[\"main.(*T[go.shape.int]).f\"]",
}

// zzCheckInvariantsC checks the C17 statement directly on the result.
func zzCheckInvariantsC(t *testing.T, c zzCaseC, s StackSet) {
	t.Helper()
	if s.Stacks == nil || s.Sources == nil {
		t.Fatalf("nil top-level slice")
	}
	if len(s.Stacks) != len(c.prof.Sample) {
		t.Fatalf("got %d stacks for %d samples", len(s.Stacks), len(c.prof.Sample))
	}
	var total int64
	self := make([]int64, len(s.Sources))
	places := make([][]StackSlot, len(s.Sources))
	for i, st := range s.Stacks {
		total += st.Value
		if len(st.Sources) == 0 || st.Sources[0] != 0 {
			t.Fatalf("stack %d not rooted: %v", i, st.Sources)
		}
		n := 0
		for _, l := range c.prof.Sample[i].Location {
			n += len(l.Line)
		}
		if len(st.Sources) != n+1 {
			t.Fatalf("stack %d has %d frames, want %d", i, len(st.Sources)-1, n)
		}
		seen := map[int]bool{}
		for j, src := range st.Sources {
			if src < 0 || src >= len(s.Sources) {
				t.Fatalf("stack %d pos %d: source %d out of range", i, j, src)
			}
			if !seen[src] {
				seen[src] = true
				places[src] = append(places[src], StackSlot{i, j})
			}
		}
		self[st.Sources[len(st.Sources)-1]] += st.Value
	}
	var signed int64
	for _, sm := range c.prof.Sample {
		signed += sm.Value[1]
	}
	if total != signed {
		t.Errorf("stack values sum to %d, want %d", total, signed)
	}
	for i, src := range s.Sources {
		if src.Places == nil || src.Display == nil || len(src.Display) == 0 {
			t.Errorf("source %d: nil/empty slice: %+v", i, src)
		}
		if src.Self != self[i] {
			t.Errorf("source %d: self %d, want %d", i, src.Self, self[i])
		}
		if fmt.Sprint(src.Places) != fmt.Sprint(append([]StackSlot{}, places[i]...)) {
			t.Errorf("source %d: places %v, want %v", i, src.Places, places[i])
		}
	}
}

func TestZZEquivC(t *testing.T) {
	print := os.Getenv("ZZ_PRINT") != ""
	for _, c := range zzCasesC() {
		rpt := NewDefault(c.prof, c.opts)
		s := rpt.Stacks()
		zzCheckInvariantsC(t, c, s)
		b, err := json.Marshal(s)
		if err != nil {
			t.Fatal(err)
		}
		sum := sha256.Sum256(b)
		got := hex.EncodeToString(sum[:])
		if print {
			fmt.Printf("\t%q: %q,\n", c.name, got)
			continue
		}
		if got != zzWantC[c.name] {
			t.Errorf("%s: StackSet JSON digest %s, want %s\n%s", c.name, got, zzWantC[c.name], b)
		}
	}
	for _, in := range zzNamesC {
		got := fmt.Sprintf("%q|%q", shortNameList(in), fileNameSuffixes(in))
		if print {
			fmt.Printf("\t%q: %q,\n", "n:"+in, got)
			continue
		}
		if got != zzWantC["n:"+in] {
			t.Errorf("suffixes(%q) = %s, want %s", in, got, zzWantC["n:"+in])
		}
	}
}

var zzNamesC = []string{
	"", ".", "::", ":::", "::::", "a", "a.", ".a", "a..b", "a:::b", "a::.b.::c", "a:b:c",
	"foo::operator()", "github.com/x/y.(*T).M.func1", "std::vector<int, std::allocator<int>>::push_back(int&&)",
	"/", "//", "/a//b/", "a/b/../c/./d.go", "./x", "../x/y", "dir/été.go:12:3", "x\xff.y\xff::z/w",
	"java.lang.Thread.run", "main.(*T[go.shape.int]).f",
}
