#!/bin/sh
# Usage: demo.sh <worktree root>. Copies the equivalence test into place, runs it, removes it.
set -u
root="${1:?worktree root}"
here="$(cd "$(dirname "$0")" && pwd)"
export GOFLAGS=-mod=mod GOPROXY=off GOSUMDB=off GOTOOLCHAIN=local
dst="$root/internal/measurement/zz_equiv_b_test.go"
cp "$here/zz_equiv_b_test.go" "$dst" || exit 1
(cd "$root" && go test -vet=off -count=1 -run 'ZZEquivB' ./internal/measurement/)
rc=$?
rm -f "$dst"
exit $rc
