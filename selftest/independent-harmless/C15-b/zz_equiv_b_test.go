package measurement

import (
	"crypto/sha256"
	"fmt"
	"math"
	"math/rand"
	"strings"
	"testing"
)

func TestZZEquivB_PercentageExplicit(t *testing.T) {
	// Expected strings computed on the unchanged tree.
	for _, tc := range []struct {
		value, total int64
		want         string
	}{
		{0, 0, "    0%"},
		{5, 0, "    0%"},
		{0, 10, "    0%"},
		{10, 10, "  100%"},
		{-10, 10, "  100%"},
		{10, -10, "  100%"},
		{9995, 10000, "  100%"},
		{9994, 10000, "99.94%"},
		{10005, 10000, "  100%"},
		{10006, 10000, "100.06%"},
		{1, 100, " 1.00%"},
		{-1, 100, " 1.00%"},
		{99, 10000, " 0.99%"},
		{1, 3, "33.33%"},
		{2, 3, "66.67%"},
		{1, 1000, "  0.1%"},
		{1, 7000, "0.014%"},
		{1, 1000000, "0.0001%"},
		{1, 10000000, "1e-05%"},
		{1, math.MaxInt64, "1.1e-17%"},
		{math.MinInt64, math.MaxInt64, "  100%"},
		{math.MaxInt64, 1, "922337203685477580800.00%"},
		{math.MinInt64, -1, "922337203685477580800.00%"},
		{15, 10, "150.00%"},
		{12345, 100, "12345.00%"},
	} {
		if got := Percentage(tc.value, tc.total); got != tc.want {
			t.Errorf("Percentage(%d, %d) = %q, want %q", tc.value, tc.total, got, tc.want)
		}
	}
}

func TestZZEquivB_PercentageSweep(t *testing.T) {
	var b strings.Builder
	edge := []int64{0, 1, -1, 2, 3, 7, 9, 10, 99, 100, 101, 999, 1000, 1001, 9994, 9995, 9996, 10000, 10004, 10005, 10006,
		199899, 199900, 199901, 200000, 200099, 200100, 200101, 1 << 31, 1 << 53, 1<<53 + 1, math.MaxInt64, math.MinInt64, math.MinInt64 + 1}
	for _, v := range edge {
		for _, tot := range edge {
			fmt.Fprintf(&b, "%d/%d=%q\n", v, tot, Percentage(v, tot))
			fmt.Fprintf(&b, "%d/%d=%q\n", -v, tot, Percentage(-v, tot))
		}
	}
	// Dense sweep around the interesting thresholds (1% and 99.95%..100.05%).
	for tot := int64(1); tot <= 2000; tot += 37 {
		for v := int64(-3); v <= tot+3; v++ {
			fmt.Fprintf(&b, "%d/%d=%q\n", v, tot, Percentage(v, tot))
		}
	}
	rng := rand.New(rand.NewSource(15))
	for i := 0; i < 200000; i++ {
		v, tot := rng.Int63(), rng.Int63()
		switch i % 4 {
		case 1:
			v >>= uint(rng.Intn(63))
		case 2:
			tot >>= uint(rng.Intn(63))
		case 3:
			v >>= uint(rng.Intn(63))
			tot >>= uint(rng.Intn(63))
		}
		if i%7 == 0 {
			v = -v
		}
		if i%11 == 0 {
			tot = -tot
		}
		fmt.Fprintf(&b, "%d/%d=%q\n", v, tot, Percentage(v, tot))
	}
	got := fmt.Sprintf("%x", sha256.Sum256([]byte(b.String())))
	const want = "155afb0b68a322798c867444f22980b88288a0b0d8c78b232ae558ca5774e2e9" // computed on the unchanged tree
	if got != want {
		t.Errorf("sweep digest = %s, want %s (%d bytes)", got, want, b.Len())
	}
}
