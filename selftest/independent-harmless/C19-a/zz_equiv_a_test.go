package driver

import (
	"fmt"
	"net/url"
	"os"
	"path/filepath"
	"strings"
	"sync"
	"testing"
)

// Equivalence demonstration for change A (setConfig/removeConfig lookup
// restructuring). Expected values were computed on the unchanged tree.

func zzASummary(t *testing.T, fname string) string {
	t.Helper()
	s, err := readSettings(fname)
	if err != nil {
		t.Fatalf("readSettings: %v", err)
	}
	var parts []string
	for _, c := range s.Configs {
		parts = append(parts, fmt.Sprintf("%s{f=%q h=%q n=%d nf=%v sort=%s calltree=%v trim=%v}",
			c.Name, c.Focus, c.Hide, c.NodeCount, c.NodeFraction, c.Sort, c.CallTree, c.Trim))
	}
	return strings.Join(parts, " ")
}

func TestZZEquivA_Sequence(t *testing.T) {
	base := currentConfig()
	defer setCurrentConfig(base)
	setCurrentConfig(defaultConfig())

	dir := t.TempDir()
	fname := filepath.Join(dir, "pprof", "settings.json")

	type step struct {
		op      string // "set" or "del"
		arg     string
		wantErr string
		want    string
	}
	steps := []step{
		{"del", "nothing", "config nothing not found", ""},
		{"set", "/saveconfig?f=foo", "invalid config name", ""},
		{"set", "/saveconfig?config=one&f=foo&n=30&calltree=t", "",
			`one{f="foo" h="" n=30 nf=0.005 sort=flat calltree=true trim=true}`},
		{"set", "/saveconfig?config=two&h=bar&sort=cum&trim=f", "",
			`one{f="foo" h="" n=30 nf=0.005 sort=flat calltree=true trim=true} two{f="" h="bar" n=-1 nf=0.005 sort=cum calltree=false trim=false}`},
		{"set", "/saveconfig?config=three&nf=0.25&f=a%7Cb", "",
			`one{f="foo" h="" n=30 nf=0.005 sort=flat calltree=true trim=true} two{f="" h="bar" n=-1 nf=0.005 sort=cum calltree=false trim=false} three{f="a|b" h="" n=-1 nf=0.25 sort=flat calltree=false trim=true}`},
		{"set", "/saveconfig?config=two&f=", "",
			`one{f="foo" h="" n=30 nf=0.005 sort=flat calltree=true trim=true} two{f="" h="" n=-1 nf=0.005 sort=flat calltree=false trim=true} three{f="a|b" h="" n=-1 nf=0.25 sort=flat calltree=false trim=true}`},
		{"set", "/saveconfig?config=two&n=abc", `error setting config field nodecount: strconv.Atoi: parsing "abc": invalid syntax`,
			`one{f="foo" h="" n=30 nf=0.005 sort=flat calltree=true trim=true} two{f="" h="" n=-1 nf=0.005 sort=flat calltree=false trim=true} three{f="a|b" h="" n=-1 nf=0.25 sort=flat calltree=false trim=true}`},
		{"del", "one", "",
			`two{f="" h="" n=-1 nf=0.005 sort=flat calltree=false trim=true} three{f="a|b" h="" n=-1 nf=0.25 sort=flat calltree=false trim=true}`},
		{"del", "one", "config one not found",
			`two{f="" h="" n=-1 nf=0.005 sort=flat calltree=false trim=true} three{f="a|b" h="" n=-1 nf=0.25 sort=flat calltree=false trim=true}`},
		{"del", "three", "",
			`two{f="" h="" n=-1 nf=0.005 sort=flat calltree=false trim=true}`},
		{"set", "/saveconfig?config=one&f=again", "",
			`two{f="" h="" n=-1 nf=0.005 sort=flat calltree=false trim=true} one{f="again" h="" n=-1 nf=0.005 sort=flat calltree=false trim=true}`},
		{"del", "two", "", `one{f="again" h="" n=-1 nf=0.005 sort=flat calltree=false trim=true}`},
		{"del", "one", "", ``},
		{"del", "", "config  not found", ``},
	}
	for i, st := range steps {
		var err error
		if st.op == "set" {
			u, perr := url.Parse(st.arg)
			if perr != nil {
				t.Fatal(perr)
			}
			err = setConfig(fname, *u)
		} else {
			err = removeConfig(fname, st.arg)
		}
		gotErr := ""
		if err != nil {
			gotErr = err.Error()
		}
		if gotErr != st.wantErr {
			t.Errorf("step %d (%s %s): err = %q; want %q", i, st.op, st.arg, gotErr, st.wantErr)
		}
		if got := zzASummary(t, fname); got != st.want {
			t.Errorf("step %d (%s %s):\n got %s\nwant %s", i, st.op, st.arg, got, st.want)
		}
	}

	// Exact bytes of the final (empty) file.
	data, err := os.ReadFile(fname)
	if err != nil {
		t.Fatal(err)
	}
	if got, want := string(data), "{\n  \"configs\": []\n}"; got != want {
		t.Errorf("final file = %q; want %q", got, want)
	}
}

// A hand-edited file may hold several entries with the same name; saving and
// deleting act on the first one only.
func TestZZEquivA_Duplicates(t *testing.T) {
	base := currentConfig()
	defer setCurrentConfig(base)
	setCurrentConfig(defaultConfig())

	dir := t.TempDir()
	fname := filepath.Join(dir, "settings.json")
	const initial = `{"configs":[
 {"name":"x","focus":"x1","trim":true,"nodecount":-1},
 {"name":"dup","focus":"d1","trim":true,"nodecount":-1},
 {"name":"y","focus":"y1","trim":true,"nodecount":-1},
 {"name":"dup","focus":"d2","trim":true,"nodecount":-1},
 {"name":"dup","focus":"d3","trim":true,"nodecount":-1}]}`
	if err := os.WriteFile(fname, []byte(initial), 0644); err != nil {
		t.Fatal(err)
	}
	u, _ := url.Parse("/saveconfig?config=dup&f=new&h=hid")
	if err := setConfig(fname, *u); err != nil {
		t.Fatal(err)
	}
	const want1 = `{
  "configs": [
    {
      "name": "x",
      "nodecount": -1,
      "trim": true,
      "focus": "x1"
    },
    {
      "name": "dup",
      "unit": "minimum",
      "sort": "flat",
      "nodecount": -1,
      "nodefraction": 0.005,
      "edgefraction": 0.001,
      "trim": true,
      "focus": "new",
      "hide": "hid"
    },
    {
      "name": "y",
      "nodecount": -1,
      "trim": true,
      "focus": "y1"
    },
    {
      "name": "dup",
      "nodecount": -1,
      "trim": true,
      "focus": "d2"
    },
    {
      "name": "dup",
      "nodecount": -1,
      "trim": true,
      "focus": "d3"
    }
  ]
}`
	data, _ := os.ReadFile(fname)
	if string(data) != want1 {
		t.Errorf("after save of dup:\n%s\nwant\n%s", data, want1)
	}
	for i, want := range []string{
		`x{f="x1" h="" n=-1 nf=0 sort= calltree=false trim=true} y{f="y1" h="" n=-1 nf=0 sort= calltree=false trim=true} dup{f="d2" h="" n=-1 nf=0 sort= calltree=false trim=true} dup{f="d3" h="" n=-1 nf=0 sort= calltree=false trim=true}`,
		`x{f="x1" h="" n=-1 nf=0 sort= calltree=false trim=true} y{f="y1" h="" n=-1 nf=0 sort= calltree=false trim=true} dup{f="d3" h="" n=-1 nf=0 sort= calltree=false trim=true}`,
		`x{f="x1" h="" n=-1 nf=0 sort= calltree=false trim=true} y{f="y1" h="" n=-1 nf=0 sort= calltree=false trim=true}`,
	} {
		if err := removeConfig(fname, "dup"); err != nil {
			t.Fatalf("remove %d: %v", i, err)
		}
		if got := zzASummary(t, fname); got != want {
			t.Errorf("after remove %d:\n got %s\nwant %s", i, got, want)
		}
	}
	if err := removeConfig(fname, "dup"); err == nil || err.Error() != "config dup not found" {
		t.Errorf("4th remove: err = %v", err)
	}
}

// Concurrent saves and deletes of distinct names must all take effect.
func TestZZEquivA_Concurrent(t *testing.T) {
	base := currentConfig()
	defer setCurrentConfig(base)
	setCurrentConfig(defaultConfig())

	dir := t.TempDir()
	fname := filepath.Join(dir, "settings.json")
	const n = 24
	for i := 0; i < n; i++ {
		u, _ := url.Parse(fmt.Sprintf("/saveconfig?config=old%d&f=o%d", i, i))
		if err := setConfig(fname, *u); err != nil {
			t.Fatal(err)
		}
	}
	var wg sync.WaitGroup
	errs := make(chan error, 2*n)
	for i := 0; i < n; i++ {
		wg.Add(2)
		go func(i int) {
			defer wg.Done()
			u, _ := url.Parse(fmt.Sprintf("/saveconfig?config=new%d&f=n%d", i, i))
			errs <- setConfig(fname, *u)
		}(i)
		go func(i int) {
			defer wg.Done()
			if i%2 == 0 {
				errs <- removeConfig(fname, fmt.Sprintf("old%d", i))
			} else {
				u, _ := url.Parse(fmt.Sprintf("/saveconfig?config=old%d&f=changed%d", i, i))
				errs <- setConfig(fname, *u)
			}
		}(i)
	}
	wg.Wait()
	close(errs)
	for err := range errs {
		if err != nil {
			t.Errorf("concurrent op failed: %v", err)
		}
	}
	s, err := readSettings(fname)
	if err != nil {
		t.Fatal(err)
	}
	got := map[string]string{}
	for _, c := range s.Configs {
		if _, dup := got[c.Name]; dup {
			t.Errorf("duplicate entry %s", c.Name)
		}
		got[c.Name] = c.Focus
	}
	want := map[string]string{}
	for i := 0; i < n; i++ {
		want[fmt.Sprintf("new%d", i)] = fmt.Sprintf("n%d", i)
		if i%2 == 1 {
			want[fmt.Sprintf("old%d", i)] = fmt.Sprintf("changed%d", i)
		}
	}
	if fmt.Sprint(got) != fmt.Sprint(want) {
		t.Errorf("after concurrent ops:\n got %v\nwant %v", got, want)
	}
	// Surviving old entries keep their original relative order at the front.
	idx := 0
	for i := 1; i < n; i += 2 {
		if s.Configs[idx].Name != fmt.Sprintf("old%d", i) {
			t.Errorf("position %d = %s; want old%d", idx, s.Configs[idx].Name, i)
		}
		idx++
	}
	ents, _ := os.ReadDir(dir)
	if len(ents) != 1 {
		t.Errorf("leftover files in settings dir: %v", ents)
	}
}
