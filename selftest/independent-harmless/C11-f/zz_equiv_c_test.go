package driver

import (
	"fmt"
	"os"
	"sort"
	"strings"
	"testing"

	"github.com/google/pprof/profile"
)

// Equivalence demonstration for change C (applyFocus: regexp options are
// compiled through a first-error-remembering helper instead of threading an
// error through compileRegexOption). Expectations were computed on the
// unchanged tree and hard-coded.

type zzcUI struct{ msgs []string }

func (u *zzcUI) ReadLine(string) (string, error)     { return "", fmt.Errorf("no input") }
func (u *zzcUI) Print(args ...interface{})           { u.msgs = append(u.msgs, "P:"+fmt.Sprint(args...)) }
func (u *zzcUI) PrintErr(args ...interface{})        { u.msgs = append(u.msgs, "E:"+fmt.Sprint(args...)) }
func (u *zzcUI) IsTerminal() bool                    { return false }
func (u *zzcUI) WantBrowser() bool                   { return false }
func (u *zzcUI) SetAutoComplete(func(string) string) {}

// zzcProfile: locations list function names innermost inlined frame first;
// samples list 1-based location ids leaf first.
func zzcProfile() *profile.Profile {
	locs := [][]string{
		{"runtime.mallocgc"},                   // 1
		{"runtime.newobject"},                  // 2
		{"main.alloc"},                         // 3
		{"main.main"},                          // 4
		{"runtime.main"},                       // 5
		{"lib.inl", "lib.Work", "main.caller"}, // 6: inlined, match in the middle
		{"lib.Work"},                           // 7
		{"main.other"},                         // 8
		{"lib.helper", "lib.inl"},              // 9
	}
	samples := [][]uint64{
		{1, 2, 3, 4, 5},
		{1, 6, 4, 5},
		{6, 4, 5},
		{1, 7, 8, 7, 4, 5}, // two matches for lib.Work: the leaf-most one is kept
		{9, 7, 4, 5},
		{8, 4, 5},
		{7},
		{1, 2, 9, 6, 5},
	}
	p := &profile.Profile{
		SampleType: []*profile.ValueType{{Type: "samples", Unit: "count"}, {Type: "cpu", Unit: "ns"}},
		PeriodType: &profile.ValueType{Type: "cpu", Unit: "ns"},
		Period:     1,
	}
	m := &profile.Mapping{ID: 1, Start: 0x1000, Limit: 0x100000, File: "/bin/prog", HasFunctions: true}
	p.Mapping = []*profile.Mapping{m}
	funcs := map[string]*profile.Function{}
	fn := func(name string) *profile.Function {
		if f, ok := funcs[name]; ok {
			return f
		}
		f := &profile.Function{ID: uint64(len(p.Function) + 1), Name: name, SystemName: name, Filename: "/src/" + strings.SplitN(name, ".", 2)[0] + ".go"}
		funcs[name] = f
		p.Function = append(p.Function, f)
		return f
	}
	for i, names := range locs {
		l := &profile.Location{ID: uint64(i + 1), Mapping: m, Address: uint64(0x1000 + 16*i)}
		for j, n := range names {
			l.Line = append(l.Line, profile.Line{Function: fn(n), Line: int64(10*i + j + 1)})
		}
		p.Location = append(p.Location, l)
	}
	for i, ids := range samples {
		s := &profile.Sample{
			Value:    []int64{int64(i + 1), int64(100 * (i + 1))},
			Label:    map[string][]string{"k": {fmt.Sprintf("v%d", i%3)}, "all": {"x"}},
			NumLabel: map[string][]int64{"bytes": {int64(16 << i)}},
			NumUnit:  map[string][]string{"bytes": {"bytes"}},
		}
		for _, id := range ids {
			s.Location = append(s.Location, p.Location[id-1])
		}
		p.Sample = append(p.Sample, s)
	}
	return p
}

func zzcDump(p *profile.Profile) string {
	var b strings.Builder
	for _, s := range p.Sample {
		fmt.Fprintf(&b, "%v", s.Value)
		var ks []string
		for k, v := range s.Label {
			ks = append(ks, fmt.Sprintf("%s=%v", k, v))
		}
		for k, v := range s.NumLabel {
			ks = append(ks, fmt.Sprintf("%s=%v%v", k, v, s.NumUnit[k]))
		}
		sort.Strings(ks)
		fmt.Fprintf(&b, "%v:", ks)
		for i, l := range s.Location {
			if i > 0 {
				b.WriteByte(' ')
			}
			fmt.Fprintf(&b, "%d", l.ID)
		}
		b.WriteByte(';')
	}
	b.WriteString(" | ")
	for _, l := range p.Location {
		fmt.Fprintf(&b, "%d=", l.ID)
		for j, ln := range l.Line {
			if j > 0 {
				b.WriteByte('+')
			}
			fmt.Fprintf(&b, "%s:%d", ln.Function.Name, ln.Line)
		}
		b.WriteByte(';')
	}
	return b.String()
}

var zzcCases = []struct {
	name string
	cfg  config
}{
	{"none", config{}},
	{"prune-leaf", config{PruneFrom: `runtime\.mallocgc`}},
	{"prune-mid", config{PruneFrom: `lib\.Work`}},
	{"prune-unanchored", config{PruneFrom: `Work|other`}},
	{"prune-inl", config{PruneFrom: `^lib\.inl$`}},
	{"prune-root", config{PruneFrom: `runtime\.main`}},
	{"prune-nomatch", config{PruneFrom: `nothing`}},
	{"prune-all", config{PruneFrom: `.`}},
	{"prune+focus", config{PruneFrom: `lib\.Work`, Focus: `main\.caller|other`}},
	{"prune+ignore", config{PruneFrom: `lib\.Work`, Ignore: `mallocgc`}},
	{"prune+hide", config{PruneFrom: `lib\.Work`, Hide: `lib\.inl|main\.other`}},
	{"prune+show", config{PruneFrom: `lib\.Work`, Show: `lib|main`}},
	{"prune+showfrom", config{PruneFrom: `lib\.Work`, ShowFrom: `main\.main`}},
	{"prune+hide-target", config{PruneFrom: `lib\.Work`, Hide: `lib\.Work`}},
	{"prune+tagfocus", config{PruneFrom: `lib\.Work`, TagFocus: `k=v1`}},
	{"prune+tagfocus-range", config{PruneFrom: `lib\.Work`, TagFocus: `64:512`}},
	{"prune+tagignore", config{PruneFrom: `lib\.Work`, TagIgnore: `k:v0`}},
	{"prune+tagshow", config{PruneFrom: `lib\.Work`, TagShow: `^k$`}},
	{"prune+taghide", config{PruneFrom: `lib\.Work`, TagHide: `all|bytes`}},
	{"everything", config{PruneFrom: `lib\.Work|newobject`, Focus: `main`, Ignore: `nothing`, Hide: `zzz`, Show: `.`, ShowFrom: `runtime\.main`, TagFocus: `all=x`, TagIgnore: `k=v2`, TagShow: `k|all`, TagHide: `all`}},
	{"nomatch-warnings", config{PruneFrom: `lib\.Work`, Focus: `zzz`, Ignore: `zzz`, Hide: `zzz`, Show: `zzz`, ShowFrom: `zzz`, TagFocus: `zzz`, TagIgnore: `zzz`, TagShow: `zzz`, TagHide: `zzz`}},

	{"bad-focus", config{Focus: `a(`, PruneFrom: `lib\.Work`}},
	{"bad-ignore", config{Ignore: `a(`, PruneFrom: `lib\.Work`}},
	{"bad-hide", config{Hide: `a(`, PruneFrom: `lib\.Work`}},
	{"bad-show", config{Show: `a(`, PruneFrom: `lib\.Work`}},
	{"bad-showfrom", config{ShowFrom: `a(`, PruneFrom: `lib\.Work`}},
	{"bad-tagfocus", config{TagFocus: `a(`, PruneFrom: `lib\.Work`}},
	{"bad-tagignore", config{TagIgnore: `k=a(`, PruneFrom: `lib\.Work`}},
	{"bad-prune", config{PruneFrom: `lib\.Work(`, Focus: `main`, TagFocus: `64:512`}},
	{"bad-focus+bad-prune", config{Focus: `[`, PruneFrom: `(`}},
	{"bad-ignore+range", config{Ignore: `[`, TagFocus: `64:512`, PruneFrom: `lib\.Work`}},
	{"bad-tagfocus+bad-prune", config{TagFocus: `[`, PruneFrom: `(`}},
	{"bad-tagignore+bad-prune", config{TagFocus: `k=v1`, TagIgnore: `[`, PruneFrom: `(`}},
	{"bad-hide+bad-show+bad-tagshow", config{Hide: `h(`, Show: `s(`, TagShow: `t(`}},
	{"bad-tagshow", config{TagShow: `a(`, PruneFrom: `lib\.Work`, Focus: `main\.caller|other`}},
	{"bad-taghide", config{TagHide: `a(`, TagShow: `^k$`, PruneFrom: `lib\.Work`}},
	{"bad-tagshow+taghide", config{TagShow: `a(`, TagHide: `all`, PruneFrom: `lib\.Work`}},
	{"bad-tagshow+bad-taghide", config{TagShow: `s(`, TagHide: `h(`, PruneFrom: `runtime\.mallocgc`}},
}

func TestZZEquivCApplyFocus(t *testing.T) {
	pristine := zzcDump(zzcProfile())
	for _, c := range zzcCases {
		p := zzcProfile()
		ui := &zzcUI{}
		err := applyFocus(p, map[string]string{"bytes": "bytes"}, c.cfg, ui)
		d := zzcDump(p)
		if d == pristine {
			d = "UNCHANGED"
		}
		got := fmt.Sprintf("err=%v ui=%q %s", err, ui.msgs, d)
		if os.Getenv("ZZ_PRINT") != "" {
			fmt.Printf("CASE %q: %q,\n", c.name, got)
			continue
		}
		if want := zzcWant[c.name]; got != want {
			t.Errorf("%s:\n got %s\nwant %s", c.name, got, want)
		}
		if err := p.CheckValid(); err != nil {
			t.Errorf("%s: profile invalid after applyFocus: %v", c.name, err)
		}
	}
}

var zzcWant = map[string]string{
	"none":                          "err=<nil> ui=[] UNCHANGED",
	"prune-leaf":                    "err=<nil> ui=[] UNCHANGED",
	"prune-mid":                     "err=<nil> ui=[] [1 100][all=[x] bytes=[16][bytes] k=[v0]]:1 2 3 4 5;[2 200][all=[x] bytes=[32][bytes] k=[v1]]:6 4 5;[3 300][all=[x] bytes=[64][bytes] k=[v2]]:6 4 5;[4 400][all=[x] bytes=[128][bytes] k=[v0]]:7 8 7 4 5;[5 500][all=[x] bytes=[256][bytes] k=[v1]]:7 4 5;[6 600][all=[x] bytes=[512][bytes] k=[v2]]:8 4 5;[7 700][all=[x] bytes=[1024][bytes] k=[v0]]:7;[8 800][all=[x] bytes=[2048][bytes] k=[v1]]:6 5; | 1=runtime.mallocgc:1;2=runtime.newobject:11;3=main.alloc:21;4=main.main:31;5=runtime.main:41;6=lib.Work:52+main.caller:53;7=lib.Work:61;8=main.other:71;9=lib.helper:81+lib.inl:82;",
	"prune-unanchored":              "err=<nil> ui=[] [1 100][all=[x] bytes=[16][bytes] k=[v0]]:1 2 3 4 5;[2 200][all=[x] bytes=[32][bytes] k=[v1]]:6 4 5;[3 300][all=[x] bytes=[64][bytes] k=[v2]]:6 4 5;[4 400][all=[x] bytes=[128][bytes] k=[v0]]:7 8 7 4 5;[5 500][all=[x] bytes=[256][bytes] k=[v1]]:7 4 5;[6 600][all=[x] bytes=[512][bytes] k=[v2]]:8 4 5;[7 700][all=[x] bytes=[1024][bytes] k=[v0]]:7;[8 800][all=[x] bytes=[2048][bytes] k=[v1]]:6 5; | 1=runtime.mallocgc:1;2=runtime.newobject:11;3=main.alloc:21;4=main.main:31;5=runtime.main:41;6=lib.Work:52+main.caller:53;7=lib.Work:61;8=main.other:71;9=lib.helper:81+lib.inl:82;",
	"prune-inl":                     "err=<nil> ui=[] [1 100][all=[x] bytes=[16][bytes] k=[v0]]:1 2 3 4 5;[2 200][all=[x] bytes=[32][bytes] k=[v1]]:6 4 5;[3 300][all=[x] bytes=[64][bytes] k=[v2]]:6 4 5;[4 400][all=[x] bytes=[128][bytes] k=[v0]]:1 7 8 7 4 5;[5 500][all=[x] bytes=[256][bytes] k=[v1]]:9 7 4 5;[6 600][all=[x] bytes=[512][bytes] k=[v2]]:8 4 5;[7 700][all=[x] bytes=[1024][bytes] k=[v0]]:7;[8 800][all=[x] bytes=[2048][bytes] k=[v1]]:9 6 5; | 1=runtime.mallocgc:1;2=runtime.newobject:11;3=main.alloc:21;4=main.main:31;5=runtime.main:41;6=lib.inl:51+lib.Work:52+main.caller:53;7=lib.Work:61;8=main.other:71;9=lib.inl:82;",
	"prune-root":                    "err=<nil> ui=[] [1 100][all=[x] bytes=[16][bytes] k=[v0]]:5;[2 200][all=[x] bytes=[32][bytes] k=[v1]]:5;[3 300][all=[x] bytes=[64][bytes] k=[v2]]:5;[4 400][all=[x] bytes=[128][bytes] k=[v0]]:5;[5 500][all=[x] bytes=[256][bytes] k=[v1]]:5;[6 600][all=[x] bytes=[512][bytes] k=[v2]]:5;[7 700][all=[x] bytes=[1024][bytes] k=[v0]]:7;[8 800][all=[x] bytes=[2048][bytes] k=[v1]]:5; | 1=runtime.mallocgc:1;2=runtime.newobject:11;3=main.alloc:21;4=main.main:31;5=runtime.main:41;6=lib.inl:51+lib.Work:52+main.caller:53;7=lib.Work:61;8=main.other:71;9=lib.helper:81+lib.inl:82;",
	"prune-nomatch":                 "err=<nil> ui=[] UNCHANGED",
	"prune-all":                     "err=<nil> ui=[] UNCHANGED",
	"prune+focus":                   "err=<nil> ui=[] [2 200][all=[x] bytes=[32][bytes] k=[v1]]:6 4 5;[3 300][all=[x] bytes=[64][bytes] k=[v2]]:6 4 5;[4 400][all=[x] bytes=[128][bytes] k=[v0]]:7 8 7 4 5;[6 600][all=[x] bytes=[512][bytes] k=[v2]]:8 4 5;[8 800][all=[x] bytes=[2048][bytes] k=[v1]]:6 5; | 1=runtime.mallocgc:1;2=runtime.newobject:11;3=main.alloc:21;4=main.main:31;5=runtime.main:41;6=lib.Work:52+main.caller:53;7=lib.Work:61;8=main.other:71;9=lib.helper:81+lib.inl:82;",
	"prune+ignore":                  "err=<nil> ui=[] [3 300][all=[x] bytes=[64][bytes] k=[v2]]:6 4 5;[5 500][all=[x] bytes=[256][bytes] k=[v1]]:7 4 5;[6 600][all=[x] bytes=[512][bytes] k=[v2]]:8 4 5;[7 700][all=[x] bytes=[1024][bytes] k=[v0]]:7; | 1=runtime.mallocgc:1;2=runtime.newobject:11;3=main.alloc:21;4=main.main:31;5=runtime.main:41;6=lib.Work:52+main.caller:53;7=lib.Work:61;8=main.other:71;9=lib.helper:81+lib.inl:82;",
	"prune+hide":                    "err=<nil> ui=[] [1 100][all=[x] bytes=[16][bytes] k=[v0]]:1 2 3 4 5;[2 200][all=[x] bytes=[32][bytes] k=[v1]]:6 4 5;[3 300][all=[x] bytes=[64][bytes] k=[v2]]:6 4 5;[4 400][all=[x] bytes=[128][bytes] k=[v0]]:7 7 4 5;[5 500][all=[x] bytes=[256][bytes] k=[v1]]:7 4 5;[6 600][all=[x] bytes=[512][bytes] k=[v2]]:4 5;[7 700][all=[x] bytes=[1024][bytes] k=[v0]]:7;[8 800][all=[x] bytes=[2048][bytes] k=[v1]]:6 5; | 1=runtime.mallocgc:1;2=runtime.newobject:11;3=main.alloc:21;4=main.main:31;5=runtime.main:41;6=lib.Work:52+main.caller:53;7=lib.Work:61;8=;9=lib.helper:81;",
	"prune+show":                    "err=<nil> ui=[] [1 100][all=[x] bytes=[16][bytes] k=[v0]]:3 4 5;[2 200][all=[x] bytes=[32][bytes] k=[v1]]:6 4 5;[3 300][all=[x] bytes=[64][bytes] k=[v2]]:6 4 5;[4 400][all=[x] bytes=[128][bytes] k=[v0]]:7 8 7 4 5;[5 500][all=[x] bytes=[256][bytes] k=[v1]]:7 4 5;[6 600][all=[x] bytes=[512][bytes] k=[v2]]:8 4 5;[7 700][all=[x] bytes=[1024][bytes] k=[v0]]:7;[8 800][all=[x] bytes=[2048][bytes] k=[v1]]:6 5; | 1=;2=;3=main.alloc:21;4=main.main:31;5=runtime.main:41;6=lib.Work:52+main.caller:53;7=lib.Work:61;8=main.other:71;9=lib.helper:81+lib.inl:82;",
	"prune+showfrom":                "err=<nil> ui=[] [1 100][all=[x] bytes=[16][bytes] k=[v0]]:1 2 3 4;[2 200][all=[x] bytes=[32][bytes] k=[v1]]:6 4;[3 300][all=[x] bytes=[64][bytes] k=[v2]]:6 4;[4 400][all=[x] bytes=[128][bytes] k=[v0]]:7 8 7 4;[5 500][all=[x] bytes=[256][bytes] k=[v1]]:7 4;[6 600][all=[x] bytes=[512][bytes] k=[v2]]:8 4; | 1=runtime.mallocgc:1;2=runtime.newobject:11;3=main.alloc:21;4=main.main:31;5=runtime.main:41;6=lib.Work:52+main.caller:53;7=lib.Work:61;8=main.other:71;9=lib.helper:81+lib.inl:82;",
	"prune+hide-target":             "err=<nil> ui=[] [1 100][all=[x] bytes=[16][bytes] k=[v0]]:1 2 3 4 5;[2 200][all=[x] bytes=[32][bytes] k=[v1]]:1 6 4 5;[3 300][all=[x] bytes=[64][bytes] k=[v2]]:6 4 5;[4 400][all=[x] bytes=[128][bytes] k=[v0]]:1 8 4 5;[5 500][all=[x] bytes=[256][bytes] k=[v1]]:9 4 5;[6 600][all=[x] bytes=[512][bytes] k=[v2]]:8 4 5;[8 800][all=[x] bytes=[2048][bytes] k=[v1]]:1 2 9 6 5; | 1=runtime.mallocgc:1;2=runtime.newobject:11;3=main.alloc:21;4=main.main:31;5=runtime.main:41;6=lib.inl:51+main.caller:53;7=;8=main.other:71;9=lib.helper:81+lib.inl:82;",
	"prune+tagfocus":                "err=<nil> ui=[] [2 200][all=[x] bytes=[32][bytes] k=[v1]]:6 4 5;[5 500][all=[x] bytes=[256][bytes] k=[v1]]:7 4 5;[8 800][all=[x] bytes=[2048][bytes] k=[v1]]:6 5; | 1=runtime.mallocgc:1;2=runtime.newobject:11;3=main.alloc:21;4=main.main:31;5=runtime.main:41;6=lib.Work:52+main.caller:53;7=lib.Work:61;8=main.other:71;9=lib.helper:81+lib.inl:82;",
	"prune+tagfocus-range":          "err=<nil> ui=[\"E:tagfocus:Interpreted '64:512' as range, not regexp\" \"E:TagFocus expression matched no samples\"]  | 1=runtime.mallocgc:1;2=runtime.newobject:11;3=main.alloc:21;4=main.main:31;5=runtime.main:41;6=lib.Work:52+main.caller:53;7=lib.Work:61;8=main.other:71;9=lib.helper:81+lib.inl:82;",
	"prune+tagignore":               "err=<nil> ui=[] [2 200][all=[x] bytes=[32][bytes] k=[v1]]:6 4 5;[3 300][all=[x] bytes=[64][bytes] k=[v2]]:6 4 5;[5 500][all=[x] bytes=[256][bytes] k=[v1]]:7 4 5;[6 600][all=[x] bytes=[512][bytes] k=[v2]]:8 4 5;[8 800][all=[x] bytes=[2048][bytes] k=[v1]]:6 5; | 1=runtime.mallocgc:1;2=runtime.newobject:11;3=main.alloc:21;4=main.main:31;5=runtime.main:41;6=lib.Work:52+main.caller:53;7=lib.Work:61;8=main.other:71;9=lib.helper:81+lib.inl:82;",
	"prune+tagshow":                 "err=<nil> ui=[] [1 100][k=[v0]]:1 2 3 4 5;[2 200][k=[v1]]:6 4 5;[3 300][k=[v2]]:6 4 5;[4 400][k=[v0]]:7 8 7 4 5;[5 500][k=[v1]]:7 4 5;[6 600][k=[v2]]:8 4 5;[7 700][k=[v0]]:7;[8 800][k=[v1]]:6 5; | 1=runtime.mallocgc:1;2=runtime.newobject:11;3=main.alloc:21;4=main.main:31;5=runtime.main:41;6=lib.Work:52+main.caller:53;7=lib.Work:61;8=main.other:71;9=lib.helper:81+lib.inl:82;",
	"prune+taghide":                 "err=<nil> ui=[] [1 100][k=[v0]]:1 2 3 4 5;[2 200][k=[v1]]:6 4 5;[3 300][k=[v2]]:6 4 5;[4 400][k=[v0]]:7 8 7 4 5;[5 500][k=[v1]]:7 4 5;[6 600][k=[v2]]:8 4 5;[7 700][k=[v0]]:7;[8 800][k=[v1]]:6 5; | 1=runtime.mallocgc:1;2=runtime.newobject:11;3=main.alloc:21;4=main.main:31;5=runtime.main:41;6=lib.Work:52+main.caller:53;7=lib.Work:61;8=main.other:71;9=lib.helper:81+lib.inl:82;",
	"everything":                    "err=<nil> ui=[\"E:Ignore expression matched no samples\" \"E:Hide expression matched no samples\"] [1 100][k=[v0]]:2 3 4 5;[2 200][k=[v1]]:6 4 5;[4 400][k=[v0]]:7 8 7 4 5;[5 500][k=[v1]]:7 4 5;[8 800][k=[v1]]:2 9 6 5; | 1=runtime.mallocgc:1;2=runtime.newobject:11;3=main.alloc:21;4=main.main:31;5=runtime.main:41;6=lib.Work:52+main.caller:53;7=lib.Work:61;8=main.other:71;9=lib.helper:81+lib.inl:82;",
	"nomatch-warnings":              "err=<nil> ui=[\"E:Focus expression matched no samples\" \"E:Ignore expression matched no samples\" \"E:Hide expression matched no samples\" \"E:Show expression matched no samples\" \"E:ShowFrom expression matched no samples\" \"E:TagFocus expression matched no samples\" \"E:TagIgnore expression matched no samples\" \"E:TagShow expression matched no samples\" \"E:TagHide expression matched no samples\"]  | 1=;2=;3=;4=;5=;6=;7=;8=;9=;",
	"bad-focus":                     "err=parsing focus regexp: error parsing regexp: missing closing ): `a(` ui=[] UNCHANGED",
	"bad-ignore":                    "err=parsing ignore regexp: error parsing regexp: missing closing ): `a(` ui=[] UNCHANGED",
	"bad-hide":                      "err=parsing hide regexp: error parsing regexp: missing closing ): `a(` ui=[] UNCHANGED",
	"bad-show":                      "err=parsing show regexp: error parsing regexp: missing closing ): `a(` ui=[] UNCHANGED",
	"bad-showfrom":                  "err=parsing show_from regexp: error parsing regexp: missing closing ): `a(` ui=[] UNCHANGED",
	"bad-tagfocus":                  "err=parsing tagfocus regexp: error parsing regexp: missing closing ): `a(` ui=[] UNCHANGED",
	"bad-tagignore":                 "err=parsing tagignore regexp: error parsing regexp: missing closing ): `a(` ui=[] UNCHANGED",
	"bad-prune":                     "err=parsing prune_from regexp: error parsing regexp: missing closing ): `lib\\.Work(` ui=[\"E:tagfocus:Interpreted '64:512' as range, not regexp\"] UNCHANGED",
	"bad-focus+bad-prune":           "err=parsing focus regexp: error parsing regexp: missing closing ]: `[` ui=[] UNCHANGED",
	"bad-ignore+range":              "err=parsing ignore regexp: error parsing regexp: missing closing ]: `[` ui=[] UNCHANGED",
	"bad-tagfocus+bad-prune":        "err=parsing tagfocus regexp: error parsing regexp: missing closing ]: `[` ui=[] UNCHANGED",
	"bad-tagignore+bad-prune":       "err=parsing tagignore regexp: error parsing regexp: missing closing ]: `[` ui=[] UNCHANGED",
	"bad-hide+bad-show+bad-tagshow": "err=parsing hide regexp: error parsing regexp: missing closing ): `h(` ui=[] UNCHANGED",
	"bad-tagshow":                   "err=parsing tagshow regexp: error parsing regexp: missing closing ): `a(` ui=[] [2 200][all=[x] bytes=[32][bytes] k=[v1]]:6 4 5;[3 300][all=[x] bytes=[64][bytes] k=[v2]]:6 4 5;[4 400][all=[x] bytes=[128][bytes] k=[v0]]:7 8 7 4 5;[6 600][all=[x] bytes=[512][bytes] k=[v2]]:8 4 5;[8 800][all=[x] bytes=[2048][bytes] k=[v1]]:6 5; | 1=runtime.mallocgc:1;2=runtime.newobject:11;3=main.alloc:21;4=main.main:31;5=runtime.main:41;6=lib.Work:52+main.caller:53;7=lib.Work:61;8=main.other:71;9=lib.helper:81+lib.inl:82;",
	"bad-taghide":                   "err=parsing taghide regexp: error parsing regexp: missing closing ): `a(` ui=[] [1 100][k=[v0]]:1 2 3 4 5;[2 200][k=[v1]]:6 4 5;[3 300][k=[v2]]:6 4 5;[4 400][k=[v0]]:7 8 7 4 5;[5 500][k=[v1]]:7 4 5;[6 600][k=[v2]]:8 4 5;[7 700][k=[v0]]:7;[8 800][k=[v1]]:6 5; | 1=runtime.mallocgc:1;2=runtime.newobject:11;3=main.alloc:21;4=main.main:31;5=runtime.main:41;6=lib.Work:52+main.caller:53;7=lib.Work:61;8=main.other:71;9=lib.helper:81+lib.inl:82;",
	"bad-tagshow+taghide":           "err=parsing tagshow regexp: error parsing regexp: missing closing ): `a(` ui=[] [1 100][all=[x] bytes=[16][bytes] k=[v0]]:1 2 3 4 5;[2 200][all=[x] bytes=[32][bytes] k=[v1]]:6 4 5;[3 300][all=[x] bytes=[64][bytes] k=[v2]]:6 4 5;[4 400][all=[x] bytes=[128][bytes] k=[v0]]:7 8 7 4 5;[5 500][all=[x] bytes=[256][bytes] k=[v1]]:7 4 5;[6 600][all=[x] bytes=[512][bytes] k=[v2]]:8 4 5;[7 700][all=[x] bytes=[1024][bytes] k=[v0]]:7;[8 800][all=[x] bytes=[2048][bytes] k=[v1]]:6 5; | 1=runtime.mallocgc:1;2=runtime.newobject:11;3=main.alloc:21;4=main.main:31;5=runtime.main:41;6=lib.Work:52+main.caller:53;7=lib.Work:61;8=main.other:71;9=lib.helper:81+lib.inl:82;",
	"bad-tagshow+bad-taghide":       "err=parsing tagshow regexp: error parsing regexp: missing closing ): `s(` ui=[] UNCHANGED",
}
