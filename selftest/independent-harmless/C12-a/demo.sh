#!/bin/sh
# usage: demo.sh <pprof worktree root>
# Copies the equivalence test into internal/symbolizer, runs it, removes it.
set -u
root=${1:?usage: demo.sh WORKTREE}
here=$(cd "$(dirname "$0")" && pwd)
export GOFLAGS=-mod=mod GOPROXY=off GOSUMDB=off GOTOOLCHAIN=local
dst="$root/internal/symbolizer/zz_equiv_a_test.go"
cp "$here/zz_equiv_a_test.go" "$dst" || exit 2
(cd "$root" && go test -vet=off -count=1 -run 'TestZZEquivA' ./internal/symbolizer/)
rc=$?
rm -f "$dst"
exit $rc
