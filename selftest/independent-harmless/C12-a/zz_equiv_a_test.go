package symbolizer

import (
	"fmt"
	"os"
	"regexp"
	"strings"
	"testing"

	"github.com/google/pprof/internal/plugin"
	"github.com/google/pprof/profile"
)

// zzaUI records the messages printed by the symbolizer.
type zzaUI struct {
	plugin.UI
	log []string
}

func (u *zzaUI) PrintErr(args ...interface{}) { u.log = append(u.log, fmt.Sprint(args...)) }
func (u *zzaUI) Print(args ...interface{})    { u.log = append(u.log, fmt.Sprint(args...)) }

type zzaObjTool struct {
	calls []string
}

func (t *zzaObjTool) Open(file string, start, limit, offset uint64, relocationSymbol string) (plugin.ObjFile, error) {
	t.calls = append(t.calls, fmt.Sprintf("open %s %#x %#x %#x", file, start, limit, offset))
	switch file {
	case "/bin/main":
		return &zzaObjFile{t: t, name: file, id: "mainid", frames: zzaMainFrames}, nil
	case "/lib/libfoo.so":
		return &zzaObjFile{t: t, name: file, id: "", frames: zzaFooFrames}, nil
	case "/lib/libmismatch.so":
		return &zzaObjFile{t: t, name: file, id: "other", frames: zzaFooFrames}, nil
	case "/lib/already.so":
		return &zzaObjFile{t: t, name: file, id: "", frames: zzaAlreadyFrames}, nil
	}
	return nil, fmt.Errorf("no such file %q", file)
}

func (t *zzaObjTool) Disasm(file string, start, end uint64, intelSyntax bool) ([]plugin.Inst, error) {
	return nil, fmt.Errorf("unsupported")
}

type zzaObjFile struct {
	t      *zzaObjTool
	name   string
	id     string
	frames map[uint64][]plugin.Frame
}

func (f *zzaObjFile) Name() string                        { return f.name }
func (f *zzaObjFile) ObjAddr(addr uint64) (uint64, error) { return addr, nil }
func (f *zzaObjFile) BuildID() string                     { return f.id }
func (f *zzaObjFile) SourceLine(addr uint64) ([]plugin.Frame, error) {
	f.t.calls = append(f.t.calls, fmt.Sprintf("line %s %#x", f.name, addr))
	if addr%0x100 == 0x66 {
		return nil, fmt.Errorf("addr2line failed at %#x", addr)
	}
	return f.frames[addr], nil
}
func (f *zzaObjFile) Symbols(r *regexp.Regexp, addr uint64) ([]*plugin.Sym, error) {
	return nil, nil
}
func (f *zzaObjFile) Close() error {
	f.t.calls = append(f.t.calls, "close "+f.name)
	return nil
}

var zzaMainFrames = map[uint64][]plugin.Frame{
	0x1000: {{Func: "main.leaf", File: "main.go", Line: 10, StartLine: 8}},
	// inlined stack; main.caller shared with 0x1000's sibling below
	0x1010: {
		{Func: "main.inl", File: "main.go", Line: 21, Column: 3, StartLine: 20},
		{Func: "main.caller", File: "main.go", Line: 33, StartLine: 30},
	},
	0x1020: {{Func: "main.caller", File: "main.go", Line: 35, StartLine: 30}},
	// same name, different file
	0x1030: {{Func: "main.caller", File: "other.go", Line: 35, StartLine: 30}},
	// same name and file, different start line
	0x1040: {{Func: "main.caller", File: "main.go", Line: 35, StartLine: 31}},
	// same name as a function already in the profile (must not be reused)
	0x1050: {{Func: "preexisting", File: "", Line: 0}},
	// nothing known at all
	0x1060: {{}},
	0x1070: {{Func: "", File: "nofunc.go", Line: 7}},
	0x1fff: {{Func: "main.leaf", File: "main.go", Line: 12, StartLine: 8}},
}

var zzaFooFrames = map[uint64][]plugin.Frame{
	0x7000: {{Func: "_ZN3foo3barEv", File: "foo.cc", Line: 1, StartLine: 1}},
	0x7010: {{Func: "main.leaf", File: "main.go", Line: 10, StartLine: 8}}, // dedups across mappings
	0x7020: {
		{Func: "_ZN3foo3barEv", File: "foo.cc", Line: 2, StartLine: 1},
		{Func: "_ZN3foo3bazEv", File: "foo.cc", Line: 9, StartLine: 5},
		{Func: "_ZN3foo3barEv", File: "foo.cc", Line: 3, StartLine: 1},
	},
}

var zzaAlreadyFrames = map[uint64][]plugin.Frame{
	0x9000: {{Func: "resymbolized", File: "re.c", Line: 4, StartLine: 2}},
	0x9010: {{Func: "main.leaf", File: "main.go", Line: 10, StartLine: 8}},
}

func zzaProfile() *profile.Profile {
	ms := []*profile.Mapping{
		{ID: 1, Start: 0x1000, Limit: 0x2000, File: "/bin/main", BuildID: "mainid"},
		{ID: 2, Start: 0x7000, Limit: 0x8000, Offset: 0x100, File: "/lib/libfoo.so"},
		{ID: 3, Start: 0x8000, Limit: 0x9000, File: "/lib/libmismatch.so", BuildID: "wanted"},
		{ID: 4, Start: 0x9000, Limit: 0xa000, File: "/lib/already.so", HasFunctions: true},
		{ID: 5, Start: 0xa000, Limit: 0xb000, File: ""},
		{ID: 6, Start: 0xb000, Limit: 0xc000, File: "[vdso]"},
		{ID: 7, Start: 0xc000, Limit: 0xd000, File: "/lib/missing.so"},
		{ID: 8, Start: 0xd000, Limit: 0xe000, File: "http://host/pprof/profile"},
		{ID: 9, Start: 0xe000, Limit: 0xf000, File: "/lib/dangling.so"},
	}
	fs := []*profile.Function{
		{ID: 7, Name: "preexisting", SystemName: "preexisting"},
		{ID: 40, Name: "already", SystemName: "already", Filename: "already.c", StartLine: 3},
		{ID: 12, Name: "unused", SystemName: "unused"},
	}
	addrs := []struct {
		a uint64
		m int
	}{
		{0x1000, 0}, {0x1010, 0}, {0x1020, 0}, {0x1030, 0}, {0x1040, 0}, {0x1050, 0}, {0x1060, 0},
		{0x1066, 0}, {0x1070, 0}, {0x1080, 0}, {0x1fff, 0},
		{0x7000, 1}, {0x7010, 1}, {0x7020, 1}, {0x7066, 1},
		{0x8000, 2},
		{0x9000, 3}, {0x9010, 3},
		{0xa000, 4}, {0xb000, 5}, {0xc000, 6}, {0xd000, 7},
	}
	var ls []*profile.Location
	for i, a := range addrs {
		l := &profile.Location{ID: uint64(100 - 3*i), Mapping: ms[a.m], Address: a.a}
		ls = append(ls, l)
	}
	// Partly symbolized input.
	ls[5].Line = []profile.Line{{Function: fs[0], Line: 1}}
	ls[16].Line = []profile.Line{{Function: fs[1], Line: 5}}
	ls[16].IsFolded = true
	ls[9].Line = []profile.Line{{Function: fs[0], Line: 2}} // 0x1080: no answer, keeps its line

	p := &profile.Profile{
		SampleType:    []*profile.ValueType{{Type: "samples", Unit: "count"}, {Type: "cpu", Unit: "ns"}},
		PeriodType:    &profile.ValueType{Type: "cpu", Unit: "ns"},
		Period:        10,
		DurationNanos: 1e9,
		Mapping:       ms,
		Function:      fs,
		Location:      ls,
	}
	for i := 0; i < len(ls); i++ {
		s := &profile.Sample{
			Value:    []int64{int64(i + 1), int64(1000 * (i + 1))},
			Location: []*profile.Location{ls[i], ls[(i*7+3)%len(ls)], ls[(i*5+1)%len(ls)]},
		}
		if i%3 == 0 {
			s.Label = map[string][]string{"k": {fmt.Sprint("v", i)}}
			s.NumLabel = map[string][]int64{"bytes": {int64(i)}}
			s.NumUnit = map[string][]string{"bytes": {"b"}}
		}
		p.Sample = append(p.Sample, s)
	}
	return p
}

// zzaFrame renders what symbolization must not touch.
func zzaFrame(p *profile.Profile) string {
	var b strings.Builder
	for _, s := range p.Sample {
		fmt.Fprintf(&b, "S %v %v %v %v:", s.Value, s.Label, s.NumLabel, s.NumUnit)
		for _, l := range s.Location {
			fmt.Fprintf(&b, " %d@%#x", l.ID, l.Address)
		}
		b.WriteString("\n")
	}
	for _, l := range p.Location {
		fmt.Fprintf(&b, "L %d %#x m%d\n", l.ID, l.Address, l.Mapping.ID)
	}
	for _, m := range p.Mapping {
		fmt.Fprintf(&b, "M %d %#x %#x %#x %q %q\n", m.ID, m.Start, m.Limit, m.Offset, m.File, m.BuildID)
	}
	return b.String()
}

func zzaRun(t *testing.T, fast, force bool) string {
	p := zzaProfile()
	before := zzaFrame(p)
	ui := &zzaUI{}
	obj := &zzaObjTool{}
	if err := doLocalSymbolize(p, fast, force, obj, ui); err != nil {
		t.Fatalf("doLocalSymbolize: %v", err)
	}
	if after := zzaFrame(p); after != before {
		t.Errorf("frame changed:\nbefore:\n%s\nafter:\n%s", before, after)
	}
	if err := p.CheckValid(); err != nil {
		t.Errorf("invalid profile after symbolization: %v", err)
	}
	seen := map[uint64]bool{}
	for _, f := range p.Function {
		if f.ID == 0 || seen[f.ID] {
			t.Errorf("bad or duplicate function id %d", f.ID)
		}
		seen[f.ID] = true
	}
	var b strings.Builder
	b.WriteString(p.String())
	b.WriteString("\n-- functions in table order --\n")
	for _, f := range p.Function {
		fmt.Fprintf(&b, "%d %q %q %q %d\n", f.ID, f.Name, f.SystemName, f.Filename, f.StartLine)
	}
	b.WriteString("-- lines --\n")
	for _, l := range p.Location {
		fmt.Fprintf(&b, "%d folded=%v:", l.ID, l.IsFolded)
		for _, ln := range l.Line {
			fmt.Fprintf(&b, " [f%d %d:%d]", ln.Function.ID, ln.Line, ln.Column)
		}
		b.WriteString("\n")
	}
	b.WriteString("-- ui --\n" + strings.Join(ui.log, "\n"))
	b.WriteString("\n-- obj calls --\n" + strings.Join(obj.calls, "\n") + "\n")

	// Also go through the encoder: the result must survive a round trip.
	var buf strings.Builder
	if err := p.WriteUncompressed(&buf); err != nil {
		t.Fatalf("write: %v", err)
	}
	q, err := profile.ParseData([]byte(buf.String()))
	if err != nil {
		t.Fatalf("reparse: %v", err)
	}
	if q.String() != p.String() {
		t.Errorf("profile changed by encode/decode round trip")
	}
	return b.String()
}

func TestZZEquivA(t *testing.T) {
	for _, tc := range []struct {
		name        string
		fast, force bool
	}{
		{"plain", false, false},
		{"force", false, true},
		{"fastforce", true, true},
	} {
		got := zzaRun(t, tc.fast, tc.force)
		golden := "testdata_zz_equiv_a_" + tc.name + ".golden"
		if dir := os.Getenv("ZZ_EQUIV_RECORD"); dir != "" {
			if err := os.WriteFile(dir+"/"+golden, []byte(got), 0o644); err != nil {
				t.Fatal(err)
			}
			continue
		}
		want, ok := zzaGolden[tc.name]
		if !ok {
			t.Fatalf("no golden for %s", tc.name)
		}
		if got != want {
			t.Errorf("%s: output differs from the one recorded on the unchanged tree:\n--- got ---\n%s\n--- want ---\n%s", tc.name, got, want)
		}
	}
}

// Outputs recorded on the unchanged tree.
var zzaGolden = map[string]string{
	"fastforce": "" +
		"PeriodType: cpu ns\n" +
		"Period: 10\n" +
		"Duration: 1s\n" +
		"Samples:\n" +
		"samples/count cpu/ns\n" +
		"          1       1000: 100 91 97 \n" +
		"                k:[v0]\n" +
		"                bytes:[0 b]\n" +
		"          2       2000: 97 70 82 \n" +
		"          3       3000: 94 49 67 \n" +
		"          4       4000: 91 94 52 \n" +
		"                k:[v3]\n" +
		"                bytes:[3 b]\n" +
		"          5       5000: 88 73 37 \n" +
		"          6       6000: 85 52 88 \n" +
		"          7       7000: 82 97 73 \n" +
		"                k:[v6]\n" +
		"                bytes:[6 b]\n" +
		"          8       8000: 79 76 58 \n" +
		"          9       9000: 76 55 43 \n" +
		"         10      10000: 73 100 94 \n" +
		"                k:[v9]\n" +
		"                bytes:[9 b]\n" +
		"         11      11000: 70 79 79 \n" +
		"         12      12000: 67 58 64 \n" +
		"         13      13000: 64 37 49 \n" +
		"                k:[v12]\n" +
		"                bytes:[12 b]\n" +
		"         14      14000: 61 82 100 \n" +
		"         15      15000: 58 61 85 \n" +
		"         16      16000: 55 40 70 \n" +
		"                k:[v15]\n" +
		"                bytes:[15 b]\n" +
		"         17      17000: 52 85 55 \n" +
		"         18      18000: 49 64 40 \n" +
		"         19      19000: 46 43 91 \n" +
		"                k:[v18]\n" +
		"                bytes:[18 b]\n" +
		"         20      20000: 43 88 76 \n" +
		"         21      21000: 40 67 61 \n" +
		"         22      22000: 37 46 46 \n" +
		"                k:[v21]\n" +
		"                bytes:[21 b]\n" +
		"Locations\n" +
		"   100: 0x1000 M=1 main.leaf main.go:10:0 s=8\n" +
		"    97: 0x1010 M=1 main.inl main.go:21:3 s=20\n" +
		"             main.caller main.go:33:0 s=30\n" +
		"    94: 0x1020 M=1 main.caller main.go:35:0 s=30\n" +
		"    91: 0x1030 M=1 main.caller other.go:35:0 s=30\n" +
		"    88: 0x1040 M=1 main.caller main.go:35:0 s=31\n" +
		"    85: 0x1050 M=1 preexisting :0:0 s=0\n" +
		"    82: 0x1060 M=1  :0:0 s=0\n" +
		"    79: 0x1066 M=1 \n" +
		"    76: 0x1070 M=1  nofunc.go:7:0 s=0\n" +
		"    73: 0x1080 M=1 preexisting :2:0 s=0\n" +
		"    70: 0x1fff M=1 main.leaf main.go:12:0 s=8\n" +
		"    67: 0x7000 M=2 _ZN3foo3barEv foo.cc:1:0 s=1\n" +
		"    64: 0x7010 M=2 main.leaf main.go:10:0 s=8\n" +
		"    61: 0x7020 M=2 _ZN3foo3barEv foo.cc:2:0 s=1\n" +
		"             _ZN3foo3bazEv foo.cc:9:0 s=5\n" +
		"             _ZN3foo3barEv foo.cc:3:0 s=1\n" +
		"    58: 0x7066 M=2 \n" +
		"    55: 0x8000 M=3 \n" +
		"    52: 0x9000 M=4 resymbolized re.c:4:0 s=2\n" +
		"    49: 0x9010 M=4 main.leaf main.go:10:0 s=8\n" +
		"    46: 0xa000 M=5 \n" +
		"    43: 0xb000 M=6 \n" +
		"    40: 0xc000 M=7 \n" +
		"    37: 0xd000 M=8 \n" +
		"Mappings\n" +
		"1: 0x1000/0x2000/0x0 /bin/main mainid [FN][FL][LN][IN]\n" +
		"2: 0x7000/0x8000/0x100 /lib/libfoo.so  [FN][FL][LN][IN]\n" +
		"3: 0x8000/0x9000/0x0 /lib/libmismatch.so wanted \n" +
		"4: 0x9000/0xa000/0x0 /lib/already.so  [FN][FL][LN][IN]\n" +
		"5: 0xa000/0xb000/0x0   \n" +
		"6: 0xb000/0xc000/0x0 [vdso]  \n" +
		"7: 0xc000/0xd000/0x0 /lib/missing.so  \n" +
		"8: 0xd000/0xe000/0x0 http://host/pprof/profile  \n" +
		"9: 0xe000/0xf000/0x0 /lib/dangling.so  \n" +
		"\n" +
		"-- functions in table order --\n" +
		"7 \"preexisting\" \"preexisting\" \"\" 0\n" +
		"40 \"already\" \"already\" \"already.c\" 3\n" +
		"12 \"unused\" \"unused\" \"\" 0\n" +
		"41 \"main.leaf\" \"main.leaf\" \"main.go\" 8\n" +
		"42 \"main.inl\" \"main.inl\" \"main.go\" 20\n" +
		"43 \"main.caller\" \"main.caller\" \"main.go\" 30\n" +
		"44 \"main.caller\" \"main.caller\" \"other.go\" 30\n" +
		"45 \"main.caller\" \"main.caller\" \"main.go\" 31\n" +
		"46 \"preexisting\" \"preexisting\" \"\" 0\n" +
		"47 \"\" \"\" \"\" 0\n" +
		"48 \"\" \"\" \"nofunc.go\" 0\n" +
		"49 \"_ZN3foo3barEv\" \"_ZN3foo3barEv\" \"foo.cc\" 1\n" +
		"50 \"_ZN3foo3bazEv\" \"_ZN3foo3bazEv\" \"foo.cc\" 5\n" +
		"51 \"resymbolized\" \"resymbolized\" \"re.c\" 2\n" +
		"-- lines --\n" +
		"100 folded=false: [f41 10:0]\n" +
		"97 folded=false: [f42 21:3] [f43 33:0]\n" +
		"94 folded=false: [f43 35:0]\n" +
		"91 folded=false: [f44 35:0]\n" +
		"88 folded=false: [f45 35:0]\n" +
		"85 folded=false: [f46 0:0]\n" +
		"82 folded=false: [f47 0:0]\n" +
		"79 folded=false:\n" +
		"76 folded=false: [f48 7:0]\n" +
		"73 folded=false: [f7 2:0]\n" +
		"70 folded=false: [f41 12:0]\n" +
		"67 folded=false: [f49 1:0]\n" +
		"64 folded=false: [f41 10:0]\n" +
		"61 folded=false: [f49 2:0] [f50 9:0] [f49 3:0]\n" +
		"58 folded=false:\n" +
		"55 folded=false:\n" +
		"52 folded=false: [f51 4:0]\n" +
		"49 folded=false: [f41 10:0]\n" +
		"46 folded=false:\n" +
		"43 folded=false:\n" +
		"40 folded=false:\n" +
		"37 folded=false:\n" +
		"-- ui --\n" +
		"Local symbolization failed for libmismatch.so (build ID wanted): build ID mismatch\n" +
		"Local symbolization failed for missing.so: no such file \"/lib/missing.so\"\n" +
		"Some binary filenames not available. Symbolization may be incomplete.\n" +
		"Try setting PPROF_BINARY_PATH to the search path for local binaries.\n" +
		"-- obj calls --\n" +
		"open /bin/main 0x1000 0x2000 0x0\n" +
		"line /bin/main 0x1000\n" +
		"line /bin/main 0x1010\n" +
		"line /bin/main 0x1020\n" +
		"line /bin/main 0x1030\n" +
		"line /bin/main 0x1040\n" +
		"line /bin/main 0x1050\n" +
		"line /bin/main 0x1060\n" +
		"line /bin/main 0x1066\n" +
		"line /bin/main 0x1070\n" +
		"line /bin/main 0x1080\n" +
		"line /bin/main 0x1fff\n" +
		"close /bin/main\n" +
		"open /lib/libfoo.so 0x7000 0x8000 0x100\n" +
		"line /lib/libfoo.so 0x7000\n" +
		"line /lib/libfoo.so 0x7010\n" +
		"line /lib/libfoo.so 0x7020\n" +
		"line /lib/libfoo.so 0x7066\n" +
		"close /lib/libfoo.so\n" +
		"open /lib/libmismatch.so 0x8000 0x9000 0x0\n" +
		"close /lib/libmismatch.so\n" +
		"open /lib/already.so 0x9000 0xa000 0x0\n" +
		"line /lib/already.so 0x9000\n" +
		"line /lib/already.so 0x9010\n" +
		"close /lib/already.so\n" +
		"open /lib/missing.so 0xc000 0xd000 0x0\n" +
		"",
	"force": "" +
		"PeriodType: cpu ns\n" +
		"Period: 10\n" +
		"Duration: 1s\n" +
		"Samples:\n" +
		"samples/count cpu/ns\n" +
		"          1       1000: 100 91 97 \n" +
		"                k:[v0]\n" +
		"                bytes:[0 b]\n" +
		"          2       2000: 97 70 82 \n" +
		"          3       3000: 94 49 67 \n" +
		"          4       4000: 91 94 52 \n" +
		"                k:[v3]\n" +
		"                bytes:[3 b]\n" +
		"          5       5000: 88 73 37 \n" +
		"          6       6000: 85 52 88 \n" +
		"          7       7000: 82 97 73 \n" +
		"                k:[v6]\n" +
		"                bytes:[6 b]\n" +
		"          8       8000: 79 76 58 \n" +
		"          9       9000: 76 55 43 \n" +
		"         10      10000: 73 100 94 \n" +
		"                k:[v9]\n" +
		"                bytes:[9 b]\n" +
		"         11      11000: 70 79 79 \n" +
		"         12      12000: 67 58 64 \n" +
		"         13      13000: 64 37 49 \n" +
		"                k:[v12]\n" +
		"                bytes:[12 b]\n" +
		"         14      14000: 61 82 100 \n" +
		"         15      15000: 58 61 85 \n" +
		"         16      16000: 55 40 70 \n" +
		"                k:[v15]\n" +
		"                bytes:[15 b]\n" +
		"         17      17000: 52 85 55 \n" +
		"         18      18000: 49 64 40 \n" +
		"         19      19000: 46 43 91 \n" +
		"                k:[v18]\n" +
		"                bytes:[18 b]\n" +
		"         20      20000: 43 88 76 \n" +
		"         21      21000: 40 67 61 \n" +
		"         22      22000: 37 46 46 \n" +
		"                k:[v21]\n" +
		"                bytes:[21 b]\n" +
		"Locations\n" +
		"   100: 0x1000 M=1 main.leaf main.go:10:0 s=8\n" +
		"    97: 0x1010 M=1 main.inl main.go:21:3 s=20\n" +
		"             main.caller main.go:33:0 s=30\n" +
		"    94: 0x1020 M=1 main.caller main.go:35:0 s=30\n" +
		"    91: 0x1030 M=1 main.caller other.go:35:0 s=30\n" +
		"    88: 0x1040 M=1 main.caller main.go:35:0 s=31\n" +
		"    85: 0x1050 M=1 preexisting :0:0 s=0\n" +
		"    82: 0x1060 M=1  :0:0 s=0\n" +
		"    79: 0x1066 M=1 \n" +
		"    76: 0x1070 M=1  nofunc.go:7:0 s=0\n" +
		"    73: 0x1080 M=1 preexisting :2:0 s=0\n" +
		"    70: 0x1fff M=1 main.leaf main.go:12:0 s=8\n" +
		"    67: 0x7000 M=2 _ZN3foo3barEv foo.cc:1:0 s=1\n" +
		"    64: 0x7010 M=2 main.leaf main.go:10:0 s=8\n" +
		"    61: 0x7020 M=2 _ZN3foo3barEv foo.cc:2:0 s=1\n" +
		"             _ZN3foo3bazEv foo.cc:9:0 s=5\n" +
		"             _ZN3foo3barEv foo.cc:3:0 s=1\n" +
		"    58: 0x7066 M=2 \n" +
		"    55: 0x8000 M=3 \n" +
		"    52: 0x9000 M=4 resymbolized re.c:4:0 s=2\n" +
		"    49: 0x9010 M=4 main.leaf main.go:10:0 s=8\n" +
		"    46: 0xa000 M=5 \n" +
		"    43: 0xb000 M=6 \n" +
		"    40: 0xc000 M=7 \n" +
		"    37: 0xd000 M=8 \n" +
		"Mappings\n" +
		"1: 0x1000/0x2000/0x0 /bin/main mainid [FN][FL][LN][IN]\n" +
		"2: 0x7000/0x8000/0x100 /lib/libfoo.so  [FN][FL][LN][IN]\n" +
		"3: 0x8000/0x9000/0x0 /lib/libmismatch.so wanted \n" +
		"4: 0x9000/0xa000/0x0 /lib/already.so  [FN][FL][LN][IN]\n" +
		"5: 0xa000/0xb000/0x0   \n" +
		"6: 0xb000/0xc000/0x0 [vdso]  \n" +
		"7: 0xc000/0xd000/0x0 /lib/missing.so  \n" +
		"8: 0xd000/0xe000/0x0 http://host/pprof/profile  \n" +
		"9: 0xe000/0xf000/0x0 /lib/dangling.so  \n" +
		"\n" +
		"-- functions in table order --\n" +
		"7 \"preexisting\" \"preexisting\" \"\" 0\n" +
		"40 \"already\" \"already\" \"already.c\" 3\n" +
		"12 \"unused\" \"unused\" \"\" 0\n" +
		"41 \"main.leaf\" \"main.leaf\" \"main.go\" 8\n" +
		"42 \"main.inl\" \"main.inl\" \"main.go\" 20\n" +
		"43 \"main.caller\" \"main.caller\" \"main.go\" 30\n" +
		"44 \"main.caller\" \"main.caller\" \"other.go\" 30\n" +
		"45 \"main.caller\" \"main.caller\" \"main.go\" 31\n" +
		"46 \"preexisting\" \"preexisting\" \"\" 0\n" +
		"47 \"\" \"\" \"\" 0\n" +
		"48 \"\" \"\" \"nofunc.go\" 0\n" +
		"49 \"_ZN3foo3barEv\" \"_ZN3foo3barEv\" \"foo.cc\" 1\n" +
		"50 \"_ZN3foo3bazEv\" \"_ZN3foo3bazEv\" \"foo.cc\" 5\n" +
		"51 \"resymbolized\" \"resymbolized\" \"re.c\" 2\n" +
		"-- lines --\n" +
		"100 folded=false: [f41 10:0]\n" +
		"97 folded=false: [f42 21:3] [f43 33:0]\n" +
		"94 folded=false: [f43 35:0]\n" +
		"91 folded=false: [f44 35:0]\n" +
		"88 folded=false: [f45 35:0]\n" +
		"85 folded=false: [f46 0:0]\n" +
		"82 folded=false: [f47 0:0]\n" +
		"79 folded=false:\n" +
		"76 folded=false: [f48 7:0]\n" +
		"73 folded=false: [f7 2:0]\n" +
		"70 folded=false: [f41 12:0]\n" +
		"67 folded=false: [f49 1:0]\n" +
		"64 folded=false: [f41 10:0]\n" +
		"61 folded=false: [f49 2:0] [f50 9:0] [f49 3:0]\n" +
		"58 folded=false:\n" +
		"55 folded=false:\n" +
		"52 folded=false: [f51 4:0]\n" +
		"49 folded=false: [f41 10:0]\n" +
		"46 folded=false:\n" +
		"43 folded=false:\n" +
		"40 folded=false:\n" +
		"37 folded=false:\n" +
		"-- ui --\n" +
		"Local symbolization failed for libmismatch.so (build ID wanted): build ID mismatch\n" +
		"Local symbolization failed for missing.so: no such file \"/lib/missing.so\"\n" +
		"Some binary filenames not available. Symbolization may be incomplete.\n" +
		"Try setting PPROF_BINARY_PATH to the search path for local binaries.\n" +
		"-- obj calls --\n" +
		"open /bin/main 0x1000 0x2000 0x0\n" +
		"line /bin/main 0x1000\n" +
		"line /bin/main 0x1010\n" +
		"line /bin/main 0x1020\n" +
		"line /bin/main 0x1030\n" +
		"line /bin/main 0x1040\n" +
		"line /bin/main 0x1050\n" +
		"line /bin/main 0x1060\n" +
		"line /bin/main 0x1066\n" +
		"line /bin/main 0x1070\n" +
		"line /bin/main 0x1080\n" +
		"line /bin/main 0x1fff\n" +
		"close /bin/main\n" +
		"open /lib/libfoo.so 0x7000 0x8000 0x100\n" +
		"line /lib/libfoo.so 0x7000\n" +
		"line /lib/libfoo.so 0x7010\n" +
		"line /lib/libfoo.so 0x7020\n" +
		"line /lib/libfoo.so 0x7066\n" +
		"close /lib/libfoo.so\n" +
		"open /lib/libmismatch.so 0x8000 0x9000 0x0\n" +
		"close /lib/libmismatch.so\n" +
		"open /lib/already.so 0x9000 0xa000 0x0\n" +
		"line /lib/already.so 0x9000\n" +
		"line /lib/already.so 0x9010\n" +
		"close /lib/already.so\n" +
		"open /lib/missing.so 0xc000 0xd000 0x0\n" +
		"",
	"plain": "" +
		"PeriodType: cpu ns\n" +
		"Period: 10\n" +
		"Duration: 1s\n" +
		"Samples:\n" +
		"samples/count cpu/ns\n" +
		"          1       1000: 100 91 97 \n" +
		"                k:[v0]\n" +
		"                bytes:[0 b]\n" +
		"          2       2000: 97 70 82 \n" +
		"          3       3000: 94 49 67 \n" +
		"          4       4000: 91 94 52 \n" +
		"                k:[v3]\n" +
		"                bytes:[3 b]\n" +
		"          5       5000: 88 73 37 \n" +
		"          6       6000: 85 52 88 \n" +
		"          7       7000: 82 97 73 \n" +
		"                k:[v6]\n" +
		"                bytes:[6 b]\n" +
		"          8       8000: 79 76 58 \n" +
		"          9       9000: 76 55 43 \n" +
		"         10      10000: 73 100 94 \n" +
		"                k:[v9]\n" +
		"                bytes:[9 b]\n" +
		"         11      11000: 70 79 79 \n" +
		"         12      12000: 67 58 64 \n" +
		"         13      13000: 64 37 49 \n" +
		"                k:[v12]\n" +
		"                bytes:[12 b]\n" +
		"         14      14000: 61 82 100 \n" +
		"         15      15000: 58 61 85 \n" +
		"         16      16000: 55 40 70 \n" +
		"                k:[v15]\n" +
		"                bytes:[15 b]\n" +
		"         17      17000: 52 85 55 \n" +
		"         18      18000: 49 64 40 \n" +
		"         19      19000: 46 43 91 \n" +
		"                k:[v18]\n" +
		"                bytes:[18 b]\n" +
		"         20      20000: 43 88 76 \n" +
		"         21      21000: 40 67 61 \n" +
		"         22      22000: 37 46 46 \n" +
		"                k:[v21]\n" +
		"                bytes:[21 b]\n" +
		"Locations\n" +
		"   100: 0x1000 M=1 main.leaf main.go:10:0 s=8\n" +
		"    97: 0x1010 M=1 main.inl main.go:21:3 s=20\n" +
		"             main.caller main.go:33:0 s=30\n" +
		"    94: 0x1020 M=1 main.caller main.go:35:0 s=30\n" +
		"    91: 0x1030 M=1 main.caller other.go:35:0 s=30\n" +
		"    88: 0x1040 M=1 main.caller main.go:35:0 s=31\n" +
		"    85: 0x1050 M=1 preexisting :0:0 s=0\n" +
		"    82: 0x1060 M=1  :0:0 s=0\n" +
		"    79: 0x1066 M=1 \n" +
		"    76: 0x1070 M=1  nofunc.go:7:0 s=0\n" +
		"    73: 0x1080 M=1 preexisting :2:0 s=0\n" +
		"    70: 0x1fff M=1 main.leaf main.go:12:0 s=8\n" +
		"    67: 0x7000 M=2 _ZN3foo3barEv foo.cc:1:0 s=1\n" +
		"    64: 0x7010 M=2 main.leaf main.go:10:0 s=8\n" +
		"    61: 0x7020 M=2 _ZN3foo3barEv foo.cc:2:0 s=1\n" +
		"             _ZN3foo3bazEv foo.cc:9:0 s=5\n" +
		"             _ZN3foo3barEv foo.cc:3:0 s=1\n" +
		"    58: 0x7066 M=2 \n" +
		"    55: 0x8000 M=3 \n" +
		"    52: 0x9000 M=4 [F] already already.c:5:0 s=3\n" +
		"    49: 0x9010 M=4 \n" +
		"    46: 0xa000 M=5 \n" +
		"    43: 0xb000 M=6 \n" +
		"    40: 0xc000 M=7 \n" +
		"    37: 0xd000 M=8 \n" +
		"Mappings\n" +
		"1: 0x1000/0x2000/0x0 /bin/main mainid [FN][FL][LN][IN]\n" +
		"2: 0x7000/0x8000/0x100 /lib/libfoo.so  [FN][FL][LN][IN]\n" +
		"3: 0x8000/0x9000/0x0 /lib/libmismatch.so wanted \n" +
		"4: 0x9000/0xa000/0x0 /lib/already.so  [FN]\n" +
		"5: 0xa000/0xb000/0x0   \n" +
		"6: 0xb000/0xc000/0x0 [vdso]  \n" +
		"7: 0xc000/0xd000/0x0 /lib/missing.so  \n" +
		"8: 0xd000/0xe000/0x0 http://host/pprof/profile  \n" +
		"9: 0xe000/0xf000/0x0 /lib/dangling.so  \n" +
		"\n" +
		"-- functions in table order --\n" +
		"7 \"preexisting\" \"preexisting\" \"\" 0\n" +
		"40 \"already\" \"already\" \"already.c\" 3\n" +
		"12 \"unused\" \"unused\" \"\" 0\n" +
		"41 \"main.leaf\" \"main.leaf\" \"main.go\" 8\n" +
		"42 \"main.inl\" \"main.inl\" \"main.go\" 20\n" +
		"43 \"main.caller\" \"main.caller\" \"main.go\" 30\n" +
		"44 \"main.caller\" \"main.caller\" \"other.go\" 30\n" +
		"45 \"main.caller\" \"main.caller\" \"main.go\" 31\n" +
		"46 \"preexisting\" \"preexisting\" \"\" 0\n" +
		"47 \"\" \"\" \"\" 0\n" +
		"48 \"\" \"\" \"nofunc.go\" 0\n" +
		"49 \"_ZN3foo3barEv\" \"_ZN3foo3barEv\" \"foo.cc\" 1\n" +
		"50 \"_ZN3foo3bazEv\" \"_ZN3foo3bazEv\" \"foo.cc\" 5\n" +
		"-- lines --\n" +
		"100 folded=false: [f41 10:0]\n" +
		"97 folded=false: [f42 21:3] [f43 33:0]\n" +
		"94 folded=false: [f43 35:0]\n" +
		"91 folded=false: [f44 35:0]\n" +
		"88 folded=false: [f45 35:0]\n" +
		"85 folded=false: [f46 0:0]\n" +
		"82 folded=false: [f47 0:0]\n" +
		"79 folded=false:\n" +
		"76 folded=false: [f48 7:0]\n" +
		"73 folded=false: [f7 2:0]\n" +
		"70 folded=false: [f41 12:0]\n" +
		"67 folded=false: [f49 1:0]\n" +
		"64 folded=false: [f41 10:0]\n" +
		"61 folded=false: [f49 2:0] [f50 9:0] [f49 3:0]\n" +
		"58 folded=false:\n" +
		"55 folded=false:\n" +
		"52 folded=true: [f40 5:0]\n" +
		"49 folded=false:\n" +
		"46 folded=false:\n" +
		"43 folded=false:\n" +
		"40 folded=false:\n" +
		"37 folded=false:\n" +
		"-- ui --\n" +
		"Local symbolization failed for libmismatch.so (build ID wanted): build ID mismatch\n" +
		"Local symbolization failed for missing.so: no such file \"/lib/missing.so\"\n" +
		"Some binary filenames not available. Symbolization may be incomplete.\n" +
		"Try setting PPROF_BINARY_PATH to the search path for local binaries.\n" +
		"-- obj calls --\n" +
		"open /bin/main 0x1000 0x2000 0x0\n" +
		"line /bin/main 0x1000\n" +
		"line /bin/main 0x1010\n" +
		"line /bin/main 0x1020\n" +
		"line /bin/main 0x1030\n" +
		"line /bin/main 0x1040\n" +
		"line /bin/main 0x1050\n" +
		"line /bin/main 0x1060\n" +
		"line /bin/main 0x1066\n" +
		"line /bin/main 0x1070\n" +
		"line /bin/main 0x1080\n" +
		"line /bin/main 0x1fff\n" +
		"close /bin/main\n" +
		"open /lib/libfoo.so 0x7000 0x8000 0x100\n" +
		"line /lib/libfoo.so 0x7000\n" +
		"line /lib/libfoo.so 0x7010\n" +
		"line /lib/libfoo.so 0x7020\n" +
		"line /lib/libfoo.so 0x7066\n" +
		"close /lib/libfoo.so\n" +
		"open /lib/libmismatch.so 0x8000 0x9000 0x0\n" +
		"close /lib/libmismatch.so\n" +
		"open /lib/missing.so 0xc000 0xd000 0x0\n" +
		"",
}
