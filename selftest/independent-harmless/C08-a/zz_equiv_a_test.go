package graph

import (
	"bytes"
	"crypto/sha256"
	"fmt"
	"strings"
	"testing"
)

// zzTieGraph builds a hub-and-spoke graph whose edges are rich in ties:
// equal magnitudes of opposite sign, zero weights, equal printable
// names for distinct nodes, and equal names at different addresses.
func zzTieGraph() (*Graph, *Node) {
	infos := []NodeInfo{
		{Name: "f", Objfile: "a"},
		{Name: "f", Objfile: "b"}, // same printable name as the previous one
		{Name: "f", Objfile: "b", StartLine: 7},
		{Name: "g"},
		{Name: "h", Address: 0x10},
		{Name: "h", Address: 0x20},
		{Objfile: "/lib/x.so"},
		{},
		{Name: "m", File: "m.go", Lineno: 3, Columnno: 4},
		{Name: "m", File: "m.go", Lineno: 3},
		{Name: "zz", File: "z.go"},
	}
	weights := []int64{5, -5, 5, -5, 5, 0, 0, 7, -7, 5, 0}
	hub := &Node{Info: NodeInfo{Name: "hub"}, In: EdgeMap{}, Out: EdgeMap{}, Flat: 1, Cum: 40}
	nodes := Nodes{hub}
	for i, info := range infos {
		n := &Node{Info: info, In: EdgeMap{}, Out: EdgeMap{}, Flat: weights[i], Cum: weights[i]}
		nodes = append(nodes, n)
		out := &Edge{Src: hub, Dest: n, Weight: weights[i]}
		hub.Out[n] = out
		n.In[hub] = out
		in := &Edge{Src: n, Dest: hub, Weight: -weights[len(weights)-1-i], Inline: i%2 == 0}
		n.Out[hub] = in
		hub.In[n] = in
	}
	return &Graph{Nodes: nodes}, hub
}

func zzDescribe(es []*Edge) string {
	var b strings.Builder
	for _, e := range es {
		fmt.Fprintf(&b, "%v|%v|%d\n", e.Src.Info, e.Dest.Info, e.Weight)
	}
	return b.String()
}

const zzWantOut = `{hub  0  0 0 0 }|{  0  0 0 0 }|7
{hub  0  0 0 0 }|{m  0 m.go 0 3 4 }|-7
{hub  0  0 0 0 }|{h  16  0 0 0 }|5
{hub  0  0 0 0 }|{f  0  0 0 0 a}|5
{hub  0  0 0 0 }|{f  0  0 0 0 b}|-5
{hub  0  0 0 0 }|{f  0  7 0 0 b}|5
{hub  0  0 0 0 }|{g  0  0 0 0 }|-5
{hub  0  0 0 0 }|{m  0 m.go 0 3 0 }|5
{hub  0  0 0 0 }|{h  32  0 0 0 }|0
{hub  0  0 0 0 }|{  0  0 0 0 /lib/x.so}|0
{hub  0  0 0 0 }|{zz  0 z.go 0 0 0 }|0
`

const zzWantIn = `{f  0  7 0 0 b}|{hub  0  0 0 0 }|7
{g  0  0 0 0 }|{hub  0  0 0 0 }|-7
{  0  0 0 0 }|{hub  0  0 0 0 }|5
{  0  0 0 0 /lib/x.so}|{hub  0  0 0 0 }|-5
{f  0  0 0 0 b}|{hub  0  0 0 0 }|-5
{m  0 m.go 0 3 0 }|{hub  0  0 0 0 }|5
{m  0 m.go 0 3 4 }|{hub  0  0 0 0 }|-5
{zz  0 z.go 0 0 0 }|{hub  0  0 0 0 }|-5
{h  16  0 0 0 }|{hub  0  0 0 0 }|0
{h  32  0 0 0 }|{hub  0  0 0 0 }|0
{f  0  0 0 0 a}|{hub  0  0 0 0 }|0
`

const zzWantDotSHA = "7579b6ea8346642371b47305a8a5be91b717c405cc1a25dd1c5e9af10816c5ba"

func TestZZEquivA(t *testing.T) {
	for run := 0; run < 200; run++ {
		g, hub := zzTieGraph()
		if got := zzDescribe(hub.Out.Sort()); got != zzWantOut {
			t.Fatalf("run %d: hub.Out.Sort() =\n%s\nwant\n%s", run, got, zzWantOut)
		}
		if got := zzDescribe(hub.In.Sort()); got != zzWantIn {
			t.Fatalf("run %d: hub.In.Sort() =\n%s\nwant\n%s", run, got, zzWantIn)
		}
		// The result is a plain slice of all the edges of the map.
		if got, want := len(hub.Out.Sort()), len(hub.Out); got != want {
			t.Fatalf("len = %d, want %d", got, want)
		}
		var buf bytes.Buffer
		ComposeDot(&buf, g, &DotAttributes{}, &DotConfig{
			Title:       "ties",
			Labels:      []string{"l1", "l2"},
			FormatValue: func(v int64) string { return fmt.Sprint(v) },
			Total:       40,
		})
		if got := fmt.Sprintf("%x", sha256.Sum256(buf.Bytes())); got != zzWantDotSHA {
			t.Fatalf("run %d: dot sha256 = %s, want %s\n%s", run, got, zzWantDotSHA, buf.String())
		}
	}
	if got := len((EdgeMap{}).Sort()); got != 0 {
		t.Fatalf("empty map sorted to %d edges", got)
	}
}
