package report

import (
	"bytes"
	"crypto/sha256"
	"fmt"
	"os"
	"regexp"
	"strings"
	"testing"

	"github.com/google/pprof/profile"
)

// zzProfile builds a self-contained profile whose second sample value is
// expressed in unit, with "bytes" and "latency" numeric labels.
func zzProfile(unit string) *profile.Profile {
	m := []*profile.Mapping{{ID: 1, Start: 0x1000, Limit: 0x9000, File: "/bin/zz", HasFunctions: true, HasFilenames: true, HasLineNumbers: true}}
	f := []*profile.Function{
		{ID: 1, Name: "main", SystemName: "main", Filename: "zz/main.c"},
		{ID: 2, Name: "alpha", SystemName: "alpha", Filename: "zz/alpha.c"},
		{ID: 3, Name: "beta", SystemName: "beta", Filename: "zz/beta.c"},
		{ID: 4, Name: "gamma", SystemName: "gamma", Filename: "zz/gamma.c"},
	}
	l := []*profile.Location{
		{ID: 1, Mapping: m[0], Address: 0x1100, Line: []profile.Line{{Function: f[0], Line: 10}}},
		{ID: 2, Mapping: m[0], Address: 0x2100, Line: []profile.Line{{Function: f[1], Line: 20}}},
		{ID: 3, Mapping: m[0], Address: 0x3100, Line: []profile.Line{{Function: f[2], Line: 30}}},
		{ID: 4, Mapping: m[0], Address: 0x4100, Line: []profile.Line{{Function: f[3], Line: 40}}},
	}
	const k = 1234567
	mk := func(v, nb, lat int64, locs ...*profile.Location) *profile.Sample {
		return &profile.Sample{
			Location: locs,
			Value:    []int64{1, v * k},
			NumLabel: map[string][]int64{"bytes": {nb}, "latency": {lat}},
			NumUnit:  map[string][]string{"bytes": {"bytes"}, "latency": {"nanoseconds"}},
			Label:    map[string][]string{"tier": {fmt.Sprintf("t%d", v%3)}},
		}
	}
	return &profile.Profile{
		PeriodType:    &profile.ValueType{Type: "cpu", Unit: "nanoseconds"},
		Period:        1,
		DurationNanos: 20e9,
		SampleType:    []*profile.ValueType{{Type: "samples", Unit: "count"}, {Type: "work", Unit: unit}},
		Sample: []*profile.Sample{
			mk(1, 16, 900, l[0]),
			mk(10, 1023, 1000, l[1], l[0]),
			mk(100, 1024, 1500000, l[2], l[1], l[0]),
			mk(1000, 3<<20, 59999999999, l[3], l[0]),
			mk(10000, 5<<30, 3600000000000, l[2], l[3], l[0]),
			mk(-7, 2048, 250, l[3], l[1], l[0]),
		},
		Location: l,
		Function: f,
		Mapping:  m,
	}
}

var zzFormats = []struct {
	name string
	f    int
}{{"text", Text}, {"tags", Tags}, {"callgrind", Callgrind}, {"topproto", TopProto}, {"dot", Dot}, {"traces", Traces}, {"tree", Tree}}

var zzUnits = []struct {
	sample, output string
	ratio          float64
}{
	{"nanoseconds", "minimum", 0}, {"nanoseconds", "ms", 0}, {"ns", "hrs", 0}, {"bytes", "kb", 0}, {"bytes", "auto", 0},
	{"kilobytes", "minimum", 0}, {"count", "minimum", 0}, {"widgets", "hours", 0}, {"milligcu", "minimum", 0},
	{"MB", "bytes", 0.5}, {"seconds", "minimum", 0.001}, {"bytes", "seconds", 0},
}

var zzBuildID = regexp.MustCompile(`(?m)^(Build ID|Time): .*\n`)

func zzRender(t *testing.T, sample, output string, ratio float64, format int) string {
	p := zzProfile(sample)
	rpt := New(p, &Options{
		OutputFormat:  format,
		Ratio:         ratio,
		NodeCount:     80,
		NodeFraction:  0.0005,
		EdgeFraction:  0.0001,
		SampleValue:   func(v []int64) int64 { return v[1] },
		SampleType:    "work",
		SampleUnit:    sample,
		OutputUnit:    output,
		NumLabelUnits: map[string]string{"bytes": "bytes", "latency": "nanoseconds"},
		Title:         "zz",
	})
	var b bytes.Buffer
	if err := Generate(&b, rpt, nil); err != nil {
		t.Fatalf("%s->%s %d: %v", sample, output, format, err)
	}
	if format == TopProto {
		tp, err := profile.Parse(&b)
		if err != nil {
			t.Fatalf("parse topproto: %v", err)
		}
		var sb strings.Builder
		for _, st := range tp.SampleType {
			fmt.Fprintf(&sb, "[%s/%s]", st.Type, st.Unit)
		}
		for _, s := range tp.Sample {
			fmt.Fprintf(&sb, " %s:%v", s.Location[0].Line[0].Function.Name, s.Value)
		}
		return sb.String()
	}
	return zzBuildID.ReplaceAllString(b.String(), "")
}

func TestZZEquivReportUnits(t *testing.T) {
	print := os.Getenv("ZZ_PRINT") != ""
	for _, u := range zzUnits {
		for _, f := range zzFormats {
			name := fmt.Sprintf("%s->%s@%v/%s", u.sample, u.output, u.ratio, f.name)
			got := zzRender(t, u.sample, u.output, u.ratio, f.f)
			sum := fmt.Sprintf("%x", sha256.Sum256([]byte(got)))[:24]
			if print {
				fmt.Printf("SUM\t%q: %q,\n", name, sum)
				if full, ok := zzFull[name]; ok && full == "" {
					fmt.Printf("FULL\t%q: %q,\n", name, got)
				}
				continue
			}
			if want := zzSums[name]; sum != want {
				t.Errorf("%s: digest %s want %s; output:\n%s", name, sum, want, got)
			}
			if full, ok := zzFull[name]; ok && got != full {
				t.Errorf("%s: output\n%s\nwant\n%s", name, got, full)
			}
		}
	}
}

var zzSums = map[string]string{
	"nanoseconds->minimum@0/text":      "9c241cd8eeb9422a45b87a7e",
	"nanoseconds->minimum@0/tags":      "e2a590d37ede2c70ce62a4e0",
	"nanoseconds->minimum@0/callgrind": "4067dfc7712b2dd5a7c604ab",
	"nanoseconds->minimum@0/topproto":  "00e7051ef8eb095de6745513",
	"nanoseconds->minimum@0/dot":       "3e420b7882ddf1b18e89953a",
	"nanoseconds->minimum@0/traces":    "6039177728edb30abeaee00e",
	"nanoseconds->minimum@0/tree":      "186aa76e1bd8c2efb3af575a",
	"nanoseconds->ms@0/text":           "9c241cd8eeb9422a45b87a7e",
	"nanoseconds->ms@0/tags":           "4ec18ead7d1fd23165a0c99c",
	"nanoseconds->ms@0/callgrind":      "4067dfc7712b2dd5a7c604ab",
	"nanoseconds->ms@0/topproto":       "00e7051ef8eb095de6745513",
	"nanoseconds->ms@0/dot":            "cc03fb9cc4ccc7812234158a",
	"nanoseconds->ms@0/traces":         "d7e98d583cccfed835d61d54",
	"nanoseconds->ms@0/tree":           "186aa76e1bd8c2efb3af575a",
	"ns->hrs@0/text":                   "872a50af05a917b77e670e69",
	"ns->hrs@0/tags":                   "6ff177b134d0a9b88ef01f03",
	"ns->hrs@0/callgrind":              "0b9e8d8e5ba9e3bd9bde618b",
	"ns->hrs@0/topproto":               "2a135976d37b691a2092c3d3",
	"ns->hrs@0/dot":                    "065666192c36d1257778345b",
	"ns->hrs@0/traces":                 "c03d01167c32c0f124b3db61",
	"ns->hrs@0/tree":                   "6b59361e64a705116b60a4af",
	"bytes->kb@0/text":                 "9dd651d4442d843c6c1b30ae",
	"bytes->kb@0/tags":                 "d71b12b5d522b57cdc15e8eb",
	"bytes->kb@0/callgrind":            "8a18036872572e1f38d3c6d6",
	"bytes->kb@0/topproto":             "9cc5990b1c4071c467b3ea9d",
	"bytes->kb@0/dot":                  "d24884459c1cbe8d1bb82792",
	"bytes->kb@0/traces":               "c1e2bc8f63cb18ce7fa7c129",
	"bytes->kb@0/tree":                 "286bed89fb0a258d83054b30",
	"bytes->auto@0/text":               "d0195b028a33932759718c83",
	"bytes->auto@0/tags":               "be9e9f66086a99708cf361e7",
	"bytes->auto@0/callgrind":          "7ba389cf44e95b2ca243e4ed",
	"bytes->auto@0/topproto":           "b01888e080dc7c00bfa7652b",
	"bytes->auto@0/dot":                "19594bdcadac1fa90c9333c1",
	"bytes->auto@0/traces":             "925415116da9087f70db7faf",
	"bytes->auto@0/tree":               "14f4c03fc2e0b4ca9aaef714",
	"kilobytes->minimum@0/text":        "f26d6d152d4b6ce97c128023",
	"kilobytes->minimum@0/tags":        "5cf366cec0fe453d9f2d21a5",
	"kilobytes->minimum@0/callgrind":   "138bb0b7c64332ecfaa0c1a0",
	"kilobytes->minimum@0/topproto":    "0f5057b132afdb5d04714c58",
	"kilobytes->minimum@0/dot":         "d4eb92868c02c744b0516ffe",
	"kilobytes->minimum@0/traces":      "3e559999a800fa5476b482df",
	"kilobytes->minimum@0/tree":        "257ef2d031ea6d94bb0e21a6",
	"count->minimum@0/text":            "22848d10c6ea7a095792ec69",
	"count->minimum@0/tags":            "b4fee4b31ef64c3d4603ce63",
	"count->minimum@0/callgrind":       "950de732f60ab6062bfdc63c",
	"count->minimum@0/topproto":        "8640d603ee814a426f4a1ebd",
	"count->minimum@0/dot":             "ca35e284a9cdb8301a73ee66",
	"count->minimum@0/traces":          "f2c8fcaccc9f08ad1f171378",
	"count->minimum@0/tree":            "223d19d67549211e3bf5c0a3",
	"widgets->hours@0/text":            "b726d0ca76d2d9529540da1f",
	"widgets->hours@0/tags":            "eeb05a529aa6385943fed91e",
	"widgets->hours@0/callgrind":       "20ed26b38a6758865ead846a",
	"widgets->hours@0/topproto":        "d99183b7d2f473c48caeca82",
	"widgets->hours@0/dot":             "34e6282703a3a77c162d7ddd",
	"widgets->hours@0/traces":          "9889b51dfe2fbd1b3420fd6e",
	"widgets->hours@0/tree":            "0f60b0aa3fa266793ba467c2",
	"milligcu->minimum@0/text":         "c6b3f26cabb73041210c364b",
	"milligcu->minimum@0/tags":         "8f103a8e7569489a0ded288b",
	"milligcu->minimum@0/callgrind":    "18f6780e43fdb6aac51a8f49",
	"milligcu->minimum@0/topproto":     "1c17c20ec2e2a0a79561a75c",
	"milligcu->minimum@0/dot":          "e3c41ef19c36eb251bd9400d",
	"milligcu->minimum@0/traces":       "7251ba4be18640128c904ab9",
	"milligcu->minimum@0/tree":         "d3f607c16c52dcf63e5e34b7",
	"MB->bytes@0.5/text":               "7f1b0c603aa24784584abffd",
	"MB->bytes@0.5/tags":               "c99152c297f31e712004adeb",
	"MB->bytes@0.5/callgrind":          "16ba30344dbe1661def9ab54",
	"MB->bytes@0.5/topproto":           "9ca70eb30fc65f8c5654283d",
	"MB->bytes@0.5/dot":                "954c21486d80a248a8d341f2",
	"MB->bytes@0.5/traces":             "4c8d1b785dfe5da56638016a",
	"MB->bytes@0.5/tree":               "a8f98d3083b7b4975d22ea84",
	"seconds->minimum@0.001/text":      "d38b5e0b7ece5f9c2ed14419",
	"seconds->minimum@0.001/tags":      "f62fc1c912168580359e74a7",
	"seconds->minimum@0.001/callgrind": "75eaa8f02a43db6ec8a1af73",
	"seconds->minimum@0.001/topproto":  "4ee1651f1472d4bf8a164187",
	"seconds->minimum@0.001/dot":       "1390d49d38726e18c476a391",
	"seconds->minimum@0.001/traces":    "8ebba21deca9a24dab845870",
	"seconds->minimum@0.001/tree":      "bcd5460237523bf682040aed",
	"bytes->seconds@0/text":            "1843550df70b9a7cdf27b055",
	"bytes->seconds@0/tags":            "21cf78c88407432832820312",
	"bytes->seconds@0/callgrind":       "173fc64b78b7f315da5a0842",
	"bytes->seconds@0/topproto":        "f434e5bf21826e979580c62e",
	"bytes->seconds@0/dot":             "c103bed336f829f77ce42d93",
	"bytes->seconds@0/traces":          "53c0faf654475a2d43f5e3e7",
	"bytes->seconds@0/tree":            "27f0774b3b6b94b7447fcc48",
}

var zzFull = map[string]string{
	"nanoseconds->minimum@0/topproto": "[cum/ms][flat/ms] beta:[12469 12469] gamma:[13571 1225] alpha:[127 12] main:[13708 1]",
	"nanoseconds->ms@0/callgrind":     "positions: instr line\nevents: work(ms)\n\nob=(1) /bin/zz\nfl=(1) zz/beta.c\nfn=(1) beta\n0x3100 30 12469\n\nob=(1)\nfl=(2) zz/gamma.c\nfn=(2) gamma\n+4096 40 1225\ncfl=(1)\ncfn=(1)\ncalls=0 * 30\n* * 12345\n\nob=(1)\nfl=(3) zz/alpha.c\nfn=(3) alpha\n-8192 20 12\ncfl=(1)\ncfn=(1)\ncalls=0 -4096 30\n* * 123\ncfl=(2)\ncfn=(2)\ncalls=0 * 40\n* * -8\n\nob=(1)\nfl=(4) zz/main.c\nfn=(4) main\n-4096 10 1\ncfl=(2)\ncfn=(2)\ncalls=0 +8192 40\n* * 13580\ncfl=(3)\ncfn=(3)\ncalls=0 * 20\n* * 127\n",
	"bytes->kb@0/tags":                " bytes: Total 13387335.91kB of 13404214.75kB (99.87%)\n        12056318.36kB (89.94%): 5242880kB\n         1205631.84kB ( 8.99%): 3072kB\n          132619.50kB ( 0.99%): 1kB\n           -8439.42kB (0.063%): 2kB\n            1205.63kB (0.009%): 0.02kB\n\n latency: Total 13387335.91kB of 13404214.75kB (99.87%)\n          12056318.36kB (89.94%): 3600s\n           1205631.84kB ( 8.99%): 60s\n            125385.71kB ( 0.94%): 0\n\n tier: Total 13387335.91kB of 13404214.75kB (99.87%)\n       13395775.33kB (99.94%): t1\n          -8439.42kB (0.063%): t-1\n\n",
	"kilobytes->minimum@0/text":       "File: zz\nType: work\nDuration: 20s, Total samples = 13090.05GB \nShowing nodes accounting for 13073.57GB, 99.87% of 13090.05GB total\n      flat  flat%   sum%        cum   cum%\n11891.49GB 90.84% 90.84% 11891.49GB 90.84%  0000000000003100 beta zz/beta.c:30\n 1169.13GB  8.93% 99.78% 12942.88GB 98.88%  0000000000004100 gamma zz/gamma.c:40\n   11.77GB  0.09% 99.87%   121.27GB  0.93%  0000000000002100 alpha zz/alpha.c:20\n    1.18GB 0.009% 99.87% 13073.57GB 99.87%  0000000000001100 main zz/main.c:10\n",
	"MB->bytes@0.5/tree":              "File: zz\nType: work\nDuration: 20s, Total samples = 7196332998524928B \nShowing nodes accounting for 7187271237238784B, 99.87% of 7196332998524928B total\n----------------------------------------------------------+-------------\n      flat  flat%   sum%        cum   cum%   calls calls% + context \t \t \n----------------------------------------------------------+-------------\n                                 6472686632960000B 99.01% |   0000000000004100 gamma zz/gamma.c:40\n                                   64726866329600B  0.99% |   0000000000002100 alpha zz/alpha.c:20\n6537413499289600B 90.84% 90.84% 6537413499289600B 90.84%                | 0000000000003100 beta zz/beta.c:30\n----------------------------------------------------------+-------------\n                                 7119955296256000B 100.06% |   0000000000001100 main zz/main.c:10\n                                   -4530880118784B 0.064% |   0000000000002100 alpha zz/alpha.c:20\n642737782128640B  8.93% 99.78% 7115424415088640B 98.88%                | 0000000000004100 gamma zz/gamma.c:40\n                                 6472686632960000B 90.97% |   0000000000003100 beta zz/beta.c:30\n----------------------------------------------------------+-------------\n                                   66668671795200B   100% |   0000000000001100 main zz/main.c:10\n6472686632960B  0.09% 99.87% 66668671795200B  0.93%                | 0000000000002100 alpha zz/alpha.c:20\n                                   64726866329600B 97.09% |   0000000000003100 beta zz/beta.c:30\n                                   -4530880118784B  6.80% |   0000000000004100 gamma zz/gamma.c:40\n----------------------------------------------------------+-------------\n647268139008B 0.009% 99.87% 7187271237238784B 99.87%                | 0000000000001100 main zz/main.c:10\n                                 7119955296256000B 99.06% |   0000000000004100 gamma zz/gamma.c:40\n                                   66668671795200B  0.93% |   0000000000002100 alpha zz/alpha.c:20\n----------------------------------------------------------+-------------\n",
}
