package driver

import (
	"fmt"
	"os"
	"sort"
	"strings"
	"testing"

	"github.com/google/pprof/profile"
)

type zzEquivCUI struct{ msgs []string }

func (u *zzEquivCUI) ReadLine(string) (string, error)     { return "", fmt.Errorf("no input") }
func (u *zzEquivCUI) Print(args ...interface{})           { u.msgs = append(u.msgs, "P:"+fmt.Sprint(args...)) }
func (u *zzEquivCUI) PrintErr(args ...interface{})        { u.msgs = append(u.msgs, "E:"+fmt.Sprint(args...)) }
func (u *zzEquivCUI) IsTerminal() bool                    { return false }
func (u *zzEquivCUI) WantBrowser() bool                   { return false }
func (u *zzEquivCUI) SetAutoComplete(func(string) string) {}

type zzEquivCLabel struct {
	key   string
	vals  []int64
	units []string
}

// zzEquivCProfile builds a profile with one sample per entry of labels; the
// first value of sample i is i+1.
func zzEquivCProfile(labels [][]zzEquivCLabel) *profile.Profile {
	m := &profile.Mapping{ID: 1, Start: 0x1000, Limit: 0x2000, File: "/bin/app"}
	f := &profile.Function{ID: 1, Name: "main", SystemName: "main", Filename: "main.go"}
	l := &profile.Location{ID: 1, Mapping: m, Address: 0x1010, Line: []profile.Line{{Function: f, Line: 1}}}
	p := &profile.Profile{
		SampleType: []*profile.ValueType{{Type: "samples", Unit: "count"}},
		PeriodType: &profile.ValueType{Type: "cpu", Unit: "nanoseconds"},
		Period:     1,
		Mapping:    []*profile.Mapping{m},
		Function:   []*profile.Function{f},
		Location:   []*profile.Location{l},
	}
	for i, labs := range labels {
		s := &profile.Sample{Location: []*profile.Location{l}, Value: []int64{int64(i + 1)}}
		for _, lab := range labs {
			if s.NumLabel == nil {
				s.NumLabel = map[string][]int64{}
				s.NumUnit = map[string][]string{}
			}
			s.NumLabel[lab.key] = lab.vals
			if lab.units != nil {
				s.NumUnit[lab.key] = lab.units
			}
		}
		p.Sample = append(p.Sample, s)
	}
	return p
}

var zzEquivCProfiles = map[string][][]zzEquivCLabel{
	"empty":    {},
	"nolabels": {nil, nil},
	"unitless": {
		{{"alignment", []int64{8}, nil}, {"request", []int64{100}, []string{""}}},
		{{"count", []int64{3, 4}, nil}},
		nil,
	},
	"consistent": {
		{{"bytes", []int64{1024}, []string{"bytes"}}},
		{{"bytes", []int64{2048, 4096}, []string{"bytes", "bytes"}}, {"latency", []int64{5}, []string{"ms"}}},
	},
	"conflicting": {
		{{"bytes", []int64{16 * 1024}, []string{""}}, {"latency", []int64{2000}, []string{"us"}}},
		{{"bytes", []int64{32, 2048}, []string{"kb", "bytes"}}},
		{{"bytes", []int64{1}, []string{"mb"}}, {"latency", []int64{3, 1}, []string{"ms", "s"}}},
		{{"bytes", []int64{64}, []string{"kb"}}, {"latency", []int64{7}, []string{"us"}}, {"request", []int64{9}, nil}},
		{{"bytes", []int64{5}, []string{"gb"}}, {"alignment", []int64{16}, []string{"", "words"}}},
	},
	"late-unit": {
		{{"size", []int64{10}, nil}},
		{{"size", []int64{10}, []string{""}}},
		{{"size", []int64{10}, []string{"kb"}}},
		{{"size", []int64{10240}, []string{"bytes"}}},
	},
}

func zzEquivCMap(m map[string]string) string {
	var out []string
	for k, v := range m {
		out = append(out, k+"->"+v)
	}
	sort.Strings(out)
	return strings.Join(out, ",")
}

func TestZZEquivCNumLabelUnits(t *testing.T) {
	var names []string
	for n := range zzEquivCProfiles {
		names = append(names, n)
	}
	sort.Strings(names)
	filters := []string{"32kb", "bytes=32kb", "16kb:", ":2kb", "bytes=1kb:40kb", "latency=2ms:", "latency=:2ms", "1s", "size=10kb", "size=10240", "request=9", "alignment=16", "8", "count=3:3", "1mb"}
	var got strings.Builder
	for _, n := range names {
		p := zzEquivCProfile(zzEquivCProfiles[n])
		units, ignored := p.NumLabelUnits()
		var ign []string
		for k, v := range ignored {
			if !sort.StringsAreSorted(v) || len(v) == 0 {
				t.Errorf("%s: ignored units of %q not sorted or empty: %q", n, k, v)
			}
			ign = append(ign, fmt.Sprintf("%s->%q", k, v))
		}
		sort.Strings(ign)
		ui := &zzEquivCUI{}
		viaDriver := identifyNumLabelUnits(p, ui)
		sort.Strings(ui.msgs)
		fmt.Fprintf(&got, "== %s units={%s} ignored={%s} driver={%s} ui=%q\n", n, zzEquivCMap(units), strings.Join(ign, ","), zzEquivCMap(viaDriver), ui.msgs)
		var total int64
		for _, s := range p.Sample {
			total += s.Value[0]
		}
		for _, f := range filters {
			var sums [2]int64
			for which := 0; which < 2; which++ {
				q := zzEquivCProfile(zzEquivCProfiles[n])
				qui := &zzEquivCUI{}
				cfg := defaultConfig()
				if which == 0 {
					cfg.TagFocus = f
				} else {
					cfg.TagIgnore = f
				}
				if err := applyFocus(q, identifyNumLabelUnits(q, qui), cfg, qui); err != nil {
					t.Fatalf("%s %q: %v", n, f, err)
				}
				var kept []string
				for _, s := range q.Sample {
					kept = append(kept, fmt.Sprint(s.Value[0]))
					sums[which] += s.Value[0]
				}
				fmt.Fprintf(&got, "   %s=%q kept=[%s]\n", []string{"tagfocus", "tagignore"}[which], f, strings.Join(kept, " "))
			}
			if sums[0]+sums[1] != total {
				t.Errorf("%s %q: tagfocus total %d + tagignore total %d != %d", n, f, sums[0], sums[1], total)
			}
		}
	}
	if os.Getenv("ZZ_PRINT") != "" {
		os.WriteFile(os.Getenv("ZZ_PRINT"), []byte(got.String()), 0o644)
		return
	}
	if got.String() != zzEquivCWant {
		t.Errorf("NumLabelUnits / numeric tag filter output differs from the output recorded on the unchanged tree.\ngot:\n%s\nwant:\n%s", got.String(), zzEquivCWant)
	}
}

var zzEquivCWant = strings.Join([]string{
	"== conflicting units={alignment->words,bytes->kb,latency->us,request->bytes} ignored={bytes->[\"bytes\" \"gb\" \"mb\"],latency->[\"ms\" \"s\"]} driver={alignment->words,bytes->kb,latency->us,request->bytes} ui=[\"E:For tag bytes used unit kb, also encountered unit(s) bytes, gb, mb\" \"E:For tag latency used unit us, also encountered unit(s) ms, s\"]",
	"   tagfocus=\"32kb\" kept=[2]",
	"   tagignore=\"32kb\" kept=[1 3 4 5]",
	"   tagfocus=\"bytes=32kb\" kept=[2]",
	"   tagignore=\"bytes=32kb\" kept=[1 3 4 5]",
	"   tagfocus=\"16kb:\" kept=[1 2 4 5]",
	"   tagignore=\"16kb:\" kept=[3]",
	"   tagfocus=\":2kb\" kept=[3 4]",
	"   tagignore=\":2kb\" kept=[1 2 5]",
	"   tagfocus=\"bytes=1kb:40kb\" kept=[2 3 5]",
	"   tagignore=\"bytes=1kb:40kb\" kept=[1 4]",
	"   tagfocus=\"latency=2ms:\" kept=[1]",
	"   tagignore=\"latency=2ms:\" kept=[2 3 4 5]",
	"   tagfocus=\"latency=:2ms\" kept=[1 3 4]",
	"   tagignore=\"latency=:2ms\" kept=[2 5]",
	"   tagfocus=\"1s\" kept=[]",
	"   tagignore=\"1s\" kept=[1 2 3 4 5]",
	"   tagfocus=\"size=10kb\" kept=[]",
	"   tagignore=\"size=10kb\" kept=[1 2 3 4 5]",
	"   tagfocus=\"size=10240\" kept=[]",
	"   tagignore=\"size=10240\" kept=[1 2 3 4 5]",
	"   tagfocus=\"request=9\" kept=[]",
	"   tagignore=\"request=9\" kept=[1 2 3 4 5]",
	"   tagfocus=\"alignment=16\" kept=[5]",
	"   tagignore=\"alignment=16\" kept=[1 2 3 4]",
	"   tagfocus=\"8\" kept=[]",
	"   tagignore=\"8\" kept=[1 2 3 4 5]",
	"   tagfocus=\"count=3:3\" kept=[]",
	"   tagignore=\"count=3:3\" kept=[1 2 3 4 5]",
	"   tagfocus=\"1mb\" kept=[]",
	"   tagignore=\"1mb\" kept=[1 2 3 4 5]",
	"== consistent units={bytes->bytes,latency->ms} ignored={} driver={bytes->bytes,latency->ms} ui=[]",
	"   tagfocus=\"32kb\" kept=[]",
	"   tagignore=\"32kb\" kept=[1 2]",
	"   tagfocus=\"bytes=32kb\" kept=[]",
	"   tagignore=\"bytes=32kb\" kept=[1 2]",
	"   tagfocus=\"16kb:\" kept=[]",
	"   tagignore=\"16kb:\" kept=[1 2]",
	"   tagfocus=\":2kb\" kept=[1 2]",
	"   tagignore=\":2kb\" kept=[]",
	"   tagfocus=\"bytes=1kb:40kb\" kept=[1 2]",
	"   tagignore=\"bytes=1kb:40kb\" kept=[]",
	"   tagfocus=\"latency=2ms:\" kept=[2]",
	"   tagignore=\"latency=2ms:\" kept=[1]",
	"   tagfocus=\"latency=:2ms\" kept=[]",
	"   tagignore=\"latency=:2ms\" kept=[1 2]",
	"   tagfocus=\"1s\" kept=[]",
	"   tagignore=\"1s\" kept=[1 2]",
	"   tagfocus=\"size=10kb\" kept=[]",
	"   tagignore=\"size=10kb\" kept=[1 2]",
	"   tagfocus=\"size=10240\" kept=[]",
	"   tagignore=\"size=10240\" kept=[1 2]",
	"   tagfocus=\"request=9\" kept=[]",
	"   tagignore=\"request=9\" kept=[1 2]",
	"   tagfocus=\"alignment=16\" kept=[]",
	"   tagignore=\"alignment=16\" kept=[1 2]",
	"   tagfocus=\"8\" kept=[]",
	"   tagignore=\"8\" kept=[1 2]",
	"   tagfocus=\"count=3:3\" kept=[]",
	"   tagignore=\"count=3:3\" kept=[1 2]",
	"   tagfocus=\"1mb\" kept=[]",
	"   tagignore=\"1mb\" kept=[1 2]",
	"== empty units={} ignored={} driver={} ui=[]",
	"   tagfocus=\"32kb\" kept=[]",
	"   tagignore=\"32kb\" kept=[]",
	"   tagfocus=\"bytes=32kb\" kept=[]",
	"   tagignore=\"bytes=32kb\" kept=[]",
	"   tagfocus=\"16kb:\" kept=[]",
	"   tagignore=\"16kb:\" kept=[]",
	"   tagfocus=\":2kb\" kept=[]",
	"   tagignore=\":2kb\" kept=[]",
	"   tagfocus=\"bytes=1kb:40kb\" kept=[]",
	"   tagignore=\"bytes=1kb:40kb\" kept=[]",
	"   tagfocus=\"latency=2ms:\" kept=[]",
	"   tagignore=\"latency=2ms:\" kept=[]",
	"   tagfocus=\"latency=:2ms\" kept=[]",
	"   tagignore=\"latency=:2ms\" kept=[]",
	"   tagfocus=\"1s\" kept=[]",
	"   tagignore=\"1s\" kept=[]",
	"   tagfocus=\"size=10kb\" kept=[]",
	"   tagignore=\"size=10kb\" kept=[]",
	"   tagfocus=\"size=10240\" kept=[]",
	"   tagignore=\"size=10240\" kept=[]",
	"   tagfocus=\"request=9\" kept=[]",
	"   tagignore=\"request=9\" kept=[]",
	"   tagfocus=\"alignment=16\" kept=[]",
	"   tagignore=\"alignment=16\" kept=[]",
	"   tagfocus=\"8\" kept=[]",
	"   tagignore=\"8\" kept=[]",
	"   tagfocus=\"count=3:3\" kept=[]",
	"   tagignore=\"count=3:3\" kept=[]",
	"   tagfocus=\"1mb\" kept=[]",
	"   tagignore=\"1mb\" kept=[]",
	"== late-unit units={size->kb} ignored={size->[\"bytes\"]} driver={size->kb} ui=[\"E:For tag size used unit kb, also encountered unit(s) bytes\"]",
	"   tagfocus=\"32kb\" kept=[]",
	"   tagignore=\"32kb\" kept=[1 2 3 4]",
	"   tagfocus=\"bytes=32kb\" kept=[]",
	"   tagignore=\"bytes=32kb\" kept=[1 2 3 4]",
	"   tagfocus=\"16kb:\" kept=[4]",
	"   tagignore=\"16kb:\" kept=[1 2 3]",
	"   tagfocus=\":2kb\" kept=[]",
	"   tagignore=\":2kb\" kept=[1 2 3 4]",
	"   tagfocus=\"bytes=1kb:40kb\" kept=[]",
	"   tagignore=\"bytes=1kb:40kb\" kept=[1 2 3 4]",
	"   tagfocus=\"latency=2ms:\" kept=[]",
	"   tagignore=\"latency=2ms:\" kept=[1 2 3 4]",
	"   tagfocus=\"latency=:2ms\" kept=[]",
	"   tagignore=\"latency=:2ms\" kept=[1 2 3 4]",
	"   tagfocus=\"1s\" kept=[]",
	"   tagignore=\"1s\" kept=[1 2 3 4]",
	"   tagfocus=\"size=10kb\" kept=[1 2 3]",
	"   tagignore=\"size=10kb\" kept=[4]",
	"   tagfocus=\"size=10240\" kept=[]",
	"   tagignore=\"size=10240\" kept=[1 2 3 4]",
	"   tagfocus=\"request=9\" kept=[]",
	"   tagignore=\"request=9\" kept=[1 2 3 4]",
	"   tagfocus=\"alignment=16\" kept=[]",
	"   tagignore=\"alignment=16\" kept=[1 2 3 4]",
	"   tagfocus=\"8\" kept=[]",
	"   tagignore=\"8\" kept=[1 2 3 4]",
	"   tagfocus=\"count=3:3\" kept=[]",
	"   tagignore=\"count=3:3\" kept=[1 2 3 4]",
	"   tagfocus=\"1mb\" kept=[]",
	"   tagignore=\"1mb\" kept=[1 2 3 4]",
	"== nolabels units={} ignored={} driver={} ui=[]",
	"   tagfocus=\"32kb\" kept=[]",
	"   tagignore=\"32kb\" kept=[1 2]",
	"   tagfocus=\"bytes=32kb\" kept=[]",
	"   tagignore=\"bytes=32kb\" kept=[1 2]",
	"   tagfocus=\"16kb:\" kept=[]",
	"   tagignore=\"16kb:\" kept=[1 2]",
	"   tagfocus=\":2kb\" kept=[]",
	"   tagignore=\":2kb\" kept=[1 2]",
	"   tagfocus=\"bytes=1kb:40kb\" kept=[]",
	"   tagignore=\"bytes=1kb:40kb\" kept=[1 2]",
	"   tagfocus=\"latency=2ms:\" kept=[]",
	"   tagignore=\"latency=2ms:\" kept=[1 2]",
	"   tagfocus=\"latency=:2ms\" kept=[]",
	"   tagignore=\"latency=:2ms\" kept=[1 2]",
	"   tagfocus=\"1s\" kept=[]",
	"   tagignore=\"1s\" kept=[1 2]",
	"   tagfocus=\"size=10kb\" kept=[]",
	"   tagignore=\"size=10kb\" kept=[1 2]",
	"   tagfocus=\"size=10240\" kept=[]",
	"   tagignore=\"size=10240\" kept=[1 2]",
	"   tagfocus=\"request=9\" kept=[]",
	"   tagignore=\"request=9\" kept=[1 2]",
	"   tagfocus=\"alignment=16\" kept=[]",
	"   tagignore=\"alignment=16\" kept=[1 2]",
	"   tagfocus=\"8\" kept=[]",
	"   tagignore=\"8\" kept=[1 2]",
	"   tagfocus=\"count=3:3\" kept=[]",
	"   tagignore=\"count=3:3\" kept=[1 2]",
	"   tagfocus=\"1mb\" kept=[]",
	"   tagignore=\"1mb\" kept=[1 2]",
	"== unitless units={alignment->bytes,count->count,request->bytes} ignored={} driver={alignment->bytes,count->count,request->bytes} ui=[]",
	"   tagfocus=\"32kb\" kept=[]",
	"   tagignore=\"32kb\" kept=[1 2 3]",
	"   tagfocus=\"bytes=32kb\" kept=[]",
	"   tagignore=\"bytes=32kb\" kept=[1 2 3]",
	"   tagfocus=\"16kb:\" kept=[]",
	"   tagignore=\"16kb:\" kept=[1 2 3]",
	"   tagfocus=\":2kb\" kept=[1]",
	"   tagignore=\":2kb\" kept=[2 3]",
	"   tagfocus=\"bytes=1kb:40kb\" kept=[]",
	"   tagignore=\"bytes=1kb:40kb\" kept=[1 2 3]",
	"   tagfocus=\"latency=2ms:\" kept=[]",
	"   tagignore=\"latency=2ms:\" kept=[1 2 3]",
	"   tagfocus=\"latency=:2ms\" kept=[]",
	"   tagignore=\"latency=:2ms\" kept=[1 2 3]",
	"   tagfocus=\"1s\" kept=[]",
	"   tagignore=\"1s\" kept=[1 2 3]",
	"   tagfocus=\"size=10kb\" kept=[]",
	"   tagignore=\"size=10kb\" kept=[1 2 3]",
	"   tagfocus=\"size=10240\" kept=[]",
	"   tagignore=\"size=10240\" kept=[1 2 3]",
	"   tagfocus=\"request=9\" kept=[]",
	"   tagignore=\"request=9\" kept=[1 2 3]",
	"   tagfocus=\"alignment=16\" kept=[]",
	"   tagignore=\"alignment=16\" kept=[1 2 3]",
	"   tagfocus=\"8\" kept=[]",
	"   tagignore=\"8\" kept=[1 2 3]",
	"   tagfocus=\"count=3:3\" kept=[2]",
	"   tagignore=\"count=3:3\" kept=[1 3]",
	"   tagfocus=\"1mb\" kept=[]",
	"   tagignore=\"1mb\" kept=[1 2 3]",
}, "\n") + "\n"
