#!/bin/sh
# Usage: demo.sh <worktree root>. Runs the equivalence test for change C.
set -u
wt="$1"
here="$(cd "$(dirname "$0")" && pwd)"
export GOFLAGS=-mod=mod GOPROXY=off GOSUMDB=off GOTOOLCHAIN=local
cp "$here/zz_equiv_c_test.go" "$wt/internal/driver/zz_equiv_c_test.go"
(cd "$wt" && go test -vet=off -count=1 -run 'TestZZEquivC' ./internal/driver/)
rc=$?
rm -f "$wt/internal/driver/zz_equiv_c_test.go"
exit $rc
