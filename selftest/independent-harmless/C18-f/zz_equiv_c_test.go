package graph

import (
	"bytes"
	"fmt"
	"os"
	"regexp"
	"strings"
	"testing"

	"github.com/google/pprof/profile"
)

// zzEquivCRefName is the specification of multilinePrintableName: the
// replacements applied one after the other, as documented.
func zzEquivCRefName(info *NodeInfo) string {
	c := *info
	c.Name = escapeForDot(ShortenFunctionName(c.Name))
	c.Name = strings.Replace(c.Name, "::", `\n`, -1)
	c.Name = strings.Replace(c.Name, "[...]", "[…]", -1)
	c.Name = strings.Replace(c.Name, ".", `\n`, -1)
	if c.File != "" {
		c.File = escapeForDot(baseName(c.File))
	}
	c.Objfile = escapeForDot(c.Objfile)
	return strings.Join(c.NameComponents(), `\n`) + `\n`
}

func baseName(f string) string {
	f = strings.TrimRight(f, "/")
	if f == "" {
		return "/"
	}
	if i := strings.LastIndex(f, "/"); i >= 0 {
		f = f[i+1:]
	}
	return f
}

func TestZZEquivCNameExhaustive(t *testing.T) {
	// All names of up to 7 characters over the characters of the patterns.
	alphabet := []string{":", ".", "[", "]", "a", `\`, "…"}
	var rec func(prefix string, depth int)
	n := 0
	rec = func(prefix string, depth int) {
		info := &NodeInfo{Name: prefix}
		if got, want := multilinePrintableName(info), zzEquivCRefName(info); got != want {
			t.Fatalf("multilinePrintableName(%q) = %q, want %q", prefix, got, want)
		}
		n++
		if depth == 0 {
			return
		}
		for _, a := range alphabet {
			rec(prefix+a, depth-1)
		}
	}
	rec("", 7)
	if n < 900000 {
		t.Errorf("only %d names tried", n)
	}
}

func TestZZEquivCNameFixed(t *testing.T) {
	for _, tc := range []struct {
		info NodeInfo
		want string
	}{
		{NodeInfo{Name: "a::b.c[...].d"}, `a\nb\nc[…]\nd\n`},
		{NodeInfo{Name: "pkg.F[...]..[...:::x"}, `pkg\nF[…]\n\n[\n\n\n\n:x\n`},
		{NodeInfo{Name: "q\"uo.te\\::n\new", File: "dir.d/fi\"le.go", Lineno: 3}, `q\"uo\nte\\\nn\lew\nfi\"le.go:3\n`},
		{NodeInfo{Name: "github.com/a/b/v2.(*T[...]).M.func1", Address: 0x10}, `0000000000000010\nb\n(*T[…])\nM\nfunc1\n`},
		{NodeInfo{Name: "ns1::ns2::Klass::method<a.b>", Objfile: "/bin/o\"bj"}, `Klass\nmethod<a\nb>\n`},
		{NodeInfo{Objfile: "/bin/o\"b.j"}, `[o\"b.j]\n`},
		{NodeInfo{Name: "\xff.\xfe::[..\xff.]"}, "\xff" + `\n` + "\xfe" + `\n[\n\n` + "\xff" + `\n]\n`},
	} {
		if got := multilinePrintableName(&tc.info); got != tc.want {
			t.Errorf("multilinePrintableName(%+v) = %q, want %q", tc.info, got, tc.want)
		}
		if ref := zzEquivCRefName(&tc.info); ref != tc.want {
			t.Errorf("reference(%+v) = %q, want %q", tc.info, ref, tc.want)
		}
	}
}

const zzEvilC = "q\"uote\\back\nline<b>&ünï"

func zzEquivCProfile() *profile.Profile {
	m := &profile.Mapping{ID: 1, Start: 0x1000, Limit: 0x9000, File: "/bin/" + zzEvilC}
	names := []string{"main.main", "ns::Outer::inner<T.u>(\"s\")", "pkg.Gen[...].do." + zzEvilC, "leaf\\n::x"}
	var fns []*profile.Function
	var locs []*profile.Location
	for i, n := range names {
		f := &profile.Function{ID: uint64(i + 1), Name: n, SystemName: n, Filename: fmt.Sprintf("dir/f%d%s.go", i, zzEvilC)}
		fns = append(fns, f)
		locs = append(locs, &profile.Location{ID: uint64(i + 1), Mapping: m, Address: uint64(0x1000 + 16*i),
			Line: []profile.Line{{Function: f, Line: int64(i + 1)}}})
	}
	l := func(ix ...int) []*profile.Location {
		var out []*profile.Location
		for _, i := range ix {
			out = append(out, locs[i])
		}
		return out
	}
	p := &profile.Profile{
		SampleType: []*profile.ValueType{{Type: "alloc", Unit: "bytes"}},
		Mapping:    []*profile.Mapping{m},
		Function:   fns,
		Location:   locs,
	}
	add := func(v int64, locs []*profile.Location, label map[string][]string, num map[string][]int64, unit map[string][]string) {
		p.Sample = append(p.Sample, &profile.Sample{Location: locs, Value: []int64{v}, Label: label, NumLabel: num, NumUnit: unit})
	}
	add(1000, l(3, 1, 0), map[string][]string{"k\"ey": {"v\\al", "w\nx"}, "z": {"<z>"}}, map[string][]int64{"bytes": {16}}, nil)
	add(700, l(3, 2, 0), map[string][]string{"k\"ey": {"other"}}, map[string][]int64{"bytes": {32, 64}}, map[string][]string{"bytes": {"kilo\"bytes", "kilo\"bytes"}})
	for i := int64(0); i < 7; i++ {
		add(100+13*i, l(3, 2, 1, 0), nil, map[string][]int64{"bytes": {1 << (4 + 2*i)}}, nil)
	}
	for i := 0; i < 6; i++ {
		add(int64(50+7*i), l(2, 0), map[string][]string{fmt.Sprintf("tag%d", i): {zzEvilC}}, nil, nil)
	}
	add(31, l(1), nil, map[string][]int64{"req\"s": {5}}, map[string][]string{"req\"s": {"u\\nit"}})
	add(17, l(0), nil, nil, nil)
	return p
}

func zzEquivCDot(callTree bool) string {
	g := New(zzEquivCProfile(), &Options{
		SampleValue: func(v []int64) int64 { return v[0] },
		CallTree:    callTree,
		ObjNames:    true,
	})
	g.SortNodes(true, true)
	var total int64
	for _, n := range g.Nodes {
		total += n.FlatValue()
	}
	var buf bytes.Buffer
	ComposeDot(&buf, g, &DotAttributes{}, &DotConfig{
		Title:       "title " + zzEvilC,
		LegendURL:   "http://x/?a=\"b\"",
		Labels:      []string{"File: " + zzEvilC, "Type: alloc", zzEvilC},
		FormatValue: func(v int64) string { return fmt.Sprintf("%d\"B\"", v) },
		Total:       total,
	})
	return buf.String()
}

var (
	zzNodeDecl = regexp.MustCompile(`^(N+[0-9_]+) \[`)
	zzEdgeDecl = regexp.MustCompile(`^(N+[0-9_]+) -> (N+[0-9_]+) \[`)
)

// zzEquivCCheckDot checks what the property asks of the DOT text: quoted
// strings are terminated on their line, and edges refer to declared nodes.
func zzEquivCCheckDot(t *testing.T, dot string) (nodelets int) {
	t.Helper()
	declared := map[string]bool{}
	lines := strings.Split(strings.TrimSuffix(dot, "\n"), "\n")
	for i, line := range lines {
		inQuote := false
		for j := 0; j < len(line); j++ {
			switch {
			case inQuote && line[j] == '\\':
				j++
			case line[j] == '"':
				inQuote = !inQuote
			}
		}
		if inQuote {
			t.Errorf("line %d: unterminated quoted string: %s", i+1, line)
		}
		if m := zzEdgeDecl.FindStringSubmatch(line); m != nil {
			if !declared[m[1]] || !declared[m[2]] {
				t.Errorf("line %d: edge %s -> %s refers to an undeclared node", i+1, m[1], m[2])
			}
		} else if m := zzNodeDecl.FindStringSubmatch(line); m != nil {
			declared[m[1]] = true
			if strings.Contains(m[1], "_") {
				nodelets++
			}
		}
	}
	if lines[len(lines)-1] != "}" {
		t.Errorf("document does not end with }")
	}
	return nodelets
}

func TestZZEquivCComposeDot(t *testing.T) {
	for _, callTree := range []bool{false, true} {
		for rep := 0; rep < 3; rep++ {
			got := zzEquivCDot(callTree)
			if n := zzEquivCCheckDot(t, got); n < 10 {
				t.Errorf("callTree=%v: only %d nodelets, the tag code is not exercised", callTree, n)
			}
			if os.Getenv("ZZ_PRINT") != "" {
				fmt.Printf("GOLDEN\t%v: %q,\n", callTree, got)
				break
			}
			if want := zzEquivCGolden[callTree]; got != want {
				t.Errorf("callTree=%v: DOT output differs\n got: %q\nwant: %q", callTree, got, want)
			}
		}
	}
}

// zzCountingWriter records the writes it receives.
type zzCountingWriter struct {
	writes []string
}

func (w *zzCountingWriter) Write(p []byte) (int, error) {
	w.writes = append(w.writes, string(p))
	return len(p), nil
}

// A node's nodelets are written with one Write call, also when there are none.
func TestZZEquivCNodeletWrites(t *testing.T) {
	for _, tc := range []struct {
		node *Node
		has  bool
		want string
	}{
		{&Node{Info: NodeInfo{Name: "plain"}, Flat: 1, Cum: 1}, false, ""},
		{&Node{Info: NodeInfo{Name: "zero"}, LabelTags: TagMap{"a": {Name: "a"}}}, false, ""},
		{&Node{Info: NodeInfo{Name: "tagged"}, Flat: 1, Cum: 1,
			LabelTags:   TagMap{`k:"v"\nk2:w`: {Name: `k:"v"\nk2:w`, Flat: 5, Cum: 5}},
			NumericTags: map[string]TagMap{"": {"1\"B\"": {Name: "1\"B\"", Unit: "bytes", Value: 1, Flat: 3, Cum: 4}}}},
			true,
			`N7_0 [label = "k:\"v\"\nk2:w" id="N7_0" fontsize=8 shape=box3d tooltip="5"]` + "\n" +
				`N7 -> N7_0 [label=" 5" weight=100 tooltip="5" labeltooltip="5"]` + "\n" +
				`NN7_0 [label = "1\"B\"" id="NN7_0" fontsize=8 shape=box3d tooltip="4"]` + "\n" +
				`N7 -> NN7_0 [label=" 4" weight=100 tooltip="4" labeltooltip="4" style="dotted"]` + "\n"},
	} {
		w := &zzCountingWriter{}
		b := &builder{w, &DotAttributes{}, &DotConfig{FormatValue: func(v int64) string { return fmt.Sprint(v) }}}
		if got := b.addNodelets(tc.node, 7); got != tc.has {
			t.Errorf("%s: addNodelets returned %v, want %v", tc.node.Info.Name, got, tc.has)
		}
		if len(w.writes) != 1 || w.writes[0] != tc.want {
			t.Errorf("%s: writes %q, want one write of %q", tc.node.Info.Name, w.writes, tc.want)
		}
	}
}

// DOT documents produced by the unchanged tree.
var zzEquivCGolden = map[bool]string{
	false: "digraph \"title q\\\"uote\\\\back\\lline<b>&ünï\" {\nnode [style=filled fillcolor=\"#f8f8f8\"]\nsubgraph cluster_L { \"File: q\\\"uote\\\\back\\lline<b>&ünï\" [shape=box fontsize=16 label=\"File: q\\\"uote\\\\back\\lline<b>&ünï\\lType: alloc\\lq\\\"uote\\\\back\\lline<b>&ünï\\l\" URL=\"http://x/?a=\\\"b\\\"\" target=\"_blank\" tooltip=\"title q\\\"uote\\\\back\\lline<b>&ünï\"] }\nN1 [label=\"0000000000001030\\nleaf\\\\n\\nx\\nf3q\\\"uote\\\\back\\lline<b>&ünï.go:4\\n2673\\\"B\\\" (85.51%)\" id=\"node1\" fontsize=24 shape=box tooltip=\"0000000000001030 leaf\\\\n::x dir/f3q\\\"uote\\\\back\\lline<b>&ünï.go:4 (2673\\\"B\\\")\" color=\"#b20800\" fillcolor=\"#edd6d5\"]\nN1_0 [label = \"k\\\"ey:v\\\\al\\nk\\\"ey:w\\lx\\nz:<z>\" id=\"N1_0\" fontsize=8 shape=box3d tooltip=\"1000\\\"B\\\"\"]\nN1 -> N1_0 [label=\" 1000\\\"B\\\"\" weight=100 tooltip=\"1000\\\"B\\\"\" labeltooltip=\"1000\\\"B\\\"\"]\nNN1_0_0 [label = \"16\" id=\"NN1_0_0\" fontsize=8 shape=box3d tooltip=\"1000\\\"B\\\"\"]\nN1_0 -> NN1_0_0 [label=\" 1000\\\"B\\\"\" weight=100 tooltip=\"1000\\\"B\\\"\" labeltooltip=\"1000\\\"B\\\"\"]\nN1_1 [label = \"k\\\"ey:other\" id=\"N1_1\" fontsize=8 shape=box3d tooltip=\"700\\\"B\\\"\"]\nN1 -> N1_1 [label=\" 700\\\"B\\\"\" weight=100 tooltip=\"700\\\"B\\\"\" labeltooltip=\"700\\\"B\\\"\"]\nNN1_1_0 [label = \"32\" id=\"NN1_1_0\" fontsize=8 shape=box3d tooltip=\"700\\\"B\\\"\"]\nN1_1 -> NN1_1_0 [label=\" 700\\\"B\\\"\" weight=100 tooltip=\"700\\\"B\\\"\" labeltooltip=\"700\\\"B\\\"\"]\nNN1_1_1 [label = \"64\" id=\"NN1_1_1\" fontsize=8 shape=box3d tooltip=\"700\\\"B\\\"\"]\nN1_1 -> NN1_1_1 [label=\" 700\\\"B\\\"\" weight=100 tooltip=\"700\\\"B\\\"\" labeltooltip=\"700\\\"B\\\"\"]\nNN1_0 [label = \"16B..1kB\" id=\"NN1_0\" fontsize=8 shape=box3d tooltip=\"478\\\"B\\\"\"]\nN1 -> NN1_0 [label=\" 478\\\"B\\\"\" weight=100 tooltip=\"478\\\"B\\\"\" labeltooltip=\"478\\\"B\\\"\"]\nNN1_1 [label = \"64kB\" id=\"NN1_1\" fontsize=8 shape=box3d tooltip=\"178\\\"B\\\"\"]\nN1 -> NN1_1 [label=\" 178\\\"B\\\"\" weight=100 tooltip=\"178\\\"B\\\"\" labeltooltip=\"178\\\"B\\\"\"]\nNN1_2 [label = \"16kB\" id=\"NN1_2\" fontsize=8 shape=box3d tooltip=\"165\\\"B\\\"\"]\nN1 -> NN1_2 [label=\" 165\\\"B\\\"\" weight=100 tooltip=\"165\\\"B\\\"\" labeltooltip=\"165\\\"B\\\"\"]\nNN1_3 [label = \"4kB\" id=\"NN1_3\" fontsize=8 shape=box3d tooltip=\"152\\\"B\\\"\"]\nN1 -> NN1_3 [label=\" 152\\\"B\\\"\" weight=100 tooltip=\"152\\\"B\\\"\" labeltooltip=\"152\\\"B\\\"\"]\nN2 [label=\"0000000000001000\\nmain\\nmain\\nf0q\\\"uote\\\\back\\lline<b>&ünï.go:1\\n17\\\"B\\\" (0.54%)\\nof 3095\\\"B\\\" (99.01%)\" id=\"node2\" fontsize=10 shape=box tooltip=\"0000000000001000 main.main dir/f0q\\\"uote\\\\back\\lline<b>&ünï.go:1 (3095\\\"B\\\")\" color=\"#b20000\" fillcolor=\"#edd5d5\"]\nN3 [label=\"0000000000001020\\npkg\\nGen[…]\\ndo\\nq\\\"uote\\\\back\\lline<b>&ünï\\nf2q\\\"uote\\\\back\\lline<b>&ünï.go:3\\n405\\\"B\\\" (12.96%)\\nof 2078\\\"B\\\" (66.47%)\" id=\"node3\" fontsize=15 shape=box tooltip=\"0000000000001020 pkg.Gen[...].do.q\\\"uote\\\\back\\lline<b>&ünï dir/f2q\\\"uote\\\\back\\lline<b>&ünï.go:3 (2078\\\"B\\\")\" color=\"#b21400\" fillcolor=\"#edd8d5\"]\nN3_0 [label = \"tag5:q\\\"uote\\\\back\\lline<b>&ünï\" id=\"N3_0\" fontsize=8 shape=box3d tooltip=\"85\\\"B\\\"\"]\nN3 -> N3_0 [label=\" 85\\\"B\\\"\" weight=100 tooltip=\"85\\\"B\\\"\" labeltooltip=\"85\\\"B\\\"\"]\nN3_1 [label = \"tag4:q\\\"uote\\\\back\\lline<b>&ünï\" id=\"N3_1\" fontsize=8 shape=box3d tooltip=\"78\\\"B\\\"\"]\nN3 -> N3_1 [label=\" 78\\\"B\\\"\" weight=100 tooltip=\"78\\\"B\\\"\" labeltooltip=\"78\\\"B\\\"\"]\nN3_2 [label = \"tag3:q\\\"uote\\\\back\\lline<b>&ünï\" id=\"N3_2\" fontsize=8 shape=box3d tooltip=\"71\\\"B\\\"\"]\nN3 -> N3_2 [label=\" 71\\\"B\\\"\" weight=100 tooltip=\"71\\\"B\\\"\" labeltooltip=\"71\\\"B\\\"\"]\nN3_3 [label = \"tag2:q\\\"uote\\\\back\\lline<b>&ünï\" id=\"N3_3\" fontsize=8 shape=box3d tooltip=\"64\\\"B\\\"\"]\nN3 -> N3_3 [label=\" 64\\\"B\\\"\" weight=100 tooltip=\"64\\\"B\\\"\" labeltooltip=\"64\\\"B\\\"\"]\nN4 [label=\"0000000000001010\\nOuter\\ninner<T\\nu>\\nf1q\\\"uote\\\\back\\lline<b>&ünï.go:2\\n31\\\"B\\\" (0.99%)\\nof 2004\\\"B\\\" (64.11%)\" id=\"node4\" fontsize=10 shape=box tooltip=\"0000000000001010 ns::Outer::inner<T.u>(\\\"s\\\") dir/f1q\\\"uote\\\\back\\lline<b>&ünï.go:2 (2004\\\"B\\\")\" color=\"#b21600\" fillcolor=\"#edd8d5\"]\nNN4_0 [label = \"5\" id=\"NN4_0\" fontsize=8 shape=box3d tooltip=\"31\\\"B\\\"\"]\nN4 -> NN4_0 [label=\" 31\\\"B\\\"\" weight=100 tooltip=\"31\\\"B\\\"\" labeltooltip=\"31\\\"B\\\"\"]\nN2 -> N4 [label=\" 1973\\\"B\\\"\" weight=64 penwidth=4 color=\"#b21700\" tooltip=\"0000000000001000 main.main dir/f0q\\\"uote\\\\back\\lline<b>&ünï.go:1 -> 0000000000001010 ns::Outer::inner<T.u>(\\\"s\\\") dir/f1q\\\"uote\\\\back\\lline<b>&ünï.go:2 (1973\\\"B\\\")\" labeltooltip=\"0000000000001000 main.main dir/f0q\\\"uote\\\\back\\lline<b>&ünï.go:1 -> 0000000000001010 ns::Outer::inner<T.u>(\\\"s\\\") dir/f1q\\\"uote\\\\back\\lline<b>&ünï.go:2 (1973\\\"B\\\")\"]\nN3 -> N1 [label=\" 1673\\\"B\\\"\" weight=54 penwidth=3 color=\"#b21e00\" tooltip=\"0000000000001020 pkg.Gen[...].do.q\\\"uote\\\\back\\lline<b>&ünï dir/f2q\\\"uote\\\\back\\lline<b>&ünï.go:3 -> 0000000000001030 leaf\\\\n::x dir/f3q\\\"uote\\\\back\\lline<b>&ünï.go:4 (1673\\\"B\\\")\" labeltooltip=\"0000000000001020 pkg.Gen[...].do.q\\\"uote\\\\back\\lline<b>&ünï dir/f2q\\\"uote\\\\back\\lline<b>&ünï.go:3 -> 0000000000001030 leaf\\\\n::x dir/f3q\\\"uote\\\\back\\lline<b>&ünï.go:4 (1673\\\"B\\\")\" minlen=2]\nN2 -> N3 [label=\" 1105\\\"B\\\"\" weight=36 penwidth=2 color=\"#b22f00\" tooltip=\"0000000000001000 main.main dir/f0q\\\"uote\\\\back\\lline<b>&ünï.go:1 -> 0000000000001020 pkg.Gen[...].do.q\\\"uote\\\\back\\lline<b>&ünï dir/f2q\\\"uote\\\\back\\lline<b>&ünï.go:3 (1105\\\"B\\\")\" labeltooltip=\"0000000000001000 main.main dir/f0q\\\"uote\\\\back\\lline<b>&ünï.go:1 -> 0000000000001020 pkg.Gen[...].do.q\\\"uote\\\\back\\lline<b>&ünï dir/f2q\\\"uote\\\\back\\lline<b>&ünï.go:3 (1105\\\"B\\\")\"]\nN4 -> N1 [label=\" 1000\\\"B\\\"\" weight=32 penwidth=2 color=\"#b23300\" tooltip=\"0000000000001010 ns::Outer::inner<T.u>(\\\"s\\\") dir/f1q\\\"uote\\\\back\\lline<b>&ünï.go:2 -> 0000000000001030 leaf\\\\n::x dir/f3q\\\"uote\\\\back\\lline<b>&ünï.go:4 (1000\\\"B\\\")\" labeltooltip=\"0000000000001010 ns::Outer::inner<T.u>(\\\"s\\\") dir/f1q\\\"uote\\\\back\\lline<b>&ünï.go:2 -> 0000000000001030 leaf\\\\n::x dir/f3q\\\"uote\\\\back\\lline<b>&ünï.go:4 (1000\\\"B\\\")\" minlen=2]\nN4 -> N3 [label=\" 973\\\"B\\\"\" weight=32 penwidth=2 color=\"#b23400\" tooltip=\"0000000000001010 ns::Outer::inner<T.u>(\\\"s\\\") dir/f1q\\\"uote\\\\back\\lline<b>&ünï.go:2 -> 0000000000001020 pkg.Gen[...].do.q\\\"uote\\\\back\\lline<b>&ünï dir/f2q\\\"uote\\\\back\\lline<b>&ünï.go:3 (973\\\"B\\\")\" labeltooltip=\"0000000000001010 ns::Outer::inner<T.u>(\\\"s\\\") dir/f1q\\\"uote\\\\back\\lline<b>&ünï.go:2 -> 0000000000001020 pkg.Gen[...].do.q\\\"uote\\\\back\\lline<b>&ünï dir/f2q\\\"uote\\\\back\\lline<b>&ünï.go:3 (973\\\"B\\\")\" minlen=2]\n}\n",
	true:  "digraph \"title q\\\"uote\\\\back\\lline<b>&ünï\" {\nnode [style=filled fillcolor=\"#f8f8f8\"]\nsubgraph cluster_L { \"File: q\\\"uote\\\\back\\lline<b>&ünï\" [shape=box fontsize=16 label=\"File: q\\\"uote\\\\back\\lline<b>&ünï\\lType: alloc\\lq\\\"uote\\\\back\\lline<b>&ünï\\l\" URL=\"http://x/?a=\\\"b\\\"\" target=\"_blank\" tooltip=\"title q\\\"uote\\\\back\\lline<b>&ünï\"] }\nN1 [label=\"0000000000001000\\nmain\\nmain\\nf0q\\\"uote\\\\back\\lline<b>&ünï.go:1\\n17\\\"B\\\" (0.54%)\\nof 3095\\\"B\\\" (99.01%)\" id=\"node1\" fontsize=11 shape=box tooltip=\"0000000000001000 main.main dir/f0q\\\"uote\\\\back\\lline<b>&ünï.go:1 (3095\\\"B\\\")\" color=\"#b20000\" fillcolor=\"#edd5d5\"]\nN2 [label=\"0000000000001030\\nleaf\\\\n\\nx\\nf3q\\\"uote\\\\back\\lline<b>&ünï.go:4\\n1000\\\"B\\\" (31.99%)\" id=\"node2\" fontsize=24 shape=box tooltip=\"0000000000001030 leaf\\\\n::x dir/f3q\\\"uote\\\\back\\lline<b>&ünï.go:4 (1000\\\"B\\\")\" color=\"#b23300\" fillcolor=\"#eddcd5\"]\nN2_0 [label = \"k\\\"ey:v\\\\al\\nk\\\"ey:w\\lx\\nz:<z>\" id=\"N2_0\" fontsize=8 shape=box3d tooltip=\"1000\\\"B\\\"\"]\nN2 -> N2_0 [label=\" 1000\\\"B\\\"\" weight=100 tooltip=\"1000\\\"B\\\"\" labeltooltip=\"1000\\\"B\\\"\"]\nNN2_0_0 [label = \"16\" id=\"NN2_0_0\" fontsize=8 shape=box3d tooltip=\"1000\\\"B\\\"\"]\nN2_0 -> NN2_0_0 [label=\" 1000\\\"B\\\"\" weight=100 tooltip=\"1000\\\"B\\\"\" labeltooltip=\"1000\\\"B\\\"\"]\nN3 [label=\"0000000000001010\\nOuter\\ninner<T\\nu>\\nf1q\\\"uote\\\\back\\lline<b>&ünï.go:2\\n0 of 1973\\\"B\\\" (63.12%)\" id=\"node3\" fontsize=8 shape=box tooltip=\"0000000000001010 ns::Outer::inner<T.u>(\\\"s\\\") dir/f1q\\\"uote\\\\back\\lline<b>&ünï.go:2 (1973\\\"B\\\")\" color=\"#b21700\" fillcolor=\"#edd8d5\"]\nN4 [label=\"0000000000001030\\nleaf\\\\n\\nx\\nf3q\\\"uote\\\\back\\lline<b>&ünï.go:4\\n973\\\"B\\\" (31.13%)\" id=\"node4\" fontsize=24 shape=box tooltip=\"0000000000001030 leaf\\\\n::x dir/f3q\\\"uote\\\\back\\lline<b>&ünï.go:4 (973\\\"B\\\")\" color=\"#b23400\" fillcolor=\"#eddcd5\"]\nNN4_0 [label = \"16B..1kB\" id=\"NN4_0\" fontsize=8 shape=box3d tooltip=\"478\\\"B\\\"\"]\nN4 -> NN4_0 [label=\" 478\\\"B\\\"\" weight=100 tooltip=\"478\\\"B\\\"\" labeltooltip=\"478\\\"B\\\"\"]\nNN4_1 [label = \"64kB\" id=\"NN4_1\" fontsize=8 shape=box3d tooltip=\"178\\\"B\\\"\"]\nN4 -> NN4_1 [label=\" 178\\\"B\\\"\" weight=100 tooltip=\"178\\\"B\\\"\" labeltooltip=\"178\\\"B\\\"\"]\nNN4_2 [label = \"16kB\" id=\"NN4_2\" fontsize=8 shape=box3d tooltip=\"165\\\"B\\\"\"]\nN4 -> NN4_2 [label=\" 165\\\"B\\\"\" weight=100 tooltip=\"165\\\"B\\\"\" labeltooltip=\"165\\\"B\\\"\"]\nNN4_3 [label = \"4kB\" id=\"NN4_3\" fontsize=8 shape=box3d tooltip=\"152\\\"B\\\"\"]\nN4 -> NN4_3 [label=\" 152\\\"B\\\"\" weight=100 tooltip=\"152\\\"B\\\"\" labeltooltip=\"152\\\"B\\\"\"]\nN5 [label=\"0000000000001020\\npkg\\nGen[…]\\ndo\\nq\\\"uote\\\\back\\lline<b>&ünï\\nf2q\\\"uote\\\\back\\lline<b>&ünï.go:3\\n405\\\"B\\\" (12.96%)\\nof 1105\\\"B\\\" (35.35%)\" id=\"node5\" fontsize=19 shape=box tooltip=\"0000000000001020 pkg.Gen[...].do.q\\\"uote\\\\back\\lline<b>&ünï dir/f2q\\\"uote\\\\back\\lline<b>&ünï.go:3 (1105\\\"B\\\")\" color=\"#b22f00\" fillcolor=\"#eddbd5\"]\nN5_0 [label = \"tag5:q\\\"uote\\\\back\\lline<b>&ünï\" id=\"N5_0\" fontsize=8 shape=box3d tooltip=\"85\\\"B\\\"\"]\nN5 -> N5_0 [label=\" 85\\\"B\\\"\" weight=100 tooltip=\"85\\\"B\\\"\" labeltooltip=\"85\\\"B\\\"\"]\nN5_1 [label = \"tag4:q\\\"uote\\\\back\\lline<b>&ünï\" id=\"N5_1\" fontsize=8 shape=box3d tooltip=\"78\\\"B\\\"\"]\nN5 -> N5_1 [label=\" 78\\\"B\\\"\" weight=100 tooltip=\"78\\\"B\\\"\" labeltooltip=\"78\\\"B\\\"\"]\nN5_2 [label = \"tag3:q\\\"uote\\\\back\\lline<b>&ünï\" id=\"N5_2\" fontsize=8 shape=box3d tooltip=\"71\\\"B\\\"\"]\nN5 -> N5_2 [label=\" 71\\\"B\\\"\" weight=100 tooltip=\"71\\\"B\\\"\" labeltooltip=\"71\\\"B\\\"\"]\nN5_3 [label = \"tag2:q\\\"uote\\\\back\\lline<b>&ünï\" id=\"N5_3\" fontsize=8 shape=box3d tooltip=\"64\\\"B\\\"\"]\nN5 -> N5_3 [label=\" 64\\\"B\\\"\" weight=100 tooltip=\"64\\\"B\\\"\" labeltooltip=\"64\\\"B\\\"\"]\nN6 [label=\"0000000000001030\\nleaf\\\\n\\nx\\nf3q\\\"uote\\\\back\\lline<b>&ünï.go:4\\n700\\\"B\\\" (22.39%)\" id=\"node6\" fontsize=22 shape=box tooltip=\"0000000000001030 leaf\\\\n::x dir/f3q\\\"uote\\\\back\\lline<b>&ünï.go:4 (700\\\"B\\\")\" color=\"#b24000\" fillcolor=\"#edded5\"]\nN6_0 [label = \"k\\\"ey:other\" id=\"N6_0\" fontsize=8 shape=box3d tooltip=\"700\\\"B\\\"\"]\nN6 -> N6_0 [label=\" 700\\\"B\\\"\" weight=100 tooltip=\"700\\\"B\\\"\" labeltooltip=\"700\\\"B\\\"\"]\nNN6_0_0 [label = \"32\" id=\"NN6_0_0\" fontsize=8 shape=box3d tooltip=\"700\\\"B\\\"\"]\nN6_0 -> NN6_0_0 [label=\" 700\\\"B\\\"\" weight=100 tooltip=\"700\\\"B\\\"\" labeltooltip=\"700\\\"B\\\"\"]\nNN6_0_1 [label = \"64\" id=\"NN6_0_1\" fontsize=8 shape=box3d tooltip=\"700\\\"B\\\"\"]\nN6_0 -> NN6_0_1 [label=\" 700\\\"B\\\"\" weight=100 tooltip=\"700\\\"B\\\"\" labeltooltip=\"700\\\"B\\\"\"]\nN7 [label=\"0000000000001010\\nOuter\\ninner<T\\nu>\\nf1q\\\"uote\\\\back\\lline<b>&ünï.go:2\\n31\\\"B\\\" (0.99%)\" id=\"node7\" fontsize=11 shape=box tooltip=\"0000000000001010 ns::Outer::inner<T.u>(\\\"s\\\") dir/f1q\\\"uote\\\\back\\lline<b>&ünï.go:2 (31\\\"B\\\")\" color=\"#b2b0a9\" fillcolor=\"#edeceb\"]\nNN7_0 [label = \"5\" id=\"NN7_0\" fontsize=8 shape=box3d tooltip=\"31\\\"B\\\"\"]\nN7 -> NN7_0 [label=\" 31\\\"B\\\"\" weight=100 tooltip=\"31\\\"B\\\"\" labeltooltip=\"31\\\"B\\\"\"]\nN8 [label=\"0000000000001020\\npkg\\nGen[…]\\ndo\\nq\\\"uote\\\\back\\lline<b>&ünï\\nf2q\\\"uote\\\\back\\lline<b>&ünï.go:3\\n0 of 973\\\"B\\\" (31.13%)\" id=\"node8\" fontsize=8 shape=box tooltip=\"0000000000001020 pkg.Gen[...].do.q\\\"uote\\\\back\\lline<b>&ünï dir/f2q\\\"uote\\\\back\\lline<b>&ünï.go:3 (973\\\"B\\\")\" color=\"#b23400\" fillcolor=\"#eddcd5\"]\nN1 -> N3 [label=\" 1973\\\"B\\\"\" weight=64 penwidth=4 color=\"#b21700\" tooltip=\"0000000000001000 main.main dir/f0q\\\"uote\\\\back\\lline<b>&ünï.go:1 -> 0000000000001010 ns::Outer::inner<T.u>(\\\"s\\\") dir/f1q\\\"uote\\\\back\\lline<b>&ünï.go:2 (1973\\\"B\\\")\" labeltooltip=\"0000000000001000 main.main dir/f0q\\\"uote\\\\back\\lline<b>&ünï.go:1 -> 0000000000001010 ns::Outer::inner<T.u>(\\\"s\\\") dir/f1q\\\"uote\\\\back\\lline<b>&ünï.go:2 (1973\\\"B\\\")\"]\nN1 -> N5 [label=\" 1105\\\"B\\\"\" weight=36 penwidth=2 color=\"#b22f00\" tooltip=\"0000000000001000 main.main dir/f0q\\\"uote\\\\back\\lline<b>&ünï.go:1 -> 0000000000001020 pkg.Gen[...].do.q\\\"uote\\\\back\\lline<b>&ünï dir/f2q\\\"uote\\\\back\\lline<b>&ünï.go:3 (1105\\\"B\\\")\" labeltooltip=\"0000000000001000 main.main dir/f0q\\\"uote\\\\back\\lline<b>&ünï.go:1 -> 0000000000001020 pkg.Gen[...].do.q\\\"uote\\\\back\\lline<b>&ünï dir/f2q\\\"uote\\\\back\\lline<b>&ünï.go:3 (1105\\\"B\\\")\"]\nN3 -> N2 [label=\" 1000\\\"B\\\"\" weight=32 penwidth=2 color=\"#b23300\" tooltip=\"0000000000001010 ns::Outer::inner<T.u>(\\\"s\\\") dir/f1q\\\"uote\\\\back\\lline<b>&ünï.go:2 -> 0000000000001030 leaf\\\\n::x dir/f3q\\\"uote\\\\back\\lline<b>&ünï.go:4 (1000\\\"B\\\")\" labeltooltip=\"0000000000001010 ns::Outer::inner<T.u>(\\\"s\\\") dir/f1q\\\"uote\\\\back\\lline<b>&ünï.go:2 -> 0000000000001030 leaf\\\\n::x dir/f3q\\\"uote\\\\back\\lline<b>&ünï.go:4 (1000\\\"B\\\")\"]\nN3 -> N8 [label=\" 973\\\"B\\\"\" weight=32 penwidth=2 color=\"#b23400\" tooltip=\"0000000000001010 ns::Outer::inner<T.u>(\\\"s\\\") dir/f1q\\\"uote\\\\back\\lline<b>&ünï.go:2 -> 0000000000001020 pkg.Gen[...].do.q\\\"uote\\\\back\\lline<b>&ünï dir/f2q\\\"uote\\\\back\\lline<b>&ünï.go:3 (973\\\"B\\\")\" labeltooltip=\"0000000000001010 ns::Outer::inner<T.u>(\\\"s\\\") dir/f1q\\\"uote\\\\back\\lline<b>&ünï.go:2 -> 0000000000001020 pkg.Gen[...].do.q\\\"uote\\\\back\\lline<b>&ünï dir/f2q\\\"uote\\\\back\\lline<b>&ünï.go:3 (973\\\"B\\\")\"]\nN8 -> N4 [label=\" 973\\\"B\\\"\" weight=32 penwidth=2 color=\"#b23400\" tooltip=\"0000000000001020 pkg.Gen[...].do.q\\\"uote\\\\back\\lline<b>&ünï dir/f2q\\\"uote\\\\back\\lline<b>&ünï.go:3 -> 0000000000001030 leaf\\\\n::x dir/f3q\\\"uote\\\\back\\lline<b>&ünï.go:4 (973\\\"B\\\")\" labeltooltip=\"0000000000001020 pkg.Gen[...].do.q\\\"uote\\\\back\\lline<b>&ünï dir/f2q\\\"uote\\\\back\\lline<b>&ünï.go:3 -> 0000000000001030 leaf\\\\n::x dir/f3q\\\"uote\\\\back\\lline<b>&ünï.go:4 (973\\\"B\\\")\"]\nN5 -> N6 [label=\" 700\\\"B\\\"\" weight=23 penwidth=2 color=\"#b24000\" tooltip=\"0000000000001020 pkg.Gen[...].do.q\\\"uote\\\\back\\lline<b>&ünï dir/f2q\\\"uote\\\\back\\lline<b>&ünï.go:3 -> 0000000000001030 leaf\\\\n::x dir/f3q\\\"uote\\\\back\\lline<b>&ünï.go:4 (700\\\"B\\\")\" labeltooltip=\"0000000000001020 pkg.Gen[...].do.q\\\"uote\\\\back\\lline<b>&ünï dir/f2q\\\"uote\\\\back\\lline<b>&ünï.go:3 -> 0000000000001030 leaf\\\\n::x dir/f3q\\\"uote\\\\back\\lline<b>&ünï.go:4 (700\\\"B\\\")\" minlen=2]\n}\n",
}
