package driver

import (
	"fmt"
	"net/http"
	"net/http/httptest"
	"os"
	"path/filepath"
	"reflect"
	"testing"

	"github.com/google/pprof/internal/plugin"
)

// zzRecUI records what is printed as an error.
type zzRecUI struct {
	plugin.UI
	errs []string
}

func (u *zzRecUI) PrintErr(args ...interface{}) { u.errs = append(u.errs, fmt.Sprint(args...)) }

func TestZZEquivCHandlers(t *testing.T) {
	dir := t.TempDir()
	rec := &zzRecUI{}
	ui := &webInterface{
		options:      &plugin.Options{UI: rec},
		help:         map[string]string{},
		settingsFile: filepath.Join(dir, "cfg", "settings.json"),
	}
	handlers := map[string]http.HandlerFunc{
		"/saveconfig":   ui.saveConfig,
		"/deleteconfig": ui.deleteConfig,
		"/top": func(w http.ResponseWriter, req *http.Request) {
			if rpt, errs := ui.makeReport(w, req, []string{"top"}, nil); rpt != nil || errs != nil {
				t.Errorf("makeReport returned a report for a bad URL")
			}
		},
	}
	type snap struct {
		name, focus, hide, sort string
		n                       int
		trim                    bool
	}
	steps := []struct {
		method, target string
		code           int
		body           string
		printed        string
		want           []snap
	}{
		{"POST", "/saveconfig?config=one&f=foo&n=30", 200, "", "", []snap{{"one", "foo", "", "flat", 30, true}}},
		{"GET", "/saveconfig?config=two&h=bar&sort=cum&trim=f", 200, "", "", []snap{{"one", "foo", "", "flat", 30, true}, {"two", "", "bar", "cum", -1, false}}},
		{"POST", "/saveconfig?f=nameless", 400, "invalid config name\n", "invalid config name", nil},
		{"POST", "/saveconfig?config=three&sort=sideways", 400, "error setting config field sort: invalid \"sort\" value \"sideways\"\n", `error setting config field sort: invalid "sort" value "sideways"`, nil},
		{"POST", "/deleteconfig?config=zero", 400, "config zero not found\n", "config zero not found", nil},
		{"POST", "/deleteconfig", 400, "config  not found\n", "config  not found", nil},
		{"GET", "/top?n=many", 400, "error setting config field nodecount: strconv.Atoi: parsing \"many\": invalid syntax\n", `error setting config field nodecount: strconv.Atoi: parsing "many": invalid syntax`, nil},
		{"POST", "/saveconfig?config=one&f=&h=new&n=", 200, "", "", []snap{{"one", "", "new", "flat", -1, true}, {"two", "", "bar", "cum", -1, false}}},
		{"POST", "/deleteconfig?config=one&f=ignored", 200, "", "", []snap{{"two", "", "bar", "cum", -1, false}}},
		{"POST", "/deleteconfig?config=one", 400, "config one not found\n", "config one not found", nil},
		{"POST", "/deleteconfig?config=two", 200, "", "", []snap{}},
	}
	var prev []snap
	for i, st := range steps {
		rec.errs = nil
		req := httptest.NewRequest(st.method, "http://localhost"+st.target, nil)
		w := httptest.NewRecorder()
		handlers[req.URL.Path](w, req)
		if w.Code != st.code || w.Body.String() != st.body {
			t.Fatalf("step %d %s: got %d %q, want %d %q", i, st.target, w.Code, w.Body.String(), st.code, st.body)
		}
		if st.code == 400 {
			if ct := w.Header().Get("Content-Type"); ct != "text/plain; charset=utf-8" {
				t.Errorf("step %d: content type %q", i, ct)
			}
			if !reflect.DeepEqual(rec.errs, []string{st.printed}) {
				t.Errorf("step %d: printed %q, want [%q]", i, rec.errs, st.printed)
			}
		} else if len(rec.errs) != 0 {
			t.Errorf("step %d: printed %q, want nothing", i, rec.errs)
		}
		want := st.want
		if want == nil {
			want = prev // failed requests leave the saved configs alone
		}
		s, err := readSettings(ui.settingsFile)
		if err != nil {
			t.Fatalf("step %d: %v", i, err)
		}
		got := []snap{}
		for _, c := range s.Configs {
			got = append(got, snap{c.Name, c.Focus, c.Hide, c.Sort, c.NodeCount, c.Trim})
		}
		if len(want) == 0 {
			want = []snap{}
		}
		if !reflect.DeepEqual(got, want) {
			t.Fatalf("step %d %s: settings = %+v, want %+v", i, st.target, got, want)
		}
		prev = want
	}
	final, err := os.ReadFile(ui.settingsFile)
	if err != nil || string(final) != "{\n  \"configs\": []\n}" {
		t.Errorf("final file = %q, %v", final, err)
	}
}
