package measurement

import (
	"fmt"
	"math"
	"os"
	"strings"
	"testing"

	"github.com/google/pprof/profile"
)

type zzProfSpec struct {
	periodType, periodUnit string
	period                 int64
	types                  [][2]string // type, unit
	samples                [][]int64
}

func zzBuild(specs []zzProfSpec, shareTypes bool) []*profile.Profile {
	var out []*profile.Profile
	var shared []*profile.ValueType
	for _, sp := range specs {
		p := &profile.Profile{Period: sp.period}
		if sp.periodType != "" {
			p.PeriodType = &profile.ValueType{Type: sp.periodType, Unit: sp.periodUnit}
		}
		if shareTypes && shared != nil {
			p.SampleType = shared
		} else {
			for _, t := range sp.types {
				p.SampleType = append(p.SampleType, &profile.ValueType{Type: t[0], Unit: t[1]})
			}
			shared = p.SampleType
		}
		for _, vs := range sp.samples {
			p.Sample = append(p.Sample, &profile.Sample{Value: append([]int64(nil), vs...)})
		}
		out = append(out, p)
	}
	return out
}

func zzDump(ps []*profile.Profile, err error) string {
	var b strings.Builder
	if err != nil {
		fmt.Fprintf(&b, "ERR %v;", err)
	}
	for i, p := range ps {
		fmt.Fprintf(&b, "P%d period=%d", i, p.Period)
		if p.PeriodType != nil {
			fmt.Fprintf(&b, " %s/%s", p.PeriodType.Type, p.PeriodType.Unit)
		}
		for _, st := range p.SampleType {
			fmt.Fprintf(&b, " [%s/%s]", st.Type, st.Unit)
		}
		for _, s := range p.Sample {
			fmt.Fprintf(&b, " %v", s.Value)
		}
		b.WriteString(";")
	}
	return b.String()
}

func TestZZEquivScaleProfiles(t *testing.T) {
	cases := []struct {
		name   string
		specs  []zzProfSpec
		shared bool
		want   string
	}{
		{
			name: "bytes-kb-ns-ms",
			specs: []zzProfSpec{
				{"cpu", "nanoseconds", 10000000, [][2]string{{"alloc_space", "bytes"}, {"cpu", "nanoseconds"}}, [][]int64{{1023, 999999}, {-4096, 1}, {0, 0}}},
				{"cpu", "milliseconds", 10, [][2]string{{"alloc_space", "kilobytes"}, {"cpu", "milliseconds"}}, [][]int64{{3, 7}, {-1, -2}, {1 << 40, 1 << 30}}},
			},
			want: "P0 period=10000000 cpu/nanoseconds [alloc_space/bytes] [cpu/nanoseconds] [1023 999999] [-4096 1] [0 0];P1 period=10000000 cpu/nanoseconds [alloc_space/bytes] [cpu/nanoseconds] [3072 7000000] [-1024 -2000000] [1125899906842624 1073741824000000];",
		},
		{
			name: "aliases-and-case",
			specs: []zzProfSpec{
				{"", "", 0, [][2]string{{"space", "MB"}, {"time", "hrs"}, {"objects", "count"}}, [][]int64{{5, 2, 11}, {-7, 1, 3}}},
				{"", "", 0, [][2]string{{"space", "megabytes"}, {"time", "Seconds"}, {"object", "count"}}, [][]int64{{9, 3601, 1}}},
				{"", "", 0, [][2]string{{"spaces", "Kb"}, {"times", "us"}, {"objects", "count"}}, [][]int64{{2047, 1500000, 4}, {1, 1, 1}}},
			},
			want: "P0 period=0 [space/Kb] [time/us] [objects/count] [5120 7200000000 11] [-7168 3600000000 3];P1 period=0 [space/Kb] [time/us] [object/count] [9216 3601000000 1];P2 period=0 [spaces/Kb] [times/us] [objects/count] [2047 1500000 4] [1 1 1];",
		},
		{
			name: "shared-valuetype-pointers",
			specs: []zzProfSpec{
				{"t", "s", 3, [][2]string{{"a", "gb"}, {"b", "ms"}}, [][]int64{{2, 5}}},
				{"t", "ms", 3000, nil, [][]int64{{4, 6}}},
				{"t", "μs", 7, nil, [][]int64{{8, 9}}},
			},
			shared: true,
			want:   "P0 period=3000000 t/μs [a/gb] [b/ms] [2 5];P1 period=3000000 t/μs [a/gb] [b/ms] [4 6];P2 period=7 t/μs [a/gb] [b/ms] [8 9];",
		},
		{
			name: "cross-family-error",
			specs: []zzProfSpec{
				{"", "", 0, [][2]string{{"x", "bytes"}}, [][]int64{{1}}},
				{"", "", 0, [][2]string{{"x", "seconds"}}, [][]int64{{1}}},
			},
			want: "ERR sample types: incompatible types: {x bytes 0 0} {x seconds 0 0};P0 period=0 [x/bytes] [1];P1 period=0 [x/seconds] [1];",
		},
		{
			name: "unknown-units",
			specs: []zzProfSpec{
				{"w", "widgets", 5, [][2]string{{"x", "widgets"}, {"y", "mb"}}, [][]int64{{10, 3}}},
				{"w", "widgets", 6, [][2]string{{"x", "widgets"}, {"y", "bytes"}}, [][]int64{{20, 1 << 21}}},
			},
			want: "P0 period=5 w/widgets [x/widgets] [y/bytes] [10 3145728];P1 period=6 w/widgets [x/widgets] [y/bytes] [20 2097152];",
		},
		{
			name: "unknown-vs-other-unknown-error",
			specs: []zzProfSpec{
				{"", "", 0, [][2]string{{"x", "widgets"}}, [][]int64{{10}}},
				{"", "", 0, [][2]string{{"x", "gadgets"}}, [][]int64{{20}}},
			},
			want: "ERR sample types: incompatible types: {x widgets 0 0} {x gadgets 0 0};P0 period=0 [x/widgets] [10];P1 period=0 [x/gadgets] [20];",
		},
		{
			name: "count-mismatch",
			specs: []zzProfSpec{
				{"", "", 0, [][2]string{{"x", "bytes"}}, [][]int64{{1}}},
				{"", "", 0, [][2]string{{"x", "bytes"}, {"y", "ns"}}, [][]int64{{1, 2}}},
			},
			want: "ERR inconsistent samples type count: 1 != 2;P0 period=0 [x/bytes] [1];P1 period=0 [x/bytes] [y/ns] [1 2];",
		},
		{
			name: "gcu-and-extremes",
			specs: []zzProfSpec{
				{"g", "GCU", 1, [][2]string{{"g", "kilogcu"}, {"m", "petabytes"}}, [][]int64{{3, 1}, {-3, -2}}},
				{"g", "milligcu", 1500, [][2]string{{"g", "milligcus"}, {"m", "TB"}}, [][]int64{{math.MaxInt64 / 4, 5}, {math.MinInt64 / 4, 2048}}},
				{"g", "nanogcu", 17, [][2]string{{"g", "GCU"}, {"m", "tbyte"}}, [][]int64{{12, 1}}},
			},
			want: "P0 period=999999999 g/nanogcu [g/milligcus] [m/TB] [3000000 1024] [-3000000 -2048];P1 period=1500000000 g/nanogcu [g/milligcus] [m/TB] [2305843009213693951 5] [-2305843009213693952 2048];P2 period=17 g/nanogcu [g/milligcus] [m/TB] [12000 1];",
		},
		{
			name: "single-profile",
			specs: []zzProfSpec{
				{"cpu", "ms", 10, [][2]string{{"x", "kb"}}, [][]int64{{42}}},
			},
			want: "P0 period=10 cpu/ms [x/kb] [42];",
		},
		{
			name: "period-type-mismatch",
			specs: []zzProfSpec{
				{"cpu", "ms", 10, [][2]string{{"x", "kb"}}, [][]int64{{42}}},
				{"space", "bytes", 10, [][2]string{{"x", "kb"}}, [][]int64{{42}}},
			},
			want: "ERR period type: incompatible types: {cpu ms 0 0} {space bytes 0 0};P0 period=10 cpu/ms [x/kb] [42];P1 period=10 space/bytes [x/kb] [42];",
		},
	}
	for _, tc := range cases {
		ps := zzBuild(tc.specs, tc.shared)
		err := ScaleProfiles(ps)
		got := zzDump(ps, err)
		if os.Getenv("ZZ_PRINT") != "" {
			fmt.Printf("GOLD %q\n", got)
			continue
		}
		if got != tc.want {
			t.Errorf("%s:\n got %s\nwant %s", tc.name, got, tc.want)
		}
	}
}
