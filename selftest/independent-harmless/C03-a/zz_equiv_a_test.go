package profile

import (
	"crypto/sha256"
	"fmt"
	"os"
	"testing"
)

// Equivalence demonstration for change A (Location.key built with an append
// buffer instead of strings.Join over a []string).
//
// Part 1 pins the exact locationKey values (the internal map key) for a set of
// hand-built locations covering: no lines, a nil Function, function id 0,
// negative line / column, multiple inlined lines, a mapping with a non-zero
// start, the folded flag.
//
// Part 2 merges profiles whose locations differ pairwise in exactly one
// attribute and pins the textual dump of the result.
//
// All expected values were computed on the unchanged tree.

func zzaFn(id uint64, name string) *Function {
	return &Function{ID: id, Name: name, SystemName: "s" + name, Filename: name + ".go", StartLine: int64(id)}
}

func TestZZEquivALocationKey(t *testing.T) {
	m := &Mapping{ID: 7, Start: 0x1000, Limit: 0x5000, File: "bin"}
	f0 := zzaFn(0, "zero")
	f1 := zzaFn(1, "one")
	f255 := zzaFn(255, "ff")
	fbig := zzaFn(0xfedcba9876543210, "big")

	tests := []struct {
		name string
		loc  *Location
		want locationKey
	}{
		{"no-lines-no-mapping", &Location{ID: 1, Address: 0x42}, locationKey{addr: 0x42}},
		{"no-lines-mapping", &Location{ID: 1, Mapping: m, Address: 0x1042}, locationKey{addr: 0x42, mappingID: 7}},
		{"folded", &Location{ID: 1, Mapping: m, Address: 0x1042, IsFolded: true}, locationKey{addr: 0x42, mappingID: 7, isFolded: true}},
		{"addr-below-start-wraps", &Location{ID: 1, Mapping: m, Address: 0x10}, locationKey{addr: 0xfffffffffffff010, mappingID: 7}},
		{"nil-function", &Location{ID: 1, Line: []Line{{Line: 10, Column: 3}}}, locationKey{lines: "|a|3"}},
		{"function-id-0", &Location{ID: 1, Line: []Line{{Function: f0, Line: 10, Column: 3}}}, locationKey{lines: "0|a|3"}},
		{"one-line", &Location{ID: 1, Line: []Line{{Function: f255, Line: 255, Column: 16}}}, locationKey{lines: "ff|ff|10"}},
		{"negative", &Location{ID: 1, Line: []Line{{Function: f1, Line: -31, Column: -1}}}, locationKey{lines: "1|-1f|-1"}},
		{"zero-line-col", &Location{ID: 1, Line: []Line{{Function: f1}}}, locationKey{lines: "1|0|0"}},
		{"big-id", &Location{ID: 1, Line: []Line{{Function: fbig, Line: 0x7fffffffffffffff, Column: -0x8000000000000000}}},
			locationKey{lines: "fedcba9876543210|7fffffffffffffff|-8000000000000000"}},
		{"inlined-3", &Location{ID: 1, Mapping: m, Address: 0x2000, Line: []Line{
			{Function: f1, Line: 1, Column: 2}, {Line: 3}, {Function: f255, Line: 4, Column: 5}}},
			locationKey{addr: 0x1000, mappingID: 7, lines: "1|1|2||3|0|ff|4|5"}},
		{"inlined-all-nil", &Location{ID: 1, Line: []Line{{}, {}}}, locationKey{lines: "|0|0||0|0"}},
	}
	for _, tc := range tests {
		if got := tc.loc.key(); got != tc.want {
			t.Errorf("%s: key() = %#v, want %#v", tc.name, got, tc.want)
		}
	}
}

// zzaProfile builds a profile whose locations are near-duplicates of a base
// location: each differs from the base in exactly one attribute.
func zzaProfile(idBase uint64, mapStart uint64, scale int64) *Profile {
	m := &Mapping{ID: idBase + 1, Start: mapStart, Limit: mapStart + 0x4000, File: "bin", BuildID: "bid", HasFunctions: true}
	m2 := &Mapping{ID: idBase + 2, Start: mapStart + 0x10000, Limit: mapStart + 0x14000, File: "lib", BuildID: "lib-bid"}
	fa := &Function{ID: idBase + 1, Name: "a", SystemName: "sa", Filename: "a.go", StartLine: 1}
	fb := &Function{ID: idBase + 2, Name: "b", SystemName: "sb", Filename: "b.go", StartLine: 2}
	fa2 := &Function{ID: idBase + 3, Name: "a", SystemName: "sa", Filename: "a.go", StartLine: 9} // differs in start line only
	base := func() Location {
		return Location{Mapping: m, Address: mapStart + 0x100, Line: []Line{{Function: fa, Line: 10, Column: 1}, {Function: fb, Line: 20, Column: 2}}}
	}
	variants := []func(l *Location){
		func(l *Location) {},
		func(l *Location) { l.Address++ },
		func(l *Location) { l.IsFolded = true },
		func(l *Location) { l.Mapping = m2; l.Address = m2.Start + 0x100 },
		func(l *Location) { l.Mapping = nil },
		func(l *Location) { l.Line[0].Line = 11 },
		func(l *Location) { l.Line[1].Column = 3 },
		func(l *Location) { l.Line[0].Function = fa2 },
		func(l *Location) { l.Line[0].Column = 0 },
		func(l *Location) { l.Line = l.Line[:1] },
		func(l *Location) { l.Line = []Line{l.Line[1], l.Line[0]} },
		func(l *Location) { l.Line = nil },
		func(l *Location) {}, // exact duplicate of the base under another id
	}
	p := &Profile{
		SampleType: []*ValueType{{Type: "samples", Unit: "count"}, {Type: "cpu", Unit: "ns"}},
		PeriodType: &ValueType{Type: "cpu", Unit: "ns"},
		Period:     1,
		Mapping:    []*Mapping{m, m2},
		Function:   []*Function{fa, fb, fa2},
	}
	for i, v := range variants {
		l := base()
		v(&l)
		l.ID = idBase + uint64(i) + 1
		loc := l
		p.Location = append(p.Location, &loc)
		p.Sample = append(p.Sample, &Sample{
			Location: []*Location{&loc},
			Value:    []int64{scale * int64(i+1), scale * 100 * int64(i+1)},
		})
	}
	// A two-frame stack using the base and its exact duplicate.
	p.Sample = append(p.Sample, &Sample{
		Location: []*Location{p.Location[0], p.Location[len(p.Location)-1]},
		Value:    []int64{scale * 7, scale * 700},
	})
	return p
}

const zzaWantMerged = "76bffedbb48f5103dd02d7b63b2f74ac948589e551768fe447f89f765c260db3"

func TestZZEquivAMergeNearDuplicates(t *testing.T) {
	p1 := zzaProfile(0, 0x400000, 1)
	p2 := zzaProfile(50, 0x7f0000, 3) // same binary at another address, other ids
	p3 := zzaProfile(0, 0x400000, -1) // cancels p1
	for _, p := range []*Profile{p1, p2, p3} {
		if err := p.CheckValid(); err != nil {
			t.Fatalf("input invalid: %v", err)
		}
	}
	var dump string
	for _, in := range [][]*Profile{{p1}, {p1, p2}, {p2, p1}, {p1, p2, p3}, {p3, p2, p1, p2}} {
		got, err := Merge(in)
		if err != nil {
			t.Fatalf("Merge: %v", err)
		}
		if err := got.CheckValid(); err != nil {
			t.Fatalf("merged invalid: %v", err)
		}
		dump += got.String() + "\n=====\n"
	}
	if os.Getenv("ZZ_DUMP") != "" {
		fmt.Println(dump)
	}
	if got := fmt.Sprintf("%x", sha256.Sum256([]byte(dump))); got != zzaWantMerged {
		t.Errorf("merged dump sha256 = %s, want %s", got, zzaWantMerged)
	}
}
