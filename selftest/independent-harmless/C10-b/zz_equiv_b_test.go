package driver

import (
	"crypto/sha256"
	"fmt"
	"io"
	"net/http"
	"net/http/httptest"
	"os"
	"regexp"
	"strings"
	"sync"
	"testing"

	"github.com/google/pprof/internal/plugin"
	"github.com/google/pprof/internal/proftest"
)

// zzBUI swallows messages (errors are expected for some requests).
type zzBUI struct{ proftest.TestUI }

func (*zzBUI) Print(args ...interface{})    {}
func (*zzBUI) PrintErr(args ...interface{}) {}

func zzBCheck(t *testing.T, name, got, want string) {
	t.Helper()
	if os.Getenv("ZZ_PRINT") != "" {
		fmt.Printf("=== %s ===\n%s=== end ===\n", name, got)
		return
	}
	if got != want {
		t.Errorf("%s: transcript differs from the one recorded on the unchanged tree\n--- got ---\n%s--- want ---\n%s", name, got, want)
	}
}

// TestZZEquivBConfigure drives a history of option assignments (valid,
// invalid, multi-choice) and records the error and the whole persistent
// config after every step.
func TestZZEquivBConfigure(t *testing.T) {
	saved := currentConfig()
	defer setCurrentConfig(saved)
	setCurrentConfig(defaultConfig())

	steps := [][2]string{
		{"focus", "main"},
		{"nodecount", "25"},
		{"nodecount", "abc"},
		{"nodefraction", "0.25"},
		{"nodefraction", "x"},
		{"cum", "1"},
		{"flat", "0"},
		{"flat", "maybe"},
		{"flat", "T"},
		{"sort", "this"},
		{"sort", "cum"},
		{"lines", "true"},
		{"granularity", "bogus"},
		{"granularity", "files"},
		{"addresses", "false"},
		{"addresses", "t"},
		{"bogus", "1"},
		{"", ""},
		{"call_tree", "yes"},
		{"call_tree", "perhaps"},
		{"trim", "n"},
		{"divide_by", "2.5"},
		{"output", "x.out"},
		{"sample_index", "cpu"},
		{"focus", ""},
		{"tagroot", "a,b"},
		{"Focus", "x"},
	}
	var sb strings.Builder
	for _, s := range steps {
		err := configure(s[0], s[1])
		fmt.Fprintf(&sb, "%s=%q err=%v\n   %+v\n", s[0], s[1], err, currentConfig())
	}
	// Command-line arguments never persist, whatever was assigned before.
	before := currentConfig()
	_, cfg, err := parseCommandLine([]string{"top", "7", "foo", "-bar", ">f", "-cum"})
	fmt.Fprintf(&sb, "parse err=%v\n   %+v\n", err, cfg)
	if currentConfig() != before {
		t.Errorf("command line arguments persisted")
	}
	zzBCheck(t, "configure", sb.String(), zzBWantConfigure)
}

// TestZZEquivBConcurrent hammers configure/currentConfig/setCurrentConfig
// from several goroutines; each goroutine owns one field so the final state
// is deterministic, and every snapshot read must be one of the legal values.
func TestZZEquivBConcurrent(t *testing.T) {
	saved := currentConfig()
	defer setCurrentConfig(saved)
	setCurrentConfig(defaultConfig())

	fields := []string{"focus", "ignore", "hide", "show", "tagfocus", "tagignore"}
	var wg sync.WaitGroup
	for gi, f := range fields {
		wg.Add(1)
		go func(gi int, f string) {
			defer wg.Done()
			for i := 0; i <= 200; i++ {
				if err := configure(f, fmt.Sprintf("%s-%d", f, i)); err != nil {
					t.Error(err)
				}
				if i%3 == 0 {
					configure("nodecount", "not-a-number") // must fail and change nothing
				}
				if gi == 0 {
					configure("cum", "true")
				} else if gi == 1 {
					configure("cum", "false") // no-op with an error
				}
			}
		}(gi, f)
	}
	stop := make(chan struct{})
	var rg sync.WaitGroup
	for r := 0; r < 3; r++ {
		rg.Add(1)
		go func() {
			defer rg.Done()
			rx := regexp.MustCompile(`^(|focus-\d+)$`)
			for {
				select {
				case <-stop:
					return
				default:
				}
				c := currentConfig()
				if !rx.MatchString(c.Focus) || c.NodeCount != -1 || (c.Sort != "flat" && c.Sort != "cum") {
					t.Errorf("torn or illegal snapshot: %+v", c)
					return
				}
			}
		}()
	}
	wg.Wait()
	close(stop)
	rg.Wait()
	got := fmt.Sprintf("%+v\n", currentConfig())
	zzBCheck(t, "concurrent", got, zzBWantConcurrent)
}

var zzBItemRE = regexp.MustCompile(`\{"Name":"([^"]*)","InlineLabel":"[^"]*","Flat":(-?\d+),"Cum":(-?\d+)`)
var zzBFilterRE = regexp.MustCompile(`(focus|ignore|hide|show|tagfocus)=[A-Za-z0-9]+`)

func zzBFetch(t *testing.T, url string) string {
	res, err := http.Get(url)
	if err != nil {
		t.Fatal(err)
	}
	defer res.Body.Close()
	data, err := io.ReadAll(res.Body)
	if err != nil {
		t.Fatal(err)
	}
	var items []string
	for _, m := range zzBItemRE.FindAllStringSubmatch(string(data), -1) {
		items = append(items, m[1]+":"+m[2]+"/"+m[3])
	}
	filters := map[string]bool{}
	var fl []string
	for _, m := range zzBFilterRE.FindAllString(string(data), -1) {
		if !filters[m] {
			filters[m] = true
			fl = append(fl, m)
		}
	}
	return fmt.Sprintf("%d len=%d sha=%x items=%v filters=%v", res.StatusCode, len(data), sha256.Sum256(data), items, fl)
}

// TestZZEquivBWeb runs a history of web requests interleaved with option
// assignments: URL parameters apply to one request only, assignments persist,
// and concurrent mixed requests see the same bytes as sequential ones.
func TestZZEquivBWeb(t *testing.T) {
	t.Setenv("HOME", t.TempDir())
	t.Setenv("XDG_CONFIG_HOME", t.TempDir())
	saved := currentConfig()
	defer setCurrentConfig(saved)
	setCurrentConfig(defaultConfig())
	savedMode := interactiveMode
	defer func() { interactiveMode = savedMode }()

	var server *httptest.Server
	created := make(chan bool)
	creator := func(a *plugin.HTTPServerArgs) error {
		server = httptest.NewServer(http.HandlerFunc(func(w http.ResponseWriter, r *http.Request) {
			if h := a.Handlers[r.URL.Path]; h != nil {
				h.ServeHTTP(w, r)
			}
		}))
		created <- true
		return nil
	}
	ui := &zzBUI{}
	ui.T = t
	go serveWebInterface("unused:1234", makeFakeProfile(), &plugin.Options{
		Obj: fakeObjTool{}, UI: ui, HTTPServer: creator,
	}, false)
	<-created
	defer server.Close()

	var sb strings.Builder
	seq := map[string]string{}
	get := func(path string) string {
		r := zzBFetch(t, server.URL+path)
		fmt.Fprintf(&sb, "GET %s -> %s\n", path, r)
		return r
	}
	set := func(n, v string) {
		fmt.Fprintf(&sb, "SET %s=%q err=%v\n", n, v, configure(n, v))
	}
	first := get("/top")
	get("/top?f=F3")
	if r := get("/top"); r != first {
		t.Errorf("focus of the previous request leaked:\n%s\n%s", first, r)
	}
	get("/flamegraph?i=F3")
	get("/top?n=abc")
	get("/peek?f=F2")
	get("/source?f=F1")
	if r := get("/top"); r != first {
		t.Errorf("an earlier request leaked:\n%s\n%s", first, r)
	}
	set("focus", "F3")
	focused := get("/top")
	if focused == first {
		t.Errorf("option assignment did not persist")
	}
	get("/top?f=F1&i=F3")
	if r := get("/top"); r != focused {
		t.Errorf("assignment should persist until changed:\n%s\n%s", focused, r)
	}
	set("cum", "true")
	get("/top")
	set("sort", "nope")
	get("/top")
	set("focus", "")
	set("flat", "1")
	if r := get("/top"); r != first {
		t.Errorf("after undoing the assignments /top should be back to the first answer:\n%s\n%s", first, r)
	}

	// Concurrent mix: every response must equal the sequential one.
	paths := []string{"/top", "/top?f=F3", "/top?i=F3", "/top?h=F2", "/flamegraph", "/flamegraph?f=F3", "/peek?f=F2", "/top?sort=cum"}
	for _, p := range paths {
		seq[p] = zzBFetch(t, server.URL+p)
		fmt.Fprintf(&sb, "SEQ %s -> %s\n", p, seq[p])
	}
	var wg sync.WaitGroup
	for round := 0; round < 4; round++ {
		for _, p := range paths {
			wg.Add(1)
			go func(p string) {
				defer wg.Done()
				if r := zzBFetch(t, server.URL+p); r != seq[p] {
					t.Errorf("concurrent %s differs from sequential:\n%s\n%s", p, seq[p], r)
				}
			}(p)
		}
	}
	wg.Wait()
	zzBCheck(t, "web", sb.String(), zzBWantWeb)
}

const zzBWantConfigure = `focus="main" err=<nil>
   {Output: CallTree:false RelativePercentages:false Unit:minimum CompactLabels:false SourcePath: TrimPath: IntelSyntax:false Mean:false SampleIndex: DivideBy:1 Normalize:false Sort:flat TagRoot: TagLeaf: DropNegative:false NodeCount:-1 NodeFraction:0.005 EdgeFraction:0.001 Trim:true Focus:main Ignore: PruneFrom: Hide: Show: ShowFrom: TagFocus: TagIgnore: TagShow: TagHide: NoInlines:false ShowColumns:false Granularity:}
nodecount="25" err=<nil>
   {Output: CallTree:false RelativePercentages:false Unit:minimum CompactLabels:false SourcePath: TrimPath: IntelSyntax:false Mean:false SampleIndex: DivideBy:1 Normalize:false Sort:flat TagRoot: TagLeaf: DropNegative:false NodeCount:25 NodeFraction:0.005 EdgeFraction:0.001 Trim:true Focus:main Ignore: PruneFrom: Hide: Show: ShowFrom: TagFocus: TagIgnore: TagShow: TagHide: NoInlines:false ShowColumns:false Granularity:}
nodecount="abc" err=strconv.Atoi: parsing "abc": invalid syntax
   {Output: CallTree:false RelativePercentages:false Unit:minimum CompactLabels:false SourcePath: TrimPath: IntelSyntax:false Mean:false SampleIndex: DivideBy:1 Normalize:false Sort:flat TagRoot: TagLeaf: DropNegative:false NodeCount:25 NodeFraction:0.005 EdgeFraction:0.001 Trim:true Focus:main Ignore: PruneFrom: Hide: Show: ShowFrom: TagFocus: TagIgnore: TagShow: TagHide: NoInlines:false ShowColumns:false Granularity:}
nodefraction="0.25" err=<nil>
   {Output: CallTree:false RelativePercentages:false Unit:minimum CompactLabels:false SourcePath: TrimPath: IntelSyntax:false Mean:false SampleIndex: DivideBy:1 Normalize:false Sort:flat TagRoot: TagLeaf: DropNegative:false NodeCount:25 NodeFraction:0.25 EdgeFraction:0.001 Trim:true Focus:main Ignore: PruneFrom: Hide: Show: ShowFrom: TagFocus: TagIgnore: TagShow: TagHide: NoInlines:false ShowColumns:false Granularity:}
nodefraction="x" err=strconv.ParseFloat: parsing "x": invalid syntax
   {Output: CallTree:false RelativePercentages:false Unit:minimum CompactLabels:false SourcePath: TrimPath: IntelSyntax:false Mean:false SampleIndex: DivideBy:1 Normalize:false Sort:flat TagRoot: TagLeaf: DropNegative:false NodeCount:25 NodeFraction:0.25 EdgeFraction:0.001 Trim:true Focus:main Ignore: PruneFrom: Hide: Show: ShowFrom: TagFocus: TagIgnore: TagShow: TagHide: NoInlines:false ShowColumns:false Granularity:}
cum="1" err=<nil>
   {Output: CallTree:false RelativePercentages:false Unit:minimum CompactLabels:false SourcePath: TrimPath: IntelSyntax:false Mean:false SampleIndex: DivideBy:1 Normalize:false Sort:cum TagRoot: TagLeaf: DropNegative:false NodeCount:25 NodeFraction:0.25 EdgeFraction:0.001 Trim:true Focus:main Ignore: PruneFrom: Hide: Show: ShowFrom: TagFocus: TagIgnore: TagShow: TagHide: NoInlines:false ShowColumns:false Granularity:}
flat="0" err=unknown config field "flat"
   {Output: CallTree:false RelativePercentages:false Unit:minimum CompactLabels:false SourcePath: TrimPath: IntelSyntax:false Mean:false SampleIndex: DivideBy:1 Normalize:false Sort:cum TagRoot: TagLeaf: DropNegative:false NodeCount:25 NodeFraction:0.25 EdgeFraction:0.001 Trim:true Focus:main Ignore: PruneFrom: Hide: Show: ShowFrom: TagFocus: TagIgnore: TagShow: TagHide: NoInlines:false ShowColumns:false Granularity:}
flat="maybe" err=unknown config field "flat"
   {Output: CallTree:false RelativePercentages:false Unit:minimum CompactLabels:false SourcePath: TrimPath: IntelSyntax:false Mean:false SampleIndex: DivideBy:1 Normalize:false Sort:cum TagRoot: TagLeaf: DropNegative:false NodeCount:25 NodeFraction:0.25 EdgeFraction:0.001 Trim:true Focus:main Ignore: PruneFrom: Hide: Show: ShowFrom: TagFocus: TagIgnore: TagShow: TagHide: NoInlines:false ShowColumns:false Granularity:}
flat="T" err=<nil>
   {Output: CallTree:false RelativePercentages:false Unit:minimum CompactLabels:false SourcePath: TrimPath: IntelSyntax:false Mean:false SampleIndex: DivideBy:1 Normalize:false Sort:flat TagRoot: TagLeaf: DropNegative:false NodeCount:25 NodeFraction:0.25 EdgeFraction:0.001 Trim:true Focus:main Ignore: PruneFrom: Hide: Show: ShowFrom: TagFocus: TagIgnore: TagShow: TagHide: NoInlines:false ShowColumns:false Granularity:}
sort="this" err=invalid "sort" value "this"
   {Output: CallTree:false RelativePercentages:false Unit:minimum CompactLabels:false SourcePath: TrimPath: IntelSyntax:false Mean:false SampleIndex: DivideBy:1 Normalize:false Sort:flat TagRoot: TagLeaf: DropNegative:false NodeCount:25 NodeFraction:0.25 EdgeFraction:0.001 Trim:true Focus:main Ignore: PruneFrom: Hide: Show: ShowFrom: TagFocus: TagIgnore: TagShow: TagHide: NoInlines:false ShowColumns:false Granularity:}
sort="cum" err=<nil>
   {Output: CallTree:false RelativePercentages:false Unit:minimum CompactLabels:false SourcePath: TrimPath: IntelSyntax:false Mean:false SampleIndex: DivideBy:1 Normalize:false Sort:cum TagRoot: TagLeaf: DropNegative:false NodeCount:25 NodeFraction:0.25 EdgeFraction:0.001 Trim:true Focus:main Ignore: PruneFrom: Hide: Show: ShowFrom: TagFocus: TagIgnore: TagShow: TagHide: NoInlines:false ShowColumns:false Granularity:}
lines="true" err=<nil>
   {Output: CallTree:false RelativePercentages:false Unit:minimum CompactLabels:false SourcePath: TrimPath: IntelSyntax:false Mean:false SampleIndex: DivideBy:1 Normalize:false Sort:cum TagRoot: TagLeaf: DropNegative:false NodeCount:25 NodeFraction:0.25 EdgeFraction:0.001 Trim:true Focus:main Ignore: PruneFrom: Hide: Show: ShowFrom: TagFocus: TagIgnore: TagShow: TagHide: NoInlines:false ShowColumns:false Granularity:lines}
granularity="bogus" err=invalid "granularity" value "bogus"
   {Output: CallTree:false RelativePercentages:false Unit:minimum CompactLabels:false SourcePath: TrimPath: IntelSyntax:false Mean:false SampleIndex: DivideBy:1 Normalize:false Sort:cum TagRoot: TagLeaf: DropNegative:false NodeCount:25 NodeFraction:0.25 EdgeFraction:0.001 Trim:true Focus:main Ignore: PruneFrom: Hide: Show: ShowFrom: TagFocus: TagIgnore: TagShow: TagHide: NoInlines:false ShowColumns:false Granularity:lines}
granularity="files" err=<nil>
   {Output: CallTree:false RelativePercentages:false Unit:minimum CompactLabels:false SourcePath: TrimPath: IntelSyntax:false Mean:false SampleIndex: DivideBy:1 Normalize:false Sort:cum TagRoot: TagLeaf: DropNegative:false NodeCount:25 NodeFraction:0.25 EdgeFraction:0.001 Trim:true Focus:main Ignore: PruneFrom: Hide: Show: ShowFrom: TagFocus: TagIgnore: TagShow: TagHide: NoInlines:false ShowColumns:false Granularity:files}
addresses="false" err=unknown config field "addresses"
   {Output: CallTree:false RelativePercentages:false Unit:minimum CompactLabels:false SourcePath: TrimPath: IntelSyntax:false Mean:false SampleIndex: DivideBy:1 Normalize:false Sort:cum TagRoot: TagLeaf: DropNegative:false NodeCount:25 NodeFraction:0.25 EdgeFraction:0.001 Trim:true Focus:main Ignore: PruneFrom: Hide: Show: ShowFrom: TagFocus: TagIgnore: TagShow: TagHide: NoInlines:false ShowColumns:false Granularity:files}
addresses="t" err=<nil>
   {Output: CallTree:false RelativePercentages:false Unit:minimum CompactLabels:false SourcePath: TrimPath: IntelSyntax:false Mean:false SampleIndex: DivideBy:1 Normalize:false Sort:cum TagRoot: TagLeaf: DropNegative:false NodeCount:25 NodeFraction:0.25 EdgeFraction:0.001 Trim:true Focus:main Ignore: PruneFrom: Hide: Show: ShowFrom: TagFocus: TagIgnore: TagShow: TagHide: NoInlines:false ShowColumns:false Granularity:addresses}
bogus="1" err=unknown config field "bogus"
   {Output: CallTree:false RelativePercentages:false Unit:minimum CompactLabels:false SourcePath: TrimPath: IntelSyntax:false Mean:false SampleIndex: DivideBy:1 Normalize:false Sort:cum TagRoot: TagLeaf: DropNegative:false NodeCount:25 NodeFraction:0.25 EdgeFraction:0.001 Trim:true Focus:main Ignore: PruneFrom: Hide: Show: ShowFrom: TagFocus: TagIgnore: TagShow: TagHide: NoInlines:false ShowColumns:false Granularity:addresses}
="" err=unknown config field ""
   {Output: CallTree:false RelativePercentages:false Unit:minimum CompactLabels:false SourcePath: TrimPath: IntelSyntax:false Mean:false SampleIndex: DivideBy:1 Normalize:false Sort:cum TagRoot: TagLeaf: DropNegative:false NodeCount:25 NodeFraction:0.25 EdgeFraction:0.001 Trim:true Focus:main Ignore: PruneFrom: Hide: Show: ShowFrom: TagFocus: TagIgnore: TagShow: TagHide: NoInlines:false ShowColumns:false Granularity:addresses}
call_tree="yes" err=<nil>
   {Output: CallTree:true RelativePercentages:false Unit:minimum CompactLabels:false SourcePath: TrimPath: IntelSyntax:false Mean:false SampleIndex: DivideBy:1 Normalize:false Sort:cum TagRoot: TagLeaf: DropNegative:false NodeCount:25 NodeFraction:0.25 EdgeFraction:0.001 Trim:true Focus:main Ignore: PruneFrom: Hide: Show: ShowFrom: TagFocus: TagIgnore: TagShow: TagHide: NoInlines:false ShowColumns:false Granularity:addresses}
call_tree="perhaps" err=illegal value "perhaps" for bool variable
   {Output: CallTree:true RelativePercentages:false Unit:minimum CompactLabels:false SourcePath: TrimPath: IntelSyntax:false Mean:false SampleIndex: DivideBy:1 Normalize:false Sort:cum TagRoot: TagLeaf: DropNegative:false NodeCount:25 NodeFraction:0.25 EdgeFraction:0.001 Trim:true Focus:main Ignore: PruneFrom: Hide: Show: ShowFrom: TagFocus: TagIgnore: TagShow: TagHide: NoInlines:false ShowColumns:false Granularity:addresses}
trim="n" err=<nil>
   {Output: CallTree:true RelativePercentages:false Unit:minimum CompactLabels:false SourcePath: TrimPath: IntelSyntax:false Mean:false SampleIndex: DivideBy:1 Normalize:false Sort:cum TagRoot: TagLeaf: DropNegative:false NodeCount:25 NodeFraction:0.25 EdgeFraction:0.001 Trim:false Focus:main Ignore: PruneFrom: Hide: Show: ShowFrom: TagFocus: TagIgnore: TagShow: TagHide: NoInlines:false ShowColumns:false Granularity:addresses}
divide_by="2.5" err=<nil>
   {Output: CallTree:true RelativePercentages:false Unit:minimum CompactLabels:false SourcePath: TrimPath: IntelSyntax:false Mean:false SampleIndex: DivideBy:2.5 Normalize:false Sort:cum TagRoot: TagLeaf: DropNegative:false NodeCount:25 NodeFraction:0.25 EdgeFraction:0.001 Trim:false Focus:main Ignore: PruneFrom: Hide: Show: ShowFrom: TagFocus: TagIgnore: TagShow: TagHide: NoInlines:false ShowColumns:false Granularity:addresses}
output="x.out" err=<nil>
   {Output:x.out CallTree:true RelativePercentages:false Unit:minimum CompactLabels:false SourcePath: TrimPath: IntelSyntax:false Mean:false SampleIndex: DivideBy:2.5 Normalize:false Sort:cum TagRoot: TagLeaf: DropNegative:false NodeCount:25 NodeFraction:0.25 EdgeFraction:0.001 Trim:false Focus:main Ignore: PruneFrom: Hide: Show: ShowFrom: TagFocus: TagIgnore: TagShow: TagHide: NoInlines:false ShowColumns:false Granularity:addresses}
sample_index="cpu" err=<nil>
   {Output:x.out CallTree:true RelativePercentages:false Unit:minimum CompactLabels:false SourcePath: TrimPath: IntelSyntax:false Mean:false SampleIndex:cpu DivideBy:2.5 Normalize:false Sort:cum TagRoot: TagLeaf: DropNegative:false NodeCount:25 NodeFraction:0.25 EdgeFraction:0.001 Trim:false Focus:main Ignore: PruneFrom: Hide: Show: ShowFrom: TagFocus: TagIgnore: TagShow: TagHide: NoInlines:false ShowColumns:false Granularity:addresses}
focus="" err=<nil>
   {Output:x.out CallTree:true RelativePercentages:false Unit:minimum CompactLabels:false SourcePath: TrimPath: IntelSyntax:false Mean:false SampleIndex:cpu DivideBy:2.5 Normalize:false Sort:cum TagRoot: TagLeaf: DropNegative:false NodeCount:25 NodeFraction:0.25 EdgeFraction:0.001 Trim:false Focus: Ignore: PruneFrom: Hide: Show: ShowFrom: TagFocus: TagIgnore: TagShow: TagHide: NoInlines:false ShowColumns:false Granularity:addresses}
tagroot="a,b" err=<nil>
   {Output:x.out CallTree:true RelativePercentages:false Unit:minimum CompactLabels:false SourcePath: TrimPath: IntelSyntax:false Mean:false SampleIndex:cpu DivideBy:2.5 Normalize:false Sort:cum TagRoot:a,b TagLeaf: DropNegative:false NodeCount:25 NodeFraction:0.25 EdgeFraction:0.001 Trim:false Focus: Ignore: PruneFrom: Hide: Show: ShowFrom: TagFocus: TagIgnore: TagShow: TagHide: NoInlines:false ShowColumns:false Granularity:addresses}
Focus="x" err=unknown config field "Focus"
   {Output:x.out CallTree:true RelativePercentages:false Unit:minimum CompactLabels:false SourcePath: TrimPath: IntelSyntax:false Mean:false SampleIndex:cpu DivideBy:2.5 Normalize:false Sort:cum TagRoot:a,b TagLeaf: DropNegative:false NodeCount:25 NodeFraction:0.25 EdgeFraction:0.001 Trim:false Focus: Ignore: PruneFrom: Hide: Show: ShowFrom: TagFocus: TagIgnore: TagShow: TagHide: NoInlines:false ShowColumns:false Granularity:addresses}
parse err=<nil>
   {Output:f CallTree:true RelativePercentages:false Unit:minimum CompactLabels:false SourcePath: TrimPath: IntelSyntax:false Mean:false SampleIndex:cpu DivideBy:2.5 Normalize:false Sort:cum TagRoot:a,b TagLeaf: DropNegative:false NodeCount:7 NodeFraction:0.25 EdgeFraction:0.001 Trim:false Focus:foo Ignore:bar PruneFrom: Hide: Show: ShowFrom: TagFocus: TagIgnore: TagShow: TagHide: NoInlines:false ShowColumns:false Granularity:addresses}
`

const zzBWantConcurrent = `{Output: CallTree:false RelativePercentages:false Unit:minimum CompactLabels:false SourcePath: TrimPath: IntelSyntax:false Mean:false SampleIndex: DivideBy:1 Normalize:false Sort:cum TagRoot: TagLeaf: DropNegative:false NodeCount:-1 NodeFraction:0.005 EdgeFraction:0.001 Trim:true Focus:focus-200 Ignore:ignore-200 PruneFrom: Hide:hide-200 Show:show-200 ShowFrom: TagFocus:tagfocus-200 TagIgnore:tagignore-200 TagShow: TagHide: NoInlines:false ShowColumns:false Granularity:}
`

const zzBWantWeb = `GET /top -> 200 len=29304 sha=7e378671646a0d30c49a476852d0dc9706acfd78e55bf8678cdc63b948de2a59 items=[F2:200/300 F3:100/100 F1:0/300] filters=[]
GET /top?f=F3 -> 200 len=29308 sha=161531c2ee2556a396aeec5edaf44c157b1871af84122969aa5eeaaf41cb2a47 items=[F3:100/100 F1:0/100 F2:0/100] filters=[focus=F3]
GET /top -> 200 len=29304 sha=7e378671646a0d30c49a476852d0dc9706acfd78e55bf8678cdc63b948de2a59 items=[F2:200/300 F3:100/100 F1:0/300] filters=[]
GET /flamegraph?i=F3 -> 200 len=45589 sha=1f0a6e889b8b2180a7412a8edf2be4d04da4390b8f81ad5d71f458c0e555c08d items=[] filters=[ignore=F3]
GET /top?n=abc -> 400 len=82 sha=8a213cfc1e60c60b9f8d36e09ec8d59139cb44a6d4d15be7c5c4728605cac289 items=[] filters=[]
GET /peek?f=F2 -> 200 len=27075 sha=fa58c68a233fbbc6095a01ef5c248b56c93b7379c93abf677aa5c37d3a20220b items=[] filters=[focus=F2]
GET /source?f=F1 -> 200 len=27496 sha=80625bb5a873a109e3fde6dee173444605261ad6cf653f86ce3aaab265357b78 items=[] filters=[]
GET /top -> 200 len=29304 sha=7e378671646a0d30c49a476852d0dc9706acfd78e55bf8678cdc63b948de2a59 items=[F2:200/300 F3:100/100 F1:0/300] filters=[]
SET focus="F3" err=<nil>
GET /top -> 200 len=29348 sha=4dc54422f24a7012e1cbc46bd4301cf982e3817091761834f5e9030394936aba items=[F3:100/100 F1:0/100 F2:0/100] filters=[focus=F3]
GET /top?f=F1&i=F3 -> 200 len=29239 sha=12aeb1cc1bd205680fbb4e280a25be7113ebe9c2739ec48165ddec5d1bee4a0a items=[F2:200/200 F1:0/200] filters=[focus=F1 ignore=F3]
GET /top -> 200 len=29348 sha=4dc54422f24a7012e1cbc46bd4301cf982e3817091761834f5e9030394936aba items=[F3:100/100 F1:0/100 F2:0/100] filters=[focus=F3]
SET cum="true" err=<nil>
GET /top -> 200 len=29348 sha=edca98948830e2bff6edb6e1d8ab39ae353cff598ae91ae15dda89bfd47de0ee items=[F1:0/100 F2:0/100 F3:100/100] filters=[focus=F3]
SET sort="nope" err=invalid "sort" value "nope"
GET /top -> 200 len=29348 sha=edca98948830e2bff6edb6e1d8ab39ae353cff598ae91ae15dda89bfd47de0ee items=[F1:0/100 F2:0/100 F3:100/100] filters=[focus=F3]
SET focus="" err=<nil>
SET flat="1" err=<nil>
GET /top -> 200 len=29304 sha=7e378671646a0d30c49a476852d0dc9706acfd78e55bf8678cdc63b948de2a59 items=[F2:200/300 F3:100/100 F1:0/300] filters=[]
SEQ /top -> 200 len=29304 sha=7e378671646a0d30c49a476852d0dc9706acfd78e55bf8678cdc63b948de2a59 items=[F2:200/300 F3:100/100 F1:0/300] filters=[]
SEQ /top?f=F3 -> 200 len=29308 sha=161531c2ee2556a396aeec5edaf44c157b1871af84122969aa5eeaaf41cb2a47 items=[F3:100/100 F1:0/100 F2:0/100] filters=[focus=F3]
SEQ /top?i=F3 -> 200 len=29217 sha=de606fccf11db22301b1f6f9cfeeba8fb66234a7abdd86b7f3616409a6ab8e3e items=[F2:200/200 F1:0/200] filters=[ignore=F3]
SEQ /top?h=F2 -> 200 len=29219 sha=30ffb84a6cb32b01205646e67663e7da2fad75dca598e29bafeca53e458ad6a5 items=[F1:200/300 F3:100/100] filters=[hide=F2]
SEQ /flamegraph -> 200 len=45840 sha=8da0247b06a2c45966f66265c4080c182017510c6ba305750b135d15491c718d items=[] filters=[]
SEQ /flamegraph?f=F3 -> 200 len=45754 sha=febc6f6d6787c2a2c0487f5a8622095eca71fb0822271e51c1fd9dfd0150338d items=[] filters=[focus=F3]
SEQ /peek?f=F2 -> 200 len=27075 sha=fa58c68a233fbbc6095a01ef5c248b56c93b7379c93abf677aa5c37d3a20220b items=[] filters=[focus=F2]
SEQ /top?sort=cum -> 200 len=29264 sha=f9df4847a9dcf741e0c2964441d0fdfc15224d6754892bf30fa4fdd3aded8503 items=[F1:0/300 F2:200/300 F3:100/100] filters=[]
`
