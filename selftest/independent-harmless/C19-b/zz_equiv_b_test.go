package driver

import (
	"fmt"
	"math/rand"
	"net/url"
	"reflect"
	"sort"
	"strings"
	"testing"
)

// Equivalence demonstration for change B (precomputed URL field metadata in
// config.go). Expected values were computed on the unchanged tree.

func zzBNonDefault(cfg config) string {
	def := config{}
	var parts []string
	v, d := reflect.ValueOf(cfg), reflect.ValueOf(def)
	for i := 0; i < v.NumField(); i++ {
		if !reflect.DeepEqual(v.Field(i).Interface(), d.Field(i).Interface()) {
			parts = append(parts, fmt.Sprintf("%s=%v", v.Type().Field(i).Name, v.Field(i).Interface()))
		}
	}
	return strings.Join(parts, " ")
}

func TestZZEquivB_MakeURL(t *testing.T) {
	full := config{
		Output: "out", DropNegative: true, CallTree: true, RelativePercentages: true,
		Unit: "auto", CompactLabels: true, SourcePath: "sp", TrimPath: "tp", IntelSyntax: true,
		NodeCount: 10, NodeFraction: 0.1, EdgeFraction: 0.2, Trim: false,
		Focus: "fo cus", Ignore: "ig&nore", PruneFrom: "prune=from", Hide: "h|de", Show: "show",
		ShowFrom: "show_from", TagFocus: "tagfocus", TagIgnore: "tagignore", TagShow: "tagshow",
		TagHide: "taghide", DivideBy: 3, Mean: true, Normalize: true, Sort: "cum",
		Granularity: "lines", NoInlines: true, ShowColumns: true, TagRoot: "r", TagLeaf: "l",
		SampleIndex: "alloc_space",
	}
	partial := defaultConfig()
	partial.Focus = "main"
	partial.NodeCount = 0
	partial.Trim = false
	partial.NodeFraction = 1e-7
	zero := config{}

	for i, c := range []struct {
		cfg     config
		initial string
		want    string
		changed bool
	}{
		{defaultConfig(), "/top", "/top", false},
		{defaultConfig(), "/top?f=x&zzz=1&si=2&trim=f", "/top?si=2&zzz=1", true},
		{defaultConfig(), "/top?f=&n=", "/top?f=&n=", false},
		{partial, "http://h:1/ui/flamegraph?config=abc", "http://h:1/ui/flamegraph?config=abc&f=main&n=0&nf=1e-07&trim=f", true},
		{partial, "/?f=main&n=0&nf=1e-07&trim=f", "/?f=main&n=0&nf=1e-07&trim=f", false},
		{partial, "/?f=main&n=0&nf=1e-07&trim=false", "/?f=main&n=0&nf=1e-07&trim=f", true},
		{zero, "/", "/?ef=0&n=0&nf=0&trim=f", true},
		{full, "/source?f=old&f=older&output=o", "/source?calltree=t&compact=t&dropneg=t&ef=0.2&f=fo+cus&g=lines&h=h%7Cde&i=ig%26nore&intel=t&mean=t&n=10&nf=0.1&noinlines=t&norm=t&output=o&prunefrom=prune%3Dfrom&rel=t&s=show&sf=show_from&showcolumns=t&sort=cum&tagleaf=l&tagroot=r&tf=tagfocus&th=taghide&ti=tagignore&trim=f&ts=tagshow&unit=auto", true},
	} {
		u, err := url.Parse(c.initial)
		if err != nil {
			t.Fatal(err)
		}
		got, changed := c.cfg.makeURL(*u)
		if got.String() != c.want || changed != c.changed {
			t.Errorf("case %d: makeURL(%q) = %q, %v; want %q, %v", i, c.initial, got.String(), changed, c.want, c.changed)
		}
	}
}

func TestZZEquivB_ApplyURL(t *testing.T) {
	base := currentConfig()
	defer setCurrentConfig(base)
	setCurrentConfig(defaultConfig())

	for i, c := range []struct {
		query   string
		want    string
		wantErr string
	}{
		{"", "Unit=minimum DivideBy=1 Sort=flat NodeCount=-1 NodeFraction=0.005 EdgeFraction=0.001 Trim=true", ""},
		{"f=&n=&trim=&sort=&g=", "Unit=minimum DivideBy=1 Sort=flat NodeCount=-1 NodeFraction=0.005 EdgeFraction=0.001 Trim=true", ""},
		{"f=a&f=b&i=c&n=7&nf=0.5&ef=1e-3&trim=0&sort=cum&g=files&si=inuse&calltree=yes&rel=T&norm=1",
			"CallTree=true RelativePercentages=true Unit=minimum SampleIndex=inuse DivideBy=1 Normalize=true Sort=cum NodeCount=7 NodeFraction=0.5 EdgeFraction=0.001 Focus=a Ignore=c Granularity=files", ""},
		// Parameters that are not URL parameters are ignored.
		{"output=o&source_path=s&trim_path=t&divide_by=5&focus=zz&nodecount=3&sample_index=9&config=name&unknown=1",
			"Unit=minimum DivideBy=1 Sort=flat NodeCount=-1 NodeFraction=0.005 EdgeFraction=0.001 Trim=true", ""},
		{"dropneg=t&compact=t&intel=t&mean=t&noinlines=t&showcolumns=t&tagroot=a&tagleaf=b&prunefrom=p&h=h&s=s&sf=sf&tf=tf&ti=ti&ts=ts&th=th&unit=ms",
			"Unit=ms CompactLabels=true IntelSyntax=true Mean=true DivideBy=1 Sort=flat TagRoot=a TagLeaf=b DropNegative=true NodeCount=-1 NodeFraction=0.005 EdgeFraction=0.001 Trim=true PruneFrom=p Hide=h Show=s ShowFrom=sf TagFocus=tf TagIgnore=ti TagShow=ts TagHide=th NoInlines=true ShowColumns=true", ""},
		{"n=x", "", `error setting config field nodecount: strconv.Atoi: parsing "x": invalid syntax`},
		{"nf=1.2.3", "", `error setting config field nodefraction: strconv.ParseFloat: parsing "1.2.3": invalid syntax`},
		{"sort=name", "", `error setting config field sort: invalid "sort" value "name"`},
		{"g=cheese", "", `error setting config field granularity: invalid "granularity" value "cheese"`},
		{"trim=maybe", "", `error setting config field trim: illegal value "maybe" for bool variable`},
		// The first failing field in struct order is reported.
		{"g=bad&calltree=bad&n=bad", "", `error setting config field call_tree: illegal value "bad" for bool variable`},
	} {
		q, err := url.ParseQuery(c.query)
		if err != nil {
			t.Fatal(err)
		}
		cfg := defaultConfig()
		err = cfg.applyURL(q)
		gotErr := ""
		if err != nil {
			gotErr = err.Error()
		}
		if gotErr != c.wantErr {
			t.Errorf("case %d: applyURL(%q) err = %q; want %q", i, c.query, gotErr, c.wantErr)
			continue
		}
		if err != nil {
			continue
		}
		if got := zzBNonDefault(cfg); got != c.want {
			t.Errorf("case %d: applyURL(%q):\n got %s\nwant %s", i, c.query, got, c.want)
		}
	}
}

func TestZZEquivB_IsBoolConfig(t *testing.T) {
	var names []string
	for n := range configFieldMap {
		names = append(names, n)
	}
	names = append(names, "nosuchfield", "")
	sort.Strings(names)
	var bools, others []string
	for _, n := range names {
		if isBoolConfig(n) {
			bools = append(bools, n)
		} else {
			others = append(others, n)
		}
	}
	const wantBools = "addresses call_tree compact_labels cum drop_negative filefunctions files flat functions intel_syntax lines mean noinlines normalize relative_percentages showcolumns trim"
	const wantOthers = " divide_by edgefraction focus granularity hide ignore nodecount nodefraction nosuchfield output prune_from sample_index show show_from sort source_path tagfocus taghide tagignore tagleaf tagroot tagshow trim_path unit"
	if got := strings.Join(bools, " "); got != wantBools {
		t.Errorf("bool configs = %q; want %q", got, wantBools)
	}
	if got := strings.Join(others, " "); got != wantOthers {
		t.Errorf("non-bool configs = %q; want %q", got, wantOthers)
	}
}

// Random saved configurations survive config -> URL -> config, and a
// parameter cleared to "" leaves the default in place.
func TestZZEquivB_RoundTrip(t *testing.T) {
	base := currentConfig()
	defer setCurrentConfig(base)
	setCurrentConfig(defaultConfig())

	rng := rand.New(rand.NewSource(19))
	strs := []string{"", "a", "main.foo", "x y", "a&b=c", "100%", "日本", "a|b.*", "t", "false"}
	var urls []string
	for iter := 0; iter < 200; iter++ {
		cfg := defaultConfig()
		v := reflect.ValueOf(&cfg).Elem()
		for _, f := range configFields {
			if !f.saved || rng.Intn(3) == 0 {
				continue
			}
			fv := v.FieldByIndex(f.field.Index)
			switch fv.Kind() {
			case reflect.Bool:
				fv.SetBool(rng.Intn(2) == 0)
			case reflect.Int:
				fv.SetInt(int64(rng.Intn(200) - 2))
			case reflect.Float64:
				fv.SetFloat(float64(rng.Intn(1000)) / 1000)
			case reflect.String:
				if len(f.choices) > 0 {
					fv.SetString(f.choices[rng.Intn(len(f.choices))])
				} else if f.name != "unit" {
					fv.SetString(strs[rng.Intn(len(strs))])
				} else {
					fv.SetString([]string{"minimum", "auto", "ms", "kb"}[rng.Intn(4)])
				}
			}
		}
		u, _ := cfg.makeURL(url.URL{Path: "/"})
		if iter < 3 {
			urls = append(urls, u.String())
		}
		got := defaultConfig()
		if err := got.applyURL(u.Query()); err != nil {
			t.Fatalf("iter %d: applyURL(%q): %v", iter, u.String(), err)
		}
		if !reflect.DeepEqual(got, cfg) {
			t.Fatalf("iter %d: round trip through %q:\n got %+v\nwant %+v", iter, u.String(), got, cfg)
		}
		if u2, changed := got.makeURL(u); changed || u2.String() != u.String() {
			t.Fatalf("iter %d: second makeURL changed %q to %q", iter, u.String(), u2.String())
		}
		// Clear every parameter to the empty string: result is the default.
		q := u.Query()
		for k := range q {
			q.Set(k, "")
		}
		cleared := defaultConfig()
		if err := cleared.applyURL(q); err != nil {
			t.Fatal(err)
		}
		if !reflect.DeepEqual(cleared, defaultConfig()) {
			t.Fatalf("iter %d: cleared params gave %+v", iter, cleared)
		}
	}
	want := []string{
		"/?calltree=t&ef=0.455&f=t&h=a%26b%3Dc&intel=t&mean=t&nf=0.331&norm=t&s=100%25&sf=100%25&showcolumns=t&tagleaf=x+y&tagroot=a&th=a&ts=t",
		"/?calltree=t&g=files&h=x+y&n=106&nf=0.543&noinlines=t&prunefrom=a%26b%3Dc&s=100%25&sort=cum&th=x+y&trim=f&unit=auto",
		"/?compact=t&ef=0.559&f=%E6%97%A5%E6%9C%AC&g=functions&intel=t&n=52&nf=0.543&noinlines=t&norm=t&prunefrom=a%7Cb.%2A&s=t&sort=cum&tagleaf=100%25&tf=t&th=a&ts=a&unit=ms",
	}
	if !reflect.DeepEqual(urls, want) {
		t.Errorf("first URLs = %q; want %q", urls, want)
	}
}
